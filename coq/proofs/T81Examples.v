(* Non-vacuity: concrete streams built by the spec writer parse, validate and decode. *)
From Coq Require Import List ZArith Bool Lia Arith.
From LJT Require Import model.T81Spec proofs.T81BlockProofs proofs.T81HuffProofs proofs.T81WriterProofs.
Import ListNotations.
Local Open Scope Z_scope.

Definition ex_dc : htab := (0, 0, [0; 3; 1; 0; 0; 0; 0; 0; 0; 0; 0; 0; 0; 0; 0; 0], [0; 3; 1; 2]).
Definition ex_ac : htab := (1, 0, [0; 3; 1; 0; 0; 0; 0; 0; 0; 0; 0; 0; 0; 0; 0; 0], [0; 2; 33; 240]).
Definition blk_of (l : list (nat * Z)) : list Z :=
  map (fun n => fold_left (fun acc p => if Nat.eqb (fst p) n then snd p else acc) l 0) (seq 0 64).

(* 8x8 grey, one block: DC 5, ZZ(1) = -2, ZZ(20) = 1 (run of 18 zeros: ZRL + 2/1), EOB *)
Definition ex1_blk := blk_of [(0%nat, 5); (1%nat, -2); (40%nat, 1)].
Definition ex1_im : image :=
  {| im_p := 8; im_y := 8; im_x := 8; im_comps := [(1, 1, 1, 0)]; im_coefs := [[ex1_blk]] |}.
Definition ex1_ch : choices :=
  {| ch_items := [IMisc 0 (SegDQT [(0, 0, repeat 1 64)]); IFrame 0 0; IMisc 0 (SegDHT [ex_dc; ex_ac]);
                  IScan 0 [(1, 0, 0)] []];
     ch_eoi_fill := 0 |}.

Lemma ex1_im_ok : im_ok ex1_im.
Proof.
  apply im_okb_ok. vm_compute. reflexivity.
Qed.

Lemma ex1_runs :
  exists bytes s, t81_emit ex1_ch ex1_im = Some bytes /\ layout ex1_ch ex1_im = Some s /\ stream_ok s = true /\
                  t81_parse bytes = Some s /\ t81_decode s = Some [(1, 1, [ex1_blk])] /\ im_ok ex1_im /\
                  length bytes = 145%nat.
Proof.
  eexists. eexists. split; [vm_compute; reflexivity|].
  split; [vm_compute; reflexivity|]. split; [vm_compute; reflexivity|].
  split; [vm_compute; reflexivity|]. split; [vm_compute; reflexivity|]. split; [apply ex1_im_ok|vm_compute; reflexivity].
Qed.

(* 17x9, two components 2x1 / 1x1 with ids 7 and 200, SOF1, a 16-bit quantization table at
   destination 3 in the same DQT as an 8-bit one, Huffman destinations 3 and 2, DRI after the
   frame header with Ri = 1 (4 MCUs -> RST0, RST1, RST2), fill bytes before markers and before RST1,
   a comment containing X'FF' bytes; interleaved scan; blocks added to complete the MCUs differ
   from the real ones *)
Definition ex2_dc : htab := (0, 3, [0; 3; 1; 0; 0; 0; 0; 0; 0; 0; 0; 0; 0; 0; 0; 0], [0; 3; 1; 2]).
Definition ex2_ac : htab := (1, 2, [0; 3; 1; 0; 0; 0; 0; 0; 0; 0; 0; 0; 0; 0; 0; 0], [0; 2; 33; 240]).
Definition ex2_b (dc : Z) := blk_of [(0%nat, dc); (1%nat, -2); (40%nat, 1)].
Definition ex2_im : image :=
  {| im_p := 8; im_y := 9; im_x := 17; im_comps := [(7, 2, 1, 3); (200, 1, 1, 0)];
     im_coefs := [ [ex2_b 1; ex2_b 2; ex2_b 3; ex2_b 4;
                    ex2_b 5; ex2_b 6; ex2_b 7; ex2_b 0];
                   [ex2_b 7; ex2_b (-7);
                    ex2_b 3; ex2_b 0] ] |}.
Definition ex2_ch : choices :=
  {| ch_items := [IMisc 0 (SegCOM [255; 216; 255; 0]);
                  IMisc 2 (SegDQT [(1, 3, repeat 300 64); (0, 0, repeat 2 64)]);
                  IMisc 0 (SegDHT [ex2_dc]); IFrame 1 1; IMisc 0 (SegDRI 1); IMisc 0 (SegDHT [ex2_ac]);
                  IMisc 0 (SegAPP 9 [1; 2; 3]);
                  IScan 0 [(7, 3, 2); (200, 3, 2)] [0%nat; 3%nat]];
     ch_eoi_fill := 1 |}.

Lemma ex2_im_ok : im_ok ex2_im.
Proof.
  apply im_okb_ok. vm_compute. reflexivity.
Qed.

Lemma ex2_runs :
  exists bytes s, t81_emit ex2_ch ex2_im = Some bytes /\ layout ex2_ch ex2_im = Some s /\ stream_ok s = true /\
                  t81_parse bytes = Some s /\
                  t81_decode s = Some [(3, 2, [ex2_b 1; ex2_b 2; ex2_b 3; ex2_b 5; ex2_b 6; ex2_b 7]);
                                       (2, 2, [ex2_b 7; ex2_b (-7); ex2_b 3; ex2_b 0])] /\ im_ok ex2_im.
Proof.
  eexists. eexists. split; [vm_compute; reflexivity|].
  split; [vm_compute; reflexivity|]. split; [vm_compute; reflexivity|].
  split; [vm_compute; reflexivity|]. split; [vm_compute; reflexivity|apply ex2_im_ok].
Qed.

(* the example tables satisfy the hypothesis of the DECODE theorem *)
Lemma ex_tables_ok : table_ok [0; 3; 1; 0; 0; 0; 0; 0; 0; 0; 0; 0; 0; 0; 0; 0] = true.
Proof. vm_compute. reflexivity. Qed.
