(* C09 -- buffered-image interlock (lossless model): with the current source the final pass does not
   depend on the interleaving; with the pre-fix behaviour it does. *)
From Coq Require Import List ZArith Lia Arith Bool.
From LJT Require Import model.SuspendBuf.
Import ListNotations.

Definition last_opt (l : list Z) : option Z := match l with [] => None | _ => Some (last l 0%Z) end.

(* input-side invariant: the store is the undifferenced prefix, the predictor is armed iff nothing was read *)
Definition binv (diffs : list Z) (s : bst) : Prop :=
  in_rows s <= length diffs /\ first_row s = Nat.eqb (in_rows s) 0 /\
  length (store s) = in_rows s /\
  store s ++ undiff (skipn (in_rows s) diffs) (last_opt (store s)) = undiff diffs None.

Lemma last_opt_snoc : forall l x, last_opt (l ++ [x]) = Some x.
Proof. intros. unfold last_opt. destruct (l ++ [x]) eqn:E; [now destruct l|]. rewrite <- E. now rewrite last_last. Qed.

Lemma consume1_inv : forall diffs s, binv diffs s -> binv diffs (consume1 diffs s).
Proof.
  intros diffs s (A & B & C & D). unfold consume1.
  destruct (nth_error diffs (in_rows s)) as [d|] eqn:E; [|repeat split; auto].
  assert (Lt : in_rows s < length diffs) by (apply nth_error_Some; congruence).
  unfold binv. cbn [in_rows first_row store out_row in_pass]. repeat split; try lia; try reflexivity.
  - rewrite app_length. simpl. lia.
  - rewrite last_opt_snoc.
    pose proof (nth_error_split diffs _ E) as (l1 & l2 & F & G).
    assert (Sk : skipn (in_rows s) diffs = d :: l2).
    { rewrite F, <- G, skipn_app, skipn_all, Nat.sub_diag. reflexivity. }
    assert (Sk2 : skipn (S (in_rows s)) diffs = l2).
    { rewrite F. replace (S (in_rows s)) with (length (l1 ++ [d])) by (rewrite app_length; simpl; lia).
      replace (l1 ++ d :: l2) with ((l1 ++ [d]) ++ l2) by (rewrite <- app_assoc; reflexivity).
      rewrite skipn_app, skipn_all, Nat.sub_diag. reflexivity. }
    rewrite Sk in D. rewrite Sk2. simpl in D. rewrite <- D, <- app_assoc. simpl.
    assert (P : (if first_row s then 128%Z else last (store s) 0%Z) =
                match last_opt (store s) with None => 128%Z | Some p => p end).
    { rewrite B. unfold last_opt. destruct (store s) eqn:S0; simpl in C.
      - rewrite <- C. reflexivity.
      - rewrite <- C. reflexivity. }
    rewrite P. reflexivity.
Qed.

Lemma consume_n_inv : forall n diffs s, binv diffs s -> binv diffs (consume_n n diffs s).
Proof. induction n; intros; simpl; auto. apply IHn. now apply consume1_inv. Qed.

Lemma consume1_rows : forall diffs s, in_rows s < length diffs -> in_rows (consume1 diffs s) = S (in_rows s).
Proof.
  intros. unfold consume1. destruct (nth_error diffs (in_rows s)) eqn:E; [reflexivity|].
  apply nth_error_None in E. lia.
Qed.

Lemma consume_n_all : forall n diffs s, binv diffs s -> length diffs <= in_rows s + n ->
  in_rows (consume_n n diffs s) = length diffs.
Proof.
  induction n; intros diffs s I H; simpl.
  - destruct I as (A & _). lia.
  - destruct (Nat.lt_ge_cases (in_rows s) (length diffs)).
    + apply IHn; [now apply consume1_inv|]. rewrite consume1_rows by auto. lia.
    + apply IHn; [now apply consume1_inv|].
      unfold consume1. destruct (nth_error diffs (in_rows s)) eqn:E; [|lia].
      assert (in_rows s < length diffs) by (apply nth_error_Some; congruence). lia.
Qed.

Lemma bstep_inv : forall diffs s o, binv diffs s -> binv diffs (bstep false diffs s o).
Proof.
  intros diffs s o I. destruct o; simpl.
  - now apply consume1_inv.
  - exact I.
  - destruct (in_pass s); [|exact I].
    destruct (Nat.leb (in_rows s) (out_row s)); [apply consume1_inv in I|]; exact I.
  - apply (consume_n_inv (length diffs)) in I. exact I.
Qed.

Lemma brun_inv : forall diffs ops s, binv diffs s -> binv diffs (fold_left (bstep false diffs) ops s).
Proof. induction ops; intros; simpl; auto. apply IHops. now apply bstep_inv. Qed.

Lemma binit_inv : forall diffs, binv diffs binit.
Proof. intros. unfold binv, binit. simpl. repeat split; auto. lia. Qed.

(* (5) current source: the final pass is the plain undifferenced image under every interleaving *)
Theorem bufimage_final_pass : forall diffs ops, final_image false diffs ops = undiff diffs None.
Proof.
  intros. unfold final_image, brun. rewrite fold_left_app. simpl.
  set (s := fold_left (bstep false diffs) ops binit).
  assert (I : binv diffs s) by (apply brun_inv, binit_inv).
  pose proof (consume_n_inv (length diffs) diffs s I) as (A & B & C & D).
  rewrite (consume_n_all (length diffs) diffs s I) in D by lia.
  rewrite skipn_all in D. simpl in D. now rewrite app_nil_r in D.
Qed.

(* the behaviour before the fix (start_pass_lossless at every output pass): a pass started in the
   middle of the scan corrupts the final image -- the witness that the check replayed on the code *)
Example bufimage_reset_refuted_before_fix :
  final_image true [10; 20; 30; 40]%Z [Consume; Consume; StartOut; ReadRow] <> undiff [10; 20; 30; 40]%Z None.
Proof. vm_compute. discriminate. Qed.

Example bufimage_example_schedules :
  final_image false [10; 20; 30; 40]%Z [Consume; Consume; StartOut; ReadRow; Consume; ReadRow; FinishOut; StartOut; ReadRow]
  = [138; 158; 188; 228]%Z.
Proof. vm_compute. reflexivity. Qed.

(* ------------------------------------------------------------ the display loop *)
Lemma binv_store : forall diffs s, binv diffs s -> store s = firstn (in_rows s) (undiff diffs None).
Proof.
  intros diffs s (A & B & C & D). rewrite <- D, <- C, firstn_app, firstn_all, Nat.sub_diag. simpl.
  now rewrite app_nil_r.
Qed.

Lemma undiff_length : forall diffs p, length (undiff diffs p) = length diffs.
Proof. induction diffs; intros; simpl; auto. Qed.

Lemma binv_outrow : forall diffs s o p, binv diffs s ->
  binv diffs {| in_rows := in_rows s; first_row := first_row s; store := store s; out_row := o; in_pass := p |}.
Proof. intros diffs s o p H. exact H. Qed.

Lemma force_spec : forall fuel ahead diffs s, binv diffs s -> length diffs <= in_rows s + fuel ->
  let s1 := force_input fuel ahead diffs s in
  binv diffs s1 /\ out_row s1 = out_row s /\ in_rows s <= in_rows s1 /\
  (out_row s + ahead <= in_rows s1 \/ length diffs <= in_rows s1).
Proof.
  induction fuel as [|f IH]; intros ahead diffs s I H; simpl.
  - split; [exact I|]. split; [reflexivity|]. split; [lia|]. right. lia.
  - destruct (Nat.leb (out_row s + ahead) (in_rows s) || Nat.leb (length diffs) (in_rows s)) eqn:E.
    + split; [exact I|]. split; [reflexivity|]. split; [lia|].
      apply orb_true_iff in E. destruct E as [E|E]; apply Nat.leb_le in E; auto.
    + apply orb_false_iff in E. destruct E as [_ E]. apply Nat.leb_gt in E.
      assert (R : in_rows (consume1 diffs s) = S (in_rows s)) by (now apply consume1_rows).
      destruct (IH ahead diffs (consume1 diffs s) (consume1_inv _ _ I)) as (A & B & C & D); [lia|].
      assert (O : out_row (consume1 diffs s) = out_row s).
      { unfold consume1. destruct (nth_error diffs (in_rows s)); reflexivity. }
      rewrite O in *. split; [exact A|]. split; [exact B|]. split; [lia|]. exact D.
Qed.

Lemma nth_error_firstn_lt {A} : forall n i (l : list A), i < n -> nth_error (firstn n l) i = nth_error l i.
Proof.
  induction n; intros i l H; [lia|]. destruct l; [now destruct i|]. destruct i; simpl; [reflexivity|]. apply IHn. lia.
Qed.

Lemma live_pass_rows : forall n ahead diffs s, 1 <= ahead -> binv diffs s -> out_row s + n = length diffs ->
  live_pass n ahead diffs s = map Some (skipn (out_row s) (undiff diffs None)).
Proof.
  induction n as [|n IH]; intros ahead diffs s Ha I Hn; simpl.
  - rewrite skipn_all2; [reflexivity|]. rewrite undiff_length. lia.
  - destruct (force_spec (length diffs) ahead diffs s I) as (A & B & C & D); [lia|].
    set (s1 := force_input (length diffs) ahead diffs s) in *.
    assert (Lt : out_row s < in_rows s1) by (destruct D; lia).
    assert (Le : in_rows s1 <= length diffs) by (destruct A; auto).
    assert (U : out_row s < length (undiff diffs None)) by (rewrite undiff_length; lia).
    assert (E1 : nth_error (store s1) (out_row s1) = nth_error (undiff diffs None) (out_row s)).
    { rewrite (binv_store _ _ A), B. now apply nth_error_firstn_lt. }
    rewrite E1.
    destruct (nth_error (undiff diffs None) (out_row s)) as [v|] eqn:N; [|apply nth_error_None in N; lia].
    rewrite (IH ahead diffs); [|exact Ha|exact A|simpl; lia].
    simpl out_row. rewrite B.
    pose proof (nth_error_split _ _ N) as (l1 & l2 & F & G).
    rewrite F. rewrite <- G.
    replace (S (length l1)) with (length (l1 ++ [v])) by (rewrite app_length; simpl; lia).
    rewrite (skipn_app (length l1) l1), skipn_all, Nat.sub_diag. simpl.
    replace (l1 ++ v :: l2) with ((l1 ++ [v]) ++ l2) by (rewrite <- app_assoc; reflexivity).
    rewrite skipn_app, skipn_all, Nat.sub_diag. reflexivity.
Qed.

(* a pass started at ANY point of the scan shows, in every row, the data of that scan for the row,
   provided the output side keeps the input at least one row ahead *)
Theorem display_pass_complete : forall ahead diffs ops, 1 <= ahead ->
  display_pass ahead diffs (brun false diffs ops) = map Some (undiff diffs None).
Proof.
  intros. unfold display_pass.
  rewrite live_pass_rows.
  - reflexivity.
  - exact H.
  - exact (brun_inv diffs ops binit (binit_inv diffs)).
  - reflexivity.
Qed.

(* rows_ahead = 0 (seeded change C07-5): rows are rendered before their data has been read *)
Example display_pass_zero_ahead_refuted :
  display_pass 0 [10; 20; 30]%Z (brun false [10; 20; 30]%Z [Consume]) <> map Some (undiff [10; 20; 30]%Z None).
Proof. vm_compute. discriminate. Qed.

Example display_pass_example :
  display_pass 1 [10; 20; 30]%Z (brun false [10; 20; 30]%Z [Consume]) = [Some 138; Some 158; Some 188]%Z.
Proof. vm_compute. reflexivity. Qed.
