(* C09 -- buffered-image interlock (lossless model): with the current source the final pass does not
   depend on the interleaving; with the pre-fix behaviour it does. *)
From Coq Require Import List ZArith Lia Arith Bool.
From LJT Require Import model.SuspendBuf.
Import ListNotations.

Definition last_opt (l : list Z) : option Z := match l with [] => None | _ => Some (last l 0%Z) end.

(* input-side invariant: the store is the undifferenced prefix, the predictor is armed iff nothing was read *)
Definition binv (diffs : list Z) (s : bst) : Prop :=
  in_rows s <= length diffs /\ first_row s = Nat.eqb (in_rows s) 0 /\
  length (store s) = in_rows s /\
  store s ++ undiff (skipn (in_rows s) diffs) (last_opt (store s)) = undiff diffs None.

Lemma last_opt_snoc : forall l x, last_opt (l ++ [x]) = Some x.
Proof. intros. unfold last_opt. destruct (l ++ [x]) eqn:E; [now destruct l|]. rewrite <- E. now rewrite last_last. Qed.

Lemma consume1_inv : forall diffs s, binv diffs s -> binv diffs (consume1 diffs s).
Proof.
  intros diffs s (A & B & C & D). unfold consume1.
  destruct (nth_error diffs (in_rows s)) as [d|] eqn:E; [|repeat split; auto].
  assert (Lt : in_rows s < length diffs) by (apply nth_error_Some; congruence).
  unfold binv. cbn [in_rows first_row store out_row in_pass]. repeat split; try lia; try reflexivity.
  - rewrite app_length. simpl. lia.
  - rewrite last_opt_snoc.
    pose proof (nth_error_split diffs _ E) as (l1 & l2 & F & G).
    assert (Sk : skipn (in_rows s) diffs = d :: l2).
    { rewrite F, <- G, skipn_app, skipn_all, Nat.sub_diag. reflexivity. }
    assert (Sk2 : skipn (S (in_rows s)) diffs = l2).
    { rewrite F. replace (S (in_rows s)) with (length (l1 ++ [d])) by (rewrite app_length; simpl; lia).
      replace (l1 ++ d :: l2) with ((l1 ++ [d]) ++ l2) by (rewrite <- app_assoc; reflexivity).
      rewrite skipn_app, skipn_all, Nat.sub_diag. reflexivity. }
    rewrite Sk in D. rewrite Sk2. simpl in D. rewrite <- D, <- app_assoc. simpl.
    assert (P : (if first_row s then 128%Z else last (store s) 0%Z) =
                match last_opt (store s) with None => 128%Z | Some p => p end).
    { rewrite B. unfold last_opt. destruct (store s) eqn:S0; simpl in C.
      - rewrite <- C. reflexivity.
      - rewrite <- C. reflexivity. }
    rewrite P. reflexivity.
Qed.

Lemma consume_n_inv : forall n diffs s, binv diffs s -> binv diffs (consume_n n diffs s).
Proof. induction n; intros; simpl; auto. apply IHn. now apply consume1_inv. Qed.

Lemma consume1_rows : forall diffs s, in_rows s < length diffs -> in_rows (consume1 diffs s) = S (in_rows s).
Proof.
  intros. unfold consume1. destruct (nth_error diffs (in_rows s)) eqn:E; [reflexivity|].
  apply nth_error_None in E. lia.
Qed.

Lemma consume_n_all : forall n diffs s, binv diffs s -> length diffs <= in_rows s + n ->
  in_rows (consume_n n diffs s) = length diffs.
Proof.
  induction n; intros diffs s I H; simpl.
  - destruct I as (A & _). lia.
  - destruct (Nat.lt_ge_cases (in_rows s) (length diffs)).
    + apply IHn; [now apply consume1_inv|]. rewrite consume1_rows by auto. lia.
    + apply IHn; [now apply consume1_inv|].
      unfold consume1. destruct (nth_error diffs (in_rows s)) eqn:E; [|lia].
      assert (in_rows s < length diffs) by (apply nth_error_Some; congruence). lia.
Qed.

Lemma bstep_inv : forall diffs s o, binv diffs s -> binv diffs (bstep false diffs s o).
Proof.
  intros diffs s o I. destruct o; simpl.
  - now apply consume1_inv.
  - exact I.
  - destruct (in_pass s); [|exact I].
    destruct (Nat.leb (in_rows s) (out_row s)); [apply consume1_inv in I|]; exact I.
  - apply (consume_n_inv (length diffs)) in I. exact I.
Qed.

Lemma brun_inv : forall diffs ops s, binv diffs s -> binv diffs (fold_left (bstep false diffs) ops s).
Proof. induction ops; intros; simpl; auto. apply IHops. now apply bstep_inv. Qed.

Lemma binit_inv : forall diffs, binv diffs binit.
Proof. intros. unfold binv, binit. simpl. repeat split; auto. lia. Qed.

(* (5) current source: the final pass is the plain undifferenced image under every interleaving *)
Theorem bufimage_final_pass : forall diffs ops, final_image false diffs ops = undiff diffs None.
Proof.
  intros. unfold final_image, brun. rewrite fold_left_app. simpl.
  set (s := fold_left (bstep false diffs) ops binit).
  assert (I : binv diffs s) by (apply brun_inv, binit_inv).
  pose proof (consume_n_inv (length diffs) diffs s I) as (A & B & C & D).
  rewrite (consume_n_all (length diffs) diffs s I) in D by lia.
  rewrite skipn_all in D. simpl in D. now rewrite app_nil_r in D.
Qed.

(* the behaviour before the fix (start_pass_lossless at every output pass): a pass started in the
   middle of the scan corrupts the final image -- the witness that the check replayed on the code *)
Example bufimage_reset_refuted_before_fix :
  final_image true [10; 20; 30; 40]%Z [Consume; Consume; StartOut; ReadRow] <> undiff [10; 20; 30; 40]%Z None.
Proof. vm_compute. discriminate. Qed.

Example bufimage_example_schedules :
  final_image false [10; 20; 30; 40]%Z [Consume; Consume; StartOut; ReadRow; Consume; ReadRow; FinishOut; StartOut; ReadRow]
  = [138; 158; 188; 228]%Z.
Proof. vm_compute. reflexivity. Qed.

(* ------------------------------------------------------------ the display loop *)
Lemma binv_store : forall diffs s, binv diffs s -> store s = firstn (in_rows s) (undiff diffs None).
Proof.
  intros diffs s (A & B & C & D). rewrite <- D, <- C, firstn_app, firstn_all, Nat.sub_diag. simpl.
  now rewrite app_nil_r.
Qed.

Lemma undiff_length : forall diffs p, length (undiff diffs p) = length diffs.
Proof. induction diffs; intros; simpl; auto. Qed.

Lemma binv_outrow : forall diffs s o p, binv diffs s ->
  binv diffs {| in_rows := in_rows s; first_row := first_row s; store := store s; out_row := o; in_pass := p |}.
Proof. intros diffs s o p H. exact H. Qed.

Lemma force_spec : forall fuel ahead diffs s, binv diffs s -> length diffs <= in_rows s + fuel ->
  let s1 := force_input fuel ahead diffs s in
  binv diffs s1 /\ out_row s1 = out_row s /\ in_rows s <= in_rows s1 /\
  (out_row s + ahead <= in_rows s1 \/ length diffs <= in_rows s1).
Proof.
  induction fuel as [|f IH]; intros ahead diffs s I H; simpl.
  - split; [exact I|]. split; [reflexivity|]. split; [lia|]. right. lia.
  - destruct (Nat.leb (out_row s + ahead) (in_rows s) || Nat.leb (length diffs) (in_rows s)) eqn:E.
    + split; [exact I|]. split; [reflexivity|]. split; [lia|].
      apply orb_true_iff in E. destruct E as [E|E]; apply Nat.leb_le in E; auto.
    + apply orb_false_iff in E. destruct E as [_ E]. apply Nat.leb_gt in E.
      assert (R : in_rows (consume1 diffs s) = S (in_rows s)) by (now apply consume1_rows).
      destruct (IH ahead diffs (consume1 diffs s) (consume1_inv _ _ I)) as (A & B & C & D); [lia|].
      assert (O : out_row (consume1 diffs s) = out_row s).
      { unfold consume1. destruct (nth_error diffs (in_rows s)); reflexivity. }
      rewrite O in *. split; [exact A|]. split; [exact B|]. split; [lia|]. exact D.
Qed.

Lemma nth_error_firstn_lt {A} : forall n i (l : list A), i < n -> nth_error (firstn n l) i = nth_error l i.
Proof.
  induction n; intros i l H; [lia|]. destruct l; [now destruct i|]. destruct i; simpl; [reflexivity|]. apply IHn. lia.
Qed.

Lemma live_pass_rows : forall n ahead diffs s, 1 <= ahead -> binv diffs s -> out_row s + n = length diffs ->
  live_pass n ahead diffs s = map Some (skipn (out_row s) (undiff diffs None)).
Proof.
  induction n as [|n IH]; intros ahead diffs s Ha I Hn; simpl.
  - rewrite skipn_all2; [reflexivity|]. rewrite undiff_length. lia.
  - destruct (force_spec (length diffs) ahead diffs s I) as (A & B & C & D); [lia|].
    set (s1 := force_input (length diffs) ahead diffs s) in *.
    assert (Lt : out_row s < in_rows s1) by (destruct D; lia).
    assert (Le : in_rows s1 <= length diffs) by (destruct A; auto).
    assert (U : out_row s < length (undiff diffs None)) by (rewrite undiff_length; lia).
    assert (E1 : nth_error (store s1) (out_row s1) = nth_error (undiff diffs None) (out_row s)).
    { rewrite (binv_store _ _ A), B. now apply nth_error_firstn_lt. }
    rewrite E1.
    destruct (nth_error (undiff diffs None) (out_row s)) as [v|] eqn:N; [|apply nth_error_None in N; lia].
    rewrite (IH ahead diffs); [|exact Ha|exact A|simpl; lia].
    simpl out_row. rewrite B.
    pose proof (nth_error_split _ _ N) as (l1 & l2 & F & G).
    rewrite F. rewrite <- G.
    replace (S (length l1)) with (length (l1 ++ [v])) by (rewrite app_length; simpl; lia).
    rewrite (skipn_app (length l1) l1), skipn_all, Nat.sub_diag. simpl.
    replace (l1 ++ v :: l2) with ((l1 ++ [v]) ++ l2) by (rewrite <- app_assoc; reflexivity).
    rewrite skipn_app, skipn_all, Nat.sub_diag. reflexivity.
Qed.

(* a pass started at ANY point of the scan shows, in every row, the data of that scan for the row,
   provided the output side keeps the input at least one row ahead *)
Theorem display_pass_complete : forall ahead diffs ops, 1 <= ahead ->
  display_pass ahead diffs (brun false diffs ops) = map Some (undiff diffs None).
Proof.
  intros. unfold display_pass.
  rewrite live_pass_rows.
  - reflexivity.
  - exact H.
  - exact (brun_inv diffs ops binit (binit_inv diffs)).
  - reflexivity.
Qed.

(* rows_ahead = 0 (seeded change C07-5): rows are rendered before their data has been read *)
Example display_pass_zero_ahead_refuted :
  display_pass 0 [10; 20; 30]%Z (brun false [10; 20; 30]%Z [Consume]) <> map Some (undiff [10; 20; 30]%Z None).
Proof. vm_compute. discriminate. Qed.

Example display_pass_example :
  display_pass 1 [10; 20; 30]%Z (brun false [10; 20; 30]%Z [Consume]) = [Some 138; Some 158; Some 188]%Z.
Proof. vm_compute. reflexivity. Qed.

(* ------------------------------------------------------------ multi-scan coefficient arrays *)
(* consistent prefix: rows before the input row hold the scans 1..scan, the others 1..scan-1 *)
Definition pinv (nscans nrows : nat) (s : pst) : Prop :=
  1 <= p_scan s /\ p_scan s <= nscans /\ length (p_ver s) = nrows /\
  (forall j, j < nrows -> nth j (p_ver s) 0 = if Nat.ltb j (p_row s) then p_scan s else p_scan s - 1) /\
  (if p_eoi s then p_scan s = nscans /\ p_row s = nrows else p_row s < nrows).

Lemma setn_length : forall i v l, length (setn i v l) = length l.
Proof. induction i; destruct l; simpl; auto. Qed.
Lemma nth_setn_same : forall i v l, i < length l -> nth i (setn i v l) 0 = v.
Proof. induction i; destruct l; simpl; intros; try lia; auto. apply IHi. lia. Qed.
Lemma nth_setn_other : forall i j v l, i <> j -> nth i (setn j v l) 0 = nth i l 0.
Proof. induction i; destruct j; destruct l; simpl; intros; auto; try lia. all: try (apply IHi; lia). Qed.

Lemma pinit_inv : forall nscans nrows, 1 <= nscans -> 1 <= nrows -> pinv nscans nrows (pinit nrows).
Proof.
  intros. unfold pinv, pinit. simpl. repeat split; auto; try lia; try apply repeat_length.
  intros j Hj. rewrite nth_repeat. reflexivity.
Qed.

Lemma pconsume_inv : forall nscans nrows s, pinv nscans nrows s -> pinv nscans nrows (pconsume nscans nrows s).
Proof.
  intros nscans nrows s (A & B & C & D & E). unfold pconsume.
  destruct (p_eoi s) eqn:Eo; [repeat split; auto; now rewrite Eo|].
  assert (V : forall j, j < nrows -> nth j (setn (p_row s) (p_scan s) (p_ver s)) 0 =
                                   if Nat.ltb j (S (p_row s)) then p_scan s else p_scan s - 1).
  { intros j Hj. destruct (Nat.eq_dec j (p_row s)) as [->|N].
    - rewrite nth_setn_same by lia. destruct (Nat.ltb_spec (p_row s) (S (p_row s))); [reflexivity|lia].
    - rewrite nth_setn_other by auto. rewrite D by auto.
      destruct (Nat.ltb_spec j (p_row s)); destruct (Nat.ltb_spec j (S (p_row s))); try reflexivity; lia. }
  destruct (Nat.ltb_spec (S (p_row s)) nrows).
  - unfold pinv. simpl. rewrite setn_length. repeat split; auto.
  - destruct (Nat.ltb_spec (p_scan s) nscans).
    + unfold pinv. simpl. rewrite setn_length. repeat split; auto; try lia.
      intros j Hj. rewrite V by auto. destruct (Nat.ltb_spec j (S (p_row s))); [|lia]. simpl. lia.
    + unfold pinv. simpl. rewrite setn_length. repeat split; auto; lia.
Qed.

(* what remains to be read *)
Definition pleft (nscans nrows : nat) (s : pst) : nat :=
  if p_eoi s then 0 else (nscans - p_scan s) * nrows + (nrows - p_row s).

Lemma pconsume_less : forall nscans nrows s, pinv nscans nrows s -> p_eoi s = false ->
  pleft nscans nrows (pconsume nscans nrows s) < pleft nscans nrows s.
Proof.
  intros nscans nrows s (A & B & C & D & E) Eo. unfold pleft, pconsume. rewrite Eo in *.
  destruct (Nat.ltb_spec (S (p_row s)) nrows); simpl; [lia|].
  destruct (Nat.ltb_spec (p_scan s) nscans); simpl; [|lia].
  replace (nscans - p_scan s) with (S (nscans - S (p_scan s))) by lia. simpl. lia.
Qed.

Lemma pforce_spec : forall fuel ahead nscans nrows N r s, pinv nscans nrows s -> pleft nscans nrows s < fuel ->
  let s1 := pforce fuel ahead nscans nrows N r s in
  pinv nscans nrows s1 /\
  (p_eoi s1 = true \/ (N <= p_scan s1 /\ (p_scan s1 = N -> r + ahead <= p_row s1))).
Proof.
  induction fuel as [|f IH]; intros ahead nscans nrows N r s I L; [lia|]. simpl.
  destruct (p_eoi s) eqn:Eo; [split; auto|].
  destruct (Nat.ltb (p_scan s) N || (Nat.eqb (p_scan s) N && Nat.ltb (p_row s) (r + ahead))) eqn:C.
  - apply IH; [now apply pconsume_inv|]. pose proof (pconsume_less _ _ _ I Eo). lia.
  - split; [exact I|]. right. apply orb_false_iff in C. destruct C as [C1 C2].
    apply Nat.ltb_ge in C1. split; [exact C1|]. intros Hs.
    apply andb_false_iff in C2. destruct C2 as [C2|C2]; [apply Nat.eqb_neq in C2; contradiction|].
    now apply Nat.ltb_ge in C2.
Qed.

Lemma pleft_bound : forall nscans nrows s, pinv nscans nrows s -> pleft nscans nrows s < S (nscans * nrows).
Proof.
  intros nscans nrows s (A & B & C & D & E). unfold pleft. destruct (p_eoi s); [lia|].
  assert ((nscans - p_scan s) * nrows + nrows <= nscans * nrows).
  { replace ((nscans - p_scan s) * nrows + nrows) with ((S (nscans - p_scan s)) * nrows) by (simpl; lia).
    apply Nat.mul_le_mono_r. lia. }
  lia.
Qed.

(* every row rendered by a pass on scan N holds at least the scans 1..N, and the arrays are a consistent
   prefix of the scan sequence at that moment *)
Theorem prender_consistent : forall ahead nscans nrows N r s, 1 <= ahead -> pinv nscans nrows s ->
  N <= nscans -> r < nrows ->
  let (v, s1) := prender ahead nscans nrows N r s in pinv nscans nrows s1 /\ N <= v /\ v <= nscans.
Proof.
  intros ahead nscans nrows N r s Ha I HN Hr. unfold prender.
  destruct (pforce_spec (S (nscans * nrows)) ahead nscans nrows N r s I (pleft_bound _ _ _ I)) as [I1 P].
  set (s1 := pforce _ _ _ _ _ _ s) in *. split; [exact I1|].
  destruct I1 as (A & B & C & D & E). rewrite D by auto.
  destruct P as [P|(P1 & P2)].
  - rewrite P in E. destruct (Nat.ltb_spec r (p_row s1)); lia.
  - destruct (Nat.ltb_spec r (p_row s1)); [lia|].
    destruct (Nat.eq_dec (p_scan s1) N) as [Q|Q]; [specialize (P2 Q); lia | lia].
Qed.

Lemma prun_inv : forall ahead nscans nrows ops, 1 <= nscans -> 1 <= nrows ->
  pinv nscans nrows (prun ahead nscans nrows ops).
Proof.
  intros ahead nscans nrows ops H1 H2. unfold prun.
  assert (G : forall s, pinv nscans nrows s -> pinv nscans nrows (fold_left (pstep ahead nscans nrows) ops s)).
  { induction ops as [|o ops IH]; intros s I; simpl; [exact I|]. apply IH.
    destruct o as [|N r]; simpl; [now apply pconsume_inv|].
    apply (pforce_spec (S (nscans * nrows)) ahead nscans nrows N r s I (pleft_bound _ _ _ I)). }
  apply G. now apply pinit_inv.
Qed.

(* under EVERY application schedule (consume_input calls and rendered rows of any passes in any order) *)
Theorem progressive_pass_consistent : forall ahead nscans nrows ops N r, 1 <= ahead -> 1 <= nscans -> 1 <= nrows ->
  N <= nscans -> r < nrows ->
  N <= fst (prender ahead nscans nrows N r (prun ahead nscans nrows ops)).
Proof.
  intros. pose proof (prender_consistent ahead nscans nrows N r _ H (prun_inv ahead nscans nrows ops H0 H1) H2 H3) as P.
  destruct (prender ahead nscans nrows N r (prun ahead nscans nrows ops)). simpl. tauto.
Qed.

(* and once the input is complete every row holds all the scans: the final pass is the whole-file image *)
Theorem progressive_final_pass : forall nscans nrows s r, pinv nscans nrows s -> p_eoi s = true -> r < nrows ->
  nth r (p_ver s) 0 = nscans.
Proof.
  intros nscans nrows s r (A & B & C & D & E) Eo Hr. rewrite Eo in E. destruct E as [E1 E2].
  rewrite D by auto. destruct (Nat.ltb_spec r (p_row s)); lia.
Qed.

Example progressive_zero_ahead_refuted :
  fst (prender 0 3 4 3 0 (prun 0 3 4 (repeat PConsume 8))) < 3.
Proof. vm_compute. lia. Qed.

Example progressive_example :
  fst (prender 1 3 4 3 0 (prun 1 3 4 (repeat PConsume 8 ++ [PRender 2 1; PConsume]))) = 3.
Proof. vm_compute. reflexivity. Qed.
