(* MarkerSuspendProofs.v -- C16: reading a run of COM/APPn markers through a suspending data source
   gives the same saved markers as reading it from one buffer, for EVERY way of cutting the stream
   into chunks (model/MarkerSuspend.v: save_marker is a resumable unit whose length word is
   committed before the first data byte is needed). *)
From Coq Require Import List ZArith Bool Lia.
From LJT Require Import lib.Sweep gen.GenIccConst model.MarkerRT model.MarkerSuspend
  proofs.C16Consts proofs.IccProofs proofs.MarkerProofs.
Import ListNotations.
Local Open Scope Z_scope.

(* ------------------------------------------------------------- list helpers *)
Lemma skipn_skipn' {A} a b (l : list A) : skipn a (skipn b l) = skipn (a + b) l.
Proof. revert l; induction b as [|b IH]; intros l; [rewrite Nat.add_0_r; reflexivity|]. rewrite Nat.add_succ_r. destruct l; [rewrite !skipn_nil; reflexivity | cbn [skipn]; apply IH]. Qed.
Lemma skipn_app_le {A} n (a b : list A) : (n <= length a)%nat -> skipn n (a ++ b) = skipn n a ++ b.
Proof. intros H. rewrite skipn_app. replace (n - length a)%nat with 0%nat by lia. reflexivity. Qed.
Lemma firstn_add_skipn {A} g n (l : list A) : firstn g l ++ firstn n (skipn g l) = firstn (g + n) l.
Proof. revert l; induction g as [|g IH]; intros l; [reflexivity|]. destruct l; [rewrite !firstn_nil; reflexivity|]. cbn [firstn skipn Nat.add app]. f_equal. apply IH. Qed.
Lemma Zlen {A} (l : list A) : Zlength l = Z.of_nat (length l).
Proof. apply Zlength_correct. Qed.

(* ------------------------------------------------------- the written stream *)
Definition seg_bytes (s : segment) : list Z :=
  emit_marker (fst s) ++ emit_2bytes (Zlength (snd s) + 2) ++ map byte_of (snd s).
Fixpoint segs_bytes (l : list segment) : list Z :=
  match l with [] => [] | s :: r => seg_bytes s ++ segs_bytes r end.

Lemma write_markers_bytes segs : Forall seg_ok segs -> write_markers segs = Some (segs_bytes segs).
Proof.
  induction 1 as [|s r (H1 & H2) HF IH]; [reflexivity|]. destruct s as [code data]. cbn [fst snd] in *.
  cbn [write_markers segs_bytes]. rewrite write_marker_ok by assumption. rewrite IH. reflexivity.
Qed.

(* ------------------------------------------------------------- invariant *)
Section Run.
  Variable c : cfg.
  Variable rest : list Z.
  Hypothesis c_nonneg : forall k, 0 <= c k.
  Hypothesis rest_stops : stops rest.

  Definition inv (st : sstate) (S : list Z) (todo : list segment) : Prop :=
    match ss_pend st with
    | PIdle => 0 <= ss_skip st /\ skipn (Z.to_nat (ss_skip st)) S = segs_bytes todo ++ rest
    | PCode code => ss_skip st = 0 /\
        ((is_app_or_com code = false /\ todo = []) \/
         exists data todo', todo = (code, data) :: todo' /\
           S = emit_2bytes (Zlength data + 2) ++ map byte_of data ++ segs_bytes todo' ++ rest)
    | PSave code p => ss_skip st = 0 /\
        exists data todo', todo = (code, data) :: todo' /\ c code <> 0 /\
          p_orig p = Zlength data /\ p_lim p = Z.min (Zlength data) (c code) /\
          exists g, (g <= length data)%nat /\ Z.of_nat g <= p_lim p /\ p_got p = firstn g (map byte_of data) /\
            S = skipn g (map byte_of data) ++ segs_bytes todo' ++ rest
    end.
  Definition expected (st : sstate) (todo : list segment) : list saved :=
    ss_acc st ++ flat_map (saved_under c) todo.

  Lemma seg_bytes_head s r : exists t, seg_bytes s ++ r = 255 :: byte_of (fst s) :: t /\
    t = emit_2bytes (Zlength (snd s) + 2) ++ map byte_of (snd s) ++ r.
  Proof. eexists. split; [|reflexivity]. unfold seg_bytes, emit_marker. rewrite <- !app_assoc. reflexivity. Qed.

  Lemma two_bytes_of avail X v T l r : 0 <= v < 65536 ->
    avail ++ X = emit_2bytes v ++ T -> get_2bytes avail = Some (l, r) -> l = v /\ r ++ X = T.
  Proof.
    intros Hv E G. unfold get_2bytes in G. destruct avail as [|hi [|lo r']]; try discriminate.
    inversion G; subst l r. unfold emit_2bytes in E. cbn [app] in E. inversion E; subst. split; [lia | reflexivity].
  Qed.

  (* progress keeps the invariant, the expected result, and decreases the measure *)
  Lemma step_progress st avail X todo st' avail' : Forall seg_ok todo ->
    app_step c st avail = Some (st', avail') -> inv st (avail ++ X) todo ->
    exists todo', Forall seg_ok todo' /\ inv st' (avail' ++ X) todo' /\ expected st' todo' = expected st todo /\
      (length (avail' ++ X) + 3 * length todo' < length (avail ++ X) + 3 * length todo)%nat.
  Proof.
    intros HF E I. unfold app_step in E. unfold inv in I.
    destruct (0 <? ss_skip st) eqn:Sk.
    - (* pending skip *)
      apply Z.ltb_lt in Sk. destruct avail as [|a t] eqn:Ea; [discriminate|]. rewrite <- Ea in *.
      assert (Hl : 1 <= Zlength avail) by (rewrite Ea, Zlength_cons; pose proof (Zlength_nonneg' t); lia).
      inversion E; subst st' avail'; clear E.
      destruct (ss_pend st) eqn:P; try (destruct I as (I0 & _); lia).
      destruct I as (I0 & I1). exists todo. split; [assumption|].
      set (n := Z.min (ss_skip st) (Zlength avail)) in *.
      assert (Hn : 1 <= n <= Zlength avail /\ n <= ss_skip st) by (unfold n; lia).
      split; [|split].
      + unfold inv. cbn [ss_pend ss_skip]. try rewrite P. split; [lia|].
        rewrite <- skipn_app_le by (rewrite Zlen in Hn; lia). rewrite skipn_skipn'.
        replace (Z.to_nat (ss_skip st - n) + Z.to_nat n)%nat with (Z.to_nat (ss_skip st)) by lia. assumption.
      + reflexivity.
      + rewrite !app_length, skipn_length. rewrite Zlen in Hn. lia.
    - apply Z.ltb_ge in Sk. destruct (ss_pend st) as [|code|code p] eqn:P.
      + (* PIdle: marker code *)
        destruct I as (I0 & I1). assert (S0 : ss_skip st = 0) by lia. rewrite S0 in I1. cbn [Z.to_nat skipn] in I1.
        destruct (next_marker avail) as [[code r]|] eqn:N; [|discriminate].
        inversion E; subst st' avail'; clear E.
        unfold next_marker in N. destruct avail as [|ff [|cd r']]; try discriminate.
        destruct (ff =? 255) eqn:F; [|discriminate]. apply Z.eqb_eq in F. inversion N; subst cd r' ff. clear N.
        exists todo. split; [assumption|]. split; [|split].
        * unfold inv. cbn [ss_pend ss_skip]. split; [reflexivity|].
          destruct todo as [|[c0 d0] t0].
          -- left. cbn [segs_bytes app] in I1. split; [|reflexivity].
             unfold stops in rest_stops. rewrite <- I1 in rest_stops. cbn [app next_marker] in rest_stops.
             rewrite Z.eqb_refl in rest_stops. exact rest_stops.
          -- right. cbn [segs_bytes] in I1. rewrite <- app_assoc in I1.
             destruct (seg_bytes_head (c0, d0) (segs_bytes t0 ++ rest)) as (t & Et & Ht). rewrite Et in I1.
             cbn [app fst] in I1. inversion I1 as [[Hc Hr]].
             pose proof (Forall_inv HF) as (Hok & _). cbn [fst] in Hok.
             rewrite (byte_of_id c0) in * by (apply app_or_com_byte; assumption).
             exists d0, t0. split; [reflexivity|]. rewrite Hr, Ht. cbn [snd]. reflexivity.
        * reflexivity.
        * cbn [app length]. lia.
      + (* PCode *)
        destruct I as (S0 & I1). destruct (is_app_or_com code) eqn:A; [|discriminate].
        destruct I1 as [(A' & _)|(data & todo' & Et & ES)]; [congruence|]. subst todo.
        pose proof (Forall_inv HF) as (Hok & Hlen). cbn [fst snd] in Hok, Hlen. unfold WRITE_MARKER_MAX_DATALEN in Hlen.
        pose proof (Zlength_nonneg' data) as Hn0.
        destruct (get_2bytes avail) as [[l r]|] eqn:G; [|discriminate].
        assert (Hv : 0 <= Zlength data + 2 < 65536) by lia.
        destruct (two_bytes_of avail X (Zlength data + 2) _ l r Hv ES G) as (El & Er). subst l.
        replace (Zlength data + 2 - 2) with (Zlength data) in E by lia.
        assert (HD : length (map byte_of data) = Z.to_nat (Zlength data)) by (rewrite map_length, Zlen; lia).
        destruct (c code =? 0) eqn:C0.
        * (* not saved *)
          assert (Esv : saved_under c (code, data) = []) by (unfold saved_under; cbn [fst]; rewrite C0; reflexivity).
          destruct ((code =? M_APP0) || (code =? M_APP14)).
          -- set (nt := if APPN_DATA_LEN <=? Zlength data then APPN_DATA_LEN else if 0 <? Zlength data then Zlength data else 0) in *.
             assert (Hnt : 0 <= nt <= Zlength data).
             { unfold nt, APPN_DATA_LEN. destruct (14 <=? Zlength data) eqn:E1; [apply Z.leb_le in E1; lia|].
               destruct (0 <? Zlength data) eqn:E2; [apply Z.ltb_lt in E2; lia | lia]. }
             destruct (Zlength r <? nt) eqn:L; [discriminate|]. apply Z.ltb_ge in L.
             inversion E; subst st' avail'; clear E.
             exists todo'. split; [exact (Forall_inv_tail HF)|]. split; [|split].
             ++ unfold inv. cbn [ss_pend ss_skip]. split; [lia|].
                rewrite <- skipn_app_le by (rewrite Zlen in L; lia). rewrite Er, skipn_skipn'.
                replace (Z.to_nat (Z.max 0 (Zlength data - nt)) + Z.to_nat nt)%nat with (length (map byte_of data)) by lia.
                apply skipn_app_exact.
             ++ unfold expected. cbn [ss_acc flat_map]. rewrite Esv. reflexivity.
             ++ rewrite !app_length, skipn_length. cbn [length].
                assert (length avail = S (S (length r))) by (unfold get_2bytes in G; destruct avail as [|? [|? ?]]; try discriminate; inversion G; reflexivity).
                lia.
          -- inversion E; subst st' avail'; clear E.
             exists todo'. split; [exact (Forall_inv_tail HF)|]. split; [|split].
             ++ unfold inv. cbn [ss_pend ss_skip]. split; [lia|]. rewrite Er.
                replace (Z.to_nat (Z.max 0 (Zlength data))) with (length (map byte_of data)) by lia. apply skipn_app_exact.
             ++ unfold expected. cbn [ss_acc flat_map]. rewrite Esv. reflexivity.
             ++ rewrite !app_length. cbn [length].
                assert (length avail = S (S (length r))) by (unfold get_2bytes in G; destruct avail as [|? [|? ?]]; try discriminate; inversion G; reflexivity).
                lia.
        * (* save_marker, first entry *)
          apply Z.eqb_neq in C0.
          replace (0 <=? Zlength data) with true in E by (symmetry; apply Z.leb_le; lia).
          inversion E; subst st' avail'; clear E.
          exists ((code, data) :: todo'). split; [assumption|]. split; [|split].
          -- unfold inv. cbn [ss_pend ss_skip]. split; [reflexivity|].
             exists data, todo'. split; [reflexivity|]. split; [assumption|]. cbn [p_orig p_lim p_got].
             split; [reflexivity|]. split.
             { destruct (Zlength data <? c code) eqn:L; [apply Z.ltb_lt in L | apply Z.ltb_ge in L]; lia. }
             exists 0%nat. split; [lia|]. split.
             { pose proof (c_nonneg code). destruct (Zlength data <? c code); lia. }
             split; [reflexivity|]. cbn [skipn]. exact Er.
          -- reflexivity.
          -- rewrite !app_length. cbn [length].
             assert (length avail = S (S (length r))) by (unfold get_2bytes in G; destruct avail as [|? [|? ?]]; try discriminate; inversion G; reflexivity).
             lia.
      + (* PSave *)
        destruct I as (S0 & data & todo' & Et & C0 & Ho & Hl & g & Hg1 & Hg2 & Hgot & ES). subst todo.
        pose proof (Forall_inv HF) as (Hok & Hlen). cbn [fst snd] in Hok, Hlen.
        set (D := map byte_of data) in *.
        assert (HD : length D = length data) by (unfold D; apply map_length).
        assert (Hgl : Zlength (p_got p) = Z.of_nat g) by (rewrite Hgot, Zlen, firstn_length; lia).
        rewrite Hgl in E.
        assert (Hlim : p_lim p <= Zlength data) by lia. rewrite Zlen in Hlim.
        destruct (p_lim p - Z.of_nat g <=? 0) eqn:Nd.
        * (* complete *)
          apply Z.leb_le in Nd. assert (Eg : Z.of_nat g = p_lim p) by lia.
          inversion E; subst st' avail'; clear E.
          exists todo'. split; [exact (Forall_inv_tail HF)|]. split; [|split].
          -- unfold inv. cbn [ss_pend ss_skip]. split; [rewrite Ho, Zlen; lia|].
             rewrite ES. replace (Z.to_nat (p_orig p - p_lim p)) with (length (skipn g D)) by (rewrite skipn_length, Ho, Zlen; lia).
             apply skipn_app_exact.
          -- unfold expected. cbn [ss_acc flat_map]. rewrite <- app_assoc. f_equal.
             unfold saved_under. cbn [fst snd]. replace (c code =? 0) with false by (symmetry; apply Z.eqb_neq; assumption).
             cbn [app]. f_equal. rewrite (byte_of_id code) by (apply app_or_com_byte; assumption).
             unfold kept_len. cbn [fst snd]. rewrite Ho, Hgot, <- Hl, <- Eg, Nat2Z.id. reflexivity.
          -- cbn [length]. lia.
        * (* copy what is there *)
          apply Z.leb_gt in Nd. destruct avail as [|a t] eqn:Ea; [discriminate|]. rewrite <- Ea in *.
          assert (Hal : 1 <= Zlength avail) by (rewrite Ea, Zlength_cons; pose proof (Zlength_nonneg' t); lia).
          inversion E; subst st' avail'; clear E.
          set (n := Z.min (p_lim p - Z.of_nat g) (Zlength avail)) in *.
          assert (Hn : 1 <= n <= Zlength avail /\ n <= p_lim p - Z.of_nat g) by (unfold n; lia).
          rewrite Zlen in Hn.
          exists ((code, data) :: todo'). split; [assumption|]. split; [|split].
          -- unfold inv. cbn [ss_pend ss_skip]. split; [reflexivity|].
             exists data, todo'. split; [reflexivity|]. split; [assumption|]. cbn [p_orig p_lim p_got].
             split; [assumption|]. split; [assumption|].
             exists (g + Z.to_nat n)%nat. split; [lia|]. split; [lia|]. split.
             ++ rewrite Hgot. fold D. rewrite <- firstn_add_skipn. f_equal.
                rewrite <- (firstn_app_le (Z.to_nat n) avail X) by lia. rewrite ES.
                apply firstn_app_le. rewrite skipn_length. lia.
             ++ fold D. rewrite <- skipn_app_le by lia. rewrite ES.
                rewrite skipn_app_le by (rewrite skipn_length; lia). rewrite skipn_skipn'.
                replace (Z.to_nat n + g)%nat with (g + Z.to_nat n)%nat by lia. reflexivity.
          -- reflexivity.
          -- rewrite !app_length, skipn_length. lia.
  Qed.

  Lemma seg_bytes_len s : (4 <= length (seg_bytes s))%nat.
  Proof. unfold seg_bytes, emit_marker, emit_2bytes. rewrite !app_length. cbn [length]. lia. Qed.

  (* a suspension with all the data delivered only happens at the end of the run *)
  Lemma step_stuck st avail todo : Forall seg_ok todo ->
    app_step c st avail = None -> inv st avail todo -> expected st todo = ss_acc st.
  Proof.
    intros HF E I. unfold expected. rewrite <- (app_nil_r (ss_acc st)) at 2. f_equal.
    unfold app_step in E. unfold inv in I.
    destruct (0 <? ss_skip st) eqn:Sk.
    - apply Z.ltb_lt in Sk. destruct avail as [|a t]; [|discriminate].
      destruct (ss_pend st); try (destruct I as (I0 & _); lia).
      destruct I as (_ & I1). rewrite skipn_nil in I1. destruct todo as [|s r]; [reflexivity|].
      exfalso. cbn [segs_bytes] in I1. apply (f_equal (@length Z)) in I1. rewrite !app_length in I1.
      pose proof (seg_bytes_len s). cbn [length] in I1. lia.
    - apply Z.ltb_ge in Sk. destruct (ss_pend st) as [|code|code p] eqn:P.
      + destruct I as (I0 & I1). assert (S0 : ss_skip st = 0) by lia. rewrite S0 in I1. cbn [Z.to_nat skipn] in I1.
        destruct todo as [|s r]; [reflexivity|]. exfalso.
        cbn [segs_bytes] in I1. rewrite <- app_assoc in I1.
        destruct (seg_bytes_head s (segs_bytes r ++ rest)) as (t & Et & _). rewrite Et in I1. subst avail.
        cbn [next_marker] in E. rewrite Z.eqb_refl in E. discriminate.
      + destruct I as (S0 & I1). destruct I1 as [(A' & ->)|(data & todo' & Et & ES)]; [reflexivity|]. exfalso. subst todo.
        pose proof (Forall_inv HF) as (Hok & Hlen). cbn [fst snd] in Hok, Hlen. unfold WRITE_MARKER_MAX_DATALEN in Hlen.
        pose proof (Zlength_nonneg' data) as Hn0. rewrite Hok in E.
        destruct (get_2bytes avail) as [[l r]|] eqn:G.
        * assert (Hv : 0 <= Zlength data + 2 < 65536) by lia.
          assert (ES' : avail ++ [] = emit_2bytes (Zlength data + 2) ++ map byte_of data ++ segs_bytes todo' ++ rest) by (rewrite app_nil_r; exact ES).
          destruct (two_bytes_of avail [] (Zlength data + 2) _ l r Hv ES' G) as (El & Er). subst l.
          rewrite app_nil_r in Er.
          replace (Zlength data + 2 - 2) with (Zlength data) in E by lia.
          destruct (c code =? 0).
          -- destruct ((code =? M_APP0) || (code =? M_APP14)); [|discriminate].
             set (nt := if APPN_DATA_LEN <=? Zlength data then APPN_DATA_LEN else if 0 <? Zlength data then Zlength data else 0) in *.
             assert (Hnt : nt <= Zlength data).
             { unfold nt, APPN_DATA_LEN. destruct (14 <=? Zlength data) eqn:E1; [apply Z.leb_le in E1; lia|].
               destruct (0 <? Zlength data) eqn:E2; lia. }
             destruct (Zlength r <? nt) eqn:L; [|discriminate]. apply Z.ltb_lt in L.
             rewrite Er, Zlength_app', Zlength_map' in L. pose proof (Zlength_nonneg' (segs_bytes todo' ++ rest)). lia.
          -- replace (0 <=? Zlength data) with true in E by (symmetry; apply Z.leb_le; lia). discriminate.
        * rewrite ES in G. unfold emit_2bytes in G. cbn [app get_2bytes] in G. discriminate.
      + destruct I as (S0 & data & todo' & Et & C0 & Ho & Hl & g & Hg1 & Hg2 & Hgot & ES). exfalso.
        assert (Hgl : Zlength (p_got p) = Z.of_nat g) by (rewrite Hgot, Zlen, firstn_length, map_length; lia).
        rewrite Hgl in E. destruct (p_lim p - Z.of_nat g <=? 0) eqn:Nd; [discriminate|]. apply Z.leb_gt in Nd.
        destruct avail as [|a t]; [|discriminate].
        symmetry in ES. apply app_eq_nil in ES as (ES & _). apply (f_equal (@length Z)) in ES.
        rewrite skipn_length, map_length in ES. cbn [length] in ES. rewrite Zlen in Hl. lia.
  Qed.

  Theorem susp_run_correct : forall fuel st avail chunks todo, Forall seg_ok todo ->
    inv st (avail ++ concat chunks) todo ->
    (length chunks + length (avail ++ concat chunks) + 3 * length todo < fuel)%nat ->
    ss_acc (fst (susp_run fuel c st avail chunks)) = expected st todo.
  Proof.
    induction fuel as [|fuel IH]; intros st avail chunks todo HF I M; [lia|].
    cbn [susp_run]. destruct (app_step c st avail) as [[st' avail']|] eqn:E.
    - destruct (step_progress st avail (concat chunks) todo st' avail' HF E I) as (todo' & HF' & I' & Ex & Ms).
      rewrite <- Ex. apply IH; try assumption. lia.
    - destruct chunks as [|ch cs].
      + cbn [fst concat] in *. rewrite app_nil_r in I. symmetry. apply (step_stuck st avail todo HF E I).
      + cbn [concat] in I, M. rewrite app_assoc in I. apply IH; try assumption.
        rewrite <- app_assoc. cbn [length] in M. lia.
  Qed.
End Run.

(* (4, suspension) For every cfg, every run of COM/APPn segments written by jpeg_write_marker and every way of
   delivering the stream in chunks, the saved markers are those of the one-buffer read (markers_roundtrip):
   first min(len, limit) bytes, original_length, stream order. *)
Theorem markers_any_chunking c segs rest chunks h acc : (forall k, 0 <= c k) -> Forall seg_ok segs -> stops rest ->
  exists bytes, write_markers segs = Some bytes /\
    (concat chunks = bytes ++ rest ->
     forall fuel, (length chunks + length (bytes ++ rest) + 3 * length segs < fuel)%nat ->
       ss_acc (fst (susp_run fuel c (mkSstate h acc PIdle 0) [] chunks)) = acc ++ flat_map (saved_under c) segs).
Proof.
  intros Hc HF Hs. exists (segs_bytes segs). split; [apply write_markers_bytes; assumption|].
  intros Ec fuel Hf.
  rewrite (susp_run_correct c rest Hc Hs fuel _ [] chunks segs HF); [reflexivity | |cbn [app]; rewrite Ec; assumption].
  unfold inv. cbn [ss_pend ss_skip Z.to_nat skipn app]. split; [lia|]. exact Ec.
Qed.

(* non-vacuity: a stream cut right after a length word (the split of seeded change C16-1) *)
Lemma ex_chunking :
  let segs := [(M_COM, [65; 66; 67]); (M_APP0 + 3, [1; 2; 3; 4; 5])] in
  let c := jpeg_save_markers (jpeg_save_markers cfg_init M_COM 65535) (M_APP0 + 3) 2 in
  let stream := segs_bytes segs ++ [255; M_DQT] in
  map (fun m => (sm_code m, sm_orig m, sm_data m))
      (ss_acc (fst (susp_run 100 c (mkSstate hinfo_init [] PIdle 0) [] [firstn 4 stream; firstn 7 (skipn 4 stream); skipn 11 stream])))
  = [(M_COM, 3, [65; 66; 67]); (M_APP0 + 3, 5, [1; 2])].
Proof. vm_compute. reflexivity. Qed.
