(* C06 proofs, part 8b: tj3TransformBufSize / getTransformedSpecs (still TJSAMP-grid based) against
   what tj3Transform really produces. *)
From Coq Require Import List ZArith Bool Lia PeanoNat ZifyBool.
From LJT Require Import model.Transform model.TransformSpec
  proofs.TransformProofs proofs.TransformPlane proofs.TransformImage proofs.TransformGeneral proofs.TransformTjSweep.
Import ListNotations.
Local Open Scope Z_scope.

Lemma div_ok_unclassified jcs facs : get_subsamp_l jcs facs = -1 -> div_ok jcs facs = true.
Proof.
  intros H. unfold div_ok. cbv zeta. rewrite H.
  apply forallb_forall. intros g _. apply forallb_forall. intros op _. cbv zeta.
  destruct g.
  - assert (E : get_dst_subsamp (-1) true op = 3) by (destruct op; reflexivity). rewrite E.
    change (tj_mcu_w 3) with 8. change (tj_mcu_h 3) with 8. cbn [Z.eqb orb Z.ltb Z.compare andb].
    unfold layout_imcu. cbv zeta. destruct (_ || _); cbn [fst snd]; rewrite ?Z.mod_mul by lia; reflexivity.
  - assert (E : get_dst_subsamp (-1) false op = -1) by (destruct op; reflexivity). rewrite E. reflexivity.
Qed.

Lemma div_ok_bounded jcs facs :
  0 <= jcs <= 5 -> Forall (fun c => 1 <= fst c <= 4 /\ 1 <= snd c <= 4) facs -> div_ok jcs facs = true.
Proof.
  intros Hj Hf.
  assert (Hu : Forall (fun a => 1 <= a <= 4) (unpairs facs)).
  { induction Hf as [|[a b] l [Ha Hb] _ IH]; cbn [unpairs]; [constructor|]. cbn [fst snd] in *.
    apply Forall_cons; [exact Ha|apply Forall_cons; [exact Hb|exact IH]]. }
  assert (Hjin : In jcs [0; 1; 2; 3; 4; 5]) by (cbn; lia).
  destruct (Nat.eq_dec (length facs) 1) as [E1|N1]; [|destruct (Nat.eq_dec (length facs) 3) as [E3|N3]; [|destruct (Nat.eq_dec (length facs) 4) as [E4|N4]]].
  - pose proof sweep_1 as S. rewrite forallb_forall in S. specialize (S jcs Hjin). rewrite forallb_forall in S.
    specialize (S (unpairs facs)). rewrite pairs_unpairs in S. apply S.
    replace 2%nat with (length (unpairs facs)) by (rewrite length_unpairs; lia). apply all_lists_in. exact Hu.
  - pose proof sweep_3 as S. rewrite forallb_forall in S. specialize (S jcs Hjin). rewrite forallb_forall in S.
    specialize (S (unpairs facs)). rewrite pairs_unpairs in S. apply S.
    replace 6%nat with (length (unpairs facs)) by (rewrite length_unpairs; lia). apply all_lists_in. exact Hu.
  - destruct (Z.eq_dec jcs 4) as [J4|J4]; [|destruct (Z.eq_dec jcs 5) as [J5|J5]].
    1,2: pose proof sweep_4 as S; rewrite forallb_forall in S; specialize (S jcs ltac:(cbn; lia)); rewrite forallb_forall in S;
      specialize (S (unpairs facs)); rewrite pairs_unpairs in S; apply S;
      replace 8%nat with (length (unpairs facs)) by (rewrite length_unpairs; lia); apply all_lists_in; exact Hu.
    apply div_ok_unclassified. apply unclassified4; assumption.
  - apply div_ok_unclassified. apply unclassified; assumption.
Qed.


Definition layout_bounded (im : image) : Prop :=
  0 <= i_cs im <= 5 /\ Forall (fun c => 1 <= c_hs c <= 4 /\ 1 <= c_vs c <= 4) (i_comps im).

Lemma mod_divides x a b : 0 < a -> b mod a = 0 -> x mod b = 0 -> x mod a = 0.
Proof.
  intros Ha Hb Hx. destruct (Z.eq_dec b 0) as [->|Hb0].
  - rewrite Zmod_0_r in Hx. subst. apply Z.mod_0_l. lia.
  - apply Z.mod_divide in Hb; [|lia]. apply Z.mod_divide in Hx; [|exact Hb0].
    apply Z.mod_divide; [lia|]. eapply Z.divide_trans; eassumption.
Qed.

(* region facts of an accepted tj crop (any trim) *)
Lemma tj_crop_region im n t p :
  request_workspace im (tj_xopts n t) = inr p -> t_crop t = true -> 0 <= t_x t -> 0 <= t_y t ->
  t_x t mod p_imw p = 0 -> t_y t mod p_imh p = 0 -> 0 < p_imw p -> 0 < p_imh p ->
  let dw := tw (t_op t) (i_w im) (i_h im) in let dh := th (t_op t) (i_w im) (i_h im) in
  let cw := if t_w t =? 0 then dw - t_x t else t_w t in
  let ch := if t_h t =? 0 then dh - t_y t else t_h t in
  t_x t < dw /\ t_y t < dh /\ t_x t + cw <= dw /\ t_y t + ch <= dh /\ p_ow p <= cw /\ p_oh p <= ch.
Proof.
  intros Hp Hc Hx0 Hy0 Hx Hy Hiw Hih. revert Hp.
  unfold request_workspace, tj_xopts. cbn [xo_op xo_perfect xo_trim xo_gray xo_crop xo_slow]. rewrite Hc. cbv zeta.
  destruct (t_perfect t && _); [discriminate|].
  set (imw := if _ =? 1 then 8 else if transposes (t_op t) then _ else _).
  set (imh := if _ =? 1 then 8 else if transposes (t_op t) then _ else _).
  unfold crop_axis. cbn [cr_w cr_wset cr_h cr_hset cr_x cr_xset cr_y cr_yset negb].
  unfold tw, th.
  repeat match goal with
         | |- context [if ?c then _ else _] =>
             lazymatch c with
             | transposes _ => fail
             | t_trim _ => fail
             | _ => destruct c eqn:?
             end
         end; try discriminate;
  destruct (t_op t); cbn [transposes] in *; intros H; injection H as <-;
    cbn [p_imw p_imh p_xco p_yco p_ow p_oh] in *;
    rewrite ?Hx, ?Hy, ?Z.add_0_r;
    repeat match goal with
           | |- context [if t_trim t then trim_edge ?o ?i ?f ?u else ?o] =>
               let H := fresh in
               assert (H : (if t_trim t then trim_edge o i f u else o) <= o)
                 by (destruct (t_trim t); [apply trim_edge_le; lia|lia]);
               generalize dependent (if t_trim t then trim_edge o i f u else o); intros
           end;
    (repeat split; lia).
Qed.

Lemma tj_mcu_nonneg s : 0 <= tj_mcu_w s /\ 0 <= tj_mcu_h s.
Proof.
  unfold tj_mcu_w, tj_mcu_h.
  destruct (Nat.lt_ge_cases (Z.to_nat s) (length tj_samp_mcu)) as [H|H].
  - pose proof (nth_In tj_samp_mcu (0, 0) H) as Hin. destruct (nth (Z.to_nat s) tj_samp_mcu (0, 0)) as [a b].
    cbn in Hin. repeat (destruct Hin as [Hin|Hin]; [injection Hin as <- <-; cbn; lia|]). contradiction.
  - rewrite nth_overflow by exact H. cbn. lia.
Qed.

Lemma pad_nonneg v a : 0 <= v -> 0 <= a -> 0 <= pad_to v a.
Proof.
  intros Hv Ha. unfold pad_to. destruct (Z.eq_dec a 0) as [->|Hn]; [rewrite Z.mul_0_r; lia|].
  assert (0 <= (v + a - 1) / a) by (apply Z.div_pos; lia). nia.
Qed.

Lemma tj_jpeg_buf_size_pos w h s : 0 <= w -> 0 <= h -> 0 < tj_jpeg_buf_size w h s.
Proof.
  intros Hw Hh. unfold tj_jpeg_buf_size. cbv zeta.
  set (s' := if s =? -1 then 0 else s). destruct (tj_mcu_nonneg s') as [A B].
  pose proof (pad_nonneg w _ Hw A). pose proof (pad_nonneg h _ Hh B).
  assert (0 <= (if s' =? 3 then 0 else 4 * 64 / (tj_mcu_w s' * tj_mcu_h s'))).
  { destruct (s' =? 3); [lia|]. destruct (Z.eq_dec (tj_mcu_w s' * tj_mcu_h s') 0) as [->|Hn]; [rewrite Zdiv_0_r; lia|].
    apply Z.div_pos; nia. }
  nia.
Qed.

(* THE SIZE STATEMENT: tj3Transform accepts => getTransformedSpecs accepts and assumes dimensions that
   are at least the real output dimensions (bounded layouts: the 1..4 factors JPEG allows) *)
Theorem tj_bufsize_dims_sufficient im n t p :
  layout_bounded im -> 1 <= i_w im -> 1 <= i_h im ->
  0 <= t_x t -> 0 <= t_y t -> 0 <= t_w t -> 0 <= t_h t ->
  request_workspace im (tj_xopts n t) = inr p -> tj_precheck im n t = None ->
  exists w h s, tj_specs im t = Some (w, h, s) /\ p_ow p <= w /\ p_oh p <= h /\ 0 < tj_transform_buf_size im t.
Proof.
  intros (Hcs & Hf) HW HH Hx0 Hy0 Hw0 Hh0 Hp Hpre.
  assert (Hnn : opts_nonneg (tj_xopts n t)).
  { unfold opts_nonneg, tj_xopts. cbn [xo_crop]. destruct (t_crop t); [cbn [cr_w cr_h cr_x cr_y]; lia|exact I]. }
  pose proof (plan_ok im _ p HW HH Hnn Hp) as PF.
  pose proof (request_imcu_layout im _ p Hp) as Hi. cbn [tj_xopts xo_gray xo_op] in Hi.
  assert (Hdiv : div_ok (i_cs im) (layout_of im) = true).
  { apply div_ok_bounded; [exact Hcs|]. unfold layout_of. rewrite Forall_map. exact Hf. }
  unfold div_ok in Hdiv. cbv zeta in Hdiv. rewrite forallb_forall in Hdiv.
  specialize (Hdiv (t_gray t) ltac:(destruct (t_gray t); cbn; tauto)). rewrite forallb_forall in Hdiv.
  specialize (Hdiv (t_op t) ltac:(destruct (t_op t); cbn; tauto)). cbv zeta in Hdiv.
  fold (get_subsamp im) in Hdiv. unfold get_subsamp in Hdiv. fold (layout_of im) in Hdiv. rewrite <- Hi in Hdiv. cbn [fst snd] in Hdiv.
  fold (get_subsamp im) in Hdiv. change (get_subsamp_l (i_cs im) (layout_of im)) with (get_subsamp im) in Hdiv.
  set (d := get_dst_subsamp (get_subsamp im) (t_gray t) (t_op t)) in *.
  pose proof tj_jpeg_buf_size_pos as Hpos.
  destruct (t_crop t) eqn:Hc.
  - pose proof (proj1 (tj_crop_alignment im n t p Hp Hc) Hpre) as (Hd & Ax & Ay). fold d in Hd.
    destruct (Z.eqb_spec d (-1)) as [|_]; [contradiction|]. cbn [orb] in Hdiv.
    apply andb_true_iff in Hdiv. destruct Hdiv as [Hdiv P2]. apply andb_true_iff in Hdiv. destruct Hdiv as [Hdiv P1].
    apply andb_true_iff in Hdiv. destruct Hdiv as [D1 D2]. apply Z.eqb_eq in D1, D2. apply Z.ltb_lt in P1, P2.
    assert (Himw : 0 < p_imw p /\ 0 < p_imh p).
    { pose proof (max_hs_ge1 (i_comps im)). pose proof (max_vs_ge1 (i_comps im)).
      rewrite (pf_imw _ _ _ PF), (pf_imh _ _ _ PF). cbn [tj_xopts xo_op]. unfold tw, th.
      destruct (p_nc p =? 1); [lia|]. destruct (transposes (t_op t)); lia. }
    destruct Himw as [Hiw Hih].
    pose proof (tj_crop_region im n t p Hp Hc Hx0 Hy0 Ax Ay Hiw Hih) as R. cbv zeta in R. unfold tw, th in R.
    destruct R as (R1 & R2 & R3 & R4 & R5 & R6).
    pose proof (mod_divides (t_x t) _ _ P1 D1 Ax) as Tx. pose proof (mod_divides (t_y t) _ _ P2 D2 Ay) as Ty.
    unfold tj_transform_buf_size, tj_specs. rewrite Hc. fold d.
    replace ((t_x t <? 0) || (t_y t <? 0) || (t_w t <? 0) || (t_h t <? 0)) with false by lia.
    destruct (Z.eqb_spec d (-1)); [contradiction|].
    rewrite Tx, Ty. cbn [Z.eqb negb orb].
    replace (((if transposes (t_op t) then i_h im else i_w im) <=? t_x t) || ((if transposes (t_op t) then i_w im else i_h im) <=? t_y t)) with false by lia.
    cbv zeta.
    match goal with |- context [if ?c then None else _] => replace c with false by lia end.
    eexists _, _, _. split; [reflexivity|]. split; [exact R5|]. split; [exact R6|].
    apply Hpos; destruct (t_w t =? 0); destruct (t_h t =? 0); lia.
  - unfold tj_transform_buf_size, tj_specs. rewrite Hc. fold d.
    pose proof (pf_inx _ _ _ PF) as I1. pose proof (pf_iny _ _ _ PF) as I2.
    pose proof (pf_xco _ _ _ PF). pose proof (pf_yco _ _ _ PF).
    assert (Himw : 0 < p_imw p /\ 0 < p_imh p).
    { pose proof (max_hs_ge1 (i_comps im)). pose proof (max_vs_ge1 (i_comps im)).
      rewrite (pf_imw _ _ _ PF), (pf_imh _ _ _ PF). cbn [tj_xopts xo_op]. unfold tw, th.
      destruct (p_nc p =? 1); [lia|]. destruct (transposes (t_op t)); lia. }
    cbn [tj_xopts xo_op] in I1, I2. unfold tw, th in I1, I2.
    eexists _, _, _. split; [reflexivity|]. split; [nia|]. split; [nia|].
    apply Hpos; destruct (transposes (t_op t)); lia.
Qed.
