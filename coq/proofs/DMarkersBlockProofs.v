(* DMarkersBlockProofs.v -- proofs about model/DMarkers.v (C01), part 3:
   index discipline of the sequential Huffman block decoder (decode_mcu_slow). *)
From Coq Require Import List ZArith Bool Lia ZifyBool.
From LJT Require Import gen.GenLimits model.Huff model.DMarkers proofs.DMarkersProofs proofs.DMarkersScanProofs.
Import ListNotations.
Local Open Scope Z_scope.
Ltac Zify.zify_post_hook ::= Z.div_mod_to_equations.

(* every symbol the decoder can return from a valid derived table is a byte *)
Lemma serial_loop_sym : forall fuel t code l bs sym w rest, dtbl_ok t ->
  serial_loop fuel t code l bs = Some (sym, w, rest) -> 0 <= sym <= 255.
Proof.
  induction fuel as [|k IH]; intros t code l bs sym w rest Hok H; pose proof Hok as [Hv _]; cbn [serial_loop] in H.
  - destruct (code >? _); [discriminate|]. destruct (l >? 16); inversion H; subst; [lia|].
    unfold nthZ. apply (Forall_nth byte); auto using byte0.
  - destruct (code >? _).
    + destruct bs as [|b r]; [discriminate|]. eapply IH; [exact Hok|exact H].
    + destruct (l >? 16); inversion H; subst; [lia|].
      unfold nthZ. apply (Forall_nth byte); auto using byte0.
Qed.

Lemma decode_serial_sym t n bs sym w rest : dtbl_ok t -> decode_serial t n bs = Some (sym, w, rest) -> 0 <= sym <= 255.
Proof.
  unfold decode_serial. intros Hok H. destruct (take_code n bs 0) as [[code r]|]; [|discriminate].
  eapply serial_loop_sym; eauto.
Qed.

Lemma decode_lookahead_sym t bs sym w rest : dtbl_ok t -> decode_lookahead t bs = Some (sym, w, rest) -> 0 <= sym <= 255.
Proof.
  unfold decode_lookahead. intros Hok H. destruct (8 <=? length bs)%nat.
  - destruct (take_code 8 bs 0) as [[look r]|]; [|discriminate].
    destruct (_ <=? HUFF_LOOKAHEAD).
    + inversion H; subst. lia.
    + eapply decode_serial_sym; eauto.
  - eapply decode_serial_sym; eauto.
Qed.

(* ------------------------------------------------------- the AC coefficient loop *)
Definition kof (e : Z * Z * Z) : Z := fst (fst e).
(* one recorded store: zig-zag index k, position natural_order[k], value *)
Definition store_ok (e : Z * Z * Z) : Prop :=
  0 <= kof e <= 63 + 15 /\ kof e < bound_natural_order /\
  snd (fst e) = nthd natural_order (kof e) (-1) /\ 0 <= snd (fst e) < L_DCTSIZE2.
Fixpoint desc (l : list (Z * Z * Z)) : Prop :=
  match l with [] => True | e :: t => Forall (fun x => kof x < kof e) t /\ desc t end.

Definition stores_ok (st : list (Z * Z * Z)) : Prop :=
  Forall store_ok st /\ desc st /\ (length st <= 64)%nat.

Definition blk_ok (r : blk_res) : Prop :=
  match r with BlkDone st _ => stores_ok st | BlkSusp st => stores_ok st | BlkFuel _ => False end.

Lemma nthd_natural k : 0 <= k < 80 -> nthd natural_order k (-1) = nthd natural_order k 0.
Proof.
  intros H. unfold nthd. apply nth_indep. destruct natural_order_facts as (Hl & _). rewrite Hl. lia.
Qed.

Lemma ac_loop_spec t : dtbl_ok t -> forall fuel k bs acc,
  1 <= k -> (64 <= Z.of_nat fuel + k) ->
  Forall store_ok acc -> desc acc -> Forall (fun e => kof e < k) acc ->
  (Z.of_nat (length acc) <= k) -> (k < 64 \/ (length acc <= 64)%nat) ->
  blk_ok (ac_loop fuel t k bs acc).
Proof.
  intros Hok. induction fuel as [|f IH]; intros k bs acc H1 Hf Ha Hd Hk Hl Hl2; cbn [ac_loop].
  - destruct (k <? L_DCTSIZE2) eqn:E; [ulia|]. cbn. unfold stores_ok. repeat split; auto. ulia.
  - destruct (k <? L_DCTSIZE2) eqn:E.
    + assert (Hst : stores_ok acc) by (unfold stores_ok; repeat split; auto; ulia).
      destruct (decode_lookahead t bs) as [[[sym w] bs1]|] eqn:ED; [|exact Hst].
      pose proof (decode_lookahead_sym _ _ _ _ _ Hok ED) as Hs.
      cbv zeta. destruct (sym mod 16 =? 0) eqn:E0.
      * destruct (sym / 16 =? 15); [|exact Hst].
        apply IH; auto; try ulia.
        eapply Forall_impl; [|exact Hk]. cbv beta. intros; lia.
      * destruct (take_code _ bs1 0) as [[v bs2]|]; [|exact Hst].
        set (k' := k + sym / 16).
        assert (Hk' : k <= k' <= 78) by (unfold k'; ulia).
        apply IH; auto; try ulia.
        -- constructor; auto. unfold store_ok, kof; cbn [fst snd].
           split; [lia|]. split; [ulia|]. split; [reflexivity|].
           rewrite nthd_natural by lia. pose proof (natural_order_nth k' ltac:(lia)). ulia.
        -- cbn [desc]. split; [|exact Hd]. eapply Forall_impl; [|exact Hk]. cbv beta. intros x Hx.
           change (kof (k', nthd natural_order k' (-1), huff_extend v (sym mod 16))) with k'. lia.
        -- constructor; [unfold kof; cbn [fst]; lia|]. eapply Forall_impl; [|exact Hk]. cbv beta. intros; lia.
        -- cbn [length]. lia.
        -- cbn [length]. destruct (Z_lt_ge_dec (k' + 1) 64); [left; lia|right]. ulia.
    + cbn. unfold stores_ok. repeat split; auto. ulia.
Qed.

(* decode_mcu_slow, one block: for EVERY pair of valid derived tables and EVERY bit string *)
Lemma decode_block_spec dct act bs : dtbl_ok dct -> dtbl_ok act -> blk_ok (decode_block dct act bs).
Proof.
  intros Hd Ha. unfold decode_block.
  assert (H0 : stores_ok []) by (unfold stores_ok; cbn; repeat split; auto; lia).
  destruct (decode_lookahead dct bs) as [[[s w] bs1]|]; [|exact H0].
  destruct (if s =? 0 then _ else _) as [[v bs2]|]; [|exact H0].
  apply ac_loop_spec; auto; try lia.
  - constructor; [|constructor]. unfold store_ok, kof; cbn. ulia.
  - cbn. auto.
  - constructor; [unfold kof; cbn; lia|constructor].
  - cbn. lia.
Qed.
