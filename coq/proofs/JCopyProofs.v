(* C20 round 4 -- jcopy_sample_rows copies rows source_row+j -> dest_row+j, j < num_rows, num_cols bytes each: exactly the
   row-index function model/YuvCopy.v gives to rows_access for the jcopy_sample_rows calls of encode and decode. *)
From Coq Require Import ZArith List Bool Lia ZifyBool.
From LJT Require Import gen.GenSubsamp model.Geometry model.YuvCopy model.RawData model.JCopy.
Import ListNotations.
Local Open Scope Z_scope.

Lemma map_zseq_shift (i o c : Z) n : forall lo,
  map (fun j => (i + 1 + j, o + 1 + j, c)) (zseq lo n) = map (fun j => (i + j, o + j, c)) (zseq (lo + 1) n).
Proof.
  induction n as [|n IHn]; intros lo; cbn [zseq map]; [reflexivity|]. rewrite IHn.
  replace (i + 1 + lo) with (i + (lo + 1)) by lia. replace (o + 1 + lo) with (o + (lo + 1)) by lia. reflexivity.
Qed.

Lemma jcopy_loop_spec fuel : forall row i o c, row = Z.of_nat fuel ->
  jcopy_loop fuel row i o c = Some (map (fun j => (i + j, o + j, c)) (zseq 0 fuel)).
Proof.
  induction fuel as [|fuel IH]; intros row i o c E; cbn [jcopy_loop zseq map].
  - assert (X : row >? 0 = false) by lia. rewrite X. reflexivity.
  - assert (X : row >? 0 = true) by lia. rewrite X.
    rewrite (IH (row - 1) (i + 1) (o + 1) c) by lia. cbn [option_map].
    rewrite !Z.add_0_r. rewrite map_zseq_shift. reflexivity.
Qed.

Definition jcopy_statement : Prop :=
  forall source_row dest_row num_rows num_cols, 0 <= num_rows ->
  jcopy_sample_rows source_row dest_row num_rows num_cols =
    Some (map (fun j => (source_row + j, dest_row + j, num_cols)) (zseq 0 (Z.to_nat num_rows))) /\
  (forall l, jcopy_sample_rows source_row dest_row num_rows num_cols = Some l ->
     forall s d b, In (s, d, b) l -> source_row <= s < source_row + num_rows /\ dest_row <= d < dest_row + num_rows /\
                                     d - dest_row = s - source_row /\ b = num_cols) /\
  (* the destination (encode) / source (decode) row indices are those of the rows_access calls of model/YuvCopy.v *)
  map (fun j => dest_row + j) (zseq 0 (Z.to_nat num_rows)) = map (fun j => enc_copy_row dest_row 1 1 + j) (zseq 0 (Z.to_nat (enc_copy_n num_rows))).

Lemma zseq_in' n : forall lo x, In x (zseq lo n) -> lo <= x < lo + Z.of_nat n.
Proof. induction n as [|n IH]; intros lo x H; cbn in H; [tauto|]. destruct H as [<-|H]; [lia|]. specialize (IH _ _ H). lia. Qed.

Lemma jcopy_proof : jcopy_statement.
Proof.
  intros sr dr n c Hn.
  assert (E : jcopy_sample_rows sr dr n c = Some (map (fun j => (sr + j, dr + j, c)) (zseq 0 (Z.to_nat n)))).
  { unfold jcopy_sample_rows, jcopy_iterations, jcopy_src_first, jcopy_dst_first, jcopy_count.
    rewrite Z.mul_1_r. apply jcopy_loop_spec. lia. }
  split; [exact E|]. split.
  - intros l El s d b Hin. rewrite E in El. injection El as <-. apply in_map_iff in Hin. destruct Hin as (j & Ej & Hj).
    injection Ej as <- <- <-. apply zseq_in' in Hj. lia.
  - unfold enc_copy_row, enc_copy_n. apply map_ext. intros j. rewrite Z.mul_1_r, Z.quot_1_r. reflexivity.
Qed.
