(* Interleaved MCU order at the bit level: the samples of an MCU row are written
   column by column, one sample of every component, each with the Huffman table
   of its component; reading them back and de-interleaving gives the canonical
   difference rows. *)
From Coq Require Import List ZArith Lia Bool.
From LJT Require Import model.Huff model.Lossless proofs.LosslessProofs.
Import ListNotations.
Local Open Scope Z_scope.

Lemma transpose_length w : forall rows, length (transpose w rows) = w.
Proof. induction w; intros; cbn; auto. Qed.

Lemma transpose_all_len w : forall rows, Forall (fun m => length m = length rows) (transpose w rows).
Proof.
  induction w as [|k IH]; intros rows; cbn [transpose]; constructor.
  - apply map_length.
  - specialize (IH (map (@tl Z) rows)). rewrite map_length in IH. exact IH.
Qed.

Lemma nth_S_tl (r : list Z) j : nth (S j) r 0 = nth j (tl r) 0.
Proof. destruct r; [destruct j; reflexivity|reflexivity]. Qed.

Lemma transpose_nth : forall w rows j, (j < w)%nat ->
  nth j (transpose w rows) [] = map (fun r => nth j r 0) rows.
Proof.
  induction w as [|k IH]; intros rows j Hj; [lia|]. cbn [transpose]. destruct j as [|j'].
  - cbn [nth]. apply map_ext. intros r. destruct r; reflexivity.
  - cbn [nth]. rewrite IH by lia. rewrite map_map. apply map_ext. intros r. symmetry. apply nth_S_tl.
Qed.

Lemma nth_nil_0 i : nth i (@nil Z) 0 = 0.
Proof. destruct i; reflexivity. Qed.

Lemma transpose_involutive n w rows :
  length rows = n -> Forall (fun r => length r = w) rows ->
  transpose n (transpose w rows) = rows.
Proof.
  intros Hn Hw. apply (nth_ext _ _ [] []).
  - rewrite transpose_length. lia.
  - intros i Hi. rewrite transpose_length in Hi. rewrite transpose_nth by lia.
    assert (Hri : length (nth i rows []) = w).
    { rewrite Forall_forall in Hw. apply Hw. apply nth_In. lia. }
    apply (nth_ext _ _ 0 0).
    + rewrite map_length, transpose_length. lia.
    + intros j Hj. rewrite map_length, transpose_length in Hj.
      rewrite <- (nth_nil_0 i) at 1.
      rewrite (map_nth (fun c => nth i c 0)). rewrite transpose_nth by lia.
      rewrite <- (nth_nil_0 j) at 1.
      rewrite (map_nth (fun r => nth j r 0)). reflexivity.
Qed.

Lemma transpose_map (f : Z -> Z) : f 0 = 0 -> forall w rows,
  map (map f) (transpose w rows) = transpose w (map (map f) rows).
Proof.
  intros H0. induction w as [|k IH]; intros rows; [reflexivity|]. cbn [transpose map]. f_equal.
  - rewrite !map_map. apply map_ext. intros r. destruct r; cbn; auto.
  - rewrite IH. f_equal. rewrite !map_map. apply map_ext. intros r. destruct r; reflexivity.
Qed.

Lemma chunks_concat n : forall mcus, Forall (fun m => length m = n) mcus ->
  chunks n (length mcus) (concat mcus) = mcus.
Proof.
  induction mcus as [|m t IH]; intros H; [reflexivity|]. inversion H; subst.
  cbn [length chunks concat]. rewrite firstn_app, Nat.sub_diag, firstn_all. cbn [firstn].
  rewrite app_nil_r. rewrite skipn_app, Nat.sub_diag, skipn_all. cbn [skipn app].
  rewrite IH by assumption. reflexivity.
Qed.

Lemma combine_fst_snd (tbls mcu : list Z) : length mcu = length tbls ->
  map fst (combine tbls mcu) = tbls /\ map snd (combine tbls mcu) = mcu.
Proof.
  revert mcu. induction tbls as [|a t IH]; intros [|b m] H; cbn in H; try discriminate; [auto|].
  destruct (IH m) as [E1 E2]; [lia|]. cbn. rewrite E1, E2. auto.
Qed.

Lemma toks_fst_snd (tbls : list Z) : forall mcus : list (list Z), Forall (fun m => length m = length tbls) mcus ->
  map fst (concat (map (combine tbls) mcus)) = concat (repeat tbls (length mcus)) /\
  map snd (concat (map (combine tbls) mcus)) = concat mcus.
Proof.
  induction mcus as [|m t IH]; intros H; [auto|]. inversion H; subst.
  destruct (IH ltac:(assumption)) as [E1 E2]. destruct (combine_fst_snd tbls m ltac:(assumption)) as [F1 F2].
  cbn [map concat length repeat]. rewrite !map_app, E1, E2, F1, F2. auto.
Qed.

Lemma canon_diff_0 : canon_diff 0 = 0.
Proof. reflexivity. Qed.

Section Interleaved.
  Variable code : Z -> Z -> list bool.
  Variable dec : Z -> list bool -> option (Z * list bool).
  Hypothesis dec_code : forall tbl s rest, 0 <= s <= 16 -> dec tbl (code tbl s ++ rest) = Some (s, rest).

  Theorem decode_encode_mcu_row tbls w rows rest :
    length rows = length tbls -> Forall (fun r => length r = w) rows ->
    decode_mcu_row dec tbls w (encode_mcu_row code tbls w rows ++ rest)
    = Some (map (map canon_diff) rows, rest).
  Proof.
    intros Hn Hw. unfold decode_mcu_row, encode_mcu_row, mcu_row_toks.
    set (mcus := transpose w rows).
    assert (Hm : Forall (fun m => length m = length tbls) mcus).
    { unfold mcus. rewrite <- Hn. apply transpose_all_len. }
    assert (Hl : length mcus = w) by apply transpose_length.
    destruct (toks_fst_snd tbls mcus Hm) as [E1 E2]. rewrite Hl in E1.
    rewrite <- E1. rewrite (decode_encode_toks code dec dec_code).
    f_equal. f_equal.
    rewrite <- (map_map snd canon_diff).
    change (fun mcu : list Z => combine tbls mcu) with (@combine Z Z tbls). rewrite E2. rewrite concat_map.
    rewrite <- Hl at 1. rewrite <- (map_length (map canon_diff) mcus).
    rewrite chunks_concat.
    - unfold mcus. rewrite (transpose_map canon_diff canon_diff_0).
      apply transpose_involutive.
      + rewrite map_length. exact Hn.
      + rewrite Forall_forall in *. intros r Hr. apply in_map_iff in Hr. destruct Hr as [r0 [<- Hr0]].
        rewrite map_length. auto.
    - rewrite Forall_forall in *. intros m Hin. apply in_map_iff in Hin. destruct Hin as [m0 [<- Hm0]].
      rewrite map_length. auto.
  Qed.
End Interleaved.
