(* C09 -- the bytes produced by encode_mcu_huff do not depend on the destination
   buffer size nor on the refusal schedule of empty_output_buffer. *)
From Coq Require Import List ZArith Lia Arith Bool.
From LJT Require Import model.SuspendCore model.SuspendEnc.
Import ListNotations.

Definition wf (d : dest) : Prop := length (wbuf d) < cap d.

Section EncProofs.
  Variables wstate block : Type.
  Variable encode_block : wstate -> block -> list byte * wstate.
  Variable flush_bits : wstate -> list byte * wstate.
  Variable reset_dc : wstate -> wstate.
  Hypothesis Hblk : forall w b, length (fst (encode_block w b)) < BUFSIZE.
  Hypothesis Hfl : forall w, length (fst (flush_bits w)) < BUFSIZE.

  Notation put := (put true).
  Notation store := (store true).
  Notation dump := (dump true).
  Notation encode_blocks := (encode_blocks wstate block encode_block true).
  Notation emit_restart := (emit_restart wstate flush_bits reset_dc true).
  Notation encode_mcu := (encode_mcu wstate block encode_block flush_bits reset_dc true).
  Notation encode_all := (encode_all wstate block encode_block flush_bits reset_dc true).
  Notation mcu_pure := (mcu_pure wstate block encode_block flush_bits reset_dc).
  Notation stream_pure := (stream_pure wstate block encode_block flush_bits reset_dc).

  (* d0 = destination at the start of the MCU (commit point); d = working copy.
     Either a buffer has been accepted in this MCU (then the manager sees next_output_byte at the
     buffer start) or the working copy extends d0. *)
  Definition bnd (d0 : dest) : Prop := pub_pos d0 = length (wbuf d0).
  Definition inv (d0 d : dest) : Prop :=
    cap d = cap d0 /\
    (pub_pos d = 0 \/ (pub_pos d = pub_pos d0 /\ wsink d = wsink d0 /\ exists x, wbuf d = wbuf d0 ++ x)).

  Lemma inv_refl : forall d, inv d d.
  Proof. intros. split; auto. right. repeat split; auto. exists []. now rewrite app_nil_r. Qed.

  Lemma rolled_back_inv : forall d0 d, bnd d0 -> inv d0 d -> pub_pos d <> 0 -> rolled_back d = d0.
  Proof.
    intros d0 d B [C [Z|(P & S & x & X)]] NZ; [contradiction|].
    destruct d0 as [c0 b0 s0 p0]. unfold bnd in B. simpl in *.
    unfold rolled_back. rewrite C, P, S, X, B, firstn_app, firstn_all, Nat.sub_diag. simpl. rewrite app_nil_r.
    reflexivity.
  Qed.

  Lemma put_some : forall bs d orc d' o', put bs d orc = (inl d', o') -> wf d ->
    wf d' /\ cap d' = cap d /\ total d' = total d ++ bs.
  Proof.
    induction bs as [|b bs IH]; intros d orc d' o' H W; simpl in H.
    - inversion H; subst. rewrite app_nil_r. auto.
    - destruct (Nat.eqb (length (wbuf d ++ [b])) (cap d)) eqn:E.
      + unfold SuspendEnc.dump in H. simpl in H.
        match type of H with context[if ?c then _ else _] => destruct c end; [discriminate|].
        apply IH in H; [|unfold wf in *; simpl; lia].
        destruct H as (A & B & C). repeat split; auto.
        rewrite C. unfold total. simpl. rewrite app_nil_r, <- !app_assoc. reflexivity.
      + apply Nat.eqb_neq in E. rewrite app_length in E. simpl in E.
        apply IH in H; [|unfold wf in *; simpl; rewrite app_length; simpl; lia].
        destruct H as (A & B & C). repeat split; auto.
        rewrite C. unfold total. simpl. rewrite <- !app_assoc. reflexivity.
  Qed.

  Lemma put_inv : forall bs d0 d orc, bnd d0 -> inv d0 d ->
    match put bs d orc with
    | (inl d', _) => inv d0 d'
    | (inr ds, _) => ds = d0
    end.
  Proof.
    induction bs as [|b bs IH]; intros d0 d orc B I; simpl; [exact I|].
    set (d1 := {| cap := cap d; wbuf := wbuf d ++ [b]; wsink := wsink d; pub_pos := pub_pos d |}).
    assert (I1 : inv d0 d1).
    { destruct I as [C [Z|(P & S & x & X)]]; split; auto. right. simpl. repeat split; auto.
      exists (x ++ [b]). rewrite X, app_assoc. reflexivity. }
    destruct (Nat.eqb (length (wbuf d ++ [b])) (cap d)); [|apply IH; auto].
    unfold SuspendEnc.dump. simpl negb at 1. simpl orb.
    destruct (hd false orc && negb (Nat.eqb (pub_pos d) 0)) eqn:Rf.
    - apply andb_true_iff in Rf. destruct Rf as [_ Rf]. apply negb_true_iff, Nat.eqb_neq in Rf.
      now apply rolled_back_inv.
    - apply IH; auto. split; [simpl; apply I|]. left. reflexivity.
  Qed.

  Lemma put_pub0 : forall bs d orc, pub_pos d = 0 -> wf d ->
    exists d' o', put bs d orc = (inl d', o') /\ pub_pos d' = 0.
  Proof.
    induction bs as [|b bs IH]; intros d orc P W; simpl.
    - eauto.
    - destruct (Nat.eqb (length (wbuf d ++ [b])) (cap d)) eqn:E.
      + unfold SuspendEnc.dump. simpl. rewrite P. simpl. rewrite andb_false_r.
        apply IH; [reflexivity | unfold wf in *; simpl; lia].
      + apply Nat.eqb_neq in E. rewrite app_length in E. simpl in E.
        apply IH; [exact P | unfold wf in *; simpl; rewrite app_length; simpl; lia].
  Qed.

  Lemma store_some : forall bs d orc d' o', length bs < BUFSIZE -> store bs d orc = (inl d', o') -> wf d ->
    wf d' /\ cap d' = cap d /\ total d' = total d ++ bs.
  Proof.
    intros bs d orc d' o' L H W. unfold SuspendEnc.store in H.
    destruct (Nat.leb BUFSIZE (cap d - length (wbuf d))) eqn:E.
    - apply Nat.leb_le in E. inversion H; subst. unfold wf, total in *. simpl.
      rewrite app_length, app_assoc. repeat split; auto. lia.
    - now apply put_some in H.
  Qed.

  Lemma store_inv : forall bs d0 d orc, bnd d0 -> inv d0 d ->
    match store bs d orc with
    | (inl d', _) => inv d0 d'
    | (inr ds, _) => ds = d0
    end.
  Proof.
    intros bs d0 d orc B I. unfold SuspendEnc.store.
    destruct (Nat.leb BUFSIZE (cap d - length (wbuf d))); [|now apply put_inv].
    destruct I as [C [Z|(P & S & x & X)]]; split; auto. right. simpl. repeat split; auto.
    exists (x ++ bs). rewrite X, app_assoc. reflexivity.
  Qed.

  Lemma store_pub0 : forall bs d orc, length bs < BUFSIZE -> pub_pos d = 0 -> wf d ->
    exists d' o', store bs d orc = (inl d', o') /\ pub_pos d' = 0.
  Proof.
    intros bs d orc L P W. unfold SuspendEnc.store.
    destruct (Nat.leb BUFSIZE (cap d - length (wbuf d))); [eauto | now apply put_pub0].
  Qed.

  (* the pure coder of a block list *)
  Definition step (acc : list byte * wstate) (b : block) : list byte * wstate :=
    let '(bs, c) := acc in let (x, c') := encode_block c b in (bs ++ x, c').

  Lemma fold_step_acc : forall bl acc c,
    fold_left step bl (acc, c) = (acc ++ fst (fold_left step bl ([], c)), snd (fold_left step bl ([], c))).
  Proof.
    induction bl as [|b bl IH]; intros; simpl.
    - now rewrite app_nil_r.
    - destruct (encode_block c b) as [x c'] eqn:E. simpl.
      rewrite (IH (acc ++ x) c'), (IH x c'). simpl. now rewrite app_assoc.
  Qed.

  Lemma blocks_some : forall bl cur d orc cur' d' o', encode_blocks bl cur d orc = (inl (cur', d'), o') -> wf d ->
    wf d' /\ cap d' = cap d /\ total d' = total d ++ fst (fold_left step bl ([], cur)) /\
    cur' = snd (fold_left step bl ([], cur)).
  Proof.
    induction bl as [|b bl IH]; intros cur d orc cur' d' o' H W; simpl in *.
    - inversion H; subst. rewrite app_nil_r. auto.
    - pose proof (Hblk cur b) as L.
      destruct (encode_block cur b) as [x c1] eqn:E. simpl in L.
      destruct (store x d orc) as [[d1|ds] o1] eqn:S; [|discriminate].
      destruct (store_some _ _ _ _ _ L S W) as (A & B & C).
      destruct (IH _ _ _ _ _ _ H A) as (A' & B' & C' & D').
      rewrite (fold_step_acc bl x c1). simpl.
      repeat split; auto; try congruence.
      rewrite C', C, <- app_assoc. reflexivity.
  Qed.

  Lemma blocks_inv : forall bl cur d0 d orc, bnd d0 -> inv d0 d ->
    match encode_blocks bl cur d orc with
    | (inl (_, d'), _) => inv d0 d'
    | (inr ds, _) => ds = d0
    end.
  Proof.
    induction bl as [|b bl IH]; intros cur d0 d orc B I; simpl; [exact I|].
    destruct (encode_block cur b) as [x c1].
    pose proof (store_inv x d0 d orc B I) as S.
    destruct (store x d orc) as [[d1|ds] o1]; [|exact S].
    now apply IH.
  Qed.

  Lemma blocks_pub0 : forall bl cur d orc, pub_pos d = 0 -> wf d ->
    exists r o', encode_blocks bl cur d orc = (inl r, o').
  Proof.
    induction bl as [|b bl IH]; intros cur d orc P W; simpl.
    - eauto.
    - pose proof (Hblk cur b) as L.
      destruct (encode_block cur b) as [x c1] eqn:E. simpl in L.
      destruct (store_pub0 x d orc L P W) as (d1 & o1 & S & P1). rewrite S.
      destruct (store_some _ _ _ _ _ L S W) as (A & _).
      apply IH; auto.
  Qed.

  Lemma restart_some : forall cur num d orc cur' d' o', emit_restart cur num d orc = (inl (cur', d'), o') -> wf d ->
    wf d' /\ cap d' = cap d /\
    total d' = total d ++ fst (flush_bits cur) ++ [255%Z; (208 + num)%Z] /\ cur' = reset_dc (snd (flush_bits cur)).
  Proof.
    intros cur num d orc cur' d' o' H W. unfold SuspendEnc.emit_restart in H.
    pose proof (Hfl cur) as L.
    destruct (flush_bits cur) as [fb c1] eqn:E. cbn [fst snd] in *.
    destruct (store fb d orc) as [[d1|?] o1] eqn:S1; [|discriminate].
    destruct (SuspendEnc.put true [255%Z] d1 o1) as [[d2|?] o2] eqn:S2; [|discriminate].
    destruct (SuspendEnc.put true [(208 + num)%Z] d2 o2) as [[d3|?] o3] eqn:S3; [|discriminate].
    inversion H; subst.
    destruct (store_some _ _ _ _ _ L S1 W) as (A1 & B1 & C1).
    destruct (put_some _ _ _ _ _ S2 A1) as (A2 & B2 & C2).
    destruct (put_some _ _ _ _ _ S3 A2) as (A3 & B3 & C3).
    repeat split; auto; try congruence.
    rewrite C3, C2, C1, <- !app_assoc. reflexivity.
  Qed.

  Lemma restart_inv : forall cur num d0 d orc, bnd d0 -> inv d0 d ->
    match emit_restart cur num d orc with
    | (inl (_, d'), _) => inv d0 d'
    | (inr ds, _) => ds = d0
    end.
  Proof.
    intros cur num d0 d orc B I. unfold SuspendEnc.emit_restart.
    destruct (flush_bits cur) as [fb c1].
    pose proof (store_inv fb d0 d orc B I) as S1.
    destruct (store fb d orc) as [[d1|?] o1]; [|exact S1].
    pose proof (put_inv [255%Z] d0 d1 o1 B S1) as S2.
    destruct (SuspendEnc.put true [255%Z] d1 o1) as [[d2|?] o2]; [|exact S2].
    pose proof (put_inv [(208 + num)%Z] d0 d2 o2 B S2) as S3.
    destruct (SuspendEnc.put true [(208 + num)%Z] d2 o2) as [[d3|?] o3]; exact S3.
  Qed.

  Lemma restart_pub0 : forall cur num d orc, pub_pos d = 0 -> wf d ->
    exists cur' d' o', emit_restart cur num d orc = (inl (cur', d'), o') /\ pub_pos d' = 0.
  Proof.
    intros cur num d orc P W. unfold SuspendEnc.emit_restart.
    pose proof (Hfl cur) as L.
    destruct (flush_bits cur) as [fb c1] eqn:E. cbn [fst snd] in *.
    destruct (store_pub0 fb d orc L P W) as (d1 & o1 & S1 & P1). rewrite S1.
    destruct (store_some _ _ _ _ _ L S1 W) as (A1 & _).
    destruct (put_pub0 [255%Z] d1 o1 P1 A1) as (d2 & o2 & S2 & P2). rewrite S2.
    destruct (put_some _ _ _ _ _ S2 A1) as (A2 & _).
    destruct (put_pub0 [(208 + num)%Z] d2 o2 P2 A2) as (d3 & o3 & S3 & P3). rewrite S3.
    eauto.
  Qed.

  Lemma mcu_some : forall ri e m d orc e' d' o', encode_mcu ri e m d orc = (inl (e', d'), o') -> wf d ->
    wf d' /\ cap d' = cap d /\ pub_pos d' = length (wbuf d') /\
    total d' = total d ++ fst (mcu_pure ri e m) /\ e' = snd (mcu_pure ri e m).
  Proof.
    intros ri e m d orc e' d' o' H W.
    unfold SuspendEnc.encode_mcu in H. unfold SuspendEnc.mcu_pure.
    fold step.
    destruct (negb (Nat.eqb ri 0) && Nat.eqb (restarts_to_go e) 0) eqn:R.
    - destruct (emit_restart (saved e) (next_restart_num e) d orc) as [[[cur d1]|?] o1] eqn:S1; [|discriminate].
      destruct (restart_some _ _ _ _ _ _ _ S1 W) as (A1 & B1 & C1 & D1).
      destruct (flush_bits (saved e)) as [fb c1] eqn:F. cbn [fst snd] in *.
      destruct (encode_blocks m cur d1 o1) as [[[cur' d2]|?] o2] eqn:S2; [|discriminate].
      destruct (blocks_some _ _ _ _ _ _ _ S2 A1) as (A2 & B2 & C2 & D2).
      inversion H; subst; clear H.
      destruct (fold_left step m ([], reset_dc c1)) as [body cz] eqn:FB. cbn [fst snd] in *.
      unfold wf, total in *. cbn [cap wbuf wsink pub_pos fst snd] in *.
      repeat split; auto; try congruence.
      rewrite C2, C1, <- !app_assoc. reflexivity.
    - destruct (encode_blocks m (saved e) d orc) as [[[cur' d2]|?] o2] eqn:S2; [|discriminate].
      destruct (blocks_some _ _ _ _ _ _ _ S2 W) as (A2 & B2 & C2 & D2).
      inversion H; subst; clear H.
      destruct (fold_left step m ([], saved e)) as [body cz] eqn:FB. cbn [fst snd] in *.
      unfold wf, total in *. cbn [cap wbuf wsink pub_pos fst snd] in *.
      repeat split; auto.
  Qed.

  (* a refused MCU leaves the destination exactly as it was at the commit point *)
  Lemma mcu_susp : forall ri e m d orc ds o', bnd d -> encode_mcu ri e m d orc = (inr ds, o') -> ds = d.
  Proof.
    intros ri e m d orc ds o' B H. unfold SuspendEnc.encode_mcu in H.
    destruct (negb (Nat.eqb ri 0) && Nat.eqb (restarts_to_go e) 0).
    - pose proof (restart_inv (saved e) (next_restart_num e) d d orc B (inv_refl d)) as S1.
      destruct (emit_restart (saved e) (next_restart_num e) d orc) as [[[cur d1]|?] o1]; [|inversion H; congruence].
      pose proof (blocks_inv m cur d d1 o1 B S1) as S2.
      destruct (encode_blocks m cur d1 o1) as [[[cur' d2]|?] o2]; [discriminate|inversion H; congruence].
    - pose proof (blocks_inv m (saved e) d d orc B (inv_refl d)) as S2.
      destruct (encode_blocks m (saved e) d orc) as [[[cur' d2]|?] o2]; [discriminate|inversion H; congruence].
  Qed.

  Lemma mcu_pub0 : forall ri e m d orc, pub_pos d = 0 -> wf d ->
    exists r o', encode_mcu ri e m d orc = (inl r, o').
  Proof.
    intros ri e m d orc P W. unfold SuspendEnc.encode_mcu.
    destruct (negb (Nat.eqb ri 0) && Nat.eqb (restarts_to_go e) 0).
    - destruct (restart_pub0 (saved e) (next_restart_num e) d orc P W) as (cur & d1 & o1 & S1 & P1). rewrite S1.
      destruct (restart_some _ _ _ _ _ _ _ S1 W) as (A1 & _).
      destruct (blocks_pub0 m cur d1 o1 P1 A1) as ([c2 d2] & o2 & S2). rewrite S2. eauto.
    - destruct (blocks_pub0 m (saved e) d orc P W) as ([c2 d2] & o2 & S2). rewrite S2. eauto.
  Qed.

  Lemma app_flush_ok : forall d, wf d -> pub_pos d = length (wbuf d) ->
    wf (app_flush d) /\ pub_pos (app_flush d) = 0 /\ total (app_flush d) = total d /\
    pub_pos (app_flush d) = length (wbuf (app_flush d)) /\ cap (app_flush d) = cap d.
  Proof.
    intros d W P. unfold app_flush, wf, total in *. simpl. rewrite P, firstn_all, app_nil_r.
    repeat split; auto. lia.
  Qed.

  (* (4) independence of the destination *)
  Theorem encode_all_total : forall ri ms e d orc vol, wf d -> pub_pos d = length (wbuf d) ->
    exists d', encode_all ri ms e d orc vol = EDone (snd (stream_pure ri ms e)) d' /\
               total d' = total d ++ fst (stream_pure ri ms e).
  Proof.
    induction ms as [|m ms IH]; intros e d orc vol W P; simpl.
    - exists d. now rewrite app_nil_r.
    - set (d0 := if hd false vol then app_flush d else d).
      assert (W0 : wf d0 /\ pub_pos d0 = length (wbuf d0) /\ total d0 = total d).
      { unfold d0. destruct (hd false vol); [|auto].
        destruct (app_flush_ok d W P) as (A & B & C & D & _). auto. }
      destruct W0 as (W0 & P0 & T0).
      destruct (mcu_pure ri e m) as [bs e1] eqn:MP.
      destruct (stream_pure ri ms e1) as [rest e2] eqn:SP.
      destruct (encode_mcu ri e m d0 orc) as [[[e' d']|ds] o'] eqn:M1.
      + destruct (mcu_some _ _ _ _ _ _ _ _ M1 W0) as (A & B & C & D & E).
        rewrite MP in D, E. simpl in D, E. subst e'.
        destruct (IH e1 d' o' (tl vol) A C) as (df & F1 & F2).
        rewrite SP in F1, F2. simpl in *. exists df. split; [exact F1|].
        rewrite F2, D, T0, <- app_assoc. reflexivity.
      + apply (mcu_susp _ _ _ _ _ _ _ P0) in M1. subst ds.
        destruct (app_flush_ok d0 W0 P0) as (A0 & B0 & C0 & D0 & _).
        destruct (mcu_pub0 ri e m (app_flush d0) o' B0 A0) as ([e' d'] & o'' & M2). rewrite M2.
        destruct (mcu_some _ _ _ _ _ _ _ _ M2 A0) as (A & B & C & D & E).
        rewrite MP in D, E. simpl in D, E. subst e'.
        destruct (IH e1 d' o'' (tl vol) A C) as (df & F1 & F2).
        rewrite SP in F1, F2. simpl in *. exists df. split; [exact F1|].
        rewrite F2, D, C0, T0, <- app_assoc. reflexivity.
  Qed.

  Theorem output_buffer_irrelevant : forall ri ms e n orc vol, 1 <= n ->
    exists d', encode_all ri ms e (empty_dest n) orc vol = EDone (snd (stream_pure ri ms e)) d' /\
               total d' = fst (stream_pure ri ms e).
  Proof.
    intros. destruct (encode_all_total ri ms e (empty_dest n) orc vol) as (d' & A & B).
    - unfold wf. simpl. lia.
    - reflexivity.
    - exists d'. split; auto.
  Qed.
End EncProofs.

(* --------------------------------------------------------- non-vacuity *)
Definition ex_mcus : list (list (list byte)) :=
  [[[1; 255; 3]%Z; [4; 5]%Z]; [[255; 255]%Z]; [[7; 8; 9; 10; 11]%Z; [12]%Z]; [[13; 14]%Z]].
Definition ex_orcs : list (list bool) :=
  [[]; [true; true; true; true; true; true]; [false; true; false; true; true; false; true]; [true; false; false; true]].

Example ex_enc_all_caps :
  forallb (fun n => forallb (fun orc => forallb (fun ri =>
      match toy_run true n ri ex_mcus orc [false; true; false; true] with
      | Some out => if list_eq_dec Z.eq_dec out (toy_pure ri ex_mcus) then true else false
      | None => false end) [0; 1; 2; 3]) ex_orcs) (seq 1 24) = true.
Proof. vm_compute. reflexivity. Qed.

(* refusals really happen in these runs (the theorem is not about an idle oracle) *)
Example ex_enc_refusal_happens :
  fst (encode_mcu toy_state (list byte) toy_block toy_flush (fun w => w) true 0
         {| saved := None; restarts_to_go := 0; next_restart_num := 0 |} [[1; 2; 3; 4; 5; 6]%Z]
         {| cap := 4; wbuf := [9%Z]; wsink := []; pub_pos := 1 |} [true])
  = inr {| cap := 4; wbuf := [9%Z]; wsink := []; pub_pos := 1 |}.
Proof. vm_compute. reflexivity. Qed.

(* a manager that refuses after it has accepted a buffer within the same MCU (forbidden by the
   documentation) duplicates data: the side condition of the protocol is necessary *)
Example ex_enc_unsafe_manager_duplicates :
  toy_run false 2 0 [[[1; 2; 3; 4; 5; 6]%Z]] [false; true] [] <> Some (toy_pure 0 [[[1; 2; 3; 4; 5; 6]%Z]]).
Proof. vm_compute. discriminate. Qed.
