(* C18 -- non-vacuity examples (vm_compute) *)
From Coq Require Import List ZArith Lia Bool ZifyBool.
From LJT Require Import gen.GenPnm model.Pnm proofs.PnmProofs proofs.PnmRoundtrip proofs.PnmTop.
Import ListNotations.
Local Open Scope Z_scope.
Ltac Zify.zify_post_hook ::= Z.div_mod_to_equations.

Definition rgb := TRgb {| l_r := 0; l_g := 1; l_b := 2; l_a := -1; l_ps := 3 |}.
Definition rgba := TRgb {| l_r := 0; l_g := 1; l_b := 2; l_a := 3; l_ps := 4 |}.
Definition no_uncmyk (m c y k2 k : Z) : Z * Z * Z := (0, 0, 0).

(* "P2\n# c\n2 1 #x\n3\n1 2\n" : comments, text samples, precision 2 *)
Definition f_text := [80; 50; 10; 35; 32; 99; 10; 50; 32; 49; 32; 35; 120; 10; 51; 10; 49; 32; 50; 10].
Lemma ex_text_ok : bytes f_text /\ load_pnm cmyk_exact look_tbl 2 0 None false f_text = Ok (2, 1, TGray, [[1; 2]]).
Proof. split; [repeat constructor; lia | vm_compute; reflexivity]. Qed.

(* F8 regression: "P2\n2 1\n3\n9 2\n" at precision 2 must be rejected, for every target *)
Definition f_f8 := [80; 50; 10; 50; 32; 49; 10; 51; 10; 57; 32; 50; 10].
Lemma ex_f8_rejected :
  load_pnm cmyk_exact look_tbl 2 0 (Some rgb) false f_f8 = Err E_RANGE /\
  load_pnm cmyk_exact look_tbl 2 0 (Some TGray) false f_f8 = Err E_RANGE /\
  load_pnm cmyk_exact look_tbl 2 0 (Some TCmyk) false f_f8 = Err E_RANGE.
Proof. vm_compute. auto. Qed.

(* F9 regression: "P5\n2 1\n3\n" ff 02 at precision 2: the byte above maxval maps to 0 *)
Definition f_f9 := [80; 53; 10; 50; 32; 49; 10; 51; 10; 255; 2].
Lemma ex_f9_in_range :
  load_pnm cmyk_exact look_tbl 2 0 (Some TGray) false f_f9 = Ok (2, 1, TGray, [[0; 2]]) /\
  load_pnm cmyk_exact look_tbl 2 0 (Some rgb) false f_f9 = Ok (2, 1, rgb, [[0; 0; 0; 2; 2; 2]]).
Proof. vm_compute. auto. Qed.

(* F10 regression: "P6\n1 1\n65535\n" ffff 0000 0000 at precision 12 into CMYK (exact-arithmetic rgb_to_cmyk) *)
Definition f_f10 := [80; 54; 10; 49; 32; 49; 10; 54; 53; 53; 51; 53; 10; 255; 255; 0; 0; 0; 0].
Lemma ex_f10_in_range :
  load_pnm cmyk_exact look_tbl 12 0 (Some TCmyk) false f_f10 = Ok (1, 1, TCmyk, [[4095; 0; 0; 4095]]).
Proof. vm_compute. reflexivity. Qed.

(* word sample above maxval, truncated raw data, pixel limit, wrong colour space, empty file *)
Lemma ex_rejections :
  load_pnm cmyk_exact look_tbl 10 0 None false [80; 53; 10; 49; 32; 49; 10; 49; 48; 48; 48; 10; 3; 233] = Err E_RANGE /\
  load_pnm cmyk_exact look_tbl 8 0 None false [80; 54; 10; 50; 32; 49; 10; 50; 53; 53; 10; 1; 2; 3; 4; 5] = Err E_EOF /\
  load_pnm cmyk_exact look_tbl 8 5 None false [80; 53; 10; 51; 32; 50; 10; 50; 53; 53; 10; 1; 2; 3; 4; 5; 6] = Err E_TOOBIG /\
  load_pnm cmyk_exact look_tbl 8 6 None false [80; 53; 10; 51; 32; 50; 10; 50; 53; 53; 10; 1; 2; 3; 4; 5; 6] = Ok (3, 2, TGray, [[1; 2; 3]; [4; 5; 6]]) /\
  load_pnm cmyk_exact look_tbl 8 0 (Some TGray) false [80; 54; 10; 49; 32; 49; 10; 50; 53; 53; 10; 1; 2; 3] = Err E_BADCS /\
  load_pnm cmyk_exact look_tbl 8 0 None false [] = Err E_NOTPPM /\
  load_pnm cmyk_exact look_tbl 8 0 None false [80; 50; 10; 49; 32; 120] = Err E_NONNUM /\
  load_pnm cmyk_exact look_tbl 8 0 None false [80; 50; 10; 49; 32; 49; 32; 35; 32; 110; 111; 32; 110; 101; 119; 108; 105; 110; 101] = Err E_EOF.
Proof. vm_compute. repeat split; reflexivity. Qed.

(* rescaling: maxval 1000 -> 12 bits, bottom-up *)
Lemma ex_rescale :
  load_pnm cmyk_exact look_tbl 12 0 None true [80; 50; 32; 49; 32; 50; 32; 49; 48; 48; 48; 32; 53; 48; 48; 32; 49; 48; 48; 48] = Ok (1, 2, TGray, [[4095]; [2048]]).
Proof. vm_compute. reflexivity. Qed.

(* a save/load instance: 12-bit RGBA, 2x2, bottom-up; alpha comes back opaque *)
Definition img12 := [[1; 2; 3; 9; 4095; 0; 7; 9]; [100; 200; 300; 9; 4000; 3000; 2000; 9]].
Lemma ex_roundtrip :
  save_pnm no_uncmyk 12 rgba true 2 2 img12 =
    [80; 54; 10; 50; 32; 50; 10; 52; 48; 57; 53; 10; 0; 100; 0; 200; 1; 44; 15; 160; 11; 184; 7; 208; 0; 1; 0; 2; 0; 3; 15; 255; 0; 0; 0; 7] /\
  load_pnm cmyk_exact look_tbl 12 0 (Some rgba) true (save_pnm no_uncmyk 12 rgba true 2 2 img12)
  = Ok (2, 2, rgba, [[1; 2; 3; 4095; 4095; 0; 7; 4095]; [100; 200; 300; 4095; 4000; 3000; 2000; 4095]]).
Proof. vm_compute. split; reflexivity. Qed.

(* the exact-arithmetic rgb_to_cmyk satisfies the boundedness assumption of the range theorem *)
Lemma cmyk_exact_in_prec prec : 2 <= prec <= 16 -> cmyk_in_prec cmyk_exact prec.
Proof.
  intros Hp r g b Hr Hg Hb. unfold in_prec in *. set (M := 2 ^ prec - 1) in *.
  assert (0 <= M) by lia.
  unfold cmyk_exact. set (x := Z.max r (Z.max g b)).
  assert (Hx : 0 <= x <= M) by lia.
  assert (r <= x /\ g <= x /\ b <= x) as (Rx & Gx & Bx) by lia.
  destruct (x =? 0) eqn:E.
  - split; [|reflexivity]. repeat constructor; lia.
  - assert (0 < x) by lia.
    assert (Hq : forall c, 0 <= c <= x -> 0 <= (2 * M * c + x) / (2 * x) <= M).
    { intros c Hc. split.
      - apply Z.div_pos; nia.
      - assert ((2 * M * c + x) / (2 * x) < M + 1); [|lia].
        apply Z.div_lt_upper_bound; nia. }
    split; [|reflexivity].
    repeat constructor; try (apply Hq; lia); lia.
Qed.
