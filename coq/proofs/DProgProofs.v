(* DProgProofs.v -- index bounds of the progressive and lossless Huffman decoders (model/DProg.v). *)
From Coq Require Import List ZArith Bool Lia ZifyBool.
From LJT Require Import gen.GenLimits model.Huff model.DMarkers model.DProg
  proofs.DMarkersProofs proofs.DMarkersScanProofs proofs.DMarkersBlockProofs proofs.DMarkersFastProofs.
Import ListNotations.
Local Open Scope Z_scope.
Ltac Zify.zify_post_hook ::= Z.div_mod_to_equations.
Ltac ulia ::= unfold bound_newnz_pos, bound_lh_arrays in *; ucon; lia.

Definition tr_ok (tr : list (Z * Z)) : Prop := Forall idx_ok tr.

Lemma lg_ok i b tr : 0 <= i < b -> tr_ok tr -> tr_ok (lg i b tr).
Proof. intros. constructor; auto. Qed.

Lemma no_pos k : 0 <= k < 80 -> 0 <= nthd natural_order k (-1) < L_DCTSIZE2.
Proof. intros H. rewrite nthd_natural by lia. pose proof (natural_order_nth k H). ulia. Qed.

(* ------------------------------------------------------------------ AC first *)
Lemma ac_first_spec t : dtbl_ok t -> forall Se Al, Se <= 63 -> forall fuel k bs tr st,
  1 <= k -> Se + 1 <= Z.of_nat fuel + k -> tr_ok tr ->
  match ac_first_loop fuel t Se Al k bs tr st with
  | PDone e tr' _ _ => tr_ok tr' /\ 0 <= e
  | PSusp tr' => tr_ok tr'
  | PFuel _ => False
  end.
Proof.
  intros Hok Se Al HSe. induction fuel as [|f IH]; intros k bs tr st Hk Hf Ht; cbn [ac_first_loop].
  - destruct (k <=? Se) eqn:E; [lia|]. split; [auto|lia].
  - destruct (k <=? Se) eqn:E; [|split; [auto|lia]].
    destruct (decode_lookahead t bs) as [[[sym w] bs1]|] eqn:ED; [|exact Ht].
    pose proof (decode_lookahead_sym _ _ _ _ _ Hok ED) as Hs.
    cbv zeta. destruct (sym mod 16 =? 0) eqn:E0.
    + destruct (sym / 16 =? 15) eqn:E15; [apply IH; auto; lia|].
      destruct (sym / 16 =? 0) eqn:Er.
      * split; [auto|]. assert (sym / 16 = 0) by lia. rewrite H. cbn. lia.
      * destruct (take_code _ bs1 0) as [[v bs2]|] eqn:ET; [|exact Ht].
        destruct (take_code_spec _ _ _ _ _ ET) as [_ B]. split; [auto|].
        assert (0 < 2 ^ (sym / 16)) by (apply Z.pow_pos_nonneg; lia). lia.
    + destruct (take_code _ bs1 0) as [[v bs2]|] eqn:ET; [|exact Ht].
      apply IH; try lia.
      apply lg_ok; [apply no_pos; lia|]. apply lg_ok; [ulia|exact Ht].
Qed.

(* ---------------------------------------------------------------- AC refine *)
Lemma refine_inner_spec : forall Se p1 m1, Se <= 63 -> forall fuel k r blk bs tr,
  1 <= k <= Se -> Se - k + 1 <= Z.of_nat fuel -> tr_ok tr ->
  match refine_inner fuel Se p1 m1 k r blk bs tr with
  | IOk k' _ _ tr' => k <= k' <= Se + 1 /\ tr_ok tr'
  | ISusp tr' => tr_ok tr'
  | IFuel _ => False
  end.
Proof.
  intros Se p1 m1 HSe. induction fuel as [|f IH]; intros k r blk bs tr Hk Hf Ht; cbn [refine_inner]; [lia|].
  cbv zeta.
  assert (T2 : tr_ok (lg (nthd natural_order k (-1)) L_DCTSIZE2 (lg k bound_natural_order tr))).
  { apply lg_ok; [apply no_pos; lia|]. apply lg_ok; [ulia|exact Ht]. }
  destruct (negb (_ =? 0)).
  - destruct bs as [|b bs']; [exact T2|].
    destruct (k + 1 <=? Se) eqn:E.
    + match goal with |- match refine_inner f Se p1 m1 (k + 1) r ?B bs' ?T with _ => _ end =>
        specialize (IH (k + 1) r B bs' T ltac:(lia) ltac:(lia) T2); destruct (refine_inner f Se p1 m1 (k + 1) r B bs' T) end; auto.
      destruct IH; split; auto; lia.
    + split; [lia|exact T2].
  - destruct (r - 1 <? 0); [split; [lia|exact T2]|].
    destruct (k + 1 <=? Se) eqn:E.
    + specialize (IH (k + 1) (r - 1) blk bs _ ltac:(lia) ltac:(lia) T2).
      destruct (refine_inner f Se p1 m1 (k + 1) (r - 1) blk bs _); auto. destruct IH; split; auto; lia.
    + split; [lia|exact T2].
Qed.

Lemma refine_tail_spec : forall Se p1 m1, Se <= 63 -> forall fuel k blk bs tr,
  1 <= k -> Se - k + 1 <= Z.of_nat fuel -> tr_ok tr ->
  match refine_tail fuel Se p1 m1 k blk bs tr with
  | IOk _ _ _ tr' => tr_ok tr'
  | ISusp tr' => tr_ok tr'
  | IFuel _ => False
  end.
Proof.
  intros Se p1 m1 HSe. induction fuel as [|f IH]; intros k blk bs tr Hk Hf Ht; cbn [refine_tail].
  - destruct (k <=? Se) eqn:E; [lia|exact Ht].
  - destruct (k <=? Se) eqn:E; [|exact Ht]. cbv zeta.
    assert (T2 : tr_ok (lg (nthd natural_order k (-1)) L_DCTSIZE2 (lg k bound_natural_order tr))).
    { apply lg_ok; [apply no_pos; lia|]. apply lg_ok; [ulia|exact Ht]. }
    destruct (negb (_ =? 0)).
    + destruct bs as [|b bs']; [exact T2|]. apply IH; auto; lia.
    + apply IH; auto; lia.
Qed.

Lemma refine_outer_spec t : dtbl_ok t -> forall Ss Se p1 m1, 1 <= Ss -> Se <= 63 -> forall fuel k blk bs nnz tr,
  Ss <= k -> 0 <= nnz <= k - Ss -> Se + 1 <= Z.of_nat fuel + k -> tr_ok tr ->
  match refine_outer fuel t Se p1 m1 k blk bs nnz tr with
  | OEob e k' _ _ _ tr' => Ss <= k' /\ tr_ok tr' /\ 1 <= e
  | ODone k' _ _ _ tr' => Ss <= k' /\ tr_ok tr'
  | OSusp tr' => tr_ok tr'
  | OFuel _ => False
  end.
Proof.
  intros Hok Ss Se p1 m1 HSs HSe. induction fuel as [|f IH]; intros k blk bs nnz tr Hk Hn Hf Ht; cbn [refine_outer].
  - destruct (k <=? Se) eqn:E; [lia|]. auto.
  - destruct (k <=? Se) eqn:E; [|auto].
    destruct (decode_lookahead t bs) as [[[sym w] bs1]|] eqn:ED; [|exact Ht].
    pose proof (decode_lookahead_sym _ _ _ _ _ Hok ED) as Hs.
    cbv zeta. destruct ((sym mod 16 =? 0) && negb (sym / 16 =? 15)) eqn:E0.
    + destruct (sym / 16 =? 0) eqn:Er.
      * split; [lia|]. split; [auto|]. assert (sym / 16 = 0) by lia. rewrite H. cbn. lia.
      * destruct (take_code _ bs1 0) as [[v bs2]|] eqn:ET; [|exact Ht].
        destruct (take_code_spec _ _ _ _ _ ET) as [_ B]. split; [lia|]. split; [auto|].
        assert (0 < 2 ^ (sym / 16)) by (apply Z.pow_pos_nonneg; lia). lia.
    + destruct (if sym mod 16 =? 0 then _ else _) as [[sv bs2]|]; [|exact Ht].
      pose proof (refine_inner_spec Se p1 m1 HSe 65 k (sym / 16) blk bs2 tr ltac:(lia) ltac:(lia) Ht) as HI.
      destruct (refine_inner 65 Se p1 m1 k (sym / 16) blk bs2 tr) as [k' blk' bs3 tr'|tr'|tr']; auto.
      destruct HI as [Hk' Ht'].
      destruct (sym mod 16 =? 0).
      * apply IH; auto; lia.
      * apply IH; try lia.
        apply lg_ok; [ulia|]. apply lg_ok; [apply no_pos; lia|]. apply lg_ok; [ulia|exact Ht'].
Qed.

Lemma ac_refine_block_spec t Ss Se Al eobrun blk bs : dtbl_ok t -> 1 <= Ss <= Se -> Se <= 63 ->
  match ac_refine_block t Ss Se Al eobrun blk bs with
  | RDone _ _ _ tr => tr_ok tr
  | RSusp tr => tr_ok tr
  | RFuel _ => False
  end.
Proof.
  intros Hok HSs HSe. unfold ac_refine_block. cbv zeta.
  assert (Fin : forall e k b s tr, 1 <= k -> tr_ok tr ->
    match (if e >? 0 then match refine_tail 65 Se (2 ^ Al) (- 2 ^ Al) k b s tr with
                          | IOk _ blk' bs' tr' => RDone blk' bs' (e - 1) tr' | ISusp tr' => RSusp tr' | IFuel tr' => RFuel tr' end
           else RDone b s e tr) with RDone _ _ _ tr' => tr_ok tr' | RSusp tr' => tr_ok tr' | RFuel _ => False end).
  { intros e k b s tr Hk Ht. destruct (e >? 0); [|exact Ht].
    pose proof (refine_tail_spec Se (2 ^ Al) (- 2 ^ Al) HSe 65 k b s tr Hk ltac:(lia) Ht) as H.
    destruct (refine_tail 65 Se _ _ k b s tr); auto. }
  destruct (eobrun =? 0).
  - pose proof (refine_outer_spec t Hok Ss Se (2 ^ Al) (- 2 ^ Al) ltac:(lia) HSe 65 Ss blk bs 0 [] ltac:(lia) ltac:(lia) ltac:(lia) ltac:(constructor)) as H.
    destruct (refine_outer 65 t Se _ _ Ss blk bs 0 []) as [e k b s n tr|k b s n tr|tr|tr]; auto.
    + destruct H as (A & B & C). apply Fin; auto; lia.
    + destruct H as (A & B). apply Fin; auto; lia.
  - apply Fin; [lia|constructor].
Qed.

(* the scan parameters a progressive AC scan is started with (jdphuff.c / jdarith.c validation) *)
Lemma bad_progression_ac sc : bad_progression sc = false -> s_Ss sc <> 0 -> 0 <= s_Ss sc ->
  1 <= s_Ss sc <= s_Se sc /\ s_Se sc <= 63 /\ s_n sc = 1 /\ s_Al sc <= 13.
Proof. unfold bad_progression. intros H H0 H1. destruct (s_Ss sc =? 0) eqn:E; ulia. Qed.
Lemma bad_progression_dc sc : bad_progression sc = false -> s_Ss sc = 0 -> s_Se sc = 0 /\ s_Al sc <= 13.
Proof. unfold bad_progression. intros H H0. rewrite H0 in H. cbn in H. ulia. Qed.

(* --------------------------------------------------------------- coef_bits *)
Lemma coef_bits_trace_ok nc cindex Ss Se : 0 <= cindex < nc -> 0 <= Ss -> 0 <= Se <= 63 -> Ss <= Se ->
  tr_ok (coef_bits_trace nc cindex Ss Se).
Proof.
  intros Hc HSs HSe Hle. unfold coef_bits_trace, tr_ok.
  cbn [app]. constructor; [unfold idx_ok; cbn [fst snd]; lia|]. constructor; [unfold idx_ok; cbn [fst snd]; lia|].
  apply Forall_app. split; apply Forall_forall; intros x Hx; apply in_map_iff in Hx; destruct Hx as (i & <- & Hi);
    apply in_seq in Hi; unfold idx_ok; cbn [fst snd]; ulia.
Qed.

(* ---------------------------------------------------------------- lossless *)
Lemma lh_row_spec : forall w sampn ptrn tr, 0 <= sampn -> sampn + Z.of_nat w <= 10 -> tr_ok tr ->
  let '(idx, sampn', tr') := lh_row w sampn ptrn tr in
  sampn' = sampn + Z.of_nat w /\ tr_ok tr' /\ Forall (fun p => p = ptrn) idx /\ length idx = w.
Proof.
  induction w; intros sampn ptrn tr H0 H1 Ht; cbn [lh_row].
  - repeat split; auto; lia.
  - cbv zeta.
    assert (T1 : tr_ok (lg sampn bound_lh_arrays (lg sampn bound_lh_arrays tr))) by (repeat apply lg_ok; auto; ulia).
    specialize (IHw (sampn + 1) ptrn _ ltac:(lia) ltac:(lia) T1).
    destruct (lh_row w (sampn + 1) ptrn _) as [[idx s'] tr']. destruct IHw as (A & B & C & D).
    repeat split; auto; try lia. cbn. lia.
Qed.

Lemma lh_comp_spec : forall h w sampn ptrn tr, 0 <= ptrn <= sampn -> (1 <= w)%nat ->
  sampn + Z.of_nat h * Z.of_nat w <= 10 -> tr_ok tr ->
  let '(idx, sampn', ptrn', tr') := lh_comp h w sampn ptrn tr in
  sampn' = sampn + Z.of_nat h * Z.of_nat w /\ ptrn' = ptrn + Z.of_nat h /\ tr_ok tr' /\
  Forall (fun p => ptrn <= p < ptrn + Z.of_nat h) idx /\ Z.of_nat (length idx) = Z.of_nat h * Z.of_nat w.
Proof.
  induction h; intros w sampn ptrn tr Hp Hw Hs Ht; cbn [lh_comp].
  - repeat split; auto; try lia.
  - cbv zeta.
    assert (T1 : tr_ok (lg ptrn bound_lh_arrays tr)) by (apply lg_ok; auto; ulia).
    pose proof (lh_row_spec w sampn ptrn _ ltac:(lia) ltac:(nia) T1) as HR.
    destruct (lh_row w sampn ptrn _) as [[idx1 s1] tr2]. destruct HR as (A1 & B1 & C1 & D1).
    specialize (IHh w s1 (ptrn + 1) tr2 ltac:(nia) Hw ltac:(nia) B1).
    destruct (lh_comp h w s1 (ptrn + 1) tr2) as [[[idx2 s2] p2] tr3]. destruct IHh as (A2 & B2 & C2 & D2 & E2).
    split; [nia|]. split; [lia|]. split; [auto|]. split.
    + apply Forall_app. split; [eapply Forall_impl; [|exact C1]; cbv beta; intros; lia
                                |eapply Forall_impl; [|exact D2]; cbv beta; intros; lia].
    + rewrite app_length. nia.
Qed.

Definition comps_units (comps : list (Z * Z)) : Z := fold_right (fun c a => fst c * snd c + a) 0 comps.

Lemma comps_units_nonneg comps : Forall (fun c => 1 <= fst c /\ 1 <= snd c) comps -> 0 <= comps_units comps.
Proof. induction 1 as [|c t [A B] Ht IH]; cbn; [lia|]. fold (comps_units t). nia. Qed.

Lemma lh_setup_spec : forall comps sampn ptrn tr, 0 <= ptrn <= sampn ->
  Forall (fun c => 1 <= fst c /\ 1 <= snd c) comps -> sampn + comps_units comps <= 10 -> tr_ok tr ->
  let '(idx, n, tr') := lh_setup comps sampn ptrn tr in
  ptrn <= n <= 10 /\ tr_ok tr' /\ Forall (fun p => 0 <= p < n) idx /\ Z.of_nat (length idx) = comps_units comps.
Proof.
  induction comps as [|[w h] t IH]; intros sampn ptrn tr Hp Hc Hs Ht; cbn [lh_setup].
  - cbn in *. repeat split; auto; try lia.
  - inversion Hc as [|x y [Hw Hh] Hy]; subst. cbn [fst snd] in *. cbn [comps_units fold_right fst snd] in Hs.
    fold (comps_units t) in Hs. pose proof (comps_units_nonneg t Hy) as Hu.
    rewrite <- (Z2Nat.id h) in Hs by lia. rewrite <- (Z2Nat.id w) in Hs by lia.
    pose proof (lh_comp_spec (Z.to_nat h) (Z.to_nat w) sampn ptrn tr Hp ltac:(lia) ltac:(nia) Ht) as HC.
    destruct (lh_comp (Z.to_nat h) (Z.to_nat w) sampn ptrn tr) as [[[idx1 s1] p1] tr1].
    destruct HC as (A1 & B1 & C1 & D1 & E1).
    specialize (IH s1 p1 tr1 ltac:(nia) Hy ltac:(nia) C1).
    destruct (lh_setup t s1 p1 tr1) as [[idx2 n] tr2]. destruct IH as (A2 & B2 & C2 & D2).
    split; [lia|]. split; [auto|]. split.
    + apply Forall_app. split; [eapply Forall_impl; [|exact D1]; cbv beta; intros; lia|exact C2].
    + rewrite app_length. cbn [comps_units fold_right fst snd]. fold (comps_units t). nia.
Qed.

(* start_pass_lhuff_decoder + decode_mcus: for every scan whose MCU holds at most D_MAX_BLOCKS_IN_MCU samples
   (what per_scan_setup guarantees) every index into output_ptr_info / output_ptr_index / cur_tbls / output_ptr
   is inside the D_MAX_BLOCKS_IN_MCU-element arrays *)
Lemma lossless_index_safe_ : forall comps, Forall (fun c => 1 <= fst c /\ 1 <= snd c) comps ->
  comps_units comps <= L_D_MAX_BLOCKS_IN_MCU ->
  let '(idx, n, tr) := lh_setup comps 0 0 [] in
  tr_ok tr /\ n <= bound_lh_arrays /\ tr_ok (lh_mcu_trace idx) /\ Z.of_nat (length idx) = comps_units comps.
Proof.
  intros comps Hc Hu.
  pose proof (lh_setup_spec comps 0 0 [] ltac:(lia) Hc ltac:(ulia) ltac:(constructor)) as H.
  destruct (lh_setup comps 0 0 []) as [[idx n] tr]. destruct H as (A & B & C & D).
  split; [auto|]. split; [ulia|]. split; [|auto].
  unfold lh_mcu_trace, tr_ok. apply Forall_forall. intros x Hx. apply in_map_iff in Hx. destruct Hx as (p & <- & Hp).
  rewrite Forall_forall in C. specialize (C p Hp). unfold idx_ok; cbn. ulia.
Qed.

(* ------------------------------------------------ statements used by props/C01.v *)
Lemma prog_index_safe_ : forall t Ss Se, dtbl_ok t -> 1 <= Ss <= Se -> Se <= 63 ->
  (forall Al bs, match ac_first_loop 64 t Se Al Ss bs [] [] with
              | PDone e tr _ _ => tr_ok tr /\ 0 <= e | PSusp tr => tr_ok tr | PFuel _ => False end) /\
  (forall Al eobrun blk bs, match ac_refine_block t Ss Se Al eobrun blk bs with
                            | RDone _ _ _ tr => tr_ok tr | RSusp tr => tr_ok tr | RFuel _ => False end) /\
  (forall nc cindex, 0 <= cindex < nc -> tr_ok (coef_bits_trace nc cindex Ss Se)).
Proof.
  intros t Ss Se Hok HSs HSe. split; [|split].
  - intros Al bs. apply ac_first_spec; auto; try lia. constructor.
  - intros. apply ac_refine_block_spec; auto.
  - intros. apply coef_bits_trace_ok; auto; lia.
Qed.

(* the scan parameters accepted by start_pass_phuff_decoder / jdarith.c are exactly the hypotheses above *)
Lemma prog_params_ : forall sc, bad_progression sc = false -> 0 <= s_Ss sc ->
  (s_Ss sc <> 0 -> 1 <= s_Ss sc <= s_Se sc /\ s_Se sc <= 63 /\ s_n sc = 1 /\ s_Al sc <= 13) /\
  (s_Ss sc = 0 -> s_Se sc = 0 /\ s_Al sc <= 13).
Proof. intros sc H H0. split; intros; [apply bad_progression_ac|apply bad_progression_dc]; auto. Qed.

(* non-vacuity: a refinement pass over a block with non-zero history really walks to k = Se + 1 = 64 *)
Definition ex_refine_check : bool :=
  match make_d_derived [0; 1; 1; 1; 0; 0; 0; 0; 0; 0; 0; 0; 0; 0; 0; 0; 0] [241; 225; 0] false 15 with
  | Some a =>
      match ac_refine_block a 1 63 0 0 (repeat 2 64) (repeat false 40 ++ repeat true 200) with
      | RDone _ _ _ tr => existsb (fun p => (fst p =? 64) && (snd p =? 80)) tr && forallb (fun p => (0 <=? fst p) && (fst p <? snd p)) tr
      | _ => false
      end
  | None => false
  end.
Lemma ex_refine_check_true : ex_refine_check = true.
Proof. vm_compute. reflexivity. Qed.
