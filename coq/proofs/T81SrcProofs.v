(* C04_source_*: constants of the specification model = constants of the working tree
   (coq/gen/GenT81Src.v is regenerated from the current source on every run). *)
From Coq Require Import List ZArith Bool.
From LJT Require Import model.T81Spec gen.GenT81Src.
Import ListNotations.
Local Open Scope Z_scope.

(* A.3.6 Figure A.6 zig-zag sequence = jpeg_natural_order of jutils.c *)
Lemma source_zigzag : zz_nat = src_natural_order.
Proof. vm_compute. reflexivity. Qed.

(* Table B.1 marker codes = enum JPEG_MARKER of both jcmarker.c and jdmarker.c *)
Lemma source_markers :
  [M_SOF0; M_DHT; M_DAC; M_RST0; M_SOI; M_EOI; M_SOS; M_DQT; M_DNL; M_DRI; M_APP0; M_COM] = src_markers_c /\
  src_markers_c = src_markers_d.
Proof. split; vm_compute; reflexivity. Qed.

(* limits of Tables B.2-B.7 used by stream_ok = the library's compile-time limits:
   4 quantization / Huffman / conditioning destinations, Ns <= 4, Hi,Vi <= 4, 10 data units per MCU *)
Lemma source_limits : src_limits = [4; 4; 16; 4; 4; 10].
Proof. vm_compute. reflexivity. Qed.

(* length fields: what jcmarker.c writes and what jdmarker.c insists on = the formulas of
   B.2.2 / B.2.3 / B.2.4.x as carried by the specification writer (T81LenProofs) *)
From LJT Require Import proofs.T81ParseProofs proofs.T81LenProofs.
From Coq Require Import Lia.

Lemma source_lengths :
  (forall n p y x comps, len_field (SegSOF n p y x comps) = src_Lf (lenZ comps) /\ src_Lf (lenZ comps) = src_d_Lf (lenZ comps)) /\
  (forall comps ss se ah al d r, len_field (SegSOS comps ss se ah al d r) = src_Ls (lenZ comps) /\ src_Ls (lenZ comps) = src_d_Ls (lenZ comps)) /\
  (forall ri, len_field (SegDRI ri) = src_Lr /\ src_Lr = src_d_Lr) /\
  (forall tabs, len_field (SegDAC tabs) = src_La (lenZ tabs)) /\
  (forall pq tq q, qtab_ok (pq, tq, q) = true -> len_field (SegDQT [(pq, tq, q)]) = src_Lq (negb (pq =? 0))) /\
  (forall tc th counts vals, htab_ok (tc, th, counts, vals) = true -> len_field (SegDHT [(tc, th, counts, vals)]) = src_Lh (sumZ counts)).
Proof.
  split; [intros; rewrite Lf_formula; unfold src_Lf, src_d_Lf; lia|].
  split; [intros; rewrite Ls_formula; unfold src_Ls, src_d_Ls; lia|].
  split; [intros; rewrite Lr_formula; unfold src_Lr, src_d_Lr; lia|].
  split; [intros; rewrite La_formula; unfold src_La; lia|].
  split.
  - intros pq tq q H. rewrite Lq_formula by (cbn [forallb]; rewrite H; reflexivity). cbn [map sumZ].
    unfold qtab_ok in H. rewrite !andb_true_iff in H. destruct H as (((A & _) & _) & _). apply in_range_iff in A.
    unfold src_Lq. destruct (pq =? 0) eqn:E; cbn [negb]; [apply Z.eqb_eq in E|apply Z.eqb_neq in E]; lia.
  - intros tc th counts vals H. rewrite Lh_formula by (cbn [forallb]; rewrite H; reflexivity). cbn [map sumZ]. unfold src_Lh. lia.
Qed.
