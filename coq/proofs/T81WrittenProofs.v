(* What the writer records as written (and therefore what t81_decode returns for an
   emitted stream) are blocks of the image: every output block at (r, c) of component i
   is the zig-zag/natural round trip of the image block of component i at index
   r * pw + c, pw being the block-array width the component has in its scan. *)
From Coq Require Import List ZArith Bool Lia Arith.
From LJT Require Import model.T81Spec proofs.T81WriterProofs.
Import ListNotations.
Local Open Scope Z_scope.

Definition entry_ok (im : image) (e : nat * Z * Z * list Z) : Prop :=
  let '(i, r, c, zz) := e in
  exists pw, zz = to_zigzag (nth (Z.to_nat (r * pw + c)) (nth i (im_coefs im) []) []).

Lemma combine_map_self : forall {A B} (f : A -> B) l, combine l (map f l) = map (fun x => (x, f x)) l.
Proof. induction l; [reflexivity|]. cbn. f_equal. exact IHl. Qed.

Lemma place_ok : forall im cx, Forall (entry_ok im) (place cx (scan_blocks im cx)).
Proof.
  intros. unfold place, scan_blocks. rewrite combine_map_self, map_map.
  apply Forall_forall. intros e He. apply in_map_iff in He. destruct He as [[[j r] c] [<- _]].
  destruct (nth j (sx_info cx) (0%nat, 0, 0, 0, 0)) as [[[[i h] v] td] ta] eqn:E.
  exists (scan_wb (sx_geom cx) (sx_hv cx) h). reflexivity.
Qed.

Definition frame_inv (im : image) (st : dstate) : Prop :=
  match ds_sof st with
  | None => True
  | Some (_, _, y, x, fc) => y = im_y im /\ x = im_x im /\ fc = im_comps im
  end.
Definition out_inv (im : image) (st : dstate) : Prop := Forall (entry_ok im) (ds_out st) /\ frame_inv im st.

Lemma d_step_nonscan : forall st s st', d_step st s = Some st' -> is_sos s = false ->
  ds_out st' = ds_out st /\ (match s with SegSOF _ _ _ _ _ => True | _ => ds_sof st' = ds_sof st end).
Proof.
  intros st s st' H Hs. destruct s; cbn [is_sos] in Hs; try discriminate; cbn [d_step] in H;
    try (inversion H; subst; split; reflexivity).
  - destruct (forallb htab_code_ok tabs); [|discriminate]. inversion H; subst. split; reflexivity.
  - destruct (in_range 0 1 n); [|discriminate]. inversion H; subst. split; [reflexivity|exact I].
Qed.

Lemma w_step_inv : forall im st it st' fs, out_inv im st -> w_step im st it = Some (st', fs) -> out_inv im st'.
Proof.
  intros im st it st' fs [Ho Hf] H. destruct it as [f s|f n|f sc rf]; cbn [w_step] in H.
  - destruct s; try discriminate;
      match type of H with match ?d with _ => _ end = _ => destruct d eqn:E; [|discriminate] end;
      inversion H; subst; destruct (d_step_nonscan _ _ _ E eq_refl) as [A B];
      (split; [rewrite A; exact Ho|unfold frame_inv; rewrite B; exact Hf]).
  - match type of H with match ?d with _ => _ end = _ => destruct d eqn:E; [|discriminate] end.
    inversion H; subst. destruct (d_step_nonscan _ _ _ E eq_refl) as [A _]. split; [rewrite A; exact Ho|].
    cbn [d_step] in E. destruct (in_range 0 1 n); [|discriminate]. inversion E; subst.
    unfold frame_inv. cbn. repeat split.
  - destruct (scan_setup st sc) as [cx|]; [|discriminate].
    destruct (enc_scan _ _ _ _) as [[|d0 ds]|]; try discriminate. inversion H; subst.
    split; [|exact Hf]. cbn [add_out ds_out]. apply Forall_app. split; [exact Ho|apply place_ok].
Qed.

Lemma w_walk_inv : forall im its st segs stf, out_inv im st -> w_walk im st its = Some (segs, stf) -> out_inv im stf.
Proof.
  intros im. induction its as [|it t IH]; intros st segs stf Hi H; cbn [w_walk] in H.
  - inversion H; subst. exact Hi.
  - destruct (w_step im st it) as [[st' fs]|] eqn:Es; [|discriminate].
    destruct (w_walk im st' t) as [[l stf']|] eqn:Ew; [|discriminate]. inversion H; subst.
    eapply IH; [|exact Ew]. eapply w_step_inv; eassumption.
Qed.

Lemma find_block_in : forall out i r c zz, find_block out i r c = Some zz -> In (i, r, c, zz) out.
Proof.
  induction out as [|[[[i' r'] c'] z'] t IH]; intros i r c zz H; cbn [find_block] in H; [discriminate|].
  destruct ((i =? i')%nat && (r =? r') && (c =? c')) eqn:E.
  - apply andb_prop in E. destruct E as [E Ec]. apply andb_prop in E. destruct E as [Ei Er].
    apply Nat.eqb_eq in Ei. apply Z.eqb_eq in Er. apply Z.eqb_eq in Ec. inversion H; subst. left. reflexivity.
  - right. apply IH. exact H.
Qed.

Lemma Forall2_imp : forall {A B} (P Q : A -> B -> Prop) l r,
  (forall x y, P x y -> Q x y) -> Forall2 P l r -> Forall2 Q l r.
Proof. intros A B P Q l r H F. induction F; constructor; auto. Qed.

Lemma map_opt_Forall2 : forall {A B} (f : A -> option B) l r, map_opt f l = Some r ->
  Forall2 (fun x y => f x = Some y) l r.
Proof.
  induction l; intros r H; cbn [map_opt] in H; [inversion H; constructor|].
  destruct (f a) eqn:Ea; [|discriminate]. destruct (map_opt f l) eqn:El; [|discriminate]. inversion H; subst.
  constructor; [exact Ea|apply IHl; reflexivity].
Qed.

(* positions of the real blocks of a wb x hb component, raster order *)
Definition raster (wb hb : Z) : list (Z * Z) := flat_map (fun r => map (fun c => (r, c)) (zrange wb)) (zrange hb).

Definition comp_written (im : image) (i : nat) (a : comp_coefs) (h v : Z) : Prop :=
  let g := geom_of (im_y im) (im_x im) (im_comps im) in
  let '(wb, hb, bl) := a in
  wb = comp_wb g h /\ hb = comp_hb g v /\
  Forall2 (fun (rc : Z * Z) blk =>
             exists pw, blk = to_natural (to_zigzag (nth (Z.to_nat (fst rc * pw + snd rc)) (nth i (im_coefs im) []) [])))
          (raster wb hb) bl.

Theorem written_is_image : forall ch im arrays, written ch im = Some arrays ->
  Forall2 (fun (ic : nat * fcomp) (a : comp_coefs) => let '(i, (_, h, v, _)) := ic in comp_written im i a h v)
          (combine (seq 0 (length (im_comps im))) (im_comps im)) arrays.
Proof.
  intros ch im arrays H. unfold written in H.
  destruct (w_walk im ds0 (ch_items ch)) as [[segs stf]|] eqn:E; [|discriminate].
  assert (Hi : out_inv im stf).
  { eapply w_walk_inv; [|exact E]. split; [constructor|exact I]. }
  destruct Hi as [Ho Hf]. unfold coefs_of_state in H. unfold frame_inv in Hf.
  destruct (ds_sof stf) as [[[[[n p] y] x] fc]|]; [|discriminate]. destruct Hf as [-> [-> ->]].
  apply map_opt_Forall2 in H. eapply Forall2_imp; [|exact H].
  intros [i [[[ci h] v] tq]] [[wb hb] bl] Hc. cbn beta iota in Hc.
  match type of Hc with match ?m with _ => _ end = _ => destruct m as [bl'|] eqn:Em; [|discriminate] end.
  inversion Hc; subst. unfold comp_written. split; [reflexivity|split; [reflexivity|]].
  apply map_opt_Forall2 in Em. unfold raster. eapply Forall2_imp; [|exact Em].
  intros [r c] blk Hb. cbn [fst snd] in *.
  destruct (find_block (ds_out stf) i r c) as [zz|] eqn:Ef; [|discriminate]. cbn in Hb. inversion Hb; subst.
  apply find_block_in in Ef. rewrite Forall_forall in Ho. specialize (Ho _ Ef). cbn in Ho.
  destruct Ho as [pw ->]. exists pw. reflexivity.
Qed.

(* A.3.6: the zig-zag reordering and its inverse cancel on 64-element blocks *)
Lemma natural_zigzag_id : forall b, length b = 64%nat -> to_natural (to_zigzag b) = b.
Proof.
  intros b H.
  do 64 (destruct b as [|? b]; [discriminate H|]). destruct b; [|discriminate H].
  vm_compute. reflexivity.
Qed.
