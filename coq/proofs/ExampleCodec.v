(* A concrete codec (fixed 8-bit code) used only for the non-vacuity Examples of C03. *)
From Coq Require Import List ZArith Lia Bool.
From LJT Require Import model.Huff model.Seq proofs.SeqBits.
Import ListNotations.
Local Open Scope Z_scope.

Definition fix8_enc (s : Z) : option (list bool) := if (0 <=? s) && (s <? 256) then Some (bits_of 8 s) else None.
Definition fix8_dec (bs : list bool) : option (Z * list bool) := take_code 8 bs 0.
Lemma fix8_ok : forall s bs rest, fix8_enc s = Some bs -> fix8_dec (bs ++ rest) = Some (s, rest).
Proof.
  intros s bs rest H. unfold fix8_enc in H. destruct ((0 <=? s) && (s <? 256)) eqn:E; [|discriminate].
  apply andb_prop in E. destruct E as [E1 E2]. apply Z.leb_le in E1. apply Z.ltb_lt in E2.
  assert (Hb : bs = bits_of 8 s) by congruence. subst bs. unfold fix8_dec. rewrite (take_code_bits_of s rest 8 0). f_equal. f_equal.
  change (2 ^ Z.of_nat 8) with 256. rewrite Z.mod_small by lia. lia.
Qed.
Definition fix8 : codec := {| c_enc := fix8_enc; c_dec := fix8_dec; c_ok := fix8_ok |}.

Definition ex_block : list Z :=
  [ 37; -3; 0; 0; 0; 0; 0; 0;   5; 0; 0; 0; 0; 0; 0; 0;
    0; 0; 0; 0; 0; 0; 0; 0;     0; 0; 0; 0; 0; 0; 0; 0;
    0; 0; 0; -1023; 0; 0; 0; 0; 0; 0; 0; 0; 0; 0; 0; 0;
    0; 0; 0; 0; 0; 0; 0; 0;     0; 0; 0; 0; 0; 0; 0; 1 ].
Definition ex_block2 : list Z := 12 :: repeat 0 63.
Definition ex_block3 : list Z := -1024 :: 1 :: repeat 0 61 ++ [-2].

From LJT Require Import model.Prog.
Fixpoint list_eqb {A} (eqb : A -> A -> bool) (l1 l2 : list A) : bool :=
  match l1, l2 with
  | [], [] => true
  | a :: t1, b :: t2 => eqb a b && list_eqb eqb t1 t2
  | _, _ => false
  end.

(* n all-zero blocks, one nonzero block, 3 all-zero blocks through an AC-first scan (Ss=1, Se=63, Al=0) *)
Definition eobrun_example_check (n : Z) : bool :=
  let bl := repeat (repeat 0 64) (Z.to_nat n) ++ [ex_block] ++ repeat (repeat 0 64) 3 in
  match acf_enc_scan fix8 10 1 63 0 0 bl with
  | Some bytes =>
      match acf_dec_scan fix8 1 63 0 0 (repeat (repeat 0 64) (Z.to_nat (n + 4))) bytes with
      | Some out => list_eqb (list_eqb Z.eqb) out (map (fun b => 0 :: skipn 1 b) bl) && (length bytes <? 40)%nat
      | None => false
      end
  | None => false
  end.

(* AC refinement, one restart interval: ZRL before a newly-nonzero coefficient, correction bits
   buffered behind a symbol, an EOB run over several blocks carrying correction bits (BE), a
   coefficient at position 63 behind 3 ZRLs *)
From LJT Require Import proofs.NatOrderProofs proofs.ProgProofs.
Definition mkblock (l : list (Z * Z)) : list Z :=
  fold_left (fun blk kv => upd (order (Z.to_nat (fst kv))) (snd kv) blk) l (repeat 0 64).
Definition acr_ex_blocks : list (list Z) :=
  [ mkblock [(0, 100); (1, 7); (20, 2); (21, -5); (40, -3); (50, 9)];
    mkblock [(0, -8); (3, 1)];
    mkblock [(5, 6); (6, -7); (30, 1)];
    mkblock [(0, 3)];
    mkblock [(2, 12); (63, 2)];
    mkblock [(1, -2); (2, 3); (3, 13)];
    mkblock [(10, 5)] ].
Definition acr_example_check (Ss Se : nat) (Al : Z) : bool :=
  let bl := acr_ex_blocks in
  let cur := map (fun b => acr_expected Ss Se (Al + 1) b (repeat 0 64)) bl in
  match enc_acr_blocks fix8 Ss Se Al bl 0 [] with
  | Some bits =>
      match dec_acr_blocks fix8 Ss Se Al cur 0 (bits ++ [true; false]) with
      | Some (out, rest) =>
          list_eqb (list_eqb Z.eqb) out (map (fun bc => acr_expected Ss Se Al (fst bc) (snd bc)) (combine bl cur))
          && list_eqb Bool.eqb rest [true; false] && (40 <? length bits)%nat
      | None => false
      end
  | None => false
  end.

(* computed once here (cached .vo), only referenced from props/C03.v *)
Lemma eobrun_example_ok : eobrun_example_check 32800 = true.
Proof. vm_compute. reflexivity. Qed.
Lemma acr_examples_ok :
  acr_example_check 1 63 1 = true /\ acr_example_check 1 63 0 = true /\ acr_example_check 2 40 1 = true.
Proof. repeat split; vm_compute; reflexivity. Qed.
