(* A concrete codec (fixed 8-bit code) used only for the non-vacuity Examples of C03. *)
From Coq Require Import List ZArith Lia Bool.
From LJT Require Import model.Huff model.Seq proofs.SeqBits.
Import ListNotations.
Local Open Scope Z_scope.

Definition fix8_enc (s : Z) : option (list bool) := if (0 <=? s) && (s <? 256) then Some (bits_of 8 s) else None.
Definition fix8_dec (bs : list bool) : option (Z * list bool) := take_code 8 bs 0.
Lemma fix8_ok : forall s bs rest, fix8_enc s = Some bs -> fix8_dec (bs ++ rest) = Some (s, rest).
Proof.
  intros s bs rest H. unfold fix8_enc in H. destruct ((0 <=? s) && (s <? 256)) eqn:E; [|discriminate].
  apply andb_prop in E. destruct E as [E1 E2]. apply Z.leb_le in E1. apply Z.ltb_lt in E2.
  assert (Hb : bs = bits_of 8 s) by congruence. subst bs. unfold fix8_dec. rewrite (take_code_bits_of s rest 8 0). f_equal. f_equal.
  change (2 ^ Z.of_nat 8) with 256. rewrite Z.mod_small by lia. lia.
Qed.
Definition fix8 : codec := {| c_enc := fix8_enc; c_dec := fix8_dec; c_ok := fix8_ok |}.

Definition ex_block : list Z :=
  [ 37; -3; 0; 0; 0; 0; 0; 0;   5; 0; 0; 0; 0; 0; 0; 0;
    0; 0; 0; 0; 0; 0; 0; 0;     0; 0; 0; 0; 0; 0; 0; 0;
    0; 0; 0; -1023; 0; 0; 0; 0; 0; 0; 0; 0; 0; 0; 0; 0;
    0; 0; 0; 0; 0; 0; 0; 0;     0; 0; 0; 0; 0; 0; 0; 1 ].
Definition ex_block2 : list Z := 12 :: repeat 0 63.
Definition ex_block3 : list Z := -1024 :: 1 :: repeat 0 61 ++ [-2].
