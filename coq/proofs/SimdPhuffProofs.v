(* C05 -- progressive "prepare" kernels: per lane the SSE2 dataflow equals the C statements for every
   coefficient and every point transform Al; the whole-call results agree on everything the encoders read. *)
From Coq Require Import List ZArith Lia Bool ZifyBool.
From LJT Require Import lib.Sweep lib.Words model.SimdPhuff.
Import ListNotations.
Local Open Scope Z_scope.

Lemma lxor_ones16_sweep : sweep (fun p => Z.lxor p 65535 =? 65535 - p) 0 65536 = true.
Proof. vm_compute. reflexivity. Qed.
Lemma lxor_ones16 p : 0 <= p < 65536 -> Z.lxor p 65535 = 65535 - p.
Proof. intros H. apply Z.eqb_eq. exact (sweep_sound _ _ _ lxor_ones16_sweep p H). Qed.
Lemma lxor_m1 a : Z.lxor a (-1) = - a - 1.
Proof. rewrite Z.lxor_m1_r. unfold Z.lnot. lia. Qed.

Definition coef16 (x : Z) : Prop := -32767 <= x <= 32767.
Lemma abs_al_eq x al : coef16 x -> 0 <= al <= 15 -> k_abs_al (w16 x) al = Z.abs x / 2 ^ al /\ c_abs_al x al = Z.abs x / 2 ^ al.
Proof.
  unfold coef16. intros Hx Ha. unfold k_abs_al, c_abs_al, k_neg, c_sign. rewrite s16_w16 by lia.
  rewrite Z.shiftr_div_pow2 by lia. unfold psrlw, pxor16, paddw.
  destruct (x <? 0) eqn:E.
  - replace (w16 (w16 x + 65535)) with (x - 1 + 65536).
    2:{ unfold w16. rewrite Zplus_mod_idemp_l. apply Z.mod_unique with (q := 0); lia. }
    rewrite lxor_ones16 by lia. rewrite lxor_m1. split; f_equal; lia.
  - rewrite Z.add_0_r. unfold w16. rewrite Z.mod_mod by lia. rewrite Z.mod_small by lia. rewrite !Z.lxor_0_r. split; f_equal; lia.
Qed.

(* AC first: values[k] and (where the value is non-zero, i.e. where the encoder reads it) values[k + DCTSIZE2] *)
Theorem first_lane_eq x al : coef16 x -> 0 <= al <= 15 ->
  fst (k_first (w16 x) al) = fst (c_first x al) /\ snd (k_first (w16 x) al) = snd (c_first x al).
Proof.
  intros Hx Ha. destruct (abs_al_eq x al Hx Ha) as [K C]. unfold k_first, c_first. cbn [fst snd]. rewrite K, C.
  set (v := Z.abs x / 2 ^ al).
  assert (Hv : 0 <= v <= 32767).
  { unfold v, coef16 in *. split; [apply Z.div_pos; lia|]. apply Z.div_le_upper_bound; [lia|]. assert (0 < 2 ^ al) by (apply Z.pow_pos_nonneg; lia). nia. }
  split; [symmetry; apply w16_small; lia|].
  unfold k_neg, c_sign, pxor16, coef16 in *. rewrite s16_w16 by lia.
  destruct (x <? 0) eqn:E.
  - rewrite Z.lxor_comm, lxor_ones16 by lia. rewrite Z.lxor_comm, lxor_m1. unfold w16.
    apply Z.mod_unique with (q := -1); lia.
  - rewrite !Z.lxor_0_l. symmetry. apply w16_small. lia.
Qed.
(* AC refine: absvalues[k], "newly non-zero" flag; the sign bit agrees wherever the value is non-zero
   (the kernel leaves 1 bits at zero positions, which the encoder never looks at) *)
Theorem refine_lane_eq x al : coef16 x -> 0 <= al <= 15 ->
  let '(kv, ks, k1) := k_refine (w16 x) al in let '(cv, cs, c1) := c_refine x al in
  kv = cv /\ k1 = c1 /\ (negb (kv =? 0) && ks) = cs.
Proof.
  intros Hx Ha. destruct (abs_al_eq x al Hx Ha) as [K C]. unfold k_refine, c_refine. rewrite K, C.
  set (v := Z.abs x / 2 ^ al).
  assert (Hv : 0 <= v <= 32767).
  { unfold v, coef16 in *. split; [apply Z.div_pos; lia|]. apply Z.div_le_upper_bound; [lia|]. assert (0 < 2 ^ al) by (apply Z.pow_pos_nonneg; lia). nia. }
  rewrite (w16_small v) by lia. repeat split.
  unfold k_neg, c_sign, coef16 in *. rewrite s16_w16 by lia. destruct (x <? 0); destruct (v =? 0); reflexivity.
Qed.

Lemma combine_app_eq {A B} (a a' : list A) (b b' : list B) : length a = length b -> combine (a ++ a') (b ++ b') = combine a b ++ combine a' b'.
Proof. revert b. induction a as [|x a IH]; intros [|y b] H; cbn in H; try lia; [reflexivity|]. cbn. f_equal. apply IH. lia. Qed.

(* whole call: zerobits, EOB, absvalues identical; signbits identical under the zerobits mask *)
Theorem refine_prepare_eq xs al : Forall coef16 xs -> 0 <= al <= 15 ->
  let '(kv, kz, ks, ke) := k_refine_prepare xs al in let '(cv, cz, cs, ce) := c_refine_prepare xs al in
  kv = cv /\ kz = cz /\ ke = ce /\ map (fun p => fst p && snd p) (combine kz ks) = cs.
Proof.
  intros Hx Ha. unfold k_refine_prepare, c_refine_prepare.
  assert (L : forall x, In x xs -> let '(kv, ks, k1) := k_refine (w16 x) al in let '(cv, cs, c1) := c_refine x al in
                                   kv = cv /\ k1 = c1 /\ (negb (kv =? 0) && ks) = cs).
  { intros x Hin. apply refine_lane_eq; [|assumption]. rewrite Forall_forall in Hx. apply Hx, Hin. }
  assert (E1 : map (fun x => fst (fst (k_refine (w16 x) al))) xs = map (fun x => fst (fst (c_refine x al))) xs).
  { apply map_ext_in. intros x Hin. specialize (L x Hin). destruct (k_refine (w16 x) al) as [[? ?] ?]. destruct (c_refine x al) as [[? ?] ?]. cbn. tauto. }
  assert (E2 : map (fun x => snd (k_refine (w16 x) al)) xs = map (fun x => snd (c_refine x al)) xs).
  { apply map_ext_in. intros x Hin. specialize (L x Hin). destruct (k_refine (w16 x) al) as [[? ?] ?]. destruct (c_refine x al) as [[? ?] ?]. cbn. tauto. }
  rewrite !map_map. rewrite E1, E2.
  assert (E3 : map (fun x => negb (fst (fst (k_refine (w16 x) al)) =? 0)) xs = map (fun x => negb (fst (fst (c_refine x al)) =? 0)) xs).
  { apply map_ext_in. intros x Hin. specialize (L x Hin). destruct (k_refine (w16 x) al) as [[? ?] ?]. destruct (c_refine x al) as [[? ?] ?]. cbn. destruct L as (-> & _). reflexivity. }
  rewrite E3. repeat split.
  unfold pad64. rewrite !map_length.
  rewrite combine_app_eq by (rewrite !map_length; reflexivity).
  rewrite map_app. f_equal.
  - rewrite <- E3. clear E1 E2 E3. induction xs as [|x t IH]; [reflexivity|].
    cbn [map combine fst snd]. f_equal.
    + assert (Lx := L x (or_introl eq_refl)). destruct (k_refine (w16 x) al) as [[? ?] ?]. destruct (c_refine x al) as [[? ?] ?]. cbn. tauto.
    + apply IH; [inversion Hx; assumption | intros y Hy; apply L; right; assumption].
  - generalize (64 - length xs)%nat. intros n. induction n; [reflexivity|]. cbn. f_equal. assumption.
Qed.
