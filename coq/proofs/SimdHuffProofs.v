(* C05 -- Huffman encoding of one block: the kernel's sequence of (code, size) puts equals that of the C
   encode_one_block, for ALL blocks the pre-check of encode_one_block_simd admits and ALL tables. *)
From Coq Require Import List ZArith Lia Bool ZifyBool.
From LJT Require Import lib.Sweep lib.Words gen.GenSimdConst model.SimdHuff.
Import ListNotations.
Local Open Scope Z_scope.

(* ---- generated tables ---- *)
Lemma nbits_table_sweep : sweep (fun c => k_nbits c =? nb (if c <? 0 then - c - 1 else c)) (-32768) 32768 = true.
Proof. vm_compute. reflexivity. Qed.
Lemma k_nbits_spec c : -32768 <= c < 32768 -> k_nbits c = nb (if c <? 0 then - c - 1 else c).
Proof. intros H. apply Z.eqb_eq. exact (sweep_sound _ _ _ nbits_table_sweep c H). Qed.
Lemma mask_table : forallb (fun n => k_mask n =? 2 ^ n - 1) [0;1;2;3;4;5;6;7;8;9;10;11;12;13;14;15] = true.
Proof. vm_compute. reflexivity. Qed.
Lemma k_mask_spec n : 0 <= n <= 15 -> k_mask n = 2 ^ n - 1.
Proof.
  intros H. pose proof mask_table as M. rewrite forallb_forall in M. apply Z.eqb_eq. apply M.
  assert (n = 0 \/ n = 1 \/ n = 2 \/ n = 3 \/ n = 4 \/ n = 5 \/ n = 6 \/ n = 7 \/ n = 8 \/ n = 9 \/ n = 10 \/ n = 11 \/ n = 12 \/ n = 13 \/ n = 14 \/ n = 15) by lia.
  cbn. intuition.
Qed.
Lemma loop_consts : jchuff_sse2_loop_consts = [16; 16; 240; 2; 16] /\ length c_jpeg_natural_order = 64%nat /\
  jchuff_sse2_tbl_layout = (256, 256).
Proof. repeat split; reflexivity. Qed.

Definition coef_ok (x : Z) : Prop := -16383 <= x <= 16383.      (* max_coef for 12-bit data; 8-bit: 1023 *)
Lemma nb_le15 v : 0 <= v < 32768 -> 0 <= nb v <= 15.
Proof.
  intros H. unfold nb. destruct (v <=? 0) eqn:E; [lia|].
  assert (Z.log2 v < 15) by (apply Z.log2_lt_pow2; lia). pose proof (Z.log2_nonneg v). lia.
Qed.
Lemma k_adj_eq x : -32767 <= x <= 32767 -> k_adj x = c_adj x.
Proof.
  intros H. unfold k_adj, c_adj, paddw. destruct (x <? 0) eqn:E.
  - replace (w16 (w16 x + 65535)) with (w16 (x - 1)).
    + apply s16_w16. lia.
    + unfold w16. rewrite Zplus_mod_idemp_l. replace (x + 65535) with (x - 1 + 1 * 65536) by lia. rewrite Z.mod_add by lia. reflexivity.
  - rewrite Z.add_0_r. unfold w16. rewrite Z.mod_mod by lia. apply s16_w16. lia.
Qed.
Lemma put_code_eq T sym x : -32767 <= x <= 32767 -> k_put_code T sym (c_adj x) = c_put_code T sym (c_adj x) (nb (c_mag x)).
Proof.
  intros H. unfold k_put_code, c_put_code.
  assert (Hn : k_nbits (c_adj x) = nb (c_mag x)).
  { rewrite k_nbits_spec by (unfold c_adj; destruct (x <? 0); lia). unfold c_adj, c_mag.
    destruct (x <? 0) eqn:E.
    - destruct (x - 1 <? 0) eqn:E2; [|lia]. f_equal. lia.
    - destruct (x <? 0) eqn:E2; [lia|]. f_equal. lia. }
  rewrite Hn. rewrite k_mask_spec by (apply nb_le15; unfold c_mag; lia). reflexivity.
Qed.

(* ---- ZRL loops: nbits = run + 1 against r = 16 * run ---- *)
Lemma zrl_eq AC : forall fuel run, 0 <= run < 16 * Z.of_nat fuel ->
  exists zs run', k_zrl fuel AC (run + 1) = (zs, run' + 1) /\ c_zrl fuel AC (16 * run) = (zs, 16 * run') /\ 0 <= run' < 16.
Proof.
  destruct loop_consts as (LC & _).
  induction fuel as [|f IH]; intros run Hr; [lia|].
  cbn [k_zrl c_zrl]. unfold lc. rewrite LC. cbn [nth].
  destruct (16 <? run + 1) eqn:E1; destruct (256 <=? 16 * run) eqn:E2; try lia.
  - destruct (IH (run - 16) ltac:(lia)) as (zs & r' & K & C & B).
    replace (run + 1 - 16) with (run - 16 + 1) by lia. rewrite K.
    replace (16 * run - 256) with (16 * (run - 16)) by lia. rewrite C.
    exists ((h_co AC 240, h_si AC 240) :: zs), r'. repeat split; lia.
  - exists [], run. repeat split; lia.
Qed.

(* ---- list facts ---- *)
Definition nz (w : Z) : bool := negb (w =? 0).
Lemma split_zeros (l : list Z) :
  (Forall (fun x => x = 0) l /\ existsb (fun b => b) (map nz l) = false) \/
  (exists k x l', l = repeat 0 k ++ x :: l' /\ x <> 0 /\ ctz (map nz l) = k /\ existsb (fun b => b) (map nz l) = true).
Proof.
  induction l as [|a l IH]; [left; split; [constructor | reflexivity]|].
  destruct (Z.eq_dec a 0) as [->|Hne].
  - destruct IH as [[F E]|(k & x & l' & -> & Hx & Hc & E)].
    + left. split; [constructor; [reflexivity | assumption] | exact E].
    + right. exists (S k), x, l'. repeat split; try assumption. cbn. rewrite Hc. reflexivity.
  - right. exists O, a, l. repeat split; try assumption.
    + cbn. unfold nz. destruct (a =? 0) eqn:E; [lia | reflexivity].
    + cbn. unfold nz. destruct (a =? 0) eqn:E; [lia | reflexivity].
Qed.
Lemma c_ac_zeros AC k : forall r l, c_ac AC r (repeat 0 k ++ l) = c_ac AC (r + 16 * Z.of_nat k) l.
Proof.
  induction k as [|k IH]; intros r l; [cbn; f_equal; lia|].
  cbn [repeat app c_ac]. change (0 =? 0) with true. cbn iota. rewrite IH. f_equal. lia.
Qed.
Lemma c_ac_all_zero AC l : Forall (fun x => x = 0) l -> forall r, c_ac AC r l = if 0 <? r + 16 * Z.of_nat (length l) then [(h_co AC 0, h_si AC 0)] else [].
Proof.
  induction 1 as [|x l Hx Hl IH]; intros r; [cbn; rewrite Z.add_0_r; reflexivity|].
  subst x. cbn [c_ac length]. change (0 =? 0) with true. cbn iota. rewrite IH.
  replace (r + 16 + 16 * Z.of_nat (length l)) with (r + 16 * Z.of_nat (S (length l))) by lia. reflexivity.
Qed.
Lemma adj_zero x : -32767 <= x <= 32767 -> (k_adj x =? 0) = (x =? 0).
Proof. intros H. rewrite k_adj_eq by assumption. unfold c_adj. destruct (x <? 0) eqn:E; lia. Qed.

(* ---- the run/size loop ---- *)
Lemma k_loop_eq AC : forall fuel done rest,
  (length rest <= fuel)%nat -> (length (done ++ rest) <= 63)%nat -> Forall coef_ok (done ++ rest) ->
  let '(L, posf) := k_loop fuel AC (map k_adj (done ++ rest)) (Z.of_nat (length done) - 1) (map nz (map k_adj rest)) in
  L ++ (if posf =? Z.of_nat (length (done ++ rest)) - 1 then [] else [(h_co AC 0, h_si AC 0)]) = c_ac AC 0 rest.
Proof.
  destruct loop_consts as (LC & _).
  induction fuel as [|f IH]; intros done rest Hf Hlen Hok.
  - destruct rest; [|cbn in Hf; lia]. cbn. rewrite app_nil_r. rewrite Z.eqb_refl. reflexivity.
  - cbn [k_loop].
    assert (Hnz : map nz (map k_adj rest) = map nz rest).
    { rewrite map_map. apply map_ext_in. intros x Hx. unfold nz. rewrite adj_zero; [reflexivity|].
      rewrite Forall_forall in Hok. specialize (Hok x (in_or_app _ _ _ (or_intror Hx))). unfold coef_ok in Hok. lia. }
    rewrite Hnz.
    destruct (split_zeros rest) as [[F E]|(k & x & l' & Hrest & Hx & Hc & E)].
    + rewrite E. cbn [app]. rewrite c_ac_all_zero by assumption. rewrite app_length.
      destruct rest as [|a rest'].
      * cbn. rewrite Nat.add_0_r, Z.eqb_refl. reflexivity.
      * cbn [length]. destruct (Z.of_nat (length done) - 1 =? Z.of_nat (length done + S (length rest')) - 1) eqn:E1; [lia|].
        destruct (0 <? 0 + 16 * Z.of_nat (S (length rest'))) eqn:E2; [reflexivity|lia].
    + rewrite E, Hc.
      assert (Hk : (k <= 62)%nat) by (subst rest; rewrite !app_length, repeat_length in Hlen; cbn in Hlen; lia).
      destruct (zrl_eq AC 8 (Z.of_nat k) ltac:(lia)) as (zs & run' & KZ & CZ & B).
      rewrite KZ.
      set (pos' := Z.of_nat (length done) - 1 + (Z.of_nat k + 1)).
      assert (Hnth : nth (Z.to_nat pos') (map k_adj (done ++ rest)) 0 = k_adj x).
      { subst rest. rewrite map_app, app_nth2 by (rewrite map_length; lia).
        rewrite map_length. replace (Z.to_nat pos' - length done)%nat with k by lia.
        rewrite map_app, app_nth2 by (rewrite map_length, repeat_length; lia).
        rewrite map_length, repeat_length, Nat.sub_diag. reflexivity. }
      rewrite Hnth.
      assert (Hxok : coef_ok x).
      { rewrite Forall_forall in Hok. apply Hok. apply in_or_app. right. subst rest. apply in_or_app. right. left. reflexivity. }
      unfold coef_ok in Hxok.
      assert (Hskip : skipn (Z.to_nat (Z.of_nat k + 1)) (map nz rest) = map nz (map k_adj l')).
      { subst rest. rewrite map_app, skipn_app, map_length, repeat_length.
        rewrite skipn_all2 by (rewrite map_length, repeat_length; lia).
        replace (Z.to_nat (Z.of_nat k + 1) - k)%nat with 1%nat by lia. cbn [app map skipn].
        rewrite map_map. apply map_ext_in. intros y Hy. unfold nz. rewrite adj_zero; [reflexivity|].
        rewrite Forall_forall in Hok. specialize (Hok y). rewrite in_app_iff in Hok.
        assert (coef_ok y) by (apply Hok; right; apply in_or_app; right; right; assumption). unfold coef_ok in *. lia. }
      rewrite Hskip.
      specialize (IH (done ++ repeat 0 k ++ [x]) l').
      assert (Hre : (done ++ repeat 0 k ++ [x]) ++ l' = done ++ rest) by (subst rest; rewrite <- !app_assoc; reflexivity).
      rewrite Hre in IH.
      replace (Z.of_nat (length (done ++ repeat 0 k ++ [x])) - 1) with pos' in IH
        by (rewrite !app_length, repeat_length; cbn [length]; unfold pos'; lia).
      assert (Hl' : (length l' <= f)%nat) by (subst rest; rewrite app_length, repeat_length in Hf; cbn in Hf; lia).
      specialize (IH Hl' Hlen Hok).
      destruct (k_loop f AC (map k_adj (done ++ rest)) pos' (map nz (map k_adj l'))) as [restL posf].
      subst rest. rewrite c_ac_zeros. cbn [c_ac].
      destruct (x =? 0) eqn:Ex; [lia|].
      replace (0 + 16 * Z.of_nat k) with (16 * Z.of_nat k) by lia. rewrite CZ.
      rewrite <- !app_assoc. f_equal. cbn [app]. f_equal.
      * rewrite k_adj_eq by lia. rewrite put_code_eq by lia.
        unfold lc. rewrite LC. cbn [nth]. f_equal.
        assert (Hn : k_nbits (c_adj x) = nb (c_mag x)).
        { rewrite k_nbits_spec by (unfold c_adj; destruct (x <? 0); lia). unfold c_adj, c_mag.
          destruct (x <? 0) eqn:E0.
          - destruct (x - 1 <? 0) eqn:E2; [|lia]. f_equal. lia.
          - destruct (x <? 0) eqn:E2; [lia|]. f_equal. lia. }
        rewrite Hn. lia.
      * exact IH.
Qed.

Definition block_ok (block : list Z) (last_dc : Z) : Prop :=
  length block = 64%nat /\ Forall coef_ok (tl (zigzag block)) /\ -32767 <= hd 0 (zigzag block) - last_dc <= 32767.

Theorem huff_puts_eq DC AC block last_dc : block_ok block last_dc ->
  k_encode_puts DC AC block last_dc = c_encode_puts DC AC block last_dc.
Proof.
  intros (Hl & Hac & Hdc). unfold k_encode_puts, c_encode_puts.
  set (z := zigzag block) in *. set (d := hd 0 z - last_dc) in *.
  assert (Hz : length (tl z) = 63%nat).
  { unfold z, zigzag. destruct loop_consts as (_ & L & _). destruct c_jpeg_natural_order; [discriminate|]. cbn [map tl]. rewrite map_length. cbn in L. lia. }
  pose proof (k_loop_eq AC 64 [] (tl z) ltac:(lia) ltac:(cbn [app]; lia) ltac:(exact Hac)) as H.
  cbn [app length] in H. change (Z.of_nat 0 - 1) with (-1) in H.
  destruct (k_loop 64 AC (map k_adj (tl z)) (-1) (map nz (map k_adj (tl z)))) as [acs posf] eqn:EK.
  change (map (fun w => negb (w =? 0)) (map k_adj (tl z))) with (map nz (map k_adj (tl z))). rewrite EK.
  rewrite Hz in H. destruct loop_consts as (LC & _). unfold lc. rewrite LC. cbn [nth]. change (64 - 2) with 62.
  change (Z.of_nat 63 - 1) with 62 in H. rewrite H. f_equal.
  change (if d <? 0 then d - 1 else d) with (c_adj d).
  assert (Hn : k_nbits (c_adj d) = nb (c_mag d)).
  { rewrite k_nbits_spec by (unfold c_adj; destruct (d <? 0); lia). unfold c_adj, c_mag.
    destruct (d <? 0) eqn:E0.
    - destruct (d - 1 <? 0) eqn:E2; [|lia]. f_equal. lia.
    - destruct (d <? 0) eqn:E2; [lia|]. f_equal. lia. }
  rewrite Hn. apply put_code_eq. exact Hdc.
Qed.

Example huff_puts_nonvacuous :
  let DC := {| h_co := fun s => s + 2; h_si := fun s => 3 + s mod 5 |} in
  let AC := {| h_co := fun s => s * 3 mod 251; h_si := fun s => 2 + s mod 14 |} in
  let blk := 100 :: -3 :: repeat 0 38 ++ [1023] ++ repeat 0 20 ++ [-1; 0; 7] in
  k_encode_puts DC AC blk 60 = c_encode_puts DC AC blk 60 /\ length (c_encode_puts DC AC blk 60) = 8%nat /\
  c_encode_puts DC AC (5 :: repeat 0 63) 5 = [(2, 3); (0, 2)].
Proof. vm_compute. repeat split; reflexivity. Qed.
