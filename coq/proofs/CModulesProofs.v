(* C17: the module selection read from jcinit.c is total, selects exactly one entropy encoder and exactly one of the
   DCT / lossless paths, and coincides with the hand-written specification CParamApi.select_modules. *)
From Coq Require Import List ZArith Bool Lia ZifyBool.
From LJT Require Import model.Huff gen.GenParams model.CParams model.CMarker model.CParamApi model.CModules proofs.CParamApiProofs.
Import ListNotations.
Local Open Scope Z_scope.

(* the tree only compares the precision with 8 and 12 *)
Fixpoint cond_consts_ok (c : cm_cond) : bool :=
  match c with CPrecLe n | CPrecEq n => (n =? 8) || (n =? 12) | CNot c' => cond_consts_ok c' | _ => true end.
Fixpoint tree_consts_ok (t : cm_tree) : bool :=
  match t with
  | TIf c a b => cond_consts_ok c && tree_consts_ok a && tree_consts_ok b
  | TSeq l => (fix go (l : list cm_tree) := match l with [] => true | x :: r => tree_consts_ok x && go r end) l
  | _ => true
  end.
Lemma compress_master_consts : tree_consts_ok g_compress_master = true.
Proof. vm_compute. reflexivity. Qed.

(* environment from eight booleans: the four flags and the four comparisons *)
Definition env_b (raw lossless arith prog le8 le12 eq8 eq12 : bool) : cm_env :=
  {| e_raw := raw; e_lossless := lossless; e_arith := arith; e_prog := prog;
     e_le := fun n => if n =? 8 then le8 else le12; e_eq := fun n => if n =? 8 then eq8 else eq12 |}.

Definition spec_b (raw lossless arith prog eq8 eq12 : bool) (ns : Z) (opt : bool) : cerr + modules :=
  if lossless then
    if arith then inl ArithNotImpl
    else inr {| md_preprocess := negb raw; md_fdct := false; md_lossless := true; md_entropy := EncLhuff;
                md_full_buffer := (ns >? 1) || opt |}
  else if negb (eq8 || eq12) then inl BadPrecision
  else inr {| md_preprocess := negb raw; md_fdct := true; md_lossless := false;
              md_entropy := if arith then EncArith else if prog then EncPhuff else EncHuff;
              md_full_buffer := (ns >? 1) || opt |}.

Definition gen_b (raw lossless arith prog le8 le12 eq8 eq12 : bool) (ns : Z) (opt : bool) : option (cerr + modules) :=
  match run_tree (env_b raw lossless arith prog le8 le12 eq8 eq12) g_compress_master with
  | inl ArithNotImpl_ => Some (inl ArithNotImpl)
  | inl BadPrecision_ => Some (inl BadPrecision)
  | inl NotCompiled_ => None
  | inr calls => match modules_of_calls calls ns opt with Some m => Some (inr m) | None => None end
  end.

(* 256 cases by computation; the comparisons must be consistent *)
Lemma gen_b_spec : forall raw lossless arith prog le8 le12 eq8 eq12 ns opt,
  (eq8 = true -> le8 = true) -> (le8 = true -> le12 = true) -> (eq12 = true -> le12 = true) ->
  (eq12 = true -> le8 = false) ->
  gen_b raw lossless arith prog le8 le12 eq8 eq12 ns opt = Some (spec_b raw lossless arith prog eq8 eq12 ns opt).
Proof.
  intros raw lossless arith prog le8 le12 eq8 eq12 ns opt H1 H2 H3 H4.
  destruct raw, lossless, arith, prog, le8, le12, eq8, eq12;
    try (specialize (H1 eq_refl); discriminate); try (specialize (H2 eq_refl); discriminate);
    try (specialize (H3 eq_refl); discriminate); try (specialize (H4 eq_refl); discriminate);
    vm_compute; reflexivity.
Qed.

(* run_tree only looks at the comparisons with 8 and 12 *)
Lemma eval_cond_b raw lossless arith prog prec c : cond_consts_ok c = true ->
  eval_cond (mk_env raw lossless arith prog prec) c =
  eval_cond (env_b raw lossless arith prog (prec <=? 8) (prec <=? 12) (prec =? 8) (prec =? 12)) c.
Proof.
  induction c; cbn [eval_cond cond_consts_ok mk_env env_b e_raw e_lossless e_arith e_prog e_le e_eq]; intro H; try reflexivity.
  - destruct (n =? 8) eqn:E; [replace n with 8 by lia; reflexivity|replace n with 12 by lia; reflexivity].
  - destruct (n =? 8) eqn:E; [replace n with 8 by lia; reflexivity|replace n with 12 by lia; reflexivity].
  - rewrite IHc by exact H. reflexivity.
Qed.

Lemma run_tree_b raw lossless arith prog prec : forall t, tree_consts_ok t = true ->
  run_tree (mk_env raw lossless arith prog prec) t =
  run_tree (env_b raw lossless arith prog (prec <=? 8) (prec <=? 12) (prec =? 8) (prec =? 12)) t.
Proof.
  fix IH 1. intros t H. destruct t as [|l|c a b|m a|e]; cbn [run_tree tree_consts_ok] in *; try reflexivity.
  - induction l as [|x r IHl]; [reflexivity|]. apply andb_prop in H. destruct H as [Hx Hr].
    rewrite (IH x Hx). destruct (run_tree _ x); [reflexivity|]. rewrite (IHl Hr). reflexivity.
  - apply andb_prop in H. destruct H as [H Hb]. apply andb_prop in H. destruct H as [Hc Ha].
    rewrite (eval_cond_b _ _ _ _ _ c Hc). rewrite (IH a Ha), (IH b Hb). reflexivity.
Qed.

Theorem select_modules_gen_spec_lemma : forall raw lossless arith progressive prec num_scans optimize,
  select_modules_gen raw lossless arith progressive prec num_scans optimize =
  Some (select_modules raw lossless arith progressive prec num_scans optimize).
Proof.
  intros raw lossless arith prog prec ns opt. unfold select_modules_gen.
  rewrite (run_tree_b raw lossless arith prog prec g_compress_master compress_master_consts).
  pose proof (gen_b_spec raw lossless arith prog (prec <=? 8) (prec <=? 12) (prec =? 8) (prec =? 12) ns opt
                ltac:(lia) ltac:(lia) ltac:(lia) ltac:(lia)) as G.
  unfold gen_b in G. rewrite G. unfold spec_b, select_modules. reflexivity.
Qed.

(* totality, exactly one entropy encoder, exactly one of DCT / lossless -- of the GENERATED tree *)
Theorem select_modules_gen_ok_lemma : forall raw lossless arith progressive prec num_scans optimize,
  exists r, select_modules_gen raw lossless arith progressive prec num_scans optimize = Some r /\
  match r with
  | inl e => (e = ArithNotImpl /\ lossless = true /\ arith = true) \/ (e = BadPrecision /\ lossless = false /\ prec <> 8 /\ prec <> 12)
  | inr m => md_fdct m = negb (md_lossless m) /\ md_lossless m = lossless /\ md_preprocess m = negb raw /\
             md_entropy m = (if lossless then EncLhuff else if arith then EncArith else if progressive then EncPhuff else EncHuff) /\
             md_full_buffer m = ((num_scans >? 1) || optimize)
  end.
Proof.
  intros. eexists. split; [apply select_modules_gen_spec_lemma|].
  apply select_modules_ok_lemma.
Qed.
