(* C10 proofs -- see props/C10.v for the statements that matter *)
From Coq Require Import List ZArith Lia Bool.
From LJT Require Import gen.GenLayouts model.Color.
Import ListNotations.
Local Open Scope Z_scope.

(* ------------------------------------------------------------------ generated tables *)
Lemma layouts_ok_true : layouts_ok = true /\ fix_ok = true.
Proof. split; vm_compute; reflexivity. Qed.

Lemma wf_layoutb_WF L : wf_layoutb L = true -> WF L.
Proof.
  unfold wf_layoutb, WF. intro H.
  repeat (apply andb_prop in H; destruct H as [H ?]).
  repeat match goal with
         | H : negb _ = true |- _ => apply negb_true_iff in H
         | H : (_ || _) = true |- _ => apply orb_prop in H
         | H : (_ && _) = true |- _ => apply andb_prop in H; destruct H
         end.
  repeat match goal with
         | H : (_ =? _) = true |- _ => apply Z.eqb_eq in H
         | H : (_ =? _) = false |- _ => apply Z.eqb_neq in H
         | H : (_ <=? _) = true |- _ => apply Z.leb_le in H
         | H : (_ <? _) = true |- _ => apply Z.ltb_lt in H
         end.
  repeat match goal with
         | H : _ \/ _ |- _ => destruct H
         | H : (_ && _) = true |- _ => apply andb_prop in H; destruct H
         | H : negb _ = true |- _ => apply negb_true_iff in H
         | H : (_ =? _) = true |- _ => apply Z.eqb_eq in H
         | H : (_ =? _) = false |- _ => apply Z.eqb_neq in H
         | H : (_ <=? _) = true |- _ => apply Z.leb_le in H
         | H : (_ <? _) = true |- _ => apply Z.ltb_lt in H
         end; lia.
Qed.

(* ------------------------------------------------------------------ memory *)
Lemma rd_app_r pre l i : 0 <= i -> rd (pre ++ l) (Z.of_nat (length pre) + i) = rd l i.
Proof.
  intro Hi. unfold rd.
  replace (Z.to_nat (Z.of_nat (length pre) + i)) with (length pre + Z.to_nat i)%nat by lia.
  apply app_nth2_plus.
Qed.

Lemma rd_app_l l post i : 0 <= i < Z.of_nat (length l) -> rd (l ++ post) i = rd l i.
Proof. intro Hi. unfold rd. apply app_nth1. lia. Qed.

Lemma rd_zseq_map (f : Z -> Z) n k : 0 <= k < n -> rd (map f (zseq n)) k = f k.
Proof.
  intro Hk. unfold rd, zseq. rewrite map_map.
  rewrite nth_indep with (d' := f (Z.of_nat 0)) by (rewrite map_length, seq_length; lia).
  rewrite (map_nth (fun x => f (Z.of_nat x))).
  rewrite seq_nth by lia. f_equal. lia.
Qed.

Lemma nth_upd_nat_same l : forall i v d, (i < length l)%nat -> nth i (upd_nat l i v) d = v.
Proof. induction l as [|x t IH]; intros [|i] v d H; simpl in *; try lia; auto. apply IH. lia. Qed.

Lemma nth_upd_nat_other l : forall i k v d, i <> k -> nth k (upd_nat l i v) d = nth k l d.
Proof. induction l as [|x t IH]; intros [|i] [|k] v d H; simpl; auto; try congruence. Qed.

Lemma length_upd_nat l : forall i v, length (upd_nat l i v) = length l.
Proof. induction l as [|x t IH]; intros [|i] v; simpl; auto. Qed.

Lemma length_upd buf i v : length (upd buf i v) = length buf.
Proof. unfold upd. destruct (i <? 0); auto using length_upd_nat. Qed.

Lemma rd_upd_same buf i v : 0 <= i < Z.of_nat (length buf) -> rd (upd buf i v) i = v.
Proof.
  intro H. unfold rd, upd. destruct (i <? 0) eqn:E; [lia|]. apply nth_upd_nat_same. lia.
Qed.

Lemma rd_upd_other buf i v j : 0 <= j -> i <> j -> rd (upd buf i v) j = rd buf j.
Proof.
  intros Hj H. unfold rd, upd. destruct (i <? 0) eqn:E; auto. apply nth_upd_nat_other. lia.
Qed.

(* ------------------------------------------------------------------ A. the compressor kernels factor through unpack *)
Lemma rgb_ycc_cols_unpack p L buf : forall n ip,
  rgb_ycc_cols p L buf ip n = map (ycc_of_rgb p) (unpack_cols L buf ip n).
Proof. induction n; intro ip; simpl; [reflexivity | now rewrite IHn]. Qed.
Lemma rgb_gray_cols_unpack p L buf : forall n ip,
  rgb_gray_cols p L buf ip n = map (gray_of_rgb p) (unpack_cols L buf ip n).
Proof. induction n; intro ip; simpl; [reflexivity | now rewrite IHn]. Qed.
Lemma rgb_rgb_cols_unpack L buf : forall n ip, rgb_rgb_cols L buf ip n = unpack_cols L buf ip n.
Proof. induction n; intro ip; simpl; [reflexivity | now rewrite IHn]. Qed.

Lemma rgb_ycc_convert_unpack p L buf ptrs w :
  rgb_ycc_convert p L buf ptrs w = map (map (ycc_of_rgb p)) (unpack L buf ptrs w).
Proof. unfold rgb_ycc_convert, unpack. rewrite map_map. apply map_ext. intro. apply rgb_ycc_cols_unpack. Qed.
Lemma rgb_gray_convert_unpack p L buf ptrs w :
  rgb_gray_convert p L buf ptrs w = map (map (gray_of_rgb p)) (unpack L buf ptrs w).
Proof. unfold rgb_gray_convert, unpack. rewrite map_map. apply map_ext. intro. apply rgb_gray_cols_unpack. Qed.
Lemma rgb_rgb_convert_unpack L buf ptrs w : rgb_rgb_convert L buf ptrs w = unpack L buf ptrs w.
Proof. unfold rgb_rgb_convert, unpack. apply map_ext. intro. apply rgb_rgb_cols_unpack. Qed.

(* ------------------------------------------------------------------ B. pack / unpack *)
Lemma pack_pixel_length L q : 0 <= psz L -> length (pack_pixel L q) = Z.to_nat (psz L).
Proof. intros. destruct q as [[[r g] b] x]. unfold pack_pixel, zseq. now rewrite !map_length, seq_length. Qed.

Lemma pack_pixel_unpack L q : WF L -> forall post,
  unpack_pixel L (pack_pixel L q ++ post) 0 = rgb_of_quad q.
Proof.
  intros W post. destruct q as [[[r g] b] x]. unfold unpack_pixel, rgb_of_quad.
  destruct W as (Hp & Hr & Hg & Hb & Hrg & Hrb & Hgb & _).
  assert (Hlen : Z.of_nat (length (pack_pixel L (r, g, b, x))) = psz L) by (rewrite pack_pixel_length; lia).
  rewrite !Z.add_0_l.
  rewrite (rd_app_l _ post (roff L)), (rd_app_l _ post (goff L)), (rd_app_l _ post (boff L)) by lia.
  unfold pack_pixel.
  rewrite (rd_zseq_map _ _ (roff L)), (rd_zseq_map _ _ (goff L)), (rd_zseq_map _ _ (boff L)) by lia.
  rewrite Z.eqb_refl.
  replace (goff L =? roff L) with false by (symmetry; apply Z.eqb_neq; lia). rewrite Z.eqb_refl.
  replace (boff L =? roff L) with false by (symmetry; apply Z.eqb_neq; lia).
  replace (boff L =? goff L) with false by (symmetry; apply Z.eqb_neq; lia). rewrite Z.eqb_refl.
  reflexivity.
Qed.

Lemma unpack_pixel_shift L pre l i : 0 <= i -> 0 <= roff L -> 0 <= goff L -> 0 <= boff L ->
  unpack_pixel L (pre ++ l) (Z.of_nat (length pre) + i) = unpack_pixel L l i.
Proof.
  intros. unfold unpack_pixel. rewrite <- !Z.add_assoc, !rd_app_r by lia. reflexivity.
Qed.

Lemma pack_row_length L row : 0 <= psz L ->
  Z.of_nat (length (pack_row L row)) = Z.of_nat (length row) * psz L.
Proof.
  intro H. unfold pack_row. induction row as [|q t IH]; [simpl; lia|].
  cbn [flat_map length]. rewrite app_length, pack_pixel_length, Nat2Z.inj_add, IH, Nat2Z.inj_succ by lia.
  rewrite Z2Nat.id by lia. ring.
Qed.

Lemma unpack_cols_pack_row L : WF L -> forall row pre post,
  unpack_cols L (pre ++ pack_row L row ++ post) (Z.of_nat (length pre)) (length row) = map rgb_of_quad row.
Proof.
  intros W. pose proof W as (Hp & Hr & Hg & Hb & _).
  induction row as [|q t IH]; intros pre post; [reflexivity|].
  change (pack_row L (q :: t)) with (pack_pixel L q ++ pack_row L t).
  simpl length. cbn [unpack_cols map]. f_equal.
  - rewrite <- (Z.add_0_r (Z.of_nat (length pre))), unpack_pixel_shift by lia.
    rewrite <- app_assoc. now apply pack_pixel_unpack.
  - rewrite <- app_assoc, (app_assoc pre).
    replace (Z.of_nat (length pre) + psz L) with (Z.of_nat (length (pre ++ pack_pixel L q)))
      by (rewrite app_length, pack_pixel_length by lia; lia).
    apply IH.
Qed.

(* arithmetic progressions of row pointers *)
Fixpoint ptrs_from (base pitch : Z) (n : nat) : list Z :=
  match n with O => [] | S k => base :: ptrs_from (base + pitch) pitch k end.

Lemma map_seq_ptrs pitch base : forall n s,
  map (fun i => base + Z.of_nat i * pitch) (seq s n) = ptrs_from (base + Z.of_nat s * pitch) pitch n.
Proof.
  induction n; intro s; simpl; [reflexivity|]. f_equal. rewrite IHn. f_equal. lia.
Qed.

Lemma rows_td pitch h : rows pitch h false = ptrs_from 0 pitch h.
Proof.
  unfold rows. transitivity (map (fun i => 0 + Z.of_nat i * pitch) (seq 0 h)).
  - apply map_ext. intro. lia.
  - rewrite map_seq_ptrs. f_equal.
Qed.

Lemma rev_map_seq {A} (g : nat -> A) : forall h,
  rev (map g (seq 0 h)) = map (fun i => g (h - 1 - i)%nat) (seq 0 h).
Proof.
  induction h; [reflexivity|].
  transitivity (rev (map g (seq 0 h ++ [h]))). { now rewrite seq_S. }
  rewrite map_app, rev_app_distr. cbn [map rev app].
  rewrite IHh. cbn [seq map]. f_equal.
  - f_equal. lia.
  - rewrite <- seq_shift, map_map. apply map_ext_in. intros a Ha. apply in_seq in Ha. f_equal. lia.
Qed.

Lemma rows_bu pitch h : rows pitch h true = rev (rows pitch h false).
Proof.
  unfold rows. rewrite (rev_map_seq (fun i => Z.of_nat i * pitch)).
  apply map_ext_in. intros a Ha. apply in_seq in Ha. f_equal. lia.
Qed.

Definition chunk (L : layout) (rp : list quad * list Z) : list Z := pack_row L (fst rp) ++ snd rp.

Lemma unpack_concat_td L w pitch : WF L -> forall rowsp, presentation L w pitch rowsp -> forall pre post,
  unpack L (pre ++ concat (map (chunk L) rowsp) ++ post) (ptrs_from (Z.of_nat (length pre)) pitch (length rowsp)) w
  = picture rowsp.
Proof.
  intros W. pose proof W as (Hp & _).
  induction rowsp as [|rp t IH]; intros HP pre post; [reflexivity|].
  inversion HP as [|? ? Hhd HP']; subst. destruct Hhd as [Hw Hpad].
  cbn [map concat length ptrs_from unpack picture]. unfold unpack in IH. f_equal.
  - unfold chunk at 1. rewrite <- !app_assoc. rewrite <- Hw. now apply unpack_cols_pack_row.
  - rewrite <- app_assoc, (app_assoc pre).
    replace (Z.of_nat (length pre) + pitch) with (Z.of_nat (length (pre ++ chunk L rp))).
    + apply IH. assumption.
    + unfold chunk. rewrite !app_length, !Nat2Z.inj_add, pack_row_length by lia. lia.
Qed.

Lemma presentation_rev L w pitch rowsp : presentation L w pitch rowsp -> presentation L w pitch (rev rowsp).
Proof. apply Forall_rev. Qed.

Lemma picture_rev rowsp : picture (rev rowsp) = rev (picture rowsp).
Proof. unfold picture. now rewrite map_rev. Qed.

Theorem unpack_mkbuf L w pitch rowsp bu : WF L -> presentation L w pitch rowsp ->
  unpack L (mkbuf L rowsp bu) (rows pitch (length rowsp) bu) w = picture rowsp.
Proof.
  intros W HP. unfold mkbuf.
  change (fun rp : list quad * list Z => pack_row L (fst rp) ++ snd rp) with (chunk L).
  destruct bu.
  - rewrite rows_bu, rows_td.
    pose proof (unpack_concat_td L w pitch W (rev rowsp) (presentation_rev _ _ _ _ HP) [] []) as H.
    cbn [app length Z.of_nat] in H. rewrite app_nil_r, rev_length in H.
    assert (E : forall buf l, unpack L buf (rev l) w = rev (unpack L buf l w))
      by (intros; unfold unpack; apply map_rev).
    rewrite E, <- map_rev, H, picture_rev. apply rev_involutive.
  - rewrite rows_td.
    pose proof (unpack_concat_td L w pitch W rowsp HP [] []) as H.
    cbn [app length Z.of_nat] in H. rewrite app_nil_r in H. exact H.
Qed.

(* ------------------------------------------------------------------ C. the decompressor kernels *)
Lemma length_put_pixel a L buf op t : length (put_pixel a L buf op t) = length buf.
Proof. unfold put_pixel. destruct (0 <=? aoff L); now rewrite !length_upd. Qed.

Lemma put_pixel_frame a L buf op t j : WF L -> 0 <= j -> (j < op \/ op + psz L <= j) ->
  rd (put_pixel a L buf op t) j = rd buf j.
Proof.
  intros (Hp & Hr & Hg & Hb & _ & _ & _ & Ha) Hj Hout. unfold put_pixel.
  destruct (0 <=? aoff L) eqn:E.
  - apply Z.leb_le in E. rewrite !rd_upd_other by lia. reflexivity.
  - rewrite !rd_upd_other by lia. reflexivity.
Qed.

Lemma put_pixel_read a L buf op t : WF L -> 0 <= op -> op + psz L <= Z.of_nat (length buf) ->
  unpack_pixel L (put_pixel a L buf op t) op = t.
Proof.
  intros (Hp & Hr & Hg & Hb & Hrg & Hrb & Hgb & Ha) Hop Hlen. destruct t as [[r g] b].
  unfold put_pixel, unpack_pixel, c0, c1, c2. cbn [fst snd].
  destruct (0 <=? aoff L) eqn:E.
  - apply Z.leb_le in E.
    f_equal; [f_equal|].
    + rewrite !rd_upd_other by lia. apply rd_upd_same. lia.
    + rewrite !rd_upd_other by lia. apply rd_upd_same. rewrite !length_upd. lia.
    + rewrite !rd_upd_other by lia. apply rd_upd_same. rewrite !length_upd. lia.
  - f_equal; [f_equal|].
    + rewrite !rd_upd_other by lia. apply rd_upd_same. lia.
    + rewrite !rd_upd_other by lia. apply rd_upd_same. rewrite !length_upd. lia.
    + apply rd_upd_same. rewrite !length_upd. lia.
Qed.

Lemma put_pixel_alpha a L buf op t : WF L -> 0 <= op -> op + psz L <= Z.of_nat (length buf) ->
  0 <= aoff L -> rd (put_pixel a L buf op t) (op + aoff L) = a.
Proof.
  intros (Hp & Hr & Hg & Hb & _ & _ & _ & Ha) Hop Hlen Hao. unfold put_pixel.
  destruct (0 <=? aoff L) eqn:E; [|apply Z.leb_gt in E; lia].
  apply rd_upd_same. rewrite !length_upd. lia.
Qed.

Lemma unpack_cols_ext L b1 b2 : 0 <= roff L < psz L -> 0 <= goff L < psz L -> 0 <= boff L < psz L ->
  forall n ip, (forall j, ip <= j < ip + Z.of_nat n * psz L -> rd b1 j = rd b2 j) ->
  unpack_cols L b1 ip n = unpack_cols L b2 ip n.
Proof.
  intros Hr Hg Hb. induction n; intros ip H; [reflexivity|].
  cbn [unpack_cols]. f_equal.
  - unfold unpack_pixel. rewrite !H by nia. reflexivity.
  - apply IHn. intros j Hj. apply H. nia.
Qed.

Lemma alpha_cols_ext L b1 b2 : 0 <= aoff L < psz L ->
  forall n ip, (forall j, ip <= j < ip + Z.of_nat n * psz L -> rd b1 j = rd b2 j) ->
  alpha_cols L b1 ip n = alpha_cols L b2 ip n.
Proof.
  intros Ha. induction n; intros ip H; [reflexivity|].
  cbn [alpha_cols]. f_equal.
  - apply H. nia.
  - apply IHn. intros j Hj. apply H. nia.
Qed.

Lemma put_cols_spec a L : WF L -> forall px buf op,
  0 <= op -> op + Z.of_nat (length px) * psz L <= Z.of_nat (length buf) ->
  let out := put_cols a L px buf op in
  length out = length buf /\
  (forall j, 0 <= j -> (j < op \/ op + Z.of_nat (length px) * psz L <= j) -> rd out j = rd buf j) /\
  unpack_cols L out op (length px) = px /\
  (0 <= aoff L -> alpha_cols L out op (length px) = repeat a (length px)).
Proof.
  intros W. pose proof W as (Hp & Hr & Hg & Hb & _ & _ & _ & Ha).
  induction px as [|t r IH]; intros buf op Hop Hlen.
  - cbn. repeat split; auto.
  - cbn [put_cols length] in *. rewrite Nat2Z.inj_succ in Hlen.
    set (buf1 := put_pixel a L buf op t).
    assert (Hl1 : length buf1 = length buf) by apply length_put_pixel.
    destruct (IH buf1 (op + psz L)) as (I1 & I2 & I3 & I4); [lia | rewrite Hl1; nia |].
    cbv zeta. repeat split.
    + now rewrite I1.
    + intros j Hj Hout. rewrite I2 by nia. apply put_pixel_frame; auto. nia.
    + cbn [unpack_cols]. f_equal; [|exact I3].
      transitivity (unpack_pixel L buf1 op).
      * unfold unpack_pixel. rewrite !I2 by lia. reflexivity.
      * apply put_pixel_read; auto. nia.
    + intro Hao. cbn [alpha_cols repeat]. f_equal; [|auto].
      rewrite I2 by lia. apply put_pixel_alpha; auto. nia.
Qed.

(* generic row loop: a row writer with a footprint of d samples that can be read back *)
Section WriteRows.
  Context {R B : Type}.
  Variable wr : R -> list Z -> Z -> list Z.
  Variable rdrow : list Z -> Z -> B.
  Variable d : Z.
  Variable ok : R -> B -> Prop.
  Hypothesis wr_spec : forall row buf op, 0 <= op -> op + d <= Z.of_nat (length buf) ->
    length (wr row buf op) = length buf /\
    (forall j, 0 <= j -> (j < op \/ op + d <= j) -> rd (wr row buf op) j = rd buf j) /\
    ok row (rdrow (wr row buf op) op).
  Hypothesis rd_ext : forall b1 b2 op, 0 <= op -> (forall j, op <= j < op + d -> rd b1 j = rd b2 j) ->
    rdrow b1 op = rdrow b2 op.

  Lemma write_rows_spec : forall img buf ptrs,
    length img = length ptrs -> in_bounds d (length buf) ptrs -> separated d ptrs ->
    let out := write_rows wr img buf ptrs in
    length out = length buf /\
    (forall j, 0 <= j -> outside_rows d ptrs j -> rd out j = rd buf j) /\
    Forall2 (fun row op => ok row (rdrow out op)) img ptrs.
  Proof.
    induction img as [|row ri IH]; intros buf [|op rp] Hlen Hin Hsep; try discriminate.
    - cbn. repeat split; auto.
    - cbn [write_rows]. inversion Hin as [|? ? [Hop Hopd] Hin']; subst.
      destruct Hsep as [Hhd Hsep].
      destruct (wr_spec row buf op Hop Hopd) as (W1 & W2 & W3).
      destruct (IH (wr row buf op) rp) as (I1 & I2 & I3).
      + simpl in Hlen. lia.
      + unfold in_bounds in *. now rewrite W1.
      + assumption.
      + cbv zeta. repeat split.
        * now rewrite I1.
        * intros j Hj Hout. rewrite I2.
          -- apply W2; auto. apply Hout. now left.
          -- assumption.
          -- intros q Hq. apply Hout. now right.
        * constructor; [|exact I3].
          erewrite rd_ext; [exact W3 | assumption |].
          intros j Hj. apply I2; [lia|].
          intros q Hq. rewrite Forall_forall in Hhd. specialize (Hhd q Hq). lia.
  Qed.
End WriteRows.

Lemma Forall2_eq_map {A B} (f : A -> B) l1 l2 : Forall2 (fun a b => f b = a) l1 l2 -> map f l2 = l1.
Proof. induction 1; simpl; congruence. Qed.

Theorem put_rows_spec a L w : WF L -> forall img buf ptrs,
  length img = length ptrs -> Forall (fun row => length row = w) img ->
  in_bounds (Z.of_nat w * psz L) (length buf) ptrs -> separated (Z.of_nat w * psz L) ptrs ->
  let out := put_rows a L img buf ptrs in
  length out = length buf /\
  (forall j, 0 <= j -> outside_rows (Z.of_nat w * psz L) ptrs j -> rd out j = rd buf j) /\
  unpack L out ptrs w = img /\
  (0 <= aoff L -> unpack_alpha L out ptrs w = map (fun _ => repeat a w) img).
Proof.
  intros W img buf ptrs Hlen Hw Hin Hsep. pose proof W as (Hp & Hr & Hg & Hb & _ & _ & _ & Ha).
  (* rows of the wrong width are excluded by carrying the width in the row type *)
  set (okrow := fun (row : list px3) (got : list px3 * list Z) =>
                  length row = w -> fst got = row /\ (0 <= aoff L -> snd got = repeat a w)).
  pose proof (write_rows_spec (fun row buf op => if Nat.eqb (length row) w then put_cols a L row buf op else buf)
                (fun buf op => (unpack_cols L buf op w, if 0 <=? aoff L then alpha_cols L buf op w else []))
                (Z.of_nat w * psz L) okrow) as G.
  assert (Hd : 0 <= Z.of_nat w * psz L) by nia.
  assert (E : forall img' buf' ptrs', Forall (fun row => length row = w) img' ->
            write_rows (fun row buf op => if Nat.eqb (length row) w then put_cols a L row buf op else buf) img' buf' ptrs'
            = put_rows a L img' buf' ptrs').
  { unfold put_rows. induction img' as [|r ri IH]; intros buf' [|o rp] HF; try reflexivity.
    inversion HF; subst. cbn [write_rows]. rewrite Nat.eqb_refl. now apply IH. }
  assert (HA : forall row b op, 0 <= op -> op + Z.of_nat w * psz L <= Z.of_nat (length b) ->
     length (if Nat.eqb (length row) w then put_cols a L row b op else b) = length b /\
     (forall j, 0 <= j -> (j < op \/ op + Z.of_nat w * psz L <= j) ->
        rd (if Nat.eqb (length row) w then put_cols a L row b op else b) j = rd b j) /\
     okrow row (unpack_cols L (if Nat.eqb (length row) w then put_cols a L row b op else b) op w,
                if 0 <=? aoff L then alpha_cols L (if Nat.eqb (length row) w then put_cols a L row b op else b) op w else [])).
  { intros row b op Hop Hopd. destruct (Nat.eqb (length row) w) eqn:Ew.
    + apply Nat.eqb_eq in Ew. subst w.
      destruct (put_cols_spec a L W row b op Hop Hopd) as (P1 & P2 & P3 & P4).
      repeat split; auto. cbn [snd]. intro Hao.
      destruct (0 <=? aoff L) eqn:Ea; [auto | apply Z.leb_gt in Ea; lia].
    + repeat split; auto; intro Hc; apply Nat.eqb_neq in Ew; contradiction. }
  assert (HB : forall b1 b2 op, 0 <= op -> (forall j, op <= j < op + Z.of_nat w * psz L -> rd b1 j = rd b2 j) ->
     (unpack_cols L b1 op w, if 0 <=? aoff L then alpha_cols L b1 op w else []) =
     (unpack_cols L b2 op w, if 0 <=? aoff L then alpha_cols L b2 op w else [])).
  { intros b1 b2 op Hop H. f_equal.
    + apply unpack_cols_ext; auto.
    + destruct (0 <=? aoff L) eqn:Ea; [|reflexivity]. apply Z.leb_le in Ea.
      apply alpha_cols_ext; [lia | assumption]. }
  destruct (G HA HB img buf ptrs Hlen Hin Hsep) as (G1 & G2 & G3).
  rewrite E in * by assumption. cbv zeta. repeat split; auto.
  - unfold unpack. clear - G3 Hw. induction G3; [reflexivity|]. inversion Hw; subst.
    cbn [map]. f_equal; [|auto]. apply H; assumption.
  - intro Hao. unfold unpack_alpha. clear - G3 Hw Hao. induction G3; [reflexivity|]. inversion Hw; subst.
      cbn [map]. f_equal; [|auto]. destruct H as [_ H]; [assumption|]. specialize (H Hao). cbn [snd] in H.
      destruct (0 <=? aoff L) eqn:Ea; [assumption | apply Z.leb_gt in Ea; lia].
Qed.
