(* C10 proofs -- see props/C10.v for the statements that matter *)
From Coq Require Import List ZArith Lia Bool.
From LJT Require Import gen.GenLayouts model.Color.
Import ListNotations.
Local Open Scope Z_scope.

(* ------------------------------------------------------------------ generated tables *)
Lemma layouts_ok_true : layouts_ok = true /\ fix_ok = true.
Proof. split; vm_compute; reflexivity. Qed.

Lemma wf_layoutb_WF L : wf_layoutb L = true -> WF L.
Proof.
  unfold wf_layoutb, WF. intro H.
  repeat (apply andb_prop in H; destruct H as [H ?]).
  repeat match goal with
         | H : negb _ = true |- _ => apply negb_true_iff in H
         | H : (_ || _) = true |- _ => apply orb_prop in H
         | H : (_ && _) = true |- _ => apply andb_prop in H; destruct H
         end.
  repeat match goal with
         | H : (_ =? _) = true |- _ => apply Z.eqb_eq in H
         | H : (_ =? _) = false |- _ => apply Z.eqb_neq in H
         | H : (_ <=? _) = true |- _ => apply Z.leb_le in H
         | H : (_ <? _) = true |- _ => apply Z.ltb_lt in H
         end.
  repeat match goal with
         | H : _ \/ _ |- _ => destruct H
         | H : (_ && _) = true |- _ => apply andb_prop in H; destruct H
         | H : negb _ = true |- _ => apply negb_true_iff in H
         | H : (_ =? _) = true |- _ => apply Z.eqb_eq in H
         | H : (_ =? _) = false |- _ => apply Z.eqb_neq in H
         | H : (_ <=? _) = true |- _ => apply Z.leb_le in H
         | H : (_ <? _) = true |- _ => apply Z.ltb_lt in H
         end; lia.
Qed.

(* ------------------------------------------------------------------ memory *)
Lemma rd_app_r pre l i : 0 <= i -> rd (pre ++ l) (Z.of_nat (length pre) + i) = rd l i.
Proof.
  intro Hi. unfold rd.
  replace (Z.to_nat (Z.of_nat (length pre) + i)) with (length pre + Z.to_nat i)%nat by lia.
  apply app_nth2_plus.
Qed.

Lemma rd_app_l l post i : 0 <= i < Z.of_nat (length l) -> rd (l ++ post) i = rd l i.
Proof. intro Hi. unfold rd. apply app_nth1. lia. Qed.

Lemma rd_zseq_map (f : Z -> Z) n k : 0 <= k < n -> rd (map f (zseq n)) k = f k.
Proof.
  intro Hk. unfold rd, zseq. rewrite map_map.
  rewrite nth_indep with (d' := f (Z.of_nat 0)) by (rewrite map_length, seq_length; lia).
  rewrite (map_nth (fun x => f (Z.of_nat x))).
  rewrite seq_nth by lia. f_equal. lia.
Qed.

Lemma nth_upd_nat_same l : forall i v d, (i < length l)%nat -> nth i (upd_nat l i v) d = v.
Proof. induction l as [|x t IH]; intros [|i] v d H; simpl in *; try lia; auto. apply IH. lia. Qed.

Lemma nth_upd_nat_other l : forall i k v d, i <> k -> nth k (upd_nat l i v) d = nth k l d.
Proof. induction l as [|x t IH]; intros [|i] [|k] v d H; simpl; auto; try congruence. Qed.

Lemma length_upd_nat l : forall i v, length (upd_nat l i v) = length l.
Proof. induction l as [|x t IH]; intros [|i] v; simpl; auto. Qed.

Lemma length_upd buf i v : length (upd buf i v) = length buf.
Proof. unfold upd. destruct (i <? 0); auto using length_upd_nat. Qed.

Lemma rd_upd_same buf i v : 0 <= i < Z.of_nat (length buf) -> rd (upd buf i v) i = v.
Proof.
  intro H. unfold rd, upd. destruct (i <? 0) eqn:E; [lia|]. apply nth_upd_nat_same. lia.
Qed.

Lemma rd_upd_other buf i v j : 0 <= j -> i <> j -> rd (upd buf i v) j = rd buf j.
Proof.
  intros Hj H. unfold rd, upd. destruct (i <? 0) eqn:E; auto. apply nth_upd_nat_other. lia.
Qed.

(* ------------------------------------------------------------------ A. the compressor kernels factor through unpack *)
Lemma rgb_ycc_cols_unpack p L buf : forall n ip,
  rgb_ycc_cols p L buf ip n = map (ycc_of_rgb p) (unpack_cols L buf ip n).
Proof. induction n; intro ip; simpl; [reflexivity | now rewrite IHn]. Qed.
Lemma rgb_gray_cols_unpack p L buf : forall n ip,
  rgb_gray_cols p L buf ip n = map (gray_of_rgb p) (unpack_cols L buf ip n).
Proof. induction n; intro ip; simpl; [reflexivity | now rewrite IHn]. Qed.
Lemma rgb_rgb_cols_unpack L buf : forall n ip, rgb_rgb_cols L buf ip n = unpack_cols L buf ip n.
Proof. induction n; intro ip; simpl; [reflexivity | now rewrite IHn]. Qed.

Lemma rgb_ycc_convert_unpack p L buf ptrs w :
  rgb_ycc_convert p L buf ptrs w = map (map (ycc_of_rgb p)) (unpack L buf ptrs w).
Proof. unfold rgb_ycc_convert, unpack. rewrite map_map. apply map_ext. intro. apply rgb_ycc_cols_unpack. Qed.
Lemma rgb_gray_convert_unpack p L buf ptrs w :
  rgb_gray_convert p L buf ptrs w = map (map (gray_of_rgb p)) (unpack L buf ptrs w).
Proof. unfold rgb_gray_convert, unpack. rewrite map_map. apply map_ext. intro. apply rgb_gray_cols_unpack. Qed.
Lemma rgb_rgb_convert_unpack L buf ptrs w : rgb_rgb_convert L buf ptrs w = unpack L buf ptrs w.
Proof. unfold rgb_rgb_convert, unpack. apply map_ext. intro. apply rgb_rgb_cols_unpack. Qed.

(* ------------------------------------------------------------------ B. pack / unpack *)
Lemma pack_pixel_length L q : 0 <= psz L -> length (pack_pixel L q) = Z.to_nat (psz L).
Proof. intros. destruct q as [[[r g] b] x]. unfold pack_pixel, zseq. now rewrite !map_length, seq_length. Qed.

Lemma pack_pixel_unpack L q : WF L -> forall post,
  unpack_pixel L (pack_pixel L q ++ post) 0 = rgb_of_quad q.
Proof.
  intros W post. destruct q as [[[r g] b] x]. unfold unpack_pixel, rgb_of_quad.
  destruct W as (Hp & Hr & Hg & Hb & Hrg & Hrb & Hgb & _).
  assert (Hlen : Z.of_nat (length (pack_pixel L (r, g, b, x))) = psz L) by (rewrite pack_pixel_length; lia).
  rewrite !Z.add_0_l.
  rewrite (rd_app_l _ post (roff L)), (rd_app_l _ post (goff L)), (rd_app_l _ post (boff L)) by lia.
  unfold pack_pixel.
  rewrite (rd_zseq_map _ _ (roff L)), (rd_zseq_map _ _ (goff L)), (rd_zseq_map _ _ (boff L)) by lia.
  rewrite Z.eqb_refl.
  replace (goff L =? roff L) with false by (symmetry; apply Z.eqb_neq; lia). rewrite Z.eqb_refl.
  replace (boff L =? roff L) with false by (symmetry; apply Z.eqb_neq; lia).
  replace (boff L =? goff L) with false by (symmetry; apply Z.eqb_neq; lia). rewrite Z.eqb_refl.
  reflexivity.
Qed.

Lemma unpack_pixel_shift L pre l i : 0 <= i -> 0 <= roff L -> 0 <= goff L -> 0 <= boff L ->
  unpack_pixel L (pre ++ l) (Z.of_nat (length pre) + i) = unpack_pixel L l i.
Proof.
  intros. unfold unpack_pixel. rewrite <- !Z.add_assoc, !rd_app_r by lia. reflexivity.
Qed.

Lemma pack_row_length L row : 0 <= psz L ->
  Z.of_nat (length (pack_row L row)) = Z.of_nat (length row) * psz L.
Proof.
  intro H. unfold pack_row. induction row as [|q t IH]; [simpl; lia|].
  cbn [flat_map length]. rewrite app_length, pack_pixel_length, Nat2Z.inj_add, IH, Nat2Z.inj_succ by lia.
  rewrite Z2Nat.id by lia. ring.
Qed.

Lemma unpack_cols_pack_row L : WF L -> forall row pre post,
  unpack_cols L (pre ++ pack_row L row ++ post) (Z.of_nat (length pre)) (length row) = map rgb_of_quad row.
Proof.
  intros W. pose proof W as (Hp & Hr & Hg & Hb & _).
  induction row as [|q t IH]; intros pre post; [reflexivity|].
  change (pack_row L (q :: t)) with (pack_pixel L q ++ pack_row L t).
  simpl length. cbn [unpack_cols map]. f_equal.
  - rewrite <- (Z.add_0_r (Z.of_nat (length pre))), unpack_pixel_shift by lia.
    rewrite <- app_assoc. now apply pack_pixel_unpack.
  - rewrite <- app_assoc, (app_assoc pre).
    replace (Z.of_nat (length pre) + psz L) with (Z.of_nat (length (pre ++ pack_pixel L q)))
      by (rewrite app_length, pack_pixel_length by lia; lia).
    apply IH.
Qed.

(* arithmetic progressions of row pointers *)
Fixpoint ptrs_from (base pitch : Z) (n : nat) : list Z :=
  match n with O => [] | S k => base :: ptrs_from (base + pitch) pitch k end.

Lemma map_seq_ptrs pitch base : forall n s,
  map (fun i => base + Z.of_nat i * pitch) (seq s n) = ptrs_from (base + Z.of_nat s * pitch) pitch n.
Proof.
  induction n; intro s; simpl; [reflexivity|]. f_equal. rewrite IHn. f_equal. lia.
Qed.

Lemma rows_td pitch h : rows pitch h false = ptrs_from 0 pitch h.
Proof.
  unfold rows. transitivity (map (fun i => 0 + Z.of_nat i * pitch) (seq 0 h)).
  - apply map_ext. intro. lia.
  - rewrite map_seq_ptrs. f_equal.
Qed.

Lemma rev_map_seq {A} (g : nat -> A) : forall h,
  rev (map g (seq 0 h)) = map (fun i => g (h - 1 - i)%nat) (seq 0 h).
Proof.
  induction h; [reflexivity|].
  transitivity (rev (map g (seq 0 h ++ [h]))). { now rewrite seq_S. }
  rewrite map_app, rev_app_distr. cbn [map rev app].
  rewrite IHh. cbn [seq map]. f_equal.
  - f_equal. lia.
  - rewrite <- seq_shift, map_map. apply map_ext_in. intros a Ha. apply in_seq in Ha. f_equal. lia.
Qed.

Lemma rows_bu pitch h : rows pitch h true = rev (rows pitch h false).
Proof.
  unfold rows. rewrite (rev_map_seq (fun i => Z.of_nat i * pitch)).
  apply map_ext_in. intros a Ha. apply in_seq in Ha. f_equal. lia.
Qed.

Definition chunk (L : layout) (rp : list quad * list Z) : list Z := pack_row L (fst rp) ++ snd rp.

Lemma unpack_concat_td L w pitch : WF L -> forall rowsp, presentation L w pitch rowsp -> forall pre post,
  unpack L (pre ++ concat (map (chunk L) rowsp) ++ post) (ptrs_from (Z.of_nat (length pre)) pitch (length rowsp)) w
  = picture rowsp.
Proof.
  intros W. pose proof W as (Hp & _).
  induction rowsp as [|rp t IH]; intros HP pre post; [reflexivity|].
  inversion HP as [|? ? Hhd HP']; subst. destruct Hhd as [Hw Hpad].
  cbn [map concat length ptrs_from unpack picture]. unfold unpack in IH. f_equal.
  - unfold chunk at 1. rewrite <- !app_assoc. rewrite <- Hw. now apply unpack_cols_pack_row.
  - rewrite <- app_assoc, (app_assoc pre).
    replace (Z.of_nat (length pre) + pitch) with (Z.of_nat (length (pre ++ chunk L rp))).
    + apply IH. assumption.
    + unfold chunk. rewrite !app_length, !Nat2Z.inj_add, pack_row_length by lia. lia.
Qed.

Lemma presentation_rev L w pitch rowsp : presentation L w pitch rowsp -> presentation L w pitch (rev rowsp).
Proof. apply Forall_rev. Qed.

Lemma picture_rev rowsp : picture (rev rowsp) = rev (picture rowsp).
Proof. unfold picture. now rewrite map_rev. Qed.

Theorem unpack_mkbuf L w pitch rowsp bu : WF L -> presentation L w pitch rowsp ->
  unpack L (mkbuf L rowsp bu) (rows pitch (length rowsp) bu) w = picture rowsp.
Proof.
  intros W HP. unfold mkbuf.
  change (fun rp : list quad * list Z => pack_row L (fst rp) ++ snd rp) with (chunk L).
  destruct bu.
  - rewrite rows_bu, rows_td.
    pose proof (unpack_concat_td L w pitch W (rev rowsp) (presentation_rev _ _ _ _ HP) [] []) as H.
    cbn [app length Z.of_nat] in H. rewrite app_nil_r, rev_length in H.
    assert (E : forall buf l, unpack L buf (rev l) w = rev (unpack L buf l w))
      by (intros; unfold unpack; apply map_rev).
    rewrite E, <- map_rev, H, picture_rev. apply rev_involutive.
  - rewrite rows_td.
    pose proof (unpack_concat_td L w pitch W rowsp HP [] []) as H.
    cbn [app length Z.of_nat] in H. rewrite app_nil_r in H. exact H.
Qed.

(* ------------------------------------------------------------------ C. the decompressor kernels *)
Lemma length_put_pixel a L buf op t : length (put_pixel a L buf op t) = length buf.
Proof. unfold put_pixel. destruct (0 <=? aoff L); now rewrite !length_upd. Qed.

Lemma put_pixel_frame a L buf op t j : WF L -> 0 <= j -> (j < op \/ op + psz L <= j) ->
  rd (put_pixel a L buf op t) j = rd buf j.
Proof.
  intros (Hp & Hr & Hg & Hb & _ & _ & _ & Ha) Hj Hout. unfold put_pixel.
  destruct (0 <=? aoff L) eqn:E.
  - apply Z.leb_le in E. rewrite !rd_upd_other by lia. reflexivity.
  - rewrite !rd_upd_other by lia. reflexivity.
Qed.

Lemma put_pixel_read a L buf op t : WF L -> 0 <= op -> op + psz L <= Z.of_nat (length buf) ->
  unpack_pixel L (put_pixel a L buf op t) op = t.
Proof.
  intros (Hp & Hr & Hg & Hb & Hrg & Hrb & Hgb & Ha) Hop Hlen. destruct t as [[r g] b].
  unfold put_pixel, unpack_pixel, c0, c1, c2. cbn [fst snd].
  destruct (0 <=? aoff L) eqn:E.
  - apply Z.leb_le in E.
    f_equal; [f_equal|].
    + rewrite !rd_upd_other by lia. apply rd_upd_same. lia.
    + rewrite !rd_upd_other by lia. apply rd_upd_same. rewrite !length_upd. lia.
    + rewrite !rd_upd_other by lia. apply rd_upd_same. rewrite !length_upd. lia.
  - f_equal; [f_equal|].
    + rewrite !rd_upd_other by lia. apply rd_upd_same. lia.
    + rewrite !rd_upd_other by lia. apply rd_upd_same. rewrite !length_upd. lia.
    + apply rd_upd_same. rewrite !length_upd. lia.
Qed.

Lemma put_pixel_alpha a L buf op t : WF L -> 0 <= op -> op + psz L <= Z.of_nat (length buf) ->
  0 <= aoff L -> rd (put_pixel a L buf op t) (op + aoff L) = a.
Proof.
  intros (Hp & Hr & Hg & Hb & _ & _ & _ & Ha) Hop Hlen Hao. unfold put_pixel.
  destruct (0 <=? aoff L) eqn:E; [|apply Z.leb_gt in E; lia].
  apply rd_upd_same. rewrite !length_upd. lia.
Qed.

Lemma unpack_cols_ext L b1 b2 : 0 <= roff L < psz L -> 0 <= goff L < psz L -> 0 <= boff L < psz L ->
  forall n ip, (forall j, ip <= j < ip + Z.of_nat n * psz L -> rd b1 j = rd b2 j) ->
  unpack_cols L b1 ip n = unpack_cols L b2 ip n.
Proof.
  intros Hr Hg Hb. induction n; intros ip H; [reflexivity|].
  cbn [unpack_cols]. f_equal.
  - unfold unpack_pixel. rewrite !H by nia. reflexivity.
  - apply IHn. intros j Hj. apply H. nia.
Qed.

Lemma alpha_cols_ext L b1 b2 : 0 <= aoff L < psz L ->
  forall n ip, (forall j, ip <= j < ip + Z.of_nat n * psz L -> rd b1 j = rd b2 j) ->
  alpha_cols L b1 ip n = alpha_cols L b2 ip n.
Proof.
  intros Ha. induction n; intros ip H; [reflexivity|].
  cbn [alpha_cols]. f_equal.
  - apply H. nia.
  - apply IHn. intros j Hj. apply H. nia.
Qed.

Lemma put_cols_spec a L : WF L -> forall px buf op,
  0 <= op -> op + Z.of_nat (length px) * psz L <= Z.of_nat (length buf) ->
  let out := put_cols a L px buf op in
  length out = length buf /\
  (forall j, 0 <= j -> (j < op \/ op + Z.of_nat (length px) * psz L <= j) -> rd out j = rd buf j) /\
  unpack_cols L out op (length px) = px /\
  (0 <= aoff L -> alpha_cols L out op (length px) = repeat a (length px)).
Proof.
  intros W. pose proof W as (Hp & Hr & Hg & Hb & _ & _ & _ & Ha).
  induction px as [|t r IH]; intros buf op Hop Hlen.
  - cbn. repeat split; auto.
  - cbn [put_cols length] in *. rewrite Nat2Z.inj_succ in Hlen.
    set (buf1 := put_pixel a L buf op t).
    assert (Hl1 : length buf1 = length buf) by apply length_put_pixel.
    destruct (IH buf1 (op + psz L)) as (I1 & I2 & I3 & I4); [lia | rewrite Hl1; nia |].
    cbv zeta. repeat split.
    + now rewrite I1.
    + intros j Hj Hout. rewrite I2 by nia. apply put_pixel_frame; auto. nia.
    + cbn [unpack_cols]. f_equal; [|exact I3].
      transitivity (unpack_pixel L buf1 op).
      * unfold unpack_pixel. rewrite !I2 by lia. reflexivity.
      * apply put_pixel_read; auto. nia.
    + intro Hao. cbn [alpha_cols repeat]. f_equal; [|auto].
      rewrite I2 by lia. apply put_pixel_alpha; auto. nia.
Qed.

(* generic row loop: a row writer with a footprint of d samples that can be read back *)
Section WriteRows.
  Context {R B : Type}.
  Variable wr : R -> list Z -> Z -> list Z.
  Variable rdrow : list Z -> Z -> B.
  Variable d : Z.
  Variable ok : R -> B -> Prop.
  Hypothesis wr_spec : forall row buf op, 0 <= op -> op + d <= Z.of_nat (length buf) ->
    length (wr row buf op) = length buf /\
    (forall j, 0 <= j -> (j < op \/ op + d <= j) -> rd (wr row buf op) j = rd buf j) /\
    ok row (rdrow (wr row buf op) op).
  Hypothesis rd_ext : forall b1 b2 op, 0 <= op -> (forall j, op <= j < op + d -> rd b1 j = rd b2 j) ->
    rdrow b1 op = rdrow b2 op.

  Lemma write_rows_spec : forall img buf ptrs,
    length img = length ptrs -> in_bounds d (length buf) ptrs -> separated d ptrs ->
    let out := write_rows wr img buf ptrs in
    length out = length buf /\
    (forall j, 0 <= j -> outside_rows d ptrs j -> rd out j = rd buf j) /\
    Forall2 (fun row op => ok row (rdrow out op)) img ptrs.
  Proof.
    induction img as [|row ri IH]; intros buf [|op rp] Hlen Hin Hsep; try discriminate.
    - cbn. repeat split; auto.
    - cbn [write_rows]. inversion Hin as [|? ? [Hop Hopd] Hin']; subst.
      destruct Hsep as [Hhd Hsep].
      destruct (wr_spec row buf op Hop Hopd) as (W1 & W2 & W3).
      destruct (IH (wr row buf op) rp) as (I1 & I2 & I3).
      + simpl in Hlen. lia.
      + unfold in_bounds in *. now rewrite W1.
      + assumption.
      + cbv zeta. repeat split.
        * now rewrite I1.
        * intros j Hj Hout. rewrite I2.
          -- apply W2; auto. apply Hout. now left.
          -- assumption.
          -- intros q Hq. apply Hout. now right.
        * constructor; [|exact I3].
          erewrite rd_ext; [exact W3 | assumption |].
          intros j Hj. apply I2; [lia|].
          intros q Hq. rewrite Forall_forall in Hhd. specialize (Hhd q Hq). lia.
  Qed.
End WriteRows.

Lemma Forall2_eq_map {A B} (f : A -> B) l1 l2 : Forall2 (fun a b => f b = a) l1 l2 -> map f l2 = l1.
Proof. induction 1; simpl; congruence. Qed.

Theorem put_rows_spec a L w : WF L -> forall img buf ptrs,
  length img = length ptrs -> Forall (fun row => length row = w) img ->
  in_bounds (Z.of_nat w * psz L) (length buf) ptrs -> separated (Z.of_nat w * psz L) ptrs ->
  let out := put_rows a L img buf ptrs in
  length out = length buf /\
  (forall j, 0 <= j -> outside_rows (Z.of_nat w * psz L) ptrs j -> rd out j = rd buf j) /\
  unpack L out ptrs w = img /\
  (0 <= aoff L -> unpack_alpha L out ptrs w = map (fun _ => repeat a w) img).
Proof.
  intros W img buf ptrs Hlen Hw Hin Hsep. pose proof W as (Hp & Hr & Hg & Hb & _ & _ & _ & Ha).
  (* rows of the wrong width are excluded by carrying the width in the row type *)
  set (okrow := fun (row : list px3) (got : list px3 * list Z) =>
                  length row = w -> fst got = row /\ (0 <= aoff L -> snd got = repeat a w)).
  pose proof (write_rows_spec (fun row buf op => if Nat.eqb (length row) w then put_cols a L row buf op else buf)
                (fun buf op => (unpack_cols L buf op w, if 0 <=? aoff L then alpha_cols L buf op w else []))
                (Z.of_nat w * psz L) okrow) as G.
  assert (Hd : 0 <= Z.of_nat w * psz L) by nia.
  assert (E : forall img' buf' ptrs', Forall (fun row => length row = w) img' ->
            write_rows (fun row buf op => if Nat.eqb (length row) w then put_cols a L row buf op else buf) img' buf' ptrs'
            = put_rows a L img' buf' ptrs').
  { unfold put_rows. induction img' as [|r ri IH]; intros buf' [|o rp] HF; try reflexivity.
    inversion HF; subst. cbn [write_rows]. rewrite Nat.eqb_refl. now apply IH. }
  assert (HA : forall row b op, 0 <= op -> op + Z.of_nat w * psz L <= Z.of_nat (length b) ->
     length (if Nat.eqb (length row) w then put_cols a L row b op else b) = length b /\
     (forall j, 0 <= j -> (j < op \/ op + Z.of_nat w * psz L <= j) ->
        rd (if Nat.eqb (length row) w then put_cols a L row b op else b) j = rd b j) /\
     okrow row (unpack_cols L (if Nat.eqb (length row) w then put_cols a L row b op else b) op w,
                if 0 <=? aoff L then alpha_cols L (if Nat.eqb (length row) w then put_cols a L row b op else b) op w else [])).
  { intros row b op Hop Hopd. unfold okrow. destruct (Nat.eqb (length row) w) eqn:Ew.
    + apply Nat.eqb_eq in Ew.
      pose proof (put_cols_spec a L W row b op Hop) as P. cbv zeta in P. rewrite Ew in P.
      destruct (P Hopd) as (P1 & P2 & P3 & P4).
      split; [exact P1|]. split; [exact P2|]. intros _. cbn [fst snd]. split; [exact P3|]. intro Hao.
      destruct (0 <=? aoff L) eqn:Ea; [auto | apply Z.leb_gt in Ea; lia].
    + split; [reflexivity|]. split; [reflexivity|]. intro Hc. apply Nat.eqb_neq in Ew. contradiction. }
  assert (HB : forall b1 b2 op, 0 <= op -> (forall j, op <= j < op + Z.of_nat w * psz L -> rd b1 j = rd b2 j) ->
     (unpack_cols L b1 op w, if 0 <=? aoff L then alpha_cols L b1 op w else []) =
     (unpack_cols L b2 op w, if 0 <=? aoff L then alpha_cols L b2 op w else [])).
  { intros b1 b2 op Hop H. f_equal.
    + apply unpack_cols_ext; auto.
    + destruct (0 <=? aoff L) eqn:Ea; [|reflexivity]. apply Z.leb_le in Ea.
      apply alpha_cols_ext; [lia | assumption]. }
  destruct (G HA HB img buf ptrs Hlen Hin Hsep) as (G1 & G2 & G3).
  rewrite E in * by assumption. cbv zeta.
  set (out := put_rows a L img buf ptrs) in *. clearbody out. repeat split; auto.
  - unfold unpack. clear - G3 Hw. induction G3 as [|x y l l' H G3 IH]; [reflexivity|].
    inversion Hw as [|? ? Hx Hl]. cbn [map]. f_equal; [|apply IH; exact Hl].
    destruct (H Hx) as [Hfst _]. exact Hfst.
  - intro Hao. unfold unpack_alpha. clear - G3 Hw Hao. induction G3 as [|x y l l' H G3 IH]; [reflexivity|].
    inversion Hw as [|? ? Hx Hl]. cbn [map]. f_equal; [|apply IH; exact Hl].
    destruct (H Hx) as [_ Hsnd]. specialize (Hsnd Hao). cbn [snd] in Hsnd.
    destruct (0 <=? aoff L) eqn:Ea; [assumption | apply Z.leb_gt in Ea; lia].
Qed.

(* row pointers of turbojpeg-mp.c: inside the buffer and pairwise disjoint when pitch >= row size *)
Lemma ptrs_from_bounds pitch : 0 <= pitch -> forall n base,
  Forall (fun b => base <= b <= base + (Z.of_nat n - 1) * pitch) (ptrs_from base pitch n).
Proof.
  intros Hp. induction n; intro base; [constructor|].
  cbn [ptrs_from]. constructor; [nia|].
  eapply Forall_impl; [|apply IHn]. cbv beta. intros b Hb. nia.
Qed.

Lemma ptrs_from_separated d pitch : 0 <= d <= pitch -> forall n base, separated d (ptrs_from base pitch n).
Proof.
  intros Hd. induction n; intro base; [exact I|].
  cbn [ptrs_from separated]. split; [|apply IHn].
  eapply Forall_impl; [|apply (ptrs_from_bounds pitch ltac:(lia) n (base + pitch))].
  cbv beta. intros b Hb. lia.
Qed.

Lemma separated_snoc d l a : separated d l -> Forall (fun b => b + d <= a \/ a + d <= b) l -> separated d (l ++ [a]).
Proof.
  induction l as [|x t IH]; intros Hs HF; cbn [app separated] in *.
  - split; [constructor | exact I].
  - destruct Hs as [H1 H2]. inversion HF; subst. split.
    + apply Forall_app. split; [assumption|]. constructor; [lia | constructor].
    + apply IH; assumption.
Qed.

Lemma separated_rev d l : separated d l -> separated d (rev l).
Proof.
  induction l as [|x t IH]; intro Hs; [exact I|].
  destruct Hs as [H1 H2]. cbn [rev]. apply separated_snoc; [apply IH; assumption|].
  apply Forall_rev. eapply Forall_impl; [|exact H1]. cbv beta. intros; lia.
Qed.

Lemma rows_separated d pitch h bu : 0 <= d <= pitch -> separated d (rows pitch h bu).
Proof.
  intro Hd. destruct bu.
  - rewrite rows_bu, rows_td. apply separated_rev. now apply ptrs_from_separated.
  - rewrite rows_td. now apply ptrs_from_separated.
Qed.

Lemma rows_in_bounds d pitch h bu n : 0 <= d <= pitch ->
  (Z.of_nat h - 1) * pitch + d <= Z.of_nat n -> in_bounds d n (rows pitch h bu).
Proof.
  intros Hd Hn. unfold in_bounds.
  assert (H : Forall (fun op => 0 <= op /\ op + d <= Z.of_nat n) (ptrs_from 0 pitch h)).
  { eapply Forall_impl; [|apply (ptrs_from_bounds pitch ltac:(lia) h 0)]. cbv beta. intros; lia. }
  destruct bu.
  - rewrite rows_bu, rows_td. now apply Forall_rev.
  - now rewrite rows_td.
Qed.

Lemma rows_In pitch h bu op : In op (rows pitch h bu) -> exists i, 0 <= i < Z.of_nat h /\ op = i * pitch.
Proof.
  unfold rows. intro H. apply in_map_iff in H. destruct H as (i & Hi & Hin). apply in_seq in Hin.
  destruct bu.
  - exists (Z.of_nat h - Z.of_nat i - 1). split; [lia | now symmetry].
  - exists (Z.of_nat i). split; [lia | now symmetry].
Qed.

Lemma rows_length pitch h bu : length (rows pitch h bu) = h.
Proof. unfold rows. now rewrite map_length, seq_length. Qed.

Lemma outside_rows_rows d pitch h bu j :
  (forall i, 0 <= i < Z.of_nat h -> j < i * pitch \/ i * pitch + d <= j) -> outside_rows d (rows pitch h bu) j.
Proof.
  intros H op Hin. apply rows_In in Hin. destruct Hin as (i & Hi & ->). now apply H.
Qed.

(* ------------------------------------------------------------------ D. gray extraction *)
Lemma gray_is_luma_pixel p t : c0 (ycc_of_rgb p t) = gray_of_rgb p t.
Proof. reflexivity. Qed.

Lemma rgb_gray_is_luma p L buf ptrs w :
  rgb_gray_convert p L buf ptrs w = plane 0 (rgb_ycc_convert p L buf ptrs w).
Proof.
  rewrite rgb_gray_convert_unpack, rgb_ycc_convert_unpack. unfold plane.
  rewrite map_map. apply map_ext. intro row. rewrite map_map. apply map_ext. intro t. reflexivity.
Qed.

Lemma gray_cols_ext b1 b2 : forall n ip, (forall j, ip <= j < ip + Z.of_nat n -> rd b1 j = rd b2 j) ->
  gray_cols b1 ip n = gray_cols b2 ip n.
Proof.
  induction n; intros ip H; [reflexivity|]. cbn [gray_cols]. f_equal.
  - apply H. lia.
  - apply IHn. intros j Hj. apply H. lia.
Qed.

Lemma put_gray_cols_spec : forall ys buf op,
  0 <= op -> op + Z.of_nat (length ys) <= Z.of_nat (length buf) ->
  let out := put_gray_cols ys buf op in
  length out = length buf /\
  (forall j, 0 <= j -> (j < op \/ op + Z.of_nat (length ys) <= j) -> rd out j = rd buf j) /\
  gray_cols out op (length ys) = ys.
Proof.
  induction ys as [|y r IH]; intros buf op Hop Hlen.
  - cbn. repeat split; auto.
  - cbn [put_gray_cols length] in *. rewrite Nat2Z.inj_succ in Hlen.
    destruct (IH (upd buf op y) (op + 1)) as (I1 & I2 & I3); [lia | rewrite length_upd; lia |].
    rewrite length_upd in I1. cbv zeta. repeat split.
    + exact I1.
    + intros j Hj Hout. rewrite I2 by lia. apply rd_upd_other; lia.
    + cbn [gray_cols]. f_equal; [|exact I3]. rewrite I2 by lia. apply rd_upd_same. lia.
Qed.

Theorem put_gray_rows_spec w : forall img buf ptrs,
  length img = length ptrs -> Forall (fun row => length row = w) img ->
  in_bounds (Z.of_nat w) (length buf) ptrs -> separated (Z.of_nat w) ptrs ->
  let out := put_gray_rows img buf ptrs in
  length out = length buf /\
  (forall j, 0 <= j -> outside_rows (Z.of_nat w) ptrs j -> rd out j = rd buf j) /\
  unpack_gray out ptrs w = img.
Proof.
  intros img buf ptrs Hlen Hw Hin Hsep.
  set (okrow := fun (row : list Z) (got : list Z) => length row = w -> got = row).
  pose proof (write_rows_spec (fun row buf op => if Nat.eqb (length row) w then put_gray_cols row buf op else buf)
                (fun buf op => gray_cols buf op w) (Z.of_nat w) okrow) as G.
  assert (E : forall img' buf' ptrs', Forall (fun row => length row = w) img' ->
            write_rows (fun row buf op => if Nat.eqb (length row) w then put_gray_cols row buf op else buf) img' buf' ptrs'
            = put_gray_rows img' buf' ptrs').
  { unfold put_gray_rows. induction img' as [|r ri IH]; intros buf' [|o rp] HF; try reflexivity.
    inversion HF; subst. cbn [write_rows]. rewrite Nat.eqb_refl. now apply IH. }
  assert (HA : forall row b op, 0 <= op -> op + Z.of_nat w <= Z.of_nat (length b) ->
     length (if Nat.eqb (length row) w then put_gray_cols row b op else b) = length b /\
     (forall j, 0 <= j -> (j < op \/ op + Z.of_nat w <= j) ->
        rd (if Nat.eqb (length row) w then put_gray_cols row b op else b) j = rd b j) /\
     okrow row (gray_cols (if Nat.eqb (length row) w then put_gray_cols row b op else b) op w)).
  { intros row b op Hop Hopd. unfold okrow. destruct (Nat.eqb (length row) w) eqn:Ew.
    + apply Nat.eqb_eq in Ew.
      pose proof (put_gray_cols_spec row b op Hop) as P. cbv zeta in P. rewrite Ew in P.
      destruct (P Hopd) as (P1 & P2 & P3). auto.
    + split; [reflexivity|]. split; [reflexivity|]. intro Hc. apply Nat.eqb_neq in Ew. contradiction. }
  assert (HB : forall b1 b2 op, 0 <= op -> (forall j, op <= j < op + Z.of_nat w -> rd b1 j = rd b2 j) ->
     gray_cols b1 op w = gray_cols b2 op w).
  { intros. now apply gray_cols_ext. }
  destruct (G HA HB img buf ptrs Hlen Hin Hsep) as (G1 & G2 & G3).
  rewrite E in * by assumption. cbv zeta.
  set (out := put_gray_rows img buf ptrs) in *. clearbody out. repeat split; auto.
  unfold unpack_gray. clear - G3 Hw. induction G3 as [|x y l l' H G3 IH]; [reflexivity|].
  inversion Hw as [|? ? Hx Hl]. cbn [map]. f_equal; [|apply IH; exact Hl]. exact (H Hx).
Qed.

(* ------------------------------------------------------------------ E. merged upsampling = conversion of replicated chroma *)
Lemma zip3_nil_r a b : zip3 a b [] = [].
Proof. destruct a, b; reflexivity. Qed.

Lemma h2v1_cols_put_cols p L : forall cbs ys crs buf op,
  h2v1_cols p L ys cbs crs buf op =
  put_cols (sp_max p) L (map (rgb_of_ycc_gen p true) (zip3 ys (dup2 cbs) (dup2 crs))) buf op.
Proof.
  induction cbs as [|cb tcb IH]; intros ys crs buf op.
  - destruct ys; reflexivity.
  - destruct crs as [|cr tcr].
    + cbn [dup2]. rewrite zip3_nil_r. destruct ys; reflexivity.
    + destruct ys as [|y0 [|y1 ty]]; [reflexivity | reflexivity |].
      cbn [h2v1_cols dup2 zip3 map put_cols]. rewrite IH. reflexivity.
Qed.

Lemma merged_constants_agree : forall k, dfix true k = dfix false k.
Proof.
  intro k. unfold dfix.
  destruct k as [|q|q]; [ | destruct q as [q|q|]; [ | destruct q as [q|q|] | ] | ]; vm_compute; reflexivity.
Qed.

Lemma rgb_of_ycc_merged p t : rgb_of_ycc_gen p true t = rgb_of_ycc p t.
Proof.
  unfold rgb_of_ycc, rgb_of_ycc_gen, chroma, Cr_r, Cb_b, Cr_g, Cb_g.
  rewrite !merged_constants_agree. reflexivity.
Qed.

Lemma write_rows_ext {R1 R2} (wr1 : R1 -> list Z -> Z -> list Z) (wr2 : R2 -> list Z -> Z -> list Z) (f : R1 -> R2) :
  (forall r buf op, wr1 r buf op = wr2 (f r) buf op) ->
  forall img buf ptrs, write_rows wr1 img buf ptrs = write_rows wr2 (map f img) buf ptrs.
Proof.
  intro H. induction img as [|r ri IH]; intros buf [|op rp]; try reflexivity.
  cbn [write_rows map]. rewrite H. apply IH.
Qed.

Theorem merged_is_plain p L ys cbs crs buf ptrs :
  h2v1_rows p L ys cbs crs buf ptrs = ycc_rgb_convert p L (merged_image ys cbs crs) buf ptrs.
Proof.
  unfold h2v1_rows, ycc_rgb_convert, put_rows, merged_image. rewrite map_map.
  apply write_rows_ext. intros r buf' op. rewrite h2v1_cols_put_cols.
  f_equal; try (apply map_ext; intro t; apply rgb_of_ycc_merged).
Qed.

(* ------------------------------------------------------------------ top-level statements *)
Theorem compress_any_memory p L1 L2 buf1 buf2 ptrs1 ptrs2 w :
  unpack L1 buf1 ptrs1 w = unpack L2 buf2 ptrs2 w ->
  rgb_ycc_convert p L1 buf1 ptrs1 w = rgb_ycc_convert p L2 buf2 ptrs2 w /\
  rgb_gray_convert p L1 buf1 ptrs1 w = rgb_gray_convert p L2 buf2 ptrs2 w /\
  rgb_rgb_convert L1 buf1 ptrs1 w = rgb_rgb_convert L2 buf2 ptrs2 w.
Proof.
  intro H.
  rewrite (rgb_ycc_convert_unpack p L1), (rgb_ycc_convert_unpack p L2),
          (rgb_gray_convert_unpack p L1), (rgb_gray_convert_unpack p L2), H.
  split; [reflexivity|]. split; [reflexivity|].
  transitivity (unpack L1 buf1 ptrs1 w); [apply rgb_rgb_convert_unpack|].
  rewrite H. symmetry. apply rgb_rgb_convert_unpack.
Qed.

Theorem compress_layout_invariant p L1 L2 w pitch1 pitch2 rowsp1 rowsp2 bu1 bu2 :
  WF L1 -> WF L2 -> presentation L1 w pitch1 rowsp1 -> presentation L2 w pitch2 rowsp2 ->
  picture rowsp1 = picture rowsp2 ->
  let b1 := mkbuf L1 rowsp1 bu1 in let b2 := mkbuf L2 rowsp2 bu2 in
  let p1 := rows pitch1 (length rowsp1) bu1 in let p2 := rows pitch2 (length rowsp2) bu2 in
  rgb_ycc_convert p L1 b1 p1 w = rgb_ycc_convert p L2 b2 p2 w /\
  rgb_gray_convert p L1 b1 p1 w = rgb_gray_convert p L2 b2 p2 w /\
  rgb_rgb_convert L1 b1 p1 w = rgb_rgb_convert L2 b2 p2 w /\
  rgb_ycc_convert p L1 b1 p1 w = map (map (ycc_of_rgb p)) (picture rowsp1) /\
  rgb_rgb_convert L1 b1 p1 w = picture rowsp1.
Proof.
  intros W1 W2 P1 P2 E. cbv zeta.
  pose proof (unpack_mkbuf L1 w pitch1 rowsp1 bu1 W1 P1) as U1.
  pose proof (unpack_mkbuf L2 w pitch2 rowsp2 bu2 W2 P2) as U2.
  destruct (compress_any_memory p L1 L2 _ _ _ _ w (eq_trans U1 (eq_trans E (eq_sym U2)))) as (A & B & C).
  split; [exact A|]. split; [exact B|]. split; [exact C|]. split.
  - now rewrite rgb_ycc_convert_unpack, U1.
  - transitivity (unpack L1 (mkbuf L1 rowsp1 bu1) (rows pitch1 (length rowsp1) bu1) w);
      [apply rgb_rgb_convert_unpack | exact U1].
Qed.

Theorem decompress_rows_spec a L w h pitch bu img buf :
  WF L -> length img = h -> Forall (fun row => length row = w) img ->
  Z.of_nat w * psz L <= pitch ->
  (Z.of_nat h - 1) * pitch + Z.of_nat w * psz L <= Z.of_nat (length buf) ->
  let ptrs := rows pitch h bu in
  let out := put_rows a L img buf ptrs in
  unpack L out ptrs w = img /\
  (0 <= aoff L -> unpack_alpha L out ptrs w = map (fun _ => repeat a w) img) /\
  length out = length buf /\
  (forall j, 0 <= j ->
     (forall i, 0 <= i < Z.of_nat h -> j < i * pitch \/ i * pitch + Z.of_nat w * psz L <= j) ->
     rd out j = rd buf j).
Proof.
  intros W Hh Hw Hpitch Hbuf. cbv zeta.
  assert (Hd : 0 <= Z.of_nat w * psz L <= pitch) by (destruct W as ([?|?] & _); nia).
  destruct (put_rows_spec a L w W img buf (rows pitch h bu)) as (S1 & S2 & S3 & S4); auto.
  - now rewrite rows_length.
  - now apply rows_in_bounds.
  - now apply rows_separated.
  - repeat split; auto. intros j Hj Hout. apply S2; auto. now apply outside_rows_rows.
Qed.

Theorem decompress_layout_invariant p L w h pitch bu img buf :
  WF L -> length img = h -> Forall (fun row => length row = w) img ->
  Z.of_nat w * psz L <= pitch ->
  (Z.of_nat h - 1) * pitch + Z.of_nat w * psz L <= Z.of_nat (length buf) ->
  let ptrs := rows pitch h bu in
  let out := ycc_rgb_convert p L img buf ptrs in
  unpack L out ptrs w = map (map (rgb_of_ycc p)) img /\
  (0 <= aoff L -> unpack_alpha L out ptrs w = map (fun _ => repeat (sp_max p) w) img) /\
  length out = length buf /\
  (forall j, 0 <= j ->
     (forall i, 0 <= i < Z.of_nat h -> j < i * pitch \/ i * pitch + Z.of_nat w * psz L <= j) ->
     rd out j = rd buf j).
Proof.
  intros W Hh Hw Hpitch Hbuf. cbv zeta. unfold ycc_rgb_convert.
  destruct (decompress_rows_spec (sp_max p) L w h pitch bu (map (map (rgb_of_ycc p)) img) buf) as (S1 & S2 & S3 & S4); auto.
  - now rewrite map_length.
  - apply Forall_map. eapply Forall_impl; [|exact Hw]. cbv beta. intros. now rewrite map_length.
  - repeat split; auto. intro Hao. rewrite S2 by assumption. now rewrite map_map.
Qed.

Corollary decompress_two_layouts p L1 L2 w h pitch1 pitch2 bu1 bu2 img buf1 buf2 :
  WF L1 -> WF L2 -> length img = h -> Forall (fun row => length row = w) img ->
  Z.of_nat w * psz L1 <= pitch1 -> Z.of_nat w * psz L2 <= pitch2 ->
  (Z.of_nat h - 1) * pitch1 + Z.of_nat w * psz L1 <= Z.of_nat (length buf1) ->
  (Z.of_nat h - 1) * pitch2 + Z.of_nat w * psz L2 <= Z.of_nat (length buf2) ->
  unpack L1 (ycc_rgb_convert p L1 img buf1 (rows pitch1 h bu1)) (rows pitch1 h bu1) w =
  unpack L2 (ycc_rgb_convert p L2 img buf2 (rows pitch2 h bu2)) (rows pitch2 h bu2) w.
Proof.
  intros W1 W2 Hh Hw P1 P2 B1 B2.
  destruct (decompress_layout_invariant p L1 w h pitch1 bu1 img buf1) as (A1 & _); auto.
  destruct (decompress_layout_invariant p L2 w h pitch2 bu2 img buf2) as (A2 & _); auto.
  cbv zeta in *. congruence.
Qed.

Theorem gray_is_luma :
  (forall p L buf ptrs w, rgb_gray_convert p L buf ptrs w = plane 0 (rgb_ycc_convert p L buf ptrs w)) /\
  (forall w h pitch bu (img : list (list px3)) buf,
     length img = h -> Forall (fun row => length row = w) img ->
     Z.of_nat w <= pitch -> (Z.of_nat h - 1) * pitch + Z.of_nat w <= Z.of_nat (length buf) ->
     let ptrs := rows pitch h bu in
     let out := grayscale_convert_d img buf ptrs in
     unpack_gray out ptrs w = plane 0 img /\ length out = length buf /\
     (forall j, 0 <= j -> (forall i, 0 <= i < Z.of_nat h -> j < i * pitch \/ i * pitch + Z.of_nat w <= j) ->
        rd out j = rd buf j)).
Proof.
  split; [intros; apply rgb_gray_is_luma|].
  intros w h pitch bu img buf Hh Hw Hpitch Hbuf. cbv zeta. unfold grayscale_convert_d.
  destruct (put_gray_rows_spec w (plane 0 img) buf (rows pitch h bu)) as (S1 & S2 & S3).
  - unfold plane. now rewrite map_length, rows_length.
  - unfold plane. apply Forall_map. eapply Forall_impl; [|exact Hw]. cbv beta. intros. now rewrite map_length.
  - apply rows_in_bounds; lia.
  - apply rows_separated; lia.
  - repeat split; auto. intros j Hj Hout. apply S2; auto. now apply outside_rows_rows.
Qed.

(* ------------------------------------------------------------------ the generated tables, in Prop form *)
Theorem layouts_wellformed :
  (forall cs, In cs rgb_family_cs ->
     let L := cs_layout cs in
     WF L /\
     (forall tab, In tab (c_dispatch_tables ++ d_dispatch_tables ++ simd_dispatch_tables) ->
        rgbp_of (lookup5 tab cs) = Some (layout_rgbp L)) /\
     (forall tab, In tab d_dispatch_tables -> alpha_of (lookup5 tab cs) = Some (aoff L)) /\
     (psz L = 4 -> 0 <= aoff L)) /\
  (forall pf, In pf tj_rgb_family_pf ->
     let T := pf_layout pf in let cs := znth pf2cs_tab pf in let L := cs_layout cs in
     In cs rgb_family_cs /\ WF T /\ layout_rgbp T = layout_rgbp L /\
     (aoff T = -1 \/ aoff T = aoff L) /\ znth cs2pf_tab cs = pf) /\
  length rgb_family_cs = 11%nat /\ length tj_rgb_family_pf = 10%nat /\ fix_ok = true.
Proof.
  split; [|split; [|repeat split; vm_compute; reflexivity]].
  - intros cs Hcs. cbv [rgb_family_cs In] in Hcs.
    repeat (destruct Hcs as [<- | Hcs]); try contradiction;
      (cbv zeta; split; [apply wf_layoutb_WF; vm_compute; reflexivity|];
       split; [intros tab Ht; cbv [c_dispatch_tables d_dispatch_tables simd_dispatch_tables app In] in Ht;
               repeat (destruct Ht as [<- | Ht]); try contradiction; vm_compute; reflexivity|];
       split; [intros tab Ht; cbv [d_dispatch_tables In] in Ht;
               repeat (destruct Ht as [<- | Ht]); try contradiction; vm_compute; reflexivity|];
       vm_compute; intros; try discriminate; congruence).
  - intros pf Hpf. cbv [tj_rgb_family_pf In] in Hpf.
    repeat (destruct Hpf as [<- | Hpf]); try contradiction;
      (cbv zeta; split; [vm_compute; tauto|]; split; [apply wf_layoutb_WF; vm_compute; reflexivity|];
       split; [vm_compute; reflexivity|]; split; [vm_compute; tauto | vm_compute; reflexivity]).
Qed.

(* ------------------------------------------------------------------ F. no wrap-around in the (_JSAMPLE) cast of the forward conversion *)
Ltac eval_ctab :=
  unfold ctab;
  repeat match goal with
         | |- context [c_entry ?s] => let v := eval vm_compute in (c_entry s) in change (c_entry s) with v
         end;
  cbv beta iota;
  repeat match goal with
         | |- context [fixc ?a ?b ?c] => let v := eval vm_compute in (fixc a b c) in change (fixc a b c) with v
         end.

Lemma raw_in_range p : p = prec8 \/ p = prec12 -> forall r g b,
  0 <= r <= sp_max p -> 0 <= g <= sp_max p -> 0 <= b <= sp_max p ->
  0 <= y_raw p r g b <= sp_max p /\ 0 <= cb_raw p r g b <= sp_max p /\ 0 <= cr_raw p r g b <= sp_max p.
Proof.
  intros Hp r g b Hr Hg Hb. unfold y_raw, cb_raw, cr_raw.
  rewrite !Z.shiftr_div_pow2 by (vm_compute; discriminate).
  change (2 ^ c_scalebits) with 65536.
  destruct Hp as [-> | ->]; eval_ctab;
    change (sp_max prec8) with 255 in *; change (sp_max prec12) with 4095 in *;
    change (Z.shiftl (sp_center prec8) c_scalebits) with 8388608;
    change (Z.shiftl (sp_center prec12) c_scalebits) with 134217728;
    change (2 ^ (c_scalebits - 1)) with 32768;
    repeat split; (apply Z.div_pos; lia) || (apply Z.div_le_upper_bound; lia) || (Z.div_mod_to_equations; lia).
Qed.

Theorem forward_conversion_no_wrap p : p = prec8 \/ p = prec12 -> forall t,
  0 <= c0 t <= sp_max p -> 0 <= c1 t <= sp_max p -> 0 <= c2 t <= sp_max p ->
  ycc_of_rgb p t = (y_raw p (c0 t) (c1 t) (c2 t), cb_raw p (c0 t) (c1 t) (c2 t), cr_raw p (c0 t) (c1 t) (c2 t)) /\
  0 <= c0 (ycc_of_rgb p t) <= sp_max p /\ 0 <= c1 (ycc_of_rgb p t) <= sp_max p /\ 0 <= c2 (ycc_of_rgb p t) <= sp_max p.
Proof.
  intros Hp t H0 H1 H2.
  assert (Hin : forall v, 0 <= v <= sp_max p -> range_in p v = v).
  { intros v Hv. unfold range_in. destruct Hp as [-> | ->]; cbn [sp_bits prec8 prec12 Z.eqb Pos.eqb]; [reflexivity|].
    change c_range_mask12 with (Z.ones 12). rewrite Z.land_ones by lia. apply Z.mod_small.
    change (sp_max prec12) with 4095 in Hv. change (2 ^ 12) with 4096. lia. }
  assert (Hs : forall v, 0 <= v <= sp_max p -> to_sample p v = v).
  { intros v Hv. unfold to_sample. destruct Hp as [-> | ->]; cbn [sp_bits prec8 prec12 Z.eqb Pos.eqb].
    - apply Z.mod_small. change (sp_max prec8) with 255 in Hv. lia.
    - change (sp_max prec12) with 4095 in Hv. rewrite Z.mod_small; lia. }
  destruct (raw_in_range p Hp (c0 t) (c1 t) (c2 t) H0 H1 H2) as (Ry & Rcb & Rcr).
  assert (E : ycc_of_rgb p t = (y_raw p (c0 t) (c1 t) (c2 t), cb_raw p (c0 t) (c1 t) (c2 t), cr_raw p (c0 t) (c1 t) (c2 t))).
  { unfold ycc_of_rgb, y_of_rgb, cb_of_rgb, cr_of_rgb. rewrite !Hin by assumption. rewrite !Hs by assumption. reflexivity. }
  split; [exact E|]. rewrite E. unfold c0, c1, c2. cbn [fst snd]. auto.
Qed.

(* ------------------------------------------------------------------ non-vacuity *)
Definition ex_rows1 : list (list quad * list Z) :=
  [([(255, 0, 0, 11); (0, 255, 0, 12)], []); ([(0, 0, 255, 13); (200, 100, 50, 14)], [])].
Definition ex_rows2 : list (list quad * list Z) :=
  [([(255, 0, 0, 91); (0, 255, 0, 92)], [1; 2; 3; 4; 5]); ([(0, 0, 255, 93); (200, 100, 50, 94)], [6; 7; 8; 9; 10])].

Lemma compress_example :
  let L1 := cs_layout JCS_EXT_RGB in let L2 := cs_layout JCS_EXT_XBGR in
  WF L1 /\ WF L2 /\ presentation L1 2 6 ex_rows1 /\ presentation L2 2 13 ex_rows2 /\
  picture ex_rows1 = picture ex_rows2 /\
  mkbuf L1 ex_rows1 false = [255; 0; 0; 0; 255; 0; 0; 0; 255; 200; 100; 50] /\
  mkbuf L2 ex_rows2 true = [93; 255; 0; 0; 94; 50; 100; 200; 6; 7; 8; 9; 10; 91; 0; 0; 255; 92; 0; 255; 0; 1; 2; 3; 4; 5] /\
  rgb_ycc_convert prec8 L2 (mkbuf L2 ex_rows2 true) (rows 13 2 true) 2 =
    [[(76, 85, 255); (150, 44, 21)]; [(29, 255, 107); (124, 86, 182)]].
Proof.
  cbv zeta. split; [apply wf_layoutb_WF; vm_compute; reflexivity|].
  split; [apply wf_layoutb_WF; vm_compute; reflexivity|].
  split; [repeat constructor|]. split; [repeat constructor|].
  repeat split; vm_compute; reflexivity.
Qed.

Lemma decompress_example :
  let L := cs_layout JCS_EXT_BGRA in
  let img := [[(76, 85, 255); (150, 44, 21)]; [(29, 255, 107); (124, 86, 182)]] in
  let buf := repeat 7 18 in
  WF L /\ 0 <= aoff L /\ Forall (fun row => length row = 2%nat) img /\
  Z.of_nat 2 * psz L <= 9 /\ (Z.of_nat 2 - 1) * 9 + Z.of_nat 2 * psz L <= Z.of_nat (length buf) /\
  ycc_rgb_convert prec8 L img buf (rows 9 2 true) =
    [254; 0; 0; 255; 50; 100; 200; 255; 7; 0; 0; 254; 255; 1; 255; 0; 255; 7].
Proof.
  cbv zeta. split; [apply wf_layoutb_WF; vm_compute; reflexivity|].
  split; [vm_compute; discriminate|]. split; [repeat constructor|].
  split; [vm_compute; discriminate|]. split; [vm_compute; discriminate|]. vm_compute. reflexivity.
Qed.

Lemma merged_or_not_sb mrg : dsb mrg = 16.
Proof. destruct mrg; reflexivity. Qed.

(* ------------------------------------------------------------------ G. the range_limit[] subscripts of the inverse conversion stay in the
   part of the table of jdmaster.c prepare_range_limit_table that is a clamp: [-(MAX+1), 2*(MAX+1)+CENTER) *)
Lemma decode_index_in_clamp_range p mrg : p = prec8 \/ p = prec12 -> forall y cb cr,
  0 <= y <= sp_max p -> 0 <= cb <= sp_max p -> 0 <= cr <= sp_max p ->
  let ch := chroma p mrg cb cr in
  - (sp_max p + 1) <= y + c0 ch < 2 * (sp_max p + 1) + sp_center p /\
  - (sp_max p + 1) <= y + c1 ch < 2 * (sp_max p + 1) + sp_center p /\
  - (sp_max p + 1) <= y + c2 ch < 2 * (sp_max p + 1) + sp_center p.
Proof.
  intros Hp y cb cr Hy Hcb Hcr. cbv zeta. unfold chroma, c0, c1, c2, Cr_r, Cb_b, Cr_g, Cb_g. cbn [fst snd].
  rewrite !merged_or_not_sb. destruct mrg.
  all: rewrite !Z.shiftr_div_pow2 by (vm_compute; discriminate).
  all: change (2 ^ 16) with 65536; change (2 ^ (16 - 1)) with 32768.
  all: repeat match goal with
         | |- context [dfix ?m ?k] => let v := eval vm_compute in (dfix m k) in change (dfix m k) with v
         end.
  all: destruct Hp as [-> | ->];
    change (sp_max prec8) with 255 in *; change (sp_max prec12) with 4095 in *;
    change (sp_center prec8) with 128; change (sp_center prec12) with 2048;
    repeat split; Z.div_mod_to_equations; lia.
Qed.

(* ------------------------------------------------------------------ H. the decompressor's own RGB->Y (build_rgb_y_table + rgb_gray_convert of jdcolor.c)
   is the compressor-side luminance, for ALL r,g,b: same FIX() constants, same ONE_HALF rounding term *)
Lemma d_ytab_sum_is_ctab_sum p r g b :
  d_ytab 0 r + d_ytab 1 g + d_ytab 2 b = ctab p c_R_Y_OFF r + ctab p c_G_Y_OFF g + ctab p c_B_Y_OFF b.
Proof.
  unfold d_ytab.
  repeat match goal with
         | |- context [nth ?k d_rgb_y_entries ?d] =>
             let v := eval vm_compute in (nth k d_rgb_y_entries d) in change (nth k d_rgb_y_entries d) with v
         end.
  cbv beta iota. eval_ctab.
  repeat match goal with
         | |- context [fixc ?a ?b ?c] => let v := eval vm_compute in (fixc a b c) in change (fixc a b c) with v
         end.
  change (2 ^ (d_scalebits - 1)) with 32768. change (2 ^ (c_scalebits - 1)) with 32768. ring.
Qed.

Theorem rgb_gray_d_is_luma p t : rgb_gray_d p t = y_of_rgb p (c0 t) (c1 t) (c2 t).
Proof.
  unfold rgb_gray_d, y_of_rgb, y_raw. rewrite d_ytab_sum_is_ctab_sum with (p := p). reflexivity.
Qed.

Theorem decompress_rgb_gray_is_luma :
  (forall p t, rgb_gray_d p t = y_of_rgb p (c0 t) (c1 t) (c2 t)) /\
  (forall p t, (p = prec8 \/ p = prec12) -> 0 <= c0 t <= sp_max p -> 0 <= c1 t <= sp_max p -> 0 <= c2 t <= sp_max p ->
     rgb_gray_d p t = gray_of_rgb p t /\ rgb_gray_d p t = c0 (ycc_of_rgb p t)) /\
  (forall p w h pitch bu (img : list (list px3)) buf,
     length img = h -> Forall (fun row => length row = w) img ->
     Z.of_nat w <= pitch -> (Z.of_nat h - 1) * pitch + Z.of_nat w <= Z.of_nat (length buf) ->
     let ptrs := rows pitch h bu in
     let out := rgb_gray_convert_d p img buf ptrs in
     unpack_gray out ptrs w = map (map (fun t => y_of_rgb p (c0 t) (c1 t) (c2 t))) img /\ length out = length buf /\
     (forall j, 0 <= j -> (forall i, 0 <= i < Z.of_nat h -> j < i * pitch \/ i * pitch + Z.of_nat w <= j) ->
        rd out j = rd buf j)).
Proof.
  split; [exact rgb_gray_d_is_luma|]. split.
  - intros p t Hp H0 H1 H2.
    assert (Hin : forall v, 0 <= v <= sp_max p -> range_in p v = v).
    { intros v Hv. unfold range_in. destruct Hp as [-> | ->]; cbn [sp_bits prec8 prec12 Z.eqb Pos.eqb]; [reflexivity|].
      change c_range_mask12 with (Z.ones 12). rewrite Z.land_ones by lia. apply Z.mod_small.
      change (sp_max prec12) with 4095 in Hv. change (2 ^ 12) with 4096. lia. }
    assert (E : rgb_gray_d p t = gray_of_rgb p t).
    { rewrite rgb_gray_d_is_luma. unfold gray_of_rgb. now rewrite !Hin by assumption. }
    split; [exact E | rewrite E; reflexivity].
  - intros p w h pitch bu img buf Hh Hw Hpitch Hbuf. cbv zeta. unfold rgb_gray_convert_d.
    destruct (put_gray_rows_spec w (map (map (rgb_gray_d p)) img) buf (rows pitch h bu)) as (S1 & S2 & S3).
    + now rewrite map_length, rows_length.
    + apply Forall_map. eapply Forall_impl; [|exact Hw]. cbv beta. intros. now rewrite map_length.
    + apply rows_in_bounds; lia.
    + apply rows_separated; lia.
    + repeat split; auto.
      * rewrite S3. apply map_ext. intro row. apply map_ext. intro t. apply rgb_gray_d_is_luma.
      * intros j Hj Hout. apply S2; auto. now apply outside_rows_rows.
Qed.

(* ------------------------------------------------------------------ SIMD kernels: plane pointers advance by one vector per iteration *)
Theorem simd_plane_pointer_advances :
  forallb (fun e => fst e =? snd e) simd_plane_ptr_advances = true /\
  (simd_present = true -> (32 <=? Z.of_nat (length simd_plane_ptr_advances)) = true).
Proof. split; [vm_compute; reflexivity | intros _; vm_compute; reflexivity]. Qed.
