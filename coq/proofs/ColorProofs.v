(* C10 proofs -- see props/C10.v for the statements that matter *)
From Coq Require Import List ZArith Lia Bool.
From LJT Require Import gen.GenLayouts model.Color.
Import ListNotations.
Local Open Scope Z_scope.

Lemma layouts_ok_true : layouts_ok = true /\ fix_ok = true.
Proof. split; vm_compute; reflexivity. Qed.
