(* C07 -- reciprocal_exact, divisor_faithful, coef_error_bound (algebra in proofs/QuantCert.v and proofs/QuantAlg.v) *)
From Coq Require Import List ZArith Lia Bool ZifyBool.
From LJT Require Import lib.Sweep gen.GenDctConst model.Quant proofs.QuantCert proofs.QuantAlg.
Import ListNotations.
Local Open Scope Z_scope.

Theorem reciprocal_exact_proof : forall cf d,
  (c_dw cf = 16 \/ c_dw cf = 32) -> 1 <= d <= 65535 ->
  exists rc, compute_reciprocal cf d = Some rc /\
    forall x, -32767 <= x <= 32767 -> quantize_recip_one cf rc x = rdiv x d.
Proof.
  intros cf d HW Hd. destruct (recip_facts_all cf d HW Hd) as [rc [Hrc Hf]].
  exists rc. split; [exact Hrc|]. apply (recip_sound cf d rc HW); [lia|exact Hf].
Qed.

(* ---------------------------------------------------------------- round-half-up division *)
Lemma rdiv_error x d : 0 < d -> 2 * Z.abs (rdiv x d * d - x) <= d.
Proof.
  intros Hd. unfold rdiv.
  assert (Hh := Z.div_mod d 2 ltac:(lia)).
  assert (Hh2 := Z.mod_pos_bound d 2 ltac:(lia)).
  assert (G : forall a, 0 <= a -> 2 * Z.abs ((a + d / 2) / d * d - a) <= d).
  { intros a Ha.
    assert (Hq := Z.div_mod (a + d / 2) d ltac:(lia)).
    assert (Hm := Z.mod_pos_bound (a + d / 2) d Hd). lia. }
  destruct (Z_lt_ge_dec x 0) as [Hx|Hx].
  - rewrite (Z.abs_neq x) by lia. replace (Z.sgn x) with (-1) by lia.
    specialize (G (- x) ltac:(lia)). lia.
  - rewrite (Z.abs_eq x) by lia. specialize (G x ltac:(lia)).
    destruct (Z.eq_dec x 0) as [->|Hnz]; [simpl; lia|].
    replace (Z.sgn x) with 1 by lia. lia.
Qed.

Lemma rdiv_zero d : 0 < d -> rdiv 0 d = 0.
Proof. intros; unfold rdiv; reflexivity. Qed.

(* ---------------------------------------------------------------- divisor_faithful *)
Theorem divisor_faithful_proof : forall q, 1 <= q <= 65535 ->
  1 <= scaled_divisor q <= 65535 /\
  forall x, -32767 <= x <= 32767 -> rdiv x (scaled_divisor q) = rdiv x (8 * q).
Proof.
  intros q Hq. unfold scaled_divisor.
  change divisor_clamped with true. change divisor_shift with 3. change divisor_clamp_limit with 65535.
  cbv iota. rewrite Z.shiftl_mul_pow2 by lia. change (2 ^ 3) with 8.
  destruct (q * 8 >? 65535) eqn:Hc.
  - rewrite wrapU_small by (change (2 ^ 16) with 65536; lia). split; [lia|].
    intros x Hx. unfold rdiv. f_equal.
    rewrite (Z.div_small (Z.abs x + 65535 / 2) 65535) by (change (65535 / 2) with 32767; lia).
    symmetry. apply Z.div_small.
    assert (8 * q / 2 = 4 * q) by (replace (8 * q) with (4 * q * 2) by lia; apply Z.div_mul; lia). lia.
  - rewrite wrapU_small by (change (2 ^ 16) with 65536; lia). split; [lia|].
    intros x Hx. replace (q * 8) with (8 * q) by lia. reflexivity.
Qed.

(* ---------------------------------------------------------------- 12-bit (division) arm *)
Lemma quantize_div_exact qval x : 0 < qval -> Z.abs x + qval / 2 < 32768 * qval ->
  quantize_div_one qval x = rdiv x qval.
Proof.
  intros Hq Hb. unfold quantize_div_one, rdiv, divide_by. rewrite Z.shiftr_div_pow2 by lia. change (2 ^ 1) with 2.
  assert (Hh : 0 <= qval / 2) by (apply Z.div_pos; lia).
  assert (Hdiv : forall a, 0 <= a -> a + qval / 2 < 32768 * qval ->
            (if a + qval / 2 >=? qval then (a + qval / 2) / qval else 0) = (a + qval / 2) / qval
            /\ 0 <= (a + qval / 2) / qval < 32768).
  { intros a Ha Hab. split.
    - destruct (a + qval / 2 >=? qval) eqn:Hge; [reflexivity|]. symmetry. apply Z.div_small. lia.
    - split; [apply Z.div_pos; lia|apply Z.div_lt_upper_bound; lia]. }
  destruct (x <? 0) eqn:Hneg.
  - rewrite Z.abs_neq in * by lia. destruct (Hdiv (- x)) as [-> Hr]; [lia|lia|].
    rewrite wrapS_small by (simpl; lia). replace (Z.sgn x) with (-1) by lia. lia.
  - rewrite Z.abs_eq in * by lia. destruct (Hdiv x) as [-> Hr]; [lia|lia|].
    rewrite wrapS_small by (simpl; lia).
    destruct (Z.eq_dec x 0) as [->|Hnz].
    + simpl. rewrite Z.div_small; [reflexivity|]. split; [lia|]. apply Z.div_lt_upper_bound; lia.
    + replace (Z.sgn x) with 1 by lia. lia.
Qed.

(* ---------------------------------------------------------------- what start_pass_fdctmgr + quantize compute *)
Definition cfg_ok (cf : cfg) : Prop :=
  (c_bits cf = 8 /\ (c_dw cf = 16 \/ c_dw cf = 32) /\ (c_mw cf = 16 \/ c_mw cf = 32)) \/
  (c_bits cf = 12 /\ (c_dw cf = 32 \/ c_dw cf = 64) /\ c_mw cf = 32).

(* largest coefficient magnitude for which the statement is made *)
Definition coef_max (cf : cfg) : Z := if c_bits cf =? 8 then 32767 else 262135.

Theorem quantize_is_rdiv_proof : forall cf q, cfg_ok cf -> 1 <= q <= 65535 ->
  exists dv, start_pass_divisor cf q = Some dv /\
    forall x, - coef_max cf <= x <= coef_max cf -> quantize_one cf dv x = rdiv x (8 * q).
Proof.
  intros cf q Hok Hq. unfold start_pass_divisor, coef_max.
  destruct Hok as [[Hb [HW _]]|[Hb [HW _]]]; rewrite Hb; cbn [Z.eqb Pos.eqb].
  - destruct (divisor_faithful_proof q Hq) as [Hd Hf].
    destruct (reciprocal_exact_proof cf (scaled_divisor q) HW Hd) as [rc [-> Hrc]].
    exists (DRecip rc). split; [reflexivity|]. intros x Hx. cbn [quantize_one].
    rewrite Hrc by exact Hx. apply Hf; exact Hx.
  - exists (DDiv (wrapS (c_dw cf) (Z.shiftl q divisor_shift_12))). split; [reflexivity|].
    intros x Hx. cbn [quantize_one]. change divisor_shift_12 with 3.
    rewrite Z.shiftl_mul_pow2 by lia. change (2 ^ 3) with 8.
    rewrite wrapS_small by (destruct HW as [->| ->]; simpl; lia).
    replace (q * 8) with (8 * q) by lia.
    apply quantize_div_exact; [lia|].
    assert (8 * q / 2 = 4 * q) by (replace (8 * q) with (4 * q * 2) by lia; apply Z.div_mul; lia). lia.
Qed.

(* coef_error_bound: the dequantised coefficient Q*q is within q/2 of F/8 *)
Theorem coef_error_bound_proof : forall cf q, cfg_ok cf -> 1 <= q <= 65535 ->
  exists dv, start_pass_divisor cf q = Some dv /\
    forall x, - coef_max cf <= x <= coef_max cf ->
      2 * Z.abs (quantize_one cf dv x * (8 * q) - x) <= 8 * q.
Proof.
  intros cf q Hok Hq. destruct (quantize_is_rdiv_proof cf q Hok Hq) as [dv [Hs Hx]].
  exists dv. split; [exact Hs|]. intros x Hxr. rewrite Hx by exact Hxr. apply rdiv_error. lia.
Qed.

(* jsimd_quantize (the routine the 8-bit SIMD build really runs whenever every
   compute_reciprocal call returned 1) computes the same round-half-up quotient *)
Theorem simd_quantize_exact_proof : forall cf d rc,
  c_dw cf = 16 -> c_simd cf = true -> 1 <= d <= 65535 ->
  compute_reciprocal cf d = Some rc -> r_ret rc = 1 ->
  forall x, -32767 <= x <= 32767 -> quantize_simd_one rc x = rdiv x d.
Proof.
  intros cf d rc HW Hs Hd Hrc Hret.
  destruct (recip_facts_all cf d (or_introl HW) Hd) as [rc' [Hrc' Hf]].
  rewrite Hrc in Hrc'. injection Hrc' as <-.
  apply (recip_simd_sound cf d rc HW); [lia|exact Hf|exact Hs|exact Hret].
Qed.
