(* C07 -- proofs about the quantiser model (coq/model/Quant.v).

   reciprocal_exact: for every 16-bit divisor d >= 1 and every |x| <= 32767 the
   reciprocal quantiser (compute_reciprocal + quantize, 16- or 32-bit DCTELEM)
   returns sign(x) * floor((|x| + d/2) / d).  Structure: an ALGEBRAIC soundness
   lemma (recip_core / recip_cert_sound) shows that a handful of inequalities
   between the numbers compute_reciprocal produced for d (reciprocal f, correction
   c, shift r) imply exactness for ALL x of the range; the inequalities are then
   evaluated for each of the 65535 divisors by vm_compute (recip_cert). *)
From Coq Require Import List ZArith Lia Bool ZifyBool.
From LJT Require Import lib.Sweep gen.GenDctConst model.Quant.
Import ListNotations.
Local Open Scope Z_scope.

(* ---------------------------------------------------------------- wraps *)
Lemma wrapU_small w x : 0 <= x < 2 ^ w -> wrapU w x = x.
Proof. intros; unfold wrapU; apply Z.mod_small; assumption. Qed.

Lemma wrapS_small w x : 1 <= w -> - 2 ^ (w - 1) <= x < 2 ^ (w - 1) -> wrapS w x = x.
Proof.
  intros Hw Hx. unfold wrapS.
  assert (E : 2 ^ w = 2 * 2 ^ (w - 1)).
  { replace w with (Z.succ (w - 1)) at 1 by lia. rewrite Z.pow_succ_r by lia. reflexivity. }
  rewrite Z.mod_small by lia. lia.
Qed.

Lemma wrapU_nonneg w x : 0 <= w -> 0 <= wrapU w x.
Proof. intros; unfold wrapU. apply Z.mod_pos_bound. apply Z.pow_pos_nonneg; lia. Qed.

(* ---------------------------------------------------------------- the algebra *)
(* (y + s) * f = k * 2^r + (k*E + (m+s)*f) with the bracket in [0, 2^r) *)
Lemma recip_core d f s R E K M k m :
  0 < d -> 0 <= f -> 0 <= s -> 0 < R -> E = f * d - R ->
  0 <= m < d -> 0 <= k -> (k < K \/ (k = K /\ m <= M)) ->
  (0 <= E \/ 0 <= K * E + s * f) ->
  (E <= 0 -> (d - 1 + s) * f < R) ->
  (0 < E -> (K = 0 \/ (K - 1) * E + (d - 1 + s) * f < R) /\ K * E + (M + s) * f < R) ->
  ((k * d + m + s) * f) / R = k.
Proof.
  intros Hd Hf Hs HR HE Hm Hk HkK HL HU1 HU2.
  assert (Eq : (k * d + m + s) * f = k * R + (k * E + (m + s) * f)) by (subst E; ring).
  symmetry. apply Z.div_unique with (r := k * E + (m + s) * f); [|lia].
  left. split.
  - (* lower *)
    assert (0 <= m * f) by (apply Z.mul_nonneg_nonneg; lia).
    destruct HL as [HL|HL].
    + assert (0 <= k * E) by (apply Z.mul_nonneg_nonneg; lia).
      assert (0 <= s * f) by (apply Z.mul_nonneg_nonneg; lia). lia.
    + destruct (Z_le_gt_dec 0 E) as [HE0|HE0].
      * assert (0 <= k * E) by (apply Z.mul_nonneg_nonneg; lia).
        assert (0 <= s * f) by (apply Z.mul_nonneg_nonneg; lia). lia.
      * assert (K * E <= k * E).
        { assert (0 <= (K - k) * (- E)) by (apply Z.mul_nonneg_nonneg; lia). lia. }
        lia.
  - (* upper *)
    destruct (Z_le_gt_dec E 0) as [HE0|HE0].
    + specialize (HU1 HE0).
      assert (k * E <= 0).
      { assert (0 <= k * (- E)) by (apply Z.mul_nonneg_nonneg; lia). lia. }
      assert ((m + s) * f <= (d - 1 + s) * f) by (apply Z.mul_le_mono_nonneg_r; lia).
      lia.
    + assert (HE1 : 0 < E) by lia. destruct (HU2 HE1) as [HUa HUb].
      destruct HkK as [Hlt|[-> HmM]].
      * destruct HUa as [->|HUa]; [lia|].
        assert (k * E <= (K - 1) * E) by (apply Z.mul_le_mono_nonneg_r; lia).
        assert ((m + s) * f <= (d - 1 + s) * f) by (apply Z.mul_le_mono_nonneg_r; lia).
        lia.
      * assert ((m + s) * f <= (M + s) * f) by (apply Z.mul_le_mono_nonneg_r; lia).
        lia.
Qed.

(* ---------------------------------------------------------------- per-divisor certificate *)
Definition recip_cert (cf : cfg) (d : Z) : bool :=
  match compute_reciprocal cf d with
  | None => false
  | Some rc =>
    let W := c_dw cf in
    let f := wrapU W (r_recip rc) in
    let c := wrapU W (r_corr rc) in
    let r := r_shift rc + W in
    let h := d / 2 in
    let s := c - h in
    let E := f * d - 2 ^ r in
    let K := (32767 + h) / d in
    let M := (32767 + h) - K * d in
    (0 <=? r) && (0 <=? s) && (32767 + c <? 2 ^ 16) && ((32767 + c) * f <? 2 ^ (2 * W)) && (K <? 32768)
    && ((0 <=? E) || (0 <=? K * E + s * f))
    && (if E <=? 0 then (d - 1 + s) * f <? 2 ^ r
        else ((K =? 0) || ((K - 1) * E + (d - 1 + s) * f <? 2 ^ r)) && (K * E + (M + s) * f <? 2 ^ r))
  end.

Lemma recip_cert_sound cf d :
  (c_dw cf = 16 \/ c_dw cf = 32) -> 1 <= d -> recip_cert cf d = true ->
  exists rc, compute_reciprocal cf d = Some rc /\
    forall x, -32767 <= x <= 32767 -> quantize_recip_one cf rc x = rdiv x d.
Proof.
  intros HW Hd Hc. unfold recip_cert in Hc.
  destruct (compute_reciprocal cf d) as [rc|]; [|discriminate].
  exists rc. split; [reflexivity|].
  set (W := c_dw cf) in *.
  set (f := wrapU W (r_recip rc)) in *.
  set (c := wrapU W (r_corr rc)) in *.
  set (r := r_shift rc + W) in *.
  set (h := d / 2) in *.
  set (s := c - h) in *.
  set (E := f * d - 2 ^ r) in *.
  set (K := (32767 + h) / d) in *.
  set (M := (32767 + h) - K * d) in *.
  repeat rewrite andb_true_iff in Hc.
  destruct Hc as [[[[[[Hr Hs] Hc16] Hprod] HK] HL] HU].
  assert (HWpos : 16 <= W <= 32) by (destruct HW; lia).
  assert (Hf : 0 <= f) by (apply wrapU_nonneg; lia).
  assert (Hcn : 0 <= c) by (apply wrapU_nonneg; lia).
  assert (HR : 0 < 2 ^ r) by (apply Z.pow_pos_nonneg; lia).
  assert (Hh : 0 <= h) by (apply Z.div_pos; lia).
  assert (P16 : 2 ^ 16 = 65536) by reflexivity.
  assert (P32 : 2 ^ 32 = 4294967296) by reflexivity.
  (* the magnitude path, shared by both signs *)
  assert (Mag : forall a, 0 <= a <= 32767 ->
            Z.shiftr (wrapU (2 * W) (wrapU 32 (a + c) * f)) (r_shift rc + W) = (a + h) / d
            /\ 0 <= (a + h) / d < 32768).
  { intros a Ha. fold r.
    rewrite (wrapU_small 32) by lia.
    assert (Hpa : (a + c) * f <= (32767 + c) * f) by (apply Z.mul_le_mono_nonneg_r; lia).
    assert (0 <= (a + c) * f) by (apply Z.mul_nonneg_nonneg; lia).
    rewrite wrapU_small by lia.
    rewrite Z.shiftr_div_pow2 by lia.
    set (y := a + h).
    assert (Hy : y = d * (y / d) + y mod d) by (apply Z.div_mod; lia).
    assert (Hm : 0 <= y mod d < d) by (apply Z.mod_pos_bound; lia).
    assert (Hk0 : 0 <= y / d) by (apply Z.div_pos; lia).
    assert (HkK : y / d <= K) by (apply Z.div_le_mono; lia).
    assert (Hsplit : y / d < K \/ (y / d = K /\ y mod d <= M)).
    { destruct (Z_lt_ge_dec (y / d) K) as [?|?]; [left; assumption|right].
      assert (y / d = K) by lia. split; [assumption|]. unfold M. lia. }
    replace (a + c) with ((y / d) * d + y mod d + s) by (unfold s, y in *; lia).
    split; [|lia].
    apply recip_core with (E := E) (K := K) (M := M); try lia; try reflexivity.
    - intros HE0. destruct (E <=? 0) eqn:HEb; lia.
    - intros HE0. destruct (E <=? 0) eqn:HEb; [lia|].
      rewrite andb_true_iff, orb_true_iff in HU. lia. }
  intros x Hx. unfold quantize_recip_one, rdiv. cbv zeta. fold W. fold f. fold c.
  destruct (x <? 0) eqn:Hneg.
  - assert (Hx' : 0 <= - x <= 32767) by lia.
    rewrite (wrapS_small W (- x)) by (destruct HW as [->| ->]; simpl; lia).
    destruct (Mag (- x) Hx') as [-> Hb].
    rewrite (wrapS_small W ((- x + h) / d)) by (destruct HW as [->| ->]; simpl; lia).
    rewrite (wrapS_small W (- ((- x + h) / d))) by (destruct HW as [->| ->]; simpl; lia).
    rewrite wrapS_small by (simpl; lia).
    rewrite Z.abs_neq by lia. replace (Z.sgn x) with (-1) by lia. fold h. lia.
  - assert (Hx' : 0 <= x <= 32767) by lia.
    destruct (Mag x Hx') as [-> Hb].
    rewrite (wrapS_small W ((x + h) / d)) by (destruct HW as [->| ->]; simpl; lia).
    rewrite wrapS_small by (simpl; lia).
    rewrite Z.abs_eq by lia. fold h.
    destruct (Z.eq_dec x 0) as [->|Hnz].
    + simpl. rewrite Z.div_small; [reflexivity|]. split; [lia|]. apply Z.div_lt_upper_bound; lia.
    + replace (Z.sgn x) with 1 by lia. lia.
Qed.

(* ---------------------------------------------------------------- the sweep over all divisors *)
Definition cf16 : cfg := mkcfg 8 16 16 true.
Definition cf32 : cfg := mkcfg 8 32 32 false.

Lemma recip_cert_all16 : sweep (recip_cert cf16) 1 65536 = true.
Proof. vm_compute. reflexivity. Qed.
Lemma recip_cert_all32 : sweep (recip_cert cf32) 1 65536 = true.
Proof. vm_compute. reflexivity. Qed.

Lemma compute_reciprocal_ext cf cf' d :
  c_dw cf = c_dw cf' -> c_simd cf = c_simd cf' -> compute_reciprocal cf d = compute_reciprocal cf' d.
Proof. intros H1 H2. unfold compute_reciprocal. rewrite H1, H2. reflexivity. Qed.

Lemma quantize_recip_one_ext cf cf' rc x :
  c_dw cf = c_dw cf' -> quantize_recip_one cf rc x = quantize_recip_one cf' rc x.
Proof. intros H1. unfold quantize_recip_one. rewrite H1. reflexivity. Qed.

(* the scale entry (the only place c_simd is looked at) does not influence quantize() *)
Lemma compute_reciprocal_simd_irrel b m s d :
  forall W, match compute_reciprocal (mkcfg b W m s) d, compute_reciprocal (mkcfg b W m (negb s)) d with
  | Some r1, Some r2 => r_recip r1 = r_recip r2 /\ r_corr r1 = r_corr r2 /\ r_shift r1 = r_shift r2 /\ r_ret r1 = r_ret r2
  | None, None => True
  | _, _ => False
  end.
Proof.
  intros W. unfold compute_reciprocal. cbn [c_dw c_simd].
  destruct (wrapU 16 d =? 1); [cbn; auto|].
  destruct (wrapU 16 d =? 0); [exact I|].
  destruct (wrapU (2 * W) (Z.shiftl 1 (W + (flss (wrapU 16 d) - 1))) mod wrapU 16 d =? 0); [cbn; auto|].
  destruct (wrapU (2 * W) (Z.shiftl 1 (W + (flss (wrapU 16 d) - 1))) mod wrapU 16 d <=? wrapU 16 d / 2); cbn; auto.
Qed.

Lemma quantize_recip_one_fields cf r1 r2 x :
  r_recip r1 = r_recip r2 -> r_corr r1 = r_corr r2 -> r_shift r1 = r_shift r2 ->
  quantize_recip_one cf r1 x = quantize_recip_one cf r2 x.
Proof. intros A B C. unfold quantize_recip_one. rewrite A, B, C. reflexivity. Qed.

Theorem reciprocal_exact_proof : forall cf d,
  (c_dw cf = 16 \/ c_dw cf = 32) -> 1 <= d <= 65535 ->
  exists rc, compute_reciprocal cf d = Some rc /\
    forall x, -32767 <= x <= 32767 -> quantize_recip_one cf rc x = rdiv x d.
Proof.
  intros cf d HW Hd.
  (* the certified configuration with the same DCTELEM width *)
  set (cf0 := if c_dw cf =? 16 then cf16 else cf32).
  assert (Hdw : c_dw cf0 = c_dw cf) by (unfold cf0; destruct HW as [->| ->]; reflexivity).
  assert (Hcert : recip_cert cf0 d = true).
  { unfold cf0. destruct HW as [->| ->]; cbn [Z.eqb Pos.eqb].
    - apply (sweep_sound _ _ _ recip_cert_all16). lia.
    - apply (sweep_sound _ _ _ recip_cert_all32). lia. }
  destruct (recip_cert_sound cf0 d) as [rc0 [Hrc0 Hq0]]; [rewrite Hdw; exact HW|lia|exact Hcert|].
  (* same width, same or opposite c_simd *)
  destruct cf as [b W m s]. cbn [c_dw] in *.
  destruct cf0 as [b0 W0 m0 s0] eqn:Ecf0. cbn [c_dw] in Hdw. subst W0.
  destruct (Bool.bool_dec s s0) as [->|Hs].
  - rewrite (compute_reciprocal_ext (mkcfg b W m s0) (mkcfg b0 W m0 s0)) by reflexivity.
    exists rc0. split; [exact Hrc0|]. intros x Hx.
    rewrite (quantize_recip_one_ext (mkcfg b W m s0) (mkcfg b0 W m0 s0)) by reflexivity. apply Hq0; exact Hx.
  - assert (s = negb s0) by (destruct s, s0; try reflexivity; exfalso; apply Hs; reflexivity). subst s.
    pose proof (compute_reciprocal_simd_irrel b0 m0 s0 d W) as Hir. rewrite Hrc0 in Hir.
    rewrite (compute_reciprocal_ext (mkcfg b W m (negb s0)) (mkcfg b0 W m0 (negb s0))) by reflexivity.
    destruct (compute_reciprocal (mkcfg b0 W m0 (negb s0)) d) as [rc1|]; [|contradiction].
    destruct Hir as [A [B [C _]]].
    exists rc1. split; [reflexivity|]. intros x Hx.
    rewrite (quantize_recip_one_ext (mkcfg b W m (negb s0)) (mkcfg b0 W m0 s0)) by reflexivity.
    rewrite <- (quantize_recip_one_fields _ rc0 rc1 x A B C). apply Hq0; exact Hx.
Qed.

(* ---------------------------------------------------------------- round-half-up division *)
Lemma rdiv_error x d : 0 < d -> 2 * Z.abs (rdiv x d * d - x) <= d.
Proof.
  intros Hd. unfold rdiv.
  assert (Hq := Z.div_mod (Z.abs x + d / 2) d ltac:(lia)).
  assert (Hm := Z.mod_pos_bound (Z.abs x + d / 2) d Hd).
  assert (Hh := Z.div_mod d 2 ltac:(lia)).
  assert (Hh2 := Z.mod_pos_bound d 2 ltac:(lia)).
  set (k := (Z.abs x + d / 2) / d) in *.
  destruct (Z.abs_spec x) as [[Hx ->]|[Hx ->]].
  - destruct (Z.eq_dec x 0) as [->|Hnz].
    + simpl. lia.
    + replace (Z.sgn x) with 1 by lia. lia.
  - replace (Z.sgn x) with (-1) by lia. lia.
Qed.

Lemma rdiv_zero d : 0 < d -> rdiv 0 d = 0.
Proof. intros; unfold rdiv; reflexivity. Qed.

(* ---------------------------------------------------------------- divisor_faithful *)
Theorem divisor_faithful_proof : forall q, 1 <= q <= 65535 ->
  1 <= scaled_divisor q <= 65535 /\
  forall x, -32767 <= x <= 32767 -> rdiv x (scaled_divisor q) = rdiv x (8 * q).
Proof.
  intros q Hq. unfold scaled_divisor.
  change divisor_clamped with true. change divisor_shift with 3. change divisor_clamp_limit with 65535.
  cbv iota. rewrite Z.shiftl_mul_pow2 by lia. change (2 ^ 3) with 8.
  destruct (q * 8 >? 65535) eqn:Hc.
  - rewrite wrapU_small by (change (2 ^ 16) with 65536; lia). split; [lia|].
    intros x Hx. unfold rdiv. f_equal.
    rewrite (Z.div_small (Z.abs x + 65535 / 2) 65535) by (change (65535 / 2) with 32767; lia).
    symmetry. apply Z.div_small.
    assert (8 * q / 2 = 4 * q) by (replace (8 * q) with (4 * q * 2) by lia; apply Z.div_mul; lia). lia.
  - rewrite wrapU_small by (change (2 ^ 16) with 65536; lia). split; [lia|].
    intros x Hx. replace (q * 8) with (8 * q) by lia. reflexivity.
Qed.

(* ---------------------------------------------------------------- 12-bit (division) arm *)
Lemma quantize_div_exact qval x : 0 < qval -> Z.abs x + qval / 2 < 32768 * qval ->
  quantize_div_one qval x = rdiv x qval.
Proof.
  intros Hq Hb. unfold quantize_div_one, rdiv, divide_by. rewrite Z.shiftr_div_pow2 by lia. change (2 ^ 1) with 2.
  assert (Hh : 0 <= qval / 2) by (apply Z.div_pos; lia).
  assert (Hdiv : forall a, 0 <= a -> a + qval / 2 < 32768 * qval ->
            (if a + qval / 2 >=? qval then (a + qval / 2) / qval else 0) = (a + qval / 2) / qval
            /\ 0 <= (a + qval / 2) / qval < 32768).
  { intros a Ha Hab. split.
    - destruct (a + qval / 2 >=? qval) eqn:Hge; [reflexivity|]. symmetry. apply Z.div_small. lia.
    - split; [apply Z.div_pos; lia|apply Z.div_lt_upper_bound; lia]. }
  destruct (x <? 0) eqn:Hneg.
  - rewrite Z.abs_neq in * by lia. destruct (Hdiv (- x)) as [-> Hr]; [lia|lia|].
    rewrite wrapS_small by (simpl; lia). replace (Z.sgn x) with (-1) by lia. lia.
  - rewrite Z.abs_eq in * by lia. destruct (Hdiv x) as [-> Hr]; [lia|lia|].
    rewrite wrapS_small by (simpl; lia).
    destruct (Z.eq_dec x 0) as [->|Hnz].
    + simpl. rewrite Z.div_small; [reflexivity|]. split; [lia|]. apply Z.div_lt_upper_bound; lia.
    + replace (Z.sgn x) with 1 by lia. lia.
Qed.

(* ---------------------------------------------------------------- what start_pass_fdctmgr + quantize compute *)
Definition cfg_ok (cf : cfg) : Prop :=
  (c_bits cf = 8 /\ (c_dw cf = 16 \/ c_dw cf = 32) /\ (c_mw cf = 16 \/ c_mw cf = 32)) \/
  (c_bits cf = 12 /\ (c_dw cf = 32 \/ c_dw cf = 64) /\ c_mw cf = 32).

(* largest coefficient magnitude for which the statement is made *)
Definition coef_max (cf : cfg) : Z := if c_bits cf =? 8 then 32767 else 262135.

Theorem quantize_is_rdiv_proof : forall cf q, cfg_ok cf -> 1 <= q <= 65535 ->
  exists dv, start_pass_divisor cf q = Some dv /\
    forall x, - coef_max cf <= x <= coef_max cf -> quantize_one cf dv x = rdiv x (8 * q).
Proof.
  intros cf q Hok Hq. unfold start_pass_divisor, coef_max.
  destruct Hok as [[Hb [HW _]]|[Hb [HW _]]]; rewrite Hb; cbn [Z.eqb Pos.eqb].
  - destruct (divisor_faithful_proof q Hq) as [Hd Hf].
    destruct (reciprocal_exact_proof cf (scaled_divisor q) HW Hd) as [rc [-> Hrc]].
    exists (DRecip rc). split; [reflexivity|]. intros x Hx. cbn [quantize_one].
    rewrite Hrc by exact Hx. apply Hf; exact Hx.
  - exists (DDiv (wrapS (c_dw cf) (Z.shiftl q divisor_shift_12))). split; [reflexivity|].
    intros x Hx. cbn [quantize_one]. change divisor_shift_12 with 3.
    rewrite Z.shiftl_mul_pow2 by lia. change (2 ^ 3) with 8.
    rewrite wrapS_small by (destruct HW as [->| ->]; simpl; lia).
    replace (q * 8) with (8 * q) by lia.
    apply quantize_div_exact; [lia|].
    assert (8 * q / 2 = 4 * q) by (replace (8 * q) with (4 * q * 2) by lia; apply Z.div_mul; lia). lia.
Qed.

(* coef_error_bound: the dequantised coefficient Q*q is within q/2 of F/8 *)
Theorem coef_error_bound_proof : forall cf q, cfg_ok cf -> 1 <= q <= 65535 ->
  exists dv, start_pass_divisor cf q = Some dv /\
    forall x, - coef_max cf <= x <= coef_max cf ->
      2 * Z.abs (quantize_one cf dv x * (8 * q) - x) <= 8 * q.
Proof.
  intros cf q Hok Hq. destruct (quantize_is_rdiv_proof cf q Hok Hq) as [dv [Hs Hx]].
  exists dv. split; [exact Hs|]. intros x Hxr. rewrite Hx by exact Hxr. apply rdiv_error. lia.
Qed.
