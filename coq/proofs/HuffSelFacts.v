(* HuffSelFacts.v -- the table-selection / sent_table / storage-class facts of
   the current sources (gen/GenHuffSel.v) are the ones model/HuffSel.v states. *)
From Coq Require Import List String Bool.
From LJT Require Import model.HuffSel gen.GenHuffSel.
Import ListNotations.

Theorem source_table_selection :
  selection_consistent gen_table_selection = true /\
  Nat.leb 40 (List.length gen_table_selection) = true /\
  gen_sent_table_writers = expected_sent_table_writers /\
  gen_genopt_work_arrays = expected_genopt_work_arrays /\
  gen_genopt_static_locals = 0%nat.
Proof. repeat split; vm_compute; reflexivity. Qed.
