(* C09 -- first stage of "decode_mcu_fast = decode_mcu_slow": the logical bit stream
     L(get_buffer, bits_left, unread bytes) = the bits_left low bits of get_buffer, MSB first,
                                              followed by the bits of the unread bytes after un-stuffing
   for the Z-register models of SuspendHuff.v (slow: br, fill_go; fast: fbr, fget_byte, ffill).
   The register lemmas are those of C02's numeric bit register (model/LosslessBitReg.v,
   proofs/LosslessBitRegProofs.v, imported read-only), transported to the arithmetic form
   (gb * 256 + c) mod 2^64 / Z.land (Z.shiftr gb (bl - n)) (2^n - 1) used by the C09 models.        *)
From Coq Require Import List ZArith Lia Bool.
From LJT Require Import model.SuspendCore model.SuspendMarker model.SuspendHuff.
From LJT Require Import model.Huff model.Lossless model.LosslessBytes model.LosslessLazy model.LosslessBitReg
  proofs.LosslessProofs proofs.LosslessBytesProofs proofs.LosslessBitRegProofs.
Import ListNotations.
Local Open Scope Z_scope.

(* data bytes of a buffer up to its first marker (FF xx, xx <> 0) or dangling FF: FF 00 -> FF *)
Fixpoint ustream (l : list byte) : list byte :=
  match l with
  | [] => []
  | c :: t =>
    if c =? 255 then
      match t with
      | c1 :: t' => if c1 =? 0 then 255 :: ustream t' else []
      | [] => []
      end
    else c :: ustream t
  end.

(* a buffer without markers: bytes, and every FF is followed by 00 *)
Fixpoint plain (l : list byte) : bool :=
  match l with
  | [] => true
  | c :: t =>
    (0 <=? c) && (c <? 256) &&
    (if c =? 255 then match t with c1 :: t' => (c1 =? 0) && plain t' | [] => false end else plain t)
  end.

(* the logical bit stream *)
Definition Lstream (g l : Z) (unread : list byte) : list bool :=
  reg_bits (g, l) ++ bits_of_bytes (ustream unread).

(* ------------------------------------------------------------ the three register lemmas *)
(* append: "get_buffer = (get_buffer << 8) | c; bits_left += 8" in the form of the C09 models *)
Lemma reg_append : forall g l c, reg_inv (g, l) -> l + 8 <= 64 -> 0 <= c < 256 ->
  reg_bits ((g * 256 + c) mod W64, l + 8) = reg_bits (g, l) ++ Lossless.bits_of 8 c /\
  reg_inv ((g * 256 + c) mod W64, l + 8).
Proof.
  intros g l c [Hg Hb] H8 Hc. cbn [fst snd] in *. split.
  - unfold reg_bits. cbn [fst snd].
    replace (Z.to_nat (l + 8)) with (Z.to_nat l + 8)%nat by lia.
    unfold W64. change 18446744073709551616 with (2 ^ Z.of_nat 64).
    rewrite bits_of_low by (unfold BIT_BUF_SIZE in *; lia).
    change 256 with (2 ^ Z.of_nat 8). apply bits_of_join. cbn. lia.
  - split; cbn [fst snd]; unfold BIT_BUF_SIZE in *; [|lia].
    unfold W64. change (2 ^ 64) with 18446744073709551616. apply Z.mod_pos_bound. lia.
Qed.

(* peek: PEEK_BITS(n) of the C09 models is the value of the first n logical bits *)
Lemma peek_is_reg_peek : forall g l n, 0 <= n <= 31 ->
  Z.land (Z.shiftr g (l - n)) (2 ^ n - 1) = reg_peek (g, l) n.
Proof.
  intros g l n Hn. rewrite reg_peek_mod by lia. cbn [fst snd].
  replace (2 ^ n - 1) with (Z.ones n) by (rewrite Z.ones_equiv; lia).
  apply Z.land_ones. lia.
Qed.

Lemma reg_peek_value : forall g l n, reg_inv (g, l) -> 0 <= n <= l -> n <= 31 ->
  Lossless.get_bits (Z.to_nat n) 0 (reg_bits (g, l)) =
  Some (Z.land (Z.shiftr g (l - n)) (2 ^ n - 1), reg_bits (g, l - n)).
Proof.
  intros g l n I Hn H31. rewrite peek_is_reg_peek by lia.
  exact (proj1 (reg_get_spec (g, l) n I Hn H31)).
Qed.

(* drop: DROP_BITS(n) removes the first n logical bits *)
Lemma reg_drop_bits : forall g l n, 0 <= n <= l ->
  reg_bits (g, l - n) = skipn (Z.to_nat n) (reg_bits (g, l)) /\ (reg_inv (g, l) -> reg_inv (g, l - n)).
Proof.
  intros g l n Hn. split.
  - unfold reg_bits. cbn [fst snd].
    replace (Z.to_nat l) with (Z.to_nat n + Z.to_nat (l - n))%nat by lia.
    rewrite bits_of_app. rewrite skipn_app, skipn_all2 by (rewrite LosslessBytesProofs.bits_of_length; lia).
    rewrite LosslessBytesProofs.bits_of_length, Nat.sub_diag. reflexivity.
  - intros [Hg Hb]. split; cbn [fst snd] in *; unfold BIT_BUF_SIZE in *; lia.
Qed.

(* ------------------------------------------------------------ the slow fill preserves L *)
Definition plain_ff (ff : bool) (r : list byte) : bool := if ff then plain (255 :: r) else plain r.
Definition ustream_ff (ff : bool) (r : list byte) : list byte := if ff then ustream (255 :: r) else ustream r.

Lemma fill_go_L : forall r g l ff g' l' r', reg_inv (g, l) -> l < SuspendHuff.MIN_GET_BITS -> plain_ff ff r = true ->
  fill_go r g l ff = FFull g' l' r' ->
  reg_bits (g', l') ++ bits_of_bytes (ustream r') = reg_bits (g, l) ++ bits_of_bytes (ustream_ff ff r) /\
  reg_inv (g', l') /\ plain r' = true.
Proof.
  unfold SuspendHuff.MIN_GET_BITS.
  induction r as [|c r IH]; intros g l ff g' l' r' I Hl P H; simpl in H; [discriminate|].
  unfold SuspendHuff.MIN_GET_BITS in H.
  destruct ff.
  - (* after an FF: plain says c = 0 *)
    assert (P' : (c =? 0) = true /\ plain r = true) by (simpl in P; apply andb_true_iff in P; exact P).
    destruct P' as [C0 Pr].
    apply Z.eqb_eq in C0. subst c. simpl in H.
    destruct (reg_append g l 255 I ltac:(lia) ltac:(lia)) as [A1 A2].
    destruct (l + 8 <? 57) eqn:E.
    + apply Z.ltb_lt in E. destruct (IH _ _ false _ _ _ A2 E Pr H) as (B1 & B2 & B3).
      split; [|auto]. rewrite B1, A1. simpl ustream_ff. simpl ustream.
      unfold bits_of_bytes. simpl flat_map. now rewrite <- app_assoc.
    + inversion H; subst. split; [|auto]. rewrite A1. simpl. unfold bits_of_bytes. simpl flat_map. now rewrite <- app_assoc.
  - simpl in P. rewrite !andb_true_iff in P. destruct P as [[C1 C2] P]. apply Z.leb_le in C1. apply Z.ltb_lt in C2.
    destruct (c =? 255) eqn:C.
    + (* FF: the next byte must be the stuffed zero *)
      apply Z.eqb_eq in C. subst c.
      destruct r as [|c1 t]; [discriminate|]. apply andb_true_iff in P. destruct P as [C0 Pt].
      assert (Pf : plain_ff true (c1 :: t) = true).
      { simpl. apply Z.eqb_eq in C0. subst c1. simpl. exact Pt. }
      destruct (IH g l true g' l' r' I Hl Pf H) as (B1 & B2 & B3). auto.
    + destruct (reg_append g l c I ltac:(lia) ltac:(lia)) as [A1 A2].
      destruct (l + 8 <? 57) eqn:E.
      * apply Z.ltb_lt in E. destruct (IH _ _ false _ _ _ A2 E P H) as (B1 & B2 & B3).
        split; [|auto]. rewrite B1, A1. simpl. rewrite C. unfold bits_of_bytes. simpl flat_map. now rewrite <- app_assoc.
      * inversion H; subst. split; [|auto]. rewrite A1. simpl. rewrite C. unfold bits_of_bytes. simpl flat_map. now rewrite <- app_assoc.
Qed.

Theorem slow_fill_preserves_L : forall r g l g' l' r', reg_inv (g, l) -> l < SuspendHuff.MIN_GET_BITS -> plain r = true ->
  fill_go r g l false = FFull g' l' r' ->
  Lstream g' l' r' = Lstream g l r /\ reg_inv (g', l') /\ plain r' = true.
Proof. intros. unfold Lstream. exact (fill_go_L r g l false g' l' r' H H0 H1 H2). Qed.

(* on a buffer without markers the slow fill never reports a marker *)
Lemma fill_go_no_marker : forall r g l ff c g' l' r', plain_ff ff r = true -> fill_go r g l ff <> FMarker c g' l' r'.
Proof.
  induction r as [|c0 r IH]; intros g l ff c g' l' r' P H; simpl in H; [discriminate|].
  destruct ff.
  - assert (P' : (c0 =? 0) = true /\ plain r = true) by (simpl in P; apply andb_true_iff in P; exact P).
    destruct P' as [C0 Pr].
    apply Z.eqb_eq in C0. subst c0. simpl in H.
    destruct (l + 8 <? SuspendHuff.MIN_GET_BITS); [exact (IH _ _ false _ _ _ _ Pr H) | discriminate].
  - simpl in P. rewrite !andb_true_iff in P. destruct P as [_ P].
    destruct (c0 =? 255) eqn:C.
    + destruct r as [|c1 t]; [discriminate|]. apply andb_true_iff in P. destruct P as [C0 Pt].
      apply (IH g l true c g' l' r'); [|exact H]. simpl. apply Z.eqb_eq in C0. subst c1. simpl. exact Pt.
    + destruct (l + 8 <? SuspendHuff.MIN_GET_BITS); [exact (IH _ _ false _ _ _ _ P H) | discriminate].
Qed.

(* ------------------------------------------------------------ the fast fill preserves L *)
Definition Lfast (b : fbr) : list bool := Lstream (f_gb b) (f_bl b) (f_rest b).

Lemma fget_byte_L : forall b b', reg_inv (f_gb b, f_bl b) -> f_bl b + 8 <= 64 -> plain (f_rest b) = true ->
  fget_byte b = Some (tt, b') ->
  Lfast b' = Lfast b /\ reg_inv (f_gb b', f_bl b') /\ plain (f_rest b') = true /\
  f_bl b' = f_bl b + 8 /\ f_mark b' = f_mark b.
Proof.
  intros b b' I H8 P H. unfold fget_byte in H. unfold Lfast, Lstream.
  destruct (f_rest b) as [|c0 r] eqn:R; [discriminate|].
  simpl in P. rewrite !andb_true_iff in P. destruct P as [[C1 C2] P]. apply Z.leb_le in C1. apply Z.ltb_lt in C2.
  destruct (c0 =? 255) eqn:C.
  - destruct r as [|c1 t]; [discriminate|]. apply andb_true_iff in P. destruct P as [C0 Pt].
    rewrite C0 in H. inversion H; subst; clear H. cbn [f_gb f_bl f_rest f_mark].
    destruct (reg_append (f_gb b) (f_bl b) 255 I H8 ltac:(lia)) as [A1 A2].
    split; [|split; [exact A2|split; [exact Pt|split; reflexivity]]].
    rewrite A1. simpl ustream. rewrite C, C0. unfold bits_of_bytes. simpl flat_map. now rewrite <- app_assoc.
  - inversion H; subst; clear H. cbn [f_gb f_bl f_rest f_mark].
    destruct (reg_append (f_gb b) (f_bl b) c0 I H8 ltac:(lia)) as [A1 A2].
    split; [|split; [exact A2|split; [exact P|split; reflexivity]]].
    rewrite A1. simpl ustream. rewrite C. unfold bits_of_bytes. simpl flat_map. now rewrite <- app_assoc.
Qed.

Theorem fast_fill_preserves_L : forall b b', reg_inv (f_gb b, f_bl b) -> 0 <= f_bl b -> plain (f_rest b) = true ->
  ffill b = Some (tt, b') ->
  Lfast b' = Lfast b /\ reg_inv (f_gb b', f_bl b') /\ plain (f_rest b') = true /\ f_mark b' = f_mark b.
Proof.
  intros b b' I H0 P H. unfold ffill in H.
  destruct (f_bl b <=? FAST_FILL_THRESHOLD) eqn:T; [|inversion H; subst; auto].
  apply Z.leb_le in T. unfold FAST_FILL_THRESHOLD in T. unfold fbind in H.
  destruct (fget_byte b) as [[[] b1]|] eqn:E1; [|discriminate].
  destruct (fget_byte_L _ _ I ltac:(lia) P E1) as (L1 & I1 & P1 & B1 & M1).
  destruct (fget_byte b1) as [[[] b2]|] eqn:E2; [|discriminate].
  destruct (fget_byte_L _ _ I1 ltac:(lia) P1 E2) as (L2 & I2 & P2 & B2 & M2).
  destruct (fget_byte b2) as [[[] b3]|] eqn:E3; [|discriminate].
  destruct (fget_byte_L _ _ I2 ltac:(lia) P2 E3) as (L3 & I3 & P3 & B3 & M3).
  destruct (fget_byte b3) as [[[] b4]|] eqn:E4; [|discriminate].
  destruct (fget_byte_L _ _ I3 ltac:(lia) P3 E4) as (L4 & I4 & P4 & B4 & M4).
  destruct (fget_byte b4) as [[[] b5]|] eqn:E5; [|discriminate].
  destruct (fget_byte_L _ _ I4 ltac:(lia) P4 E5) as (L5 & I5 & P5 & B5 & M5).
  destruct (fget_byte_L _ _ I5 ltac:(lia) P5 H) as (L6 & I6 & P6 & B6 & M6).
  split; [congruence|]. split; [exact I6|]. split; [exact P6|congruence].
Qed.

(* FILL_BIT_BUFFER_FAST and the slow fill, started from the same register and the same marker-free
   unread bytes, leave the same logical bit stream (they differ only in how much of it is in the register) *)
Theorem fills_agree_on_L : forall g l r g1 l1 r1 b2,
  reg_inv (g, l) -> 0 <= l < SuspendHuff.MIN_GET_BITS -> plain r = true ->
  fill_go r g l false = FFull g1 l1 r1 ->
  ffill {| f_gb := g; f_bl := l; f_rest := r; f_mark := 0 |} = Some (tt, b2) ->
  Lstream g1 l1 r1 = Lfast b2 /\ f_mark b2 = 0.
Proof.
  intros g l r g1 l1 r1 b2 I Hl P Hs Hf.
  destruct (slow_fill_preserves_L r g l g1 l1 r1 I ltac:(lia) P Hs) as (S1 & _ & _).
  destruct (fast_fill_preserves_L {| f_gb := g; f_bl := l; f_rest := r; f_mark := 0 |} b2 I ltac:(simpl; lia) P Hf) as (F1 & _ & _ & F4).
  split; [|exact F4]. rewrite S1, F1. reflexivity.
Qed.

(* non-vacuity: a buffer with a stuffed FF; both fills run and agree *)
Example ex_fills_agree :
  let r := [18; 255; 0; 52; 86; 120; 154; 188; 222; 240; 1; 2]%Z in
  plain r = true /\
  match fill_go r 5 3 false, ffill {| f_gb := 5; f_bl := 3; f_rest := r; f_mark := 0 |} with
  | FFull g1 l1 r1, Some (_, b2) => if list_eq_dec Bool.bool_dec (Lstream g1 l1 r1) (Lfast b2) then l1 <> f_bl b2 else False
  | _, _ => False
  end.
Proof. vm_compute. split; [reflexivity | discriminate]. Qed.
