(* Non-vacuity instances of C03, computed once here (cached .vo); props/C03.v only refers to them. *)
From Coq Require Import List ZArith Bool.
From LJT Require Import model.Huff model.Seq model.Prog model.Script model.ArithBin
  proofs.NatOrderProofs proofs.SeqBits proofs.SeqProofs proofs.ProgProofs proofs.ScriptProofs proofs.ExampleCodec.
Import ListNotations.
Local Open Scope Z_scope.

Lemma ex_C03_seq_block_nonvacuous :
  exists bits, enc_block fix8 fix8 10 5 ex_block = Some bits /\ length bits = 78%nat /\
    dec_block fix8 fix8 5 (bits ++ [true; false; true]) = Some (ex_block, [true; false; true]).
Proof. eexists. split; [vm_compute; reflexivity|]. split; vm_compute; reflexivity. Qed.

Lemma ex_C03_seq_scan_nonvacuous :
  let ms := [[ex_block; ex_block2; ex_block3]; [ex_block3; ex_block3; ex_block]; [ex_block2; ex_block; ex_block];
             [ex_block; ex_block; ex_block2]; [ex_block3; ex_block2; ex_block2]] in
  exists bytes, seq_enc_scan (fun _ => fix8) (fun _ => fix8) 10 [0; 0; 1]%nat 2 2 ms = Some bytes /\
    In 255 bytes /\ seq_dec_scan (fun _ => fix8) (fun _ => fix8) [0; 0; 1]%nat 2 2 5 bytes = Some ms.
Proof.
  eexists. split; [vm_compute; reflexivity|]. split; [|vm_compute; reflexivity].
  vm_compute. tauto.
Qed.

Lemma ex_C03_script_nonvacuous :
  let sc := [ {| s_comps := [0; 1; 2]; s_Ss := 0; s_Se := 0; s_Ah := 0; s_Al := 1 |};
              {| s_comps := [0]; s_Ss := 1; s_Se := 5; s_Ah := 0; s_Al := 2 |};
              {| s_comps := [2]; s_Ss := 1; s_Se := 63; s_Ah := 0; s_Al := 1 |};
              {| s_comps := [1]; s_Ss := 1; s_Se := 63; s_Ah := 0; s_Al := 1 |};
              {| s_comps := [0]; s_Ss := 6; s_Se := 63; s_Ah := 0; s_Al := 2 |};
              {| s_comps := [0]; s_Ss := 1; s_Se := 63; s_Ah := 2; s_Al := 1 |};
              {| s_comps := [0; 1; 2]; s_Ss := 0; s_Se := 0; s_Ah := 1; s_Al := 0 |};
              {| s_comps := [2]; s_Ss := 1; s_Se := 63; s_Ah := 1; s_Al := 0 |};
              {| s_comps := [1]; s_Ss := 1; s_Se := 63; s_Ah := 1; s_Al := 0 |};
              {| s_comps := [0]; s_Ss := 1; s_Se := 63; s_Ah := 1; s_Al := 0 |} ] in
  exists st, validate_script 3 8 sc = inr (Progressive, st) /\ script_complete st = true.
Proof. eexists. split; vm_compute; reflexivity. Qed.

Lemma ex_C03_arith_nonvacuous :
  let next := fun (st : Z) (s : list decision) =>
                match s with (st', b) :: t => if st =? st' then Some (b, t) else None | [] => None end in
  (forall s st b ds, s = (st, b) :: ds -> exists s', next st s = Some (b, s') /\ s' = ds) /\
  dec_dc_arith (list decision) next 4 0 1 (fst (enc_dc_arith 4 0 1 (-32767)) ++ [(7, true)])
    = Some (-32767, snd (enc_dc_arith 4 0 1 (-32767)), [(7, true)]).
Proof.
  split.
  - intros s st b ds ->. exists ds. cbn. rewrite Z.eqb_refl. split; reflexivity.
  - vm_compute. reflexivity.
Qed.

(* arithmetic coding with the concrete QM coder: a DC difference, the AC coefficients of ex_block
   (first scan 1..63, Al = 0) and a refinement of ex_block at Al = 1, coded into real bytes and decoded *)
From LJT Require Import model.T81Arith proofs.ArithQMProofs.
Definition arith_example_check : bool :=
  let '(dcd, ctx') := enc_dc_arith 4 0 1 (-1000) in
  let acd := enc_acf_block_a 5 1 63 0 ex_block in
  let hist := acr_expected 1 63 2 ex_block (repeat 0 64) in
  let rfd := enc_acr_block_a 1 63 1 2 ex_block in
  let bytes := qm_encode_all (dcd ++ acd ++ rfd) in
  match dec_dc_arith qdec qm_decode 4 0 1 (qm_init_dec bytes) with
  | Some (v, c, q1) =>
      match dec_acf_a qdec qm_decode 5 63 0 130 1 true (repeat 0 64) q1 with
      | Some (blk, q2) =>
          match dec_acr_a qdec qm_decode 63 1 65 1 true hist q2 with
          | Some (blk2, _) =>
              (v =? -1000) && (c =? ctx') && list_eqb Z.eqb blk (0 :: skipn 1 ex_block)
              && list_eqb Z.eqb blk2 (acr_expected 1 63 1 ex_block hist) && (10 <? length bytes)%nat
          | None => false
          end
      | None => false
      end
  | None => false
  end.
Lemma ex_arith_qm : arith_example_check = true.
Proof. vm_compute. reflexivity. Qed.
