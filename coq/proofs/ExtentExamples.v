(* C11 -- concrete, non-trivial instances (non-vacuity of the hypotheses of the theorems). *)
From Coq Require Import List ZArith Lia Bool ZifyBool.
From LJT Require Import model.Extent model.ExtentApi gen.GenAlign gen.GenTail proofs.ExtentProofs proofs.ExtentYuvProofs.
Import ListNotations.
Local Open Scope Z_scope.
Ltac Zify.zify_post_hook ::= Z.div_mod_to_equations.

(* 7x3 RGB (ps 3) 8-bit image, pitch 29, bottom-up: rows at 58, 29, 0, 21 bytes each *)
Lemma ex_packed :
  1 <= 7 /\ 1 <= 3 /\ row_valid 7 29 3 /\
  packed_accesses W 7 29 3 3 1 true = [mkAcc 0 58 21 W; mkAcc 0 29 21 W; mkAcc 0 0 21 W] /\
  packed_accesses R 5 0 2 4 2 false = [mkAcc 0 0 40 R; mkAcc 0 40 40 R].
Proof. unfold row_valid. repeat split; try lia; reflexivity. Qed.

(* 21 RGBX pixels through the AVX2 epilogue: 64 + 16 + 4 bytes; 21 RGB pixels through the
   SSE2 one: one full iteration (48) then 8 + 4 + 2 + 1 *)
Lemma ex_tail :
  In jdcolext_avx2_st4 gen_st_kernels /\ In jdmrgext_sse2_st3 gen_st_kernels /\
  st_row_stores jdcolext_avx2_st4 21 = Some [(0,32); (32,32); (64,16); (80,4)] /\
  st_row_stores jdmrgext_sse2_st3 21 = Some [(0,16); (16,16); (32,16); (48,8); (56,4); (60,2); (62,1)] /\
  In jccolext_avx2_ld3 gen_ld_kernels /\
  ld_row_loads jccolext_avx2_ld3 43 = Some [(0,32); (32,32); (64,32); (128,1); (96,32)].
Proof. repeat split; try reflexivity; cbn; tauto. Qed.

(* a mutated epilogue (a 32-byte store where 16 bytes remain) is rejected by the side condition *)
Lemma ex_tail_mutant_rejected :
  st_kernel_ok (mkStK 32 4 1 [(0,32); (32,32); (64,32); (96,32)]
    [ mkSt 16 [(0,32); (32,32)] 64 16 0; mkSt 8 [(0,32)] 32 8 0; mkSt 4 [(0,32)] 16 4 0;
      mkSt 2 [(0,8)] 8 2 0; mkSt 1 [(0,4)] 4 1 0 ]) = false.
Proof. vm_compute. reflexivity. Qed.

Lemma ex_internal :
  simd_touched sizeof_ymmword 33 = 64 /\ sarray_row_len align_size_simd 1 33 = 64 /\
  simd_touched sizeof_xmmword 129 = 144 /\ sarray_row_len align_size_simd 1 129 = 192.
Proof. repeat split; reflexivity. Qed.

(* 4:2:0, 5x3 image: luma plane 6x4, chroma planes 3x2; tj3EncodeYUVPlanes8 with stride 8 *)
Lemma ex_yuv :
  ss_valid 2 1 /\ stride_valid 8 (plane_w 0 5 2) /\
  plane_w 0 5 2 = 6 /\ plane_h 0 3 2 = 4 /\ plane_w 1 5 2 = 3 /\ plane_h 1 3 2 = 2 /\
  encdec_plane W 0 5 3 2 8 = [mkAcc 0 0 6 W; mkAcc 0 8 6 W; mkAcc 0 16 6 W; mkAcc 0 24 6 W] /\
  rawdata_plane W 1 5 3 2 0 8 = [mkAcc 1 0 3 W; mkAcc 1 3 3 W] /\
  plane_size 0 5 8 3 2 = 30 /\ yuv_buf_size 5 4 3 2 = 48.
Proof. unfold ss_valid, stride_valid. repeat split; try reflexivity; cbn; lia. Qed.

Lemma ex_call :
  valid_call (CallDecompress 33 17 1 2 (mkRegion 8 2 9 5) 40 4 1 true) /\
  length (model_trace (CallDecompress 33 17 1 2 (mkRegion 8 2 9 5) 40 4 1 true)) = 5%nat /\
  valid_call (CallEncodeYUVPlanes 5 0 3 3 false 2 [8; 0; 5]) /\
  length (model_trace (CallEncodeYUVPlanes 5 0 3 3 false 2 [8; 0; 5])) = 11%nat /\
  set_crop 33 17 1 2 16 (mkRegion 8 2 0 5) = Some (mkRegion 8 2 9 5).
Proof.
  cbn [valid_call]. unfold crop_ok, pitch_ok, strides_ok.
  split. { repeat split; try lia.
    - right. unfold tjscaled. cbn [r_x r_y r_w r_h]. lia.
    - right. unfold dec_out_w, tjscaled. cbn. lia. }
  split; [reflexivity|]. split.
  { repeat split; try lia. intros c Hc. change (ncomp 2) with 3 in Hc.
    assert (c = 0 \/ c = 1 \/ c = 2) as [->|[->| ->]] by lia.
    - right. vm_compute. discriminate.
    - left. reflexivity.
    - right. vm_compute. discriminate. }
  split; reflexivity.
Qed.
