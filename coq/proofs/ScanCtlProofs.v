(* C03: (a) jcarith.c finish_pass stuffs every flushed byte that can be 0xFF and drops trailing zero bytes
   with the masks of D.1.8 -- generated facts -- and the models' interval bytes are the stuffed QM bytes;
   (b) a Huffman-coded block never exceeds BUFSIZE bytes, so the lookahead jdhuff.c decode_mcu demands
   for its unchecked fast path, BUFSIZE * blocks_in_MCU (generated fact), covers any MCU. *)
From Coq Require Import List ZArith Lia Bool.
From LJT Require Import model.Huff model.Seq model.ArithBin model.T81Arith gen.GenScanCtl proofs.SeqBits proofs.SeqProofs.
Import ListNotations.
Local Open Scope Z_scope.

Lemma source_arith_flush :
  gen_fin_sites = [(1, true); (2, false); (3, true); (4, true); (5, true)] /\
  forallb (fun s => (fst s =? 2) || snd s) gen_fin_sites = true /\
  gen_fin_round_mask = 65535 * 65536 /\ gen_fin_round_add = 32768 /\ gen_fin_overflow_mask = 31 * 2 ^ 27 /\
  gen_fin_bytes_mask = (2 ^ 16 - 1) * 2 ^ 11 /\ gen_fin_second_mask = 255 * 2 ^ 11 /\
  gen_restart_runs_finish_pass = true /\
  (* the models: an interval's bytes are the QM bytes (flush included) with EVERY 0xFF stuffed, so the
     decoder's segment loader recovers them in front of any marker *)
  (forall ds tail, marker_start tail -> load_seg (stuff (qm_encode_all ds) ++ tail) = (qm_encode_all ds, tail)).
Proof.
  repeat split. intros ds tail H. now apply load_seg_stuff.
Qed.

Lemma rep_bits_length z : forall n, length (rep_bits n z) = (n * length z)%nat.
Proof. induction n; cbn; [reflexivity|]. rewrite app_length. lia. Qed.

Section Size.
Variable dc ac : codec.
Variable mcb : Z.
Hypothesis mcb_le : mcb <= 15.
Hypothesis ac_len : forall s bs, c_enc ac s = Some bs -> (length bs <= 16)%nat.
Hypothesis dc_len : forall s bs, c_enc dc s = Some bs -> (length bs <= 16)%nat.

Lemma enc_band_len : forall l r bits r', 0 <= r -> enc_band ac mcb l r = Some (bits, r') ->
  Z.of_nat (length bits) <= 31 * Z.of_nat (length l) + r.
Proof.
  induction l as [|v t IH]; intros r bits r' Hr He.
  - cbn in He. injection He as <- <-. cbn. lia.
  - cbn [enc_band] in He. destruct (v =? 0) eqn:Ev.
    + specialize (IH (r + 1) bits r' ltac:(lia) He). cbn [length]. lia.
    + apply Z.eqb_neq in Ev. destruct (nbits (Z.abs v) >? mcb) eqn:En; [discriminate|].
      rewrite Z.gtb_ltb in En. apply Z.ltb_ge in En.
      destruct (if r >=? 16 then c_enc ac 240 else Some []) as [z|] eqn:Ez; [|discriminate].
      destruct (c_enc ac (r mod 16 * 16 + nbits (Z.abs v))) as [c|] eqn:Ec; [|discriminate].
      destruct (enc_band ac mcb t 0) as [[rest0 r0]|] eqn:Et; [|discriminate]. injection He as <- <-.
      specialize (IH 0 rest0 r0 ltac:(lia) Et). pose proof (ac_len _ _ Ec) as Hc.
      assert (Hz : (length z <= 16)%nat) by (destruct (r >=? 16); [exact (ac_len _ _ Ez)|injection Ez as <-; cbn; lia]).
      pose proof (nbits_nonneg (Z.abs v)) as Hn0.
      rewrite !app_length, rep_bits_length. unfold mag_bits. rewrite length_bits_of. cbn [length].
      assert (Hq : 16 * (r / 16) <= r) by (apply Z.mul_div_le; lia). assert (Hq0 : 0 <= r / 16) by (apply Z.div_pos; lia).
      rewrite !Nat2Z.inj_add, Nat2Z.inj_mul, !Z2Nat.id by lia.
      assert (Hm : r / 16 * Z.of_nat (length z) <= r / 16 * 16) by (apply Z.mul_le_mono_nonneg_l; lia).
      rewrite Nat2Z.inj_succ. lia.
Qed.

Lemma enc_ac_len l bits : enc_ac ac mcb l = Some bits -> Z.of_nat (length bits) <= 31 * Z.of_nat (length l) + 16.
Proof.
  unfold enc_ac. intros He. destruct (enc_band ac mcb l 0) as [[bb r]|] eqn:Eb; [|discriminate].
  pose proof (enc_band_len l 0 bb r (Z.le_refl 0) Eb) as Hbb.
  destruct (r >? 0).
  - destruct (c_enc ac 0) as [e|] eqn:Ee; [|discriminate]. injection He as <-. pose proof (ac_len _ _ Ee).
    rewrite app_length, Nat2Z.inj_add. lia.
  - injection He as <-. lia.
Qed.

Lemma enc_dc_len d bits : enc_dc_diff dc mcb d 1 = Some bits -> Z.of_nat (length bits) <= 32.
Proof.
  unfold enc_dc_diff. intros He. destruct (nbits (Z.abs d) >? mcb + 1) eqn:En; [discriminate|].
  rewrite Z.gtb_ltb in En. apply Z.ltb_ge in En.
  destruct (c_enc dc (nbits (Z.abs d))) as [c|] eqn:Ec; [|discriminate]. injection He as <-.
  pose proof (dc_len _ _ Ec). pose proof (nbits_nonneg (Z.abs d)).
  rewrite app_length. unfold mag_bits. rewrite length_bits_of, Nat2Z.inj_add, Z2Nat.id by lia. lia.
Qed.

(* jchuff.c encode_one_block: at most 2048 bits = BUFSIZE / 2 data bytes, BUFSIZE bytes with stuffing *)
Theorem block_fits_bufsize last_dc b bits : length b = 64%nat ->
  enc_block dc ac mcb last_dc b = Some bits -> Z.of_nat (length bits) <= 2048.
Proof.
  intros Hb He. unfold enc_block in He.
  destruct (enc_dc_diff dc mcb (nth 0%nat b 0 - last_dc) 1) as [d|] eqn:Ed; [|discriminate].
  destruct (enc_ac ac mcb (skipn 1 (zz_of b))) as [a|] eqn:Ea; [|discriminate]. injection He as <-.
  pose proof (enc_dc_len _ _ Ed) as H1. pose proof (enc_ac_len _ _ Ea) as H2.
  rewrite skipn_length, zz_of_length in H2. change (Z.of_nat (64 - 1)) with 63 in H2.
  rewrite app_length, Nat2Z.inj_add. lia.
Qed.
End Size.

(* the fast-path precondition of jdhuff.c decode_mcu, as found in the source, is the per-block one *)
Lemma source_fast_path : gen_fast_lookahead_per_block = true /\ gen_dhuff_bufsize = 512 /\ 8 * (gen_dhuff_bufsize / 2) = 2048.
Proof. repeat split. Qed.
