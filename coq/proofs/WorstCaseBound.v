(* C13: the hypothesis "every chunk an entropy encoder stores is shorter than BUFSIZE" is a theorem
   for the sequential Huffman encoder with the standard luminance tables and 8-bit coefficients:
   one block costs at most 27 + 63*26 bits; with the bits that may still sit in the 64-bit put
   buffer and a stuffed zero behind every byte that is below jchuff.c BUFSIZE (read from the source). *)
From Coq Require Import List ZArith Bool Lia.
From LJT Require Import gen.GenDest gen.GenStdHuff gen.GenWorstCase model.Huff model.Dest model.WorstCase proofs.NbitsProofs.
Import ListNotations.
Local Open Scope Z_scope.

Lemma bits_of_len : forall s c, length (bits_of s c) = s.
Proof. induction s as [|k IH]; intros c; cbn [bits_of length]; [reflexivity|rewrite IH; reflexivity]. Qed.

Definition all_le16 (t : ctbl) : bool := forallb (fun s => (0 <=? s) && (s <=? 16)) (ehufsi t).

Lemma nth_forallb (f : Z -> bool) l i : forallb f l = true -> f 0 = true -> f (nthZ l i) = true.
Proof.
  intros H H0. unfold nthZ. destruct (Nat.lt_ge_cases i (length l)) as [Hl|Hl].
  - rewrite forallb_forall in H. apply H. apply nth_In. exact Hl.
  - rewrite nth_overflow by exact Hl. exact H0.
Qed.

Lemma encode_sym_len t sym b : all_le16 t = true -> encode_sym t sym = Some b -> Z.of_nat (length b) <= 16.
Proof.
  unfold all_le16, encode_sym. intros H. set (s := nthZ (ehufsi t) (Z.to_nat sym)).
  assert (Hs : (0 <=? s) && (s <=? 16) = true) by (apply (nth_forallb (fun s => (0 <=? s) && (s <=? 16))); [exact H|reflexivity]).
  apply andb_true_iff in Hs as (H1 & H2). apply Z.leb_le in H1, H2.
  destruct (s =? 0); [discriminate|]. intros E. inversion E; subst. rewrite bits_of_len. lia.
Qed.

Lemma cat_opt_some a b c : cat_opt a b = Some c -> exists x y, a = Some x /\ b = Some y /\ c = x ++ y.
Proof. destruct a as [x|], b as [y|]; cbn; intros H; try discriminate. inversion H. eauto. Qed.

Lemma rep_opt_len t n c b : all_le16 t = true -> rep_opt n (encode_sym t c) = Some b ->
  Z.of_nat (length b) <= 16 * Z.of_nat n.
Proof.
  intros H. revert b. induction n as [|k IH]; intros b E; cbn [rep_opt] in E.
  - inversion E. cbn. lia.
  - destruct (encode_sym t c) as [a|] eqn:Ea; [|discriminate].
    destruct (rep_opt k (Some a)) as [r|] eqn:Er; [|discriminate]. inversion E; subst.
    rewrite app_length. pose proof (encode_sym_len t c a H Ea). specialize (IH r eq_refl). lia.
Qed.

Lemma nbits_le10 v : Z.abs v <= 1023 -> 0 <= nbits (Z.abs v) <= 10.
Proof.
  intros H. destruct (Z.eq_dec (Z.abs v) 0) as [E|E]; [rewrite E; cbn; lia|].
  rewrite nbits_log2 by lia. pose proof (Z.log2_le_mono (Z.abs v) 1023 H). change (Z.log2 1023) with 9 in *.
  pose proof (Z.log2_nonneg (Z.abs v)). lia.
Qed.

Lemma val_bits_len v nb : 0 <= nb -> Z.of_nat (length (val_bits v nb)) = nb.
Proof. intros H. unfold val_bits. rewrite bits_of_len. lia. Qed.

(* AC part: at most 26 bits per remaining coefficient, 16 per pending ZRL, 16 for EOB *)
Lemma enc_ac_len t : all_le16 t = true -> forall l r b, 0 <= r ->
  Forall (fun v => Z.abs v <= 1023) l -> enc_ac t l r = Some b ->
  Z.of_nat (length b) <= 26 * Z.of_nat (length l) + 16 * (r / 16) + 16.
Proof.
  intros H. induction l as [|v tl IH]; intros r b Hr Hall E; cbn [enc_ac] in E.
  - destruct (0 <? r).
    + pose proof (encode_sym_len t 0 b H E). pose proof (Z.div_pos r 16 Hr ltac:(lia)).
      change (Z.of_nat (length (@nil Z))) with 0. lia.
    + inversion E. pose proof (Z.div_pos r 16 Hr ltac:(lia)). change (Z.of_nat (length (@nil Z))) with 0.
      change (Z.of_nat (length (@nil bool))) with 0. lia.
  - inversion Hall as [|x y Hv Htl]; subst. destruct (v =? 0).
    + specialize (IH (r + 1) b ltac:(lia) Htl E). cbn [length]. rewrite Nat2Z.inj_succ.
      assert ((r + 1) / 16 <= r / 16 + 1) by (apply Z.div_le_upper_bound; [lia|]; pose proof (Z.mul_div_le r 16 ltac:(lia)); pose proof (Z.mod_pos_bound r 16 ltac:(lia)); pose proof (Z.div_mod r 16 ltac:(lia)); lia).
      lia.
    + apply cat_opt_some in E as (z & rest & Ez & E & ->).
      apply cat_opt_some in E as (c & rest2 & Ec & E & ->).
      apply cat_opt_some in E as (vb & rest3 & Evb & E & ->).
      inversion Evb; subst vb. clear Evb.
      pose proof (rep_opt_len t _ _ z H Ez) as Lz. rewrite Z2Nat.id in Lz by (apply Z.div_pos; lia).
      pose proof (encode_sym_len t _ c H Ec) as Lc.
      pose proof (nbits_le10 v Hv) as Ln.
      pose proof (val_bits_len v (nbits (Z.abs v)) ltac:(lia)) as Lv.
      specialize (IH 0 rest3 ltac:(lia) Htl E). change (0 / 16) with 0 in IH.
      rewrite !app_length, !Nat2Z.inj_add. cbn [length]. rewrite Nat2Z.inj_succ. lia.
Qed.

Lemma std_tables_le16 : exists dc ac, dc_tbl = Some dc /\ ac_tbl = Some ac /\ all_le16 dc = true /\ all_le16 ac = true.
Proof. vm_compute. eexists. eexists. repeat split. Qed.

(* encode_one_block on given coefficients (natural order) with the standard luminance tables *)
Definition block_bits_of (last_dc : Z) (coefs : list Z) : option (list bool) :=
  match dc_tbl, ac_tbl with
  | Some dc, Some ac => enc_block dc ac last_dc coefs
  | _, _ => None
  end.

Definition coef_ok (last_dc : Z) (coefs : list Z) : Prop :=
  length coefs = 64%nat /\ Z.abs (el coefs 0 - last_dc) <= 2047 /\ Forall (fun v => Z.abs v <= 1023) coefs.

Lemma nbits_le11 v : Z.abs v <= 2047 -> 0 <= nbits (Z.abs v) <= 11.
Proof.
  intros H. destruct (Z.eq_dec (Z.abs v) 0) as [E|E]; [rewrite E; cbn; lia|].
  rewrite nbits_log2 by lia. pose proof (Z.log2_le_mono (Z.abs v) 2047 H). change (Z.log2 2047) with 10 in *.
  pose proof (Z.log2_nonneg (Z.abs v)). lia.
Qed.

Theorem block_bits_bound last_dc coefs bs : coef_ok last_dc coefs ->
  block_bits_of last_dc coefs = Some bs -> Z.of_nat (length bs) <= 27 + 63 * 26 + 16.
Proof.
  intros (Hlen & Hdc & Hall). unfold block_bits_of.
  destruct std_tables_le16 as (dc & ac & -> & -> & Hd & Ha). unfold enc_block. intros E.
  apply cat_opt_some in E as (c & rest & Ec & E & ->).
  apply cat_opt_some in E as (vb & rest2 & Evb & E & ->). inversion Evb; subst vb; clear Evb.
  pose proof (encode_sym_len dc _ c Hd Ec) as Lc.
  pose proof (nbits_le11 _ Hdc) as Ln.
  pose proof (val_bits_len (el coefs 0 - last_dc) _ (proj1 Ln)) as Lv.
  assert (Hzz : Forall (fun v => Z.abs v <= 1023) (map (el coefs) (skipn 1 wc_natural_order))).
  { apply Forall_forall. intros v Hin. apply in_map_iff in Hin as (i & <- & _). unfold el.
    destruct (Nat.lt_ge_cases i (length coefs)) as [Hi|Hi].
    - rewrite Forall_forall in Hall. apply Hall. apply nth_In. exact Hi.
    - rewrite nth_overflow by exact Hi. cbn. lia. }
  pose proof (enc_ac_len ac Ha _ 0 rest2 ltac:(lia) Hzz E) as La.
  rewrite map_length in La. change (length (skipn 1 wc_natural_order)) with 63%nat in La. change (0 / 16) with 0 in La.
  rewrite !app_length, !Nat2Z.inj_add. change (Z.of_nat 63) with 63 in La. lia.
Qed.

(* bytes that can reach the destination while one block is encoded: the block's bits plus up to 63
   bits left in the put buffer, every byte possibly followed by a stuffed zero *)
Definition max_block_chunk : Z := 2 * ((27 + 63 * 26 + 16 + 63 + 7) / 8).

Theorem block_chunk_below_bufsize : max_block_chunk < huff_local_bufsize.
Proof. vm_compute. reflexivity. Qed.
