(* C20 -- proofs about model/YuvCopy.v: every byte the per-plane functions touch lies inside the plane's extent of
   tj3YUVPlaneSize bytes, for every stride (zero, positive, negative, shorter than a row). *)
From Coq Require Import ZArith List Bool Lia ZifyBool.
From LJT Require Import lib.Sweep lib.PadLemmas gen.GenSubsamp model.Geometry model.YuvCopy proofs.GeometryProofs.
Import ListNotations.
Local Open Scope Z_scope.
Local Open Scope bool_scope.

Definition acc_ok (P : Z -> Prop) (a : acc) : Prop :=
  match a with Some l => Forall P l | None => False end.

Lemma acc_ok_app P a b : acc_ok P a -> acc_ok P b -> acc_ok P (acc_app a b).
Proof. destruct a, b; cbn; try tauto. intros. apply Forall_app. split; assumption. Qed.

Lemma acc_ok_nil P : acc_ok P (Some []).
Proof. cbn. constructor. Qed.

(* ---- row pointers ---- *)
Lemma rowptrs_nth n : forall ptr step k, (k < n)%nat -> nth_error (rowptrs n ptr step) k = Some (ptr + Z.of_nat k * step).
Proof.
  induction n as [|n IH]; intros ptr step k Hk; [lia|].
  destruct k as [|k]; cbn [rowptrs nth_error].
  - f_equal. lia.
  - rewrite IH by lia. f_equal. lia.
Qed.

Lemma rowptrs_length n : forall ptr step, length (rowptrs n ptr step) = n.
Proof. induction n; intros; cbn; [reflexivity|]. rewrite IHn. reflexivity. Qed.

Lemma zrange_spec n : forall lo x, In x (zrange lo n) -> lo <= x < lo + Z.of_nat n.
Proof.
  induction n as [|n IH]; intros lo x H; cbn in H; [tauto|].
  destruct H as [<-|H]; [lia|]. specialize (IH _ _ H). lia.
Qed.

(* the extent of a plane with row step e: [plane_lo, plane_lo + |e|*(ph-1) + pw) relative to the plane pointer *)
Definition plane_lo (e ph : Z) : Z := Z.min 0 ((ph - 1) * e).
Definition in_plane (e pw ph : Z) (o : Z) : Prop := plane_lo e ph <= o < plane_lo e ph + (Z.abs e * (ph - 1) + pw).

Lemma sample_in_plane e pw ph r c : 0 <= r < ph -> 0 <= c < pw -> in_plane e pw ph (r * e + c).
Proof.
  intros Hr Hc. unfold in_plane, plane_lo.
  destruct (Z_le_gt_dec 0 e) as [He|He].
  - rewrite Z.abs_eq by lia. assert (0 <= (ph - 1) * e) by nia. rewrite Z.min_l by lia. nia.
  - rewrite Z.abs_neq by lia. assert ((ph - 1) * e <= 0) by nia. rewrite Z.min_r by lia. nia.
Qed.

Lemma row_access_ok e pw ph r len :
  0 <= ph -> 0 <= r < ph -> len <= pw -> acc_ok (in_plane e pw ph) (row_access (rowptrs (Z.to_nat ph) 0 e) r len).
Proof.
  intros Hph Hr Hl. unfold row_access.
  assert (X : r <? 0 = false) by lia. rewrite X.
  rewrite rowptrs_nth by lia. rewrite Z2Nat.id by lia. cbn.
  apply Forall_forall. intros o Ho. apply in_map_iff in Ho. destruct Ho as (c & <- & Hc).
  apply zrange_spec in Hc. replace (0 + r * e + c) with (r * e + c) by lia. apply sample_in_plane; lia.
Qed.

Lemma rows_access_ok P ptrs f len n : forall j,
  (forall k, j <= k < j + Z.of_nat n -> acc_ok P (row_access ptrs (f k) len)) ->
  acc_ok P (rows_access ptrs n j f len).
Proof.
  induction n as [|n IH]; intros j H; cbn [rows_access]; [apply acc_ok_nil|].
  apply acc_ok_app; [apply H; lia|]. apply IH. intros k Hk. apply H. lia.
Qed.

Lemma for_rows_ok P bound step body fuel : forall row,
  0 < step -> bound - row <= Z.of_nat fuel * step ->
  (forall r, row <= r < bound -> (r - row) mod step = 0 -> acc_ok P (body r)) ->
  acc_ok P (for_rows fuel row bound step body).
Proof.
  induction fuel as [|fuel IH]; intros row Hs Hf H; cbn [for_rows].
  - assert (X : row <? bound = false) by lia. rewrite X. apply acc_ok_nil.
  - destruct (row <? bound) eqn:E; [|apply acc_ok_nil].
    apply acc_ok_app.
    + apply H; [lia|]. rewrite Z.sub_diag. apply Z.mod_0_l. lia.
    + apply IH; [assumption|lia|]. intros r Hr Hm. apply H; [lia|].
      replace (r - row) with ((r - (row + step)) + 1 * step) by lia. rewrite Z.mod_add by lia. assumption.
Qed.

(* ---- the row step is the stride the size function assumes ---- *)
Lemma rowstep_abs strides stride pw : 1 <= pw ->
  Z.abs (enc_rowstep strides stride pw) = eff_stride (if strides =? 0 then 0 else stride) pw.
Proof.
  intros Hp. unfold enc_rowstep, eff_stride. destruct (strides =? 0); cbn [negb andb].
  - cbn. lia.
  - destruct (stride =? 0); cbn [negb]; lia.
Qed.

Lemma rowstep_same : dec_rowstep = enc_rowstep /\ dtp_rowstep = enc_rowstep /\ cfp_rowstep = enc_rowstep.
Proof. repeat split; reflexivity. Qed.

(* ---- encode / decode ---- *)
Lemma vsf_cases s : valid_samp s -> comp_vsamp0 s = vsf s /\ dec_vsamp0 s = vsf s /\ (vsf s = 1 \/ vsf s = 2 \/ vsf s = 4).
Proof.
  intros Hs. destruct (vsf_pow2 s Hs) as (j & Hj & Hq & _ & Hv).
  unfold comp_vsamp0, dec_vsamp0. rewrite Hq, Hv.
  assert (j = 0 \/ j = 1 \/ j = 2) as [->|[->| ->]] by lia; cbn; lia.
Qed.

Lemma hsf_cases s : valid_samp s -> comp_hsamp0 s = hsf s /\ dec_hsamp0 s = hsf s /\ (hsf s = 1 \/ hsf s = 2 \/ hsf s = 4).
Proof.
  intros Hs. destruct (hsf_pow2 s Hs) as (j & Hj & Hq & _ & Hv).
  unfold comp_hsamp0, dec_hsamp0. rewrite Hq, Hv.
  assert (j = 0 \/ j = 1 \/ j = 2) as [->|[->| ->]] by lia; cbn; lia.
Qed.

(* shared arithmetic of the two jcopy_sample_rows loops: rows row*vs/maxv .. +vs-1 exist in a plane of ph0*vs/maxv rows *)
Lemma copy_rows_in_plane maxv vs ph0 row k :
  (maxv = 1 \/ maxv = 2 \/ maxv = 4) -> (vs = maxv \/ vs = 1) -> 0 <= ph0 -> ph0 mod maxv = 0 ->
  0 <= row < ph0 -> row mod maxv = 0 -> 0 <= k < vs ->
  0 <= Z.quot (row * vs) maxv + k < Z.quot (ph0 * vs) maxv.
Proof.
  intros Hm Hv Hp Hpm Hr Hrm Hk.
  rewrite !Z.quot_div_nonneg by nia.
  destruct Hv as [->| ->].
  - rewrite !Z.div_mul by lia. 
    pose proof (Z.div_mod row maxv ltac:(lia)). pose proof (Z.div_mod ph0 maxv ltac:(lia)). nia.
  - rewrite !Z.mul_1_r. assert (k = 0) as -> by lia.
    pose proof (Z.div_mod row maxv ltac:(lia)). pose proof (Z.div_mod ph0 maxv ltac:(lia)). nia.
Qed.

Lemma jcopy_loop_safe e pw maxv vs ph0 :
  (maxv = 1 \/ maxv = 2 \/ maxv = 4) -> (vs = maxv \/ vs = 1) -> 0 <= ph0 -> ph0 mod maxv = 0 ->
  acc_ok (in_plane e pw (Z.quot (ph0 * vs) maxv))
    (for_rows (Z.to_nat ph0) 0 ph0 maxv
       (fun row => rows_access (rowptrs (Z.to_nat (Z.quot (ph0 * vs) maxv)) 0 e) (Z.to_nat vs) 0
                     (fun j => Z.quot (row * vs) maxv + j) pw)).
Proof.
  intros Hm Hv Hp Hpm.
  assert (Hq : 0 <= Z.quot (ph0 * vs) maxv) by (rewrite Z.quot_div_nonneg by nia; apply Z.div_pos; nia).
  apply for_rows_ok; [lia|rewrite Z2Nat.id by lia; nia|].
  intros r Hr Hrm. rewrite Z.sub_0_r in Hrm.
  apply rows_access_ok. intros k Hk. rewrite Z2Nat.id in Hk by lia.
  apply row_access_ok; [assumption| |lia].
  apply copy_rows_in_plane; try assumption; lia.
Qed.

Lemma ph0_facts h s : valid_samp s -> valid_dim h ->
  enc_ph0 h (comp_vsamp0 s) = pad_up h (vsf s) /\ dec_ph0 h (dec_vsamp0 s) = pad_up h (vsf s) /\
  0 <= pad_up h (vsf s) /\ pad_up h (vsf s) mod vsf s = 0.
Proof.
  intros Hs Hh. destruct (vsf_pow2 s Hs) as (j & Hj & Hq & _ & Hv). pose proof (pow2_small j Hj).
  unfold enc_ph0, dec_ph0, comp_vsamp0, dec_vsamp0. rewrite Hq, Hv, !pad_math_shape by lia.
  pose proof (pad_up_bounds h (2 ^ j) ltac:(lia)). unfold valid_dim in Hh.
  repeat split; try reflexivity; try lia. apply pad_up_multiple. lia.
Qed.

(* tj3EncodeYUVPlanes8 writes, and tj3DecodeYUVPlanes8 reads, only bytes of the plane *)
Theorem enc_access_safe strides stride i w h s : valid_samp s -> valid_dim w -> valid_dim h -> 0 <= i < 3 ->
  acc_ok (in_plane (enc_rowstep strides stride (spec_pw i w s)) (spec_pw i w s) (spec_ph i h s))
         (enc_access strides stride i w h s).
Proof.
  intros Hs Hw Hh Hi.
  destruct (codec_plane_dims i w h s Hs Hw Hh Hi) as (_ & _ & EW & EH & _ & _).
  destruct (vsf_cases s Hs) as (Ev & _ & Hv). destruct (ph0_facts h s Hs Hh) as (P0 & _ & P1 & P2).
  unfold enc_access. rewrite EW.
  assert (EH' : enc_plane_h i h s = Z.quot (enc_ph0 h (comp_vsamp0 s) * (if i =? 0 then comp_vsamp0 s else 1)) (comp_vsamp0 s)) by reflexivity.
  rewrite <- EH. rewrite EH'. rewrite P0, Ev.
  unfold enc_loopstep, enc_copy_n, enc_copy_row, enc_copy_w.
  apply jcopy_loop_safe; try assumption. destruct (i =? 0); [left|right]; reflexivity.
Qed.

Theorem dec_access_safe strides stride i w h s : valid_samp s -> valid_dim w -> valid_dim h -> 0 <= i < 3 ->
  acc_ok (in_plane (dec_rowstep strides stride (spec_pw i w s)) (spec_pw i w s) (spec_ph i h s))
         (dec_access strides stride i w h s).
Proof.
  intros Hs Hw Hh Hi.
  destruct (codec_plane_dims i w h s Hs Hw Hh Hi) as (_ & _ & _ & _ & EW & EH).
  destruct (vsf_cases s Hs) as (_ & Ev & Hv). destruct (ph0_facts h s Hs Hh) as (_ & P0 & P1 & P2).
  unfold dec_access. rewrite EW.
  assert (EH' : dec_plane_h i h s = Z.quot (dec_ph0 h (dec_vsamp0 s) * (if i =? 0 then dec_vsamp0 s else 1)) (dec_vsamp0 s)) by reflexivity.
  rewrite <- EH. rewrite EH'. rewrite P0, Ev.
  unfold dec_loopstep, dec_copy_n, dec_copy_row, dec_copy_w.
  apply jcopy_loop_safe; try assumption. destruct (i =? 0); [left|right]; reflexivity.
Qed.

(* ---- decompress / compress: the iMCU-row loops ---- *)
Lemma crow_nonneg row vs maxv : 0 <= row -> 1 <= vs -> 1 <= maxv -> 0 <= Z.quot (row * vs) maxv.
Proof. intros. rewrite Z.quot_div_nonneg by nia. apply Z.div_pos; nia. Qed.

(* generic: both branches of the loop body stay inside a plane of ph rows of pw samples *)
Lemma imcu_loop_safe e pw ph fuel bound step vs maxv th ih iw (usetmp : bool) :
  0 <= ph -> 0 < step -> bound <= Z.of_nat fuel * step -> 1 <= vs -> 1 <= maxv ->
  (usetmp = false -> iw = pw /\ ih = ph) ->
  acc_ok (in_plane e pw ph)
    (for_rows fuel 0 bound step
       (fun row => let crow := Z.quot (row * vs) maxv in
          if usetmp then rows_access (rowptrs (Z.to_nat ph) 0 e) (Z.to_nat (if th <? ph - crow then th else ph - crow)) 0 (fun j => crow + j) pw
          else rows_access (rowptrs (Z.to_nat ph) 0 e) (Z.to_nat (Z.min th (ih - crow))) 0 (fun j => crow + j) iw)).
Proof.
  intros Hph Hs Hf Hvs Hm Hu. apply for_rows_ok; [assumption|lia|].
  intros r Hr _. cbv zeta. pose proof (crow_nonneg r vs maxv ltac:(lia) Hvs Hm) as Hc.
  destruct usetmp.
  - apply rows_access_ok. intros k Hk. apply row_access_ok; [assumption| |lia].
    destruct (th <? ph - Z.quot (r * vs) maxv) eqn:E; lia.
  - destruct (Hu eq_refl) as [-> ->]. apply rows_access_ok. intros k Hk. apply row_access_ok; [assumption| |lia]. lia.
Qed.

Lemma existsb_false_in {A} (f : A -> bool) l x : existsb f l = false -> In x l -> f x = false.
Proof.
  intros H Hin. destruct (f x) eqn:E; [|reflexivity].
  assert (existsb f l = true) by (apply existsb_exists; exists x; split; assumption). congruence.
Qed.

Lemma comp_in_list i s : 0 <= i < ncomp s -> In i (if s =? TJSAMP_GRAY then [0] else [0; 1; 2]).
Proof. unfold ncomp. destruct (s =? TJSAMP_GRAY); cbn; lia. Qed.

Lemma sf_dct_ok : forallb (fun p => (1 <=? dtp_dctsize (fst p) (snd p)) && (dtp_dctsize (fst p) (snd p) <=? 16)) sf_tbl = true.
Proof. vm_compute. reflexivity. Qed.

Lemma sf_facts num denom : In (num, denom) sf_tbl -> 1 <= num <= 15 /\ 1 <= denom <= 8 /\ 1 <= dtp_dctsize num denom <= 16.
Proof.
  intros Hin. pose proof (proj1 (forallb_forall _ _) sf_tbl_ok _ Hin) as F. unfold sf_ok in F. cbn [fst snd] in F.
  pose proof (proj1 (forallb_forall _ _) sf_dct_ok _ Hin) as G. cbn [fst snd] in G. lia.
Qed.

Definition jpeg_dim (w : Z) : Prop := 1 <= w <= 65535.

Lemma lj_out_valid w num denom : jpeg_dim w -> In (num, denom) sf_tbl -> valid_dim (lj_out w num denom) /\ lj_out w num denom <= 983025.
Proof.
  intros Hw Hin. destruct (sf_facts num denom Hin) as (Hn & Hd & _). unfold jpeg_dim in Hw.
  unfold lj_out. fold (cdiv (w * num) denom).
  pose proof (cdiv_pos (w * num) denom ltac:(lia) ltac:(nia)).
  pose proof (cdiv_le (w * num) denom ltac:(lia) ltac:(nia)).
  unfold valid_dim, INT_MAX. nia.
Qed.

Lemma plane_dims_small i d s : valid_samp s -> 0 <= i < ncomp s -> valid_dim d -> d <= 983025 ->
  tj3YUVPlaneWidth i d s = spec_pw i d s /\ tj3YUVPlaneHeight i d s = spec_ph i d s /\ 1 <= spec_pw i d s /\ 1 <= spec_ph i d s.
Proof.
  intros Hs Hi Hd Hle. rewrite plane_width_spec, plane_height_spec by assumption.
  assert (X : (0 <=? i) && (i <? ncomp s) = true) by lia. rewrite X.
  pose proof (spec_pw_bounds i d s Hs Hd) as [B _]. pose proof (spec_ph_bounds i d s Hs Hd) as [B' _].
  assert (Y : spec_pw i d s <=? INT_MAX = true) by (unfold INT_MAX; lia). rewrite Y.
  assert (Y' : spec_ph i d s <=? INT_MAX = true) by (unfold INT_MAX; lia). rewrite Y'. repeat split; lia.
Qed.

(* tj3DecompressToYUVPlanes8 writes only bytes of the plane, with or without the intermediate buffer *)
Theorem dtp_access_safe strides stride i w h s num denom :
  valid_samp s -> 0 <= i < ncomp s -> jpeg_dim w -> jpeg_dim h -> In (num, denom) sf_tbl ->
  let pw := spec_pw i (lj_out w num denom) s in let ph := spec_ph i (lj_out h num denom) s in
  acc_ok (in_plane (dtp_rowstep strides stride pw) pw ph) (dtp_access strides stride i w h s num denom).
Proof.
  intros Hs Hi Hw Hh Hin pw ph.
  destruct (lj_out_valid w num denom Hw Hin) as [Vw Lw]. destruct (lj_out_valid h num denom Hh Hin) as [Vh Lh].
  destruct (plane_dims_small i _ s Hs Hi Vw Lw) as (EW & _ & Pw & _).
  destruct (plane_dims_small i _ s Hs Hi Vh Lh) as (_ & EH & _ & Ph).
  destruct (sf_facts num denom Hin) as (_ & _ & Hd). destruct (vsf_cases s Hs) as (Ev & _ & Hv).
  unfold dtp_access. rewrite EW, EH. fold pw ph.
  unfold dtp_loopstep, dtp_crow, dtp_copy_n, dtp_copy_dst, dtp_copy_len.
  apply imcu_loop_safe.
  - subst ph. lia.
  - rewrite Ev. nia.
  - rewrite Z2Nat.id by (unfold valid_dim in Vh; lia). rewrite Ev. unfold valid_dim in Vh. nia.
  - unfold lj_vs. destruct (i =? 0); lia.
  - lia.
  - intros U. unfold dtp_usetmpbuf in U.
    pose proof (existsb_false_in _ _ i U (comp_in_list i s Hi)) as C. cbv beta in C.
    unfold dtp_component_usetmp, dtp_usetmp in C. rewrite EW, EH in C. fold pw ph in C. split; lia.
Qed.

(* tj3CompressFromYUVPlanes8 reads only bytes of the plane *)
Theorem cfp_access_safe strides stride i w h s :
  valid_samp s -> 0 <= i < ncomp s -> valid_dim w -> valid_dim h ->
  acc_ok (in_plane (cfp_rowstep strides stride (spec_pw i w s)) (spec_pw i w s) (spec_ph i h s)) (cfp_access strides stride i w h s).
Proof.
  intros Hs Hi Hw Hh.
  assert (Hi3 : 0 <= i < 3) by (unfold ncomp in Hi; destruct (s =? TJSAMP_GRAY); lia).
  destruct (codec_plane_dims i w h s Hs Hw Hh Hi3) as (EW & EH & _).
  destruct (vsf_cases s Hs) as (Ev & _ & Hv).
  pose proof (spec_ph_bounds i h s Hs Hh) as [Bh _].
  unfold cfp_access. rewrite EW, EH.
  unfold cfp_loopstep, cfp_crow, cfp_copy_n, cfp_copy_src, cfp_copy_len.
  apply imcu_loop_safe.
  - lia.
  - rewrite Ev. unfold DCTSIZE. lia.
  - rewrite Z2Nat.id by (unfold valid_dim in Hh; lia). rewrite Ev. unfold DCTSIZE, valid_dim in *. nia.
  - unfold lj_vs. destruct (i =? 0); lia.
  - lia.
  - intros U. unfold cfp_usetmpbuf in U.
    pose proof (existsb_false_in _ _ i U (comp_in_list i s Hi)) as C. cbv beta in C.
    unfold cfp_component_usetmp, cfp_usetmp in C. rewrite EW, EH in C. split; lia.
Qed.

(* ---- the extent used above is the one tj3YUVPlaneSize publishes, for every stride ---- *)
Theorem extent_is_planesize ulbits szbits strides stride i w h s :
  valid_abi ulbits szbits -> valid_samp s -> valid_dim w -> valid_dim h -> 0 <= i < ncomp s -> INT_MIN < stride <= INT_MAX ->
  spec_pw i w s <= INT_MAX -> spec_ph i h s <= INT_MAX ->
  let e := enc_rowstep strides stride (spec_pw i w s) in
  let size := Z.abs e * (spec_ph i h s - 1) + spec_pw i w s in
  tj3YUVPlaneSize ulbits szbits i w (if strides =? 0 then 0 else stride) h s =
    Val (if ulong_check ulbits size then 0 else size) /\
  (forall o, in_plane e (spec_pw i w s) (spec_ph i h s) o <-> plane_lo e (spec_ph i h s) <= o < plane_lo e (spec_ph i h s) + size) /\
  (0 <= e -> plane_lo e (spec_ph i h s) = 0) /\ (e < 0 -> plane_lo e (spec_ph i h s) = (spec_ph i h s - 1) * e).
Proof.
  intros Habi Hs Hw Hh Hi Hst Hpw Hph e size.
  pose proof (spec_pw_bounds i w s Hs Hw) as [Bw _]. pose proof (spec_ph_bounds i h s Hs Hh) as [Bh _].
  split; [|split; [|split]].
  - rewrite planesize_spec; try assumption.
    2:{ destruct (strides =? 0); unfold INT_MIN, INT_MAX in *; lia. }
    assert (X : (if strides =? 0 then 0 else stride) =? INT_MIN = false) by (destruct (strides =? 0); unfold INT_MIN in *; lia).
    rewrite X. assert (Y : (spec_pw i w s <=? INT_MAX) && (spec_ph i h s <=? INT_MAX) = true) by lia. rewrite Y.
    unfold plane_size. rewrite <- rowstep_abs by lia. reflexivity.
  - intros o. unfold in_plane. tauto.
  - intros He. unfold plane_lo. apply Z.min_l. nia.
  - intros He. unfold plane_lo. apply Z.min_r. nia.
Qed.

(* ---- planes packed as tj3YUVBufSize / the unified-buffer functions lay them out: accesses of different planes
        never meet and stay inside the buffer ---- *)
Theorem packed_planes_disjoint w a h s i j oi oj :
  valid_samp s -> valid_dim w -> valid_dim h -> valid_align a -> 0 <= i -> i < j -> j < ncomp s ->
  in_plane (spec_stride i w a s) (spec_pw i w s) (spec_ph i h s) oi ->
  in_plane (spec_stride j w a s) (spec_pw j w s) (spec_ph j h s) oj ->
  0 <= spec_off i w a h s + oi /\ spec_off i w a h s + oi < spec_off j w a h s + oj /\
  spec_off j w a h s + oj < spec_total w a h s.
Proof.
  intros Hs Hw Hh Ha Hi Hij Hj Ii Ij.
  destruct (layout_offsets w a h s Hs Hw Hh Ha) as (_ & _ & _ & O3 & O4).
  pose proof (O4 i j Hi Hij Hj) as D. pose proof (O3 i ltac:(lia)) as [Li _]. pose proof (O3 j ltac:(lia)) as [_ Uj].
  pose proof (stride_ge_pw w a h s Hs Hw Hh Ha i) as (Bi & Bi'). pose proof (stride_ge_pw w a h s Hs Hw Hh Ha j) as (Bj & Bj').
  cbv beta in *.
  unfold in_plane, plane_lo in *.
  assert (Ei : 0 <= (spec_ph i h s - 1) * spec_stride i w a s) by nia.
  assert (Ej : 0 <= (spec_ph j h s - 1) * spec_stride j w a s) by nia.
  rewrite Z.min_l in Ii, Ij by lia. rewrite Z.abs_eq in Ii, Ij by lia.
  unfold plane_bytes in *. nia.
Qed.

(* ---- the intermediate buffer of tj3DecompressToYUVPlanes8: rows are MAX(iw, pw) wide, so both the pw samples copied
        out of a row and the iw samples the codec writes into it stay inside the row; rows tile the buffer ---- *)
Theorem dtp_tmpbuf_rows iw pw th j c : 0 <= iw -> 0 <= pw -> 0 <= j < th -> 0 <= c < Z.max iw pw ->
  dtp_tmpstep iw pw = Z.max iw pw /\ dtp_tmpsize iw pw th = Z.max iw pw * th /\
  0 <= j * dtp_tmpstep iw pw + c < dtp_tmpsize iw pw th /\
  j * dtp_tmpstep iw pw + c < (j + 1) * dtp_tmpstep iw pw.
Proof.
  intros Hi Hp Hj Hc. unfold dtp_tmpstep, dtp_tmpsize.
  assert (E : (if iw >? pw then iw else pw) = Z.max iw pw) by (destruct (iw >? pw) eqn:X; lia).
  rewrite E. repeat split; nia.
Qed.

(* ---- tj3CompressFromYUVPlanes8 copies pw samples into intermediate rows of iw samples: pw <= iw always ---- *)
Lemma pad_up_least a b m : 0 < b -> a <= m -> m mod b = 0 -> pad_up a b <= m.
Proof.
  intros Hb Ha Hm. unfold pad_up. pose proof (cdiv_spec a b Hb) as [S _].
  pose proof (Z.div_mod m b ltac:(lia)) as D. rewrite Hm in D. set (q := m / b) in *.
  assert (L : (cdiv a b - 1) * b < q * b) by lia.
  apply Z.mul_lt_mono_pos_r in L; [|assumption].
  assert (cdiv a b * b <= q * b) by (apply Z.mul_le_mono_nonneg_r; lia). lia.
Qed.

Theorem cfp_tmpbuf_row_fits i w s : valid_samp s -> valid_dim w -> 0 <= i < 3 ->
  spec_pw i w s <= cfp_iw (lj_wib i w s).
Proof.
  intros Hs Hw Hi. destruct (hsf_cases s Hs) as (Eh & _ & Hh).
  unfold cfp_iw, lj_wib, lj_hs, DCTSIZE. rewrite Eh. unfold spec_pw. unfold valid_dim in Hw.
  destruct (i =? 0).
  - rewrite (cdiv_scale w (hsf s) 8) by lia.
    apply pad_up_least; [lia| |].
    + pose proof (cdiv_spec w 8 ltac:(lia)). lia.
    + destruct Hh as [->|[->| ->]].
      * apply Z.mod_1_r.
      * replace (cdiv w 8 * 8) with (cdiv w 8 * 4 * 2) by lia. apply Z.mod_mul. lia.
      * replace (cdiv w 8 * 8) with (cdiv w 8 * 2 * 4) by lia. apply Z.mod_mul. lia.
  - rewrite Z.mul_1_r. fold (cdiv w (hsf s * 8)).
    pose proof (cdiv_spec w (hsf s * 8) ltac:(lia)) as [_ U].
    pose proof (cdiv_spec w (hsf s) ltac:(lia)) as [L _]. nia.
Qed.


(* ---- completeness for encode: every sample position of the plane is written ---- *)
Lemma acc_app_some a b l : acc_app a b = Some l -> exists la lb, a = Some la /\ b = Some lb /\ l = la ++ lb.
Proof. destruct a, b; cbn; intros H; try discriminate. injection H as <-. eauto. Qed.

Lemma rows_access_in ptrs f len x n : forall j l k lk,
  rows_access ptrs n j f len = Some l -> j <= k < j + Z.of_nat n ->
  row_access ptrs (f k) len = Some lk -> In x lk -> In x l.
Proof.
  induction n as [|n IH]; intros j l k lk H Hk Hr Hx; [lia|].
  cbn [rows_access] in H. apply acc_app_some in H. destruct H as (la & lb & Ha & Hb & ->).
  apply in_or_app. destruct (Z.eq_dec k j) as [->|Hne].
  - left. rewrite Hr in Ha. injection Ha as <-. assumption.
  - right. apply (IH (j + 1) lb k lk); try assumption. lia.
Qed.

Lemma for_rows_in bound step body x fuel : forall row l r lb,
  0 < step -> for_rows fuel row bound step body = Some l ->
  row <= r < bound -> (r - row) mod step = 0 -> body r = Some lb -> In x lb -> In x l.
Proof.
  induction fuel as [|fuel IH]; intros row l r lb Hs H Hr Hm Hb Hx; cbn [for_rows] in H.
  - assert (X : row <? bound = true) by lia. rewrite X in H. discriminate.
  - assert (X : row <? bound = true) by lia. rewrite X in H.
    apply acc_app_some in H. destruct H as (la & lr & Ha & Hrest & ->). apply in_or_app.
    destruct (Z.eq_dec r row) as [->|Hne].
    + left. rewrite Hb in Ha. injection Ha as <-. assumption.
    + right. assert (step <= r - row).
      { pose proof (Z.div_mod (r - row) step ltac:(lia)) as D. rewrite Hm in D.
        assert (0 < (r - row) / step) by nia. nia. }
      apply (IH (row + step) lr r lb); try assumption; [lia|].
      replace (r - (row + step)) with ((r - row) + (-1) * step) by lia. rewrite Z.mod_add by lia. assumption.
Qed.

Lemma row_access_some e ph r len c : 0 <= r < ph -> 0 <= c < len ->
  exists lk, row_access (rowptrs (Z.to_nat ph) 0 e) r len = Some lk /\ In (r * e + c) lk.
Proof.
  intros Hr Hc. unfold row_access. assert (X : r <? 0 = false) by lia. rewrite X.
  rewrite rowptrs_nth by lia. rewrite Z2Nat.id by lia. eexists. split; [reflexivity|].
  apply in_map_iff. exists c. split; [lia|]. apply zrange_In. lia.
Qed.

Lemma acc_ok_some P a : acc_ok P a -> exists l, a = Some l.
Proof. destruct a; cbn; [eauto|tauto]. Qed.

Theorem enc_access_complete strides stride i w h s r c : valid_samp s -> valid_dim w -> valid_dim h -> 0 <= i < 3 ->
  0 <= r < spec_ph i h s -> 0 <= c < spec_pw i w s ->
  exists l, enc_access strides stride i w h s = Some l /\ In (r * enc_rowstep strides stride (spec_pw i w s) + c) l.
Proof.
  intros Hs Hw Hh Hi Hr Hc.
  destruct (acc_ok_some _ _ (enc_access_safe strides stride i w h s Hs Hw Hh Hi)) as [l El]. exists l. split; [exact El|].
  destruct (codec_plane_dims i w h s Hs Hw Hh Hi) as (_ & _ & EW & EH & _ & _).
  destruct (vsf_cases s Hs) as (Ev & _ & Hv). destruct (ph0_facts h s Hs Hh) as (P0 & _ & P1 & P2).
  unfold enc_access in El. rewrite EW in El.
  assert (EH' : enc_plane_h i h s = Z.quot (enc_ph0 h (comp_vsamp0 s) * (if i =? 0 then comp_vsamp0 s else 1)) (comp_vsamp0 s)) by reflexivity.
  rewrite <- EH in Hr. rewrite EH' in Hr. rewrite EH' in El. rewrite P0, Ev in El, Hr.
  unfold enc_loopstep, enc_copy_n, enc_copy_row, enc_copy_w in El.
  set (maxv := vsf s) in *. set (ph0 := pad_up h maxv) in *.
  set (vs := if i =? 0 then maxv else 1) in *.
  assert (Hvs : vs = maxv \/ vs = 1) by (subst vs; destruct (i =? 0); tauto).
  assert (Hq : Z.quot (ph0 * vs) maxv = ph0 * vs / maxv) by (apply Z.quot_div_nonneg; nia).
  pose proof (Z.div_mod ph0 maxv ltac:(lia)) as Dp. rewrite P2 in Dp.
  (* the iteration that writes row r *)
  set (row := r / vs * maxv).
  assert (Hrow : 0 <= row < ph0 /\ row mod maxv = 0 /\ Z.quot (row * vs) maxv = r / vs * vs).
  { subst row. rewrite Hq in Hr. destruct Hvs as [E|E]; rewrite E in *.
    - rewrite Z.div_mul in Hr by lia. pose proof (Z.div_mod r maxv ltac:(lia)). pose proof (Z.mod_pos_bound r maxv ltac:(lia)).
      repeat split; try nia. + apply Z.mod_mul; lia. + rewrite Z.quot_div_nonneg by nia. apply Z.div_mul. lia.
    - rewrite Z.mul_1_r in Hr. rewrite Z.div_1_r, !Z.mul_1_r.
      assert (r < ph0 / maxv) by lia. split; [nia|]. split; [apply Z.mod_mul; lia|].
      rewrite Z.quot_div_nonneg by nia. apply Z.div_mul. lia. }
  destruct Hrow as (R1 & R2 & R3).
  set (k := r - r / vs * vs).
  assert (Hk : 0 <= k < vs) by (subst k; pose proof (Z.div_mod r vs ltac:(lia)); pose proof (Z.mod_pos_bound r vs ltac:(lia)); lia).
  destruct (row_access_some (enc_rowstep strides stride (spec_pw i w s)) (Z.quot (ph0 * vs) maxv) r (spec_pw i w s) c Hr Hc) as (lk & Elk & Ink).
  (* the body of that iteration is Some: from safety *)
  pose proof (jcopy_loop_safe (enc_rowstep strides stride (spec_pw i w s)) (spec_pw i w s) maxv vs ph0 Hv Hvs P1 P2) as SAFE.
  set (body := fun row0 : Z => rows_access (rowptrs (Z.to_nat (Z.quot (ph0 * vs) maxv)) 0 (enc_rowstep strides stride (spec_pw i w s)))
                 (Z.to_nat vs) 0 (fun j : Z => Z.quot (row0 * vs) maxv + j) (spec_pw i w s)) in *.
  assert (Bsome : exists lb, body row = Some lb).
  { apply (acc_ok_some (in_plane (enc_rowstep strides stride (spec_pw i w s)) (spec_pw i w s) (Z.quot (ph0 * vs) maxv))).
    subst body. cbv beta. apply rows_access_ok. intros j Hj. rewrite Z2Nat.id in Hj by lia.
    apply row_access_ok; [lia| |lia]. apply copy_rows_in_plane; try assumption; lia. }
  destruct Bsome as [lb Elb].
  apply (for_rows_in ph0 maxv body _ (Z.to_nat ph0) 0 l row lb); try assumption; try lia.
  - rewrite Z.sub_0_r. exact R2.
  - apply (rows_access_in _ _ _ _ (Z.to_nat vs) 0 lb k lk Elb); [rewrite Z2Nat.id by lia; lia| |exact Ink].
    cbv beta. rewrite R3. replace (r / vs * vs + k) with r by (subst k; lia). exact Elk.
Qed.

(* ---- statements for props/C20.v ---- *)
Definition copy_loops_safe_statement : Prop :=
  forall strides stride i w h s, valid_samp s -> 0 <= i < ncomp s ->
  (* encode writes / decode reads / compress reads: every width and height an int can hold *)
  (valid_dim w -> valid_dim h ->
     let pw := spec_pw i w s in let ph := spec_ph i h s in
     acc_ok (in_plane (enc_rowstep strides stride pw) pw ph) (enc_access strides stride i w h s) /\
     acc_ok (in_plane (dec_rowstep strides stride pw) pw ph) (dec_access strides stride i w h s) /\
     acc_ok (in_plane (cfp_rowstep strides stride pw) pw ph) (cfp_access strides stride i w h s) /\
     spec_pw i w s <= cfp_iw (lj_wib i w s)) /\
  (* decompress writes: every JPEG size and every scaling factor of the table *)
  (forall num denom, jpeg_dim w -> jpeg_dim h -> In (num, denom) sf_tbl ->
     let pw := spec_pw i (lj_out w num denom) s in let ph := spec_ph i (lj_out h num denom) s in
     acc_ok (in_plane (dtp_rowstep strides stride pw) pw ph) (dtp_access strides stride i w h s num denom)).

Lemma copy_loops_safe_proof : copy_loops_safe_statement.
Proof.
  intros strides stride i w h s Hs Hi.
  assert (Hi3 : 0 <= i < 3) by (unfold ncomp in Hi; destruct (s =? TJSAMP_GRAY); lia).
  split.
  - intros Hw Hh pw ph. split; [apply enc_access_safe; assumption|]. split; [apply dec_access_safe; assumption|].
    split; [apply cfp_access_safe; assumption|]. apply cfp_tmpbuf_row_fits; assumption.
  - intros num denom Hw Hh Hin. apply dtp_access_safe; assumption.
Qed.

Lemma ex_copy_loops :
  enc_access 1 (-5) 0 3 2 TJSAMP_444 = Some [0; 1; 2; -5; -4; -3] /\
  enc_access 0 77 1 5 3 TJSAMP_420 = Some [0; 1; 2; 3; 4; 5] /\
  dec_access 1 2 0 3 2 TJSAMP_444 = Some [0; 1; 2; 2; 3; 4] /\
  dtp_usetmpbuf 16 16 TJSAMP_420 1 1 = false /\ dtp_usetmpbuf 17 16 TJSAMP_420 1 1 = true /\
  dtp_usetmpbuf 8 8 TJSAMP_422 1 8 = true /\ dtp_tmp_geom 0 8 8 TJSAMP_422 1 8 = (2, 1, 2) /\
  dtp_access 1 0 1 17 16 TJSAMP_420 1 1 = Some (map (fun k => k) (zrange 0 72)) /\
  cfp_usetmpbuf 16 8 TJSAMP_422 = false /\ cfp_usetmpbuf 9 8 TJSAMP_422 = true /\
  in_plane (-5) 3 2 (-5) /\ in_plane (-5) 3 2 2 /\ ~ in_plane (-5) 3 2 3.
Proof.
  repeat match goal with |- _ = _ /\ _ => split; [vm_compute; reflexivity|] end.
  unfold in_plane, plane_lo. cbn. repeat split; try lia.
Qed.
