(* C06 proofs, part 2: every do_* routine of transupp.c (model/Transform.v, with the
   C text's loop-group index arithmetic and in-block write loops) computes the
   plane specification spec_comp of model/TransformSpec.v -- for every plane
   size, sampling factor, crop offset and source size. *)
From Coq Require Import List ZArith Bool Lia PeanoNat ZifyBool.
From LJT Require Import model.Transform model.TransformSpec proofs.TransformProofs.
Import ListNotations.
Local Open Scope Z_scope.

(* the "mirrorable" test evaluated at the start of a loop group of s blocks
   equals the per-block test, because mirrorable width and crop offset are
   multiples of s *)
Lemma group_lt a m s x : 1 <= s -> 0 <= x ->
  (a * s + gbase x s <? m * s) = (a * s + x <? m * s).
Proof.
  intros Hs Hx. unfold gbase.
  pose proof (Z.div_mod x s ltac:(lia)) as Hd.
  pose proof (Z.mod_pos_bound x s ltac:(lia)) as Hm.
  remember (x / s) as q. remember (x mod s) as r.
  assert (Hq : x - r = s * q) by lia. rewrite Hq.
  destruct (Z.ltb_spec (a * s + s * q) (m * s)); destruct (Z.ltb_spec (a * s + x) (m * s)); try reflexivity; exfalso.
  - assert (a + q < m) by nia. assert ((a + q + 1) * s <= m * s) by nia. nia.
  - assert (a + q < m) by nia. nia.
Qed.

Lemma gbase_goff x s : gbase x s + goff x s = x.
Proof. unfold gbase, goff. lia. Qed.

Definition geom_ok (g : geom) : Prop :=
  1 <= g_hs g /\ 1 <= g_vs g /\ 0 <= g_xco g /\ 0 <= g_yco g.

Ltac plane_setup :=
  intros g src x y (Hhs & Hvs & Hxc & Hyc) Hx Hy;
  unfold spec_comp, spec_plane, mirror_cols, mirror_rows, xcb, ycb;
  cbn [transposes mirror_x mirror_y andb];
  cbv zeta.

Ltac fin := unfold gbase, goff; first [ reflexivity | (f_equal; lia) | (f_equal; f_equal; lia) ].

Lemma do_crop_spec : forall g src x y, geom_ok g -> 0 <= x -> 0 <= y ->
  do_crop g src x y = spec_comp XNone g src x y.
Proof.
  plane_setup. unfold do_crop, xcb, ycb. cbn [d4_of d4_apply]. fin.
Qed.

Lemma do_flip_h_spec : forall g src x y, geom_ok g -> 0 <= x -> 0 <= y ->
  do_flip_h g src x y = spec_comp XFlipH g src x y.
Proof.
  plane_setup. unfold do_flip_h, xcb, ycb. cbv zeta.
  destruct (_ <? _); cbn [d4_of d4_apply].
  - rewrite blk_fliph_spec. fin.
  - fin.
Qed.

Lemma do_flip_v_spec : forall g src x y, geom_ok g -> 0 <= x -> 0 <= y ->
  do_flip_v g src x y = spec_comp XFlipV g src x y.
Proof.
  plane_setup. unfold do_flip_v, xcb, ycb. cbv zeta.
  rewrite group_lt by lia.
  destruct (_ <? _); cbn [d4_of d4_apply].
  - rewrite blk_flipv_spec. fin.
  - fin.
Qed.

Lemma do_transpose_spec : forall g src x y, geom_ok g -> 0 <= x -> 0 <= y ->
  do_transpose g src x y = spec_comp XTranspose g src x y.
Proof.
  plane_setup. unfold do_transpose, xcb, ycb. cbv zeta. cbn [d4_of d4_apply].
  rewrite blk_transpose_spec. fin.
Qed.

Lemma do_rot_90_spec : forall g src x y, geom_ok g -> 0 <= x -> 0 <= y ->
  do_rot_90 g src x y = spec_comp XRot90 g src x y.
Proof.
  plane_setup. unfold do_rot_90, xcb, ycb. cbv zeta.
  rewrite group_lt by lia.
  destruct (_ <? _); cbn [d4_of d4_apply].
  - rewrite blk_rot90_spec. fin.
  - rewrite blk_transpose_spec. fin.
Qed.

Lemma do_rot_270_spec : forall g src x y, geom_ok g -> 0 <= x -> 0 <= y ->
  do_rot_270 g src x y = spec_comp XRot270 g src x y.
Proof.
  plane_setup. unfold do_rot_270, xcb, ycb. cbv zeta.
  rewrite group_lt by lia.
  destruct (_ <? _); cbn [d4_of d4_apply].
  - rewrite blk_rot270_spec. fin.
  - rewrite blk_transpose_spec. fin.
Qed.

Lemma do_rot_180_spec : forall g src x y, geom_ok g -> 0 <= x -> 0 <= y ->
  do_rot_180 g src x y = spec_comp XRot180 g src x y.
Proof.
  plane_setup. unfold do_rot_180, xcb, ycb. cbv zeta.
  rewrite group_lt by lia.
  destruct (g_yco g * g_vs g + y <? _); destruct (g_xco g * g_hs g + x <? _); cbn [d4_of d4_apply].
  - rewrite blk_rot180_spec. fin.
  - rewrite blk_flipv_spec. fin.
  - rewrite blk_fliph_spec. fin.
  - fin.
Qed.

Lemma do_transverse_spec : forall g src x y, geom_ok g -> 0 <= x -> 0 <= y ->
  do_transverse g src x y = spec_comp XTransverse g src x y.
Proof.
  plane_setup. unfold do_transverse, xcb, ycb. cbv zeta.
  rewrite !group_lt by lia.
  destruct (g_yco g * g_vs g + y <? _); destruct (g_xco g * g_hs g + x <? _); cbn [d4_of d4_apply].
  - rewrite blk_transverse_spec. fin.
  - rewrite blk_rot270_spec. fin.
  - rewrite blk_rot90_spec. fin.
  - rewrite blk_transpose_spec. fin.
Qed.

(* ------------------------------------------------ the in-place routine *)
Lemma fold_seq_inv {A} (f : A -> nat -> A) (P : nat -> A -> Prop) n a :
  P 0%nat a -> (forall m r, (m < n)%nat -> P m r -> P (S m) (f r m)) ->
  P n (fold_left f (seq 0 n) a).
Proof.
  intros H0 Hs. induction n as [|n IH]; [exact H0|].
  rewrite seq_S, fold_left_app. cbn [fold_left plus]. apply Hs; [lia|].
  apply IH. intros m r Hm. apply Hs. lia.
Qed.

Section InPlace.
Local Open Scope nat_scope.

Lemma swap_loop (cw : nat) (row : list blk) :
  cw <= length row ->
  let r1 := fold_left (fun r bx =>
                let i := bx in let j := cw - bx - 1 in
                let b1 := nth i r [] in let b2 := nth j r [] in
                upd (upd r i (blk_fliph b2)) j (blk_fliph b1))
              (seq 0 ((cw + 1) / 2)) row in
  length r1 = length row /\
  forall x, nth x r1 [] = if x <? cw then blk_fliph (nth (cw - 1 - x) row []) else nth x row [].
Proof.
  intros Hcw. cbv zeta.
  set (f := fun (r : list blk) (bx : nat) => upd (upd r bx (blk_fliph (nth (cw - bx - 1) r [])))
                                              (cw - bx - 1) (blk_fliph (nth bx r []))).
  set (P := fun (m : nat) (r : list blk) =>
              length r = length row /\
              forall x, nth x r [] = if (x <? m) || ((cw - m <=? x) && (x <? cw))
                                     then blk_fliph (nth (cw - 1 - x) row []) else nth x row []).
  assert (HP : P ((cw + 1) / 2) (fold_left f (seq 0 ((cw + 1) / 2)) row)).
  { apply fold_seq_inv.
    - split; [reflexivity|]. intros x. rewrite Nat.sub_0_r.
      destruct (Nat.ltb_spec x 0); [lia|]. cbn [orb].
      destruct (Nat.leb_spec cw x); destruct (Nat.ltb_spec x cw); try reflexivity; lia.
    - intros m r Hm [Hl Hn].
      assert (H2m : 2 * m < cw).
      { pose proof (Nat.div_mod (cw + 1) 2 ltac:(lia)). pose proof (Nat.mod_upper_bound (cw + 1) 2 ltac:(lia)). lia. }
      split; [unfold f; rewrite !length_upd; exact Hl|].
      assert (Hi : nth m r [] = nth m row []).
      { rewrite (Hn m).
        destruct (Nat.ltb_spec m m); [lia|]. destruct (Nat.leb_spec (cw - m) m); [lia|]. reflexivity. }
      assert (Hj : nth (cw - m - 1) r [] = nth (cw - m - 1) row []).
      { rewrite (Hn (cw - m - 1)).
        destruct (Nat.ltb_spec (cw - m - 1) m); [lia|]. destruct (Nat.leb_spec (cw - m) (cw - m - 1)); [lia|]. reflexivity. }
      intros x. unfold f. rewrite !nth_upd, !length_upd, Hl, Hi, Hj.
      assert (Hjl : Nat.ltb (cw - m - 1) (length row) = true) by (apply Nat.ltb_lt; lia).
      assert (Hml : Nat.ltb m (length row) = true) by (apply Nat.ltb_lt; lia).
      rewrite Hjl, Hml, !andb_true_r.
      destruct (Nat.eqb_spec x (cw - m - 1)) as [->|Hxj].
      { replace (cw - 1 - (cw - m - 1)) with m by lia.
        destruct (Nat.ltb_spec (cw - m - 1) (S m)); cbn [orb]; [reflexivity|].
        destruct (Nat.leb_spec (cw - S m) (cw - m - 1)); [|lia].
        destruct (Nat.ltb_spec (cw - m - 1) cw); [reflexivity|lia]. }
      destruct (Nat.eqb_spec x m) as [->|Hxm].
      { replace (cw - 1 - m) with (cw - m - 1) by lia.
        destruct (Nat.ltb_spec m (S m)); [reflexivity|lia]. }
      rewrite (Hn x).
      replace ((x <? S m) || ((cw - S m <=? x) && (x <? cw)))%bool
        with ((x <? m) || ((cw - m <=? x) && (x <? cw)))%bool; [reflexivity|].
      destruct (Nat.ltb_spec x m); destruct (Nat.ltb_spec x (S m));
        destruct (Nat.leb_spec (cw - m) x); destruct (Nat.leb_spec (cw - S m) x);
        destruct (Nat.ltb_spec x cw); cbn [andb orb]; try reflexivity; lia. }
  destruct HP as [Hl Hn]. split; [exact Hl|].
  intros x. fold f. rewrite Hn.
  assert (H2 : cw <= 2 * ((cw + 1) / 2) /\ 2 * ((cw + 1) / 2) <= cw + 1).
  { pose proof (Nat.div_mod (cw + 1) 2 ltac:(lia)). pose proof (Nat.mod_upper_bound (cw + 1) 2 ltac:(lia)). lia. }
  repeat match goal with
         | |- context [Nat.ltb ?a ?b] => destruct (Nat.ltb_spec a b)
         | |- context [Nat.leb ?a ?b] => destruct (Nat.leb_spec a b)
         end; cbn [andb orb]; try reflexivity; lia.
Qed.

Lemma shift_loop (xc wb : nat) (r1 : list blk) :
  0 < xc -> wb + xc <= length r1 ->
  let r2 := fold_left (fun r bx => upd r bx (nth (bx + xc) r [])) (seq 0 wb) r1 in
  forall x, x < wb -> nth x r2 [] = nth (x + xc) r1 [].
Proof.
  intros Hxc Hlen. cbv zeta.
  set (f := fun (r : list blk) (bx : nat) => upd r bx (nth (bx + xc) r [])).
  set (P := fun (m : nat) (r : list blk) =>
              length r = length r1 /\
              forall x, nth x r [] = if x <? m then nth (x + xc) r1 [] else nth x r1 []).
  assert (HP : P wb (fold_left f (seq 0 wb) r1)).
  { apply fold_seq_inv.
    - split; [reflexivity|]. intros x. destruct (Nat.ltb_spec x 0); [lia|reflexivity].
    - intros m r Hm [Hl Hn]. split; [unfold f; rewrite length_upd; exact Hl|].
      intros x. unfold f. rewrite nth_upd, Hl, (Hn (m + xc)), (Hn x).
      repeat match goal with
             | |- context [Nat.eqb ?a ?b] => destruct (Nat.eqb_spec a b)
             | |- context [Nat.ltb ?a ?b] => destruct (Nat.ltb_spec a b)
             end; cbn [andb]; try reflexivity; try lia. subst. reflexivity. }
  destruct HP as [_ Hn]. intros x Hx. fold f. rewrite Hn.
  destruct (Nat.ltb_spec x wb); [reflexivity|lia].
Qed.

Lemma flip_h_row_inplace_spec (cw xc wb : nat) (row : list blk) x :
  cw <= length row -> wb + xc <= length row -> x < wb ->
  nth x (flip_h_row_inplace cw xc wb row) [] =
  if x + xc <? cw then blk_fliph (nth (cw - 1 - (x + xc)) row []) else nth (x + xc) row [].
Proof.
  intros Hcw Hwb Hx. unfold flip_h_row_inplace. cbv zeta. unfold blk in *.
  destruct (swap_loop cw row Hcw) as [Hl Hn]. cbv zeta in Hl, Hn.
  destruct (Nat.ltb_spec 0 xc) as [Hpos|Hz].
  - rewrite (shift_loop xc wb _ Hpos); [apply Hn | ..];
      first [exact Hx | apply Nat.le_trans with (length row); [exact Hwb|apply Nat.eq_le_incl; symmetry; exact Hl]].
  - assert (xc = 0) by lia. subst xc. rewrite Nat.add_0_r. apply Hn.
Qed.
End InPlace.

(* extra facts the in-place routine relies on: the rows it touches exist *)
Definition inplace_ok (g : geom) : Prop :=
  0 <= g_sw g / (g_maxh g * 8) /\
  (g_sw g / (g_maxh g * 8)) * g_hs g <= g_swb g /\
  g_wb g + g_xco g * g_hs g <= g_swb g.

Lemma do_flip_h_no_crop_spec : forall g src x y, geom_ok g -> inplace_ok g ->
  0 <= x < g_wb g -> 0 <= y -> g_yco g = 0 ->
  do_flip_h_no_crop g src x y = spec_comp XFlipH g src x y.
Proof.
  intros g src x y Hg (Hmc & Hcw & Hwb) Hx Hy Hy0.
  rewrite <- do_flip_h_spec by (try exact Hg; lia).
  destruct Hg as (Hhs & Hvs & Hxc & _).
  unfold do_flip_h_no_crop, do_flip_h, xcb, ycb. cbv zeta. rewrite Hy0.
  set (mc := g_sw g / (g_maxh g * 8)) in *.
  assert (Hrow : forall c, (c < Z.to_nat (g_swb g))%nat ->
             nth c (map (fun c0 : nat => src (Z.of_nat c0) y) (seq 0 (Z.to_nat (g_swb g)))) [] = src (Z.of_nat c) y).
  { intros c Hc. rewrite nth_map_seq by exact Hc. reflexivity. }
  assert (Hmcs : 0 <= mc * g_hs g) by nia.
  assert (Hxcs : 0 <= g_xco g * g_hs g) by nia.
  rewrite flip_h_row_inplace_spec;
    try (rewrite map_length, seq_length; lia); try lia.
  replace (gbase y (g_vs g) + 0 * g_vs g + goff y (g_vs g)) with y by (unfold gbase, goff; lia).
  destruct (Nat.ltb_spec (Z.to_nat x + Z.to_nat (g_xco g * g_hs g)) (Z.to_nat (mc * g_hs g)));
    destruct (Z.ltb_spec (g_xco g * g_hs g + x) (mc * g_hs g)); try lia.
  - rewrite Hrow by lia. f_equal. f_equal. lia.
  - rewrite Hrow by lia. f_equal. lia.
Qed.

(* --------------------------------------------- jtransform_execute_transform *)
Theorem exec_comp_meets_spec op slow g src x y :
  geom_ok g -> 0 <= x < g_wb g -> 0 <= y ->
  (op = XFlipH -> g_yco g = 0 -> slow = false -> inplace_ok g) ->
  exec_comp op slow g src x y = spec_comp op g src x y.
Proof.
  intros Hg Hx Hy Hin. destruct op; cbn [exec_comp].
  - destruct (Z.eqb_spec (g_xco g) 0) as [Hx0|]; destruct (Z.eqb_spec (g_yco g) 0) as [Hy0|]; cbn [andb];
      try (apply do_crop_spec; try assumption; lia).
    unfold spec_comp, spec_plane. cbn [transposes mirror_x mirror_y andb d4_of d4_apply]. cbv zeta.
    rewrite Hx0, Hy0. f_equal; lia.
  - destruct (Z.eqb_spec (g_yco g) 0) as [Hy0|]; cbn [negb orb].
    + destruct slow.
      * apply do_flip_h_spec; try assumption; lia.
      * apply do_flip_h_no_crop_spec; auto.
    + apply do_flip_h_spec; try assumption; lia.
  - apply do_flip_v_spec; try assumption; lia.
  - apply do_transpose_spec; try assumption; lia.
  - apply do_transverse_spec; try assumption; lia.
  - apply do_rot_90_spec; try assumption; lia.
  - apply do_rot_180_spec; try assumption; lia.
  - apply do_rot_270_spec; try assumption; lia.
Qed.
