(* C14 -- every generated TurboJPEG allocation program is safe for every first-failing choice point
   (any acquisition returning NULL, any THROW, any libjpeg call longjmp-ing), every component count and
   both initial states of instance-owned members: nothing is released twice or while indeterminate, no libjpeg
   call can longjmp before a handler is established, and on return only blocks handed to the caller
   (success) or owned by the instance remain allocated. *)
From Coq Require Import List ZArith Bool Arith Lia.
From LJT Require Import model.TjAlloc gen.GenTjAlloc.
Import ListNotations.

Lemma check_sound : forall p, check p = true ->
  forall own0 nc k, (nc <= MAXC)%nat -> (k <= 200)%nat -> safe_b p (trun p own0 nc k) = true.
Proof.
  intros p H own0 nc k Hn Hk. unfold check in H. rewrite forallb_forall in H.
  assert (Ho : In own0 [false; true]) by (destruct own0; simpl; auto).
  specialize (H own0 Ho). rewrite forallb_forall in H.
  assert (Hin : In nc (seq 0 (S MAXC))) by (apply in_seq; lia).
  specialize (H nc Hin). rewrite forallb_forall in H.
  apply H. apply in_seq. lia.
Qed.

Lemma all_programs_checked : forallb check tj_progs = true.
Proof. vm_compute. reflexivity. Qed.

Theorem tj_alloc_safe : forall p, In p tj_progs ->
  forall own0 nc k, (nc <= MAXC)%nat -> (k <= 200)%nat -> safe_b p (trun p own0 nc k) = true.
Proof.
  intros p Hp. apply check_sound. pose proof all_programs_checked as H. rewrite forallb_forall in H. auto.
Qed.

(* 200 covers every choice point: no program has more of them, even with MAX_COMPONENTS components *)
Definition choice_points (p : prog) : nat := cnt (trun p false MAXC 5000).
Lemma choice_points_bound : forallb (fun p => choice_points p <=? 200) tj_progs = true /\ (28 <=? tj_acquisition_sites) = true.
Proof. vm_compute. split; reflexivity. Qed.

(* the analysis is not vacuous: dropping the NULL initialisation of a per-component array, or a release, is rejected *)
Definition broken1 : prog :=
  {| p_name := 99; p_body := [I (BDecl 0 false); I BThrow; Loop false [BAcquire 0]]; p_bail := [Loop true [BRelease 0]]; p_escape := []; p_owned := []; p_destroys := false |}.
Definition broken2 : prog :=
  {| p_name := 98; p_body := [I (BDecl 0 true); I (BDecl 1 true); I (BAcquire 0); I (BAcquire 1)]; p_bail := [I (BRelease 0)]; p_escape := []; p_owned := []; p_destroys := false |}.
Definition broken3 : prog :=
  {| p_name := 97; p_body := [I (BDecl 0 true); I (BAcquire 0); I BCall; I BSetjmp]; p_bail := [I (BRelease 0); I (BRelease 0)]; p_escape := []; p_owned := []; p_destroys := false |}.
Lemma broken_rejected : check broken1 = false /\ check broken2 = false /\ check broken3 = false.
Proof. vm_compute. repeat split; reflexivity. Qed.

(* ---- size arithmetic of the malloc sites ---- *)
From LJT Require Import model.SizeExpr proofs.SizeExprProofs.
Local Open Scope Z_scope.

Lemma size_exprs_fit : forallb (fits tj_size_bounds) tj_size_exprs = true.
Proof. vm_compute. reflexivity. Qed.

Theorem tj_malloc_sizes_do_not_wrap : forall e env, In e tj_size_exprs -> env_ok tj_size_bounds env ->
  wrapped e env = exact e env /\ 0 <= exact e env <= ub tj_size_bounds e.
Proof.
  intros e env Hin He. apply fits_sound; auto.
  pose proof size_exprs_fit as H. rewrite forallb_forall in H. auto.
Qed.

Lemma size_exprs_nonvacuous : (20 <=? length tj_size_exprs)%nat = true /\
  fits tj_size_bounds (SMul 32 (SVar 1) (SVar 1)) = false.
Proof. vm_compute. split; reflexivity. Qed.
