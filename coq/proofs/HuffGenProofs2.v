(* HuffGenProofs2.v -- the bits[] phase of jpeg_gen_optimal_table: counting the
   code sizes into UINT8 bits[65], the K.2 length-limiting loop, removal of the
   pseudo symbol; preservation of the weighted (Kraft) sum 2^D. *)
From Coq Require Import List ZArith Lia Bool Permutation Arith.
From LJT Require Import model.Huff proofs.HuffGenBase proofs.HuffGenProofs.
Import ListNotations.
Local Open Scope Z_scope.

Lemma D_big : 300 <= D. Proof. unfold D; lia. Qed.

(* weighted sum over the index window [lo, lo+cnt) with exponent base E *)
Definition W (E : Z) (lo cnt : nat) (b : list Z) : Z :=
  sumZ (map (fun l => nthZ b l * 2 ^ (E - Z.of_nat l)) (seq lo cnt)).
Definition WD (b : list Z) : Z := W D 0 65 b.

Lemma W_split E lo c1 c2 b : W E lo (c1 + c2) b = W E lo c1 b + W E (lo + c1) c2 b.
Proof. unfold W. rewrite seq_app, map_app, sumZ_app. reflexivity. Qed.

Lemma W_S E lo c b : W E lo (S c) b = nthZ b lo * 2 ^ (E - Z.of_nat lo) + W E (S lo) c b.
Proof. reflexivity. Qed.

Lemma W_one E lo b : W E lo 1 b = nthZ b lo * 2 ^ (E - Z.of_nat lo).
Proof. unfold W. cbn [seq map sumZ]. lia. Qed.

Lemma W_ext E lo cnt b b' :
  (forall l, (lo <= l < lo + cnt)%nat -> nthZ b l = nthZ b' l) -> W E lo cnt b = W E lo cnt b'.
Proof.
  intros H. unfold W. apply sumZ_map_ext_in. intros l Hl. apply in_seq in Hl.
  rewrite (H l Hl). reflexivity.
Qed.

Lemma W_zero E lo cnt b :
  (forall l, (lo <= l < lo + cnt)%nat -> nthZ b l = 0) -> W E lo cnt b = 0.
Proof.
  intros H. unfold W. apply sumZ_map_zero. intros l Hl. apply in_seq in Hl.
  rewrite (H l Hl). lia.
Qed.

Lemma W_scale E1 E2 lo cnt b :
  Z.of_nat (lo + cnt) - 1 <= E2 -> E2 <= E1 ->
  W E1 lo cnt b = 2 ^ (E1 - E2) * W E2 lo cnt b.
Proof.
  intros H1 H2. unfold W.
  rewrite <- (sumZ_map_scale (fun l => nthZ b l * 2 ^ (E2 - Z.of_nat l))).
  apply sumZ_map_ext_in. intros l Hl. apply in_seq in Hl.
  replace (E1 - Z.of_nat l) with ((E1 - E2) + (E2 - Z.of_nat l)) by lia.
  rewrite Z.pow_add_r by lia. lia.
Qed.

Lemma W_upd E b i x : (i < length b)%nat -> forall cnt lo, (lo <= i < lo + cnt)%nat ->
  W E lo cnt (upd i x b) = W E lo cnt b + (x - nthZ b i) * 2 ^ (E - Z.of_nat i).
Proof.
  intros Hi. induction cnt as [|c IH]; intros lo H; [lia|].
  rewrite !W_S. destruct (Nat.eq_dec lo i) as [->|Hne].
  - rewrite nthZ_upd_eq by exact Hi.
    rewrite (W_ext E (S i) c (upd i x b) b).
    + lia.
    + intros l Hl. apply nthZ_upd_ne. lia.
  - rewrite nthZ_upd_ne by auto. rewrite IH by lia. lia.
Qed.

(* ------------------------------------------------------- base invariant *)
Definition BInv (b : list Z) : Prop := length b = 65%nat /\ forall l, 0 <= nthZ b l.

Lemma BInv_In b : BInv b -> forall x, In x b -> 0 <= x.
Proof. intros [_ H] x Hx. destruct (In_nth _ _ 0 Hx) as (i & _ & <-). apply H. Qed.

Lemma wrap8_small x : 0 <= x <= 255 -> wrap8 x = x.
Proof. intros; unfold wrap8; apply Z.mod_small; lia. Qed.

Lemma bump_upd b i d :
  BInv b -> (i < 65)%nat -> 0 <= nthZ b i + d <= 255 ->
  let b' := upd i (wrap8 (nthZ b i + d)) b in
  BInv b' /\ sumZ b' = sumZ b + d /\ WD b' = WD b + d * 2 ^ (D - Z.of_nat i) /\
  nthZ b' i = nthZ b i + d /\ (forall l, l <> i -> nthZ b' l = nthZ b l).
Proof.
  intros [L N] Hi Hr b'. unfold b'. rewrite wrap8_small by exact Hr.
  assert (Hil : (i < length b)%nat) by lia.
  split; [split|].
  - rewrite upd_length. exact L.
  - intros l. destruct (Nat.eq_dec l i) as [->|Hne].
    + rewrite nthZ_upd_eq by exact Hil. lia.
    + rewrite nthZ_upd_ne by auto. apply N.
  - split; [rewrite sumZ_upd by exact Hil; lia|].
    split; [unfold WD; rewrite W_upd by (try exact Hil; lia); lia|].
    split; [apply nthZ_upd_eq; exact Hil|].
    intros l Hne. apply nthZ_upd_ne. auto.
Qed.

(* --------------------------------------------------------- count_bits *)
Lemma count_bits_none cs : forall b, count_bits cs b = None -> exists c, In c cs /\ c > 64.
Proof.
  induction cs as [|c t IH]; intros b H; cbn [count_bits] in H; [discriminate H|].
  change (Z.of_nat MAX_CLEN) with 64 in H.
  destruct (c >? 64) eqn:E.
  - exists c. split; [left; reflexivity|lia].
  - destruct (IH _ H) as (c' & Hc & Hg). exists c'. split; [right; exact Hc|exact Hg].
Qed.

Lemma count_bits_some cs : forall b b',
  BInv b -> sumZ b + Z.of_nat (length cs) <= 255 -> (forall c, In c cs -> 1 <= c) ->
  nthZ b 0 = 0 -> count_bits cs b = Some b' ->
  BInv b' /\ sumZ b' = sumZ b + Z.of_nat (length cs) /\
  WD b' = WD b + sumZ (map pw cs) /\ nthZ b' 0 = 0 /\ (forall c, In c cs -> c <= 64).
Proof.
  induction cs as [|c t IH]; intros b b' Hb Hs Hc H0 E; cbn [count_bits] in E.
  - injection E as <-. cbn [length map sumZ]. repeat split; try apply Hb; try lia.
    intros c [].
  - change (Z.of_nat MAX_CLEN) with 64 in E.
    destruct (c >? 64) eqn:G; [discriminate E|].
    assert (Hc1 : 1 <= c) by (apply Hc; left; reflexivity).
    cbn [length] in Hs.
    assert (Hi : (Z.to_nat c < 65)%nat) by lia.
    pose proof (sumZ_term b (Z.to_nat c) (BInv_In b Hb)) as Hle.
    destruct Hb as [Lb Nb]. pose proof (Nb (Z.to_nat c)) as Hn0.
    destruct (bump_upd b (Z.to_nat c) 1 (conj Lb Nb) Hi ltac:(lia)) as (B1 & S1 & W1 & _ & O1).
    cbv zeta in B1, S1, W1, O1.
    destruct (IH _ _ B1 ltac:(lia) ltac:(intros; apply Hc; right; assumption)
                 ltac:(rewrite O1 by lia; exact H0) E) as (B2 & S2 & W2 & Z2 & C2).
    split; [exact B2|]. cbn [length map sumZ].
    split; [lia|]. split.
    + rewrite W2, W1. unfold pw at 2. rewrite Z2Nat.id by lia. lia.
    + split; [exact Z2|]. intros c' [<-|Hc']; [lia|apply C2; exact Hc'].
Qed.

(* ----------------------------------------------------- loop invariant *)
Definition LInv (n : Z) (i : nat) (b : list Z) : Prop :=
  BInv b /\ sumZ b = n /\ WD b = 2 ^ D /\ nthZ b 0 = 0 /\ forall l, (i < l)%nat -> nthZ b l = 0.

Lemma WD_split i b : (i <= 64)%nat ->
  WD b = W D 0 i b + nthZ b i * 2 ^ (D - Z.of_nat i) + W D (S i) (64 - i) b.
Proof.
  intros H. unfold WD. replace 65%nat with (i + (1 + (64 - i)))%nat by lia.
  rewrite !W_split, W_one. cbn [Nat.add]. replace (i + 1)%nat with (S i) by lia. lia.
Qed.

Lemma W_snoc E lo c b :
  W E lo (S c) b = W E lo c b + nthZ b (lo + c) * 2 ^ (E - Z.of_nat (lo + c)).
Proof. replace (S c) with (c + 1)%nat by lia. rewrite W_split, W_one. reflexivity. Qed.

Lemma pow_D_split i : Z.of_nat i <= D -> 2 ^ D = 2 ^ (D - Z.of_nat i) * 2 ^ Z.of_nat i.
Proof. intros H. rewrite <- Z.pow_add_r by lia. f_equal. lia. Qed.

(* the count at the largest used length is even *)
Lemma top_even n i b : LInv n i b -> (1 <= i <= 64)%nat -> exists k, nthZ b i = 2 * k.
Proof.
  intros (Hb & Hs & Hw & H0 & Hz) Hi.
  rewrite (WD_split i b) in Hw by lia.
  rewrite (W_zero D (S i)) in Hw by (intros l Hl; apply Hz; lia).
  pose proof D_big as HD.
  rewrite (W_scale D (Z.of_nat i - 1) 0 i) in Hw by lia.
  set (X := W (Z.of_nat i - 1) 0 i b) in *.
  set (P := 2 ^ (D - Z.of_nat i)) in *. set (Q := 2 ^ (Z.of_nat i - 1)).
  assert (ED : 2 ^ D = P * (2 * Q)).
  { unfold P, Q. rewrite <- Z.pow_succ_r by lia. rewrite <- Z.pow_add_r by lia. f_equal. lia. }
  assert (EP : 2 ^ (D - (Z.of_nat i - 1)) = 2 * P).
  { unfold P. rewrite <- Z.pow_succ_r by lia. f_equal. lia. }
  rewrite ED, EP in Hw.
  assert (HP : 0 < P) by (apply Z.pow_pos_nonneg; lia).
  exists (Q - X).
  apply (Z.mul_reg_l _ _ P); [lia|]. lia.
Qed.

(* some shorter length is in use when the top length is above 16 *)
Lemma lower_used n i b :
  LInv n i b -> (17 <= i <= 64)%nat -> n <= 255 ->
  (forall l, (l <= i - 2)%nat -> nthZ b l = 0) -> False.
Proof.
  intros (Hb & Hs & Hw & H0 & Hz) Hi Hn Hlow.
  rewrite (WD_split i b) in Hw by lia.
  rewrite (W_zero D (S i)) in Hw by (intros l Hl; apply Hz; lia).
  replace i with (S (i - 1)) in Hw at 1 by lia.
  rewrite W_snoc in Hw. cbn [Nat.add] in Hw.
  rewrite (W_zero D 0 (i - 1)) in Hw by (intros l Hl; apply Hlow; lia).
  pose proof D_big as HD.
  set (P := 2 ^ (D - Z.of_nat i)) in *.
  assert (ED : 2 ^ D = P * 2 ^ Z.of_nat i) by (apply pow_D_split; lia).
  assert (EP : 2 ^ (D - Z.of_nat (i - 1)) = 2 * P).
  { unfold P. rewrite <- Z.pow_succ_r by lia. f_equal. lia. }
  rewrite ED, EP in Hw.
  assert (HP : 0 < P) by (apply Z.pow_pos_nonneg; lia).
  assert (E : 2 * nthZ b (i - 1) + nthZ b i = 2 ^ Z.of_nat i).
  { apply (Z.mul_reg_l _ _ P); [lia|]. lia. }
  assert (2 ^ 17 <= 2 ^ Z.of_nat i) by (apply Z.pow_le_mono_r; lia).
  pose proof (sumZ_term b (i - 1) (BInv_In b Hb)).
  pose proof (sumZ_term b i (BInv_In b Hb)).
  assert (2 ^ 17 = 131072) by reflexivity. lia.
Qed.

(* ----------------------------------------------------------------- find_j *)
Lemma find_j_none b : forall k, find_j b k = None -> forall l, (l <= k)%nat -> nthZ b l = 0.
Proof.
  induction k as [|k IH]; intros H l Hl; cbn [find_j] in H.
  - destruct (nthZ b 0 =? 0) eqn:E; [|discriminate H]. apply Z.eqb_eq in E.
    replace l with 0%nat by lia. exact E.
  - destruct (nthZ b (S k) =? 0) eqn:E; [|discriminate H]. apply Z.eqb_eq in E.
    destruct (Nat.eq_dec l (S k)) as [->|Hne]; [exact E|]. apply IH; [exact H|lia].
Qed.

Lemma find_j_some b : forall k j, find_j b k = Some j ->
  (j <= k)%nat /\ nthZ b j <> 0 /\ forall l, (j < l <= k)%nat -> nthZ b l = 0.
Proof.
  induction k as [|k IH]; intros j H; cbn [find_j] in H.
  - destruct (nthZ b 0 =? 0) eqn:E; [discriminate H|]. apply Z.eqb_neq in E.
    injection H as <-. split; [lia|]. split; [exact E|]. intros; lia.
  - destruct (nthZ b (S k) =? 0) eqn:E.
    + apply Z.eqb_eq in E. destruct (IH _ H) as (Hj & Hn & Hz).
      split; [lia|]. split; [exact Hn|]. intros l Hl.
      destruct (Nat.eq_dec l (S k)) as [->|Hne]; [exact E|]. apply Hz. lia.
    + apply Z.eqb_neq in E. injection H as <-. split; [lia|]. split; [exact E|]. intros; lia.
Qed.

(* ------------------------------------------------------- one K.2 step *)
Lemma limit_once_spec n i b :
  LInv n i b -> (17 <= i <= 64)%nat -> n <= 255 -> nthZ b i > 0 ->
  exists b', limit_once b i = Some b' /\ LInv n i b' /\ nthZ b' i = nthZ b i - 2.
Proof.
  intros I Hi Hn Hpos.
  destruct (top_even n i b I ltac:(lia)) as (k & Hk).
  pose proof I as (Hb & Hs & Hw & H0 & Hz).
  pose proof D_big as HD.
  unfold limit_once. destruct (find_j b (i - 2)) as [j|] eqn:EJ.
  2:{ exfalso. apply (lower_used n i b I Hi Hn). apply find_j_none. exact EJ. }
  destruct (find_j_some _ _ _ EJ) as (Hj & Hjn & _).
  pose proof (proj2 Hb j) as Hj0.
  assert (Hj1 : (1 <= j)%nat).
  { destruct j; [contradiction|lia]. }
  pose proof (sumZ_term b i (BInv_In b Hb)) as Hbi.
  (* bits[i] -= 2 *)
  change (nthZ b i - 2) with (nthZ b i + (-2)).
  destruct (bump_upd b i (-2) Hb ltac:(lia) ltac:(lia)) as (B1 & S1 & W1 & V1 & O1).
  cbv zeta in B1, S1, W1, V1, O1.
  set (b1 := upd i (wrap8 (nthZ b i + -2)) b) in *.
  (* bits[i-1]++ *)
  pose proof (sumZ_term b1 (i - 1) (BInv_In b1 B1)) as Hb1.
  pose proof (proj2 B1 (i - 1)%nat) as Hb1n.
  destruct (bump_upd b1 (i - 1) 1 B1 ltac:(lia) ltac:(lia)) as (B2 & S2 & W2 & V2 & O2).
  cbv zeta in B2, S2, W2, V2, O2.
  set (b2 := upd (i - 1) (wrap8 (nthZ b1 (i - 1) + 1)) b1) in *.
  (* bits[j+1] += 2 *)
  assert (Hb2j : nthZ b2 j = nthZ b j).
  { rewrite O2 by lia. rewrite O1 by lia. reflexivity. }
  pose proof (sumZ_two_terms b2 (j + 1) j (BInv_In b2 B2)
                ltac:(rewrite (proj1 B2); lia) ltac:(rewrite (proj1 B2); lia) ltac:(lia)) as Hb2.
  pose proof (proj2 B2 (j + 1)%nat) as Hb2n.
  destruct (bump_upd b2 (j + 1) 2 B2 ltac:(lia) ltac:(lia)) as (B3 & S3 & W3 & V3 & O3).
  cbv zeta in B3, S3, W3, V3, O3.
  set (b3 := upd (j + 1) (wrap8 (nthZ b2 (j + 1) + 2)) b2) in *.
  (* bits[j]-- *)
  assert (Hb3j : nthZ b3 j = nthZ b j).
  { rewrite O3 by lia. exact Hb2j. }
  pose proof (sumZ_term b3 j (BInv_In b3 B3)) as Hb3.
  change (nthZ b3 j - 1) with (nthZ b3 j + (-1)).
  destruct (bump_upd b3 j (-1) B3 ltac:(lia) ltac:(lia)) as (B4 & S4 & W4 & V4 & O4).
  cbv zeta in B4, S4, W4, V4, O4.
  set (b4 := upd j (wrap8 (nthZ b3 j + -1)) b3) in *.
  exists b4. split; [reflexivity|].
  assert (E1 : 2 ^ (D - Z.of_nat (i - 1)) = 2 * 2 ^ (D - Z.of_nat i)).
  { replace (D - Z.of_nat (i - 1)) with (Z.succ (D - Z.of_nat i)) by lia.
    apply Z.pow_succ_r. lia. }
  assert (E2 : 2 ^ (D - Z.of_nat j) = 2 * 2 ^ (D - Z.of_nat (j + 1))).
  { replace (D - Z.of_nat j) with (Z.succ (D - Z.of_nat (j + 1))) by lia.
    apply Z.pow_succ_r. lia. }
  split; [split; [exact B4|]|].
  - split; [lia|]. split; [lia|]. split.
    + rewrite O4, O3, O2, O1 by lia. exact H0.
    + intros l Hl. rewrite O4, O3, O2, O1 by lia. apply Hz. exact Hl.
  - rewrite O4, O3, O2 by lia. rewrite V1. lia.
Qed.

Lemma limit_while_eq fuel b i :
  limit_while fuel b i =
  if nthZ b i >? 0 then
    match fuel with
    | O => Some None
    | S k => match limit_once b i with None => None | Some b' => limit_while k b' i end
    end
  else Some (Some b).
Proof. destruct fuel; reflexivity. Qed.

Lemma limit_while_spec n i : (17 <= i <= 64)%nat -> n <= 255 ->
  forall fuel b, LInv n i b -> nthZ b i <= 2 * Z.of_nat fuel ->
  exists b', limit_while fuel b i = Some (Some b') /\ LInv n i b' /\ nthZ b' i = 0.
Proof.
  intros Hi Hn. induction fuel as [|k IH]; intros b I Hf; rewrite limit_while_eq.
  - destruct (nthZ b i >? 0) eqn:G; [lia|].
    exists b. split; [reflexivity|]. split; [exact I|].
    pose proof (proj2 (proj1 I) i). lia.
  - destruct (nthZ b i >? 0) eqn:G.
    + destruct (limit_once_spec n i b I Hi Hn ltac:(lia)) as (b1 & E1 & I1 & V1).
      rewrite E1. apply IH; [exact I1|lia].
    + exists b. split; [reflexivity|]. split; [exact I|].
      pose proof (proj2 (proj1 I) i). lia.
Qed.

Lemma LInv_down n i b : LInv n (S i) b -> nthZ b (S i) = 0 -> LInv n i b.
Proof.
  intros (Hb & Hs & Hw & H0 & Hz) E. repeat split; try apply Hb; auto.
  intros l Hl. destruct (Nat.eq_dec l (S i)) as [->|Hne]; [exact E|apply Hz; lia].
Qed.

Lemma limit_for_S k b :
  limit_for (S k) b =
  match limit_while 300 b (16 + S k) with
  | Some (Some b') => limit_for k b'
  | r => r
  end.
Proof. reflexivity. Qed.

Lemma limit_for_spec n : n <= 255 -> forall k b, (k <= 48)%nat -> LInv n (16 + k) b ->
  exists b', limit_for k b = Some (Some b') /\ LInv n 16 b'.
Proof.
  intros Hn. induction k as [|k IH]; intros b Hk I.
  - exists b. split; [reflexivity|exact I].
  - rewrite limit_for_S.
    pose proof (sumZ_term b (16 + S k) (BInv_In b (proj1 I))) as Hle.
    destruct I as (Hb & Hs & Hrest).
    destruct (limit_while_spec n (16 + S k) ltac:(lia) Hn 300 b (conj Hb (conj Hs Hrest)) ltac:(lia))
      as (b1 & E1 & I1 & V1).
    rewrite E1. apply IH; [lia|].
    apply LInv_down; [|replace (S (16 + k)) with (16 + S k)%nat by lia; exact V1].
    replace (S (16 + k)) with (16 + S k)%nat by lia. exact I1.
Qed.

(* ---------------------------------------------- firstn / skipn helpers *)
Lemma nth_firstn_lt {A} (d : A) : forall k l i, (i < k)%nat -> nth i (firstn k l) d = nth i l d.
Proof.
  induction k as [|k IH]; intros l i H; [lia|].
  destruct l as [|h t]; [reflexivity|]. destruct i as [|i]; [reflexivity|].
  cbn [firstn nth]. apply IH. lia.
Qed.

Lemma nthZ_firstn k l i : nthZ (firstn k l) i = if (i <? k)%nat then nthZ l i else 0.
Proof.
  unfold nthZ. destruct (i <? k)%nat eqn:E.
  - apply Nat.ltb_lt in E. apply nth_firstn_lt. exact E.
  - apply Nat.ltb_ge in E. apply nth_overflow. rewrite firstn_length. lia.
Qed.

Lemma nth_skipn_add {A} (d : A) : forall k l i, nth i (skipn k l) d = nth (k + i) l d.
Proof.
  induction k as [|k IH]; intros l i; [reflexivity|].
  destruct l as [|h t]; [destruct i; reflexivity|]. cbn [skipn Nat.add nth]. apply IH.
Qed.

Lemma fold_keep (bits : list Z) ls : forall m,
  (forall l, In l ls -> nthZ bits l = 0) ->
  fold_left (fun m l => if nthZ bits l >? 0 then Z.of_nat l else m) ls m = m.
Proof.
  induction ls as [|h t IH]; intros m H; [reflexivity|].
  cbn [fold_left]. rewrite (H h) by (left; reflexivity). cbn.
  apply IH. intros; apply H; right; assumption.
Qed.

Lemma maxlen_spec bits L :
  (1 <= L <= 16)%nat -> nthZ bits L > 0 -> (forall l, (L < l <= 16)%nat -> nthZ bits l = 0) ->
  maxlen bits = Z.of_nat L.
Proof.
  intros HL Hp Hz. unfold maxlen.
  assert (Es : seq 1 16 = seq 1 (L - 1) ++ L :: seq (S L) (16 - L)).
  { replace 16%nat with ((L - 1) + S (16 - L))%nat at 1 by lia.
    rewrite seq_app. cbn [seq]. replace (1 + (L - 1))%nat with L by lia. reflexivity. }
  rewrite Es, fold_left_app. cbn [fold_left].
  destruct (nthZ bits L >? 0) eqn:G; [|lia].
  apply fold_keep. intros l Hl. apply in_seq in Hl. apply Hz. lia.
Qed.

(* ------------------------------------------- remove_pseudo and read-out *)
Lemma tail_spec n b0 :
  2 <= n <= 255 -> LInv n 64 b0 ->
  exists b1 b2 L,
    limit_for 48 b0 = Some (Some b1) /\ remove_pseudo b1 = Some b2 /\ (1 <= L <= 16)%nat /\
    let bits := firstn 17 b2 in
    length bits = 17%nat /\ nthZ bits 0 = 0 /\ (forall l, 0 <= nthZ bits l <= 255) /\
    sumZ (skipn 1 bits) = n - 1 /\ maxlen bits = Z.of_nat L /\
    kraft16 bits = 2 ^ 16 - 2 ^ (16 - Z.of_nat L).
Proof.
  intros Hn I0.
  destruct (limit_for_spec n ltac:(lia) 48 b0 ltac:(lia) I0) as (b1 & E1 & I1).
  exists b1. pose proof I1 as (Hb & Hs & Hw & H0 & Hz).
  pose proof D_big as HD.
  unfold remove_pseudo. change LIMIT_LEN with 16%nat. destruct (find_j b1 16) as [L|] eqn:EJ.
  2:{ exfalso. pose proof (find_j_none _ _ EJ) as Hlow.
      unfold WD in Hw. rewrite W_zero in Hw.
      - assert (0 < 2 ^ D) by (apply Z.pow_pos_nonneg; lia). lia.
      - intros l Hl. destruct (Nat.le_gt_cases l 16); [apply Hlow|apply Hz]; lia. }
  destruct (find_j_some _ _ _ EJ) as (HL & HLn & HLz).
  pose proof (proj2 Hb L) as HL0.
  assert (HL1 : (1 <= L)%nat) by (destruct L; [contradiction|lia]).
  assert (IL : LInv n L b1).
  { repeat split; try apply Hb; auto. intros l Hl.
    destruct (Nat.le_gt_cases l 16); [apply HLz|apply Hz]; lia. }
  destruct (top_even n L b1 IL ltac:(lia)) as (k & Hk).
  pose proof (sumZ_term b1 L (BInv_In b1 Hb)) as HbL.
  change (nthZ b1 L - 1) with (nthZ b1 L + (-1)).
  destruct (bump_upd b1 L (-1) Hb ltac:(lia) ltac:(lia)) as (B2 & S2 & W2 & V2 & O2).
  cbv zeta in B2, S2, W2, V2, O2.
  set (b2 := upd L (wrap8 (nthZ b1 L + -1)) b1) in *.
  exists b2, L. split; [exact E1|]. split; [reflexivity|]. split; [lia|].
  cbv zeta.
  assert (Z2 : forall l, (L < l)%nat -> nthZ b2 l = 0).
  { intros l Hl. rewrite O2 by lia. destruct (Nat.le_gt_cases l 16); [apply HLz|apply Hz]; lia. }
  assert (H20 : nthZ b2 0 = 0) by (rewrite O2 by lia; exact H0).
  assert (Lf : length (firstn 17 b2) = 17%nat) by (rewrite firstn_length, (proj1 B2); reflexivity).
  split; [exact Lf|].
  split; [rewrite nthZ_firstn; cbn; exact H20|].
  split.
  { intros l. rewrite nthZ_firstn. destruct (l <? 17)%nat; [|lia].
    pose proof (proj2 B2 l). pose proof (sumZ_term b2 l (BInv_In b2 B2)). lia. }
  split.
  { (* plain sum *)
    assert (Esk : sumZ (skipn 17 b2) = 0).
    { apply sumZ_zero. intros x Hx. destruct (In_nth _ _ 0 Hx) as (j & _ & <-).
      rewrite nth_skipn_add. apply Z2. lia. }
    pose proof (firstn_skipn 17 b2) as Efs.
    assert (Esum : sumZ (firstn 17 b2) = sumZ b2).
    { rewrite <- Efs at 2. rewrite sumZ_app. lia. }
    assert (Eh : nthZ (firstn 17 b2) 0 = 0) by (rewrite nthZ_firstn; cbn; exact H20).
    destruct (firstn 17 b2) as [|x0 rest]; [discriminate Lf|].
    cbn in Eh. subst x0. cbn [skipn]. cbn [sumZ] in Esum. lia. }
  split.
  { apply maxlen_spec; [lia| |].
    - rewrite nthZ_firstn. replace (L <? 17)%nat with true by (symmetry; apply Nat.ltb_lt; lia). lia.
    - intros l Hl. rewrite nthZ_firstn. destruct (l <? 17)%nat; [apply Z2; lia|reflexivity]. }
  (* Kraft *)
  change (kraft16 (firstn 17 b2)) with (W 16 1 16 (firstn 17 b2)).
  rewrite (W_ext 16 1 16 (firstn 17 b2) b2).
  2:{ intros l Hl. rewrite nthZ_firstn.
      replace (l <? 17)%nat with true by (symmetry; apply Nat.ltb_lt; lia). reflexivity. }
  assert (EW : WD b2 = 2 ^ D - 2 ^ (D - Z.of_nat L)) by lia.
  unfold WD in EW. replace 65%nat with (1 + (16 + 48))%nat in EW by reflexivity.
  rewrite !W_split in EW. cbn [Nat.add] in EW.
  rewrite (W_zero D 0 1) in EW by (intros l Hl; replace l with 0%nat by lia; exact H20).
  rewrite (W_zero D 17 48) in EW by (intros l Hl; apply Z2; lia).
  rewrite (W_scale D 16 1 16) in EW by (cbn; lia).
  replace (2 ^ D) with (2 ^ (D - 16) * 2 ^ 16) in EW
    by (rewrite <- Z.pow_add_r by lia; f_equal; lia).
  replace (2 ^ (D - Z.of_nat L)) with (2 ^ (D - 16) * 2 ^ (16 - Z.of_nat L)) in EW
    by (rewrite <- Z.pow_add_r by lia; f_equal; lia).
  set (P := 2 ^ (D - 16)) in *.
  assert (HP : 0 < P) by (apply Z.pow_pos_nonneg; lia).
  apply (Z.mul_reg_l _ _ P); [lia|]. lia.
Qed.
