(* The facts read from the CURRENT sources by tools/gen_Lossless.py
   (gen/GenLossless.v) are the ones model/Lossless.v is written from. *)
From Coq Require Import List ZArith Lia.
From LJT Require Import model.Lossless gen.GenLossless.
Import ListNotations.
Local Open Scope Z_scope.

Definition id_wiring : list (Z * Z) := [(1, 1); (2, 2); (3, 3); (4, 4); (5, 5); (6, 6); (7, 7)].
(* jpeg_[un]difference1 is the one-dimensional routine started with Rb = prev_row[0],
   jpeg_[un]difference<n> (n >= 2) is the two-dimensional routine with PREDICTOR<n> *)
Definition model_wiring : list (Z * Z) := [(1, 0); (2, 2); (3, 3); (4, 4); (5, 5); (6, 6); (7, 7)].

Lemma gen_predictor_is_model psv Ra Rb Rc : gen_predictor psv Ra Rb Rc = predictor psv Ra Rb Rc.
Proof.
  unfold gen_predictor, predictor, RIGHT_SHIFT.
  destruct psv as [|p|p]; reflexivity.
Qed.

Lemma gen_initial_is_model prec pt :
  gen_initial_x_c prec pt = initial_predictor_x prec pt /\ gen_initial_x_d prec pt = initial_predictor_x prec pt.
Proof. split; reflexivity. Qed.

Lemma gen_masks_are_and16 : gen_undiff_masks <> [] /\ Forall (fun m => forall x, Z.land x m = and16 x) gen_undiff_masks.
Proof. split; [discriminate|]. repeat constructor. Qed.

Theorem gen_source_facts :
  (forall psv Ra Rb Rc, gen_predictor psv Ra Rb Rc = predictor psv Ra Rb Rc) /\
  (forall prec pt, gen_initial_x_c prec pt = initial_predictor_x prec pt /\
                   gen_initial_x_d prec pt = initial_predictor_x prec pt) /\
  gen_diff_wiring = model_wiring /\ gen_undiff_wiring = model_wiring /\
  gen_diff_switch = id_wiring /\ gen_undiff_switch = id_wiring /\
  (gen_undiff_masks <> [] /\ Forall (fun m => forall x, Z.land x m = and16 x) gen_undiff_masks) /\
  gen_huff_consts = [32768; 32767; 32767; 32768; 16; 16; 32768].
Proof.
  split; [exact gen_predictor_is_model|]. split; [exact gen_initial_is_model|].
  repeat (split; [reflexivity|]). split; [exact gen_masks_are_and16|reflexivity].
Qed.

(* jdlhuff.c / jddiffct.c follow the suspension protocol the model
   (decode_mcus_susp, resume_calls) is written from *)
Lemma gen_suspension_facts :
  gen_bitread_save_per_mcu = true /\ gen_suspend_returns_mcu_num = true /\ gen_resume_at_mcu_ctr = true.
Proof. repeat split; reflexivity. Qed.
