(* The facts read from the CURRENT sources by tools/gen_Lossless.py
   (gen/GenLossless.v) are the ones model/Lossless.v is written from. *)
From Coq Require Import List ZArith Lia Bool.
From LJT Require Import model.Lossless gen.GenLossless.
Import ListNotations.
Local Open Scope Z_scope.

Definition id_wiring : list (Z * Z) := [(1, 1); (2, 2); (3, 3); (4, 4); (5, 5); (6, 6); (7, 7)].
(* jpeg_[un]difference1 is the one-dimensional routine started with Rb = prev_row[0],
   jpeg_[un]difference<n> (n >= 2) is the two-dimensional routine with PREDICTOR<n> *)
Definition model_wiring : list (Z * Z) := [(1, 0); (2, 2); (3, 3); (4, 4); (5, 5); (6, 6); (7, 7)].

Lemma gen_predictor_is_model psv Ra Rb Rc : gen_predictor psv Ra Rb Rc = predictor psv Ra Rb Rc.
Proof.
  unfold gen_predictor, predictor, RIGHT_SHIFT.
  destruct psv as [|p|p]; reflexivity.
Qed.

Lemma gen_initial_is_model prec pt :
  gen_initial_x_c prec pt = initial_predictor_x prec pt /\ gen_initial_x_d prec pt = initial_predictor_x prec pt.
Proof. split; reflexivity. Qed.

Lemma gen_masks_are_and16 : gen_undiff_masks <> [] /\ Forall (fun m => forall x, Z.land x m = and16 x) gen_undiff_masks.
Proof. split; [discriminate|]. repeat constructor. Qed.

Theorem gen_source_facts :
  (forall psv Ra Rb Rc, gen_predictor psv Ra Rb Rc = predictor psv Ra Rb Rc) /\
  (forall prec pt, gen_initial_x_c prec pt = initial_predictor_x prec pt /\
                   gen_initial_x_d prec pt = initial_predictor_x prec pt) /\
  gen_diff_wiring = model_wiring /\ gen_undiff_wiring = model_wiring /\
  gen_diff_switch = id_wiring /\ gen_undiff_switch = id_wiring /\
  (gen_undiff_masks <> [] /\ Forall (fun m => forall x, Z.land x m = and16 x) gen_undiff_masks) /\
  gen_huff_consts = [32768; 32767; 32767; 32768; 16; 16; 32768].
Proof.
  split; [exact gen_predictor_is_model|]. split; [exact gen_initial_is_model|].
  repeat (split; [reflexivity|]). split; [exact gen_masks_are_and16|reflexivity].
Qed.

(* jdlhuff.c / jddiffct.c follow the suspension protocol the model
   (decode_mcus_susp, resume_calls) is written from *)
Lemma gen_suspension_facts :
  gen_bitread_save_per_mcu = true /\ gen_suspend_returns_mcu_num = true /\ gen_resume_at_mcu_ctr = true.
Proof. repeat split; reflexivity. Qed.

(* ---- byte level and pixel formats ---- *)
From LJT Require Import model.LosslessBytes model.LosslessPixels.

(* the constants emit_bits / flush_bits / emit_restart of the model are written with *)
Definition model_byte_consts : list Z := [24; 16; 255; 8; 255; 127; 7; JPEG_RST0; 7].

(* slots (offsets) of a TurboJPEG pixel format: R, G, B and alpha when there is one;
   TJPF_GRAY / TJPF_CMYK go through grayscale_convert / null_convert: component ci at inptr[ci] *)
Definition slots_of (l : Z * Z * Z * Z * Z) : list nat :=
  let '(r, g, b, a, ps) := l in
  if r <? 0 then seq 0 (Z.to_nat ps) else map Z.to_nat (if a <? 0 then [r; g; b] else [r; g; b; a]).

Definition nodup_nat (l : list nat) : bool :=
  (fix go (l : list nat) : bool :=
     match l with [] => true | x :: t => negb (existsb (Nat.eqb x) t) && go t end) l.

(* per format: turbojpeg.h agrees with the jmorecfg.h tables of the colour space the
   converters see, the offsets are distinct and below the pixel size *)
Definition layout_ok (tj : Z * Z * Z * Z * Z) (jp : Z * Z * Z * Z) : bool :=
  let '(r, g, b, a, ps) := tj in
  let '(jr, jg, jb, jps) := jp in
  if r <? 0 then (jr <? 0) && (1 <=? ps) && nodup_nat (slots_of tj) && forallb (fun o => (o <? Z.to_nat ps)%nat) (slots_of tj)
  else (r =? jr) && (g =? jg) && (b =? jb) && (ps =? jps) &&
       nodup_nat (slots_of tj) && forallb (fun o => (o <? Z.to_nat ps)%nat) (slots_of tj).

Lemma nodup_nat_sound l : nodup_nat l = true -> NoDup l.
Proof.
  induction l as [|x t IH]; intros H; [constructor|]. cbn in H. apply andb_prop in H. destruct H as [H1 H2].
  constructor; [|apply IH; exact H2]. intros Hin. apply negb_true_iff in H1.
  assert (existsb (Nat.eqb x) t = true) by (apply existsb_exists; exists x; split; [exact Hin|apply Nat.eqb_refl]).
  congruence.
Qed.

(* slots the DEcompressor stores: R, G, B and the slot jdcolor.c calls RGB_ALPHA (all
   4-sample RGB formats, set to _MAXJSAMPLE) *)
Definition dec_slots_of (l : Z * Z * Z * Z * Z) (alpha : Z) : list nat :=
  let '(r, g, b, _, ps) := l in
  if r <? 0 then seq 0 (Z.to_nat ps) else map Z.to_nat (if alpha <? 0 then [r; g; b] else [r; g; b; alpha]).
Definition dec_alpha_ok (tj : Z * Z * Z * Z * Z) (alpha : Z) : bool :=
  let '(r, g, b, a, ps) := tj in
  ((a <? 0) || (a =? alpha)) && nodup_nat (dec_slots_of tj alpha) &&
  forallb (fun o => (o <? Z.to_nat ps)%nat) (dec_slots_of tj alpha).

Lemma gen_bytes_pixels_facts :
  gen_byte_consts = model_byte_consts /\
  length gen_tj_layout = 12%nat /\
  forallb (fun p => layout_ok (fst p) (snd p)) (combine gen_tj_layout gen_jpeg_layout) = true /\
  forallb (fun p => dec_alpha_ok (fst p) (snd p)) (combine gen_tj_layout gen_dec_alpha) = true.
Proof. repeat split; reflexivity. Qed.

(* consequence used by the layout theorem: every RGB-family format has distinct
   offsets below its pixel size *)
Lemma gen_layout_slots : forall tj, In tj gen_tj_layout ->
  NoDup (slots_of tj) /\ Forall (fun o => (o < Z.to_nat (snd tj))%nat) (slots_of tj).
Proof.
  intros tj Hin. cbn in Hin.
  repeat (destruct Hin as [<-|Hin]; [split; [apply nodup_nat_sound; reflexivity|repeat constructor]|]).
  destruct Hin.
Qed.

From LJT Require Import proofs.LosslessPixelsProofs.

(* every TurboJPEG pixel format, either row order, any pitch >= width * pixel size:
   what tj3Decompress* stores in a packed buffer is what tj3Compress* reads from it *)
Theorem tj_pixel_roundtrip : forall tj, In tj gen_tj_layout ->
  forall bottomup w h pitch val buf i x k,
  (w * Z.to_nat (snd tj) <= pitch)%nat -> (h * pitch <= length buf)%nat ->
  (i < h)%nat -> (x < w)%nat -> (k < length (slots_of tj))%nat ->
  gather bottomup h pitch (Z.to_nat (snd tj)) (slots_of tj)
         (scatter bottomup w h pitch (Z.to_nat (snd tj)) (slots_of tj) val buf) k i x = val k i x.
Proof.
  intros tj Hin bottomup w h pitch val buf i x k Hp Hb Hi Hx Hk.
  destruct (gen_layout_slots tj Hin) as [Hnd Hlt].
  apply gather_scatter; assumption.
Qed.

From LJT Require Import model.LosslessLazy.
Lemma gen_lazy_facts : gen_min_get_bits = Z.of_nat MIN_GET_BITS.
Proof. reflexivity. Qed.

From LJT Require Import model.LosslessBitReg.
(* a byte is loaded only while bits_left < MIN_GET_BITS, so bits_left + 8 fits bit_buf_type *)
Lemma gen_bitreg_facts :
  gen_bit_buf_size = BIT_BUF_SIZE /\ gen_min_get_bits = Z.of_nat MIN_GET_BITS /\
  (gen_min_get_bits - 1) + 8 <= gen_bit_buf_size.
Proof. split; [reflexivity|]. split; [reflexivity|]. vm_compute. discriminate. Qed.
