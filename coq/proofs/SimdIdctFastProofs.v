(* C05 -- fast inverse DCT: inside the boundary c_idct_ifast_ok (dequantised coefficients and workspace
   values fit a short, every MULTIPLY operand has magnitude < 8192, results within the linear part of the
   range-limit table) the SSE2 kernel equals the C code for ALL blocks and multiplier tables. *)
From Coq Require Import List ZArith Lia Bool ZifyBool.
From LJT Require Import lib.Words gen.GenSimdConst model.SimdDct model.SimdIdctFast proofs.SimdDctProofs.
Import ListNotations.
Local Open Scope Z_scope.

Lemma ipre_bits : ai_pre = 2 /\ c_jidctfst_CONST_BITS = 8 /\ jidctfst_sse2_PASS1_BITS + 3 = 5 /\
  nth 0 (snd jidctfst_sse2_PB_CENTERJSAMP) 0 = 128.
Proof. repeat split; reflexivity. Qed.
Lemma iconsts_ok : forall k, (k < 3)%nat -> 0 <= ci_K k < 512 /\ ai_K k = ci_K k * 64.
Proof. intros k Hk. destruct k as [|[|[|k]]]; try lia; vm_compute; repeat split; congruence. Qed.
Lemma m1613_ok : ai_MF1613 = w16 (- (c_jidctfst_FIX_2_613125930 - 256) * 64) /\ 256 <= c_jidctfst_FIX_2_613125930 < 768.
Proof. vm_compute. repeat split; congruence. Qed.

Lemma mul_core_c v c : -8192 <= v < 8192 -> 0 <= c < 512 ->
  pmulhw (psllw (w16 v) 2) (c * 64) = w16 (sw (Z.shiftr (v * c) 8)).
Proof.
  intros Hv Hc. rewrite w16_sw. rewrite Z.shiftr_div_pow2 by lia. change (2 ^ 8) with 256.
  unfold pmulhw, psllw. change (2 ^ 2) with 4.
  replace (w16 (w16 v * 4)) with (w16 (v * 4)) by (unfold w16; rewrite Zmult_mod_idemp_l; reflexivity).
  rewrite s16_w16 by lia. rewrite s16_small by lia.
  f_equal. replace (v * 4 * (c * 64)) with (v * c * 256) by lia.
  change 65536 with (256 * 256). rewrite Z.div_mul_cancel_r by lia. reflexivity.
Qed.

Lemma Ri_mul1 a a' k : (k < 3)%nat -> R a a' -> in14 a -> R (ci_mul a (ci_K k)) (pmulhw (psllw a' ai_pre) (ai_K k)).
Proof.
  unfold R, in14. intros Hk -> Hr. destruct (iconsts_ok k Hk) as [Hc Ha]. destruct ipre_bits as (Hp & Hb & _).
  unfold ci_mul. rewrite Ha, Hp, Hb. apply mul_core_c; assumption.
Qed.
Lemma Ri_mul_add a b a' b' k : (k < 3)%nat -> R a a' -> R b b' -> in14 (a + b) ->
  R (ci_mul (a + b) (ci_K k)) (pmulhw (paddw (psllw a' ai_pre) (psllw b' ai_pre)) (ai_K k)).
Proof.
  unfold R, in14. intros Hk -> -> Hr. destruct (iconsts_ok k Hk) as [Hc Ha]. destruct ipre_bits as (Hp & Hb & _).
  replace (paddw (psllw (w16 a) ai_pre) (psllw (w16 b) ai_pre)) with (psllw (w16 (a + b)) 2).
  - unfold ci_mul. rewrite Ha, Hb. apply mul_core_c; assumption.
  - rewrite Hp. unfold paddw, psllw, w16. change (2 ^ 2) with 4.
    rewrite !Zmult_mod_idemp_l. rewrite <- Z.add_mod by lia. f_equal. lia.
Qed.
Lemma Ri_mul_sub a b a' b' k : (k < 3)%nat -> R a a' -> R b b' -> in14 (a - b) ->
  R (ci_mul (a - b) (ci_K k)) (pmulhw (psllw (psubw a' b') ai_pre) (ai_K k)).
Proof.
  unfold R, in14. intros Hk -> -> Hr. destruct (iconsts_ok k Hk) as [Hc Ha]. destruct ipre_bits as (Hp & Hb & _).
  replace (psubw (w16 a) (w16 b)) with (w16 (a - b)) by (unfold psubw, w16; rewrite <- Zminus_mod; reflexivity).
  unfold ci_mul. rewrite Ha, Hp, Hb. apply mul_core_c; assumption.
Qed.
Lemma Ri_m2613 a a' : R a a' -> in14 a ->
  R (ci_mul a (- c_jidctfst_FIX_2_613125930)) (psubw (pmulhw (psllw a' ai_pre) ai_MF1613) a').
Proof.
  unfold R, in14. intros -> Hr. destruct m1613_ok as [Hm Hc]. destruct ipre_bits as (Hp & Hb & _).
  set (F := c_jidctfst_FIX_2_613125930) in *.
  unfold ci_mul. rewrite w16_sw, Hm, Hp, Hb. rewrite Z.shiftr_div_pow2 by lia. change (2 ^ 8) with 256.
  unfold pmulhw, psllw, psubw. change (2 ^ 2) with 4.
  replace (w16 (w16 a * 4)) with (w16 (a * 4)) by (unfold w16; rewrite Zmult_mod_idemp_l; reflexivity).
  rewrite s16_w16 by lia. rewrite (s16_w16 (- (F - 256) * 64)) by lia.
  replace (a * 4 * (- (F - 256) * 64)) with (a * (- (F - 256)) * 256) by lia.
  change 65536 with (256 * 256). rewrite Z.div_mul_cancel_r by lia.
  unfold w16. rewrite Zminus_mod_idemp_l, Zminus_mod_idemp_r. f_equal.
  replace (a * - F) with (a * - (F - 256) + (- a) * 256) by lia. rewrite Z.div_add by lia. lia.
Qed.
Lemma Ri_out_add a b a' b' : R a a' -> R b b' -> R (a + b) (paddw a' b').
Proof. unfold R. intros -> ->. unfold paddw, w16. rewrite <- Z.add_mod by lia. reflexivity. Qed.
Lemma Ri_out_sub a b a' b' : R a a' -> R b b' -> R (a - b) (psubw a' b').
Proof. unfold R. intros -> ->. unfold psubw, w16. rewrite <- Zminus_mod. reflexivity. Qed.

(* one pass, on bit patterns *)
Theorem idct1_ifast_pat_partial d : length d = 8%nat -> Forall in14 (ci_operands d) ->
  idct1 ai_alg (map w16 d) = map w16 (idct1 ci_alg d).
Proof.
  intros Hl Hop.
  destruct d as [|d0 [|d1 [|d2 [|d3 [|d4 [|d5 [|d6 [|d7 [|? ?]]]]]]]]]; try discriminate.
  cbn [ci_operands] in Hop.
  repeat match goal with H : Forall _ (_ :: _) |- _ => inversion H; clear H; subst end.
  cbn [map idct1 ai_alg ci_alg I_add I_sub I_mul1 I_mul_add I_mul_sub I_mul_m2613 I_out_add I_out_sub].
  assert (I0 : R d0 (w16 d0)) by reflexivity. assert (I1 : R d1 (w16 d1)) by reflexivity.
  assert (I2 : R d2 (w16 d2)) by reflexivity. assert (I3 : R d3 (w16 d3)) by reflexivity.
  assert (I4 : R d4 (w16 d4)) by reflexivity. assert (I5 : R d5 (w16 d5)) by reflexivity.
  assert (I6 : R d6 (w16 d6)) by reflexivity. assert (I7 : R d7 (w16 d7)) by reflexivity.
  pose proof (R_add _ _ _ _ I0 I4) as T10. pose proof (R_sub _ _ _ _ I0 I4) as T11.
  pose proof (R_add _ _ _ _ I2 I6) as T13.
  pose proof (Ri_mul_sub _ _ _ _ 0%nat ltac:(lia) I2 I6 ltac:(assumption)) as M12.
  pose proof (R_sub _ _ _ _ M12 T13) as T12.
  pose proof (R_add _ _ _ _ T10 T13) as T0. pose proof (R_sub _ _ _ _ T10 T13) as T3.
  pose proof (R_add _ _ _ _ T11 T12) as T1. pose proof (R_sub _ _ _ _ T11 T12) as T2.
  pose proof (R_add _ _ _ _ I5 I3) as Z13. pose proof (R_sub _ _ _ _ I5 I3) as Z10.
  pose proof (R_add _ _ _ _ I1 I7) as Z11. pose proof (R_sub _ _ _ _ I1 I7) as Z12.
  pose proof (R_add _ _ _ _ Z11 Z13) as T7.
  pose proof (Ri_mul_sub _ _ _ _ 0%nat ltac:(lia) Z11 Z13 ltac:(assumption)) as U11.
  pose proof (Ri_mul_add _ _ _ _ 1%nat ltac:(lia) Z10 Z12 ltac:(assumption)) as Z5.
  pose proof (Ri_mul1 _ _ 2%nat ltac:(lia) Z12 ltac:(assumption)) as M10.
  pose proof (R_sub _ _ _ _ M10 Z5) as U10.
  pose proof (Ri_m2613 _ _ Z10 ltac:(assumption)) as M12'.
  pose proof (R_add _ _ _ _ M12' Z5) as U12.
  pose proof (R_sub _ _ _ _ U12 T7) as T6. pose proof (R_sub _ _ _ _ U11 T6) as T5. pose proof (R_add _ _ _ _ U10 T5) as T4.
  pose proof (Ri_out_add _ _ _ _ T0 T7) as O0. pose proof (Ri_out_add _ _ _ _ T1 T6) as O1.
  pose proof (Ri_out_add _ _ _ _ T2 T5) as O2. pose proof (Ri_out_sub _ _ _ _ T3 T4) as O3.
  pose proof (Ri_out_add _ _ _ _ T3 T4) as O4. pose proof (Ri_out_sub _ _ _ _ T2 T5) as O5.
  pose proof (Ri_out_sub _ _ _ _ T1 T6) as O6. pose proof (Ri_out_sub _ _ _ _ T0 T7) as O7.
  unfold R in O0, O1, O2, O3, O4, O5, O6, O7.
  rewrite O0, O1, O2, O3, O4, O5, O6, O7. reflexivity.
Qed.

(* the zero-AC shortcuts of the C code give what the full computation gives *)
Ltac zz := repeat (first [ progress (change (sw (0 + 0)) with 0) | progress (change (sw (0 - 0)) with 0)
  | progress (change (ci_mul 0 (ci_K 2)) with 0) | progress (change (ci_mul (0 + 0) (ci_K 1)) with 0)
  | progress (change (ci_mul (0 - 0) (ci_K 0)) with 0) | progress (change (ci_mul 0 (- c_jidctfst_FIX_2_613125930)) with 0) ]).
Lemma idct1_dc_only x : -32768 <= x < 32768 -> idct1 ci_alg [x; 0; 0; 0; 0; 0; 0; 0] = repeat x 8.
Proof.
  intros Hx. cbn [idct1 ci_alg I_add I_sub I_mul1 I_mul_add I_mul_sub I_mul_m2613 I_out_add I_out_sub repeat].
  zz. rewrite ?Z.add_0_r, ?Z.sub_0_r. rewrite ?(sw_id x) by lia.
  zz. rewrite ?Z.add_0_r, ?Z.sub_0_r. rewrite ?(sw_id x) by lia.
  zz. rewrite ?Z.add_0_r, ?Z.sub_0_r. rewrite ?(sw_id x) by lia. reflexivity.
Qed.

(* the final stage: psraw 5 ; packsswb ; paddb 128 = range_limit[(s >> 5) & RANGE_MASK] on the linear part *)
Lemma final_eq s : -16384 <= s < 16384 -> ai_final (w16 s) = idct_range_limit (ci_descale s).
Proof.
  intros Hs. destruct ipre_bits as (_ & _ & H5 & H128).
  unfold ai_final, ci_descale. rewrite H5, H128. rewrite Z.shiftr_div_pow2 by lia. change (2 ^ 5) with 32.
  unfold psraw. rewrite s16_w16 by lia. change (2 ^ 5) with 32.
  set (v := s / 32). assert (Hv : -512 <= v < 512) by (unfold v; split; [apply Z.div_le_lower_bound; lia | apply Z.div_lt_upper_bound; lia]).
  unfold packsswb. rewrite s16_w16 by lia.
  unfold idct_range_limit, w8.
  destruct (v <? -128) eqn:E1.
  - change ((-128) mod 256) with 128. change ((128 + 128) mod 256) with 0.
    assert (Hm : v mod 1024 = v + 1024) by (symmetry; apply Z.mod_unique with (q := -1); lia).
    rewrite Hm. destruct (v + 1024 <? 128) eqn:?; [lia|]. destruct (v + 1024 <? 512) eqn:?; [lia|].
    destruct (v + 1024 <? 896) eqn:?; [reflexivity|lia].
  - destruct (127 <? v) eqn:E2.
    + change (127 mod 256) with 127. change ((127 + 128) mod 256) with 255.
      rewrite (Z.mod_small v 1024) by lia. destruct (v <? 128) eqn:?; [lia|]. destruct (v <? 512) eqn:?; [reflexivity|lia].
    + destruct (v <? 0) eqn:E3.
      * assert (Hm8 : v mod 256 = v + 256) by (symmetry; apply Z.mod_unique with (q := -1); lia).
        assert (Hm : v mod 1024 = v + 1024) by (symmetry; apply Z.mod_unique with (q := -1); lia).
        rewrite Hm8, Hm. replace (v + 256 + 128) with (v + 128 + 1 * 256) by lia. rewrite Z.mod_add by lia.
        rewrite Z.mod_small by lia.
        destruct (v + 1024 <? 128) eqn:?; [lia|]. destruct (v + 1024 <? 512) eqn:?; [lia|].
        destruct (v + 1024 <? 896) eqn:?; lia.
      * rewrite (Z.mod_small v 256) by lia. rewrite (Z.mod_small v 1024) by lia. rewrite Z.mod_small by lia.
        destruct (v <? 128) eqn:?; lia.
Qed.

(* ================================================================ 8x8 glue *)
Lemma map2_as_map {A B C} (f : A -> B -> C) a b : map2 f a b = map (fun p => f (fst p) (snd p)) (combine a b).
Proof. reflexivity. Qed.
Lemma forallb_map2 {A B C} (P : C -> bool) (h : A -> B -> C) a b :
  forallb P (map2 h a b) = true -> forall x y, In (x, y) (combine a b) -> P (h x y) = true.
Proof.
  intros H x y Hin. rewrite map2_as_map, forallb_forall in H. apply (H (h x y)).
  apply in_map_iff. exists (x, y). split; [reflexivity | assumption].
Qed.
Lemma map2_ext_in {A B C} (f g : A -> B -> C) a b :
  (forall x y, In (x, y) (combine a b) -> f x y = g x y) -> map2 f a b = map2 g a b.
Proof. intros H. rewrite !map2_as_map. apply map_ext_in. intros [x y] Hin. apply H, Hin. Qed.
Lemma combine_map {A B A' B'} (u : A -> A') (v : B -> B') a b :
  combine (map u a) (map v b) = map (fun p => (u (fst p), v (snd p))) (combine a b).
Proof. revert b. induction a as [|x a IH]; intros [|y b]; try reflexivity. cbn. rewrite IH. reflexivity. Qed.
Lemma map2_map_both {A B C A' B'} (f : A' -> B' -> C) (u : A -> A') (v : B -> B') a b :
  map2 f (map u a) (map v b) = map2 (fun x y => f (u x) (v y)) a b.
Proof. rewrite !map2_as_map, combine_map, map_map. reflexivity. Qed.
Lemma map_map2 {A B C D} (g : C -> D) (f : A -> B -> C) a b : map g (map2 f a b) = map2 (fun x y => g (f x y)) a b.
Proof. rewrite !map2_as_map, map_map. reflexivity. Qed.
Lemma map2_length8 {A B C} (f : A -> B -> C) a b : length a = 8%nat -> length b = 8%nat -> length (map2 f a b) = 8%nat.
Proof. intros. rewrite map2_as_map, map_length, combine_length. lia. Qed.

Lemma transpose_Forall (P : Z -> Prop) m : Forall (Forall P) m -> Forall (Forall P) (transpose m).
Proof.
  induction 1 as [|x t Hx Hm IH]; [cbn; repeat constructor|].
  cbn [transpose]. rewrite map2_as_map. apply Forall_forall. intros row Hrow. apply in_map_iff in Hrow.
  destruct Hrow as ((a, col) & <- & Hp). cbn [fst snd]. constructor.
  - rewrite Forall_forall in Hx. apply Hx. eapply in_combine_l; eauto.
  - rewrite Forall_forall in IH. apply IH. eapply in_combine_r; eauto.
Qed.
Lemma forallb2_Forall (P : Z -> bool) m : forallb (forallb P) m = true -> Forall (Forall (fun v => P v = true)) m.
Proof.
  intros H. apply Forall_forall. intros r Hr. apply Forall_forall. intros v Hv.
  rewrite forallb_forall in H. specialize (H r Hr). rewrite forallb_forall in H. apply H, Hv.
Qed.
Lemma fits16b_spec v : fits16b v = true -> -32768 <= v < 32768.
Proof. unfold fits16b. lia. Qed.
Lemma finalb_spec v : finalb v = true -> -16384 <= v < 16384.
Proof. unfold finalb. lia. Qed.

Lemma all_zero_tl8 (c : list Z) : length c = 8%nat -> all_zero (tl c) = true -> c = [hd 0 c; 0; 0; 0; 0; 0; 0; 0].
Proof.
  intros Hl Hz. destruct c as [|c0 [|c1 [|c2 [|c3 [|c4 [|c5 [|c6 [|c7 [|? ?]]]]]]]]]; try discriminate.
  cbn [tl all_zero forallb hd] in *. repeat (apply andb_prop in Hz; destruct Hz as [? Hz]).
  repeat match goal with H : (0 =? _) = true |- _ => apply Z.eqb_eq in H; subst end. reflexivity.
Qed.
Lemma idct1_len (A : ialg) d : length d = 8%nat -> length (idct1 A d) = 8%nat.
Proof. intros H. destruct d as [|d0 [|d1 [|d2 [|d3 [|d4 [|d5 [|d6 [|d7 [|? ?]]]]]]]]]; try discriminate. reflexivity. Qed.
Lemma pmullw_w16 a b : pmullw (w16 a) (w16 b) = w16 (a * b).
Proof. unfold pmullw, w16. rewrite <- Z.mul_mod by lia. reflexivity. Qed.

(* pass 1, one column *)
Lemma col_eq c m : length c = 8%nat -> length m = 8%nat ->
  forallb fits16b (map2 Z.mul c m) = true -> forallb in14b (ci_operands (map2 Z.mul c m)) = true ->
  idct1 ai_alg (map2 pmullw (map w16 c) (map w16 m)) = map w16 (ci_col c m) /\ length (ci_col c m) = 8%nat.
Proof.
  intros Hc Hm Hf Ho.
  assert (Hdeq : map2 pmullw (map w16 c) (map w16 m) = map w16 (map2 Z.mul c m)).
  { rewrite map2_map_both, map_map2. apply map2_ext_in. intros. apply pmullw_w16. }
  assert (Hcol : ci_col c m = idct1 ci_alg (map2 Z.mul c m)).
  { unfold ci_col. destruct (all_zero (tl c)) eqn:Ez.
    - rewrite (all_zero_tl8 c Hc Ez) at 2.
      destruct m as [|m0 [|m1 [|m2 [|m3 [|m4 [|m5 [|m6 [|m7 [|? ?]]]]]]]]]; try discriminate.
      unfold map2. cbn [combine map fst snd hd]. rewrite !Z.mul_0_l. symmetry. apply idct1_dc_only.
      rewrite (all_zero_tl8 c Hc Ez) in Hf. unfold map2 in Hf. cbn [combine map fst snd forallb] in Hf.
      apply andb_prop in Hf. destruct Hf as [Hf _]. apply fits16b_spec. exact Hf.
    - f_equal. apply map2_ext_in. intros x y Hin. apply sw_id. apply fits16b_spec.
      apply (forallb_map2 fits16b Z.mul c m Hf x y Hin). }
  rewrite Hdeq, Hcol. split.
  - apply idct1_ifast_pat_partial; [apply map2_length8; assumption | apply forallb_in14; assumption].
  - apply idct1_len. apply map2_length8; assumption.
Qed.

(* pass 2, one row *)
Lemma row_eq r : length r = 8%nat -> Forall (fun v => fits16b v = true) r ->
  forallb in14b (ci_operands r) = true -> forallb finalb (idct1 ci_alg r) = true ->
  map ai_final (idct1 ai_alg (map w16 r)) = ci_row r.
Proof.
  intros Hl Hf Ho Hfin.
  rewrite idct1_ifast_pat_partial by (try assumption; apply forallb_in14; assumption).
  rewrite map_map.
  assert (Hrow : ci_row r = map (fun s => idct_range_limit (ci_descale s)) (idct1 ci_alg r)).
  { unfold ci_row. destruct (all_zero (tl r)) eqn:Ez.
    - rewrite (all_zero_tl8 r Hl Ez) at 2. rewrite idct1_dc_only; [reflexivity|].
      apply fits16b_spec. destruct r; [discriminate|]. inversion Hf; assumption.
    - f_equal. f_equal. rewrite <- (map_id r) at 2. apply map_ext_in. intros v Hv. apply sw_id, fits16b_spec.
      rewrite Forall_forall in Hf. apply Hf, Hv. }
  rewrite Hrow. apply map_ext_in. intros s Hs. apply final_eq. apply finalb_spec.
  rewrite forallb_forall in Hfin. apply Hfin, Hs.
Qed.

Lemma chunk8_map (g : Z -> Z) blk : length blk = 64%nat -> chunk8 8 (map g blk) = map (map g) (chunk8 8 blk).
Proof. intros H. do 65 (destruct blk as [|? blk]; try discriminate). reflexivity. Qed.
Lemma chunk8_rows blk : length blk = 64%nat -> Forall (fun r => length r = 8%nat) (chunk8 8 blk) /\ length (chunk8 8 blk) = 8%nat.
Proof. intros H. do 65 (destruct blk as [|? blk]; try discriminate). cbn. split; [repeat constructor | reflexivity]. Qed.
Lemma in_combine_len8 (a b : list (list Z)) x y : Forall (fun r => length r = 8%nat) a -> Forall (fun r => length r = 8%nat) b ->
  In (x, y) (combine a b) -> length x = 8%nat /\ length y = 8%nat.
Proof.
  intros Ha Hb Hin. rewrite Forall_forall in Ha, Hb. split; [apply Ha; eapply in_combine_l | apply Hb; eapply in_combine_r]; eauto.
Qed.

Theorem idct_ifast_eq_partial coef q : length coef = 64%nat -> length q = 64%nat ->
  c_idct_ifast_ok coef q = true -> asm_idct_ifast coef q = c_idct_ifast coef q.
Proof.
  intros HLc HLq Hok. unfold c_idct_ifast_ok in Hok.
  repeat (apply andb_prop in Hok; let H := fresh "K" in destruct Hok as [Hok H]). rename Hok into KA.
  unfold asm_idct_ifast, c_idct_ifast.
  rewrite !chunk8_map by assumption. rewrite !transpose_map.
  set (cols := transpose (chunk8 8 coef)) in *. set (qc := transpose (chunk8 8 q)) in *.
  destruct (chunk8_rows coef HLc) as [Rc Lc]. destruct (chunk8_rows q HLq) as [Rq Lq].
  destruct (transpose_len8 _ Rc) as [Tc _]. destruct (transpose_len8 _ Rq) as [Tq _]. rewrite Lc in Tc. rewrite Lq in Tq.
  fold cols in Tc. fold qc in Tq.
  (* pass 1 *)
  assert (P1 : map2 (fun c m => idct1 ai_alg (map2 pmullw c m)) (map (map w16) cols) (map (map w16) qc) =
               map (map w16) (map2 ci_col cols qc)).
  { rewrite map2_map_both, map_map2. apply map2_ext_in. intros c m Hin.
    destruct (in_combine_len8 _ _ _ _ Tc Tq Hin) as [Hc Hm].
    apply col_eq; try assumption.
    - apply (forallb_map2 (forallb fits16b) (map2 Z.mul) cols qc KA c m Hin).
    - apply (forallb_map2 (fun d => forallb in14b (ci_operands d)) (map2 Z.mul) cols qc K2 c m Hin). }
  rewrite P1. rewrite transpose_map.
  set (p1 := map2 ci_col cols qc) in *.
  assert (Hp1len : Forall (fun r => length r = 8%nat) p1).
  { unfold p1. rewrite map2_as_map. apply Forall_forall. intros r Hr. apply in_map_iff in Hr. destruct Hr as ([c m] & <- & Hin).
    destruct (in_combine_len8 _ _ _ _ Tc Tq Hin) as [Hc Hm]. cbn [fst snd].
    apply col_eq; try assumption.
    - apply (forallb_map2 (forallb fits16b) (map2 Z.mul) cols qc KA c m Hin).
    - apply (forallb_map2 (fun d => forallb in14b (ci_operands d)) (map2 Z.mul) cols qc K2 c m Hin). }
  assert (Hp1n : length p1 = 8%nat).
  { unfold p1. apply map2_length8.
    - unfold cols. apply transpose_len8. assumption.
    - unfold qc. apply transpose_len8. assumption. }
  destruct (transpose_len8 _ Hp1len) as [Tw _]. rewrite Hp1n in Tw.
  pose proof (transpose_Forall _ _ (forallb2_Forall _ _ K1)) as Fw.
  (* pass 2 *)
  f_equal. rewrite map_map. apply map_ext_in. intros r Hr.
  rewrite Forall_forall in Tw, Fw.
  rewrite forallb_forall in K0, K. apply row_eq; auto.
Qed.

Example idct_ifast_nonvacuous :
  let coef := [240; -31; 12; 0; 5; 0; 0; 0;  17; 9; 0; 0; 0; 0; 0; 0;  -8; 0; 3; 0; 0; 0; 0; 0] ++ repeat 0 40 in
  let q := map (fun i => 4 * (2 + i mod 7)) (map Z.of_nat (seq 0 64)) in
  c_idct_ifast_ok coef q = true /\ asm_idct_ifast coef q = c_idct_ifast coef q /\
  c_idct_ifast_ok (100 :: repeat 0 63) (repeat 400 64) = false /\
  asm_idct_ifast (100 :: repeat 0 63) (repeat 400 64) <> c_idct_ifast (100 :: repeat 0 63) (repeat 400 64).
Proof. vm_compute. repeat split; try reflexivity. discriminate. Qed.
