(* C18 -- the statements exported to props/C18.v, assembled from PnmProofs / PnmRoundtrip *)
From Coq Require Import List ZArith Lia Bool ZifyBool.
From LJT Require Import gen.GenPnm model.Pnm proofs.PnmProofs proofs.PnmRoundtrip.
Import ListNotations.
Local Open Scope Z_scope.

Definition in_prec (prec x : Z) : Prop := 0 <= x <= 2 ^ prec - 1.

(* rgb_to_cmyk is a parameter of the model: what the range theorem assumes of it *)
Definition cmyk_in_prec (cmyk : Z -> Z -> Z -> Z -> list Z) (prec : Z) : Prop :=
  forall r g b, in_prec prec r -> in_prec prec g -> in_prec prec b ->
    Forall (in_prec prec) (cmyk (2 ^ prec - 1) r g b) /\ length (cmyk (2 ^ prec - 1) r g b) = 4%nat.

Lemma index_safe_top cmyk look prec maxpixels want bottomup s :
  look_ok look -> 2 <= prec <= 16 -> bytes s ->
  (* no rescale[] index outside the allocation, no fuel exhaustion *)
  (forall e, load_pnm cmyk look prec maxpixels want bottomup s = Err e -> e <> E_OOB /\ e <> E_FUEL) /\
  (* a file shorter than its pixel count is an error, never a success *)
  (forall w h t rows, load_pnm cmyk look prec maxpixels want bottomup s = Ok (w, h, t, rows) ->
     w * h <= Z.of_nat (length s)).
Proof.
  intros Hl Hp B. pose proof (load_pnm_spec cmyk look Hl prec Hp maxpixels want bottomup s B) as S.
  split.
  - intros e E. rewrite E in S. exact S.
  - intros w h t rows E. rewrite E in S. tauto.
Qed.

Lemma table_facts prec maxval :
  look_ok look_tbl /\
  Z.of_nat (length (build_table prec maxval)) = Z.max maxval 255 + 1 /\
  (forall s v s', read_pbm_integer maxval s = Ok (v, s') -> 0 <= v <= maxval) /\
  (forall s v s', get_raw KWord maxval s = Ok (v, s') -> v <= maxval).
Proof.
  split; [exact look_ok_tbl|]. split.
  - rewrite build_table_length. unfold table_len. rewrite g_floor, g_extra. reflexivity.
  - split; [intros s v s'; apply read_pbm_integer_le|].
    intros s v s'. cbn [get_raw]. destruct s as [|b0 [|b1 t]]; try discriminate.
    rewrite g_word. cbn [andb]. destruct (b0 * 256 + b1 >? maxval) eqn:E; [discriminate|].
    intro H; inversion H; subst. lia.
Qed.

Lemma samples_in_range_top cmyk look prec maxpixels want bottomup s w h t rows :
  look_ok look -> 2 <= prec <= 16 -> bytes s ->
  load_pnm cmyk look prec maxpixels want bottomup s = Ok (w, h, t, rows) ->
  1 <= w <= 65535 /\ 1 <= h <= 65535 /\
  (maxpixels = 0 \/ w * h <= maxpixels) /\
  length rows = Z.to_nat h /\
  (t <> TCmyk \/ cmyk_in_prec cmyk prec ->
   Forall (fun row => Forall (in_prec prec) row /\ length row = (Z.to_nat w * Z.to_nat (target_ps t))%nat) rows).
Proof.
  intros Hl Hp B E. pose proof (load_pnm_spec cmyk look Hl prec Hp maxpixels want bottomup s B) as S.
  rewrite E in S. destruct S as (Hw & Hh & Lim & Ln & Cl & _).
  repeat split; try lia; auto.
  intro Ht. apply Cl. destruct t; cbn [target_claim]; auto.
  destruct Ht as [Ht|Ht]; [congruence|]. exact Ht.
Qed.

Lemma rescale_top prec maxval : 0 <= prec -> 0 < maxval ->
  (forall v, 0 <= v <= maxval -> 0 <= rescale_val prec maxval v <= 2 ^ prec - 1) /\
  (forall v1 v2, v1 <= v2 -> rescale_val prec maxval v1 <= rescale_val prec maxval v2) /\
  (maxval = 2 ^ prec - 1 -> forall v, 0 <= v <= maxval -> rescale_val prec maxval v = v) /\
  (forall i, 0 <= i <= Z.max maxval 255 -> exists x, look_tbl prec maxval i = Ok x /\ 0 <= x <= 2 ^ prec - 1 /\
        (i <= maxval -> x = rescale_val prec maxval i) /\ (maxval < i -> x = 0)).
Proof.
  intros Hp Hm. repeat split.
  - apply rescale_val_range; auto.
  - apply rescale_val_range; auto.
  - intros. apply rescale_val_mono; auto.
  - intros -> v Hv. apply rescale_val_identity; unfold maxsample, two_p; lia.
  - intros i Hi. rewrite look_tbl_fn.
    destruct (look_fn_in prec maxval i Hp Hm Hi) as (x & E & R & ->).
    exists (table_entry prec maxval i). split; [exact E|]. split; [exact R|].
    unfold table_entry. rewrite g_incl. split; intro; [replace (i <=? maxval) with true by lia | replace (i <=? maxval) with false by lia]; reflexivity.
Qed.

Lemma roundtrip_top cmyk uncmyk look prec t bottomup w h rows :
  look_ok look -> 2 <= prec <= 16 -> t <> TCmyk ->
  1 <= w <= 65535 -> 1 <= h <= 65535 -> length rows = Z.to_nat h ->
  Forall (Forall (in_prec prec)) rows ->
  load_pnm cmyk look prec 0 (Some t) bottomup (save_pnm uncmyk prec t bottomup w h rows)
  = Ok (w, h, t, map (canon_row prec t (Z.to_nat w)) rows).
Proof.
  intros Hl Hp Ht Hw Hh Ln F. apply save_load_roundtrip; auto.
Qed.

(* canon_row is the identity on gray / RGB / BGR rows and keeps R, G, B of every other layout *)
Lemma canon_top prec :
  (forall n row, length row = n -> canon_row prec TGray n row = row) /\
  (forall pf l n row, (pf = 0 \/ pf = 1) -> layout_of_pf pf = Some (TRgb l) -> length row = (n * 3)%nat ->
     canon_row prec (TRgb l) n row = row) /\
  (forall pf l px, layout_of_pf pf = Some (TRgb l) ->
     nthz (canon_px prec (TRgb l) px) (l_r l) = nthz px (l_r l) /\
     nthz (canon_px prec (TRgb l) px) (l_g l) = nthz px (l_g l) /\
     nthz (canon_px prec (TRgb l) px) (l_b l) = nthz px (l_b l) /\
     (l_a l <> -1 -> nthz (canon_px prec (TRgb l) px) (l_a l) = 2 ^ prec - 1)).
Proof.
  split; [apply canon_row_gray|]. split.
  - intros pf l n row Hpf Hl Hn. apply canon_row_3; auto.
    destruct Hpf as [-> | ->]; cbn in Hl; inversion Hl; auto.
  - intros pf l px Hl. apply canon_px_rgb. eapply source_layouts_wf; eauto.
Qed.
