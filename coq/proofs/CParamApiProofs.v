(* C17: the parameter-setting API only ever installs parameters the start-up checks accept or reject cleanly. *)
From Coq Require Import List ZArith Bool Lia ZifyBool.
From LJT Require Import lib.Sweep model.Huff gen.GenParams model.CParams model.CMarker model.CProgScript model.CParamApi
  proofs.CParamsHoare proofs.CParamsScript proofs.CParamsChain proofs.CParamsMaster proofs.CProgScriptProofs.
Import ListNotations.
Local Open Scope Z_scope.

(* ------------------------------------------------------------------ quality *)
Theorem quality_scaling_range_lemma : forall q, 0 <= quality_scaling q <= 5000.
Proof.
  intro q. unfold quality_scaling. change g_QUALITY_MIN with 1. change g_QUALITY_MAX with 100.
  change g_QS_NUM with 5000. change g_QS_BASE with 200. change g_QS_MUL with 2. cbv zeta.
  set (q1 := if q <=? 0 then 1 else q). set (q2 := if q1 >? 100 then 100 else q1).
  assert (1 <= q2 <= 100) by (unfold q2, q1; destruct (q <=? 0) eqn:?; destruct (_ >? 100) eqn:?; lia).
  destruct (q2 <? 50) eqn:E.
  - split; [apply Z.div_pos; lia|]. apply Z.div_le_upper_bound; lia.
  - lia.
Qed.

Lemma entry_passes q : 1 <= q <= 65535 -> entry_passes_fdct q = true.
Proof.
  intro H. unfold entry_passes_fdct. destruct (quant_divisor_total_lemma q H) as [[A B] _].
  replace (q =? 0) with false by lia. cbn [negb andb]. lia.
Qed.

(* every table jpeg_set_linear_quality installs, for EVERY scale factor, and hence every table jpeg_set_quality /
   jpeg_set_defaults installs for EVERY quality, passes the checks of start_pass_fdctmgr *)
Theorem linear_quality_tables_ok_lemma : forall scale force,
  let '(t0, t1) := linear_quality_tables scale force in
  Forall (fun v => 1 <= v <= (if force then 255 else 32767) /\ entry_passes_fdct v = true) (t0 ++ t1) /\
  length t0 = 64%nat /\ length t1 = 64%nat.
Proof.
  intros scale force. unfold linear_quality_tables. split; [|split; rewrite map_length; reflexivity].
  rewrite <- map_app. apply Forall_forall. intros v Hin. apply in_map_iff in Hin. destruct Hin as [b [<- _]].
  pose proof (quant_entry_range_lemma b scale force) as R. split; [exact R|]. apply entry_passes. destruct force; lia.
Qed.
Theorem set_quality_tables_ok_lemma : forall quality force,
  let '(t0, t1) := set_quality_tables quality force in
  Forall (fun v => 1 <= v <= (if force then 255 else 32767) /\ entry_passes_fdct v = true) (t0 ++ t1) /\
  length t0 = 64%nat /\ length t1 = 64%nat.
Proof. intros quality force. exact (linear_quality_tables_ok_lemma (quality_scaling quality) force). Qed.

(* ------------------------------------------------------------------ colour spaces *)
Definition comp_okb (c : mcomp) : bool :=
  (1 <=? k_h c) && (k_h c <=? 2) && (1 <=? k_v c) && (k_v c <=? 2) &&
  (0 <=? k_tq c) && (k_tq c <=? 1) && (0 <=? k_td c) && (k_td c <=? 1) && (0 <=? k_ta c) && (k_ta c <=? 1).
Definition csinfo_okb (i : csinfo) : bool :=
  (1 <=? length (cs_comps i))%nat && (length (cs_comps i) <=? 10)%nat && forallb comp_okb (cs_comps i).

Lemma colorspace_rows_ok :
  forallb (fun r => match r with (_, j, a, comps) =>
     csinfo_okb {| cs_jfif := j =? 1; cs_adobe := a =? 1; cs_comps := map mk_comp comps |} &&
     (length comps <=? 4)%nat end) g_colorspaces = true.
Proof. vm_compute. reflexivity. Qed.

(* jpeg_set_colorspace, for EVERY colour space value and EVERY input_components: error, or 1..10 components whose
   sampling factors are 1..2 and whose table numbers are 0..1 (the tables jpeg_set_defaults creates) *)
Theorem set_colorspace_ok_lemma : forall cs n i, set_colorspace cs n = inr i -> csinfo_okb i = true.
Proof.
  intros cs n i. unfold set_colorspace. destruct (cs =? g_JCS_UNKNOWN).
  - destruct ((n <? 1) || (n >? g_MAX_COMPONENTS)) eqn:E; [discriminate|]. intro H. injection H as <-.
    change g_MAX_COMPONENTS with 10 in E. unfold csinfo_okb. cbn [cs_comps]. rewrite map_length, seq_length.
    apply andb_true_intro. split; [apply andb_true_intro; split; [apply Nat.leb_le|apply Nat.leb_le]; lia|].
    apply forallb_forall. intros c Hc. apply in_map_iff in Hc. destruct Hc as [k [<- _]]. reflexivity.
  - destruct (find _ g_colorspaces) as [[[[c j] a] comps]|] eqn:E; [|discriminate]. intro H. injection H as <-.
    apply find_some in E. destruct E as [Hin _].
    pose proof colorspace_rows_ok as A. rewrite forallb_forall in A. specialize (A _ Hin). cbv beta iota in A.
    apply andb_prop in A. exact (proj1 A).
Qed.

Theorem default_colorspace_ok_lemma : forall in_cs n lossless cs i,
  default_colorspace in_cs n lossless = inr (cs, i) -> csinfo_okb i = true.
Proof.
  intros in_cs n lossless cs i. unfold default_colorspace.
  destruct (find _ g_default_colorspace) as [[[a lossy] lossl]|]; [|discriminate].
  destruct (set_colorspace _ n) as [e|i0] eqn:E; [discriminate|]. intro H. injection H as _ <-.
  exact (set_colorspace_ok_lemma _ _ _ E).
Qed.

(* every in_color_space the switch lists has a default, and lossless mode never selects a subsampled or
   colour-transformed default for RGB input *)
Lemma default_colorspace_table_ok :
  forallb (fun r => match r with (ics, lossy, lossl) =>
     (existsb (fun c => fst (fst (fst c)) =? lossy) g_colorspaces || (lossy =? g_JCS_UNKNOWN)) &&
     (existsb (fun c => fst (fst (fst c)) =? lossl) g_colorspaces || (lossl =? g_JCS_UNKNOWN)) end) g_default_colorspace = true.
Proof. vm_compute. reflexivity. Qed.

(* ------------------------------------------------------------------ jpeg_simple_progression: complete coverage *)
(* T1-finite (component counts 1..MAX_COMPONENTS, both script shapes): every coefficient of every component is
   sent down to bit 0 (final Al = 0), i.e. all bits exactly once given C17_script_valid_chain *)
Definition sp_covers (n : Z) : bool :=
  forallb (fun ycc =>
    forallb (fun c => forallb (fun k => final_al (-1) (hist (simple_progression n ycc) (Z.of_nat c) (Z.of_nat k)) =? 0)
                              (seq 0 64)) (seq 0 (Z.to_nat n))) [true; false].
Lemma sp_covers_sweep : sweep sp_covers 1 (g_MAX_COMPONENTS + 1) = true.
Proof. vm_compute. reflexivity. Qed.
Theorem simple_progression_complete_lemma : forall n ycc c k,
  1 <= n <= g_MAX_COMPONENTS -> 0 <= c < n -> 0 <= k < 64 ->
  final_al (-1) (hist (simple_progression n ycc) c k) = 0 /\
  sa_chain (-1) (hist (simple_progression n ycc) c k).
Proof.
  intros n ycc c k Hn Hc Hk. split.
  - pose proof (sweep_sound _ _ _ sp_covers_sweep n ltac:(lia)) as H. unfold sp_covers in H.
    rewrite forallb_forall in H. specialize (H ycc ltac:(destruct ycc; cbn; auto)).
    rewrite forallb_forall in H. specialize (H (Z.to_nat c) ltac:(apply in_seq; lia)).
    rewrite forallb_forall in H. specialize (H (Z.to_nat k) ltac:(apply in_seq; lia)).
    rewrite !Z2Nat.id in H by lia. lia.
  - destruct (simple_progression_accepted_lemma n ycc Hn) as [A _].
    destruct (script_valid_chain_lemma n 8 _ A) as [Hch _]. apply Hch; [exact Hc|change g_DCTSIZE2 with 64; exact Hk].
Qed.

(* ------------------------------------------------------------------ module selection *)
Theorem select_modules_ok_lemma : forall raw lossless arith progressive prec num_scans optimize,
  match select_modules raw lossless arith progressive prec num_scans optimize with
  | inl e => (e = ArithNotImpl /\ lossless = true /\ arith = true) \/ (e = BadPrecision /\ lossless = false /\ prec <> 8 /\ prec <> 12)
  | inr m => md_fdct m = negb (md_lossless m) /\ md_lossless m = lossless /\ md_preprocess m = negb raw /\
             md_entropy m = (if lossless then EncLhuff else if arith then EncArith else if progressive then EncPhuff else EncHuff) /\
             md_full_buffer m = ((num_scans >? 1) || optimize)
  end.
Proof.
  intros raw lossless arith progressive prec num_scans optimize. unfold select_modules.
  destruct lossless; [destruct arith; cbn; auto|].
  destruct ((prec =? 8) || (prec =? 12)) eqn:E; cbn [negb].
  - cbn. destruct arith; auto.
  - right. repeat split; auto; lia.
Qed.

(* the SOF marker the marker writer emits identifies the selected encoder *)
Theorem sof_identifies_encoder_lemma : forall img prec16 raw num_scans optimize m,
  select_modules raw (im_lossless img) (im_arith img) (im_progressive img) (im_prec img) num_scans optimize = inr m ->
  (im_lossless img = true -> im_progressive img = false) ->
  exists baseline, sof_code img prec16 = sof_of_encoder (md_entropy m) (im_progressive img) baseline.
Proof.
  intros img prec16 raw num_scans optimize m H Hlp. unfold select_modules in H. unfold sof_code, sof_of_encoder.
  destruct (im_lossless img) eqn:El.
  - destruct (im_arith img) eqn:Ea; [discriminate|]. injection H as <-. cbn [md_entropy]. rewrite (Hlp eq_refl). exists true. reflexivity.
  - destruct ((im_prec img =? 8) || (im_prec img =? 12)); [|discriminate]. cbn [negb] in H. injection H as <-. cbn [md_entropy].
    destruct (im_arith img); [exists true; reflexivity|]. destruct (im_progressive img); [exists true; reflexivity|].
    eexists. reflexivity.
Qed.

(* ------------------------------------------------------------------ TurboJPEG *)
Lemma tj_sampling_ok : forallb (fun s => let h := nthZ g_tjMCUWidth s / 8 in let v := nthZ g_tjMCUHeight s / 8 in
    (1 <=? h) && (h <=? 4) && (1 <=? v) && (v <=? 4)) (seq 0 (Z.to_nat g_TJ_NUMSAMP)) = true.
Proof. vm_compute. reflexivity. Qed.
Lemma tj_pixel_formats_ok : forallb (fun pf => let n := nthZ g_tjPixelSize pf in (1 <=? n) && (n <=? 4) &&
    existsb (fun r => fst (fst r) =? nthZ g_tj_pf2cs pf) g_default_colorspace) (seq 0 (Z.to_nat g_TJ_NUMPF)) = true.
Proof. vm_compute. reflexivity. Qed.

Definition tj_comp_okb (c : mcomp) : bool :=
  (1 <=? k_h c) && (k_h c <=? g_MAX_SAMP_FACTOR) && (1 <=? k_v c) && (k_v c <=? g_MAX_SAMP_FACTOR) &&
  (0 <=? k_tq c) && (k_tq c <=? 1) && (0 <=? k_td c) && (k_td c <=? 1) && (0 <=? k_ta c) && (k_ta c <=? 1).

(* tj3Compress8/12/16: for EVERY parameter set tj3Set can have stored (subsamp -1..6) and every argument, the call is
   rejected, or jpeg_start_compress sees dimensions >= 1, 1..4 components with sampling factors 1..4 and table numbers
   0..1, a precision the mode allows (lossless: 2..16 with Pt < precision; lossy: BITS_IN_JSAMPLE) *)
Theorem tj_compress_setup_ok_lemma : forall bits p w h pf s,
  (bits = 8 \/ bits = 12 \/ bits = 16) -> -1 <= tp_subsamp p < g_TJ_NUMSAMP ->
  tj_compress_setup bits p w h pf = inr s ->
  1 <= ts_width s /\ 1 <= ts_height s /\
  (1 <= length (ts_comps s) <= 4)%nat /\ forallb tj_comp_okb (ts_comps s) = true /\
  1 <= ts_in_components s <= 4 /\
  (if ts_lossless s then 2 <= ts_prec s <= 16 /\ 0 <= tp_pt p < ts_prec s /\ g_PSV_MIN <= tp_psv p <= g_PSV_MAX
   else ts_prec s = bits).
Proof.
  intros bits p w h pf s Hb Hss. unfold tj_compress_setup.
  destruct ((w <=? 0) || (h <=? 0) || (pf <? 0) || (pf >=? g_TJ_NUMPF)) eqn:E0; [discriminate|].
  destruct (negb (tp_lossless p) && (tp_quality p =? -1)); [discriminate|].
  destruct (negb (tp_lossless p) && (tp_subsamp p =? -1)) eqn:Es; [discriminate|]. cbv zeta.
  assert (Hpf : In (Z.to_nat pf) (seq 0 (Z.to_nat g_TJ_NUMPF))) by (apply in_seq; lia).
  pose proof tj_pixel_formats_ok as PF. rewrite forallb_forall in PF. specialize (PF _ Hpf). cbv zeta in PF.
  apply andb_prop in PF. destruct PF as [PF1 _].
  destruct (default_colorspace _ _ false) as [e|[cs0 i0]] eqn:Ed; [discriminate|].
  pose proof (default_colorspace_ok_lemma _ _ _ _ _ Ed) as Ok0.
  destruct (tp_lossless p) eqn:El.
  - match goal with |- context [if ?b then inl TjBadProgression else _] => destruct b eqn:Ebp end; [discriminate|].
    intro H. injection H as <-. cbn [ts_width ts_height ts_comps ts_in_components ts_lossless ts_prec].
    change g_PSV_MIN with 1 in *. change g_PSV_MAX with 7 in *.
    split; [lia|]. split; [lia|]. split; [|split; [|split; [lia|]]].
    + unfold set_colorspace in *. unfold default_colorspace in Ed.
      destruct (find _ g_default_colorspace) as [[[a lossy] lossl]|] eqn:Ef; [|discriminate].
      destruct (set_colorspace lossy _) as [e|ii] eqn:Es2; [discriminate|]. injection Ed as _ <-.
      revert Es2. unfold set_colorspace. destruct (lossy =? g_JCS_UNKNOWN).
      * destruct ((_ <? 1) || (_ >? g_MAX_COMPONENTS)); [discriminate|]. intro X. injection X as <-. cbn [cs_comps].
        rewrite map_length, seq_length. lia.
      * destruct (find _ g_colorspaces) as [[[[c j] aa] comps]|] eqn:Ec; [|discriminate]. intro X. injection X as <-.
        cbn [cs_comps]. rewrite map_length. apply find_some in Ec. destruct Ec as [Hin _].
        pose proof colorspace_rows_ok as A. rewrite forallb_forall in A. specialize (A _ Hin). cbv beta iota in A.
        apply andb_prop in A. destruct A as [A1 A2]. unfold csinfo_okb in A1. cbn [cs_comps] in A1. rewrite map_length in A1. lia.
    + unfold csinfo_okb in Ok0. apply andb_prop in Ok0. destruct Ok0 as [_ F]. rewrite forallb_forall in *.
      intros c Hc. specialize (F c Hc). unfold comp_okb in F. unfold tj_comp_okb. change g_MAX_SAMP_FACTOR with 4. lia.
    + cbn [andb] in Ebp |- *.
      match goal with |- context [if ?b then tp_precision p else bits] => destruct b eqn:Ep end;
        destruct Hb as [ -> | [ -> | -> ] ];
        try change (8 =? 8) with true in Ep; try change (12 =? 8) with false in Ep; try change (16 =? 8) with false in Ep;
        cbv iota in Ep; lia.
  - cbn [negb andb] in Es.
    destruct (set_colorspace _ _) as [e|i] eqn:Ecs; [discriminate|].
    intro H. injection H as <-. cbn [ts_width ts_height ts_comps ts_in_components ts_lossless ts_prec].
    pose proof (set_colorspace_ok_lemma _ _ _ Ecs) as Ok.
    assert (Hsub : In (Z.to_nat (tp_subsamp p)) (seq 0 (Z.to_nat g_TJ_NUMSAMP))) by (apply in_seq; lia).
    pose proof tj_sampling_ok as SA. rewrite forallb_forall in SA. specialize (SA _ Hsub). cbv zeta in SA.
    split; [lia|]. split; [lia|]. split; [|split; [|split; [lia|reflexivity]]].
    + rewrite map_length, combine_length, seq_length, Nat.min_id.
      revert Ecs. unfold set_colorspace.
      match goal with |- context [if ?c =? g_JCS_UNKNOWN then _ else _] => destruct (c =? g_JCS_UNKNOWN) eqn:Eu end.
      * destruct ((_ <? 1) || (_ >? g_MAX_COMPONENTS)); [discriminate|]. intro X. injection X as <-. cbn [cs_comps].
        rewrite map_length, seq_length. lia.
      * destruct (find _ g_colorspaces) as [[[[c j] aa] comps]|] eqn:Ec; [|discriminate]. intro X. injection X as <-.
        cbn [cs_comps]. rewrite map_length. apply find_some in Ec. destruct Ec as [Hin _].
        pose proof colorspace_rows_ok as A. rewrite forallb_forall in A. specialize (A _ Hin). cbv beta iota in A.
        apply andb_prop in A. destruct A as [A1 A2]. unfold csinfo_okb in A1. cbn [cs_comps] in A1. rewrite map_length in A1. lia.
    + unfold csinfo_okb in Ok. apply andb_prop in Ok. destruct Ok as [_ F]. rewrite forallb_forall in *.
      intros c Hc. apply in_map_iff in Hc. destruct Hc as [[idx c0] [<- Hin]]. apply in_combine_r in Hin.
      specialize (F c0 Hin). unfold comp_okb in F. unfold tj_comp_okb. change g_MAX_SAMP_FACTOR with 4.
      destruct ((idx =? 0)%nat || (idx =? 3)%nat); cbn [k_h k_v k_tq k_td k_ta]; lia.
Qed.
