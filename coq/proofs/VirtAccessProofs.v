(* C14 -- proofs about the virtual-array access path (model/VirtAccess.v):
   do_*_io transfers exactly the defined part of the window, chunk by chunk, inside both buffers;
   access_virt_* always returns row pointers inside the in-memory window, and the window is a
   transparent cache of the logical array: a reader sees the last value written to every row, or zeros
   (pre_zero) for rows never written -- never uninitialised memory. *)
From Coq Require Import List ZArith Bool Lia.
From LJT Require Import model.MemMgr model.VirtAccess.
Import ListNotations.
Local Open Scope Z_scope.

Definition same_geom (a b : varray) : Prop :=
  a_rows b = a_rows a /\ a_maxacc b = a_maxacc a /\ a_inmem b = a_inmem a /\ a_rpc b = a_rpc a /\ a_cur b = a_cur a /\
  a_undef b = a_undef a /\ a_prezero b = a_prezero a /\ a_dirty b = a_dirty a /\ a_bsopen b = a_bsopen a /\ a_real b = a_real a.

Lemma same_geom_refl : forall a, same_geom a a.
Proof. unfold same_geom; intros; repeat split; auto. Qed.

(* number of rows of the window that hold defined rows of the array *)
Definition ndef (a : varray) : Z := Z.max 0 (Z.min (a_inmem a) (Z.min (a_undef a - a_cur a) (a_rows a - a_cur a))).

Definition xfer_ok (a : varray) (x : xfer) : Prop :=
  match x with
  | XWrite i f n | XRead i f n =>
      i mod a_rpc a = 0 /\ 0 <= i /\ 0 < n <= a_rpc a /\ i + n <= a_inmem a /\      (* one allocation chunk of mem_buffer *)
      f = a_cur a + i /\ f + n <= a_rows a /\ f + n <= a_undef a                   (* the same rows of the file, all defined *)
  end.

Lemma io_loop_spec : forall fuel w a i frow acc a' acc' ok,
  1 <= a_rpc a -> 0 <= i -> i mod a_rpc a = 0 -> (i < ndef a -> frow = a_cur a + i) -> a_inmem a - i <= Z.of_nat fuel ->
  io_loop fuel w a i frow acc = (a', acc', ok) ->
  ok = true /\ same_geom a a' /\
  (exists new, acc' = new ++ acc /\ Forall (xfer_ok a) new) /\
  (if w then (forall k, a_mem a' k = a_mem a k) /\
             (forall r, a_file a' r = if (a_cur a + i <=? r) && (r <? a_cur a + ndef a) then a_mem a (r - a_cur a) else a_file a r)
   else (forall r, a_file a' r = a_file a r) /\
        (forall k, a_mem a' k = if (i <=? k) && (k <? ndef a) then a_file a (a_cur a + k) else a_mem a k)).
Proof.
  induction fuel as [|f IH]; intros w a i frow acc a' acc' ok Hr Hi Hm Hf Hfu H; cbn [io_loop] in H.
  - destruct (i <? a_inmem a) eqn:E; [lia|]. inversion H; subst a' acc' ok. split; auto. split; [apply same_geom_refl|].
    split; [exists []; split; auto|].
    assert (ndef a <= i) by (unfold ndef; lia).
    destruct w; split; intros; auto.
    + destruct ((a_cur a + i <=? r) && (r <? a_cur a + ndef a)) eqn:E2; auto. lia.
    + destruct ((i <=? k) && (k <? ndef a)) eqn:E2; auto. lia.
  - destruct (i <? a_inmem a) eqn:E.
    2: { inversion H; subst a' acc' ok. split; auto. split; [apply same_geom_refl|]. split; [exists []; split; auto|].
         assert (ndef a <= i) by (unfold ndef; lia).
         destruct w; split; intros; auto.
         + destruct ((a_cur a + i <=? r) && (r <? a_cur a + ndef a)) eqn:E2; auto. lia.
         + destruct ((i <=? k) && (k <? ndef a)) eqn:E2; auto. lia. }
    set (rows := Z.min (Z.min (Z.min (a_rpc a) (a_inmem a - i)) (a_undef a - (a_cur a + i))) (a_rows a - (a_cur a + i))) in *.
    destruct (rows <=? 0) eqn:Er.
    { inversion H; subst a' acc' ok. split; auto. split; [apply same_geom_refl|]. split; [exists []; split; auto|].
      assert (ndef a <= i) by (unfold ndef; lia).
      destruct w; split; intros; auto.
      + destruct ((a_cur a + i <=? r) && (r <? a_cur a + ndef a)) eqn:E2; auto. lia.
      + destruct ((i <=? k) && (k <? ndef a)) eqn:E2; auto. lia. }
    assert (Hrows : rows = Z.min (a_rpc a) (ndef a - i)) by (unfold ndef; lia).
    assert (Hnd : i < ndef a) by lia.
    specialize (Hf Hnd).
    set (a1 := if w then set_data a (a_mem a) (blit (a_file a) (a_mem a) frow i rows)
               else set_data a (blit (a_mem a) (a_file a) i frow rows) (a_file a)) in *.
    assert (G1 : same_geom a a1) by (unfold a1; destruct w; unfold same_geom, set_data; simpl; repeat split; auto).
    assert (Hnd1 : ndef a1 = ndef a) by (unfold ndef; destruct G1 as (g1 & g2 & g3 & g4 & g5 & g6 & _); rewrite g1, g3, g5, g6; auto).
    destruct G1 as (g1 & g2 & g3 & g4 & g5 & g6 & g7 & g8 & g9 & g10).
    apply IH in H; try rewrite ?g4, ?g3, ?g5, ?Hnd1; try lia.
    2: { rewrite <- Zplus_mod_idemp_l. rewrite Hm. rewrite Z.add_0_l. apply Z_mod_same_full. }
    destruct H as (Hok & G2 & (new & Hacc & Hnew) & Hdata).
    split; auto. split.
    { unfold same_geom in *. destruct G2 as (h1 & h2 & h3 & h4 & h5 & h6 & h7 & h8 & h9 & h10).
      repeat split; congruence. }
    split.
    { exists (new ++ [if w then XWrite i frow rows else XRead i frow rows]). split.
      - rewrite Hacc. rewrite <- app_assoc. reflexivity.
      - apply Forall_app. split.
        + eapply Forall_impl; [|exact Hnew]. intros x Hx. unfold xfer_ok in *. destruct x; rewrite g4, g3, g5, g1, g6 in Hx; auto.
        + constructor; auto. unfold xfer_ok. destruct w; (repeat split; auto; try lia). }
    rewrite Hnd1, g5 in Hdata.
    destruct w.
    + destruct Hdata as (Hmem & Hfile). split.
      * intros k. rewrite Hmem. unfold a1, set_data; simpl. auto.
      * intros r. rewrite Hfile. unfold a1, set_data; simpl. unfold blit.
        subst frow.
        destruct ((a_cur a + (i + a_rpc a) <=? r) && (r <? a_cur a + ndef a)) eqn:E1;
        destruct ((a_cur a + i <=? r) && (r <? a_cur a + ndef a)) eqn:E2;
        destruct ((a_cur a + i <=? r) && (r <? a_cur a + i + rows)) eqn:E3; try lia; auto.
        f_equal. lia.
    + destruct Hdata as (Hfile & Hmem). split.
      * intros r. rewrite Hfile. unfold a1, set_data; simpl. auto.
      * intros k. rewrite Hmem. unfold a1, set_data; simpl. unfold blit.
        subst frow.
        destruct ((i + a_rpc a <=? k) && (k <? ndef a)) eqn:E1;
        destruct ((i <=? k) && (k <? ndef a)) eqn:E2;
        destruct ((i <=? k) && (k <? i + rows)) eqn:E3; try lia; auto.
        f_equal. lia.
Qed.

Lemma do_io_spec : forall w a a' x ok,
  1 <= a_rpc a -> 0 <= a_inmem a -> do_io w a = (a', x, ok) ->
  ok = true /\ same_geom a a' /\ Forall (xfer_ok a) x /\
  (if w then (forall k, a_mem a' k = a_mem a k) /\
             (forall r, a_file a' r = if (a_cur a <=? r) && (r <? a_cur a + ndef a) then a_mem a (r - a_cur a) else a_file a r)
   else (forall r, a_file a' r = a_file a r) /\
        (forall k, a_mem a' k = if (0 <=? k) && (k <? ndef a) then a_file a (a_cur a + k) else a_mem a k)).
Proof.
  intros w a a' x ok Hr Hin H. unfold do_io in H.
  destruct (io_loop (Z.to_nat (a_inmem a)) w a 0 (a_cur a) []) as [[b xs] o] eqn:E. inversion H; subst a' x ok.
  apply io_loop_spec in E; auto; try lia.
  destruct E as (A & B & (new & Hn & Hf) & D). rewrite app_nil_r in Hn. subst xs.
  split; auto. split; auto. split.
  - apply Forall_rev. auto.
  - destruct w; destruct D as (D1 & D2); split; auto; intros; rewrite D2; rewrite ?Z.add_0_r; reflexivity.
Qed.

(* ------------------------------------------------------------ invariants *)
Definition geom (a : varray) : Prop :=
  1 <= a_rpc a /\ 0 <= a_cur a <= a_rows a /\ 1 <= a_inmem a <= a_rows a /\ a_rows a < 2 ^ 31 /\ 0 <= a_undef a <= a_rows a /\
  (a_maxacc a <= a_inmem a \/ a_inmem a = a_rows a) /\ a_real a = true /\
  (a_bsopen a = false -> a_inmem a = a_rows a /\ a_cur a = 0).

(* L = the logical array (what the clients have written).  Every defined row lives in the window or in the file *)
Definition dataok (a : varray) (L : Z -> Z) : Prop :=
  forall r, 0 <= r < a_undef a ->
    (a_cur a <= r < a_cur a + a_inmem a -> a_mem a (r - a_cur a) = Some (L r)) /\
    (a_bsopen a = true -> (r < a_cur a \/ a_cur a + a_inmem a <= r \/ a_dirty a = false) -> a_file a r = Some (L r)).

Definition VI (a : varray) (L : Z -> Z) : Prop := geom a /\ dataok a L.

Lemma mod32_small : forall x, 0 <= x < 2 ^ 32 -> x mod two32 = x.
Proof. intros. unfold two32. apply Z.mod_small. lia. Qed.

Lemma ensure_window_spec : forall a L start end_row a1 xf e,
  VI a L -> 0 <= start -> start <= end_row -> end_row <= a_rows a -> end_row - start <= a_maxacc a ->
  ensure_window a start end_row = (a1, xf, e) ->
  e = None /\ VI a1 L /\ a_cur a1 <= start /\ end_row <= a_cur a1 + a_inmem a1 /\
  a_undef a1 = a_undef a /\ a_prezero a1 = a_prezero a /\ a_rows a1 = a_rows a /\ a_maxacc a1 = a_maxacc a /\
  a_bsopen a1 = a_bsopen a /\ a_inmem a1 = a_inmem a /\
  Forall (fun x => xfer_ok a x \/ xfer_ok a1 x) xf.
Proof.
  intros a L start end_row a1 xf e (G & D) Hs Hse He Hn H.
  assert (G0 := G). destruct G as (g1 & g2 & g3 & g4 & g5 & g6 & g7 & g8).
  assert (P31 : 2 ^ 31 + 2 ^ 31 = 2 ^ 32) by reflexivity.
  assert (Hnum : end_row - start <= a_inmem a) by lia.
  unfold ensure_window in H.
  rewrite (mod32_small (a_cur a + a_inmem a)) in H by lia.
  destruct ((start <? a_cur a) || (end_row >? a_cur a + a_inmem a)) eqn:Ew.
  2: { inversion H; subst a1 xf e. split; auto. split; [split; auto|]. repeat split; auto; lia. }
  destruct (a_bsopen a) eqn:Eb.
  2: { destruct (g8 eq_refl) as (i1 & i2). lia. }
  simpl in H.
  (* flush *)
  assert (F : exists a0 x1, (if a_dirty a then (let '(b, x, ok) := do_io true a in (set_win b (a_cur b) (a_undef b) false, x, ok)) else (a, [], true))
                            = (a0, x1, true) /\ same_geom (set_win a (a_cur a) (a_undef a) false) a0 /\ Forall (xfer_ok a) x1 /\
                            (forall k, a_mem a0 k = a_mem a k) /\
                            (forall r, 0 <= r < a_undef a -> a_file a0 r = Some (L r))).
  { destruct (a_dirty a) eqn:Ed.
    - destruct (do_io true a) as [[b x] ok] eqn:Eio. apply do_io_spec in Eio; try lia.
      destruct Eio as (-> & Gb & Hx & Hm & Hfile).
      exists (set_win b (a_cur b) (a_undef b) false), x. split; [reflexivity|].
      destruct Gb as (h1 & h2 & h3 & h4 & h5 & h6 & h7 & h8 & h9 & h10).
      split; [unfold same_geom, set_win; simpl; repeat split; auto|].
      split; auto. split; [intros; simpl; auto|].
      intros r Hr. simpl. rewrite Hfile. destruct (D r Hr) as (D1 & D2).
      destruct ((a_cur a <=? r) && (r <? a_cur a + ndef a)) eqn:E1.
      + apply D1. unfold ndef in E1. lia.
      + apply D2; auto. unfold ndef in E1. lia.
    - exists a, []. split; [reflexivity|]. split; [unfold same_geom, set_win; simpl; repeat split; auto|].
      split; [constructor|]. split; auto.
      intros r Hr. destruct (D r Hr) as (_ & D2). apply D2; auto. }
  destruct F as (a0 & x1 & EF & G0' & Hx1 & Hm0 & Hf0). rewrite EF in H.
  destruct G0' as (h1 & h2 & h3 & h4 & h5 & h6 & h7 & h8 & h9 & h10). simpl in *.
  set (cur' := if start >? a_cur a0 then start else (if end_row - a_inmem a0 <? 0 then 0 else end_row - a_inmem a0) mod two32) in *.
  assert (Hc : 0 <= cur' <= a_rows a /\ cur' <= start /\ end_row <= cur' + a_inmem a).
  { unfold cur'. rewrite h3. destruct (start >? a_cur a0); [lia|].
    destruct (end_row - a_inmem a <? 0) eqn:E2; rewrite mod32_small by lia; lia. }
  clearbody cur'.
  destruct (do_io false (set_win a0 cur' (a_undef a0) (a_dirty a0))) as [[a2 x2] ok2] eqn:Eio.
  apply do_io_spec in Eio; simpl; try lia.
  destruct Eio as (-> & G2 & Hx2 & Hfile2 & Hmem2).
  inversion H; subst a1 xf e. clear H.
  destruct G2 as (k1 & k2 & k3 & k4 & k5 & k6 & k7 & k8 & k9 & k10). simpl in *.
  assert (Gfin : geom a2).
  { unfold geom. rewrite k1, k2, k3, k4, k5, k6, k9, k10, h1, h2, h3, h4, h6, h9, h10. repeat split; try lia; auto; try congruence; try discriminate. }
  split; auto. split.
  { split; auto. intros r Hr. rewrite k6, h6 in Hr. rewrite k5, k3, h3, k9, h9.
    split.
    - intros Hw. rewrite Hmem2. unfold ndef; simpl. rewrite h3, h6, h1.
      replace ((0 <=? r - cur') && (r - cur' <? Z.max 0 (Z.min (a_inmem a) (Z.min (a_undef a - cur') (a_rows a - cur'))))) with true by lia.
      replace (cur' + (r - cur')) with r by lia. apply Hf0; auto.
    - intros _ _. rewrite Hfile2. simpl. apply Hf0; auto. }
  rewrite k5, k3, h3, k6, h6, k7, h7, k1, h1, k2, h2, k9, h9. repeat split; auto; try lia.
  apply Forall_app. split.
  - eapply Forall_impl; [|exact Hx1]. intros; left; auto.
  - eapply Forall_impl; [|exact Hx2]. intros x Hx. right.
    unfold xfer_ok in *. destruct x; simpl in Hx; rewrite k4, k3, k5, k1, k6; simpl; auto.
Qed.

From Coq Require Import ZifyBool.

Lemma store_rows_spec : forall vals m off k,
  store_rows m off vals k =
  if (off <=? k) && (k <? off + Z.of_nat (length vals)) then Some (nth (Z.to_nat (k - off)) vals 0) else m k.
Proof.
  induction vals as [|v r IH]; intros m off k; cbn [store_rows length].
  - destruct ((off <=? k) && (k <? off + Z.of_nat 0)) eqn:E; auto. lia.
  - rewrite IH. rewrite Nat2Z.inj_succ.
    destruct ((off + 1 <=? k) && (k <? off + 1 + Z.of_nat (length r))) eqn:E1;
    destruct ((off <=? k) && (k <? off + Z.succ (Z.of_nat (length r)))) eqn:E2; try lia.
    + replace (Z.to_nat (k - off)) with (S (Z.to_nat (k - (off + 1)))) by lia. reflexivity.
    + destruct (k =? off) eqn:E3; [|lia]. replace (k - off) with 0 by lia. reflexivity.
    + destruct (k =? off) eqn:E3; [lia|]. reflexivity.
Qed.

(* the logical array after the client has written [vals] to rows start .. *)
Definition Lupd (L : Z -> Z) (start : Z) (vals : list Z) : Z -> Z :=
  fun r => if (start <=? r) && (r <? start + Z.of_nat (length vals)) then nth (Z.to_nat (r - start)) vals 0 else L r.

Ltac hd := (split; [simpl; try reflexivity; lia|]).

Lemma ensure_defined_spec : forall a1 L start end_row writable a2 res,
  VI a1 L -> 0 <= start -> start <= end_row -> end_row <= a_rows a1 ->
  a_cur a1 <= start -> end_row <= a_cur a1 + a_inmem a1 ->
  ensure_defined a1 start end_row writable = (a2, res) ->
  match res with
  | inl e => e = BadVirtualAccess /\ VI a2 L
  | inr off =>
      off = start - a_cur a1 /\ 0 <= off /\ off + (end_row - start) <= a_inmem a2 /\ a_inmem a2 = a_inmem a1 /\
      if writable then
        (* the writer did not skip rows; after it has filled the rows the window still caches the logical array *)
        a_undef a1 >= start /\ a_undef a2 = Z.max (a_undef a1) end_row /\
        (forall vals, Z.of_nat (length vals) = end_row - start ->
           VI (set_data a2 (store_rows (a_mem a2) off vals) (a_file a2)) (Lupd L start vals))
      else
        VI a2 L /\
        (forall k, 0 <= k < end_row - start ->
           a_mem a2 (off + k) = if start + k <? a_undef a1 then Some (L (start + k)) else Some 0)
  end.
Proof.
  intros a1 L start end_row writable a2 res (G & D) Hs Hse He Hc Hw H.
  assert (G0 := G). destruct G as (g1 & g2 & g3 & g4 & g5 & g6 & g7 & g8).
  assert (P31 : 2 ^ 31 + 2 ^ 31 = 2 ^ 32) by reflexivity.
  assert (Eoff : (start - a_cur a1) mod two32 = start - a_cur a1) by (apply mod32_small; lia).
  unfold ensure_defined in H.
  destruct (a_undef a1 <? end_row) eqn:Eu.
  2: { (* everything requested is already defined *)
    destruct writable; inversion H; subst a2 res; simpl; rewrite Eoff.
    - hd. hd. hd. hd. hd. hd.
      intros vals Hl. split; [exact G0|].
      intros r Hr. simpl in *. destruct (D r Hr) as (D1 & D2). unfold Lupd. rewrite Hl. split.
      + intros Hwin. rewrite store_rows_spec. rewrite Hl.
        destruct ((start - a_cur a1 <=? r - a_cur a1) && (r - a_cur a1 <? start - a_cur a1 + (end_row - start))) eqn:E1;
        destruct ((start <=? r) && (r <? start + (end_row - start))) eqn:E2; try lia.
        * f_equal. f_equal. f_equal. lia.
        * auto.
      + intros Hb [Ho|[Ho|Ho]]; try discriminate.
        * replace ((start <=? r) && (r <? start + (end_row - start))) with false by lia. apply D2; auto.
        * replace ((start <=? r) && (r <? start + (end_row - start))) with false by lia. apply D2; auto.
    - hd. hd. hd. hd. split; [split; auto|].
      intros k Hk. replace (start + k <? a_undef a1) with true by lia.
      destruct (D (start + k) ltac:(lia)) as (D1 & _). replace (start - a_cur a1 + k) with (start + k - a_cur a1) by lia. apply D1. lia. }
  destruct ((a_undef a1 <? start) && writable) eqn:Esk.
  { inversion H; subst a2 res. split; auto. split; auto. }
  set (undef := if a_undef a1 <? start then start else a_undef a1) in *.
  assert (Hun : start <= undef <= end_row /\ a_undef a1 <= undef) by (unfold undef; destruct (a_undef a1 <? start) eqn:E; lia).
  destruct writable.
  - (* writer *)
    assert (Hns : a_undef a1 >= start) by lia.
    assert (undef = a_undef a1) by (unfold undef; destruct (a_undef a1 <? start) eqn:E; lia).
    simpl in H.
    assert (Fin : forall m2, (forall k, ~ (start - a_cur a1 <= k < end_row - a_cur a1) -> m2 k = a_mem a1 k) ->
            forall vals, Z.of_nat (length vals) = end_row - start ->
            VI (set_data (set_win (set_data (set_win a1 (a_cur a1) end_row (a_dirty a1)) m2 (a_file a1)) (a_cur a1) end_row true)
                         (store_rows m2 (start - a_cur a1) vals) (a_file a1)) (Lupd L start vals)).
    { intros m2 Hm2 vals Hl. split.
      - unfold geom; simpl. repeat split; auto; lia.
      - intros r Hr. simpl in *. unfold Lupd. rewrite Hl. split.
        + intros Hwin. rewrite store_rows_spec. rewrite Hl.
          destruct ((start - a_cur a1 <=? r - a_cur a1) && (r - a_cur a1 <? start - a_cur a1 + (end_row - start))) eqn:E1;
          destruct ((start <=? r) && (r <? start + (end_row - start))) eqn:E2; try lia.
          * f_equal. f_equal. f_equal. lia.
          * rewrite Hm2 by lia. destruct (D r ltac:(lia)) as (D1 & _). apply D1; auto.
        + intros Hb [Ho|[Ho|Ho]]; try discriminate.
          * replace ((start <=? r) && (r <? start + (end_row - start))) with false by lia.
            destruct (D r ltac:(lia)) as (_ & D2). apply D2; auto.
          * replace ((start <=? r) && (r <? start + (end_row - start))) with false by lia.
            destruct (D r ltac:(lia)) as (_ & D2). apply D2; auto. }
    destruct (a_prezero a1) eqn:Ez; simpl in H; inversion H; subst a2 res; simpl; rewrite Eoff.
    + hd. hd. hd. hd. hd. hd.
      intros vals Hl.
      apply (Fin (zero_rows (a_mem a1) ((undef - a_cur a1) mod two32) ((end_row - a_cur a1) mod two32))); auto.
      intros k Hk. unfold zero_rows. rewrite !mod32_small by lia.
      destruct ((undef - a_cur a1 <=? k) && (k <? end_row - a_cur a1)) eqn:E; auto. lia.
    + hd. hd. hd. hd. hd. hd.
      intros vals Hl. apply (Fin (a_mem a1)); auto.
  - (* reader looking (partly) beyond the defined rows *)
    simpl in H.
    destruct (a_prezero a1) eqn:Ez; simpl in H; inversion H; subst a2 res; simpl.
    2: { split; auto. split; auto. }
    rewrite Eoff. hd. hd. hd. hd. split; [split; [exact G0|]|].
    + intros r Hr. simpl in *. destruct (D r Hr) as (D1 & D2). split; auto.
      intros Hwin. unfold zero_rows. rewrite !mod32_small by lia.
      destruct ((undef - a_cur a1 <=? r - a_cur a1) && (r - a_cur a1 <? end_row - a_cur a1)) eqn:E; [lia|]. apply D1; auto.
    + intros k Hk. unfold zero_rows. rewrite !mod32_small by lia.
      destruct (start + k <? a_undef a1) eqn:E1.
      * destruct ((undef - a_cur a1 <=? start - a_cur a1 + k) && (start - a_cur a1 + k <? end_row - a_cur a1)) eqn:E2; [lia|].
        destruct (D (start + k) ltac:(lia)) as (D1 & _). replace (start - a_cur a1 + k) with (start + k - a_cur a1) by lia. apply D1. lia.
      * destruct ((undef - a_cur a1 <=? start - a_cur a1 + k) && (start - a_cur a1 + k <? end_row - a_cur a1)) eqn:E2; auto.
        unfold undef in E2. destruct (a_undef a1 <? start) eqn:E3; lia.
Qed.

(* ------------------------------------------------------------ the access function as a whole *)
Lemma ensure_defined_geom : forall a1 s e w a2 r, ensure_defined a1 s e w = (a2, r) ->
  a_rows a2 = a_rows a1 /\ a_maxacc a2 = a_maxacc a1 /\ a_inmem a2 = a_inmem a1 /\ a_rpc a2 = a_rpc a1 /\ a_cur a2 = a_cur a1 /\
  a_prezero a2 = a_prezero a1 /\ a_bsopen a2 = a_bsopen a1.
Proof.
  intros a1 s e w a2 r H. unfold ensure_defined in H.
  destruct (a_undef a1 <? e); [destruct ((a_undef a1 <? s) && w)|]; [inversion H; subst; repeat split; auto| |].
  - destruct w; simpl in H; destruct (a_prezero a1) eqn:Ez; simpl in H; inversion H; subst; simpl; repeat split; auto.
  - destruct w; inversion H; subst; simpl; repeat split; auto.
Qed.

(* exactly when the definedness phase raises JERR_BAD_VIRTUAL_ACCESS *)
Definition defined_err (a1 : varray) (s e : Z) (w : bool) : bool :=
  (a_undef a1 <? e) && (if w then a_undef a1 <? s else negb (a_prezero a1)).

Lemma ensure_defined_err : forall a1 s e w a2 r, ensure_defined a1 s e w = (a2, r) ->
  match r with inl _ => defined_err a1 s e w = true | inr _ => defined_err a1 s e w = false end.
Proof.
  intros a1 s e w a2 r H. unfold ensure_defined, defined_err in *.
  destruct (a_undef a1 <? e); simpl.
  2: { destruct w; inversion H; subst; auto. }
  destruct w; simpl in *.
  - rewrite andb_true_r in H. destruct (a_undef a1 <? s); simpl in H.
    + inversion H; subst; auto.
    + destruct (a_prezero a1); simpl in H; inversion H; subst; auto.
  - rewrite andb_false_r in H. destruct (a_prezero a1); simpl in H; inversion H; subst; auto.
Qed.

Lemma ensure_defined_same : forall a1 s e w a2 r, ensure_defined a1 s e w = (a2, r) ->
  (forall er, r = inl er -> a2 = a1) /\ (w = false -> a_undef a2 = a_undef a1).
Proof.
  intros a1 s e w a2 r H. unfold ensure_defined in H.
  destruct (a_undef a1 <? e).
  2: { destruct w; inversion H; subst; split; intros; auto; discriminate. }
  destruct w; simpl in H.
  - rewrite andb_true_r in H. destruct (a_undef a1 <? s); simpl in H.
    + inversion H; subst; split; intros; auto; discriminate.
    + destruct (a_prezero a1); simpl in H; inversion H; subst; split; intros; try discriminate.
  - rewrite andb_false_r in H. destruct (a_prezero a1); simpl in H; inversion H; subst; split; intros; auto; discriminate.
Qed.

Lemma ensure_window_nobs : forall a s e a1 x, ensure_window a s e = (a1, x, None) -> a_bsopen a = false -> x = [] /\ a1 = a.
Proof.
  intros a s e a1 x H Hb. unfold ensure_window in H. rewrite Hb in H. simpl in H.
  destruct ((s <? a_cur a) || (e >? (a_cur a + a_inmem a) mod two32)); inversion H; auto.
Qed.

Theorem access_spec : forall a L start num writable a' res xf,
  VI a L -> 0 <= start -> 0 <= num -> start + num < 2 ^ 32 ->
  access a start num writable = (a', res, xf) ->
  Forall (fun x => xfer_ok a x \/ xfer_ok (set_win a' (a_cur a') (a_undef a) (a_dirty a')) x) xf /\
  (a_bsopen a = false -> xf = []) /\
  a_rows a' = a_rows a /\ a_maxacc a' = a_maxacc a /\ a_prezero a' = a_prezero a /\ a_bsopen a' = a_bsopen a /\
  match res with
  | inl e => e = BadVirtualAccess /\ VI a' L /\ a_undef a' = a_undef a /\
             ((start + num >? a_rows a) || (num >? a_maxacc a) || defined_err a start (start + num) writable = true)
  | inr off =>
      (start + num >? a_rows a) || (num >? a_maxacc a) || defined_err a start (start + num) writable = false /\
      (* the returned row pointers mem_buffer[off .. off+num) lie in the in-memory window *)
      off = start - a_cur a' /\ 0 <= off /\ off + num <= a_inmem a' /\ a_inmem a' = a_inmem a /\
      if writable then
        a_undef a' = Z.max (a_undef a) (start + num) /\
        (forall vals, Z.of_nat (length vals) = num ->
           VI (set_data a' (store_rows (a_mem a') off vals) (a_file a')) (Lupd L start vals))
      else
        VI a' L /\ a_undef a' = a_undef a /\
        (forall k, 0 <= k < num ->
           a_mem a' (off + k) = if start + k <? a_undef a then Some (L (start + k)) else Some 0)
  end.
Proof.
  intros a L start num writable a' res xf HV Hs Hn Hw H.
  assert (HV0 := HV). destruct HV as (G & D). destruct G as (g1 & g2 & g3 & g4 & g5 & g6 & g7 & g8).
  unfold access in H. rewrite (mod32_small (start + num)) in H by lia.
  rewrite g7 in H. simpl in H. rewrite orb_false_r in H.
  destruct ((start + num >? a_rows a) || (num >? a_maxacc a)) eqn:Ec.
  { inversion H; subst a' res xf. split; [constructor|]. repeat (split; auto). }
  destruct (ensure_window a start (start + num)) as [[a1 x1] e1] eqn:EW.
  assert (EW0 := EW).
  apply (ensure_window_spec a L) in EW; auto; try lia.
  destruct EW as (-> & HV1 & w1 & w2 & w3 & w4 & w5 & w6 & w7 & w8 & Hx).
  destruct (ensure_defined a1 start (start + num) writable) as [a2 r2] eqn:ED.
  inversion H; subst a' res xf. clear H.
  pose proof (ensure_defined_geom _ _ _ _ _ _ ED) as (d1 & d2 & d3 & d4 & d5 & d6 & d7).
  pose proof (ensure_defined_err _ _ _ _ _ _ ED) as Herr.
  pose proof (ensure_defined_same _ _ _ _ _ _ ED) as Hsame.
  assert (Hde : defined_err a1 start (start + num) writable = defined_err a start (start + num) writable)
    by (unfold defined_err; rewrite w3, w4; auto).
  rewrite Hde in Herr.
  apply (ensure_defined_spec a1 L) in ED; auto; try lia.
  split.
  { eapply Forall_impl; [|exact Hx]. intros x [Hx1|Hx1]; [left; auto|right].
    unfold xfer_ok in *. destruct x; simpl; rewrite d4, d3, d5, d1; rewrite <- w3; auto. }
  split. { intros Hb. destruct (ensure_window_nobs _ _ _ _ _ EW0 Hb); auto. }
  split; [congruence|]. split; [congruence|]. split; [congruence|]. split; [congruence|].
  destruct r2 as [e|off].
  - destruct ED as (-> & HV2). destruct (Hsame) as (Hs1 & _). rewrite (Hs1 _ eq_refl) in *.
    split; auto.
  - destruct ED as (-> & o1 & o2 & o3 & ED).
    split; [simpl; auto|]. split; [congruence|]. split; [lia|]. split; [lia|]. split; [congruence|].
    destruct writable.
    + destruct ED as (u1 & u2 & u3). split; [congruence|].
      intros vals Hl. apply u3. lia.
    + destruct ED as (HV2 & Hk). destruct Hsame as (_ & Hs2). split; auto. split; [rewrite Hs2; auto|].
      intros k Hk2. rewrite <- w3. apply Hk. lia.
Qed.

(* ------------------------------------------------------------ refinement: the swapped window = a plain array *)
Lemma load_rows_spec : forall n m off L U s,
  (forall k, 0 <= k < Z.of_nat n -> m (off + k) = if s + k <? U then Some (L (s + k)) else Some 0) ->
  load_rows m off n = spec_read L U s n.
Proof.
  induction n as [|n IH]; intros m off L U s H; cbn [load_rows spec_read]; auto.
  f_equal.
  - specialize (H 0 ltac:(lia)). rewrite !Z.add_0_r in H. auto.
  - apply IH. intros k Hk. specialize (H (k + 1) ltac:(lia)).
    replace (off + 1 + k) with (off + (k + 1)) by lia. replace (s + 1 + k) with (s + (k + 1)) by lia. auto.
Qed.

Definition vop_ok (o : vop) : Prop :=
  match o with
  | VRead s n => 0 <= s /\ 0 <= n /\ s + n < 2 ^ 32
  | VWrite s vals => 0 <= s /\ s + Z.of_nat (length vals) < 2 ^ 32
  end.

Ltac fin7 := repeat (split; [solve [auto]|]); auto.

Theorem vstep_refines : forall a L o,
  VI a L -> vop_ok o ->
  let '(a', r) := vstep a o in
  let '(L', U', r') := sstep (a_rows a) (a_maxacc a) (a_prezero a) L (a_undef a) o in
  r = r' /\ VI a' L' /\ a_undef a' = U' /\
  a_rows a' = a_rows a /\ a_maxacc a' = a_maxacc a /\ a_prezero a' = a_prezero a /\ a_bsopen a' = a_bsopen a.
Proof.
  intros a L o HV Hok. destruct o as [s n|s vals]; simpl in Hok; unfold vstep, sstep.
  - destruct Hok as (h1 & h2 & h3).
    destruct (access a s n false) as [[a' res] xf] eqn:EA.
    apply (access_spec a L) in EA; auto.
    destruct EA as (_ & _ & e1 & e2 & e3 & e4 & EA).
    unfold defined_err in EA.
    destruct res as [e|off].
    + destruct EA as (-> & HV' & Hu & Hc).
      destruct ((s + n >? a_rows a) || (n >? a_maxacc a)) eqn:E1; [fin7|].
      simpl in Hc. rewrite Hc. fin7.
    + destruct EA as (Hc & -> & o1 & o2 & o3 & HV' & Hu & Hk).
      apply orb_false_iff in Hc. destruct Hc as (Hc1 & Hc2). rewrite Hc1, Hc2.
      split; [f_equal; apply load_rows_spec; intros k Hk2; apply Hk; lia|]. fin7.
  - destruct Hok as (h1 & h3).
    unfold write_rows.
    destruct (access a s (Z.of_nat (length vals)) true) as [[a' res] xf] eqn:EA.
    apply (access_spec a L) in EA; auto; try lia.
    destruct EA as (_ & _ & e1 & e2 & e3 & e4 & EA).
    unfold defined_err in EA.
    destruct res as [e|off].
    + destruct EA as (-> & HV' & Hu & Hc).
      destruct ((s + Z.of_nat (length vals) >? a_rows a) || (Z.of_nat (length vals) >? a_maxacc a)) eqn:E1; [fin7|].
      simpl in Hc. rewrite Hc. fin7.
    + destruct EA as (Hc & -> & o1 & o2 & o3 & Hu & Hv).
      apply orb_false_iff in Hc. destruct Hc as (Hc1 & Hc2). rewrite Hc1, Hc2.
      split; auto. split; [apply (Hv vals eq_refl)|]. simpl. split; [auto|]. split; [auto|]. split; [auto|]. split; auto.
Qed.

Theorem vrun_refines : forall ops a L,
  VI a L -> Forall vop_ok ops ->
  snd (vrun a ops) = srun (a_rows a) (a_maxacc a) (a_prezero a) L (a_undef a) ops.
Proof.
  induction ops as [|o r IH]; intros a L HV Hok; simpl; auto.
  inversion Hok; subst.
  pose proof (vstep_refines a L o HV H1) as Hs.
  destruct (vstep a o) as [a' x]. destruct (sstep (a_rows a) (a_maxacc a) (a_prezero a) L (a_undef a) o) as [[L' U'] x'].
  destruct Hs as (-> & HV' & Hu & q1 & q2 & q3 & q4).
  specialize (IH a' L' HV' H2). destruct (vrun a' r) as [a'' xs]. simpl in *. rewrite IH, Hu, q1, q2, q3. reflexivity.
Qed.

(* never uninitialised memory: every row a reader gets holds a value *)
Corollary reader_never_sees_garbage : forall a L s n a' vals,
  VI a L -> 0 <= s -> 0 <= n -> s + n < 2 ^ 32 ->
  vstep a (VRead s n) = (a', inr vals) -> Forall (fun c => c <> None) vals.
Proof.
  intros a L s n a' vals HV h1 h2 h3 H.
  pose proof (vstep_refines a L (VRead s n) HV (conj h1 (conj h2 h3))) as R. rewrite H in R.
  unfold sstep in R.
  destruct ((s + n >? a_rows a) || (n >? a_maxacc a)); [destruct R; discriminate|].
  destruct ((a_undef a <? s + n) && negb (a_prezero a)); [destruct R; discriminate|].
  destruct R as (R & _). inversion R; subst. clear.
  generalize s. induction (Z.to_nat n); intros; simpl; constructor; auto.
  destruct (s0 <? a_undef a); discriminate.
Qed.

(* without a backing store (jmemnobs.c) nothing is ever transferred and JERR_VIRTUAL_BUG cannot occur *)
Corollary no_backing_store_no_swap : forall a L start num w a' res xf,
  VI a L -> a_bsopen a = false -> 0 <= start -> 0 <= num -> start + num < 2 ^ 32 ->
  access a start num w = (a', res, xf) -> xf = [] /\ res <> inl VirtualBug /\ res <> inl IoFuel /\ a_cur a' = 0.
Proof.
  intros a L start num w a' res xf HV Hb h1 h2 h3 H.
  apply (access_spec a L) in H; auto.
  destruct H as (_ & Hx & _ & _ & _ & e4 & R). split; auto.
  destruct res as [e|off].
  - destruct R as (-> & (G & _) & _). repeat split; try discriminate.
    destruct G as (_ & _ & _ & _ & _ & _ & _ & g8). apply g8. congruence.
  - destruct R as (_ & _ & _ & _ & _ & R). repeat split; try discriminate.
    assert (G : geom a').
    { destruct w; [destruct R as (_ & Hv); destruct (Hv (repeat 0 (Z.to_nat num))) as (G & _); [rewrite repeat_length; lia|exact G] | destruct R as ((G & _) & _); exact G]. }
    destruct G as (_ & _ & _ & _ & _ & _ & _ & g8). apply g8. congruence.
Qed.

(* the state built by realize_virt_arrays (with or without backing store) satisfies the invariant *)
Theorem va_realize_VI : forall c unit walloc width rows maxacc pz maxmem total L,
  0 < c_bigmh c -> 1 <= maxacc -> 1 <= rows < 2 ^ 31 -> 1 <= walloc * unit <= c_max c - c_hdr c ->
  VI (va_realize c unit walloc width rows maxacc pz maxmem total) L.
Proof.
  intros c unit walloc width rows maxacc pz maxmem total L Hb Hm Hr Hw.
  unfold va_realize.
  set (K := max_minheights c _ _ _).
  assert (HK : 1 <= K).
  { unfold K, max_minheights. destruct (_ >=? _); [lia|]. destruct (_ / _ <=? 0) eqn:E; lia. }
  clearbody K.
  pose proof (Z.quot_rem' (rows - 1) maxacc) as Eq.
  pose proof (Z.rem_bound_pos (rows - 1) maxacc ltac:(lia) ltac:(lia)) as Hrem.
  assert (Hq : 0 <= Z.quot (rows - 1) maxacc) by (apply Z.quot_pos; lia).
  set (q := Z.quot (rows - 1) maxacc) in *. set (rm := Z.rem (rows - 1) maxacc) in *.
  assert (Hl : 1 <= (c_max c - c_hdr c) / (walloc * unit)) by (apply Z.div_le_lower_bound; lia).
  destruct (q + 1 <=? K) eqn:E; simpl.
  - split; [|intros r Hr0; simpl in Hr0; lia].
    unfold geom, chunk_rows; simpl. repeat split; try lia; auto.
    destruct (_ <? rows); lia.
  - assert (K * maxacc <= q * maxacc) by (apply Z.mul_le_mono_nonneg_r; lia).
    assert (1 * maxacc <= K * maxacc) by (apply Z.mul_le_mono_nonneg_r; lia).
    assert (Em : (K * maxacc) mod two32 = K * maxacc) by (apply mod32_small; nia).
    split; [|intros r Hr0; simpl in Hr0; lia].
    unfold geom, chunk_rows; simpl. rewrite Em. repeat split; try nia; try discriminate.
    destruct (_ <? K * maxacc); nia.
Qed.
