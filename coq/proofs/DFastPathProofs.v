(* DFastPathProofs.v -- the unchecked Huffman fast path (model/DFastPath.v) never reads outside the
   BUFSIZE * blocks_in_MCU bytes that decode_mcu requires before taking it, for every byte content,
   every valid table set and every state of the bit register; the register never runs dry and never
   holds more than 64 bits. *)
From Coq Require Import List ZArith Bool Lia ZifyBool.
From LJT Require Import gen.GenLimits model.Huff model.DMarkers model.DFastPath
  proofs.DMarkersProofs proofs.DMarkersScanProofs proofs.DMarkersBlockProofs proofs.DMarkersFastProofs.
Import ListNotations.
Local Open Scope Z_scope.
Ltac Zify.zify_post_hook ::= Z.div_mod_to_equations.

Definition blen (s : fstate) : Z := Z.of_nat (length (f_bits s)).
(* potential: bits fetched so far minus bits still in the register = bits consumed (up to a constant) *)
Definition phi (s : fstate) : Z := 48 * f_fills s - blen s.
(* every index read lies below 12 x (number of refills): 6 bytes per refill, at most 2 source bytes each *)
Definition rd_ok (s : fstate) : Prop :=
  0 <= f_fills s /\ 0 <= f_pos s <= 12 * f_fills s /\ Forall (fun r => 0 <= r < 12 * f_fills s) (f_reads s).
Definition good (s : fstate) : Prop := rd_ok s /\ blen s <= 64.

Lemma bits_of_length : forall n c, length (bits_of n c) = n.
Proof. induction n; intros; cbn; auto. Qed.

(* one GET_BYTE *)
Lemma get_byte_fast_spec s : let s' := get_byte_fast s in
  f_src s' = f_src s /\ f_fills s' = f_fills s /\ f_pos s <= f_pos s' <= f_pos s + 2 /\
  blen s' = blen s + 8 /\ f_reads s' = (f_pos s + 1) :: f_pos s :: f_reads s.
Proof.
  unfold get_byte_fast, blen. cbv zeta.
  destruct (_ =? 255); [destruct (_ =? 0)|]; cbn [f_src f_pos f_bits f_reads f_fills];
    rewrite app_length; rewrite ?bits_of_length, ?repeat_length; repeat split; try lia.
Qed.

Lemma fill_fast_spec s : rd_ok s -> let s' := fill_fast s in
  f_src s' = f_src s /\ rd_ok s' /\ phi s' = phi s /\ 17 <= blen s' /\ (blen s <= 64 -> blen s' <= 64) /\
  f_fills s <= f_fills s'.
Proof.
  intros (Hf & Hp & Hr). unfold fill_fast. destruct (length (f_bits s) <=? 16)%nat eqn:E.
  - set (s1 := get_byte_fast s). set (s2 := get_byte_fast s1). set (s3 := get_byte_fast s2).
    set (s4 := get_byte_fast s3). set (s5 := get_byte_fast s4). set (s6 := get_byte_fast s5).
    destruct (get_byte_fast_spec s) as (A1 & B1 & C1 & D1 & E1). fold s1 in A1, B1, C1, D1, E1.
    destruct (get_byte_fast_spec s1) as (A2 & B2 & C2 & D2 & E2). fold s2 in A2, B2, C2, D2, E2.
    destruct (get_byte_fast_spec s2) as (A3 & B3 & C3 & D3 & E3). fold s3 in A3, B3, C3, D3, E3.
    destruct (get_byte_fast_spec s3) as (A4 & B4 & C4 & D4 & E4). fold s4 in A4, B4, C4, D4, E4.
    destruct (get_byte_fast_spec s4) as (A5 & B5 & C5 & D5 & E5). fold s5 in A5, B5, C5, D5, E5.
    destruct (get_byte_fast_spec s5) as (A6 & B6 & C6 & D6 & E6). fold s6 in A6, B6, C6, D6, E6.
    cbv zeta. unfold rd_ok, phi, blen in *. cbn [f_src f_pos f_bits f_reads f_fills].
    assert (Hb : Z.of_nat (length (f_bits s)) <= 16) by lia.
    split; [congruence|]. split.
    + split; [lia|]. split; [lia|].
      rewrite E6, E5, E4, E3, E2, E1.
      repeat (constructor; [lia|]).
      eapply Forall_impl; [|exact Hr]. cbv beta. intros; lia.
    + repeat split; lia.
  - cbv zeta. unfold rd_ok, phi, blen in *. repeat split; auto; lia.
Qed.

(* --------------------------------------------------- the register never runs dry *)
Lemma take_code_total : forall n bs acc, (n <= length bs)%nat -> take_code n bs acc <> None.
Proof.
  induction n; intros bs acc H; cbn [take_code]; [discriminate|].
  destruct bs as [|b t]; [cbn in H; lia|]. apply IHn. cbn in H. lia.
Qed.

Lemma serial_loop_total : forall fuel t code l bs, sentinel_ok t -> 0 <= l <= 17 -> 0 <= code < 2 ^ l ->
  17 - l <= Z.of_nat fuel -> 17 - l <= Z.of_nat (length bs) -> serial_loop fuel t code l bs <> None.
Proof.
  induction fuel as [|k IH]; intros t code l bs Hs Hl Hc Hf Hb; cbn [serial_loop].
  - assert (l = 17) by lia. subst l. change (Z.to_nat 17) with 17%nat. unfold sentinel_ok in Hs. rewrite Hs.
    assert (2 ^ 17 = 131072) by reflexivity.
    destruct (code >? 1048575) eqn:E; [lia|]. cbn. discriminate.
  - destruct (code >? nthZ (maxcode t) (Z.to_nat l)) eqn:E.
    + assert (Hl17 : l <> 17).
      { intros ->. change (Z.to_nat 17) with 17%nat in E. unfold sentinel_ok in Hs. rewrite Hs in E.
        assert (2 ^ 17 = 131072) by reflexivity. lia. }
      destruct bs as [|b r]; [cbn [length] in Hb; lia|].
      apply IH; auto; try lia.
      * rewrite Z.pow_add_r by lia. unfold b2z. destruct b; lia.
      * cbn [length] in Hb. lia.
    + destruct (l >? 16); discriminate.
Qed.

Lemma decode_lookahead_total t bs : sentinel_ok t -> 17 <= Z.of_nat (length bs) -> decode_lookahead t bs <> None.
Proof.
  intros Hs Hb. unfold decode_lookahead.
  destruct (8 <=? length bs)%nat eqn:E; [|apply Nat.leb_gt in E; lia].
  destruct (take_code 8 bs 0) as [[look r]|] eqn:E8; [|exfalso; eapply take_code_total; [|exact E8]; lia].
  destruct (_ <=? HUFF_LOOKAHEAD); [discriminate|].
  unfold decode_serial.
  destruct (take_code 9 bs 0) as [[code r9]|] eqn:E9; [|exfalso; eapply take_code_total; [|exact E9]; lia].
  destruct (take_code_spec _ _ _ _ _ E9) as [A B].
  apply serial_loop_total; auto; try lia.
Qed.

(* a code of 17 bits is the sentinel step of an invalid code: the symbol is 0 *)
Lemma serial_loop_17 : forall fuel t code l bs sym w rest,
  serial_loop fuel t code l bs = Some (sym, w, rest) ->
  Z.of_nat (length bs) - Z.of_nat (length rest) + l > 16 -> sym = 0.
Proof.
  induction fuel as [|k IH]; intros t code l bs sym w rest H Hc; cbn [serial_loop] in H.
  - destruct (code >? _); [discriminate|]. destruct (l >? 16) eqn:E; inversion H; subst; auto. lia.
  - destruct (code >? _).
    + destruct bs as [|b r]; [discriminate|]. eapply IH; [exact H|]. cbn [length] in Hc. lia.
    + destruct (l >? 16) eqn:E; inversion H; subst; auto. lia.
Qed.

Lemma decode_lookahead_17 t bs sym w rest : decode_lookahead t bs = Some (sym, w, rest) ->
  Z.of_nat (length bs) - Z.of_nat (length rest) > 16 -> sym = 0.
Proof.
  unfold decode_lookahead. intros H Hc.
  assert (Hds : forall m, decode_serial t m bs = Some (sym, w, rest) -> sym = 0).
  { unfold decode_serial. intros m H'. destruct (take_code m bs 0) as [[code r]|] eqn:E; [|discriminate].
    destruct (take_code_spec _ _ _ _ _ E) as [A _]. eapply serial_loop_17; [exact H'|]. lia. }
  destruct (8 <=? length bs)%nat; [|eapply Hds; eauto].
  destruct (take_code 8 bs 0) as [[look r]|]; [|discriminate].
  destruct (_ <=? HUFF_LOOKAHEAD) eqn:E; [|eapply Hds; eauto].
  inversion H; subst. rewrite skipn_length in Hc. unfold HUFF_LOOKAHEAD in E. lia.
Qed.

(* s' was reached from s by refills and by consuming at most n bits *)
Definition adv (n : Z) (s s' : fstate) : Prop :=
  f_src s' = f_src s /\ good s' /\ f_fills s <= f_fills s' /\ phi s' <= phi s + n.

Lemma adv_trans a b s1 s2 s3 : adv a s1 s2 -> adv b s2 s3 -> adv (a + b) s1 s3.
Proof. intros (A1 & B1 & C1 & D1) (A2 & B2 & C2 & D2). unfold adv. repeat split; try congruence; try apply B2; lia. Qed.
Lemma adv_weaken a b s1 s2 : a <= b -> adv a s1 s2 -> adv b s1 s2.
Proof. intros H (A1 & B1 & C1 & D1). unfold adv. repeat split; auto; try apply B1; lia. Qed.
Lemma adv_refl s : good s -> adv 0 s s.
Proof. intros H. unfold adv. repeat split; auto; try apply H; lia. Qed.

Lemma set_bits_adv s1 rest : good s1 -> (length rest <= length (f_bits s1))%nat ->
  adv (blen s1 - Z.of_nat (length rest)) s1 (set_bits s1 rest).
Proof.
  intros ((F & P & R) & B) Hl. unfold adv, good, rd_ok, phi, blen, set_bits in *. cbn [f_src f_pos f_bits f_reads f_fills].
  repeat split; auto; lia.
Qed.

Lemma huff_decode_fast_spec t s : sentinel_ok t -> good s ->
  exists sym s', huff_decode_fast t s = Some (sym, s') /\ adv 17 s s' /\ (phi s' <= phi s + 16 \/ sym = 0).
Proof.
  intros Hs (Hr & Hb). unfold huff_decode_fast.
  destruct (fill_fast_spec s Hr) as (A & B & C & D & E & F). specialize (E Hb). cbv zeta in *.
  set (s1 := fill_fast s) in *.
  destruct (decode_lookahead t (f_bits s1)) as [[[sym w] rest]|] eqn:ED;
    [|exfalso; eapply decode_lookahead_total; [exact Hs| |exact ED]; unfold blen in D; lia].
  destruct (decode_lookahead_bits _ _ _ _ _ Hs ED) as [L1 L2].
  pose proof (set_bits_adv s1 rest (conj B E) L1) as (A2 & B2 & C2 & D2).
  exists sym, (set_bits s1 rest). split; [reflexivity|]. unfold blen in *. split.
  - unfold adv. repeat split; try congruence; try apply B2; lia.
  - destruct (Z_le_gt_dec (Z.of_nat (length (f_bits s1)) - Z.of_nat (length rest)) 16) as [Hle|Hgt].
    + left. lia.
    + right. eapply decode_lookahead_17; eauto.
Qed.

Lemma get_bits_fast_spec n s : 0 <= n <= 17 -> good s ->
  exists v s', get_bits_fast n s = Some (v, s') /\ adv n s s'.
Proof.
  intros Hn (Hr & Hb). unfold get_bits_fast.
  destruct (fill_fast_spec s Hr) as (A & B & C & D & E & F). specialize (E Hb). cbv zeta in *.
  set (s1 := fill_fast s) in *.
  destruct (take_code (Z.to_nat n) (f_bits s1) 0) as [[v rest]|] eqn:ET;
    [|exfalso; eapply take_code_total; [|exact ET]; unfold blen in D; lia].
  destruct (take_code_spec _ _ _ _ _ ET) as [T1 _].
  assert (L1 : (length rest <= length (f_bits s1))%nat) by lia.
  pose proof (set_bits_adv s1 rest (conj B E) L1) as (A2 & B2 & C2 & D2).
  exists v, (set_bits s1 rest). split; [reflexivity|]. unfold blen in *.
  unfold adv. repeat split; try congruence; try apply B2; lia.
Qed.

Lemma ac_loop_fast_spec t : dtbl_ok t -> sentinel_ok t -> forall fuel k s acc,
  1 <= k -> 64 <= Z.of_nat fuel + k -> good s ->
  exists acc' s', ac_loop_fast fuel t k s acc = FDone acc' s' /\ adv (31 * Z.max 0 (64 - k)) s s'.
Proof.
  intros Hok Hs. induction fuel as [|f IH]; intros k s acc Hk Hf Hg; cbn [ac_loop_fast].
  - destruct (k <? L_DCTSIZE2) eqn:E; [ulia|]. exists acc, s. split; auto. eapply adv_weaken; [|apply adv_refl; auto]. lia.
  - destruct (k <? L_DCTSIZE2) eqn:E; [|exists acc, s; split; auto; eapply adv_weaken; [|apply adv_refl; auto]; lia].
    destruct (huff_decode_fast_spec t s Hs Hg) as (sym & s1 & H1 & A1 & S1). rewrite H1.
    assert (Hsym : 0 <= sym <= 255).
    { unfold huff_decode_fast in H1. destruct (decode_lookahead t _) as [[[sy w] rest]|] eqn:ED; [|discriminate].
      inversion H1; subst. eapply decode_lookahead_sym; eauto. }
    cbv zeta. destruct (sym mod 16 =? 0) eqn:E0.
    + destruct (sym / 16 =? 15) eqn:E15.
      * destruct (IH (k + 15 + 1) s1 acc ltac:(lia) ltac:(lia) ltac:(apply A1)) as (acc' & s' & H2 & A2).
        exists acc', s'. split; auto. eapply adv_weaken; [|eapply adv_trans; eauto]. ulia.
      * exists acc, s1. split; auto. eapply adv_weaken; [|exact A1]. ulia.
    + assert (Hn : 0 <= sym mod 16 <= 17) by lia.
      destruct (get_bits_fast_spec (sym mod 16) s1 Hn ltac:(apply A1)) as (v & s2 & H2 & A2). rewrite H2.
      match goal with |- exists _ _, ac_loop_fast f t ?k' s2 ?acc0 = _ /\ _ =>
        destruct (IH k' s2 acc0 ltac:(lia) ltac:(lia) ltac:(apply A2)) as (acc' & s' & H3 & A3) end.
      exists acc', s'. split; auto.
      (* the code took at most 16 bits (else the symbol would be 0), the extra bits at most 15 *)
      assert (A1' : adv 16 s s1).
      { destruct S1 as [S1|S1]; [|subst sym; cbn in E0; discriminate].
        destruct A1 as (X1 & X2 & X3 & X4). unfold adv. repeat split; auto; apply X2. }
      eapply adv_weaken; [|eapply adv_trans; [eapply adv_trans; [exact A1'|exact A2]|exact A3]]. ulia.
Qed.

Definition tbl_pair_ok (p : dtbl * dtbl) : Prop :=
  sentinel_ok (fst p) /\ dc_tbl_ok (fst p) /\ dtbl_ok (snd p) /\ sentinel_ok (snd p).

Lemma decode_block_fast_spec d a s : tbl_pair_ok (d, a) -> good s ->
  exists st s', decode_block_fast d a s = FDone st s' /\ adv (31 * 64) s s'.
Proof.
  intros (Sd & Dd & Oa & Sa) Hg. cbn [fst snd] in *. unfold decode_block_fast.
  destruct (huff_decode_fast_spec d s Sd Hg) as (sym & s1 & H1 & A1 & S1). rewrite H1.
  assert (Hsym : 0 <= sym <= 15).
  { unfold huff_decode_fast in H1. destruct (decode_lookahead d _) as [[[sy w] rest]|] eqn:ED; [|discriminate].
    inversion H1; subst. eapply decode_lookahead_dc; eauto. }
  destruct (sym =? 0) eqn:E0.
  - destruct (ac_loop_fast_spec a Oa Sa 64 1 s1 [(0, 0, 0)] ltac:(lia) ltac:(lia) ltac:(apply A1)) as (acc' & s' & H3 & A3).
    exists acc', s'. split; auto. eapply adv_weaken; [|eapply adv_trans; eauto]. lia.
  - destruct (get_bits_fast_spec sym s1 ltac:(lia) ltac:(apply A1)) as (v & s2 & H2 & A2). rewrite H2.
    match goal with |- exists _ _, ac_loop_fast 64 a 1 s2 ?acc0 = _ /\ _ =>
      destruct (ac_loop_fast_spec a Oa Sa 64 1 s2 acc0 ltac:(lia) ltac:(lia) ltac:(apply A2)) as (acc' & s' & H3 & A3) end.
    exists acc', s'. split; auto.
    assert (A1' : adv 16 s s1).
    { destruct S1 as [S1|S1]; [|subst sym; discriminate].
      destruct A1 as (X1 & X2 & X3 & X4). unfold adv. repeat split; auto; apply X2. }
    eapply adv_weaken; [|eapply adv_trans; [eapply adv_trans; [exact A1'|exact A2]|exact A3]]. lia.
Qed.

Lemma decode_mcu_fast_spec : forall tbls s out, Forall tbl_pair_ok tbls -> good s ->
  exists out' s', decode_mcu_fast tbls s out = Some (out', s') /\ adv (31 * 64 * Z.of_nat (length tbls)) s s'.
Proof.
  induction tbls as [|[d a] t IH]; intros s out Ht Hg; cbn [decode_mcu_fast].
  - exists (rev out), s. split; auto. apply adv_refl; auto.
  - inversion Ht as [|x y Hx Hy]; subst.
    destruct (decode_block_fast_spec d a s Hx Hg) as (st & s1 & H1 & A1). rewrite H1.
    destruct (IH s1 (st :: out) Hy ltac:(apply A1)) as (out' & s' & H2 & A2).
    exists out', s'. split; auto. eapply adv_weaken; [|eapply adv_trans; eauto]. cbn [length]. lia.
Qed.

(* THE fast-path theorem: whenever decode_mcu may take the unchecked path -- at least
   BUFSIZE * blocks_in_MCU bytes in the buffer -- the whole MCU is decoded without the bit register
   running dry, and every index the code dereferences, including the look-ahead byte of GET_BYTE
   and the 6-byte prefetch of FILL_BIT_BUFFER_FAST, lies inside the buffer. *)
Lemma fast_path_safe_ : forall (tbls : list (dtbl * dtbl)) (src : list Z) (bits0 : list bool),
  Forall tbl_pair_ok tbls -> (1 <= length tbls)%nat -> (length bits0 <= 64)%nat ->
  L_BUFSIZE * Z.of_nat (length tbls) <= Z.of_nat (length src) ->
  exists out s', decode_mcu_fast tbls (fstate0 src bits0) [] = Some (out, s') /\
                 Forall (fun i => 0 <= i < Z.of_nat (length src)) (f_reads s') /\
                 0 <= f_pos s' <= Z.of_nat (length src) /\
                 (length (f_bits s') <= 64)%nat.
Proof.
  intros tbls src bits0 Ht Hn Hb Hsrc.
  assert (Hg : good (fstate0 src bits0)).
  { unfold good, rd_ok, blen, fstate0; cbn. repeat split; try lia. constructor. }
  destruct (decode_mcu_fast_spec tbls _ [] Ht Hg) as (out & s' & H & (A & ((F & P & R) & B) & C & D)).
  exists out, s'. split; [exact H|].
  unfold phi, blen, fstate0 in *. cbn [f_src f_pos f_bits f_reads f_fills] in *.
  unfold L_BUFSIZE in Hsrc.
  assert (K : 12 * f_fills s' <= Z.of_nat (length src)) by lia.
  split; [|split; [lia|lia]].
  eapply Forall_impl; [|exact R]. cbv beta. intros; lia.
Qed.

(* tables made by jpeg_make_d_derived_tbl from well-formed DHT slots satisfy the hypotheses *)
Lemma derived_pair_ok dbits dvals abits avals dct act :
  htbl_ok (dbits, dvals) -> htbl_ok (abits, avals) ->
  make_d_derived dbits dvals true 15 = Some dct -> make_d_derived abits avals false 15 = Some act ->
  tbl_pair_ok (dct, act).
Proof.
  intros Hd Ha Md Ma. pose proof Hd as (Ld & _). pose proof Ha as (La & _). cbn [fst] in Ld, La.
  destruct (make_d_derived_fast _ _ _ _ _ Ld Md) as [S1 D1].
  destruct (make_d_derived_fast _ _ _ _ _ La Ma) as [S2 _].
  unfold tbl_pair_ok; cbn [fst snd]. split; [exact S1|]. split; [apply D1; [reflexivity|lia]|].
  split; [eapply make_d_derived_ok; eauto|exact S2].
Qed.

(* non-vacuity: the standard luminance tables form a valid pair and a worst-case-looking buffer is decoded *)
Definition ex_pair : option (dtbl * dtbl) :=
  match std_huff with
  | (_, _, db, dv) :: (_, _, ab, av) :: _ =>
      match make_d_derived db (pad256 dv) true 15, make_d_derived ab (pad256 av) false 15 with
      | Some d, Some a => Some (d, a) | _, _ => None end
  | _ => None
  end.
Definition ex_fast_check : bool :=
  match ex_pair with
  | Some (d, a) =>
      match decode_mcu_fast [(d, a)] (fstate0 (repeat 255 1 ++ repeat 0 1 ++ repeat 170 600) []) [] with
      | Some (_, s') => (0 <? f_fills s') && (length (f_reads s') =? 12 * Z.to_nat (f_fills s'))%nat
      | None => false
      end
  | None => false
  end.
Lemma ex_fast_check_true : ex_fast_check = true.
Proof. vm_compute. reflexivity. Qed.
