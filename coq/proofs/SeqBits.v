(* Bit-level lemmas for C03: nbits bounds, GET_BITS of emitted bits, the
   magnitude coding lemma (jchuff.c "temp - 1" trick / HUFF_EXTEND), bytes. *)
From Coq Require Import List ZArith Lia Bool.
From LJT Require Import model.Huff model.Seq.
Import ListNotations.
Local Open Scope Z_scope.

Lemma nbits_pos_bounds p : 1 <= nbits_pos p /\ 2 ^ (nbits_pos p - 1) <= Zpos p < 2 ^ nbits_pos p.
Proof.
  induction p as [q [H1 [H2 H3]]|q [H1 [H2 H3]]|]; cbn [nbits_pos].
  - split; [lia|]. replace (1 + nbits_pos q - 1) with (nbits_pos q) by lia.
    rewrite Z.pow_add_r by lia. replace (nbits_pos q) with (1 + (nbits_pos q - 1)) at 1 by lia.
    rewrite Z.pow_add_r by lia. change (2 ^ 1) with 2. lia.
  - split; [lia|]. replace (1 + nbits_pos q - 1) with (nbits_pos q) by lia.
    rewrite Z.pow_add_r by lia. replace (nbits_pos q) with (1 + (nbits_pos q - 1)) at 1 by lia.
    rewrite Z.pow_add_r by lia. change (2 ^ 1) with 2. lia.
  - cbn. lia.
Qed.

Lemma nbits_bounds x : 0 < x -> 1 <= nbits x /\ 2 ^ (nbits x - 1) <= x < 2 ^ nbits x.
Proof. destruct x as [|p|p]; try lia. intros _. apply nbits_pos_bounds. Qed.

Lemma nbits_nonneg x : 0 <= nbits x.
Proof. destruct x as [|p|p]; cbn; try lia. pose proof (nbits_pos_bounds p). lia. Qed.

Lemma nbits_0 : nbits 0 = 0.
Proof. reflexivity. Qed.

Lemma b2z_testbit c k : 0 <= k -> b2z (Z.testbit c k) = (c / 2 ^ k) mod 2.
Proof.
  intros Hk. rewrite <- (Z.testbit_spec' c k Hk). now destruct (Z.testbit c k).
Qed.

Lemma take_code_bits_of c rest : forall k acc,
  take_code k (bits_of k c ++ rest) acc = Some (acc * 2 ^ Z.of_nat k + c mod 2 ^ Z.of_nat k, rest).
Proof.
  induction k as [|k IH]; intros acc.
  - cbn. rewrite Z.mod_1_r. f_equal. f_equal. lia.
  - cbn [bits_of app take_code]. rewrite IH. f_equal. f_equal.
    rewrite b2z_testbit by lia.
    replace (Z.of_nat (S k)) with (Z.of_nat k + 1) by lia.
    rewrite Z.pow_add_r by lia. change (2 ^ 1) with 2.
    rewrite (Z.rem_mul_r c (2 ^ Z.of_nat k) 2) by lia. lia.
Qed.

Lemma get_bits_bits_of n c rest : 0 <= n ->
  get_bits n (bits_of (Z.to_nat n) c ++ rest) = Some (c mod 2 ^ n, rest).
Proof.
  intros Hn. unfold get_bits. rewrite take_code_bits_of. rewrite Z2Nat.id by lia. f_equal.
Qed.

Lemma length_bits_of c : forall k, length (bits_of k c) = k.
Proof. induction k; cbn; congruence. Qed.

(* the magnitude coding lemma: for every nonzero v, reading nbits|v| bits of
   (v >= 0 ? v : v - 1) and sign-extending gives v back *)
Lemma mag_roundtrip v rest : v <> 0 ->
  exists x, get_bits (nbits (Z.abs v)) (mag_bits v (nbits (Z.abs v)) ++ rest) = Some (x, rest) /\
            huff_extend x (nbits (Z.abs v)) = v.
Proof.
  intros Hv. pose proof (nbits_bounds (Z.abs v) ltac:(lia)) as [Hn [Hlo Hhi]].
  set (nb := nbits (Z.abs v)) in *. unfold mag_bits.
  assert (Hp : 2 ^ nb = 2 * 2 ^ (nb - 1)).
  { replace nb with (1 + (nb - 1)) at 1 by lia. rewrite Z.pow_add_r by lia. reflexivity. }
  eexists. split. { apply get_bits_bits_of. lia. }
  unfold huff_extend. destruct (v <? 0) eqn:Hs.
  - apply Z.ltb_lt in Hs.
    replace ((v - 1) mod 2 ^ nb) with (v - 1 + 2 ^ nb).
    2:{ symmetry. rewrite <- (Z_mod_plus_full (v - 1) 1 (2 ^ nb)). rewrite Z.mul_1_l. apply Z.mod_small. lia. }
    destruct (v - 1 + 2 ^ nb <? 2 ^ (nb - 1)) eqn:E; [lia|]. apply Z.ltb_ge in E. lia.
  - apply Z.ltb_ge in Hs. rewrite Z.mod_small by lia.
    destruct (v <? 2 ^ (nb - 1)) eqn:E; [|reflexivity]. apply Z.ltb_lt in E. lia.
Qed.

(* general form (every s, every representable v) *)
Lemma extend_low_bits v s : 1 <= s -> 2 ^ (s - 1) <= Z.abs v < 2 ^ s ->
  huff_extend ((if v <? 0 then v - 1 else v) mod 2 ^ s) s = v.
Proof.
  intros Hs [Hlo Hhi].
  assert (Hp : 2 ^ s = 2 * 2 ^ (s - 1)).
  { replace s with (1 + (s - 1)) at 1 by lia. rewrite Z.pow_add_r by lia. reflexivity. }
  unfold huff_extend. destruct (v <? 0) eqn:Hv.
  - apply Z.ltb_lt in Hv.
    replace ((v - 1) mod 2 ^ s) with (v - 1 + 2 ^ s).
    2:{ symmetry. rewrite <- (Z_mod_plus_full (v - 1) 1 (2 ^ s)). rewrite Z.mul_1_l. apply Z.mod_small. lia. }
    destruct (v - 1 + 2 ^ s <? 2 ^ (s - 1)) eqn:E; [lia|]. apply Z.ltb_ge in E. lia.
  - apply Z.ltb_ge in Hv. rewrite Z.mod_small by lia.
    destruct (v <? 2 ^ (s - 1)) eqn:E; [|reflexivity]. apply Z.ltb_lt in E. lia.
Qed.

(* the branch-free HUFF_EXTEND of jdhuff.c equals the conditional one on 32-bit ints *)
Lemma huff_extend_branchless_eq x s : 1 <= s <= 16 -> 0 <= x < 2 ^ s ->
  huff_extend_branchless x s = huff_extend x s.
Proof.
  intros Hs Hx. unfold huff_extend_branchless, huff_extend.
  rewrite !Z.shiftl_mul_pow2 by lia. rewrite Z.shiftr_div_pow2 by lia. rewrite Z.mul_1_l.
  assert (H16 : 2 ^ s <= 2 ^ 16) by (apply Z.pow_le_mono_r; lia).
  assert (Hs1 : 0 < 2 ^ (s - 1) <= 2 ^ 16).
  { split; [apply Z.pow_pos_nonneg; lia|apply Z.pow_le_mono_r; lia]. }
  change (2 ^ 16) with 65536 in *.
  destruct (x <? 2 ^ (s - 1)) eqn:E.
  - apply Z.ltb_lt in E.
    replace ((x - 2 ^ (s - 1)) / 2 ^ 31) with (-1).
    2:{ apply Z.div_unique with (r := x - 2 ^ (s - 1) + 2 ^ 31);
        change (2 ^ 31) with 2147483648; lia. }
    rewrite Z.land_m1_l. lia.
  - apply Z.ltb_ge in E. rewrite Z.div_small. 2:{ change (2 ^ 31) with 2147483648. lia. }
    rewrite Z.land_0_l. lia.
Qed.

(* ------------------------------------------------------------ bytes <-> bits *)
Lemma bits_of_byte_val b7 b6 b5 b4 b3 b2 b1 b0 :
  bits_of 8 (byte_val [b7; b6; b5; b4; b3; b2; b1; b0] 0) = [b7; b6; b5; b4; b3; b2; b1; b0].
Proof. destruct b7, b6, b5, b4, b3, b2, b1, b0; reflexivity. Qed.

Lemma list8 {A} (l : list A) : length l = 8%nat ->
  exists a b c d e f g h, l = [a; b; c; d; e; f; g; h].
Proof.
  intros H. do 8 (destruct l as [|? l]; [discriminate|]). destruct l; [|discriminate].
  repeat eexists.
Qed.

Lemma bits_of_byte_val8 l : length l = 8%nat -> bits_of 8 (byte_val l 0) = l.
Proof.
  intros H. destruct (list8 l H) as (a & b & c & d & e & f & g & h & ->). apply bits_of_byte_val.
Qed.

Lemma unpack_pack : forall fuel bs, (length bs <= fuel)%nat ->
  exists pad, unpack (pack fuel bs) = bs ++ pad.
Proof.
  induction fuel as [|f IH]; intros bs Hl.
  - destruct bs; [|cbn in Hl; lia]. exists []. reflexivity.
  - destruct bs as [|b bs']; [exists []; reflexivity|].
    set (bs := b :: bs') in *. cbn [pack]. unfold bs at 1. fold bs.
    unfold unpack. cbn [flat_map]. fold (unpack (pack f (skipn 8 bs))).
    destruct (Nat.le_gt_cases 8 (length bs)) as [H8|H8].
    + destruct (IH (skipn 8 bs)) as [pad Hp]. { rewrite skipn_length. lia. }
      exists pad. rewrite Hp.
      assert (Hf : length (firstn 8 bs) = 8%nat) by (rewrite firstn_length; lia).
      unfold pad8. rewrite Hf. cbn [Nat.sub repeat]. rewrite app_nil_r.
      rewrite bits_of_byte_val8 by exact Hf.
      rewrite app_assoc. now rewrite firstn_skipn.
    + rewrite (skipn_all2 bs) by lia.
      assert (Hp : pack f [] = []) by (destruct f; reflexivity). rewrite Hp. cbn [unpack flat_map].
      rewrite firstn_all2 by lia. exists (repeat true (8 - length bs)).
      rewrite app_nil_r. apply bits_of_byte_val8. unfold pad8. rewrite app_length, repeat_length. lia.
Qed.

Definition marker_start (tail : list Z) : Prop :=
  tail = [] \/ exists m t, tail = 255 :: m :: t /\ m <> 0.

Lemma load_seg_stuff tail : marker_start tail -> forall l, load_seg (stuff l ++ tail) = (l, tail).
Proof.
  intros Ht. induction l as [|b l IH].
  - cbn [stuff app]. destruct Ht as [->|(m & t & -> & Hm)]; [reflexivity|].
    cbn [load_seg]. rewrite Z.eqb_refl. destruct m; [congruence|reflexivity|reflexivity].
  - cbn [stuff]. destruct (b =? 255) eqn:E.
    + apply Z.eqb_eq in E. subst b. cbn [app load_seg]. rewrite Z.eqb_refl. now rewrite IH.
    + cbn [app load_seg]. rewrite E. now rewrite IH.
Qed.
