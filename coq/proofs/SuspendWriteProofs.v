(* C09 -- write logs: re-applying a prefix of an assignment log is absorbed;
   the parser monad is stable under extension of the input. *)
From Coq Require Import List ZArith Lia Arith Bool.
From LJT Require Import model.SuspendCore model.SuspendMarker.
Import ListNotations.

(* ------------------------------------------------------------ list update *)
Lemma upd_absorb {A} : forall i (v v' : A) l, upd i v' (upd i v l) = upd i v' l.
Proof. induction i; destruct l; simpl; auto. now rewrite IHi. Qed.

Lemma upd_comm {A} : forall i j (v w : A) l, i <> j -> upd i v (upd j w l) = upd j w (upd i v l).
Proof.
  induction i; destruct j; destruct l; simpl; intros; auto; try lia.
  all: try (f_equal; apply IHi; lia).
Qed.

Lemma nth_upd_other {A} : forall i j (v d : A) l, i <> j -> nth i (upd j v l) d = nth i l d.
Proof.
  induction i; destruct j; destruct l; simpl; intros; auto; try lia.
  all: try (apply IHi; lia).
Qed.

Lemma upd_length {A} : forall i (v : A) l, length (upd i v l) = length l.
Proof. induction i; destruct l; simpl; auto. Qed.

Lemma cset_absorb : forall g i v v' c, cset g i v' (cset g i v c) = cset g i v' c.
Proof.
  unfold cset. induction g; destruct c; simpl; auto.
  - now rewrite upd_absorb.
  - intros. f_equal. apply IHg.
Qed.

Lemma cset_comm : forall g i v g' i' v' c, (g <> g' \/ i <> i') ->
  cset g i v (cset g' i' v' c) = cset g' i' v' (cset g i v c).
Proof.
  unfold cset. induction g; destruct g'; destruct c; simpl; intros; auto.
  - destruct H; [lia|]. f_equal. now apply upd_comm.
  - f_equal. apply IHg. lia.
Qed.

Lemma nth_upd_same {A} : forall g (x d : A) l, g < length l -> nth g (upd g x l) d = x.
Proof. induction g; destruct l; simpl; intros; try lia; auto. apply IHg. lia. Qed.

Lemma upd_oob {A} : forall g (x : A) l, length l <= g -> upd g x l = l.
Proof. induction g; destruct l; simpl; intros; try lia; auto. f_equal. apply IHg. lia. Qed.

Lemma cget_cset_other : forall g i g' i' v c, (g <> g' \/ i <> i') ->
  cget g i (cset g' i' v c) = cget g i c.
Proof.
  unfold cget, cset. intros.
  destruct (Nat.eq_dec g g') as [->|Hg].
  - destruct H; [lia|].
    destruct (Nat.lt_ge_cases g' (length c)).
    + rewrite nth_upd_same by auto. now apply nth_upd_other.
    + now rewrite upd_oob.
  - now rewrite nth_upd_other.
Qed.

Lemma row_cset_other : forall g g' i' v c, g <> g' -> nth g (cset g' i' v c) [] = nth g c [].
Proof. intros. unfold cset. now apply nth_upd_other. Qed.

(* ------------------------------------------------------------ write logs *)
Definition same_loc (w w' : mwrite) : bool :=
  match w, w' with
  | WCell g i _, WCell g' i' _ => Nat.eqb g g' && Nat.eqb i i'
  | WRow r _, WRow r' _ => Nat.eqb r r'
  | _, _ => false
  end.

Lemma same_loc_refl : forall w, same_loc w w = true.
Proof. destruct w; simpl; now rewrite ?Nat.eqb_refl. Qed.

Lemma apply_absorb : forall w w' s, same_loc w w' = true ->
  apply_write w' (apply_write w s) = apply_write w' s.
Proof.
  destruct w, w'; simpl; intros s H; try discriminate.
  - apply andb_true_iff in H. destruct H as [H1 H2].
    apply Nat.eqb_eq in H1. apply Nat.eqb_eq in H2. subst.
    destruct s; unfold set_cells; simpl. now rewrite cset_absorb.
  - apply Nat.eqb_eq in H. subst. destruct s; unfold set_rows; simpl. now rewrite upd_absorb.
Qed.

Lemma apply_comm : forall w w' s, same_loc w w' = false ->
  apply_write w (apply_write w' s) = apply_write w' (apply_write w s).
Proof.
  destruct w, w'; simpl; intros s H; destruct s; unfold set_cells, set_rows; simpl; try reflexivity.
  - rewrite cset_comm; [reflexivity|].
    apply andb_false_iff in H. destruct H as [H|H]; apply Nat.eqb_neq in H; auto.
  - apply Nat.eqb_neq in H. now rewrite upd_comm.
Qed.

Lemma apply_all_app : forall a b s, apply_all (a ++ b) s = apply_all b (apply_all a s).
Proof. intros. unfold apply_all. now rewrite fold_left_app. Qed.

Lemma absorb_one : forall ws w s, existsb (same_loc w) ws = true ->
  apply_all ws (apply_write w s) = apply_all ws s.
Proof.
  induction ws as [|w0 ws IH]; simpl; intros w s H; [discriminate|].
  destruct (same_loc w w0) eqn:E.
  - change (apply_all ws (apply_write w0 (apply_write w s)) = apply_all ws (apply_write w0 s)).
    now rewrite apply_absorb.
  - simpl in H.
    change (apply_all ws (apply_write w0 (apply_write w s)) = apply_all ws (apply_write w0 s)).
    rewrite apply_comm by (destruct w, w0; simpl in *; rewrite ?(Nat.eqb_sym g0 g), ?(Nat.eqb_sym i0 i), ?(Nat.eqb_sym r0 r); auto).
    now apply IH.
Qed.

Lemma absorb_many : forall ws1 ws s, (forall w, In w ws1 -> existsb (same_loc w) ws = true) ->
  apply_all ws (apply_all ws1 s) = apply_all ws s.
Proof.
  induction ws1 as [|w ws1 IH]; intros ws s H; [reflexivity|].
  change (apply_all ws (apply_all ws1 (apply_write w s)) = apply_all ws s).
  rewrite IH by (intros; apply H; now right).
  apply absorb_one. apply H. now left.
Qed.

(* the C discipline in one line: a prefix of the assignment log may be replayed *)
Theorem replay_absorbed : forall ws d s, apply_all (ws ++ d) (apply_all ws s) = apply_all (ws ++ d) s.
Proof.
  intros. apply absorb_many. intros w Hw.
  apply existsb_exists. exists w. split; [apply in_or_app; now left | apply same_loc_refl].
Qed.

(* non-assignable fields are never touched by a write log *)
Lemma apply_all_frame : forall ws s,
  let s' := apply_all ws s in
  saw_SOI s' = saw_SOI s /\ saw_SOF s' = saw_SOF s /\ unread_marker s' = unread_marker s /\
  discarded s' = discarded s /\ warnings s' = warnings s /\ next_restart_num s' = next_restart_num s /\
  input_scan_number s' = input_scan_number s /\ jfif s' = jfif s /\ adobe s' = adobe s /\
  cur_marker s' = cur_marker s /\ bytes_read s' = bytes_read s /\ marker_list s' = marker_list s /\
  proc s' = proc s /\ limit s' = limit s /\ halted s' = halted s.
Proof.
  induction ws as [|w ws IH]; intros s; [cbv zeta; simpl; repeat split|].
  cbv zeta in *. change (apply_all (w :: ws) s) with (apply_all ws (apply_write w s)).
  specialize (IH (apply_write w s)).
  destruct w; simpl in IH; exact IH.
Qed.

(* ------------------------------------------------------------ the monad *)
Definition stable {A} (m : P A) : Prop := forall p e pos,
  match m p pos with
  | POk a pos' w => m (p ++ e) pos = POk a pos' w /\ (pos <= length p -> pos' <= length p) /\ pos <= pos'
  | PErr x => m (p ++ e) pos = PErr x
  | PMore w => match m (p ++ e) pos with
               | POk _ _ w' => exists d, w' = w ++ d
               | PMore w' => exists d, w' = w ++ d
               | PErr _ => True
               end
  end.

Lemma stable_ret {A} (a : A) : stable (ret a).
Proof. intros p e pos. simpl. auto. Qed.

Lemma stable_emit w : stable (emit w).
Proof. intros p e pos. simpl. auto. Qed.

Lemma stable_pfail {A} e : stable (@pfail A e).
Proof. intros p e' pos. simpl. auto. Qed.

Lemma stable_input_byte : stable input_byte.
Proof.
  intros p e pos. unfold input_byte.
  destruct (nth_error p pos) eqn:E.
  - assert (pos < length p) by (apply nth_error_Some; congruence).
    rewrite nth_error_app1 by lia. rewrite E. repeat split; lia.
  - destruct (nth_error (p ++ e) pos); exists []; reflexivity.
Qed.

Lemma stable_bind {A B} (m : P A) (f : A -> P B) :
  stable m -> (forall a, stable (f a)) -> stable (bind m f).
Proof.
  intros Hm Hf p e pos. unfold bind.
  specialize (Hm p e pos).
  destruct (m p pos) as [a pos' w1|w1|x] eqn:E.
  - destruct Hm as (Hm & Hl & Hp). rewrite Hm.
    specialize (Hf a p e pos').
    destruct (f a p pos') as [b pos'' w2|w2|y] eqn:E2.
    + destruct Hf as (Hf & Hl2 & Hp2). rewrite Hf. repeat split; try lia.
    + destruct (f a (p ++ e) pos') as [b pos'' w2'|w2'|y]; auto;
        destruct Hf as [d Hd]; subst; exists d; now rewrite app_assoc.
    + now rewrite Hf.
  - destruct (m (p ++ e) pos) as [a pos' w1'|w1'|x]; auto.
    destruct Hm as [d Hd]. subst.
    destruct (f a (p ++ e) pos') as [b pos'' w2|w2|y]; auto;
      eexists; rewrite <- app_assoc; reflexivity.
  - now rewrite Hm.
Qed.

Lemma stable_bind_le : True. Proof. exact I. Qed.

Lemma stable_2bytes : stable input_2bytes.
Proof.
  unfold input_2bytes. repeat (apply stable_bind; [|intros]); try apply stable_input_byte.
  apply stable_ret.
Qed.

Lemma stable_rep {A} : forall n (body : nat -> A -> P A) i a,
  (forall i a, stable (body i a)) -> stable (rep n body i a).
Proof.
  induction n; intros; simpl; [apply stable_ret|].
  apply stable_bind; auto.
Qed.

(* all logged writes satisfy q *)
Definition emits {A} (q : mwrite -> bool) (m : P A) : Prop := forall p pos,
  match m p pos with
  | POk _ _ w => forallb q w = true
  | PMore w => forallb q w = true
  | PErr _ => True
  end.

Lemma emits_ret {A} q (a : A) : emits q (ret a).
Proof. intros p pos. reflexivity. Qed.
Lemma emits_pfail {A} q e : emits q (@pfail A e).
Proof. intros p pos. exact I. Qed.
Lemma emits_input_byte q : emits q input_byte.
Proof. intros p pos. unfold input_byte. destruct (nth_error p pos); reflexivity. Qed.
Lemma emits_emit q w : q w = true -> emits q (emit w).
Proof. intros H p pos. simpl. now rewrite H. Qed.
Lemma emits_bind {A B} q (m : P A) (f : A -> P B) :
  emits q m -> (forall a, emits q (f a)) -> emits q (bind m f).
Proof.
  intros Hm Hf p pos. unfold bind. specialize (Hm p pos).
  destruct (m p pos) as [a pos' w1|w1|x]; auto.
  specialize (Hf a p pos').
  destruct (f a p pos') as [b pos'' w2|w2|y]; auto; rewrite forallb_app, Hm, Hf; reflexivity.
Qed.
Lemma emits_2bytes q : emits q input_2bytes.
Proof.
  unfold input_2bytes. repeat (apply emits_bind; [|intros]); try apply emits_input_byte.
  apply emits_ret.
Qed.
Lemma emits_rep {A} q : forall n (body : nat -> A -> P A) i a,
  (forall i a, emits q (body i a)) -> emits q (rep n body i a).
Proof.
  induction n; intros; simpl; [apply emits_ret|].
  apply emits_bind; auto.
Qed.

(* ------------------------------------------------- a routine as a unit *)
Section Routine.
  Variable m : routine.
  Variable after : commit.
  Hypothesis St : stable m.

  Lemma routine_done : forall s p s' n k, run_routine m after s p = Done s' n k ->
    n <= length p /\ forall e, run_routine m after s (p ++ e) = Done s' n k.
  Proof.
    unfold run_routine. intros s p s' n k H.
    pose proof (St p) as S0.
    destruct (m p 0) as [[c k0] pos ws|ws|x] eqn:E; try discriminate.
    inversion H; subst. split.
    - pose proof (S0 [] 0) as S1. rewrite E in S1. destruct S1 as (_ & Hl & _). apply Hl. lia.
    - intros e. specialize (S0 e 0). rewrite E in S0. destruct S0 as (S0 & _). now rewrite S0.
  Qed.

  Lemma routine_fail : forall s p x, run_routine m after s p = Fail x ->
    forall e, run_routine m after s (p ++ e) = Fail x.
  Proof.
    unfold run_routine. intros s p x H e.
    pose proof (St p e 0) as S0.
    destruct (m p 0) as [[c k0] pos ws|ws|y] eqn:E; try discriminate.
    inversion H; subst. now rewrite S0.
  Qed.

  Lemma routine_never_halt : forall s p, run_routine m after s p <> Halt.
  Proof. unfold run_routine. intros s p. destruct (m p 0) as [[c k0] pos ws|ws|y]; discriminate. Qed.

  (* re-running the SAME routine on the dirty state gives what the clean state gives *)
  Lemma routine_more : forall s p s1 n, run_routine m after s p = More s1 n ->
    n = 0 /\ (exists ws, s1 = apply_all ws s) /\
    forall e, run_routine m after s1 (p ++ e) = run_routine m after s (p ++ e).
  Proof.
    unfold run_routine. intros s p s1 n H.
    pose proof (St p) as S0.
    destruct (m p 0) as [[c k0] pos ws|ws|y] eqn:E; try discriminate.
    inversion H; subst. split; [reflexivity|]. split; [now exists ws|].
    intros e. specialize (S0 e 0). rewrite E in S0.
    destruct (m (p ++ e) 0) as [[c k0] pos ws'|ws'|y]; auto;
      destruct S0 as [d Hd]; subst; now rewrite replay_absorbed.
  Qed.
End Routine.
