(* C03: the restart interval the entropy encoders use (cinfo->restart_interval after
   jcmaster.c per_scan_setup) is the interval the DRI marker announces (jcmarker.c emit_dri),
   for every restart_in_rows / MCUs_per_row / directly set interval; both functions are
   regenerated from the source on every run (gen/GenRestartClamp.v). *)
From Coq Require Import List ZArith Lia.
From LJT Require Import model.Huff model.Seq gen.GenRestartClamp proofs.SeqProofs.
Import ListNotations.
Local Open Scope Z_scope.

Lemma restart_interval_announced rows mpr ri : 0 <= rows -> 0 <= mpr -> 0 <= ri ->
  let used := gen_per_scan_interval rows mpr ri in
  0 <= used <= 65535 /\ gen_dri_field used = used.
Proof.
  intros Hr Hm Hi. cbv zeta.
  assert (Hu : 0 <= gen_per_scan_interval rows mpr ri <= 65535).
  { unfold gen_per_scan_interval. assert (0 <= rows * mpr) by (apply Z.mul_nonneg_nonneg; lia).
    destruct (rows >? 0); cbv zeta.
    - destruct (Z.min (rows * mpr) 65535 >? 65535) eqn:E; [lia|]. rewrite Z.gtb_ltb in E. apply Z.ltb_ge in E. lia.
    - destruct (ri >? 65535) eqn:E; [lia|]. rewrite Z.gtb_ltb in E. apply Z.ltb_ge in E. lia. }
  split; [exact Hu|]. unfold gen_dri_field. apply Z.mod_small. lia.
Qed.

(* consequence for a sequential scan: a decoder that takes its interval from the DRI field
   splits the stream exactly where the encoder restarted *)
Theorem seq_scan_roundtrip_dri dct act mcb mem ncomp rows mpr ri ms bytes :
  0 <= rows -> 0 <= mpr -> 0 <= ri -> mcb <= 15 -> Forall (Forall wf_block) ms ->
  seq_enc_scan dct act mcb mem ncomp (Z.to_nat (gen_per_scan_interval rows mpr ri)) ms = Some bytes ->
  seq_dec_scan dct act mem ncomp (Z.to_nat (gen_dri_field (gen_per_scan_interval rows mpr ri))) (length ms) bytes = Some ms.
Proof.
  intros Hr Hm Hi Hmcb Hwf He. destruct (restart_interval_announced rows mpr ri Hr Hm Hi) as [_ Heq].
  cbv zeta in Heq. rewrite Heq. now apply seq_scan_roundtrip_thm with (mcb := mcb).
Qed.
