(* C20 -- proofs about model/RawData.v *)
From Coq Require Import ZArith List Bool Lia ZifyBool.
From LJT Require Import lib.Sweep lib.PadLemmas gen.GenSubsamp model.Geometry model.YuvCopy model.RawData
  proofs.GeometryProofs proofs.YuvCopyProofs.
Import ListNotations.
Local Open Scope Z_scope.
Local Open Scope bool_scope.

(* ------------------------------------------------------------------ A. hand-modelled library quantities = generated ones *)
Lemma jdiv_round_up_cdiv a b : 0 <= a -> 0 < b -> jdiv_round_up_c a b = cdiv a b.
Proof. intros. unfold jdiv_round_up_c, cdiv. apply Z.quot_div_nonneg; lia. Qed.

Lemma lj_blocks_tie i w h s : valid_samp s -> 0 <= i < 3 -> 0 <= w -> 0 <= h ->
  lj_wib i w s = ljg_wib i w s /\ lj_hib i h s = ljg_hib i h s /\
  ljc_wib w (lj_hs i s) (comp_hsamp0 s) DCTSIZE = ljg_wib i w s /\ ljc_hib h (lj_vs i s) (comp_vsamp0 s) DCTSIZE = ljg_hib i h s.
Proof.
  intros Hs Hi Hw Hh. destruct (hsf_cases s Hs) as (Eh & _ & Hh'). destruct (vsf_cases s Hs) as (Ev & _ & Hv').
  unfold lj_wib, lj_hib, ljg_wib, ljg_hib, ljd_wib, ljd_hib, ljc_wib, ljc_hib, lj_hs, lj_vs, DCTSIZE. rewrite Eh, Ev.
  repeat split; try reflexivity; rewrite jdiv_round_up_cdiv by (destruct (i =? 0); nia); unfold cdiv; reflexivity.
Qed.

Definition ladder_ok (p : Z * Z) : bool :=
  let '(n, d) := p in
  (ljg_min_dct n d =? dtp_dctsize n d) && (ljg_min_dct_v n d =? dtp_dctsize n d) &&
  (let '(wm, hm, _, _) := ljg_rung n d in (wm =? dtp_dctsize n d) && (hm =? dtp_dctsize n d)).
Lemma ladder_table_ok : forallb ladder_ok sf_tbl = true.
Proof. vm_compute. reflexivity. Qed.

Lemma cdiv_rescale x k n d : 0 <= x -> 0 < d -> k * d = 8 * n -> cdiv (x * k) 8 = cdiv (x * n) d.
Proof.
  intros Hx Hd E. apply cdiv_unique; [lia|].
  pose proof (cdiv_spec (x * n) d Hd) as [L U]. set (q := cdiv (x * n) d) in *.
  assert (E2 : x * k * d = 8 * (x * n)) by (rewrite <- Z.mul_assoc, E; ring).
  split.
  - assert ((q - 1) * 8 * d < x * k * d) by nia. nia.
  - assert (x * k * d <= q * 8 * d) by nia. nia.
Qed.

(* for every factor of the table the ladder yields min_DCT_scaled_size = dctsize and the output size ceil(dim*num/denom) *)
Lemma lj_output_tie num denom dim : In (num, denom) sf_tbl -> 0 <= dim ->
  ljg_min_dct num denom = dtp_dctsize num denom /\ ljg_min_dct_v num denom = dtp_dctsize num denom /\
  ljg_out_w dim num denom = lj_out dim num denom /\ ljg_out_h dim num denom = lj_out dim num denom.
Proof.
  intros Hin Hd. pose proof (proj1 (forallb_forall _ _) ladder_table_ok _ Hin) as L. unfold ladder_ok in L.
  destruct (sf_facts num denom Hin) as (Hn & Hde & Hdc).
  pose proof (proj1 (forallb_forall _ _) sf_tbl_ok _ Hin) as F. unfold sf_ok in F. cbn [fst snd] in F.
  assert (Hm : (DCTSIZE * num) mod denom = 0) by lia.
  assert (K : dtp_dctsize num denom * denom = 8 * num).
  { unfold dtp_dctsize. rewrite Z.quot_div_nonneg by (unfold DCTSIZE; lia).
    pose proof (Z.div_mod (DCTSIZE * num) denom ltac:(lia)). unfold DCTSIZE in *. lia. }
  unfold ljg_min_dct, ljg_min_dct_v, ljg_out_w, ljg_out_h in *. destruct (ljg_rung num denom) as [[[wm hm] dh] dv].
  assert (wm = dtp_dctsize num denom) as -> by lia. assert (hm = dtp_dctsize num denom) as -> by lia.
  split; [lia|]. split; [lia|].
  unfold lj_out. fold (cdiv (dim * num) denom). unfold DCTSIZE.
  rewrite jdiv_round_up_cdiv by nia. split; apply cdiv_rescale; lia.
Qed.

(* rows a raw-data call touches: generated block-row rule = the min(th, ih - crow) of model/YuvCopy.v *)
Lemma rows_in_call_tie k hib vs dss : 1 <= vs -> 1 <= dss -> 1 <= hib -> 0 <= k < cdiv hib vs ->
  ljg_rows_in_call k (cdiv hib vs) hib vs dss = Z.min (vs * dss) (hib * dss - k * (vs * dss)) /\
  ljd_last_row_height hib vs = ljd_block_rows_last hib vs /\ ljc_last_row_height hib vs = ljd_block_rows_last hib vs.
Proof.
  intros Hv Hd Hh Hk. split; [|split; reflexivity].
  unfold ljg_rows_in_call, ljd_block_rows_last. rewrite Z.rem_mod_nonneg by lia.
  pose proof (cdiv_spec hib vs ltac:(lia)) as [L U]. set (t := cdiv hib vs) in *.
  pose proof (Z.div_mod hib vs ltac:(lia)) as D. pose proof (Z.mod_pos_bound hib vs ltac:(lia)) as M.
  destruct (k <? t - 1) eqn:E.
  - rewrite Z.min_l; [reflexivity|]. nia.
  - assert (k = t - 1) as -> by lia.
    destruct (hib mod vs =? 0) eqn:E0.
    + assert (hib = vs * t) by (assert (hib / vs = t) by nia; nia). rewrite Z.min_l; nia.
    + assert (hib / vs = t - 1) by nia. rewrite Z.min_r; nia.
Qed.

Lemma imcu_rows_tie i h s : valid_samp s -> 0 <= i < 3 -> 1 <= h -> ljg_imcu_rows h s = cdiv (ljg_hib i h s) (lj_vs i s).
Proof.
  intros Hs Hi Hh. destruct (vsf_cases s Hs) as (Ev & _ & Hv).
  unfold ljg_imcu_rows, ljg_hib, ljd_imcu_rows, ljd_hib, lj_vs, DCTSIZE. rewrite Ev.
  rewrite !jdiv_round_up_cdiv by (destruct (i =? 0); nia).
  destruct (i =? 0).
  - (* ceil(ceil(h*v/(v*8)) / v) = ceil(h/(v*8)) *)
    replace (h * vsf s + vsf s * 8 - 1) with (h * vsf s + vsf s * 8 - 1) by lia.
    assert (E : cdiv (h * vsf s) (vsf s * 8) = cdiv h 8).
    { unfold cdiv at 1. replace (vsf s * 8) with (vsf s * 8) by lia. rewrite (cdiv_scale h (vsf s) 8) by lia. reflexivity. }
    rewrite E. symmetry. apply cdiv_unique; [lia|].
    pose proof (cdiv_spec h (vsf s * 8) ltac:(lia)). pose proof (cdiv_spec h 8 ltac:(lia)). nia.
  - rewrite Z.mul_1_r. rewrite cdiv_1. reflexivity.
Qed.

(* ------------------------------------------------------------------ B. calling protocol *)
Lemma raw_protocol_ok fuel : forall row height l calls, 0 < l -> 0 <= row -> height - row <= Z.of_nat fuel * l ->
  raw_protocol fuel row row height l l l calls = RawOk (calls + cdiv (Z.max 0 (height - row)) l).
Proof.
  induction fuel as [|fuel IH]; intros row height l calls Hl Hr Hf; cbn [raw_protocol].
  - assert (X : row <? height = false) by lia. rewrite X. rewrite Z.max_l by lia.
    unfold cdiv. rewrite Z.div_small by lia. f_equal. lia.
  - destruct (row <? height) eqn:E.
    + assert (X : row >=? height = false) by lia. rewrite X. rewrite Z.ltb_irrefl.
      rewrite IH by lia. f_equal.
      rewrite (Z.max_r 0 (height - row)) by lia.
      destruct (Z_le_gt_dec (height - (row + l)) 0).
      * rewrite Z.max_l by lia. unfold cdiv at 1. rewrite Z.div_small by lia.
        assert (cdiv (height - row) l = 1) by (apply cdiv_unique; lia). lia.
      * rewrite Z.max_r by lia.
        assert (cdiv (height - row) l = cdiv (height - (row + l)) l + 1); [|lia].
        apply cdiv_unique; [lia|]. pose proof (cdiv_spec (height - (row + l)) l Hl). nia.
    + rewrite Z.max_l by lia. unfold cdiv. rewrite Z.div_small by lia. f_equal. lia.
Qed.

(* TurboJPEG requests exactly one iMCU row per call, its loop variable equals the library's scanline counter, so neither
   JERR_BUFFER_SIZE nor JWRN_TOO_MUCH_DATA can occur and the number of calls is ceil(height / lines_per_iMCU_row) *)
Theorem raw_protocols_ok maxv d height : 1 <= maxv -> 1 <= d -> 0 <= height ->
  dtp_protocol height maxv d = RawOk (cdiv height (maxv * d)) /\
  cfp_protocol height maxv = RawOk (cdiv height (maxv * DCTSIZE)).
Proof.
  intros Hm Hd Hh. unfold dtp_protocol, cfp_protocol, dtp_loopstep, dtp_rawlines, rr_lines, cfp_loopstep, cfp_rawlines, wr_lines.
  assert (P1 : 1 <= maxv * d) by nia. assert (P2 : 1 <= maxv * DCTSIZE) by (unfold DCTSIZE; lia).
  assert (Q1 : height - 0 <= Z.of_nat (Z.to_nat height) * (maxv * d)) by (rewrite Z2Nat.id by lia; nia).
  assert (Q2 : height - 0 <= Z.of_nat (Z.to_nat height) * (maxv * DCTSIZE)) by (rewrite Z2Nat.id by lia; nia).
  split.
  - rewrite raw_protocol_ok by lia. rewrite Z.sub_0_r, Z.max_r by lia. reflexivity.
  - rewrite raw_protocol_ok by lia. rewrite Z.sub_0_r, Z.max_r by lia. reflexivity.
Qed.

(* ------------------------------------------------------------------ C. edge replication of tj3CompressFromYUVPlanes8 *)
Lemma zseq_in n : forall lo x, In x (zseq lo n) <-> lo <= x < lo + Z.of_nat n.
Proof.
  induction n as [|n IH]; intros lo x; cbn [zseq In]; [lia|]. rewrite IH. lia.
Qed.

Lemma cfp_ph_le_ih i h s : valid_samp s -> valid_dim h -> 0 <= i < 3 -> spec_ph i h s <= cfp_ih (lj_hib i h s).
Proof.
  intros Hs Hh Hi. destruct (vsf_cases s Hs) as (Ev & _ & Hv).
  unfold cfp_ih, lj_hib, lj_vs, DCTSIZE. rewrite Ev. unfold spec_ph. unfold valid_dim in Hh.
  destruct (i =? 0).
  - rewrite (cdiv_scale h (vsf s) 8) by lia.
    apply pad_up_least; [lia| |].
    + pose proof (cdiv_spec h 8 ltac:(lia)). lia.
    + destruct Hv as [->|[->| ->]].
      * apply Z.mod_1_r.
      * replace (cdiv h 8 * 8) with (cdiv h 8 * 4 * 2) by lia. apply Z.mod_mul. lia.
      * replace (cdiv h 8 * 8) with (cdiv h 8 * 2 * 4) by lia. apply Z.mod_mul. lia.
  - rewrite Z.mul_1_r. fold (cdiv h (vsf s * 8)).
    pose proof (cdiv_spec h (vsf s * 8) ltac:(lia)) as [_ U].
    pose proof (cdiv_spec h (vsf s) ltac:(lia)) as [L _]. nia.
Qed.

(* In every iteration (row a multiple of the iMCU height, row < image height) and for every component:
   the plane rows copied exist, the copy fits the intermediate row, column replication reads a copied column and fills
   [pw, iw), row replication (when it runs) starts right after the copied rows, reads a copied row and fills up to th;
   hence every cell (j < th, k < iw) that jpeg_write_raw_data may read was written in this iteration. *)
Definition cfp_edge_statement : Prop :=
  forall i w h s row, valid_samp s -> 0 <= i < ncomp s -> valid_dim w -> valid_dim h ->
  0 <= row < h -> row mod (cfp_loopstep (comp_vsamp0 s)) = 0 ->
  let pw := spec_pw i w s in let ph := spec_ph i h s in
  let iw := cfp_iw (lj_wib i w s) in let ih := cfp_ih (lj_hib i h s) in let th := cfp_th (lj_vs i s) in
  let crow := cfp_crow row (lj_vs i s) (comp_vsamp0 s) in
  let n1 := cfp_copy_n th ph crow in
  1 <= pw <= iw /\ ph <= ih /\ 0 <= crow < ph /\ 1 <= n1 <= th /\
  (forall j, 0 <= j < n1 -> 0 <= cfp_copy_src crow j < ph /\ cfp_copy_len pw = pw) /\
  (cfp_pad_from pw = pw /\ cfp_pad_to iw = iw /\ 0 <= cfp_pad_src pw < pw) /\
  (cfp_dup_to th = th /\ cfp_dup_len iw = iw /\
   (cfp_dup_from ph crow < th -> cfp_dup_from ph crow = n1 /\ 0 <= cfp_dup_src ph crow < n1)) /\
  (forall j, 0 <= j < th -> j < n1 \/ (cfp_dup_from ph crow <= j < cfp_dup_to th)) /\
  Z.min th (ih - crow) <= th.

Lemma cfp_edge_proof : cfp_edge_statement.
Proof.
  intros i w h s row Hs Hi Hw Hh Hrow Hmod pw ph iw ih th crow n1.
  assert (Hi3 : 0 <= i < 3) by (unfold ncomp in Hi; destruct (s =? TJSAMP_GRAY); lia).
  pose proof (cfp_tmpbuf_row_fits i w s Hs Hw Hi3) as Hfit. pose proof (cfp_ph_le_ih i h s Hs Hh Hi3) as Hih.
  pose proof (spec_pw_bounds i w s Hs Hw) as [Bw _]. pose proof (spec_ph_bounds i h s Hs Hh) as [Bh _].
  destruct (vsf_cases s Hs) as (Ev & _ & Hv).
  unfold cfp_loopstep in Hmod. rewrite Ev in Hmod. unfold DCTSIZE in Hmod.
  assert (Hcrow : 0 <= crow < ph).
  { subst crow ph. unfold cfp_crow, lj_vs, spec_ph. rewrite Ev. unfold valid_dim in Hh.
    pose proof (Z.div_mod row (vsf s * 8) ltac:(lia)) as D. rewrite Hmod in D.
    destruct (i =? 0).
    - rewrite Z.quot_div_nonneg by nia. rewrite Z.div_mul by lia.
      pose proof (pad_up_bounds h (vsf s) ltac:(lia)). lia.
    - rewrite Z.mul_1_r. rewrite Z.quot_div_nonneg by lia.
      pose proof (cdiv_spec h (vsf s) ltac:(lia)) as [_ U].
      assert (row / vsf s * vsf s <= row) by (pose proof (Z.div_mod row (vsf s) ltac:(lia)); pose proof (Z.mod_pos_bound row (vsf s) ltac:(lia)); nia).
      split; [apply Z.div_pos; lia|]. nia. }
  assert (Hth : 1 <= th) by (subst th; unfold cfp_th, lj_vs, DCTSIZE; rewrite Ev; destruct (i =? 0); lia).
  assert (Hn1 : n1 = Z.min th (ph - crow)) by (subst n1; unfold cfp_copy_n; destruct (th <? ph - crow) eqn:E; lia).
  subst pw ph iw ih. cbv zeta in *.
  unfold cfp_copy_src, cfp_copy_len, cfp_pad_from, cfp_pad_to, cfp_pad_src, cfp_dup_from, cfp_dup_to, cfp_dup_src, cfp_dup_len.
  repeat split; try lia.
Qed.

(* ------------------------------------------------------------------ D. scratch buffers of encode / decode *)
Lemma u32_small x : 0 <= x < 4294967296 -> u32 x = x.
Proof. intros. unfold u32. apply Z.mod_small. assumption. Qed.

Lemma pad32_shape x : 0 <= x < 2147483648 ->
  Z.land (u32 (u32 (x + 32) - 1)) (u32 (Z.lnot (u32 (32 - 1)))) = pad_up x 32.
Proof.
  intros Hx. rewrite (u32_small (x + 32)) by lia. rewrite (u32_small (x + 32 - 1)) by lia. rewrite (u32_small (32 - 1)) by lia.
  unfold u32. change 4294967296 with (2 ^ 32). rewrite land_mod_r by (change (2 ^ 32) with 4294967296; lia).
  change 32 with (2 ^ 5) at 1 2 3. change (2 ^ 5 - 1) with (2 ^ 5 - 1). 
  replace (x + 2 ^ 5 - 1) with ((x + 2 ^ 5) - 1) by lia. rewrite pad_trick by lia. reflexivity.
Qed.

Lemma scratch_rows_ok size rows width slack rowoff W :
  0 <= slack <= 32 -> 0 <= W -> width <= W -> size = W * rows + 32 -> (forall r, 0 <= r < rows -> rowoff r = W * r) ->
  scratch_ok size rows width slack rowoff = true.
Proof.
  intros Hs HW Hw -> Hr. unfold scratch_ok. apply forallb_forall. intros r Hin. apply zseq_in in Hin.
  assert (Hrr : 0 <= r < rows) by lia. rewrite Hr by lia. nia.
Qed.

(* every row of the three scratch buffers, at any alignment slack of the malloc'ed block, lies inside the block, is wide
   enough for what the codec puts there, and no unsigned-int product wraps (widths up to JPEG's 65535) *)
Definition scratch_statement : Prop :=
  forall i w s slack, valid_samp s -> 0 <= i < 3 -> jpeg_dim w -> 0 <= slack <= 31 ->
  let wib := lj_wib i w s in let maxh := comp_hsamp0 s in let maxv := comp_vsamp0 s in
  let hs := lj_hs i s in let vs := lj_vs i s in
  let W1 := pad_up (wib * maxh * DCTSIZE / hs) 32 in let W2 := pad_up (wib * DCTSIZE) 32 in
  (* encode: colour-conversion rows (image width, then expanded to wib*8*maxh/hs by the downsampler) *)
  scratch_ok (enc_tmp_size wib maxh hs maxv) (enc_tmp_rows maxv) W1 slack (enc_tmp_rowoff wib maxh hs) = true /\
  enc_tmp_size wib maxh hs maxv = W1 * maxv + 32 /\ w <= wib * maxh * DCTSIZE / hs <= W1 /\
  (* encode: downsampled rows (wib*8 samples, of which pw are copied to the plane) *)
  scratch_ok (enc_tmp2_size wib vs) (enc_tmp2_rows vs) W2 slack (enc_tmp2_rowoff wib) = true /\
  enc_tmp2_size wib vs = W2 * vs + 32 /\ spec_pw i w s <= wib * DCTSIZE <= W2 /\
  (* decode: rows copied from the plane (pw samples) and read by the upsampler *)
  scratch_ok (dec_tmp_size wib vs) (dec_tmp_rows vs) W2 slack (dec_tmp_rowoff wib) = true /\
  dec_tmp_size wib vs = W2 * vs + 32.

Lemma scratch_proof : scratch_statement.
Proof.
  intros i w s slack Hs Hi Hw Hsl wib maxh maxv hs vs W1 W2.
  destruct (hsf_cases s Hs) as (Eh & _ & Hh). destruct (vsf_cases s Hs) as (Ev & _ & Hv).
  assert (Vw : valid_dim w) by (unfold jpeg_dim, valid_dim, INT_MAX in *; lia).
  pose proof (cfp_tmpbuf_row_fits i w s Hs Vw Hi) as Hfit. unfold cfp_iw in Hfit. fold wib in Hfit.
  assert (Hwib : 1 <= wib <= 8192 /\ w <= wib * maxh * DCTSIZE / hs).
  { subst wib maxh hs. unfold lj_wib, lj_hs, DCTSIZE in *. rewrite Eh in *. unfold jpeg_dim in Hw.
    destruct (i =? 0).
    - rewrite (cdiv_scale w (hsf s) 8) by lia. pose proof (cdiv_spec w 8 ltac:(lia)).
      replace (cdiv w 8 * hsf s * 8 / hsf s) with (cdiv w 8 * 8) by (replace (cdiv w 8 * hsf s * 8) with (cdiv w 8 * 8 * hsf s) by ring; symmetry; apply Z.div_mul; lia).
      lia.
    - rewrite Z.mul_1_r, Z.div_1_r. fold (cdiv w (hsf s * 8)). pose proof (cdiv_spec w (hsf s * 8) ltac:(lia)). nia. }
  destruct Hwib as (Bwib & Bw).
  assert (Bmaxh : 1 <= maxh <= 4) by (subst maxh; rewrite Eh; lia). assert (Bmaxv : 1 <= maxv <= 4) by (subst maxv; rewrite Ev; lia).
  assert (Bhs : 1 <= hs <= maxh) by (subst hs maxh; unfold lj_hs; destruct (i =? 0); lia).
  assert (Bvs : 1 <= vs <= 4) by (subst vs; unfold lj_vs; rewrite Ev; destruct (i =? 0); lia).
  set (x1 := wib * maxh * DCTSIZE / hs) in *.
  assert (Bx1 : 0 <= x1 <= 262144).
  { subst x1. unfold DCTSIZE. split; [apply Z.div_pos; nia|]. apply Z.div_le_upper_bound; nia. }
  pose proof (pad_up_bounds x1 32 ltac:(lia)) as P1. pose proof (pad_up_bounds (wib * DCTSIZE) 32 ltac:(lia)) as P2. unfold DCTSIZE in P2.
  assert (E1 : forall r, 0 <= r <= 4 -> enc_tmp_rowoff wib maxh hs r = W1 * r).
  { intros r Hr. unfold enc_tmp_rowoff. rewrite (u32_small (wib * maxh)) by nia. rewrite (u32_small (wib * maxh * DCTSIZE)) by (unfold DCTSIZE; nia).
    rewrite Z.quot_div_nonneg by (unfold DCTSIZE; nia). fold x1. rewrite pad32_shape by lia. fold W1. apply u32_small. subst W1. nia. }
  assert (S1 : enc_tmp_size wib maxh hs maxv = W1 * maxv + 32).
  { unfold enc_tmp_size. rewrite (u32_small (wib * maxh)) by nia. rewrite (u32_small (wib * maxh * DCTSIZE)) by (unfold DCTSIZE; nia).
    rewrite Z.quot_div_nonneg by (unfold DCTSIZE; nia). fold x1. rewrite pad32_shape by lia. fold W1.
    rewrite (u32_small (W1 * maxv)) by (subst W1; nia). apply u32_small. subst W1. nia. }
  assert (E2 : forall r, 0 <= r <= 4 -> enc_tmp2_rowoff wib r = W2 * r /\ dec_tmp_rowoff wib r = W2 * r).
  { intros r Hr. unfold enc_tmp2_rowoff, dec_tmp_rowoff. rewrite (u32_small (wib * DCTSIZE)) by (unfold DCTSIZE; lia).
    rewrite pad32_shape by (unfold DCTSIZE; lia). fold W2. rewrite u32_small by (subst W2; unfold DCTSIZE; nia). split; reflexivity. }
  assert (S2 : enc_tmp2_size wib vs = W2 * vs + 32 /\ dec_tmp_size wib vs = W2 * vs + 32).
  { unfold enc_tmp2_size, dec_tmp_size. rewrite (u32_small (wib * DCTSIZE)) by (unfold DCTSIZE; lia).
    rewrite pad32_shape by (unfold DCTSIZE; lia). fold W2. rewrite (u32_small (W2 * vs)) by (subst W2; unfold DCTSIZE; nia).
    rewrite u32_small by (subst W2; unfold DCTSIZE; nia). split; reflexivity. }
  destruct S2 as [S2 S3].
  assert (HW1 : x1 <= W1 /\ 0 <= W1) by (subst W1; fold x1; lia).
  assert (HW2 : wib * DCTSIZE <= W2 /\ 0 <= W2) by (subst W2; unfold DCTSIZE; lia).
  clearbody W1 W2.
  split. { apply (scratch_rows_ok _ _ _ _ _ W1); [lia|lia|lia|exact S1|]. intros r Hr. apply E1. unfold enc_tmp_rows in Hr. lia. }
  split; [exact S1|]. split; [lia|].
  split. { apply (scratch_rows_ok _ _ _ _ _ W2); [lia|lia|lia|exact S2|]. intros r Hr. apply E2. unfold enc_tmp2_rows in Hr. lia. }
  split; [exact S2|]. split; [unfold DCTSIZE in *; lia|].
  split. { apply (scratch_rows_ok _ _ _ _ _ W2); [lia|lia|lia|exact S3|]. intros r Hr. apply E2. unfold dec_tmp_rows in Hr. lia. }
  exact S3.
Qed.

(* ------------------------------------------------------------------ statements for props/C20.v *)
Definition library_tie_statement : Prop :=
  forall i w h s num denom, valid_samp s -> 0 <= i < 3 -> 1 <= w -> 1 <= h -> In (num, denom) sf_tbl ->
  (* blocks per component: model/YuvCopy.v's lj_wib/lj_hib = the statements of jdinput.c and jcmaster.c *)
  lj_wib i w s = ljg_wib i w s /\ lj_hib i h s = ljg_hib i h s /\
  ljc_wib w (lj_hs i s) (comp_hsamp0 s) DCTSIZE = ljg_wib i w s /\ ljc_hib h (lj_vs i s) (comp_vsamp0 s) DCTSIZE = ljg_hib i h s /\
  (* output size and scaled block size: the ladder of jdmaster.c *)
  ljg_min_dct num denom = dtp_dctsize num denom /\ ljg_min_dct_v num denom = dtp_dctsize num denom /\
  ljg_out_w w num denom = lj_out w num denom /\ ljg_out_h h num denom = lj_out h num denom /\
  (* rows per raw-data call: jdcoefct.c / jdinput.c / jcmaster.c block-row rule = min(th, ih - crow) of the model *)
  ljg_imcu_rows h s = cdiv (ljg_hib i h s) (lj_vs i s) /\
  (forall k dss, 1 <= dss -> 0 <= k < ljg_imcu_rows h s ->
     ljg_rows_in_call k (ljg_imcu_rows h s) (ljg_hib i h s) (lj_vs i s) dss =
       Z.min (lj_vs i s * dss) (ljg_hib i h s * dss - k * (lj_vs i s * dss))) /\
  ljd_last_row_height (ljg_hib i h s) (lj_vs i s) = ljd_block_rows_last (ljg_hib i h s) (lj_vs i s) /\
  ljc_last_row_height (ljg_hib i h s) (lj_vs i s) = ljd_block_rows_last (ljg_hib i h s) (lj_vs i s).

Lemma library_tie_proof : library_tie_statement.
Proof.
  intros i w h s num denom Hs Hi Hw Hh Hin.
  destruct (lj_blocks_tie i w h s Hs Hi ltac:(lia) ltac:(lia)) as (A1 & A2 & A3 & A4).
  destruct (lj_output_tie num denom w Hin ltac:(lia)) as (B1 & B2 & B3 & _).
  destruct (lj_output_tie num denom h Hin ltac:(lia)) as (_ & _ & _ & B4).
  pose proof (imcu_rows_tie i h s Hs Hi Hh) as C1.
  destruct (vsf_cases s Hs) as (Ev & _ & Hv).
  assert (Hvs : 1 <= lj_vs i s) by (unfold lj_vs; rewrite Ev; destruct (i =? 0); lia).
  assert (Hhib : 1 <= ljg_hib i h s).
  { unfold ljg_hib, ljd_hib, lj_vs, DCTSIZE. rewrite Ev. rewrite jdiv_round_up_cdiv by (destruct (i =? 0); nia).
    apply cdiv_pos; destruct (i =? 0); nia. }
  repeat split; try assumption.
  intros k dss Hd Hk. rewrite C1 in *. apply rows_in_call_tie; assumption.
Qed.

Lemma ex_rawdata :
  dtp_protocol 39 2 8 = RawOk 3 /\ cfp_protocol 35 4 = RawOk 2 /\
  ljg_min_dct 3 8 = 3 /\ ljg_out_w 227 3 8 = 86 /\ ljg_wib 1 35 TJSAMP_420 = 3 /\ ljg_hib 0 39 TJSAMP_420 = 5 /\
  ljg_rows_in_call 2 3 5 2 8 = 8 /\ ljg_rows_in_call 1 3 5 2 8 = 16 /\
  cfp_iteration_ok 36 40 40 40 16 32 = true /\ cfp_iteration_ok 18 20 24 24 8 16 = true /\ cfp_iteration_ok 3 3 8 8 8 0 = true /\
  cfp_iteration_ok 9 3 8 8 8 0 = false /\
  scratch_ok (enc_tmp_size 3 2 1 2) (enc_tmp_rows 2) 64 31 (enc_tmp_rowoff 3 2 1) = true /\
  scratch_ok (enc_tmp_size 3 2 1 2) (enc_tmp_rows 2) 64 33 (enc_tmp_rowoff 3 2 1) = false.
Proof. vm_compute. repeat split; reflexivity. Qed.
