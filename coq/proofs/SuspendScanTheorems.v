(* C09 -- corollaries for the Huffman scan unit and a concrete non-vacuity example. *)
From Coq Require Import List ZArith Lia Arith Bool.
From LJT Require Import model.SuspendCore model.SuspendMarker model.SuspendHuff proofs.SuspendProofs
  proofs.SuspendHuffProofs proofs.SuspendTheorems.
Import ListNotations.

Theorem scan_chunking_irrelevant : forall bls cs s, run_scan bls cs s = run_scan bls [concat cs] s.
Proof. intros. apply chunking_irrelevant_generic. apply mcu_unit_resumable. Qed.

(* DC table: symbol 0 = code 0, symbol 2 = code 10; AC table: EOB = 0, (run 0, size 1) = 10 *)
Definition ex_dc := derive_dtbl [0; 1; 1; 0; 0; 0; 0; 0; 0; 0; 0; 0; 0; 0; 0; 0; 0]%Z [0; 2]%Z.
Definition ex_ac := derive_dtbl [0; 1; 1; 0; 0; 0; 0; 0; 0; 0; 0; 0; 0; 0; 0; 0; 0]%Z [0; 1]%Z.
(* MCU 1: DC 10 11 (diff 3), AC 10 1 (+1 at k = 1), EOB 0 -> 0xBA; MCU 2: DC 0, EOB 0, padding -> 0x3F; EOI *)
Definition ex_scan : list byte := [186; 63; 255; 217]%Z.
(* the same two MCUs separated by RST0 (restart interval 1): 0xBA FF D0 0x3F FF D9 *)
Definition ex_scan_rst : list byte := [186; 255; 208; 63; 255; 217]%Z.

Definition scan_summary (o : outcome hstate herr) : list (list Z) :=
  match o with
  | Halted s _ => map (fun mcu => firstn 3 (hd [] mcu)) (h_out s)
  | _ => []
  end.

Example ex_scan_every_split :
  forallb (fun cs => if list_eq_dec (list_eq_dec Z.eq_dec)
                          (scan_summary (run_scan [(0%nat, ex_dc, ex_ac)] cs (hinit 1 0 2))) [[3; 1; 0]; [3; 0; 0]]%Z
                     then true else false)
          (all_splits ex_scan ++ [singletons ex_scan; [[]; ex_scan]]) = true.
Proof. vm_compute. reflexivity. Qed.

Example ex_scan_rst_every_split :
  forallb (fun cs => if list_eq_dec (list_eq_dec Z.eq_dec)
                          (scan_summary (run_scan [(0%nat, ex_dc, ex_ac)] cs (hinit 1 1 2))) [[3; 1; 0]; [0; 0; 0]]%Z
                     then true else false)
          (all_splits ex_scan_rst ++ [singletons ex_scan_rst]) = true.
Proof. vm_compute. reflexivity. Qed.
