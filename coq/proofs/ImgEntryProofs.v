(* C18 -- every (entry point, format, precision) combination that reaches a row reader reads
   rows from the sample buffer that reader filled, and the samples fit the sample type. *)
From Coq Require Import ZArith Lia Bool ZifyBool.
From LJT Require Import gen.GenImgPrec model.ImgEntry.
Local Open Scope Z_scope.

Lemma tj_buffer_type W req f dp : W = 8 \/ W = 12 \/ W = 16 ->
  tj_load_dp W req f = Some dp ->
  reader_fills f W = tj_reads W /\ 2 <= dp <= W /\ (f = FPnm \/ (f <> FPnm /\ dp = 8 /\ W = 8)).
Proof.
  intros HW H. unfold tj_load_dp in H.
  destruct (reader_accepts f W (tj_dp W req f)) eqn:A; [|discriminate]. inversion H; subst dp. clear H.
  unfold tj_reads, reader_fills. destruct f; cbn in A |- *; try discriminate.
  - (* PNM *) unfold tj_dp in *. cbv [ppm_low8 tj_ppm_override_low8 ppm_low_off tj_ppm_override_low_off] in *.
    destruct HW as [-> | [-> | ->]]; cbn in *;
      match goal with |- context [if ?c then req else _] => destruct c eqn:E end;
      (split; [reflexivity|split; [lia|left; reflexivity]]).
  - (* BMP *) assert (W = 8) by lia. subst W. split; [reflexivity|]. split; [cbn; lia|]. right. split; [discriminate|]. split; reflexivity.
  - assert (W = 8) by lia. subst W. split; [reflexivity|]. split; [cbn; lia|]. right. split; [discriminate|]. split; reflexivity.
  - assert (W = 8) by lia. subst W. split; [reflexivity|]. split; [cbn; lia|]. right. split; [discriminate|]. split; reflexivity.
Qed.

(* tj3LoadImage12/16 never get as far as the row loop with a BMP (or any 8-bit-only) file *)
Lemma tj_wide_rejects_8bit_formats W req f : W = 12 \/ W = 16 -> f <> FPnm -> tj_load_dp W req f = None.
Proof.
  intros HW Hf. unfold tj_load_dp. destruct f; try congruence; cbn; destruct HW as [-> | ->]; reflexivity.
Qed.

Lemma cj_buffer_type f n : 2 <= n <= 16 -> cj_accepts f n = true ->
  reader_fills f (cj_reader_width f n) = cj_reads n /\ n <= cj_reads n.
Proof.
  intros Hn A. unfold cj_accepts, cj_reads, cj_reader_width, reader_fills, reader_accepts in *.
  destruct f; try discriminate; unfold cj_variant in *;
    cbv [ppm_low8 ppm_low_off cj_thresholds fst snd bmp_fills gif_fills tga_fills
         bmp_requires_8 gif_requires_8 tga_requires_8 ppm_fills_variant] in *;
    destruct (n <=? 8) eqn:E8; destruct (n <=? 12) eqn:E12; cbn in A |- *; lia.
Qed.

(* non-vacuity *)
Lemma ex_entry :
  tj_load_dp 8 5 FPnm = Some 5 /\ tj_load_dp 8 12 FPnm = Some 8 /\ tj_load_dp 12 10 FPnm = Some 10 /\
  tj_load_dp 16 2 FPnm = Some 16 /\ tj_load_dp 8 3 FBmp = Some 8 /\ tj_load_dp 12 12 FBmp = None /\
  tj_load_dp 8 8 (tj_fmt 71) = None /\
  cj_accepts FPnm 13 = true /\ cj_accepts FBmp 12 = false /\ cj_accepts FGif 8 = true /\ cj_accepts (cj_fmt true 1) 9 = false.
Proof. vm_compute. repeat split; reflexivity. Qed.
