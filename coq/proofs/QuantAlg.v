(* C07 -- the inequalities recip_facts (proofs/QuantCert.v) hold for EVERY divisor 1..65535 and both
   DCTELEM widths: an algebraic proof over the quantities compute_reciprocal computes
   (b = position of the highest bit, 2^(W+b) = fq*d + fr, the three-way split on fr), not an
   enumeration of divisors.  The only enumeration is the 16-bit binary search flss, checked
   against 2^(k-1) <= d < 2^k for the 65535 arguments. *)
From Coq Require Import List ZArith Lia Bool ZifyBool.
From LJT Require Import lib.Sweep gen.GenDctConst model.Quant proofs.QuantCert.
Import ListNotations.
Local Open Scope Z_scope.

(* ---------- flss = number of significant bits ---------- *)
Definition flss_ok (d : Z) : bool :=
  let k := flss d in (1 <=? k) && (k <=? 16) && (2 ^ (k - 1) <=? d) && (d <? 2 ^ k).
Lemma flss_sweep : sweep flss_ok 1 65536 = true.
Proof. vm_compute. reflexivity. Qed.
Lemma flss_spec d : 1 <= d <= 65535 -> 1 <= flss d <= 16 /\ 2 ^ (flss d - 1) <= d < 2 ^ (flss d).
Proof.
  intros Hd. pose proof (sweep_sound _ _ _ flss_sweep d ltac:(lia)) as H. unfold flss_ok in H. cbv zeta in H.
  repeat rewrite andb_true_iff in H. lia.
Qed.

(* ---------- an odd divisor of a power of two is 1 ---------- *)
Lemma odd_divisor_pow2 : forall r, 0 <= r -> forall a k, 0 < a -> a mod 2 = 1 -> a * k = 2 ^ r -> a = 1.
Proof.
  apply (natlike_ind (fun r => forall a k, 0 < a -> a mod 2 = 1 -> a * k = 2 ^ r -> a = 1)).
  - intros a k Ha Hodd H. change (2 ^ 0) with 1 in H.
    assert (0 < k) by nia. nia.
  - intros x Hx IH a k Ha Hodd H. rewrite Z.pow_succ_r in H by lia.
    assert (Hk : k mod 2 = 0).
    { assert (E : (a * k) mod 2 = 0) by (rewrite H; rewrite Z.mul_comm; apply Z.mod_mul; lia).
      rewrite Z.mul_mod in E by lia. rewrite Hodd in E. rewrite Z.mul_1_l in E. rewrite Z.mod_mod in E by lia. exact E. }
    apply (IH a (k / 2) Ha Hodd).
    assert (k = 2 * (k / 2)) by (pose proof (Z.div_mod k 2 ltac:(lia)); lia). nia.
Qed.

(* ---------- the arithmetic of compute_reciprocal, for every divisor ----------
   H = 2^(W-1), B = 2^b with B <= d < 2B; P = 2^(W+b) = 2*H*B *)
Definition alg_hyps (H B d : Z) : Prop := 32768 <= H /\ 1 <= B /\ B <= d < 2 * B /\ 2 <= d <= 65535.

Lemma alg_div H B d : alg_hyps H B d ->
  2 * H * B = (2 * H * B / d) * d + (2 * H * B) mod d /\ 0 <= (2 * H * B) mod d < d.
Proof.
  intros (HH & HB & Hd & Hd2). set (P := 2 * H * B).
  pose proof (Z.div_mod P d ltac:(lia)). pose proof (Z.mod_pos_bound P d ltac:(lia)). lia.
Qed.

Lemma alg_h H B d : alg_hyps H B d -> 2 * (d / 2) <= d <= 2 * (d / 2) + 1 /\ 1 <= d / 2 <= 32767.
Proof.
  intros (HH & HB & Hd & Hd2).
  pose proof (Z.div_mod d 2 ltac:(lia)). pose proof (Z.mod_pos_bound d 2 ltac:(lia)). lia.
Qed.

Lemma alg_K H B d : alg_hyps H B d ->
  let h := d / 2 in let K := (32767 + h) / d in let M := 32767 + h - K * d in
  0 <= K /\ K * d <= 32767 + h /\ 0 <= M < d /\ K < 32768.
Proof.
  intros Hy h K M. pose proof (alg_h H B d Hy) as Hh. destruct Hy as (HH & HB & Hd & Hd2). fold h in Hh.
  unfold M, K.
  pose proof (Z.div_mod (32767 + h) d ltac:(lia)). pose proof (Z.mod_pos_bound (32767 + h) d ltac:(lia)).
  assert (0 <= (32767 + h) / d) by (apply Z.div_pos; lia).
  assert ((32767 + h) / d < 32768) by (apply Z.div_lt_upper_bound; lia).
  nia.
Qed.

Lemma alg_fq H B d : alg_hyps H B d ->
  let fq := 2 * H * B / d in let fr := (2 * H * B) mod d in
  H <= fq <= 2 * H /\ (0 < fr -> fq < 2 * H).
Proof.
  intros Hy fq fr. destruct (alg_div H B d Hy) as [E Hr]. destruct Hy as (HH & HB & Hd & Hd2).
  fold fq in E. fold fr in E, Hr. clearbody fq fr.
  assert (H <= fq) by nia.
  assert (fq <= 2 * H) by nia.
  split; [lia|]. intros Hp. nia.
Qed.

(* case "fractional part < 0.5" *)
Lemma alg_case2 H B d : alg_hyps H B d ->
  let fq := 2 * H * B / d in let fr := (2 * H * B) mod d in
  let h := d / 2 in let K := (32767 + h) / d in
  0 < fr <= h -> K * fr <= fq /\ fq < 2 * H.
Proof.
  intros Hy fq fr h K Hf.
  destruct (alg_fq H B d Hy) as [Hq Hq2]. destruct (alg_K H B d Hy) as [HK0 [HKd _]]. pose proof (alg_h H B d Hy) as Hh.
  fold fq in Hq, Hq2. fold fr in Hq2. fold h in HK0, HKd, Hh. fold K in HK0, HKd.
  destruct Hy as (HH & HB & Hd & Hd2). clearbody fq fr h K.
  split; [|apply Hq2; lia].
  assert (K * fr <= K * h) by (apply Z.mul_le_mono_nonneg_l; lia).
  assert (2 * (K * h) <= K * d) by nia. lia.
Qed.

(* case "fractional part > 0.5" *)
Lemma alg_case3 H B d : alg_hyps H B d ->
  let P := 2 * H * B in let fq := P / d in let fr := P mod d in
  let h := d / 2 in let K := (32767 + h) / d in let M := 32767 + h - K * d in
  h < fr ->
  let f := fq + 1 in let e := f * d - P in
  0 < e /\ 2 * e <= d - 1 /\ f < 2 * H /\ K * e < f /\ (K + 1) * e < f * (d - M).
Proof.
  intros Hy P fq fr h K M Hf f e.
  destruct (alg_div H B d Hy) as [E Hr]. destruct (alg_fq H B d Hy) as [Hq Hq2].
  destruct (alg_K H B d Hy) as [HK0 [HKd [HM _]]]. pose proof (alg_h H B d Hy) as Hh.
  destruct Hy as (HH & HB & Hd & Hd2).
  fold P in E, Hr, Hq, Hq2. fold fq in E, Hq, Hq2. fold fr in E, Hr, Hq2. fold h in HK0, HKd, HM, Hh.
  fold K in HK0, HKd, HM. fold M in HM.
  assert (HMd : M = 32767 + h - K * d) by reflexivity.
  assert (HPd : P = 2 * H * B) by reflexivity.
  clearbody M K h fr fq P.
  assert (He : e = d - fr) by (unfold e, f; lia).
  assert (He0 : 0 < e) by lia.
  assert (He2 : 2 * e <= d - 1) by lia.
  assert (Hf2 : f < 2 * H).
  { unfold f. specialize (Hq2 ltac:(lia)).
    destruct (Z.eq_dec fq (2 * H - 1)) as [Eq|]; [|lia]. exfalso.
    rewrite HPd in E. rewrite Eq in E. assert (e = 2 * H * (d - B)) by lia.
    assert (1 <= d - B) by nia. nia. }
  assert (HKe : K * e <= 32767).
  { assert (2 * (K * e) <= K * (d - 1)) by nia. nia. }
  split; [exact He0|]. split; [exact He2|]. split; [exact Hf2|]. split; [unfold f; lia|].
  set (T := d - M). assert (HT : 1 <= T) by (unfold T; lia).
  destruct (Z.eq_dec T 1) as [T1|Tn].
  - rewrite T1, Z.mul_1_r.
    assert ((K + 1) * d = 32768 + h) by (unfold T in T1; lia).
    assert (2 * ((K + 1) * e) <= (K + 1) * (d - 1)) by nia.
    unfold f. nia.
  - assert (2 <= T) by lia.
    assert ((K + 1) * e <= 65534) by nia.
    assert (2 * f <= f * T) by nia. unfold f in *. lia.
Qed.

Lemma wrapU_wrapS w x : 1 <= w -> 0 <= x < 2 ^ w -> wrapU w (wrapS w x) = x.
Proof.
  intros Hw Hx. unfold wrapU, wrapS.
  assert (E : 2 ^ w = 2 * 2 ^ (w - 1)).
  { replace w with (Z.succ (w - 1)) at 1 by lia. rewrite Z.pow_succ_r by lia. reflexivity. }
  assert (0 < 2 ^ (w - 1)) by (apply Z.pow_pos_nonneg; lia).
  set (h := 2 ^ (w - 1)) in *. rewrite E.
  destruct (Z_lt_ge_dec x h).
  - rewrite (Z.mod_small (x + h)) by lia. replace (x + h - h) with x by lia. apply Z.mod_small; lia.
  - replace (x + h) with ((x - h) + 1 * (2 * h)) by lia. rewrite Z.mod_add by lia.
    rewrite (Z.mod_small (x - h)) by lia.
    replace (x - h - h) with (x + (-1) * (2 * h)) by lia. rewrite Z.mod_add by lia. apply Z.mod_small; lia.
Qed.

Lemma alg_case1 W b d : 16 <= W -> 0 <= b -> 2 ^ b <= d < 2 * 2 ^ b -> 2 <= d <= 65535 ->
  2 ^ (W + b) mod d = 0 ->
  let f := (2 ^ (W + b) / d) / 2 in
  f * d = 2 ^ (W + b - 1) /\ 0 < f <= 2 ^ (W - 1).
Proof.
  intros HW Hb Hd Hd2 Hfr f.
  set (H := 2 ^ (W - 1)). set (B := 2 ^ b).
  assert (HH : 32768 <= H).
  { unfold H. change 32768 with (2 ^ 15). apply Z.pow_le_mono_r; lia. }
  assert (HB : 1 <= B) by (unfold B; pose proof (Z.pow_pos_nonneg 2 b); lia).
  assert (EP : 2 ^ (W + b) = 2 * H * B).
  { unfold H, B. replace (W + b) with (1 + (W - 1) + b) by lia. rewrite !Z.pow_add_r by lia. reflexivity. }
  assert (EP1 : 2 ^ (W + b - 1) = H * B).
  { unfold H, B. replace (W + b - 1) with ((W - 1) + b) by lia. rewrite Z.pow_add_r by lia. reflexivity. }
  assert (Hy : alg_hyps H B d) by (unfold alg_hyps; fold B in Hd; lia).
  pose proof (alg_div H B d Hy) as [E Hr]. pose proof (alg_fq H B d Hy) as [Hq _].
  rewrite <- EP in *. rewrite Hfr in E.
  set (fq := 2 ^ (W + b) / d) in *.
  assert (Hev : fq mod 2 = 0).
  { pose proof (Z.mod_pos_bound fq 2 ltac:(lia)).
    destruct (Z.eq_dec (fq mod 2) 0) as [?|Hn]; [assumption|exfalso].
    assert (fq = 1); [|lia].
    apply (odd_divisor_pow2 (W + b) ltac:(lia) fq d); lia. }
  assert (Hf2 : fq = 2 * f) by (unfold f; pose proof (Z.div_mod fq 2 ltac:(lia)); lia).
  rewrite EP1. split; [nia|]. fold H. lia.
Qed.

(* ---------- compute_reciprocal evaluated symbolically ---------- *)
Lemma shiftl_1 r : 0 <= r -> Z.shiftl 1 r = 2 ^ r.
Proof. intros. rewrite Z.shiftl_mul_pow2 by lia. lia. Qed.

Lemma prod_bound a f H : 0 <= a <= 65535 -> 0 <= f < 2 * H -> 32768 <= H -> a * f < 2 * H * (2 * H).
Proof.
  intros Ha Hf HH. assert (a * f <= 65535 * f) by (apply Z.mul_le_mono_nonneg_r; lia).
  assert (65535 * f < 2 * H * (2 * H)) by nia. lia.
Qed.
Lemma u2_first K e f d : K * e < f -> (K - 1) * e + (d - 1 + 0) * f < f * d - e.
Proof. intros. replace ((K - 1) * e + (d - 1 + 0) * f) with (K * e - f + (f * d - e)) by ring. lia. Qed.
Lemma u2_second K e f d M : (K + 1) * e < f * (d - M) -> K * e + (M + 0) * f < f * d - e.
Proof. intros H. replace (f * (d - M)) with (f * d - M * f) in H by ring. replace ((K + 1) * e) with (K * e + e) in H by ring.
  replace ((M + 0) * f) with (M * f) by ring. lia. Qed.

Theorem recip_facts_all cf d : (c_dw cf = 16 \/ c_dw cf = 32) -> 1 <= d <= 65535 ->
  exists rc, compute_reciprocal cf d = Some rc /\ recip_facts cf d rc.
Proof.
  intros HW Hd. unfold compute_reciprocal.
  rewrite (wrapU_small 16 d) by (change (2 ^ 16) with 65536; lia).
  destruct (d =? 1) eqn:E1.
  - (* divisor 1: identity *)
    assert (d = 1) by lia. subst d. eexists. split; [reflexivity|].
    destruct cf as [cb W cm cs]. cbn [c_dw] in HW.
    unfold recip_facts. cbn [c_dw c_simd r_recip r_corr r_scale r_shift r_ret].
    destruct HW as [-> | ->]; vm_compute; repeat split; intros; try discriminate; auto; left; discriminate.
  - destruct (d =? 0) eqn:E0; [lia|].
    set (W := c_dw cf) in *.
    destruct (flss_spec d Hd) as [Hk Hkd].
    set (b := flss d - 1) in *.
    assert (Hb : 1 <= b <= 15).
    { split; [|lia]. destruct (Z.eq_dec (flss d) 1) as [e|]; [|lia]. rewrite e in Hkd. simpl in Hkd. lia. }
    replace (flss d) with (b + 1) in Hkd by (unfold b; lia).
    replace (b + 1 - 1) with b in Hkd by lia.
    rewrite Z.pow_add_r in Hkd by lia. change (2 ^ 1) with 2 in Hkd.
    assert (HW16 : 16 <= W <= 32) by (destruct HW; lia).
    rewrite shiftl_1 by lia.
    assert (HP2 : 2 ^ (W + b) < 2 ^ (2 * W)) by (apply Z.pow_lt_mono_r; lia).
    assert (HP0 : 0 < 2 ^ (W + b)) by (apply Z.pow_pos_nonneg; lia).
    rewrite (wrapU_small (2 * W) (2 ^ (W + b))) by lia.
    set (H := 2 ^ (W - 1)). set (B := 2 ^ b) in *.
    assert (HH : 32768 <= H) by (unfold H; change 32768 with (2 ^ 15); apply Z.pow_le_mono_r; lia).
    assert (HB : 1 <= B) by (unfold B; pose proof (Z.pow_pos_nonneg 2 b); lia).
    assert (EW : 2 ^ W = 2 * H) by (unfold H; replace W with (1 + (W - 1)) at 1 by lia; rewrite Z.pow_add_r by lia; reflexivity).
    assert (E2W : 2 ^ (2 * W) = 2 ^ W * 2 ^ W) by (replace (2 * W) with (W + W) by lia; apply Z.pow_add_r; lia).
    assert (EP : 2 ^ (W + b) = 2 * H * B).
    { unfold H, B. replace (W + b) with (1 + (W - 1) + b) by lia. rewrite !Z.pow_add_r by lia. reflexivity. }
    assert (Hd' : B <= d < 2 * B) by lia.
    assert (Hd2 : 2 <= d <= 65535) by lia.
    assert (Hy : alg_hyps H B d) by (unfold alg_hyps; lia).
    pose proof (alg_div H B d Hy) as [Ediv Hfr]. pose proof (alg_h H B d Hy) as [Hh1 Hh2].
    pose proof (alg_K H B d Hy) as [HK0 [HKd [HM HK]]]. pose proof (alg_fq H B d Hy) as [Hfq Hfq2].
    rewrite <- EP in *.
    set (P := 2 ^ (W + b)) in *. set (fq := P / d) in *. set (fr := P mod d) in *. set (h := d / 2) in *.
    assert (Hsh : forall r', 0 <= r' <= W + 15 -> wrapS W (wrapS W r' - W) + W = r').
    { intros r' Hr'. assert (HWm : 2 ^ 15 <= 2 ^ (W - 1)) by (apply Z.pow_le_mono_r; lia). change (2 ^ 15) with 32768 in HWm.
      rewrite (wrapS_small W r') by lia. rewrite wrapS_small by lia. lia. }
    assert (Hwu : forall x, 0 <= x < 2 * H -> wrapU W (wrapS W x) = x) by (intros; apply wrapU_wrapS; lia).
    rewrite (wrapU_small W h) by lia.
    destruct (fr =? 0) eqn:Ef0.
    + (* divisor is a power of two *)
      assert (fr = 0) by lia. cbv beta iota zeta.
      destruct (alg_case1 W b d) as [Hfd [Hf0 Hf1]]; [lia|lia|fold B; lia|lia|change (fr = 0); lia|].
      rewrite Z.shiftr_div_pow2 by lia. change (2 ^ 1) with 2.
      fold P in Hfd, Hf0, Hf1. fold fq in Hfd, Hf0, Hf1. fold H in Hf1.
      set (f := fq / 2) in *.
      eexists. split; [reflexivity|].
      unfold recip_facts. cbn [r_recip r_corr r_scale r_shift r_ret]. fold W.
      rewrite (Hsh (W + b - 1)) by lia. rewrite (Hwu f) by lia. rewrite (Hwu h) by lia. fold h.
      replace (h - h) with 0 by lia. rewrite Hfd. replace (f * d - f * d) with 0 by lia.
      rewrite E2W, EW.
      split; [lia|]. split; [lia|]. split; [change (2 ^ 16) with 65536; lia|].
      split; [apply prod_bound; lia|]. split; [exact HK|]. split; [left; lia|].
      split; [intros _; lia|]. split; [intros; lia|].
      intros Hs Hret HWe. rewrite HWe in *.
      destruct (16 + b - 1 <=? 16) eqn:Hle; [discriminate Hret|].
      split; [lia|]. rewrite Hs. rewrite shiftl_1 by lia.
      replace (16 * 2 - (16 + b - 1)) with (32 - (16 + b - 1)) by lia.
      apply wrapU_wrapS; [lia|]. split; [apply Z.pow_nonneg; lia|apply Z.pow_lt_mono_r; lia].
    + destruct (fr <=? h) eqn:Efh.
      * (* fractional part < 0.5 *)
        cbv beta iota zeta.
        destruct (alg_case2 H B d Hy) as [HKfr Hfq3]; [rewrite <- EP; fold P; fold fr; fold h; lia|].
        rewrite <- EP in HKfr, Hfq3.
        fold P in HKfr, Hfq3. fold fq in HKfr, Hfq3. fold fr in HKfr. fold h in HKfr.
        rewrite (wrapU_small W (h + 1)) by lia.
        eexists. split; [reflexivity|].
        unfold recip_facts. cbn [r_recip r_corr r_scale r_shift r_ret]. fold W.
        rewrite (Hsh (W + b)) by lia. rewrite (Hwu fq) by lia. rewrite (Hwu (h + 1)) by lia. fold h. fold P.
        replace (h + 1 - h) with 1 by lia.
        replace (fq * d - P) with (- fr) by lia.
        rewrite E2W, EW.
        split; [lia|]. split; [lia|]. split; [change (2 ^ 16) with 65536; lia|].
        split; [apply prod_bound; lia|]. split; [exact HK|]. split; [right; fold h; lia|].
        split; [intros _; lia|]. split; [intros; lia|].
        intros Hs Hret HWe. rewrite HWe in *.
        destruct (16 + b <=? 16) eqn:Hle; [discriminate Hret|].
        split; [lia|]. rewrite Hs. rewrite shiftl_1 by lia.
        replace (16 * 2 - (16 + b)) with (32 - (16 + b)) by lia.
        apply wrapU_wrapS; [lia|]. split; [apply Z.pow_nonneg; lia|apply Z.pow_lt_mono_r; lia].
      * (* fractional part > 0.5 *)
        cbv beta iota zeta.
        destruct (alg_case3 H B d Hy) as [He0 [He2 [Hf2 [HKe HKe1]]]]; [rewrite <- EP; fold P; fold fr; fold h; lia|].
        rewrite <- EP in He0, He2, Hf2, HKe, HKe1.
        fold P in He0, He2, Hf2, HKe, HKe1. fold fq in He0, He2, Hf2, HKe, HKe1. fold h in HKe, HKe1.
        rewrite (wrapU_small (2 * W) (fq + 1)) by nia.
        eexists. split; [reflexivity|].
        unfold recip_facts. cbn [r_recip r_corr r_scale r_shift r_ret]. fold W.
        rewrite (Hsh (W + b)) by lia. rewrite (Hwu (fq + 1)) by lia. rewrite (Hwu h) by lia. fold h. fold P.
        replace (h - h) with 0 by lia.
        set (e := (fq + 1) * d - P) in *.
        set (K := (32767 + h) / d) in *.
        rewrite E2W, EW.
        split; [lia|]. split; [lia|]. split; [change (2 ^ 16) with 65536; lia|].
        split; [apply prod_bound; lia|]. split; [exact HK|]. split; [left; lia|].
        split; [intros; lia|].
        split.
        { intros _. split.
          - right. replace P with ((fq + 1) * d - e) by (unfold e; lia). apply u2_first; exact HKe.
          - replace P with ((fq + 1) * d - e) by (unfold e; lia). apply u2_second; exact HKe1. }
        intros Hs Hret HWe. rewrite HWe in *.
        destruct (16 + b <=? 16) eqn:Hle; [discriminate Hret|].
        split; [lia|]. rewrite Hs. rewrite shiftl_1 by lia.
        replace (16 * 2 - (16 + b)) with (32 - (16 + b)) by lia.
        apply wrapU_wrapS; [lia|]. split; [apply Z.pow_nonneg; lia|apply Z.pow_lt_mono_r; lia].
Qed.
