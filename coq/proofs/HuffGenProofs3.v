(* HuffGenProofs3.v -- jpeg_gen_optimal_table, end to end: huffval is a
   permutation of the used symbols, the main validity theorem gen_table_valid
   for ALL histograms, valid_table, and the boundary examples. *)
From Coq Require Import List ZArith Lia Bool Permutation Arith ZifyBool.
From LJT Require Import model.Huff proofs.HuffGenBase proofs.HuffGenProofs proofs.HuffGenProofs2.
Import ListNotations.
Local Open Scope Z_scope.

(* ------------------------------------------------------ bucket lemmas *)
Lemma filter_split {A} (p q r : A -> bool) l :
  (forall x, In x l -> r x = p x || q x) -> (forall x, In x l -> p x && q x = false) ->
  Permutation (filter p l ++ filter q l) (filter r l).
Proof.
  induction l as [|h t IH]; intros Hr Hd; [constructor|].
  assert (IH' : Permutation (filter p t ++ filter q t) (filter r t)).
  { apply IH; intros; [apply Hr|apply Hd]; right; assumption. }
  pose proof (Hr h (or_introl eq_refl)) as Eh. pose proof (Hd h (or_introl eq_refl)) as Dh.
  cbn [filter]. rewrite Eh.
  destruct (p h); destruct (q h); cbn [orb andb] in *; try discriminate Dh.
  - cbn [app]. constructor. exact IH'.
  - symmetry. apply Permutation_cons_app. symmetry. exact IH'.
  - exact IH'.
Qed.

Lemma filter_none {A} (p : A -> bool) l : (forall x, In x l -> p x = false) -> filter p l = [].
Proof.
  induction l as [|h t IH]; intros H; [reflexivity|]. cbn [filter].
  rewrite (H h) by (left; reflexivity). apply IH. intros; apply H; right; assumption.
Qed.

Lemma filter_all {A} (p : A -> bool) l : (forall x, In x l -> p x = true) -> filter p l = l.
Proof.
  induction l as [|h t IH]; intros H; [reflexivity|]. cbn [filter].
  rewrite (H h) by (left; reflexivity). f_equal. apply IH. intros; apply H; right; assumption.
Qed.

Lemma bucket (key : nat -> Z) xs : forall cnt lo,
  Permutation
    (concat (map (fun l => filter (fun i => key i =? Z.of_nat l) xs) (seq lo cnt)))
    (filter (fun i => (Z.of_nat lo <=? key i) && (key i <? Z.of_nat (lo + cnt))) xs).
Proof.
  induction cnt as [|c IH]; intros lo.
  - cbn [seq map concat]. rewrite filter_none; [constructor|]. intros x _. lia.
  - cbn [seq map concat]. rewrite (IH (S lo)).
    apply filter_split; intros x _; lia.
Qed.

Lemma map_nth_firstn {A} (d : A) k l :
  (k <= length l)%nat -> map (fun i => nth i l d) (seq 0 k) = firstn k l.
Proof.
  intros H. rewrite <- (map_nth_seq (firstn k l) d) at 1.
  rewrite firstn_length, Nat.min_l by exact H.
  apply map_ext_in. intros i Hi. apply in_seq in Hi. symmetry. apply nth_firstn_lt. lia.
Qed.

Lemma huffval_perm cs nz n1 :
  (n1 <= length nz)%nat -> (forall i, (i < n1)%nat -> 1 <= nthZ cs i <= 64) ->
  Permutation (huffval_of cs nz n1) (firstn n1 nz).
Proof.
  intros Hl Hc. unfold huffval_of, symbols_of_len. change MAX_CLEN with 64%nat.
  rewrite <- (map_map (fun l => filter (fun i => nthZ cs i =? Z.of_nat l) (seq 0 n1))
                      (map (fun i => nthZ nz i))).
  rewrite <- concat_map.
  rewrite <- (map_nth_firstn 0 n1 nz Hl).
  apply (Permutation_map (fun i => nthZ nz i)).
  rewrite (bucket (nthZ cs) (seq 0 n1) 64 1).
  rewrite filter_all; [reflexivity|].
  intros i Hi. apply in_seq in Hi. specialize (Hc i ltac:(lia)). lia.
Qed.

(* --------------------------------------------------- the bits[] pipeline *)
Definition finish (nz cs : list Z) : gen_err + hufftbl :=
  match count_bits cs (repeat 0 65) with
  | None => inl ClenOverflow
  | Some bits0 =>
      match limit_for 48 bits0 with
      | None => inl IndexUnderflow
      | Some None => inl OutOfFuel
      | Some (Some bits1) =>
          match remove_pseudo bits1 with
          | None => inl IndexUnderflow
          | Some bits2 =>
              inr {| h_bits := firstn 17 bits2;
                     h_vals := huffval_of cs nz (length nz - 1) |}
          end
      end
  end.

Lemma gen_optimal_table_eq freq256 :
  gen_optimal_table freq256 =
  match gen_codesizes freq256 with
  | inl e => inl e
  | inr (nz, cs) => finish nz cs
  end.
Proof. reflexivity. Qed.

Lemma finish_empty x : finish [x] [0] = inr {| h_bits := repeat 0 17; h_vals := [] |}.
Proof. vm_compute. reflexivity. Qed.

Lemma nthZ_repeat0 k l : nthZ (repeat 0 k) l = 0.
Proof. unfold nthZ. apply nth_repeat. Qed.

Lemma BInv_zero : BInv (repeat 0 65).
Proof. split; [apply repeat_length|]. intros l. rewrite nthZ_repeat0. lia. Qed.

Lemma In_firstn {A} (x : A) k l : In x (firstn k l) -> In x l.
Proof. intros H. rewrite <- (firstn_skipn k l). apply in_or_app. left. exact H. Qed.

(* what a correct table for the symbol set syms looks like *)
Definition good_table (t : hufftbl) (syms : list Z) : Prop :=
  let bits := h_bits t in
  length bits = 17%nat /\ nthZ bits 0 = 0 /\ (forall l, 0 <= nthZ bits l <= 255) /\
  sumZ (skipn 1 bits) = Z.of_nat (length syms) /\
  Permutation (h_vals t) syms /\
  (syms <> [] ->
     let L := maxlen bits in 1 <= L <= 16 /\ kraft16 bits = 2 ^ 16 - 2 ^ (16 - L)).

Lemma finish_spec syms x cs :
  let n := S (length syms) in
  (n <= 255)%nat -> length cs = n -> (forall c, In c cs -> 0 <= c <= Z.of_nat n - 1) ->
  sumZ (map pw cs) = 2 ^ D -> ((2 <= n)%nat -> forall c, In c cs -> 1 <= c) ->
  match finish (syms ++ [x]) cs with
  | inl ClenOverflow => exists c, In c cs /\ c > 64
  | inl _ => False
  | inr t => good_table t syms
  end.
Proof.
  intros n Hn L B K P1.
  destruct (Nat.eq_dec (length syms) 0) as [Es|Es].
  { (* no real symbol *)
    apply length_zero_iff_nil in Es. subst syms. cbn [length] in *.
    destruct cs as [|c [|c' r]]; try discriminate L.
    assert (c = 0) by (specialize (B c (or_introl eq_refl)); cbn in B; lia). subst c.
    cbn [app]. rewrite finish_empty. unfold good_table; cbn [h_bits h_vals].
    split; [reflexivity|]. split; [reflexivity|].
    split; [intros l; rewrite nthZ_repeat0; lia|].
    split; [reflexivity|]. split; [constructor|]. intros H; contradiction. }
  assert (H2 : (2 <= n)%nat) by (unfold n; lia).
  specialize (P1 H2).
  unfold finish. destruct (count_bits cs (repeat 0 65)) as [b0|] eqn:EC.
  2:{ apply count_bits_none in EC. exact EC. }
  assert (S0 : sumZ (repeat 0 65) = 0) by reflexivity.
  assert (W0 : WD (repeat 0 65) = 0).
  { unfold WD. apply W_zero. intros l _. apply nthZ_repeat0. }
  destruct (count_bits_some cs _ _ BInv_zero ltac:(rewrite S0, L; lia) P1 (nthZ_repeat0 65 0) EC)
    as (B0 & Sb & Wb & Zb & Cb).
  rewrite S0, L in Sb. rewrite W0, K in Wb.
  assert (I0 : LInv (Z.of_nat n) 64 b0).
  { split; [exact B0|]. split; [lia|]. split; [lia|]. split; [exact Zb|].
    intros l Hl. apply nthZ_overflow. rewrite (proj1 B0). lia. }
  destruct (tail_spec (Z.of_nat n) b0 ltac:(lia) I0)
    as (b1 & b2 & Lm & E1 & E2 & HL & Lf & F0 & Fr & Fs & Fm & Fk).
  rewrite E1, E2. unfold good_table; cbn [h_bits h_vals].
  split; [exact Lf|]. split; [exact F0|]. split; [exact Fr|].
  split; [rewrite Fs; unfold n; lia|]. split.
  - rewrite app_length. cbn [length]. replace (length syms + 1 - 1)%nat with (length syms) by lia.
    rewrite huffval_perm.
    + rewrite firstn_app, firstn_all, Nat.sub_diag. cbn [firstn]. rewrite app_nil_r. reflexivity.
    + rewrite app_length. lia.
    + intros i Hi. assert (Hin : In (nthZ cs i) cs) by (apply nth_In_Z; rewrite L; unfold n; lia).
      split; [apply P1|apply Cb]; exact Hin.
  - intros _. cbv zeta. rewrite Fm. split; [lia|exact Fk].
Qed.

(* ================================================================ MAIN *)
Theorem gen_table_valid : forall freq256 : list Z,
  (forall f, In f freq256 -> 0 <= f) ->
  sumZ (firstn 256 freq256) + 1 <= SENT ->
  (length (nz_scan (firstn 256 freq256) 0) <= 254)%nat ->
  match gen_optimal_table freq256 with
  | inl ClenOverflow =>
      exists cs nz, gen_codesizes freq256 = inr (nz, cs) /\ exists c, In c cs /\ c > 64
  | inl OutOfFuel => False
  | inl IndexUnderflow => False
  | inr t =>
      let bits := h_bits t in
      let syms := map fst (nz_scan (firstn 256 freq256) 0) in
      length bits = 17%nat /\ nthZ bits 0 = 0 /\ (forall l, 0 <= nthZ bits l <= 255) /\
      sumZ (skipn 1 bits) = Z.of_nat (length syms) /\
      Permutation (h_vals t) syms /\
      (syms <> [] ->
         let L := maxlen bits in 1 <= L <= 16 /\ kraft16 bits = 2 ^ 16 - 2 ^ (16 - L))
  end.
Proof.
  intros freq256 Hnn Hsum Hcnt.
  assert (Hok : hist_ok (firstn 256 freq256)).
  { split; [|split; assumption]. intros f Hf. apply Hnn. eapply In_firstn; exact Hf. }
  destruct (gen_codesizes_spec freq256 Hok) as (cs & EG & L & B & K & P1).
  cbv zeta in EG, L, B, K, P1.
  rewrite gen_optimal_table_eq, EG.
  set (syms := map fst (nz_scan (firstn 256 freq256) 0)) in *.
  assert (Hn : (S (length syms) <= 255)%nat) by (unfold syms; rewrite map_length; lia).
  pose proof (finish_spec syms (Z.of_nat (length (firstn 256 freq256))) cs Hn L B K P1) as F.
  destruct (finish (syms ++ [Z.of_nat (length (firstn 256 freq256))]) cs) as [[| |]|t].
  - exists cs, (syms ++ [Z.of_nat (length (firstn 256 freq256))]). split; [reflexivity|exact F].
  - exact F.
  - exact F.
  - exact F.
Qed.

(* ---------------------------------------------------------- valid_table *)
Lemma nodupZ_true l : NoDup l -> nodupZ l = true.
Proof.
  induction 1 as [|x t Hn Hd IH]; [reflexivity|]. cbn [nodupZ]. rewrite IH, andb_true_r.
  apply negb_true_iff. apply not_true_is_false. intros E. apply existsb_exists in E.
  destruct E as (y & Hy & Exy). apply Z.eqb_eq in Exy. subst. contradiction.
Qed.

Lemma syms_range a k : In k (map fst (nz_scan (firstn 256 a) 0)) -> 0 <= k <= 255.
Proof.
  intros H. apply nz_scan_fst in H. pose proof (firstn_le_length 256 a). lia.
Qed.

Lemma nsyms_eq bits : length bits = 17%nat -> nsyms bits = sumZ (skipn 1 bits).
Proof. intros H. unfold nsyms. rewrite firstn_all2 by lia. reflexivity. Qed.

Lemma good_table_valid t syms :
  good_table t syms -> NoDup syms -> (forall k, In k syms -> 0 <= k <= 255) ->
  (length syms <= 254)%nat -> valid_table t = true.
Proof.
  intros (Lb & B0 & Br & Bs & Pv & Kr) ND Rg Hc. cbv zeta in *.
  unfold valid_table. rewrite (nsyms_eq _ Lb), Bs.
  repeat (apply andb_true_intro; split).
  - rewrite Lb. reflexivity.
  - apply forallb_forall. intros b Hb. destruct (In_nth _ _ 0 Hb) as (i & _ & <-).
    specialize (Br i). unfold nthZ in Br. lia.
  - rewrite (Permutation_length Pv). lia.
  - lia.
  - apply nodupZ_true. apply Permutation_NoDup with (l := syms); [symmetry; exact Pv|exact ND].
  - apply forallb_forall. intros s Hs. specialize (Rg s (Permutation_in _ Pv Hs)). lia.
  - destruct syms as [|s0 r]; [reflexivity|].
    destruct (Kr ltac:(discriminate)) as (HL & HK). rewrite HK.
    apply orb_true_intro. right. lia.
Qed.

Theorem gen_table_valid_table : forall freq256 t,
  (forall f, In f freq256 -> 0 <= f) ->
  sumZ (firstn 256 freq256) + 1 <= SENT ->
  (length (nz_scan (firstn 256 freq256) 0) <= 254)%nat ->
  gen_optimal_table freq256 = inr t ->
  good_table t (map fst (nz_scan (firstn 256 freq256) 0)) /\ valid_table t = true.
Proof.
  intros freq256 t Hnn Hsum Hcnt E.
  pose proof (gen_table_valid freq256 Hnn Hsum Hcnt) as V. rewrite E in V.
  assert (G : good_table t (map fst (nz_scan (firstn 256 freq256) 0))) by exact V.
  split; [exact G|].
  apply (good_table_valid t _ G).
  - apply nz_scan_NoDup.
  - apply syms_range.
  - rewrite map_length. exact Hcnt.
Qed.
