(* C14 -- the destination buffer is handed over or freed exactly once on every exit path,
   for every sequence of images through one destination manager, provided newbuffer is
   cleared on every jpeg_mem_dest call (or on every call that does not reuse the manager's
   own buffer) and every failing exit while an image is open calls term_destination. *)
From Coq Require Import List ZArith Bool Lia.
From LJT Require Import model.DestBuf.
Import ListNotations.
Local Open Scope Z_scope.

Lemma zin_in : forall x l, zin x l = true <-> In x l.
Proof.
  unfold zin; intros. rewrite existsb_exists. split.
  - intros (y & Hy & E). apply Z.eqb_eq in E. subst; auto.
  - intros. exists x. split; auto. apply Z.eqb_refl.
Qed.
Lemma zin_notin : forall x l, zin x l = false <-> ~ In x l.
Proof. intros. rewrite <- zin_in. destruct (zin x l); split; congruence. Qed.
Lemma zrem_in : forall x y l, In y (zrem x l) <-> In y l /\ y <> x.
Proof.
  unfold zrem; intros. rewrite filter_In. rewrite negb_true_iff, Z.eqb_neq. tauto.
Qed.
Lemma zrem_nodup : forall x l, NoDup l -> NoDup (zrem x l).
Proof. unfold zrem; intros. apply NoDup_filter. auto. Qed.

(* L = the block that currently belongs to the LIBRARY (the manager's newbuffer), if any *)
Definition wf (s : ds) (L : option Z) : Prop :=
  NoDup (b_live s) /\ NoDup (b_owned s) /\
  (forall x, In x (b_live s) <-> In x (b_owned s) \/ L = Some x) /\
  (forall x, L = Some x -> ~ In x (b_owned s)) /\
  (forall x, In x (b_live s) -> x < b_nxt s) /\ b_badfree s = 0 /\ b_stolen s = 0.

(* between calls *)
Definition R (s : ds) : Prop :=
  wf s None /\ (dnew s = None \/ dnew s = dbuf s) /\ (forall v, b_last s = Some v -> In v (b_owned s)).

(* while an image is open *)
Definition K (s : ds) (L : option Z) : Prop :=
  wf s L /\ dnew s = L /\
  match L with
  | Some x => dbuf s = Some x
  | None => exists v, dbuf s = Some v /\ In v (b_owned s)
  end.

Lemma owned_lt : forall s L x, wf s L -> In x (b_owned s) -> x < b_nxt s.
Proof. intros s L x (_ & _ & H & _ & Hl & _) Hx. apply Hl. apply H. auto. Qed.

Lemma grow_K : forall n s L, K s L -> exists L', K (grow n s) L'.
Proof.
  induction n as [|n IH]; intros s L HK; simpl; [eauto|].
  apply IH with (L := Some (b_nxt s)).
  destruct HK as ((Hn & Ho & Hl & Hx & Hlt & Hb & Hs) & Hd & Hbuf).
  assert (Hfresh : ~ In (b_nxt s) (b_live s)) by (intro Hi; apply Hlt in Hi; lia).
  assert (Hfo : ~ In (b_nxt s) (b_owned s)) by (intro Hi; apply Hfresh; apply Hl; auto).
  unfold alloc; simpl. rewrite Hd.
  destruct L as [x|].
  - (* free the manager's old buffer *)
    assert (Hxl : In x (b_live s)) by (apply Hl; auto).
    assert (Hxo : ~ In x (b_owned s)) by (apply Hx; auto).
    assert (x <> b_nxt s) by (intro; subst; auto).
    unfold K, wf, lib_free; simpl.
    assert (E1 : zin x (b_live s) = true) by (apply zin_in; auto).
    assert (E2 : zin x (b_owned s) = false) by (apply zin_notin; auto).
    assert (E3 : (b_nxt s =? x) = false) by (apply Z.eqb_neq; lia).
    assert (E4 : (x =? b_nxt s) = false) by (apply Z.eqb_neq; lia).
    rewrite E1, E2, E3, E4. simpl.
    repeat split; auto.
    + constructor; [rewrite zrem_in; tauto | apply zrem_nodup; auto].
    + intros [->|Hy]; [auto|]. apply zrem_in in Hy. destruct Hy as (Hy & Hne). apply Hl in Hy. destruct Hy as [Hy|Hy]; auto. congruence.
    + intros [Hy|Hy]; [|inversion Hy; auto]. right. apply zrem_in. split; [apply Hl; auto | intro; subst; auto].
    + intros y Hy. inversion Hy; subst. auto.
    + intros y [->|Hy]; [lia|]. apply zrem_in in Hy. destruct Hy as (Hy & _). apply Hlt in Hy. lia.
  - unfold K, wf; simpl.
    repeat split; auto.
    + constructor; auto.
    + intros [->|Hy]; [auto|]. apply Hl in Hy. destruct Hy; [auto|discriminate].
    + intros [Hy|Hy]; [right; apply Hl; auto | inversion Hy; auto].
    + intros y Hy. inversion Hy; subst. auto.
    + intros y [->|Hy]; [lia|]. apply Hlt in Hy. lia.
Qed.

Lemma app_free_list_ok : forall l s,
  NoDup l -> (forall x, In x l -> In x (b_live s)) -> NoDup (b_live s) ->
  b_badfree (app_free_list s l) = b_badfree s /\ b_stolen (app_free_list s l) = b_stolen s /\ b_nxt (app_free_list s l) = b_nxt s /\
  dnew (app_free_list s l) = dnew s /\ dbuf (app_free_list s l) = dbuf s /\
  (forall y, In y (b_live (app_free_list s l)) <-> In y (b_live s) /\ ~ In y l).
Proof.
  induction l as [|x l IH]; intros s Hn Hl Hnd; simpl.
  - repeat split; auto; tauto.
  - inversion Hn; subst.
    assert (E : zin x (b_live s) = true) by (apply zin_in; apply Hl; left; auto).
    destruct (IH (app_free s x)) as (A & B & C & D & F & G); auto.
    + intros y Hy. simpl. apply zrem_in. split; [apply Hl; right; auto | intro; subst; auto].
    + simpl. apply zrem_nodup; auto.
    + simpl in *. rewrite E in A. split; [auto|]. split; [auto|]. split; [auto|]. split; [auto|]. split; [auto|].
      intros y. rewrite G. rewrite zrem_in. split.
      * intros ((Hy & Hne) & Hny). split; auto. intros [Heq|Hin]; [subst; auto | auto].
      * intros (Hy & Hny). split; [split; auto; intro; subst; apply Hny; auto | intro; apply Hny; auto].
Qed.

Lemma nil_of_no_members : forall (l : list Z), (forall y, ~ In y l) -> l = [].
Proof. destruct l; auto. intros H. exfalso. apply (H z). left; auto. Qed.

Lemma app_free_all_R : forall s,
  wf s None -> (dnew s = None \/ dnew s = dbuf s) ->
  R (app_free_all s) /\ b_live (app_free_all s) = [] /\ b_badfree (app_free_all s) = 0 /\ b_stolen (app_free_all s) = 0.
Proof.
  intros s (Hn & Ho & Hl & Hx & Hlt & Hb & Hs) Hd.
  destruct (app_free_list_ok (b_owned s) s) as (A & B & C & D & F & G); auto.
  { intros x Hxo. apply Hl. auto. }
  assert (Hnil : b_live (app_free_list s (b_owned s)) = []).
  { apply nil_of_no_members. intros y Hy. apply G in Hy. destruct Hy as (Hy & Hny). apply Hl in Hy. destruct Hy; [tauto|discriminate]. }
  unfold app_free_all, R, wf; simpl. rewrite Hnil, A, B, D, F.
  repeat split; auto; try constructor; try tauto; try discriminate; intros; try contradiction.
  destruct H; [contradiction|discriminate].
Qed.

(* the application takes *outbuffer = dbuf (term_destination has run) *)
Lemma settle_termed_R : forall s L fa, K s L -> R (settle s (dbuf s) fa).
Proof.
  intros s L fa ((Hn & Ho & Hl & Hx & Hlt & Hb & Hs) & Hd & Hbuf).
  assert (HR : R (upd_own s (match dbuf s with Some x => if zin x (b_owned s) then b_owned s else x :: b_owned s | None => b_owned s end) (dbuf s))).
  { destruct L as [x|].
    - rewrite Hbuf. assert (E : zin x (b_owned s) = false) by (apply zin_notin; apply Hx; auto). rewrite E.
      unfold R, wf; simpl. repeat split; auto.
      + constructor; auto.
      + intros Hy. apply Hl in Hy. destruct Hy as [Hy|Hy]; [left; right; auto | inversion Hy; left; left; auto].
      + intros [[->|Hy]|Hy]; [apply Hl; auto | apply Hl; auto | discriminate].
      + intros; discriminate.
      + right. rewrite Hd. auto.
      + intros v Hv. inversion Hv; subst. left; auto.
    - destruct Hbuf as (v & Hv & Hvo). rewrite Hv. assert (E : zin v (b_owned s) = true) by (apply zin_in; auto). rewrite E.
      unfold R, wf; simpl. repeat split; auto.
      + intros Hy. apply Hl in Hy. auto.
      + intros [Hy|Hy]; [apply Hl; auto | discriminate].
      + intros v0 Hv2. inversion Hv2; subst. auto. }
  unfold settle. destruct fa; auto.
  destruct HR as (Hw & Hdn & _). apply app_free_all_R; auto.
Qed.

Definition good (cf : dcfg) : Prop :=
  (pol cf = ResetAlways \/ pol cf = ResetUnlessReused) /\ term_on_throw cf = true /\ term_on_longjmp cf = true.

Lemma oeq_true : forall a b, oeq a (Some b) = true -> a = Some b.
Proof. destruct a; simpl; intros; try discriminate. apply Z.eqb_eq in H. subst; auto. Qed.

(* jpeg_mem_dest with a good policy: afterwards the library owns at most the buffer it is handed back *)
Lemma mem_dest_step : forall cf s0 var,
  (pol cf = ResetAlways \/ pol cf = ResetUnlessReused) ->
  wf s0 None -> (dnew s0 = None \/ dnew s0 = dbuf s0) -> (forall v, var = Some v -> In v (b_owned s0)) ->
  let reused := match pol cf with ResetUnlessReused => match var with Some _ => oeq (dbuf s0) var | None => false end | _ => false end in
  let nb0 := match pol cf with
             | ResetAlways => None
             | ResetUnlessReused => if reused then dnew s0 else None
             | ResetFirstOnly => if created s0 then dnew s0 else None
             end in
  let s1 := upd_dest (if reused then match nb0 with Some x => upd_own s0 (zrem x (b_owned s0)) (b_last s0) | None => s0 end else s0) nb0 (dbuf s0) true in
  exists L1, wf s1 L1 /\ dnew s1 = L1 /\ (forall x, L1 = Some x -> var = Some x) /\
             (L1 = None -> forall v, var = Some v -> In v (b_owned s1)).
Proof.
  intros cf s0 var Hpol Hw Hdn Hvar reused nb0 s1.
  assert (Plain : wf (upd_dest s0 None (dbuf s0) true) None) by exact Hw.
  destruct Hpol as [Hp|Hp].
  - subst reused nb0 s1. rewrite Hp. exists None. repeat split; auto; try discriminate; apply Hw.
  - subst reused nb0 s1. rewrite Hp.
    destruct var as [v|]; [|exists None; repeat split; auto; try discriminate; apply Hw].
    destruct (oeq (dbuf s0) (Some v)) eqn:E; [|exists None; repeat split; auto; try discriminate; apply Hw].
    apply oeq_true in E.
    destruct (dnew s0) as [x|] eqn:En; [|exists None; repeat split; auto; try discriminate; apply Hw].
    assert (x = v) by (destruct Hdn as [Hd|Hd]; [discriminate | rewrite E in Hd; inversion Hd; auto]). subst x.
    assert (Hvo : In v (b_owned s0)) by (apply Hvar; auto).
    destruct Hw as (Hn & Ho & Hl & Hx & Hlt & Hb & Hs).
    exists (Some v). unfold wf; simpl. repeat split; auto; try discriminate.
    + apply zrem_nodup; auto.
    + intros Hy. apply Hl in Hy. destruct Hy as [Hy|Hy]; [|discriminate].
      destruct (Z.eq_dec x v); [right; subst; auto | left; apply zrem_in; auto].
    + intros [Hy|Hy]; [apply zrem_in in Hy; apply Hl; tauto | inversion Hy; subst; apply Hl; auto].
    + intros y Hy. inversion Hy; subst. rewrite zrem_in. tauto.
Qed.

Lemma settle_none_R : forall s fa, wf s None -> dnew s = None -> R (settle s None fa).
Proof.
  intros s fa Hw Hd. unfold settle.
  assert (HR : R (upd_own s (b_owned s) None)) by (unfold R; simpl; repeat split; auto; try apply Hw; intros; discriminate).
  destruct fa; auto. destruct HR as (Hw2 & Hd2 & _). apply app_free_all_R; auto.
Qed.

Theorem do_call_R : forall cf s c, good cf -> R s -> R (do_call cf s c).
Proof.
  intros cf s c (Hpol & Ht & Hj) (Hw & Hdn & Hlast).
  unfold do_call.
  (* 1. the application prepares *outbuffer *)
  assert (P : exists s0 var, (match c_mode c with
                              | MLib => (s, None)
                              | MCaller => let (b, s') := alloc s in (upd_own s' (b :: b_owned s') (b_last s'), Some b)
                              | MReuse => (s, b_last s)
                              end) = (s0, var) /\ wf s0 None /\ (dnew s0 = None \/ dnew s0 = dbuf s0) /\
                              (forall v, var = Some v -> In v (b_owned s0))).
  { destruct (c_mode c).
    - exists s, None. repeat split; auto; try apply Hw; intros; discriminate.
    - destruct Hw as (Hn & Ho & Hl & Hx & Hlt & Hb & Hs).
      assert (Hfresh : ~ In (b_nxt s) (b_live s)) by (intro Hi; apply Hlt in Hi; lia).
      assert (Hfo : ~ In (b_nxt s) (b_owned s)) by (intro Hi; apply Hfresh; apply Hl; auto).
      eexists; eexists. split; [reflexivity|]. unfold wf; simpl. repeat split; auto.
      + constructor; auto.
      + constructor; auto.
      + intros [->|Hy]; [left; left; auto|]. apply Hl in Hy. destruct Hy; [left; right; auto | discriminate].
      + intros [[->|Hy]|Hy]; [left; auto | right; apply Hl; auto | discriminate].
      + intros; discriminate.
      + intros y [->|Hy]; [lia|]. apply Hlt in Hy. lia.
      + intros v Hv. inversion Hv; subst. left; auto.
    - exists s, (b_last s). repeat split; auto; apply Hw. }
  destruct P as (s0 & var & EP & Hw0 & Hdn0 & Hvar). rewrite EP.
  (* 2. jpeg_mem_dest *)
  destruct (mem_dest_step cf s0 var Hpol Hw0 Hdn0 Hvar) as (L1 & Hw1 & Hd1 & HL1 & HL1n).
  cbv zeta in Hw1, Hd1, HL1n.
  set (s1 := upd_dest _ _ (dbuf s0) true) in *. clearbody s1.
  (* 3. the image *)
  assert (Main : forall s2 L, K s2 L -> R (settle (grow (c_grows c) s2) (dbuf (grow (c_grows c) s2)) (c_free_after c))).
  { intros s2 L HK. destruct (grow_K (c_grows c) s2 L HK) as (L' & HK'). eapply settle_termed_R; eauto. }
  assert (Termd : (match c_exit c with EFinish => true | EThrow => term_on_throw cf | _ => term_on_longjmp cf end) = true)
    by (destruct (c_exit c); auto).
  destruct var as [v|].
  - (* the caller's buffer (or the reused result) *)
    assert (HK : K (upd_dest s1 (dnew s1) (Some v) true) L1).
    { unfold K. split; [exact Hw1|]. split; [exact Hd1|]. destruct L1 as [x|].
      - simpl. exact (HL1 x eq_refl).
      - exists v. split; [reflexivity|]. apply (HL1n eq_refl v eq_refl). }
    destruct (c_exit c); simpl in Termd; rewrite ?Termd, ?Ht, ?Hj; apply (Main _ _ HK).
  - (* the library allocates the initial buffer *)
    destruct L1 as [x|]. { specialize (HL1 x eq_refl); discriminate. }
    assert (HK : K (upd_dest (upd_dest (snd (alloc s1)) (Some (b_nxt s1)) (dbuf (snd (alloc s1))) true) (Some (b_nxt s1)) (Some (b_nxt s1)) true) (Some (b_nxt s1))).
    { destruct Hw1 as (Hn & Ho & Hl & Hx & Hlt & Hb & Hs).
      assert (Hfresh : ~ In (b_nxt s1) (b_live s1)) by (intro Hi; apply Hlt in Hi; lia).
      assert (Hfo : ~ In (b_nxt s1) (b_owned s1)) by (intro Hi; apply Hfresh; apply Hl; auto).
      unfold K, wf; simpl. repeat split; auto.
      - constructor; auto.
      - intros [Hy|Hy]; [right; f_equal; auto|]. apply Hl in Hy. destruct Hy as [Hy|Hy]; [left; auto|discriminate Hy].
      - intros [Hy|Hy]; [right; apply Hl; auto | inversion Hy; auto].
      - intros y Hy. inversion Hy; subst. auto.
      - intros y [Hy|Hy]; [lia|]. apply Hlt in Hy. lia. }
    destruct (c_exit c) eqn:Ex.
    4: { apply settle_none_R; auto. }
    all: unfold alloc at 1; cbv beta iota zeta; simpl in Termd; rewrite ?Ht, ?Hj; apply (Main _ _ HK).
Qed.

Lemma R_ds0 : R ds0.
Proof. unfold R, wf, ds0; simpl. repeat split; auto; try constructor; try tauto; try discriminate; intros; try contradiction. destruct H; [contradiction|discriminate]. Qed.

Theorem run_calls_R : forall cf cs s, good cf -> R s -> R (run_calls cf s cs).
Proof. induction cs as [|c r IH]; intros s Hg HR; simpl; auto. apply IH; auto. apply do_call_R; auto. Qed.

(* every sequence of images, every buffer mode, every number of reallocations, every exit
   (success, TurboJPEG-level failure, libjpeg error, failed initial allocation), every choice of
   the application to free or keep results: nothing is freed twice, the library never frees
   a block of the application, and once the application has released what it holds nothing
   remains allocated *)
Theorem destbuf_safe : forall cf cs, good cf -> safe (final cf cs).
Proof.
  intros cf cs Hg. unfold final, safe.
  destruct (run_calls_R cf cs ds0 Hg R_ds0) as (Hw & Hd & _).
  destruct (app_free_all_R _ Hw Hd) as (_ & A & B & C). auto.
Qed.
