(* C08 -- the context (fancy h2v2 / h1v2) main controller: statement of the open clause and computed examples.
   There is no general theorem for this controller (gap named in design/C08.md); the model is tied to the
   code by the correspondence of checks/C08.py. *)
From Coq Require Import List ZArith Bool.
From LJT Require Import model.Partial proofs.PartialSchedSkip.
Import ListNotations.
Local Open Scope Z_scope.

Definition ctx_geom_ok (g : geom) : Prop :=
  2 <= gM g /\ 1 <= grg g /\ 1 <= grg0 g /\ gv g = 2 * grg g /\ gfancyv g = true /\ gctx g = true /\
  0 <= gH g < 4294967296 /\ 0 < gdsh g /\ 0 < gdsh0 g /\ gT g * gL g >= gH g.

(* the clause that is NOT proved: every history on the context controller behaves like a full decode *)
Definition skip_read_equals_full_context_full : Prop :=
  forall g ops, ctx_geom_ok g -> Forall op_nonneg ops ->
  let res := run_c g (c_init g) ops in
  c_scan (fst res) = Z.min (gH g) (total_requested ops) /\
  Forall (fun yp => snd yp = ideal_c g (fst yp)) (delivered (snd res)).

(* executable form for concrete histories *)
Definition ctx_run_okb (g : geom) (ops : list op) : bool :=
  let res := run_c g (c_init g) ops in
  (c_scan (fst res) =? Z.min (gH g) (total_requested ops)) &&
  forallb (fun yp => let i := ideal_c g (fst yp) in (fst (snd yp) =? fst i) && (snd (snd yp) =? snd i))
          (delivered (snd res)).

(* 4:2:0, scale 8/8, 53 rows: chroma is the tracked component *)
Definition g420 : geom := mkGeom 8 2 53 4 false true 1 27 32 true 2 53 false false false false.
(* 4:2:0, scale 12/8, 80 rows *)
Definition g420x12 : geom := mkGeom 12 2 80 4 false true 1 40 48 true 2 80 false false false false.

Lemma ctx_examples :
  ctx_run_okb g420 [Read 53] = true /\
  ctx_run_okb g420 [Skip 15; Read 1; Skip 17; Read 20] = true /\
  ctx_run_okb g420 [Read 14; Skip 1; Read 1; Skip 16; Read 2; Skip 19; Read 1] = true /\
  ctx_run_okb g420 [Skip 5; Skip 9; Skip 2; Read 3; Skip 17; Skip 1; Read 30] = true /\
  ctx_run_okb g420x12 [Read 23; Skip 1; Read 1; Skip 24; Read 5; Skip 3; Skip 100] = true /\
  ctx_run_okb g420x12 [Skip 22; Skip 2; Skip 1; Read 2; Skip 23; Read 40] = true.
Proof. vm_compute. repeat split; reflexivity. Qed.

(* max_v_samp_factor = 4 with context rows (Y 1x4, Cb/Cr 1x2, h1v2 fancy upsampling of chroma), 200 rows *)
Definition g141212 : geom := mkGeom 8 4 200 7 false true 2 100 104 true 4 200 false false false false.

Lemma g141212_ok : ctx_geom_ok g141212.
Proof. unfold ctx_geom_ok, g141212, gL. cbn. repeat split; try reflexivity; try discriminate. Qed.

(* hazard 6: read 29 rows (3 rows before the iMCU boundary, next iMCU row already decoded), skip 40:
   the following rows come from one iMCU row too far *)
Lemma refuted_context_v4 :
  let ops := [Read 29; Skip 40; Read 5] in
  first_hazard_c g141212 (c_init g141212) ops = 6 /\
  In (69, (50, 51)) (delivered (snd (run_c g141212 (c_init g141212) ops))) /\
  ideal_c g141212 69 = (34, 35).
Proof. vm_compute. split; [reflexivity|]. split; [|reflexivity]. do 29 right. left. reflexivity. Qed.

Theorem skip_read_equals_full_context_refuted : ~ skip_read_equals_full_context_full.
Proof.
  intros Hfull.
  assert (Hnn : Forall op_nonneg [Read 29; Skip 40; Read 5]).
  { repeat constructor. cbn [op_nonneg]. discriminate. }
  pose proof (Hfull g141212 _ g141212_ok Hnn) as Hx. cbv zeta in Hx. destruct Hx as (_ & Hall).
  destruct refuted_context_v4 as (_ & Hin & Hid).
  rewrite Forall_forall in Hall.
  assert (Hc : (50, 51) = ideal_c g141212 69) by exact (Hall _ Hin).
  rewrite Hid in Hc. discriminate Hc.
Qed.

(* hazard-free behaviour of the same geometry one row before the boundary, and with v = 2 *)
Lemma ctx_examples_v4 :
  ctx_run_okb g141212 [Read 31; Skip 40; Read 5] = true /\
  first_hazard_c g141212 (c_init g141212) [Read 31; Skip 40; Read 5] = 0 /\
  first_hazard_c g420 (c_init g420) [Read 14; Skip 1; Read 1; Skip 16; Read 2; Skip 19; Read 1] = 0.
Proof. vm_compute. repeat split; reflexivity. Qed.
