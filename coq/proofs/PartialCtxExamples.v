(* C08 -- the context (fancy h2v2 / h1v2) main controller: statement of the open clause and computed examples.
   There is no general theorem for this controller (gap named in design/C08.md); the model is tied to the
   code by the correspondence of checks/C08.py. *)
From Coq Require Import List ZArith Bool.
From LJT Require Import model.Partial proofs.PartialSchedProofs.
Import ListNotations.
Local Open Scope Z_scope.

Definition ctx_geom_ok (g : geom) : Prop :=
  2 <= gM g /\ 1 <= grg g /\ 1 <= grg0 g /\ gv g = 2 * grg g /\ gfancyv g = true /\ gctx g = true /\
  0 <= gH g < 4294967296 /\ 0 < gdsh g /\ 0 < gdsh0 g /\ gT g * gL g >= gH g.

(* the clause that is NOT proved: every history on the context controller behaves like a full decode *)
Definition skip_read_equals_full_context_full : Prop :=
  forall g ops, ctx_geom_ok g -> Forall op_nonneg ops ->
  let res := run_c g (c_init g) ops in
  c_scan (fst res) = Z.min (gH g) (total_requested ops) /\
  Forall (fun yp => snd yp = ideal_c g (fst yp)) (delivered (snd res)).

(* executable form for concrete histories *)
Definition ctx_run_okb (g : geom) (ops : list op) : bool :=
  let res := run_c g (c_init g) ops in
  (c_scan (fst res) =? Z.min (gH g) (total_requested ops)) &&
  forallb (fun yp => let i := ideal_c g (fst yp) in (fst (snd yp) =? fst i) && (snd (snd yp) =? snd i))
          (delivered (snd res)).

(* 4:2:0, scale 8/8, 53 rows: chroma is the tracked component *)
Definition g420 : geom := mkGeom 8 2 53 4 false true 1 27 32 true 2 53.
(* 4:2:0, scale 12/8, 80 rows *)
Definition g420x12 : geom := mkGeom 12 2 80 4 false true 1 40 48 true 2 80.

Lemma ctx_examples :
  ctx_run_okb g420 [Read 53] = true /\
  ctx_run_okb g420 [Skip 15; Read 1; Skip 17; Read 20] = true /\
  ctx_run_okb g420 [Read 14; Skip 1; Read 1; Skip 16; Read 2; Skip 19; Read 1] = true /\
  ctx_run_okb g420 [Skip 5; Skip 9; Skip 2; Read 3; Skip 17; Skip 1; Read 30] = true /\
  ctx_run_okb g420x12 [Read 23; Skip 1; Read 1; Skip 24; Read 5; Skip 3; Skip 100] = true /\
  ctx_run_okb g420x12 [Skip 22; Skip 2; Skip 1; Read 2; Skip 23; Read 40] = true.
Proof. vm_compute. repeat split; reflexivity. Qed.
