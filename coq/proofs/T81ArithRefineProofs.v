(* G.1.3.3 (SOF10): the AC-refinement binarisation of the arithmetic progressive process.
   dec_ac_refine inverts enc_ac_refine for one block: EOB decision only for k > EOBx (kex),
   no EOB decision directly after a zero, zero / newly-non-zero decision with fixed-estimate
   sign for zero-history coefficients, correction decision for non-zero-history ones.
   The QM coder enters through Sim (T81ArithProofsScan): a decoder state that reproduces the
   remaining decision list -- which C04_qm_roundtrip provides for qm_encode_all. *)
From Coq Require Import List ZArith Bool Lia Arith FMapPositive.
From LJT Require Import model.T81Spec model.T81Arith proofs.T81ArithProofs proofs.T81ArithProofsIdeal
  proofs.T81ArithProofsBytes proofs.T81ArithProofsScan proofs.T81ProgProofs.
Import ListNotations.
Local Open Scope Z_scope.

Lemma sim_cons : forall key b t q, Sim ((key, b) :: t) q -> exists q', qm_decode key q = Some (b, q') /\ Sim t q'.
Proof.
  intros key b t q H. apply (sim_step key ((key, b) :: t) q b t H). cbn [adecide]. rewrite Z.eqb_refl. reflexivity.
Qed.

Section Refine.
  Variables (tb w r c al se ke kex : Z) (coef : Z -> Z).
  Hypothesis Hb : 0 <= r * w + c.

  Definition mag (k : Z) : Z := Z.abs (coef k) / 2 ^ al.

  (* the arrays after the refinement of indices k.. *)
  Fixpoint wa_ref (fuel : nat) (m : PM.t Z) (k : Z) : PM.t Z :=
    match fuel with
    | O => m
    | S f =>
      if k >? ke then m
      else if mag k =? 0 then wa_ref f m (k + 1)
      else if mag k / 2 =? 0 then wa_ref f (pset m w r c k (if coef k <? 0 then - 2 ^ al else 2 ^ al)) (k + 1)
      else wa_ref f (if Z.odd (mag k) then pset m w r c k (let u := pget m w r c k in if u <? 0 then u - 2 ^ al else u + 2 ^ al) else m) (k + 1)
    end.

  (* history: the decoder holds a non-zero value exactly where the coefficient was already non-zero *)
  Definition ahist (m : PM.t Z) (k : Z) : Prop := forall j, k <= j <= se -> (pget m w r c j = 0 <-> mag j / 2 = 0).

  Lemma ahist_pset : forall m k v, 0 <= k -> ahist m k -> ahist (pset m w r c k v) (k + 1).
  Proof.
    intros m k v Hk H j Hj. rewrite (pget_pset m w r c k j v Hb Hk ltac:(lia)).
    destruct (j =? k) eqn:E; [apply Z.eqb_eq in E; lia|]. apply H. lia.
  Qed.
  Lemma ahist_next : forall m k, ahist m k -> ahist m (k + 1).
  Proof. intros m k H j Hj. apply H. lia. Qed.

  Theorem dec_enc_ac_refine : forall n m k inner rest q,
    0 <= k -> kex <= ke -> ke <= se ->
    (forall j, ke < j <= se -> mag j = 0) -> (k <= ke -> mag ke <> 0) -> (inner = true -> k <= ke) ->
    1 <= Z.of_nat n -> se - k + 2 <= Z.of_nat n ->
    ahist m k ->
    Sim (enc_ac_refine n tb coef al se ke kex k inner ++ rest) q ->
    exists q', dec_ac_refine n tb m w r c al se kex k inner q = Some (wa_ref n m k, q') /\ Sim rest q'.
  Proof.
    induction n; intros m k inner rest q Hk Hkex Hke Hzero Hlast Hinner Hf1 Hfuel Hh HS.
    - cbn in Hf1. lia.
    - rewrite Nat2Z.inj_succ in Hfuel. cbn [enc_ac_refine dec_ac_refine wa_ref] in *.
      destruct (k >? ke) eqn:Eke.
      + apply Z.gtb_lt in Eke.
        assert (Hi : inner = false) by (destruct inner; [specialize (Hinner eq_refl); lia|reflexivity]). subst inner.
        destruct (k >? se) eqn:Ese.
        * apply Z.gtb_lt in Ese. destruct (k <=? se) eqn:E2; [apply Z.leb_le in E2; lia|]. cbn [app] in HS.
          exists q. split; [reflexivity|exact HS].
        * rewrite Z.gtb_ltb in Ese. apply Z.ltb_ge in Ese. destruct (k <=? se) eqn:E2; [|apply Z.leb_gt in E2; lia].
          cbn [app negb andb] in *. destruct (k >? kex) eqn:Ex; [|rewrite Z.gtb_ltb in Ex; apply Z.ltb_ge in Ex; lia].
          destruct (sim_cons _ _ _ _ HS) as (q1 & Q1 & S1). rewrite Q1. exists q1. split; [reflexivity|exact S1].
      + rewrite Z.gtb_ltb in Eke. apply Z.ltb_ge in Eke.
        destruct (k >? se) eqn:Ese; [apply Z.gtb_lt in Ese; lia|].
        (* the optional "not EOB" decision *)
        assert (Pre : exists q1, (if negb inner && (k >? kex) then qm_decode (ack tb (3 * (k - 1))) q else Some (false, q)) = Some (false, q1) /\
                  Sim ((let v := Z.abs (coef k) / 2 ^ al in
                        if v =? 0 then (ack tb (3 * (k - 1)) + 1, false) :: enc_ac_refine n tb coef al se ke kex (k + 1) true
                        else if v / 2 =? 0 then (ack tb (3 * (k - 1)) + 1, true) :: (FIXED, coef k <? 0) :: enc_ac_refine n tb coef al se ke kex (k + 1) false
                        else (ack tb (3 * (k - 1)) + 2, Z.odd v) :: enc_ac_refine n tb coef al se ke kex (k + 1) false) ++ rest) q1).
        { destruct (negb inner && (k >? kex)).
          - rewrite <- app_assoc in HS. cbn [app] in HS. destruct (sim_cons _ _ _ _ HS) as (q1 & Q1 & S1). exists q1. split; assumption.
          - cbn [app] in HS. exists q. split; [reflexivity|exact HS]. }
        destruct Pre as (q1 & Q1 & S1). rewrite Q1. cbv zeta in S1. fold (mag k) in S1 |- *.
        pose proof (Hh k ltac:(lia)) as Hk0.
        destruct (mag k =? 0) eqn:Ev.
        * (* stays zero *)
          apply Z.eqb_eq in Ev. assert (Hp : pget m w r c k = 0) by (apply Hk0; rewrite Ev; reflexivity). rewrite Hp. cbn [Z.eqb].
          cbn [app] in S1. destruct (sim_cons _ _ _ _ S1) as (q2 & Q2 & S2). rewrite Q2.
          assert (k < ke) by (destruct (Z.eq_dec k ke) as [->|]; [specialize (Hlast ltac:(lia)); contradiction|lia]).
          apply (IHn m (k + 1) true rest q2); try assumption; try lia. apply ahist_next; exact Hh.
        * apply Z.eqb_neq in Ev. destruct (mag k / 2 =? 0) eqn:Ev2.
          -- (* newly non-zero *)
             apply Z.eqb_eq in Ev2. assert (Hp : pget m w r c k = 0) by (apply Hk0; exact Ev2). rewrite Hp. cbn [Z.eqb].
             cbn [app] in S1. destruct (sim_cons _ _ _ _ S1) as (q2 & Q2 & S2). rewrite Q2.
             destruct (sim_cons _ _ _ _ S2) as (q3 & Q3 & S3). rewrite Q3.
             apply (IHn _ (k + 1) false rest q3); try assumption; try lia; try discriminate.
             apply ahist_pset; [lia|exact Hh].
          -- (* correction of an already non-zero coefficient *)
             apply Z.eqb_neq in Ev2. assert (Hp : pget m w r c k <> 0) by (intros E; apply Hk0 in E; contradiction).
             destruct (pget m w r c k =? 0) eqn:Ep; [apply Z.eqb_eq in Ep; contradiction|].
             cbn [app] in S1. destruct (sim_cons _ _ _ _ S1) as (q2 & Q2 & S2). rewrite Q2.
             destruct (Z.odd (mag k)).
             ++ apply (IHn _ (k + 1) false rest q2); try assumption; try lia; try discriminate. apply ahist_pset; [lia|exact Hh].
             ++ apply (IHn _ (k + 1) false rest q2); try assumption; try lia; try discriminate. apply ahist_next; exact Hh.
  Qed.
End Refine.

(* ---- the two end-of-band indices: last_idx picks the last index of the band that satisfies f *)
Definition li (f : Z -> bool) (ss : Z) (n : nat) : Z :=
  fold_left (fun acc k => if f k then k else acc) (map (fun i => ss + i) (map Z.of_nat (seq 0 n))) (ss - 1).

Lemma li_S : forall f ss n, li f ss (S n) = if f (ss + Z.of_nat n) then ss + Z.of_nat n else li f ss n.
Proof. intros f ss n. unfold li. rewrite seq_S, !map_app, fold_left_app. reflexivity. Qed.

Lemma li_spec : forall f ss n, ss - 1 <= li f ss n < ss + Z.of_nat n /\
  (forall j, li f ss n < j < ss + Z.of_nat n -> f j = false) /\ (ss <= li f ss n -> f (li f ss n) = true).
Proof.
  intros f ss n. induction n as [|n IH].
  - unfold li. cbn. repeat split; intros; lia.
  - rewrite li_S, Nat2Z.inj_succ. destruct IH as (B & Z0 & T). destruct (f (ss + Z.of_nat n)) eqn:E.
    + split; [lia|]. split; [intros; lia|]. intros _. exact E.
    + split; [lia|]. split; [|exact T]. intros j Hj. destruct (Z.eq_dec j (ss + Z.of_nat n)) as [->|]; [exact E|]. apply Z0. lia.
Qed.

Lemma li_ext : forall f g ss n, (forall j, ss <= j < ss + Z.of_nat n -> f j = g j) -> li f ss n = li g ss n.
Proof.
  intros f g ss n. induction n as [|n IH]; intros H; [reflexivity|]. rewrite !li_S. rewrite Nat2Z.inj_succ in H.
  rewrite (H (ss + Z.of_nat n)) by lia. rewrite IH by (intros; apply H; lia). reflexivity.
Qed.

Lemma li_mono : forall f g ss n, (forall j, f j = true -> g j = true) -> li f ss n <= li g ss n.
Proof.
  intros f g ss n H. induction n as [|n IH]; [reflexivity|]. rewrite !li_S.
  pose proof (li_spec g ss n) as (B & _). pose proof (li_spec f ss n) as (B' & _).
  destruct (f (ss + Z.of_nat n)) eqn:E; [rewrite (H _ E); lia|]. destruct (g (ss + Z.of_nat n)); lia.
Qed.

Lemma last_idx_li : forall f ss se, last_idx f ss se = li f ss (Z.to_nat (se - ss + 1)).
Proof. reflexivity. Qed.

(* ---- the values: point transform by a (sign-magnitude truncation, G.1.2.1) *)
Definition tr (a x : Z) : Z := if x <? 0 then - (Z.abs x / 2 ^ a * 2 ^ a) else Z.abs x / 2 ^ a * 2 ^ a.

Lemma half_mag : forall al x, 0 <= al -> Z.abs x / 2 ^ (al + 1) = Z.abs x / 2 ^ al / 2.
Proof. intros al x H. rewrite Z.pow_add_r by lia. change (2 ^ 1) with 2. assert (0 < 2 ^ al) by (apply Z.pow_pos_nonneg; lia). rewrite Z.div_div by lia. reflexivity. Qed.

Lemma tr_zero : forall a x, 0 <= a -> (tr a x = 0 <-> Z.abs x / 2 ^ a = 0).
Proof.
  intros a x H. unfold tr. assert (0 < 2 ^ a) by (apply Z.pow_pos_nonneg; lia).
  assert (0 <= Z.abs x / 2 ^ a) by (apply Z.div_pos; lia). destruct (x <? 0); nia.
Qed.

Section Values.
  Variables (w r c al se ke : Z) (coef : Z -> Z).
  Hypothesis Hb : 0 <= r * w + c.
  Hypothesis Hal : 0 <= al.

  Lemma refine_value : forall x, let M := Z.abs x / 2 ^ al in let u := tr (al + 1) x in
    tr al x = if M =? 0 then u
              else if M / 2 =? 0 then (if x <? 0 then - 2 ^ al else 2 ^ al)
              else if Z.odd M then (if u <? 0 then u - 2 ^ al else u + 2 ^ al) else u.
  Proof.
    intros x M u. subst u. unfold tr. rewrite (half_mag al x Hal). fold M. rewrite Z.pow_add_r by lia. change (2 ^ 1) with 2. rewrite (Z.mul_comm (2 ^ al) 2).
    assert (P : 0 < 2 ^ al) by (apply Z.pow_pos_nonneg; lia). set (p := 2 ^ al) in *.
    assert (M0 : 0 <= M) by (apply Z.div_pos; lia).
    pose proof (Z.div_mod M 2 ltac:(lia)) as DM. pose proof (Zmod_odd M) as OM.
    pose proof (Z.mod_pos_bound M 2 ltac:(lia)) as MB. set (h := M / 2) in *.
    destruct (M =? 0) eqn:E0.
    - apply Z.eqb_eq in E0. assert (h = 0) by lia. rewrite E0, H. destruct (x <? 0); reflexivity.
    - apply Z.eqb_neq in E0. destruct (h =? 0) eqn:E1.
      + apply Z.eqb_eq in E1. assert (M = 1) by lia. rewrite H. destruct (x <? 0); lia.
      + apply Z.eqb_neq in E1. assert (0 < h) by lia. assert (0 < h * (2 * p)) by nia.
        destruct (x <? 0).
        * destruct (- (h * (2 * p)) <? 0) eqn:E2; [|apply Z.ltb_ge in E2; lia].
          destruct (Z.odd M); [assert (M = 2 * h + 1) by lia|assert (M = 2 * h) by lia]; nia.
        * destruct (h * (2 * p) <? 0) eqn:E2; [apply Z.ltb_lt in E2; lia|].
          destruct (Z.odd M); [assert (M = 2 * h + 1) by lia|assert (M = 2 * h) by lia]; nia.
  Qed.

  (* arrays that hold the approximation at Ah = Al + 1 hold the approximation at Al afterwards *)
  Theorem wa_ref_values : forall k0 n m k, 0 <= k0 <= k -> ke <= se ->
    (forall j, ke < j <= se -> mag al coef j = 0) ->
    se - k + 1 <= Z.of_nat n ->
    (forall j, k <= j <= se -> pget m w r c j = tr (al + 1) (coef j)) ->
    (forall j, k0 <= j < k -> pget m w r c j = tr al (coef j)) ->
    forall j, k0 <= j <= se -> pget (wa_ref w r c al ke coef n m k) w r c j = tr al (coef j).
  Proof.
    intros k0. induction n as [|n IH]; intros m k Hk Hke Hz Hf Hhi Hlo j Hj.
    - cbn in *. apply Hlo. lia.
    - rewrite Nat2Z.inj_succ in Hf. cbn [wa_ref].
      assert (Fin : k > ke -> pget m w r c j = tr al (coef j)).
      { intros G. destruct (Z_lt_le_dec j k) as [L|L]; [apply Hlo; lia|]. rewrite (Hhi j) by lia.
        pose proof (Hz j ltac:(lia)) as Z0. unfold mag in Z0.
        assert (T0 : tr al (coef j) = 0) by (apply tr_zero; assumption). rewrite T0. apply tr_zero; [lia|].
        rewrite half_mag by lia. rewrite Z0. reflexivity. }
      destruct (k >? ke) eqn:Eke; [apply Fin; apply Z.gtb_lt in Eke; lia|].
      rewrite Z.gtb_ltb in Eke. apply Z.ltb_ge in Eke.
      pose proof (refine_value (coef k)) as RV. cbv zeta in RV. fold (mag al coef k) in RV. rewrite <- (Hhi k) in RV by lia.
      destruct (mag al coef k =? 0).
      + apply IH; try assumption; try lia. intros i Hi; apply Hhi; lia.
        intros i Hi. destruct (Z.eq_dec i k) as [->|]; [congruence|apply Hlo; lia].
      + destruct (mag al coef k / 2 =? 0).
        * apply IH; try assumption; try lia.
          -- intros i Hi. rewrite pget_pset by lia. destruct (i =? k) eqn:E; [apply Z.eqb_eq in E; lia|apply Hhi; lia].
          -- intros i Hi. rewrite pget_pset by lia. destruct (i =? k) eqn:E; [apply Z.eqb_eq in E; subst i; congruence|].
             apply Z.eqb_neq in E. apply Hlo; lia.
        * destruct (Z.odd (mag al coef k)).
          -- apply IH; try assumption; try lia.
             ++ intros i Hi. rewrite pget_pset by lia. destruct (i =? k) eqn:E; [apply Z.eqb_eq in E; lia|apply Hhi; lia].
             ++ intros i Hi. rewrite pget_pset by lia. destruct (i =? k) eqn:E; [apply Z.eqb_eq in E; subst i; cbv zeta; congruence|].
                apply Z.eqb_neq in E. apply Hlo; lia.
          -- apply IH; try assumption; try lia. intros i Hi; apply Hhi; lia.
             intros i Hi. destruct (Z.eq_dec i k) as [->|]; [congruence|apply Hlo; lia].
  Qed.
End Values.

(* ---- one block of an AC refinement scan, with EOB and EOBx as the model computes them
   (encoder: from the coefficients; decoder: from the arrays it holds) *)
Theorem ac_refine_block : forall tb w r c al ss se coef m rest q,
  0 <= r * w + c -> 0 <= al -> 1 <= ss -> ss <= se -> se <= 63 ->
  (forall j, ss <= j <= se -> pget m w r c j = tr (al + 1) (coef j)) ->
  Sim (enc_ac_refine 130 tb coef al se
         (last_idx (fun k => negb (Z.abs (coef k) / 2 ^ al =? 0)) ss se)
         (last_idx (fun k => negb (Z.abs (coef k) / 2 ^ (al + 1) =? 0)) ss se) ss false ++ rest) q ->
  exists m' q',
    dec_ac_refine 130 tb m w r c al se (last_idx (fun k => negb (pget m w r c k =? 0)) ss se) ss false q = Some (m', q') /\
    Sim rest q' /\ forall j, ss <= j <= se -> pget m' w r c j = tr al (coef j).
Proof.
  intros tb w r c al ss se coef m rest q Hb Hal Hss Hse H63 Hm HS.
  rewrite !last_idx_li in *. set (n := Z.to_nat (se - ss + 1)) in *.
  assert (Hn : ss + Z.of_nat n = se + 1) by (subst n; lia).
  set (fe := fun k => negb (Z.abs (coef k) / 2 ^ al =? 0)) in *.
  set (fx := fun k => negb (Z.abs (coef k) / 2 ^ (al + 1) =? 0)) in *.
  assert (Ex : li (fun k => negb (pget m w r c k =? 0)) ss n = li fx ss n).
  { apply li_ext. intros j Hj. subst fx. cbv beta. f_equal. rewrite (Hm j) by lia.
    destruct (Z.abs (coef j) / 2 ^ (al + 1) =? 0) eqn:E.
    - apply Z.eqb_eq in E. apply Z.eqb_eq. apply tr_zero; [lia|exact E].
    - apply Z.eqb_neq in E. apply Z.eqb_neq. intros T. apply E. apply tr_zero in T; [exact T|lia]. }
  rewrite Ex.
  assert (Hle : li fx ss n <= li fe ss n).
  { apply li_mono. intros j. subst fx fe. cbv beta. rewrite half_mag by lia.
    destruct (Z.abs (coef j) / 2 ^ al =? 0) eqn:E; [|reflexivity]. apply Z.eqb_eq in E. rewrite E. cbn. intros; discriminate. }
  destruct (li_spec fe ss n) as (B & Zs & T).
  assert (Hz : forall j, li fe ss n < j <= se -> mag al coef j = 0).
  { intros j Hj. pose proof (Zs j ltac:(lia)) as F. subst fe. cbv beta in F. apply negb_false_iff in F. apply Z.eqb_eq in F. exact F. }
  assert (Hl : ss <= li fe ss n -> mag al coef (li fe ss n) <> 0).
  { intros G. specialize (T G). subst fe. cbv beta in T. apply negb_true_iff in T. apply Z.eqb_neq in T. exact T. }
  assert (Hh : ahist w r c al se coef m ss).
  { intros j Hj. rewrite (Hm j Hj). unfold mag. rewrite <- half_mag by lia. apply tr_zero. lia. }
  assert (Hi : false = true -> ss <= li fe ss n) by discriminate.
  destruct (dec_enc_ac_refine tb w r c al se (li fe ss n) (li fx ss n) coef Hb 130 m ss false rest q
              ltac:(lia) Hle ltac:(lia) Hz Hl Hi ltac:(lia) ltac:(lia) Hh HS) as (q' & D & S').
  - exists (wa_ref w r c al (li fe ss n) coef 130 m ss), q'. split; [exact D|]. split; [exact S'|].
    apply (wa_ref_values w r c al se (li fe ss n) coef Hb Hal ss 130%nat m ss); try assumption; try lia.
Qed.

(* ... and over the bytes of the QM coder: the decoder initialised on the coded decisions *)
Corollary ac_refine_block_bytes : forall tb w r c al ss se coef m rest,
  0 <= r * w + c -> 0 <= al -> 1 <= ss -> ss <= se -> se <= 63 ->
  (forall j, ss <= j <= se -> pget m w r c j = tr (al + 1) (coef j)) ->
  exists m' q',
    dec_ac_refine 130 tb m w r c al se (last_idx (fun k => negb (pget m w r c k =? 0)) ss se) ss false
      (qm_init_dec (qm_encode_all (enc_ac_refine 130 tb coef al se
         (last_idx (fun k => negb (Z.abs (coef k) / 2 ^ al =? 0)) ss se)
         (last_idx (fun k => negb (Z.abs (coef k) / 2 ^ (al + 1) =? 0)) ss se) ss false ++ rest))) = Some (m', q') /\
    Sim rest q' /\ forall j, ss <= j <= se -> pget m' w r c j = tr al (coef j).
Proof.
  intros. apply ac_refine_block with (coef := coef); try assumption. unfold Sim. apply qm_roundtrip.
Qed.
