(* C06 proofs, part 1: coefficients, in-block write lists, the dihedral group
   acting on blocks (model/Transform.v against model/TransformSpec.v). *)
From Coq Require Import List ZArith Bool Lia PeanoNat.
From LJT Require Import model.Transform model.TransformSpec.
Import ListNotations.
Local Open Scope Z_scope.

(* ------------------------------------------------------------ coefficients *)
Definition int16 (x : Z) : Prop := -32768 <= x <= 32767.
Definition wf_blk (b : blk) : Prop := length b = 64%nat /\ Forall int16 b.

Lemma wrap16s_range x : int16 (wrap16s x).
Proof. unfold int16, wrap16s. pose proof (Z.mod_pos_bound (x + 32768) 65536). lia. Qed.

Lemma wrap16s_id x : int16 x -> wrap16s x = x.
Proof. unfold int16, wrap16s. intros. rewrite Z.mod_small; lia. Qed.

Lemma neg16_range x : int16 (neg16 x).
Proof. apply wrap16s_range. Qed.

Lemma neg16_involutive x : int16 x -> neg16 (neg16 x) = x.
Proof.
  unfold neg16, int16. intros H.
  destruct (Z.eq_dec x (-32768)) as [->|Hne]; [reflexivity|].
  rewrite (wrap16s_id (- x)) by (unfold int16; lia).
  rewrite Z.opp_involutive. apply wrap16s_id. exact H.
Qed.

Lemma neg16_plain x : -32767 <= x <= 32767 -> neg16 x = - x.
Proof. intros. unfold neg16. apply wrap16s_id. unfold int16. lia. Qed.

Lemma neg16_min : neg16 (-32768) = -32768.
Proof. reflexivity. Qed.

Lemma nth_int16 b k : Forall int16 b -> int16 (nth k b 0).
Proof.
  intros H. destruct (Nat.lt_ge_cases k (length b)) as [Hk|Hk].
  - rewrite Forall_forall in H. apply H. apply nth_In. exact Hk.
  - rewrite nth_overflow by exact Hk. unfold int16. lia.
Qed.

(* ------------------------------------------------------------------- upd *)
Lemma length_upd {A} (l : list A) i v : length (upd l i v) = length l.
Proof. revert i. induction l as [|a l IH]; intros [|i]; cbn; auto. Qed.

Lemma nth_upd {A} (l : list A) i v k d :
  nth k (upd l i v) d = if (Nat.eqb k i && Nat.ltb i (length l))%bool then v else nth k l d.
Proof.
  revert i k. induction l as [|a l IH]; intros i k.
  - cbn. rewrite andb_false_r. reflexivity.
  - destruct i as [|i]; destruct k as [|k]; cbn; try reflexivity.
    rewrite IH. reflexivity.
Qed.

Lemma nth_map_seq {A} (f : nat -> A) s n k d : (k < n)%nat -> nth k (map f (seq s n)) d = f (s + k)%nat.
Proof.
  intros H. rewrite (nth_indep _ d (f 0%nat)) by (rewrite map_length, seq_length; exact H).
  rewrite map_nth. rewrite seq_nth by exact H. reflexivity.
Qed.

Lemma map_nth_seq_id {A} (l : list A) d : map (fun k => nth k l d) (seq 0 (length l)) = l.
Proof.
  induction l as [|a l IH]; [reflexivity|].
  cbn [length]. rewrite <- cons_seq, <- seq_shift, map_cons, map_map. cbn [nth]. f_equal. exact IH.
Qed.

(* ------------------------------------------------------- write-list runs *)
Definition last_write (ws : list wr) (k : nat) : option wr := find (fun w => Nat.eqb (w_dst w) k) (rev ws).

Lemma fold_writes_nth src ws d0 k :
  length d0 = 64%nat -> Forall (fun w => (w_dst w < 64)%nat) ws ->
  nth k (fold_left (fun d w => upd d (w_dst w) (wval src w)) ws d0) 0 =
  match last_write ws k with Some w => wval src w | None => nth k d0 0 end
  /\ length (fold_left (fun d w => upd d (w_dst w) (wval src w)) ws d0) = 64%nat.
Proof.
  intros Hl. revert k. induction ws as [|w ws IH] using rev_ind; intros k Hf.
  - cbn. auto.
  - apply Forall_app in Hf. destruct Hf as [Hf Hw]. inversion Hw as [|? ? Hw1 _]; subst.
    rewrite fold_left_app. cbn [fold_left].
    unfold last_write. rewrite rev_app_distr. cbn [rev app find].
    destruct (IH k Hf) as [IHn IHl].
    split; [|rewrite length_upd; exact IHl].
    rewrite nth_upd, IHl.
    assert (Hlt : Nat.ltb (w_dst w) 64 = true) by (apply Nat.ltb_lt; exact Hw1).
    rewrite Hlt, andb_true_r. rewrite (Nat.eqb_sym k).
    destruct (Nat.eqb (w_dst w) k); [reflexivity|]. exact IHn.
Qed.

Definition ws_ok (ws : list wr) (g : d4) : bool :=
  forallb (fun w => Nat.ltb (w_dst w) 64) ws &&
  forallb (fun k => match last_write ws k with
                    | Some w => Nat.eqb (w_src w) (d4_perm g k) && Bool.eqb (w_neg w) (d4_sgn g k)
                    | None => false end) (seq 0 64).

Lemma act_length g b : length (act g b) = 64%nat.
Proof. unfold act. rewrite map_length, seq_length. reflexivity. Qed.

Lemma act_nth g b k : (k < 64)%nat ->
  nth k (act g b) 0 = (let v := nth (d4_perm g k) b 0 in if d4_sgn g k then neg16 v else v).
Proof. intros H. unfold act. rewrite nth_map_seq by exact H. reflexivity. Qed.

Lemma ws_ok_sound ws g : ws_ok ws g = true -> forall b, exec_writes ws b = act g b.
Proof.
  unfold ws_ok. intros H b. apply andb_true_iff in H. destruct H as [H1 H2].
  assert (Hf : Forall (fun w => (w_dst w < 64)%nat) ws).
  { rewrite Forall_forall. rewrite forallb_forall in H1. intros w Hw. apply Nat.ltb_lt. auto. }
  unfold exec_writes.
  apply (nth_ext _ _ 0 0).
  - rewrite act_length. apply (fold_writes_nth b ws (repeat 0 64%nat) 0%nat); [apply repeat_length|exact Hf].
  - intros k Hk.
    destruct (fold_writes_nth b ws (repeat 0 64%nat) k (repeat_length _ _) Hf) as [Hn Hl].
    rewrite Hl in Hk. rewrite Hn, act_nth by exact Hk.
    rewrite forallb_forall in H2. specialize (H2 k). rewrite in_seq in H2. specialize (H2 ltac:(lia)).
    destruct (last_write ws k) as [w|]; [|discriminate].
    apply andb_true_iff in H2. destruct H2 as [Hs Hg].
    apply Nat.eqb_eq in Hs. apply eqb_prop in Hg.
    unfold wval. rewrite Hs, Hg. reflexivity.
Qed.

(* the seven in-block loop bodies of transupp.c are the group elements *)
Lemma blk_fliph_spec b : blk_fliph b = act D_fh b.
Proof. apply ws_ok_sound. vm_compute. reflexivity. Qed.
Lemma blk_flipv_spec b : blk_flipv b = act D_fv b.
Proof. apply ws_ok_sound. vm_compute. reflexivity. Qed.
Lemma blk_transpose_spec b : blk_transpose b = act D_tr b.
Proof. apply ws_ok_sound. vm_compute. reflexivity. Qed.
Lemma blk_rot90_spec b : blk_rot90 b = act D_r90 b.
Proof. apply ws_ok_sound. vm_compute. reflexivity. Qed.
Lemma blk_rot270_spec b : blk_rot270 b = act D_r270 b.
Proof. apply ws_ok_sound. vm_compute. reflexivity. Qed.
Lemma blk_rot180_spec b : blk_rot180 b = act D_r180 b.
Proof. apply ws_ok_sound. vm_compute. reflexivity. Qed.
Lemma blk_transverse_spec b : blk_transverse b = act D_tv b.
Proof. apply ws_ok_sound. vm_compute. reflexivity. Qed.

(* ------------------------------------------------------------ group laws *)
Lemma d4_perm_lt g k : (k < 64)%nat -> (d4_perm g k < 64)%nat.
Proof.
  intros H. destruct g; cbn [d4_perm]; try exact H; unfold tr_idx;
    (pose proof (Nat.mod_upper_bound k 8 ltac:(lia));
     assert (k / 8 < 8)%nat by (apply Nat.div_lt_upper_bound; lia); lia).
Qed.

Lemma act_wf g b : Forall int16 b -> wf_blk (act g b).
Proof.
  intros H. split; [apply act_length|].
  unfold act. rewrite Forall_forall. intros v Hv. apply in_map_iff in Hv.
  destruct Hv as [k [<- _]]. cbv zeta. destruct (d4_sgn g k); [apply neg16_range|apply nth_int16; exact H].
Qed.

Lemma same_action_sound e g h : same_action e g h = true ->
  forall b, Forall int16 b -> act g (act h b) = act e b.
Proof.
  unfold same_action. intros H b Hb. rewrite forallb_forall in H.
  unfold act at 1 3. apply map_ext_in. intros k Hk. pose proof Hk as Hk'. apply in_seq in Hk'.
  specialize (H k Hk). apply andb_true_iff in H. destruct H as [Hp Hs].
  apply Nat.eqb_eq in Hp. apply eqb_prop in Hs. cbv zeta.
  rewrite act_nth by (apply d4_perm_lt; lia). cbv zeta.
  rewrite Hp, Hs.
  pose proof (nth_int16 b (d4_perm h (d4_perm g k)) Hb) as Hr.
  destruct (d4_sgn g k), (d4_sgn h (d4_perm g k)); cbn [xorb]; try reflexivity.
  apply neg16_involutive. exact Hr.
Qed.

Lemma d4_mul_ok g h : same_action (d4_mul g h) g h = true.
Proof. destruct g, h; vm_compute; reflexivity. Qed.

Theorem act_act g h b : Forall int16 b -> act g (act h b) = act (d4_mul g h) b.
Proof. intros. apply same_action_sound; [apply d4_mul_ok|assumption]. Qed.

Lemma act_id b : length b = 64%nat -> act D_id b = b.
Proof.
  intros H. unfold act. cbn [d4_perm d4_sgn]. cbv zeta.
  change 64%nat with (length b) at 1 || rewrite <- H. apply map_nth_seq_id.
Qed.

Lemma d4_apply_act g b : length b = 64%nat -> d4_apply g b = act g b.
Proof. intros H. destruct g; try reflexivity. cbn. symmetry. apply act_id. exact H. Qed.

Lemma d4_apply_wf g b : wf_blk b -> wf_blk (d4_apply g b).
Proof. intros [H1 H2]. rewrite d4_apply_act by exact H1. apply act_wf. exact H2. Qed.

Theorem d4_apply_apply g h b : wf_blk b -> d4_apply g (d4_apply h b) = d4_apply (d4_mul g h) b.
Proof.
  intros [H1 H2]. rewrite (d4_apply_act h b H1).
  rewrite (d4_apply_act g) by apply act_length.
  rewrite (d4_apply_act _ b H1). apply act_act. exact H2.
Qed.

(* the group table: identity, inverses, associativity, generators *)
Lemma d4_mul_table :
  map (fun g => map (d4_mul g) all_d4) all_d4 =
  [ [D_id;   D_fh;   D_fv;   D_r180; D_tr;   D_r90;  D_r270; D_tv];
    [D_fh;   D_id;   D_r180; D_fv;   D_r90;  D_tr;   D_tv;   D_r270];
    [D_fv;   D_r180; D_id;   D_fh;   D_r270; D_tv;   D_tr;   D_r90];
    [D_r180; D_fv;   D_fh;   D_id;   D_tv;   D_r270; D_r90;  D_tr];
    [D_tr;   D_r270; D_r90;  D_tv;   D_id;   D_fv;   D_fh;   D_r180];
    [D_r90;  D_tv;   D_tr;   D_r270; D_fh;   D_r180; D_id;   D_fv];
    [D_r270; D_tr;   D_tv;   D_r90;  D_fv;   D_id;   D_r180; D_fh];
    [D_tv;   D_r90;  D_r270; D_tr;   D_r180; D_fh;   D_fv;   D_id] ].
Proof. vm_compute. reflexivity. Qed.

Lemma d4_mul_assoc a b c : d4_mul a (d4_mul b c) = d4_mul (d4_mul a b) c.
Proof. destruct a, b, c; vm_compute; reflexivity. Qed.
Lemma d4_mul_id_l g : d4_mul D_id g = g.
Proof. destruct g; vm_compute; reflexivity. Qed.
Lemma d4_mul_id_r g : d4_mul g D_id = g.
Proof. destruct g; vm_compute; reflexivity. Qed.
Definition d4_inv (g : d4) : d4 := match g with D_r90 => D_r270 | D_r270 => D_r90 | _ => g end.
Lemma d4_mul_inv g : d4_mul g (d4_inv g) = D_id /\ d4_mul (d4_inv g) g = D_id.
Proof. destruct g; vm_compute; split; reflexivity. Qed.

Ltac d4_compute :=
  repeat match goal with
         | |- context [d4_mul ?a ?b] =>
             let m := eval vm_compute in (d4_mul a b) in change (d4_mul a b) with m
         end.

(* involutions, inverse rotations, and every element as a product of the three
   generators (mirror left-right, mirror top-bottom, transposition) *)
Theorem block_laws b : wf_blk b ->
  act D_fh (act D_fh b) = b /\ act D_fv (act D_fv b) = b /\ act D_tr (act D_tr b) = b /\
  act D_r180 (act D_r180 b) = b /\ act D_tv (act D_tv b) = b /\
  act D_r270 (act D_r90 b) = b /\ act D_r90 (act D_r270 b) = b /\
  act D_r90 b = act D_fh (act D_tr b) /\ act D_r270 b = act D_tr (act D_fh b) /\
  act D_r270 b = act D_fv (act D_tr b) /\ act D_r180 b = act D_fh (act D_fv b) /\
  act D_tv b = act D_tr (act D_r180 b) /\ act D_tv b = act D_fh (act D_tr (act D_fh b)).
Proof.
  intros [Hl Hf].
  repeat split;
    repeat (rewrite act_act by (first [exact Hf | apply act_wf; exact Hf]); d4_compute);
    first [apply act_id; exact Hl | reflexivity].
Qed.

(* the sign part holds for every coefficient value, -32768 included *)
Lemma act_fh_min : nth 1%nat (act D_fh (0 :: -32768 :: repeat 5 62)) 0 = -32768.
Proof. vm_compute. reflexivity. Qed.
