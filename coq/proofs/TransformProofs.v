(* C06 proofs over model/Transform.v *)
From Coq Require Import List ZArith Bool Lia.
From LJT Require Import model.Transform.
Import ListNotations.
Local Open Scope Z_scope.

Definition int16 (x : Z) : Prop := -32768 <= x <= 32767.

Lemma wrap16s_range x : int16 (wrap16s x).
Proof. unfold int16, wrap16s. pose proof (Z.mod_pos_bound (x + 32768) 65536). lia. Qed.

Lemma wrap16s_id x : int16 x -> wrap16s x = x.
Proof. unfold int16, wrap16s. intros. rewrite Z.mod_small; lia. Qed.

Lemma neg16_involutive x : int16 x -> neg16 (neg16 x) = x.
Proof.
  unfold neg16, int16. intros H.
  destruct (Z.eq_dec x (-32768)) as [->|Hne]; [reflexivity|].
  rewrite (wrap16s_id (- x)) by (unfold int16; lia).
  rewrite Z.opp_involutive. apply wrap16s_id. exact H.
Qed.
