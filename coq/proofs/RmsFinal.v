(* C07 -- the block bound with the COMPRESS side fully discharged from the model: for every valid block and
   table, the coefficients the model compressor produces, dequantised (D_k = Q_k q_k), reconstruct the
   block within sqrt(sum (q_k/2)^2) + e1(cf) + e2, for ANY reconstruction y that is within e2 of the exact
   inverse DCT of D.  e1 is a closed expression (proofs/DctE1.v); the only remaining hypothesis is e2. *)
From Coq Require Import List ZArith Lia Reals Lra Psatz.
From LJT Require Import gen.GenDctConst model.Quant model.Dct proofs.QuantCert proofs.QuantProofs proofs.DctProofs proofs.DctRange
  proofs.DctRound proofs.RmsBound proofs.DctOrth proofs.DctAcc proofs.DctE1.
Import ListNotations.
Local Open Scope R_scope.

Definition qnorm (qtbl : list Z) : R := sqrt (rsum 64 (fun k => (vecZ qtbl k / 2) * (vecZ qtbl k / 2))).

Lemma e1_bound_nonneg cf : cfg_ok cf -> 0 <= e1_bound cf.
Proof.
  intros Hok. unfold e1_bound, eta8, acc_delta, cmax.
  assert (0 <= IZR (centersample cf)) by (apply IZR_le; destruct Hok as [[H _]|[H _]]; unfold centersample; rewrite H; vm_compute; discriminate).
  assert (0 <= IZR (rbound cf)).
  { apply IZR_le. unfold rbound, sh1. destruct Hok as [[H0 _]|[H0 _]]; unfold fpass1; rewrite H0; vm_compute; discriminate. }
  nra.
Qed.

Theorem rms_bound_forward_proof : matrix_accuracy_fact -> forall cf qtbl samples,
  cfg_ok cf -> length qtbl = 64%nat -> length samples = 64%nat ->
  (forall q, In q qtbl -> (1 <= q <= 65535)%Z) ->
  Forall (fun s => (0 <= s <= maxsample cf)%Z) samples ->
  exists coefs, forward_block cf qtbl samples = Some coefs /\
    forall (y : nat -> R) (e2 : R), 0 <= e2 ->
      norm2 64 (fun i => y i - ap 64 (tr dctA2) (fun k => vecZ coefs k * vecZ qtbl k) i) <= e2 * e2 ->
      norm2 64 (fun i => y i - vecZ (convsamp cf samples) i)
        <= (qnorm qtbl + e1_bound cf + e2) * (qnorm qtbl + e1_bound cf + e2).
Proof.
  intros Hacc cf qtbl samples Hok Hlq Hls Hq HS.
  destruct (block_coef_error_proof cf qtbl samples Hok Hlq Hls Hq HS) as [coefs [Hfw HF2]].
  exists coefs. split; [exact Hfw|]. intros y e2 He2 Hy.
  set (data := convsamp cf samples) in *.
  assert (Hld : length data = 64%nat) by (unfold data, convsamp; rewrite map_length; exact Hls).
  assert (Hin : Forall (inb (centersample cf)) data) by (apply convsamp_in_range; assumption).
  assert (HlF : length (fdct_islow cf data) = 64%nat) by (apply fdct_length; exact Hld).
  pose proof (fdct_accuracy_proof Hacc cf data Hok Hld Hin) as He1.
  assert (Hsum0 : 0 <= rsum 64 (fun k => (vecZ qtbl k / 2) * (vecZ qtbl k / 2))) by (apply rsum_nonneg; intros; nra).
  apply (rms_bound_dct_proof (vecZ data) (fun k => vecZ (fdct_islow cf data) k / 8) (fun k => vecZ coefs k * vecZ qtbl k) y
           (fun k => vecZ qtbl k / 2) (e1_bound cf) e2 (qnorm qtbl)).
  - apply e1_bound_nonneg; exact Hok.
  - exact He2.
  - apply sqrt_pos.
  - exact He1.
  - intros k Hk.
    assert (Hlc : length (combine qtbl (fdct_islow cf data)) = 64%nat) by (rewrite combine_length, Hlq, HlF; reflexivity).
    pose proof (Forall2_nth _ _ _ (0%Z, 0%Z) 0%Z k HF2 ltac:(lia)) as Hk2. cbv beta in Hk2.
    rewrite combine_nth in Hk2 by (rewrite Hlq, HlF; reflexivity). cbn [fst snd] in Hk2.
    assert (Hqk : (1 <= nth k qtbl 0)%Z) by (apply Hq; apply nth_In; lia).
    unfold vecZ.
    set (c := nth k coefs 0%Z) in *. set (q := nth k qtbl 0%Z) in *. set (f := nth k (fdct_islow cf data) 0%Z) in *.
    clearbody c q f.
    assert (Hz : (- (8 * q) <= 2 * (c * (8 * q) - f) <= 8 * q)%Z) by lia.
    destruct Hz as [Hz1 Hz2]. apply IZR_le in Hz1, Hz2, Hqk.
    rewrite ?opp_IZR, ?mult_IZR, ?minus_IZR, ?mult_IZR in Hz1, Hz2. rewrite ?opp_IZR, ?mult_IZR in Hz1.
    apply Rabs_le. split; lra.
  - unfold qnorm. rewrite sqrt_sqrt by exact Hsum0. lra.
  - exact Hy.
Qed.
