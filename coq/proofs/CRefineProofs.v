(* C17: the correction-bit buffer of AC refinement scans is never overrun: every index written into
   bit_buffer is below its allocated size, for every sequence of blocks of at most 63 coefficients. *)
From Coq Require Import List ZArith Bool Lia ZifyBool.
From LJT Require Import model.Huff gen.GenParams model.CParams model.CRefine.
Import ListNotations.
Local Open Scope Z_scope.

Definition sinv (s : rstate) : Prop := 0 <= r_BE s /\ 0 <= r_EOBRUN s /\ (r_EOBRUN s = 0 -> r_BE s = 0).

(* inside a block: BE_current <= BE0 (BE at block start), base = BE_current, base + BR <= BE0 + #coefficients seen *)
Definition binv (be0 n : Z) (st : bstate) : Prop :=
  sinv (b_s st) /\ r_BE (b_s st) <= be0 /\ 0 <= b_BR st /\ b_base st + b_BR st <= be0 + n /\
  b_base st = r_BE (b_s st) /\ Forall (fun i => 0 <= i < be0 + n) (b_writes st).

Lemma emit_eobrun_inv s : sinv s -> sinv (emit_eobrun s) /\ r_BE (emit_eobrun s) = 0.
Proof.
  intros [A [B C]]. unfold emit_eobrun, sinv. destruct (r_EOBRUN s >? 0) eqn:E; cbn [r_BE r_EOBRUN].
  - repeat split; lia.
  - assert (r_EOBRUN s = 0) by lia. repeat split; auto.
Qed.

Lemma zrl_loop_inv be0 n : 0 <= be0 -> 0 <= n -> forall fuel st, binv be0 n st -> binv be0 n (zrl_loop fuel st).
Proof.
  intros Hb Hn. induction fuel as [|f IH]; intros st H; cbn [zrl_loop]; [exact H|].
  destruct (b_r st >? 15); [|exact H]. apply IH.
  destruct H as [A [B [C [D [E F]]]]]. destruct (emit_eobrun_inv (b_s st) A) as [X Y].
  unfold binv. cbn [b_s b_base b_BR b_r b_writes]. rewrite Y.
  split; [exact X|]. split; [lia|]. split; [lia|]. split; [lia|]. split; [reflexivity|exact F].
Qed.

Lemma coef_step_inv eob be0 n st kc : 0 <= be0 -> 0 <= n ->
  binv be0 n st -> binv be0 (n + 1) (coef_step eob st kc).
Proof.
  intros Hb Hn H. destruct kc as [k c]. unfold coef_step.
  assert (W : forall l, Forall (fun i => 0 <= i < be0 + n) l -> Forall (fun i => 0 <= i < be0 + (n + 1)) l)
    by (intros l Hl; eapply Forall_impl; [|exact Hl]; cbv beta; intros; lia).
  destruct c.
  - destruct H as [A [B [C [D [E F]]]]]. unfold binv. cbn [b_s b_base b_BR b_r b_writes].
    split; [exact A|]. split; [exact B|]. split; [exact C|]. split; [lia|]. split; [exact E|apply W; exact F].
  - assert (H1 : binv be0 n (if k <=? eob then zrl_loop 8 st else st)) by (destruct (k <=? eob); [apply zrl_loop_inv; assumption|exact H]).
    destruct H1 as [A [B [C [D [E F]]]]]. unfold binv. cbn [b_s b_base b_BR b_r b_writes].
    split; [exact A|]. split; [exact B|]. split; [lia|]. split; [lia|]. split; [exact E|].
    constructor; [destruct A as [A0 _]; lia|apply W; exact F].
  - assert (H1 : binv be0 n (if k <=? eob then zrl_loop 8 st else st)) by (destruct (k <=? eob); [apply zrl_loop_inv; assumption|exact H]).
    destruct H1 as [A [B [C [D [E F]]]]]. destruct (emit_eobrun_inv _ A) as [X Y].
    unfold binv. cbn [b_s b_base b_BR b_r b_writes]. rewrite Y.
    split; [exact X|]. split; [lia|]. split; [lia|]. split; [lia|]. split; [reflexivity|apply W; exact F].
Qed.

Lemma fold_coef_inv eob be0 : 0 <= be0 -> forall l n st, 0 <= n ->
  binv be0 n st -> binv be0 (n + Z.of_nat (length l)) (fold_left (coef_step eob) l st).
Proof.
  intros Hb. induction l as [|kc l IH]; intros n st Hn H; cbn [fold_left length].
  - replace (n + Z.of_nat 0) with n by lia. exact H.
  - replace (n + Z.of_nat (S (length l))) with ((n + 1) + Z.of_nat (length l)) by lia.
    apply IH; [lia|]. apply coef_step_inv; assumption.
Qed.

(* one block: writes stay below BE0 + Sl, and the flush test re-establishes BE <= threshold *)
Lemma refine_block_inv s blk s' w :
  sinv s -> r_BE s <= g_CORR_FLUSH_THRESHOLD -> refine_block s blk = (s', w) ->
  sinv s' /\ r_BE s' <= g_CORR_FLUSH_THRESHOLD /\ Forall (fun i => 0 <= i < r_BE s + Z.of_nat (length blk)) w.
Proof.
  intros Hs Hle H. unfold refine_block in H. cbv zeta in H.
  set (st0 := {| b_s := s; b_base := r_BE s; b_BR := 0; b_r := 0; b_writes := [] |}) in *.
  assert (I0 : binv (r_BE s) 0 st0).
  { unfold binv, st0. cbn [b_s b_base b_BR b_r b_writes]. split; [exact Hs|]. split; [lia|]. split; [lia|]. split; [lia|]. split; [reflexivity|constructor]. }
  pose proof (fold_coef_inv (last_new blk 0 0) (r_BE s) ltac:(destruct Hs; lia)
                (combine (map (fun i => Z.of_nat i + 1) (seq 0 (length blk))) blk) 0 st0 ltac:(lia) I0) as I1.
  rewrite combine_length, map_length, seq_length, Nat.min_id in I1. rewrite Z.add_0_l in I1.
  set (st := fold_left _ _ st0) in *.
  destruct I1 as [A [B [C [D [E F]]]]].
  destruct ((b_r st >? 0) || (b_BR st >? 0)).
  - set (s2 := {| r_EOBRUN := r_EOBRUN (b_s st) + 1; r_BE := r_BE (b_s st) + b_BR st |}) in *.
    assert (S2 : sinv s2) by (destruct A as [A0 [A1 A2]]; unfold sinv, s2; cbn; repeat split; lia).
    destruct ((r_EOBRUN s2 =? 32767) || (r_BE s2 >? g_CORR_FLUSH_THRESHOLD)) eqn:Ef; injection H as <- <-.
    + destruct (emit_eobrun_inv s2 S2) as [X Y]. split; [exact X|]. split; [rewrite Y; change g_CORR_FLUSH_THRESHOLD with 937; lia|exact F].
    + split; [exact S2|]. split; [lia|exact F].
  - injection H as <- <-. split; [exact A|]. split; [lia|exact F].
Qed.

(* every index written into bit_buffer during an AC refinement scan is inside the allocation, for EVERY sequence of
   blocks whose band has at most DCTSIZE2 - 1 coefficients (Ss >= 1): needs threshold + 63 <= buffer size *)
Theorem corr_buffer_safe_lemma : forall blocks s,
  sinv s -> r_BE s <= g_CORR_FLUSH_THRESHOLD ->
  Forall (fun b => Z.of_nat (length b) <= g_DCTSIZE2 - 1) blocks ->
  Forall (fun i => 0 <= i < g_CORR_BUFFER_SIZE) (refine_scan s blocks).
Proof.
  induction blocks as [|b r IH]; intros s Hs Hle Hb; cbn [refine_scan]; [constructor|].
  destruct (refine_block s b) as [s' w] eqn:E.
  apply Forall_cons_iff in Hb. destruct Hb as [Hb1 Hb2].
  destruct (refine_block_inv _ _ _ _ Hs Hle E) as [A [B C]].
  apply Forall_app. split.
  - eapply Forall_impl; [|exact C]. cbv beta. intros i Hi.
    change g_CORR_FLUSH_THRESHOLD with 937 in Hle. change g_DCTSIZE2 with 64 in Hb1. change g_CORR_BUFFER_SIZE with 1000. lia.
  - apply IH; assumption.
Qed.

Example corr_buffer_boundary :
  let full := repeat Ccorr 63 in
  fold_left Z.max (refine_scan {| r_EOBRUN := 0; r_BE := 0 |} (repeat full 14 ++ [repeat Ccorr 55 ++ repeat Czero 8; full])) 0 = 999.
Proof. vm_compute. reflexivity. Qed.
