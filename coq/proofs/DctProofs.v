(* C07 -- proofs about the DCT model (coq/model/Dct.v): the FIX_* constants are the
   rounded literals; the forward DCT of a constant block is (64(v-center),0,...,0);
   the inverse DCT of a DC-only block takes the zero-AC shortcut of both passes;
   range limiting is a projection; hence const_image_bound. *)
From Coq Require Import List ZArith Lia Bool ZifyBool.
From LJT Require Import gen.GenDctConst model.Quant model.Dct proofs.QuantCert proofs.QuantProofs.
Import ListNotations.
Local Open Scope Z_scope.
Ltac Zify.zify_post_hook ::= Z.div_mod_to_equations.

(* ---------------------------------------------------------------- FIX(x) = round(x * 2^CONST_BITS) *)
(* round-half-up of (num/den) * 2^bits *)
Definition fix_of (bits num den : Z) : Z := (2 * num * 2 ^ bits + den) / (2 * den).
Definition fix_entry_ok (bits : Z) (e : Z * (Z * Z) * (Z * Z)) : bool :=
  let '(n, (nn, nd), (cn, cd)) := e in
  (0 <? nd) && (0 <? cd) && (n =? fix_of bits cn cd) && (nn * cd =? cn * nd).

Lemma fix_constants_ok :
  forallb (fix_entry_ok fdct_const_bits) fdct_fix_table = true /\
  forallb (fix_entry_ok idct_const_bits) idct_fix_table = true /\
  fdct_fix_table = idct_fix_table /\
  map (fun e => fst (fst e)) fdct_fix_table =
    [FFIX_0_298631336; FFIX_0_390180644; FFIX_0_541196100; FFIX_0_765366865; FFIX_0_899976223; FFIX_1_175875602;
     FFIX_1_501321110; FFIX_1_847759065; FFIX_1_961570560; FFIX_2_053119869; FFIX_2_562915447; FFIX_3_072711026] /\
  map (fun e => fst (fst e)) idct_fix_table =
    [IFIX_0_298631336; IFIX_0_390180644; IFIX_0_541196100; IFIX_0_765366865; IFIX_0_899976223; IFIX_1_175875602;
     IFIX_1_501321110; IFIX_1_847759065; IFIX_1_961570560; IFIX_2_053119869; IFIX_2_562915447; IFIX_3_072711026] /\
  map (fun e => snd (fst e)) fdct_fix_table =
    [(298631336, 1000000000); (390180644, 1000000000); (541196100, 1000000000); (765366865, 1000000000);
     (899976223, 1000000000); (1175875602, 1000000000); (1501321110, 1000000000); (1847759065, 1000000000);
     (1961570560, 1000000000); (2053119869, 1000000000); (2562915447, 1000000000); (3072711026, 1000000000)] /\
  fdct_const_bits = 13 /\ idct_const_bits = 13 /\
  (fdct_pass1_bits_8, fdct_pass1_bits_12, idct_pass1_bits_8, idct_pass1_bits_12) = (2, 1, 2, 1).
Proof. vm_compute. repeat split; reflexivity. Qed.

(* ---------------------------------------------------------------- configurations *)
Ltac cfg_cases cf Hok :=
  destruct cf as [cb cdw cmw cs]; unfold cfg_ok in Hok; cbn [c_bits c_dw c_mw] in Hok;
  destruct Hok as [[-> [[->| ->] [->| ->]]]|[-> [[->| ->] ->]]].

Ltac sample_consts :=
  unfold maxsample, centersample, ipass1, fpass1, coef_max in *;
  cbn [c_bits c_dw c_mw Z.eqb Pos.eqb] in *;
  change maxjsample_8 with 255 in *; change centerjsample_8 with 128 in *;
  change maxjsample_12 with 4095 in *; change centerjsample_12 with 2048 in *;
  change idct_pass1_bits_8 with 2 in *; change idct_pass1_bits_12 with 1 in *;
  change fdct_pass1_bits_8 with 2 in *; change fdct_pass1_bits_12 with 1 in *.

Lemma DESCALE_eq x n : 1 <= n -> DESCALE x n = (x + 2 ^ (n - 1)) / 2 ^ n.
Proof.
  intros. unfold DESCALE. rewrite Z.shiftr_div_pow2 by lia. rewrite Z.shiftl_mul_pow2 by lia. f_equal. lia.
Qed.

(* ---------------------------------------------------------------- forward DCT of a constant block *)
Definition rowscale (cf : cfg) : Z := if c_bits cf =? 8 then 32 else 16.

(* closed powers of two -> numerals; then every wrapS whose argument is provably in range disappears *)
Ltac norm_pow :=
  repeat match goal with |- context [2 ^ ?k] =>
    let v := eval vm_compute in (2 ^ k) in change (2 ^ k) with v end.
Ltac wrapS_num :=
  norm_pow;
  repeat match goal with
  | |- context [wrapS ?w ?x] => rewrite (wrapS_small w x) by (norm_pow; lia)
  end.

Lemma fdct_row_const cf c : cfg_ok cf -> - centersample cf <= c <= centersample cf ->
  fdct_1d cf false [c; c; c; c; c; c; c; c] = [c * rowscale cf; 0; 0; 0; 0; 0; 0; 0].
Proof.
  intros Hok Hc.
  cfg_cases cf Hok; unfold centersample, rowscale in *; cbn [c_bits Z.eqb Pos.eqb] in *;
    change centerjsample_8 with 128 in *; change centerjsample_12 with 2048 in *;
    unfold fdct_1d; cbv zeta; unfold fpass1; cbn [c_bits c_dw Z.eqb Pos.eqb];
    change fdct_pass1_bits_8 with 2; change fdct_pass1_bits_12 with 1; change fdct_const_bits with 13;
    cbv iota;
    repeat match goal with |- context [DESCALE ?e ?n] =>
      replace e with 0 by ring; change (DESCALE 0 n) with 0 end;
    rewrite !Z.shiftl_mul_pow2 by lia;
    wrapS_num;
    repeat (f_equal; try lia).
Qed.

Lemma fdct_col_const cf c : cfg_ok cf -> - centersample cf <= c <= centersample cf ->
  fdct_1d cf true [c * rowscale cf; c * rowscale cf; c * rowscale cf; c * rowscale cf;
                   c * rowscale cf; c * rowscale cf; c * rowscale cf; c * rowscale cf] = [64 * c; 0; 0; 0; 0; 0; 0; 0].
Proof.
  intros Hok Hc.
  cfg_cases cf Hok; unfold centersample, rowscale in *; cbn [c_bits Z.eqb Pos.eqb] in *;
    change centerjsample_8 with 128 in *; change centerjsample_12 with 2048 in *;
    unfold fdct_1d; cbv zeta; unfold fpass1; cbn [c_bits c_dw Z.eqb Pos.eqb];
    change fdct_pass1_bits_8 with 2; change fdct_pass1_bits_12 with 1; change fdct_const_bits with 13;
    cbv iota;
    repeat match goal with |- context [DESCALE ?e ?n] =>
      first [ replace e with 0 by ring; change (DESCALE 0 n) with 0
            | rewrite (DESCALE_eq e n) by lia ] end;
    wrapS_num;
    repeat (f_equal; try lia).
Qed.

Lemma fdct_col_zero cf : cfg_ok cf ->
  fdct_1d cf true [0; 0; 0; 0; 0; 0; 0; 0] = [0; 0; 0; 0; 0; 0; 0; 0].
Proof.
  intros Hok. assert (H := fdct_col_const cf 0 Hok).
  change (0 * rowscale cf) with 0 in H. change (64 * 0) with 0 in H. apply H.
  cfg_cases cf Hok; unfold centersample; cbn [c_bits Z.eqb Pos.eqb];
    change centerjsample_8 with 128; change centerjsample_12 with 2048; lia.
Qed.

Theorem fdct_const_block : forall cf c, cfg_ok cf -> - centersample cf <= c <= centersample cf ->
  fdct_islow cf (repeat c 64) = 64 * c :: repeat 0 63.
Proof.
  intros cf c Hok Hc. unfold fdct_islow.
  replace (rows8 (repeat c 64)) with (repeat [c; c; c; c; c; c; c; c] 8) by reflexivity.
  cbn [repeat map]. rewrite (fdct_row_const cf c Hok Hc).
  cbv [transpose8 seq map nth].
  rewrite !(fdct_col_const cf c Hok Hc). rewrite !(fdct_col_zero cf Hok).
  reflexivity.
Qed.

(* ---------------------------------------------------------------- range limiting *)
Ltac destr_ifs :=
  repeat match goal with |- context [if ?b then _ else _] => destruct b eqn:? end.

Lemma range_limit_spec cf x : cfg_ok cf -> - 2 ^ 31 <= x < 2 ^ 31 ->
  let M := maxsample cf + 1 in
  0 <= range_limit cf x <= maxsample cf /\
  (- 2 * M <= x < 2 * M -> range_limit cf x = Z.max 0 (Z.min (maxsample cf) (x + centersample cf))).
Proof.
  intros Hok Hx. unfold range_limit, range_limit_entry.
  rewrite (wrapS_small 32 x) by (norm_pow; lia).
  cfg_cases cf Hok; unfold maxsample, centersample; cbn [c_bits Z.eqb Pos.eqb];
    change maxjsample_8 with 255; change centerjsample_8 with 128;
    change maxjsample_12 with 4095; change centerjsample_12 with 2048; cbn [Z.mul Z.add Pos.mul Pos.add Pos.succ];
    change 1023 with (Z.ones 10); change 16383 with (Z.ones 14);
    rewrite Z.land_ones by lia; norm_pow; cbv zeta; destr_ifs; lia.
Qed.

Theorem clamp_nonexpansive_proof : forall cf x v, cfg_ok cf -> 0 <= v <= maxsample cf -> - 2 ^ 31 <= x < 2 ^ 31 ->
  Z.abs (range_limit cf x - v) <= Z.abs (x + centersample cf - v).
Proof.
  intros cf x v Hok Hv Hx.
  destruct (range_limit_spec cf x Hok Hx) as [Hr Hc]. cbv zeta in Hc.
  assert (Hm : maxsample cf + 1 = 2 * centersample cf /\ 0 < centersample cf)
    by (cfg_cases cf Hok; sample_consts; lia).
  destruct (Z_lt_ge_dec x (- 2 * (maxsample cf + 1))); [lia|].
  destruct (Z_lt_ge_dec x (2 * (maxsample cf + 1))); [|lia].
  rewrite Hc by lia. lia.
Qed.

(* ---------------------------------------------------------------- inverse DCT of a DC-only block *)
Lemma idct_col_dc cf c0 q0 q1 q2 q3 q4 q5 q6 q7 :
  idct_col cf [c0; 0; 0; 0; 0; 0; 0; 0] [q0; q1; q2; q3; q4; q5; q6; q7] =
  let d := wrapS 32 (Z.shiftl (DEQUANTIZE cf c0 q0) (ipass1 cf)) in [d; d; d; d; d; d; d; d].
Proof. reflexivity. Qed.

Lemma idct_col_zero cf q0 q1 q2 q3 q4 q5 q6 q7 : cfg_ok cf ->
  idct_col cf [0; 0; 0; 0; 0; 0; 0; 0] [q0; q1; q2; q3; q4; q5; q6; q7] = [0; 0; 0; 0; 0; 0; 0; 0].
Proof.
  intros Hok. rewrite idct_col_dc. cbv zeta. unfold DEQUANTIZE.
  assert (E : wrapS (c_mw cf) 0 = 0) by (cfg_cases cf Hok; reflexivity).
  rewrite E. rewrite Z.mul_0_l. rewrite Z.shiftl_0_l. reflexivity.
Qed.

Lemma idct_row_dc cf w0 :
  idct_row cf [w0; 0; 0; 0; 0; 0; 0; 0] =
  let d := range_limit cf (DESCALE w0 (ipass1 cf + 3)) in [d; d; d; d; d; d; d; d].
Proof. reflexivity. Qed.

Definition dc_sample (cf : cfg) (Q m0 : Z) : Z :=
  range_limit cf (DESCALE (wrapS 32 (Z.shiftl (DEQUANTIZE cf Q m0) (ipass1 cf))) (ipass1 cf + 3)).

Theorem idct_dc_only : forall cf Q mult, cfg_ok cf -> length mult = 64%nat ->
  idct_islow cf (Q :: repeat 0 63) mult = repeat (dc_sample cf Q (nth 0 mult 0)) 64.
Proof.
  intros cf Q mult Hok Hlen.
  do 64 (destruct mult as [|? mult]; [discriminate Hlen|]). destruct mult; [|discriminate Hlen].
  unfold idct_islow, dc_sample.
  cbv [rows8 transpose8 seq map nth firstn skipn repeat Nat.mul Nat.add map2].
  rewrite !(idct_col_zero cf) by exact Hok. rewrite idct_col_dc. cbv zeta.
  rewrite !idct_row_dc. reflexivity.
Qed.

(* ---------------------------------------------------------------- the DC value through quantiser and inverse DCT *)
Lemma dc_roundtrip_bound cf v q : cfg_ok cf -> 0 <= v <= maxsample cf -> 1 <= q <= 32767 ->
  Z.abs (dc_sample cf (rdiv (64 * (v - centersample cf)) (8 * q)) (wrapS (c_mw cf) q) - v) <= (q + 15) / 16 + 1.
Proof.
  intros Hok Hv Hq. unfold dc_sample, DEQUANTIZE.
  set (c := v - centersample cf).
  set (Q := rdiv (64 * c) (8 * q)).
  assert (HQ : 2 * Z.abs (Q * (8 * q) - 64 * c) <= 8 * q) by (apply rdiv_error; lia).
  assert (Hcr : - centersample cf <= c < centersample cf /\ maxsample cf + 1 = 2 * centersample cf /\
                (centersample cf = 128 \/ centersample cf = 2048))
    by (unfold c; cfg_cases cf Hok; sample_consts; lia).
  set (t := Q * q).
  assert (Ht : 2 * Z.abs (t - 8 * c) <= q) by (unfold t; lia).
  assert (HQt : Z.abs Q <= Z.abs t).
  { unfold t. rewrite Z.abs_mul. rewrite <- (Z.mul_1_r (Z.abs Q)) at 1.
    apply Z.mul_le_mono_nonneg_l; lia. }
  assert (Hmw : wrapS (c_mw cf) Q = Q /\ wrapS (c_mw cf) q = q).
  { split; cfg_cases cf Hok; cbn [c_mw]; apply wrapS_small; norm_pow; lia. }
  destruct Hmw as [-> ->]. fold t.
  assert (HP : ipass1 cf = 2 \/ ipass1 cf = 1) by (cfg_cases cf Hok; sample_consts; auto).
  assert (Hx : DESCALE (wrapS 32 (Z.shiftl t (ipass1 cf))) (ipass1 cf + 3) = (t + 4) / 8).
  { destruct HP as [-> | ->]; rewrite Z.shiftl_mul_pow2 by lia; cbn [Z.add Pos.add];
      rewrite wrapS_small by (norm_pow; lia); rewrite DESCALE_eq by lia; norm_pow; lia. }
  rewrite Hx. set (x := (t + 4) / 8).
  assert (Hxr : - 2 ^ 31 <= x < 2 ^ 31) by (unfold x; norm_pow; lia).
  destruct (range_limit_spec cf x Hok Hxr) as [Hr Hcl]. cbv zeta in Hcl.
  destruct (Z_lt_ge_dec x (- 2 * (maxsample cf + 1))); [unfold x in *; lia|].
  destruct (Z_lt_ge_dec x (2 * (maxsample cf + 1))); [|unfold x in *; lia].
  rewrite Hcl by lia. unfold x, c in *. lia.
Qed.

(* ---------------------------------------------------------------- quantising (F, 0, ..., 0) *)
Definition div_ok (cf : cfg) (q : Z) (dv : divisor) : Prop :=
  forall x, - coef_max cf <= x <= coef_max cf -> quantize_one cf dv x = rdiv x (8 * q).

Lemma start_pass_divisors_ok cf qtbl : cfg_ok cf -> (forall q, In q qtbl -> 1 <= q <= 65535) ->
  exists divs, start_pass_divisors cf qtbl = Some divs /\ Forall2 (div_ok cf) qtbl divs.
Proof.
  intros Hok. unfold start_pass_divisors. induction qtbl as [|q t IH]; intros Hq.
  - exists []. split; [reflexivity|constructor].
  - destruct IH as [ds [Hds HF]]; [intros; apply Hq; right; assumption|].
    destruct (quantize_is_rdiv_proof cf q Hok (Hq q (or_introl eq_refl))) as [dv [Hdv Hx]].
    exists (dv :: ds). cbn [map all_some]. rewrite Hdv, Hds. split; [reflexivity|].
    constructor; assumption.
Qed.

Lemma coef_max_pos cf : 0 <= coef_max cf.
Proof. unfold coef_max. destruct (c_bits cf =? 8); lia. Qed.

Lemma quantize_zeros cf qs ds : Forall2 (div_ok cf) qs ds -> (forall q, In q qs -> 1 <= q) ->
  map2 (quantize_one cf) ds (repeat 0 (length qs)) = repeat 0 (length qs).
Proof.
  induction 1 as [|q d qs ds Hd HF IH]; intros Hq; [reflexivity|].
  cbn [length repeat map2]. rewrite IH by (intros; apply Hq; right; assumption).
  rewrite Hd by (pose proof (coef_max_pos cf); lia).
  unfold rdiv. reflexivity.
Qed.

Lemma map_repeat' {A B} (f : A -> B) x n : map f (repeat x n) = repeat (f x) n.
Proof. induction n; [reflexivity|]. cbn [repeat map]. rewrite IHn. reflexivity. Qed.

(* ---------------------------------------------------------------- const_image_bound *)
Theorem const_image_bound_proof : forall cf v qtbl,
  cfg_ok cf -> 0 <= v <= maxsample cf -> length qtbl = 64%nat ->
  (forall q, In q qtbl -> 1 <= q <= quantval_max) ->
  exists out, roundtrip_block cf qtbl (repeat v 64) = Some out /\ length out = 64%nat /\
    forall s, In s out -> Z.abs (s - v) <= (nth 0 qtbl 0 + 15) / 16 + 1.
Proof.
  intros cf v qtbl Hok Hv Hlen Hq. change quantval_max with 32767 in Hq.
  destruct (start_pass_divisors_ok cf qtbl Hok) as [divs [Hdivs HF]]; [intros q Hin; specialize (Hq q Hin); lia|].
  unfold roundtrip_block, forward_block. rewrite Hdivs.
  set (c := v - centersample cf).
  assert (Hcr : - centersample cf <= c <= centersample cf /\ - coef_max cf <= 64 * c <= coef_max cf)
    by (unfold c; cfg_cases cf Hok; sample_consts; lia).
  assert (Hcs : convsamp cf (repeat v 64) = repeat c 64).
  { unfold convsamp. rewrite map_repeat'. f_equal. fold c.
    cfg_cases cf Hok; sample_consts; apply wrapS_small; norm_pow; lia. }
  rewrite Hcs. rewrite (fdct_const_block cf c Hok (proj1 Hcr)).
  destruct qtbl as [|q0 qt]; [discriminate Hlen|]. inversion HF as [|? d0 ? dt Hd0 HFt]; subst.
  assert (Hqt : length qt = 63%nat) by (cbn in Hlen; lia).
  unfold quantize_block. cbn [map2]. rewrite <- Hqt.
  rewrite (quantize_zeros cf qt dt HFt) by (intros q Hin; specialize (Hq q (or_intror Hin)); lia).
  rewrite Hd0 by (exact (proj2 Hcr)). rewrite Hqt.
  unfold inverse_block.
  rewrite (idct_dc_only cf _ (dct_table cf (q0 :: qt)) Hok) by (unfold dct_table; rewrite map_length; exact Hlen).
  eexists. split; [reflexivity|]. split; [apply repeat_length|].
  intros s Hs. apply repeat_spec in Hs. subst s.
  unfold dct_table. cbn [map nth].
  apply dc_roundtrip_bound; [exact Hok|exact Hv|]. apply Hq. left; reflexivity.
Qed.

(* ---------------------------------------------------------------- regression facts for the divisor defect (F3) *)
(* what start_pass_fdctmgr handed to compute_reciprocal before CLAMP_DIVISOR existed *)
Definition unclamped_divisor (quantval : Z) : Z := wrapU 16 (Z.shiftl quantval 3).

Lemma unclamped_divisor_refuted_proof :
  (forall cf, compute_reciprocal cf (unclamped_divisor 8192) = None) /\
  (exists q x, 1 <= q <= 32767 /\ -32767 <= x <= 32767 /\
               unclamped_divisor q <> 0 /\ rdiv x (unclamped_divisor q) <> rdiv x (8 * q)) /\
  scaled_divisor 8192 = 65535 /\ scaled_divisor 8200 = 65535.
Proof.
  split; [intros cf; reflexivity|]. split; [|split; reflexivity].
  exists 8200, 1000. vm_compute. repeat split; discriminate.
Qed.

(* non-vacuity material *)
Definition cf12 : cfg := mkcfg 12 64 32 false.
Lemma cfg_ok_examples : cfg_ok cf16 /\ cfg_ok cf32 /\ cfg_ok cf12.
Proof. unfold cfg_ok; cbn; intuition. Qed.

Lemma roundtrip_examples :
  roundtrip_block cf16 (repeat 16 64) (repeat 200 64) = Some (repeat 200 64) /\
  roundtrip_block cf16 (40 :: repeat 1 63) (repeat 77 64) = Some (repeat 78 64) /\
  roundtrip_block cf12 (32767 :: repeat 255 63) (repeat 4095 64) = Some (repeat 2048 64) /\
  (exists rc, compute_reciprocal cf16 65535 = Some rc /\ r_ret rc = 1 /\
              quantize_recip_one cf16 rc 32767 = 0 /\ quantize_recip_one cf16 rc (-32767) = 0 /\
              quantize_simd_one rc 32767 = 0) /\
  (exists rc, compute_reciprocal cf16 24 = Some rc /\ r_ret rc = 1 /\
              quantize_recip_one cf16 rc 100 = 4 /\ quantize_recip_one cf16 rc (-108) = -5 /\
              quantize_simd_one rc (-108) = -5).
Proof.
  split; [vm_compute; reflexivity|]. split; [vm_compute; reflexivity|]. split; [vm_compute; reflexivity|].
  split; (eexists; split; [vm_compute; reflexivity|]; vm_compute; repeat split; reflexivity).
Qed.
