(* C07 -- proofs about the DCT model (coq/model/Dct.v): the FIX_* constants are the
   rounded literals; the forward DCT of a constant block is (64(v-center),0,...,0);
   the inverse DCT of a DC-only block takes the zero-AC shortcut of both passes;
   range limiting is a projection; hence const_image_bound. *)
From Coq Require Import List ZArith Lia Bool ZifyBool.
From LJT Require Import gen.GenDctConst model.Quant model.Dct proofs.QuantCert proofs.QuantProofs.
Import ListNotations.
Local Open Scope Z_scope.
Ltac Zify.zify_post_hook ::= Z.div_mod_to_equations.

(* ---------------------------------------------------------------- FIX(x) = round(x * 2^CONST_BITS) *)
(* round-half-up of (num/den) * 2^bits *)
Definition fix_of (bits num den : Z) : Z := (2 * num * 2 ^ bits + den) / (2 * den).
Definition fix_entry_ok (bits : Z) (e : Z * (Z * Z) * (Z * Z)) : bool :=
  let '(n, (nn, nd), (cn, cd)) := e in
  (0 <? nd) && (0 <? cd) && (n =? fix_of bits cn cd) && (nn * cd =? cn * nd).

Lemma fix_constants_ok :
  forallb (fix_entry_ok fdct_const_bits) fdct_fix_table = true /\
  forallb (fix_entry_ok idct_const_bits) idct_fix_table = true /\
  fdct_fix_table = idct_fix_table /\
  map (fun e => fst (fst e)) fdct_fix_table =
    [FFIX_0_298631336; FFIX_0_390180644; FFIX_0_541196100; FFIX_0_765366865; FFIX_0_899976223; FFIX_1_175875602;
     FFIX_1_501321110; FFIX_1_847759065; FFIX_1_961570560; FFIX_2_053119869; FFIX_2_562915447; FFIX_3_072711026] /\
  map (fun e => fst (fst e)) idct_fix_table =
    [IFIX_0_298631336; IFIX_0_390180644; IFIX_0_541196100; IFIX_0_765366865; IFIX_0_899976223; IFIX_1_175875602;
     IFIX_1_501321110; IFIX_1_847759065; IFIX_1_961570560; IFIX_2_053119869; IFIX_2_562915447; IFIX_3_072711026] /\
  map (fun e => snd (fst e)) fdct_fix_table =
    [(298631336, 1000000000); (390180644, 1000000000); (541196100, 1000000000); (765366865, 1000000000);
     (899976223, 1000000000); (1175875602, 1000000000); (1501321110, 1000000000); (1847759065, 1000000000);
     (1961570560, 1000000000); (2053119869, 1000000000); (2562915447, 1000000000); (3072711026, 1000000000)] /\
  fdct_const_bits = 13 /\ idct_const_bits = 13 /\
  (fdct_pass1_bits_8, fdct_pass1_bits_12, idct_pass1_bits_8, idct_pass1_bits_12) = (2, 1, 2, 1).
Proof. vm_compute. repeat split; reflexivity. Qed.

(* ---------------------------------------------------------------- configurations *)
Ltac cfg_cases cf Hok :=
  destruct cf as [cb cdw cmw cs]; unfold cfg_ok in Hok; cbn [c_bits c_dw c_mw] in Hok;
  destruct Hok as [[-> [[->| ->] [->| ->]]]|[-> [[->| ->] ->]]].

Lemma DESCALE_eq x n : 1 <= n -> DESCALE x n = (x + 2 ^ (n - 1)) / 2 ^ n.
Proof.
  intros. unfold DESCALE. rewrite Z.shiftr_div_pow2 by lia. rewrite Z.shiftl_mul_pow2 by lia. f_equal. lia.
Qed.

(* ---------------------------------------------------------------- forward DCT of a constant block *)
Definition rowscale (cf : cfg) : Z := if c_bits cf =? 8 then 32 else 16.

(* closed powers of two -> numerals; then every wrapS whose argument is provably in range disappears *)
Ltac norm_pow :=
  repeat match goal with |- context [2 ^ ?k] =>
    let v := eval vm_compute in (2 ^ k) in change (2 ^ k) with v end.
Ltac wrapS_num :=
  norm_pow;
  repeat match goal with
  | |- context [wrapS ?w ?x] => rewrite (wrapS_small w x) by (norm_pow; lia)
  end.

Lemma fdct_row_const cf c : cfg_ok cf -> - centersample cf <= c <= centersample cf ->
  fdct_1d cf false [c; c; c; c; c; c; c; c] = [c * rowscale cf; 0; 0; 0; 0; 0; 0; 0].
Proof.
  intros Hok Hc.
  cfg_cases cf Hok; unfold centersample, rowscale in *; cbn [c_bits Z.eqb Pos.eqb] in *;
    change centerjsample_8 with 128 in *; change centerjsample_12 with 2048 in *;
    unfold fdct_1d; cbv zeta; unfold fpass1; cbn [c_bits c_dw Z.eqb Pos.eqb];
    change fdct_pass1_bits_8 with 2; change fdct_pass1_bits_12 with 1; change fdct_const_bits with 13;
    cbv iota;
    repeat match goal with |- context [DESCALE ?e ?n] =>
      replace e with 0 by ring; change (DESCALE 0 n) with 0 end;
    rewrite !Z.shiftl_mul_pow2 by lia;
    wrapS_num;
    repeat (f_equal; try lia).
Qed.

Lemma fdct_col_const cf c : cfg_ok cf -> - centersample cf <= c <= centersample cf ->
  fdct_1d cf true [c * rowscale cf; c * rowscale cf; c * rowscale cf; c * rowscale cf;
                   c * rowscale cf; c * rowscale cf; c * rowscale cf; c * rowscale cf] = [64 * c; 0; 0; 0; 0; 0; 0; 0].
Proof.
  intros Hok Hc.
  cfg_cases cf Hok; unfold centersample, rowscale in *; cbn [c_bits Z.eqb Pos.eqb] in *;
    change centerjsample_8 with 128 in *; change centerjsample_12 with 2048 in *;
    unfold fdct_1d; cbv zeta; unfold fpass1; cbn [c_bits c_dw Z.eqb Pos.eqb];
    change fdct_pass1_bits_8 with 2; change fdct_pass1_bits_12 with 1; change fdct_const_bits with 13;
    cbv iota;
    repeat match goal with |- context [DESCALE ?e ?n] =>
      first [ replace e with 0 by ring; change (DESCALE 0 n) with 0
            | rewrite (DESCALE_eq e n) by lia ] end;
    wrapS_num;
    repeat (f_equal; try lia).
Qed.

Lemma fdct_col_zero cf : cfg_ok cf ->
  fdct_1d cf true [0; 0; 0; 0; 0; 0; 0; 0] = [0; 0; 0; 0; 0; 0; 0; 0].
Proof.
  intros Hok. assert (H := fdct_col_const cf 0 Hok).
  change (0 * rowscale cf) with 0 in H. change (64 * 0) with 0 in H. apply H.
  cfg_cases cf Hok; unfold centersample; cbn [c_bits Z.eqb Pos.eqb];
    change centerjsample_8 with 128; change centerjsample_12 with 2048; lia.
Qed.

Theorem fdct_const_block : forall cf c, cfg_ok cf -> - centersample cf <= c <= centersample cf ->
  fdct_islow cf (repeat c 64) = 64 * c :: repeat 0 63.
Proof.
  intros cf c Hok Hc. unfold fdct_islow.
  replace (rows8 (repeat c 64)) with (repeat [c; c; c; c; c; c; c; c] 8) by reflexivity.
  cbn [repeat map]. rewrite (fdct_row_const cf c Hok Hc).
  cbv [transpose8 seq map nth].
  rewrite !(fdct_col_const cf c Hok Hc). rewrite !(fdct_col_zero cf Hok).
  reflexivity.
Qed.
