(* C07 -- the numeric fact matrix_accuracy_fact (proofs/DctAcc.v) proved with the Interval tactic, and the closed forms of
   the theorems that take it as a hypothesis.  Built by the check with coqc on every run (a failure is a broken tie); NOT
   part of the coqchk pass (Interval's reflexive computations need > 40 min there). *)
From Coq Require Import List ZArith Lia Reals Lra.
From Interval Require Import Tactic.
From LJT Require Import gen.GenDctConst model.Quant model.Dct proofs.QuantProofs proofs.DctRange proofs.DctRound proofs.RmsBound proofs.DctOrth
  proofs.DctAcc proofs.DctE1 proofs.RmsFinal.
Import ListNotations.
Local Open Scope R_scope.

Theorem matrix_accuracy_fact_proved : matrix_accuracy_fact.
Proof.
  intros k i Hk Hi. unfold mR, aR, dctA, ck, ang, acc_delta.
  assert (Ck : (k = 0 \/ k = 1 \/ k = 2 \/ k = 3 \/ k = 4 \/ k = 5 \/ k = 6 \/ k = 7)%nat) by lia.
  assert (Ci : (i = 0 \/ i = 1 \/ i = 2 \/ i = 3 \/ i = 4 \/ i = 5 \/ i = 6 \/ i = 7)%nat) by lia.
  clear Hk Hi.
  destruct Ck as [->|[->|[->|[->|[->|[->|[->| ->]]]]]]]; destruct Ci as [->|[->|[->|[->|[->|[->|[->| ->]]]]]]];
    cbn [Nat.eqb Mz nth linMcols INR Nat.mul Nat.add].
  all: try (rewrite <- Rmult_assoc, sqrt8_inv).
  all: interval with (i_prec 30).
Qed.


Theorem fdct_accuracy_closed : forall cf data, cfg_ok cf -> length data = 64%nat ->
  Forall (inb (centersample cf)) data ->
  norm2 64 (fun k => vecZ (fdct_islow cf data) k / 8 - ap 64 dctA2 (vecZ data) k) <= e1_bound cf * e1_bound cf.
Proof. exact (fdct_accuracy_proof matrix_accuracy_fact_proved). Qed.
Print Assumptions fdct_accuracy_closed.

Theorem rms_bound_forward_closed : forall cf qtbl samples,
  cfg_ok cf -> length qtbl = 64%nat -> length samples = 64%nat ->
  (forall q, In q qtbl -> (1 <= q <= 65535)%Z) ->
  Forall (fun s => (0 <= s <= maxsample cf)%Z) samples ->
  exists coefs, forward_block cf qtbl samples = Some coefs /\
    forall (y : nat -> R) (e2 : R), 0 <= e2 ->
      norm2 64 (fun i => y i - ap 64 (tr dctA2) (fun k => vecZ coefs k * vecZ qtbl k) i) <= e2 * e2 ->
      norm2 64 (fun i => y i - vecZ (convsamp cf samples) i)
        <= (qnorm qtbl + e1_bound cf + e2) * (qnorm qtbl + e1_bound cf + e2).
Proof. exact (rms_bound_forward_proof matrix_accuracy_fact_proved). Qed.
Print Assumptions rms_bound_forward_closed.
