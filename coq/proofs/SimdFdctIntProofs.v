(* C05 -- accurate forward DCT: inside the boundary c_fdct_islow_ok (every value a 16-bit lane must hold
   exactly does fit) the SSE2 kernel equals jpeg_fdct_islow for ALL blocks. *)
From Coq Require Import List ZArith Lia Bool ZifyBool.
From LJT Require Import lib.Words gen.GenSimdConst model.SimdDct model.SimdIdctFast model.SimdFdctInt
  proofs.SimdDctProofs proofs.SimdIdctFastProofs.
Import ListNotations.
Local Open Scope Z_scope.

Definition f16 (v : Z) : Prop := -32768 <= v < 32768.
Lemma paddw_w (a b : Z) : paddw (w16 a) (w16 b) = w16 (a + b).
Proof. unfold paddw, w16. rewrite <- Z.add_mod by lia. reflexivity. Qed.
Lemma psubw_w (a b : Z) : psubw (w16 a) (w16 b) = w16 (a - b).
Proof. unfold psubw, w16. rewrite <- Zminus_mod. reflexivity. Qed.
Lemma paddd_w (x y : Z) : paddd (w32 x) (w32 y) = w32 (x + y).
Proof. unfold paddd, w32. rewrite <- Z.add_mod by lia. reflexivity. Qed.
Lemma madd_eq a b row : f16 a -> f16 b -> f16 (nth 0 (snd row) 0) -> f16 (nth 1 (snd row) 0) ->
  madd (w16 a) (w16 b) row = w32 (a * nth 0 (snd row) 0 + b * nth 1 (snd row) 0).
Proof. unfold f16, madd, rw, pmaddwd. intros. rewrite !s16_w16 by lia. reflexivity. Qed.
Lemma pack_desc_eq X n : 1 <= n <= 20 -> -2147483648 <= X + 2 ^ (n - 1) < 2147483648 -> f16 (c_descale X n) ->
  pack_desc (w32 X) (w32 (2 ^ (n - 1))) n = w16 (c_descale X n).
Proof.
  unfold f16, c_descale. intros Hn HX Hq. rewrite Z.shiftr_div_pow2 in * by lia.
  unfold pack_desc. rewrite paddd_w. unfold psrad. rewrite s32_w32 by lia.
  set (qv := (X + 2 ^ (n - 1)) / 2 ^ n) in *.
  unfold packssdw. rewrite s32_w32 by lia.
  destruct (qv <? -32768) eqn:?; [lia|]. destruct (32767 <? qv) eqn:?; [lia|]. reflexivity.
Qed.
Lemma psllw_w t n : 0 <= n -> psllw (w16 t) n = w16 (t * 2 ^ n).
Proof. intros. unfold psllw, w16. rewrite Zmult_mod_idemp_l. reflexivity. Qed.
Lemma psraw_round t : f16 (t + 2) -> psraw (paddw (w16 t) (w16 2)) 2 = w16 (c_descale t 2).
Proof.
  unfold f16, c_descale. intros H. rewrite paddw_w. unfold psraw. rewrite s16_w16 by lia.
  rewrite Z.shiftr_div_pow2 by lia. reflexivity.
Qed.

Lemma fi_consts :
  map (fun r => (nth 0 (snd r) 0, nth 1 (snd r) 0))
    [jfdctint_sse2_PW_F130_F054; jfdctint_sse2_PW_F054_MF130; jfdctint_sse2_PW_MF078_F117; jfdctint_sse2_PW_F117_F078;
     jfdctint_sse2_PW_MF060_MF089; jfdctint_sse2_PW_MF089_F060; jfdctint_sse2_PW_MF050_MF256; jfdctint_sse2_PW_MF256_F050] =
  [(cf 2 + cf 3, cf 2); (cf 2, cf 2 - cf 7); (cf 5 - cf 8, cf 5); (cf 5, cf 5 - cf 1);
   (cf 0 - cf 4, - cf 4); (- cf 4, cf 6 - cf 4); (cf 9 - cf 10, - cf 10); (- cf 10, cf 11 - cf 10)] /\
  map cf (seq 0 12) = [2446; 3196; 4433; 6270; 7373; 9633; 12299; 15137; 16069; 16819; 20995; 25172] /\
  c_jfdctint_CONST_BITS = 13 /\ jfdctint_sse2_PASS1_BITS = 2 /\ jfdctint_sse2_DESCALE_P1 = 11 /\ jfdctint_sse2_DESCALE_P2 = 15 /\
  rd32 jfdctint_sse2_PD_DESCALE_P1 = w32 (2 ^ (11 - 1)) /\ rd32 jfdctint_sse2_PD_DESCALE_P2 = w32 (2 ^ (15 - 1)) /\
  rw jfdctint_sse2_PW_DESCALE_P2X 0 = w16 2.
Proof. vm_compute. repeat split; reflexivity. Qed.

Ltac fits_all := repeat match goal with H : Forall _ (_ :: _) |- _ => inversion H; clear H; subst end.

Theorem fdctint1_pat_partial pass2 d : length d = 8%nat -> Forall f16 d -> Forall f16 (fi_checks pass2 d) ->
  asm_fdctint1 pass2 (map w16 d) = map w16 (c_fdctint1 pass2 d).
Proof.
  intros Hl Hd Hc.
  destruct d as [|d0 [|d1 [|d2 [|d3 [|d4 [|d5 [|d6 [|d7 [|? ?]]]]]]]]]; try discriminate.
  fits_all.
  unfold asm_fdctint1, c_fdctint1.
  cbn [map nth]. rewrite ?paddw_w, ?psubw_w, ?paddw_w, ?psubw_w, ?paddw_w.
  unfold fi_checks in Hc. unfold c_fdctint1_wide in *. unfold fi_butterfly in *.
  cbn [nth tmp10 tmp11 tmp12 tmp13 tmp4 tmp5 tmp6 tmp7] in *.
  destruct fi_consts as (_ & _ & Hcb & Hp1 & Hn1 & Hn2 & Hr1 & Hr2 & Hx).
  rewrite Hcb, Hp1 in *. rewrite ?Hn1, ?Hn2, ?Hr1, ?Hr2, ?Hx.
  assert (Hk : forall k, cf k = nth k [2446; 3196; 4433; 6270; 7373; 9633; 12299; 15137; 16069; 16819; 20995; 25172] 0).
  { intros k. do 12 (destruct k as [|k]; [reflexivity|]). destruct k; reflexivity. }
  destruct pass2; cbn [app] in Hc; fits_all; cbn [map];
  repeat match goal with |- _ :: _ = _ :: _ => f_equal end;
  rewrite ?w16_sw;
  try (rewrite psllw_w by lia; f_equal; lia);
  try (apply psraw_round; assumption);
  (rewrite !madd_eq by (assumption || (vm_compute; split; congruence))); rewrite ?paddd_w;
  rewrite ?Hk in *;
  cbn [snd nth jfdctint_sse2_PW_F130_F054 jfdctint_sse2_PW_F054_MF130 jfdctint_sse2_PW_MF078_F117 jfdctint_sse2_PW_F117_F078
       jfdctint_sse2_PW_MF060_MF089 jfdctint_sse2_PW_MF089_F060 jfdctint_sse2_PW_MF050_MF256 jfdctint_sse2_PW_MF256_F050] in *;
  change (13 + 2) with 15 in *; change (13 - 2) with 11 in *;
  match goal with |- pack_desc (w32 ?X) _ ?n = w16 (c_descale ?Y ?n) =>
    replace Y with X by lia; apply pack_desc_eq;
    [lia | unfold f16 in *; lia |
     match goal with H : f16 (c_descale ?Z n) |- _ => replace X with Z by lia; exact H end]
  end.
Qed.

Lemma f16_of_b v : fits16b v = true -> f16 v.
Proof. unfold fits16b, f16. lia. Qed.
Lemma forallb_f16 l : forallb fits16b l = true -> Forall f16 l.
Proof. intros H. apply Forall_forall. intros x Hx. rewrite forallb_forall in H. apply f16_of_b, H, Hx. Qed.
Lemma c_fdctint1_len p d : length (c_fdctint1 p d) = 8%nat.
Proof. unfold c_fdctint1, c_fdctint1_wide. rewrite map_length. reflexivity. Qed.
Lemma sw_f16 e : f16 (sw e).
Proof. apply sw_range. Qed.

Lemma pass_map_eq p rows : Forall (fun r => length r = 8%nat) rows -> Forall (Forall f16) rows ->
  forallb (fun r => forallb fits16b (fi_checks p r)) rows = true ->
  map (asm_fdctint1 p) (map (map w16) rows) = map (map w16) (map (c_fdctint1 p) rows).
Proof.
  intros HL HF HC. rewrite !map_map. apply map_ext_in. intros r Hr.
  rewrite Forall_forall in HL, HF. rewrite forallb_forall in HC.
  apply fdctint1_pat_partial; [apply HL, Hr | apply HF, Hr | apply forallb_f16, HC, Hr].
Qed.

Theorem fdct_islow_eq_partial blk : length blk = 64%nat -> c_fdct_islow_ok blk = true ->
  asm_fdct_islow blk = c_fdct_islow blk.
Proof.
  intros HL Hok. unfold c_fdct_islow_ok in Hok.
  apply andb_prop in Hok. destruct Hok as [Hok K2]. apply andb_prop in Hok. destruct Hok as [K0 K1].
  unfold asm_fdct_islow, c_fdct_islow.
  destruct (chunk8_rows blk HL) as [Rr Lr].
  rewrite chunk8_map by assumption.
  rewrite pass_map_eq; [| assumption | | assumption].
  2:{ apply Forall_forall. intros r Hr. apply forallb_f16. rewrite forallb_forall in K0. apply K0, Hr. }
  rewrite transpose_map.
  set (p1 := map (c_fdctint1 false) (chunk8 8 blk)) in *.
  assert (Hp1len : Forall (fun r => length r = 8%nat) p1).
  { unfold p1. apply Forall_forall. intros r Hr. apply in_map_iff in Hr. destruct Hr as (x & <- & _). apply c_fdctint1_len. }
  assert (Hp1n : length p1 = 8%nat) by (unfold p1; rewrite map_length; exact Lr).
  destruct (transpose_len8 _ Hp1len) as [Tw _]. rewrite Hp1n in Tw.
  assert (Hp1f : Forall (Forall f16) p1).
  { unfold p1. apply Forall_forall. intros r Hr. apply in_map_iff in Hr. destruct Hr as (x & <- & _).
    unfold c_fdctint1. apply Forall_forall. intros v Hv. apply in_map_iff in Hv. destruct Hv as (e & <- & _). apply sw_f16. }
  rewrite pass_map_eq; [| assumption | apply transpose_Forall; assumption | assumption].
  rewrite transpose_map, concat_map, map_map.
  set (X := map (c_fdctint1 true) (transpose p1)).
  assert (HX : Forall (Forall (fun v => s16 (w16 v) = v)) X).
  { unfold X. apply Forall_forall. intros r Hr. apply in_map_iff in Hr. destruct Hr as (x & <- & _).
    unfold c_fdctint1. apply Forall_forall. intros v Hv. apply in_map_iff in Hv. destruct Hv as (e & <- & _). apply s16_w16_sw. }
  pose proof (transpose_Forall _ _ HX) as HT.
  rewrite <- (map_id (transpose X)) at 2. f_equal. apply map_ext_in. intros r Hr. rewrite map_map.
  rewrite <- (map_id r) at 2. apply map_ext_in. intros v Hv.
  rewrite Forall_forall in HT. specialize (HT r Hr). rewrite Forall_forall in HT. apply HT, Hv.
Qed.

(* every block of level-shifted 8-bit samples of moderate contrast is inside the boundary; so is the stripe block
   that breaks the fast DCT; a block of 16-bit garbage is not, and there the kernel differs *)
Example fdct_islow_nonvacuous :
  c_fdct_islow_ok stripes = true /\ asm_fdct_islow stripes = c_fdct_islow stripes /\
  c_fdct_islow_ok (repeat 127 64) = true /\ c_fdct_islow_ok (repeat (-128) 64) = true /\
  c_fdct_islow_ok (repeat 8000 64) = false /\ asm_fdct_islow (repeat 8000 64) <> c_fdct_islow (repeat 8000 64).
Proof. vm_compute. repeat split; try reflexivity. discriminate. Qed.
