(* CopyHistory.v -- C16: the copy policy does not depend on what the same decompressor was used for
   before.  Save requests accumulate (jcopy_markers_setup only adds them, tj3DecompressHeader adds APP2);
   jcopy_markers_execute filters by the CURRENT option, so the markers written are the policy sub-list
   of the source's markers for every history. *)
From Coq Require Import List ZArith Bool Lia ZifyBool.
From LJT Require Import lib.Sweep gen.GenIccConst model.MarkerRT model.Icc model.CopyMarkers
  proofs.C16Consts proofs.IccProofs proofs.MarkerProofs proofs.CopyProofs.
Import ListNotations.
Local Open Scope Z_scope.

Lemma jsm_at c code limit k :
  jpeg_save_markers c code limit k = if is_app_or_com code && (k =? code) then eff_limit code limit else c k.
Proof. unfold jpeg_save_markers. destruct (is_app_or_com code); cbn [andb]; [destruct (k =? code)|]; reflexivity. Qed.

Lemma eff_limit_big code : eff_limit code COPY_SAVE_LIMIT = COPY_SAVE_LIMIT.
Proof. unfold eff_limit. destruct (code =? M_APP0), (code =? M_APP14); reflexivity. Qed.

Definition apps_touch (opt : Z) (ms : list Z) (k : Z) : bool :=
  existsb (fun m => negb ((opt =? JCOPYOPT_ALL_EXCEPT_ICC) && (m =? 2)) && (k =? JPEG_APP0 + m)) ms.

Lemma save_apps_touch opt ms : Forall (fun m => 0 <= m < 16) ms -> forall c k,
  save_apps opt ms c k = if apps_touch opt ms k then COPY_SAVE_LIMIT else c k.
Proof.
  induction 1 as [|m r Hm HF IH]; intros c k; [reflexivity|].
  cbn [save_apps apps_touch existsb]. fold (apps_touch opt r k).
  destruct ((opt =? JCOPYOPT_ALL_EXCEPT_ICC) && (m =? 2)) eqn:E; cbn [negb andb orb]; [apply IH|].
  rewrite IH, jsm_at, eff_limit_big.
  assert (A : is_app_or_com (JPEG_APP0 + m) = true).
  { unfold is_app_or_com, M_COM, M_APP0, M_APP15, JPEG_APP0. apply orb_true_iff. right. apply andb_true_iff. split; apply Z.leb_le; lia. }
  rewrite A. cbn [andb]. destruct (k =? JPEG_APP0 + m), (apps_touch opt r k); reflexivity.
Qed.

Definition setup_touch (opt k : Z) : bool :=
  ((opt =? JCOPYOPT_ICC) && (k =? JPEG_APP0 + 2))
  || (((opt =? JCOPYOPT_ALL) || (opt =? JCOPYOPT_ALL_EXCEPT_ICC)) && apps_touch opt [0;1;2;3;4;5;6;7;8;9;10;11;12;13;14;15] k)
  || (negb (opt =? JCOPYOPT_NONE) && negb (opt =? JCOPYOPT_ICC) && (k =? JPEG_COM)).

(* whatever was requested before, jcopy_markers_setup overrides exactly the codes it touches *)
Lemma copy_setup_touch opt c k : copy_setup opt c k = if setup_touch opt k then COPY_SAVE_LIMIT else c k.
Proof.
  unfold copy_setup, setup_touch.
  assert (F16 : Forall (fun m => 0 <= m < 16) [0;1;2;3;4;5;6;7;8;9;10;11;12;13;14;15]) by (repeat constructor; lia).
  assert (ACOM : is_app_or_com JPEG_COM = true) by reflexivity.
  assert (A2 : is_app_or_com (JPEG_APP0 + 2) = true) by reflexivity.
  destruct (opt =? JCOPYOPT_ICC) eqn:E3; cbn [andb orb negb].
  - rewrite jsm_at, eff_limit_big, A2. cbn [andb].
    destruct (k =? JPEG_APP0 + 2); cbn [orb]; [reflexivity|].
    destruct ((opt =? JCOPYOPT_ALL) || (opt =? JCOPYOPT_ALL_EXCEPT_ICC)) eqn:E2; cbn [andb orb].
    + rewrite (save_apps_touch opt _ F16). rewrite andb_false_r. cbn [orb].
      destruct (apps_touch opt [0;1;2;3;4;5;6;7;8;9;10;11;12;13;14;15] k); reflexivity.
    + rewrite andb_false_r. reflexivity.
  - destruct ((opt =? JCOPYOPT_ALL) || (opt =? JCOPYOPT_ALL_EXCEPT_ICC)) eqn:E2; cbn [andb orb].
    + rewrite (save_apps_touch opt _ F16).
      destruct (apps_touch opt [0;1;2;3;4;5;6;7;8;9;10;11;12;13;14;15] k); cbn [orb]; [reflexivity|].
      rewrite andb_true_r. destruct (negb (opt =? JCOPYOPT_NONE)); cbn [andb]; [|reflexivity].
      rewrite jsm_at, eff_limit_big, ACOM. reflexivity.
    + rewrite andb_true_r. destruct (negb (opt =? JCOPYOPT_NONE)); cbn [andb]; [|reflexivity].
      rewrite jsm_at, eff_limit_big, ACOM. reflexivity.
Qed.

Lemma setup_touch_sweep : sweep2 (fun opt k => Bool.eqb (setup_touch opt k) (selected opt k)) 0 5 0 256 = true.
Proof. vm_compute. reflexivity. Qed.
Lemma setup_touch_selected opt k : 0 <= opt < 5 -> 0 <= k < 256 -> setup_touch opt k = selected opt k.
Proof. intros Ho Hk. apply eqb_prop. exact (sweep2_sound _ _ _ _ _ setup_touch_sweep opt k Ho Hk). Qed.

(* the current setup on top of any earlier limits *)
Theorem copy_setup_over_history opt c0 code : 0 <= opt < 5 -> 0 <= code < 256 ->
  copy_setup opt c0 code = if selected opt code then COPY_SAVE_LIMIT else c0 code.
Proof. intros Ho Hc. rewrite copy_setup_touch, setup_touch_selected by assumption. reflexivity. Qed.

Lemma copy_setup_wf opt c : cfg_wf c -> cfg_wf (copy_setup opt c).
Proof.
  intros W. unfold copy_setup.
  assert (S : forall ms c', cfg_wf c' -> cfg_wf (save_apps opt ms c')).
  { induction ms as [|m r IH]; intros c' Wc; [assumption|]. cbn [save_apps].
    destruct ((opt =? JCOPYOPT_ALL_EXCEPT_ICC) && (m =? 2)); apply IH; [assumption|].
    apply jpeg_save_markers_wf; [assumption | unfold COPY_SAVE_LIMIT; lia]. }
  repeat match goal with |- context [if ?b then _ else _] => destruct b end;
  repeat first [apply jpeg_save_markers_wf | apply S | assumption | (unfold COPY_SAVE_LIMIT; lia)].
Qed.
Lemma history_cfg_wf hist : cfg_wf (history_cfg hist).
Proof.
  unfold history_cfg. generalize cfg_init_wf. generalize cfg_init. induction hist as [|s r IH]; intros c W; [assumption|].
  cbn [fold_left]. apply IH. destruct s as [o|sm]; cbn [hstep_cfg]; [apply copy_setup_wf; assumption|].
  destruct ((sm =? 2) || (sm =? 4)); [|assumption]. apply jpeg_save_markers_wf; [assumption | unfold TJ_ICC_SAVE_LIMIT; lia].
Qed.

(* (6) for EVERY earlier limits c0 (in particular every history of copy options and header reads on the same
   decompressor): the markers written are the policy sub-list for the current option *)
Theorem copy_end_to_end_from c0 opt wj wa segs rest : (forall k, 0 <= c0 k) -> 0 <= opt < 5 ->
  Forall seg_ok segs -> Forall (fun s => Forall is_byte (snd s)) segs -> stops rest ->
  exists bytes, write_markers segs = Some bytes /\
    forall fuel, (length segs < fuel)%nat ->
      copy_pipeline_from c0 opt opt wj wa fuel (bytes ++ rest)
      = Some (filter (fun s => policy opt wj wa (saved_of s)) segs).
Proof.
  intros Hc0 Ho HF HB Hstop.
  assert (Hnn : forall k, 0 <= copy_setup opt c0 k).
  { intros k. rewrite copy_setup_touch. destruct (setup_touch opt k); [unfold COPY_SAVE_LIMIT; lia | apply Hc0]. }
  destruct (markers_roundtrip (copy_setup opt c0) segs Hnn HF rest Hstop) as (bytes & Eb & R).
  exists bytes. split; [assumption|]. intros fuel Hf. unfold copy_pipeline_from.
  destruct (R fuel hinfo_init [] Hf) as (h' & E). rewrite E. cbn [app]. f_equal.
  rewrite copy_policy. clear - Ho HF HB.
  induction segs as [|s segs IH]; [reflexivity|].
  pose proof (Forall_inv HF) as (S1 & S2). pose proof (Forall_inv HB) as B1. cbn beta in B1.
  specialize (IH (Forall_inv_tail HF) (Forall_inv_tail HB)).
  cbn [flat_map]. rewrite filter_app, map_app, IH. cbn [filter].
  unfold saved_under. pose proof (app_or_com_byte _ S1) as Hbyte. unfold is_byte in Hbyte.
  rewrite copy_setup_over_history by assumption.
  destruct (selected opt (fst s)) eqn:Sel.
  - change (COPY_SAVE_LIMIT =? 0) with false. cbn iota.
    assert (Efull : firstn (Z.to_nat (kept_len (copy_setup opt c0) s)) (map byte_of (snd s)) = snd s).
    { unfold kept_len. rewrite copy_setup_over_history by assumption. rewrite Sel.
      rewrite map_byte_of_id by assumption.
      replace (Z.to_nat (Z.min (Zlength (snd s)) COPY_SAVE_LIMIT)) with (length (snd s)).
      - apply firstn_exact.
      - unfold WRITE_MARKER_MAX_DATALEN in S2. unfold COPY_SAVE_LIMIT. rewrite Zlength_correct in *. lia. }
    rewrite Efull. fold (saved_of s). cbn [filter].
    destruct (policy opt wj wa (saved_of s)); cbn [map app]; [|reflexivity].
    unfold seg_of, saved_of. cbn [sm_code sm_data]. destruct s; reflexivity.
  - (* not selected now: whatever an earlier request makes the decompressor keep of it is filtered out *)
    destruct (c0 (fst s) =? 0); cbn [filter map app].
    + destruct (policy opt wj wa (saved_of s)) eqn:P; [|reflexivity].
      exfalso. apply policy_selected in P; [| assumption | exact S1]. cbn [saved_of sm_code] in P. congruence.
    + match goal with |- context [policy opt wj wa ?m] => destruct (policy opt wj wa m) eqn:P1 end.
      * exfalso. apply policy_selected in P1; [| assumption | exact S1]. cbn [sm_code] in P1. congruence.
      * cbn [map app]. destruct (policy opt wj wa (saved_of s)) eqn:P; [|reflexivity].
        exfalso. apply policy_selected in P; [| assumption | exact S1]. cbn [saved_of sm_code] in P. congruence.
Qed.

Corollary copy_history_independent hist opt wj wa segs rest : 0 <= opt < 5 ->
  Forall seg_ok segs -> Forall (fun s => Forall is_byte (snd s)) segs -> stops rest ->
  exists bytes, write_markers segs = Some bytes /\
    forall fuel, (length segs < fuel)%nat ->
      copy_pipeline_from (history_cfg hist) opt opt wj wa fuel (bytes ++ rest)
      = Some (filter (fun s => policy opt wj wa (saved_of s)) segs).
Proof. intros. apply copy_end_to_end_from; try assumption. apply (history_cfg_wf hist). Qed.

(* non-vacuity: after "copy all" and a header read, "comments only" on the same decompressor *)
Lemma ex_history : forall k, 0 <= history_cfg [HSetup JCOPYOPT_ALL; HTjHeader 2; HSetup JCOPYOPT_ICC] k.
Proof. apply history_cfg_wf. Qed.
Lemma ex_history_wider : history_cfg [HSetup JCOPYOPT_ALL] (JPEG_APP0 + 2) = COPY_SAVE_LIMIT /\
  selected JCOPYOPT_COMMENTS (JPEG_APP0 + 2) = false.
Proof. split; reflexivity. Qed.
