(* C08 -- context main controller, max_v_samp_factor = 2: the invariant and one call of
   jpeg_read_scanlines (process_data_context_main + sep_upsample). *)
From Coq Require Import List ZArith Lia Bool ZifyBool.
From LJT Require Import model.Partial proofs.PartialCtxBase.
Import ListNotations.
Local Open Scope Z_scope.

Ltac splits := repeat match goal with |- _ /\ _ => split end.
Ltac simp_c := cbn [c_scan c_bfull c_rgctr c_imcu c_nro c_rtg c_cbuf c_which c_state c_avail c_ictr c_xb0 c_xb1 c_phys fst snd].
Ltac simp_c_in H := cbn [c_scan c_bfull c_rgctr c_imcu c_nro c_rtg c_cbuf c_which c_state c_avail c_ictr c_xb0 c_xb1 c_phys fst snd] in H.
Ltac case_ifs := repeat match goal with |- context [if ?b then _ else _] => destruct b eqn:? end.

Definition rows_c (g : geom) (s n : Z) : list prov := map (ideal_c g) (zseq s (Z.to_nat n)).

Section CtxRead.
Variable g : geom.
Hypothesis Hrg : grg g = 1.
Hypothesis HM : 2 <= gM g.
Hypothesis Hv : gv g = 2.
Hypothesis Hf : gfancyv g = true.
Hypothesis HH : 0 <= gH g < 4294967296.
Hypothesis HT : (gT g - 1) * (gM g * 2) < gH g <= gT g * (gM g * 2).
Hypothesis Hdsh : gdsh g = (gH g + 1) / 2.
Hypothesis Hhr : gT g * gM g <= ghrows g.
Hypothesis Hrg0 : 1 <= grg0 g.

(* number of row groups of the last iMCU row *)
Definition NG : Z := (gH g - (gT g - 1) * (gM g * 2) + 1) / 2.
Hypothesis Hav : (rows_left_of (gdsh0 g) (grg0 g * gM g) - 1) / grg0 g + 1 = NG.

Lemma gL_eq : gL g = gM g * 2.
Proof. unfold gL. now rewrite Hv. Qed.

Lemma dsh_NG : gdsh g = (gT g - 1) * gM g + NG.
Proof. rewrite Hdsh. unfold NG. Z.div_mod_to_equations. lia. Qed.

Lemma dsh_bounds : 2 * gdsh g - 1 <= gH g <= 2 * gdsh g.
Proof. rewrite Hdsh. Z.div_mod_to_equations. lia. Qed.

Lemma NG_bounds : 0 < gH g -> 1 <= NG <= gM g.
Proof. intros. unfold NG. Z.div_mod_to_equations. lia. Qed.

Lemma rl_NG : 0 < gH g -> rows_left_of (gdsh g) (grg g * gM g) = NG.
Proof.
  intros HH0. pose proof (NG_bounds HH0) as Hb. rewrite Hrg, Z.mul_1_l. unfold rows_left_of. rewrite dsh_NG.
  destruct (Z.eq_dec NG (gM g)) as [E | E].
  - rewrite E. replace ((gT g - 1) * gM g + gM g) with (gT g * gM g) by lia.
    rewrite Z.mod_mul by lia. reflexivity.
  - rewrite Z.add_comm, Z.mod_add by lia. rewrite Z.mod_small by lia.
    assert (E' : (NG =? 0) = false) by lia. now rewrite E'.
Qed.

Definition clampd (x : Z) : Z := Z.max 0 (Z.min x (gdsh g - 1)).

Lemma ideal_c_eq G k : 0 <= G -> 0 <= k <= 1 ->
  ideal_c g (G * 2 + k) = (G, if k =? 0 then Z.max (G - 1) 0 else Z.min (G + 1) (gdsh g - 1)).
Proof.
  intros HG Hk. unfold ideal_c. rewrite Hv, Hf, Hrg.
  assert (E1 : (G * 2 + k) / 2 = G) by (Z.div_mod_to_equations; lia).
  assert (E2 : (G * 2 + k) mod 2 = k) by (Z.div_mod_to_equations; lia).
  rewrite E1, E2. assert (Hk' : k = 0 \/ k = 1) by lia.
  destruct Hk' as [-> | ->].
  - change (0 / 2) with 0. change (Z.even 0) with true. cbn [Z.eqb]. f_equal; lia.
  - change (1 / 2) with 0. change (Z.even 1) with false. cbn [Z.eqb]. f_equal; lia.
Qed.

(* what the upsampling method reads for the two rows of the row group at list index c *)
Lemma group_prov_eq xb ph c :
  group_prov g xb ph c = [(tokat g xb ph c, tokat g xb ph (c - 1)); (tokat g xb ph c, tokat g xb ph (c + 1))].
Proof.
  unfold group_prov. rewrite Hv, Hf, Hrg. change (Z.to_nat 2) with 2%nat. cbn [zseq map].
  change (0 / 2) with 0. change ((0 + 1) / 2) with 0. change (Z.even 0) with true. change (Z.even (0 + 1)) with false.
  cbv iota. replace (c * 1 + 0) with c by lia. reflexivity.
Qed.

Definition VW (x0 x1 ph : list Z) (w i : Z) : Z := tokat g (xsel w x0 x1) ph i.

Lemma VW_place W x0 x1 ph w i : Shape g W x0 x1 -> (w = 0 \/ w = 1) -> 0 <= i <= gM g + 1 ->
  VW x0 x1 ph w i = getz ph (place g w i).
Proof.
  intros HS Hw Hi. unfold VW, tokat. rewrite (xb_get_xg g Hrg). rewrite (Shape_sel g W x0 x1 w i HS Hw Hi).
  pose proof (place_range g HM w i Hi). assert (E : (place g w i <? 0) = false) by lia. now rewrite E.
Qed.

Lemma VW_wrap x0 x1 ph w : Shape g true x0 x1 -> (w = 0 \/ w = 1) ->
  VW x0 x1 ph w (-1) = getz ph (place g w (gM g + 1)) /\ VW x0 x1 ph w (gM g + 2) = getz ph (place g w 0).
Proof.
  intros HS Hw. destruct (Shape_wrap g true x0 x1 w HS eq_refl Hw) as (A & B).
  unfold VW, tokat. rewrite !(xb_get_xg g Hrg), A, B.
  pose proof (place_range g HM w (gM g + 1) ltac:(lia)). pose proof (place_range g HM w 0 ltac:(lia)).
  assert (E : (place g w (gM g + 1) <? 0) = false) by lia. assert (E' : (place g w 0 <? 0) = false) by lia.
  now rewrite E, E'.
Qed.

Definition availR (R : Z) : Z := if R =? gT g - 1 then NG else gM g - 1.

(* the conversion buffer: empty at the start of a row group, else its second row is pending *)
Definition upOK (s k nr : Z) (cb : list prov) : Prop :=
  (k = 0 -> nr = 2) /\ (k = 1 -> nr = 1 /\ exists r0, cb = [r0; ideal_c g s]).

(* the state of the controller (all fields but output_scanline) when s rows have been delivered *)
Definition ModeS (st : cst) (R j k : Z) : Prop :=
  R = 0 /\ j = 0 /\ k = 0 /\ c_bfull st = false /\ c_state st = 0 /\ c_ictr st = 0 /\ c_imcu st = 0 /\
  c_which st = 0 /\ Shape g false (c_xb0 st) (c_xb1 st).

Definition ModeP (st : cst) (R j k : Z) : Prop :=
  c_state st = 1 /\ c_bfull st = true /\ c_ictr st = R + 1 /\ c_imcu st = R + 1 /\ c_rgctr st = j /\
  c_avail st = availR R /\ j < availR R /\ (0 < j \/ 0 < k) /\
  (forall i, 0 <= i <= availR R -> VW (c_xb0 st) (c_xb1 st) (c_phys st) (c_which st) i = clampd (R * gM g + i)) /\
  (R < gT g - 1 -> exists W, Shape g W (c_xb0 st) (c_xb1 st) /\ (1 <= R -> W = true)).

Definition ModeQ (st : cst) (R j k : Z) : Prop :=
  j = gM g - 1 /\ R < gT g - 1 /\ c_state st = 2 /\ c_rgctr st = gM g + 1 /\ c_avail st = gM g + 2 /\
  Shape g true (c_xb0 st) (c_xb1 st) /\
  (k = 0 -> c_bfull st = false /\ c_ictr st = R + 1 /\ c_imcu st = R + 1 /\
            VW (c_xb0 st) (c_xb1 st) (c_phys st) (c_which st) (gM g + 1) = R * gM g + gM g - 1 /\
            VW (c_xb0 st) (c_xb1 st) (c_phys st) (c_which st) (gM g) = R * gM g + gM g - 2) /\
  (k = 1 -> c_bfull st = true /\ c_ictr st = R + 2 /\ c_imcu st = R + 2 /\
            (forall i, 0 <= i < gM g -> VW (c_xb0 st) (c_xb1 st) (c_phys st) (c_which st) i = (R + 1) * gM g + i) /\
            VW (c_xb0 st) (c_xb1 st) (c_phys st) (c_which st) (gM g + 1) = R * gM g + gM g - 1).

Definition ModeB (st : cst) (R j k : Z) : Prop :=
  j = 0 /\ k = 0 /\ 1 <= R /\ c_state st = 0 /\ c_bfull st = true /\ c_ictr st = R + 1 /\ c_imcu st = R + 1 /\
  Shape g true (c_xb0 st) (c_xb1 st) /\
  (forall i, 0 <= i < gM g -> VW (c_xb0 st) (c_xb1 st) (c_phys st) (c_which st) i = R * gM g + i) /\
  VW (c_xb0 st) (c_xb1 st) (c_phys st) (c_which st) (gM g + 1) = R * gM g - 1.

Definition Core (s : Z) (e : bool) (st : cst) : Prop :=
  exists R j k,
    s = (R * gM g + j) * 2 + k /\ 0 <= R /\ 0 <= j < gM g /\ 0 <= k <= 1 /\ s < gH g /\
    (c_which st = 0 \/ c_which st = 1) /\
    gH g - s <= c_rtg st /\ (e = true -> c_rtg st = gH g - s) /\
    upOK s k (c_nro st) (c_cbuf st) /\ zlen (c_phys st) = gM g + 2 /\
    (ModeS st R j k \/ ModeP st R j k \/ ModeQ st R j k \/ ModeB st R j k).

Lemma Core_set_scan s e st x : Core s e st -> Core s e (c_set_scan st x).
Proof. destruct st. unfold c_set_scan. simp_c. exact (fun H => H). Qed.

(* facts about positions *)
Lemma pos_facts s R j k : s = (R * gM g + j) * 2 + k -> 0 <= R -> 0 <= j < gM g -> 0 <= k <= 1 -> s < gH g ->
  R <= gT g - 1 /\ R * gM g + j < gdsh g /\ (R = gT g - 1 -> j < NG) /\ 0 < gH g /\ 1 <= gT g.
Proof.
  intros Hs HR Hj Hk HsH. pose proof dsh_bounds. pose proof dsh_NG.
  assert (R <= gT g - 1) by nia. splits; try lia; try nia.
Qed.

Lemma clampd_id x : 0 <= x < gdsh g -> clampd x = x.
Proof. unfold clampd. lia. Qed.

(* ---------- the end of a row group inside process_data_context_main / CTX_PROCESS_IMCU ---------- *)
Definition finish (st1 : cst) : cst :=
  if c_rgctr st1 <? c_avail st1 then st1
  else
    let st2 := if c_ictr st1 =? 1 then set_wraparound g st1 else st1 in
    c_set_main st2 false (gM g + 1) (if c_which st2 =? 0 then 1 else 0) 2 (gM g + 2).

Lemma ctx_process_finish st got avail :
  ctx_process g st got avail =
  (finish (fst (sep_upsample_c g st (avail - zlen got))), got ++ snd (sep_upsample_c g st (avail - zlen got))).
Proof.
  unfold ctx_process, finish. destruct (sep_upsample_c g st (avail - zlen got)) as [st1 rows]. cbn [fst snd].
  destruct (c_rgctr st1 <? c_avail st1); reflexivity.
Qed.

Lemma finish_ok sc im rt' cb' w av ic x0 x1 ph R j e :
  0 <= R -> 0 <= j < gM g -> (R * gM g + (j + 1)) * 2 < gH g ->
  (w = 0 \/ w = 1) -> gH g - (R * gM g + (j + 1)) * 2 <= rt' -> (e = true -> rt' = gH g - (R * gM g + (j + 1)) * 2) ->
  zlen ph = gM g + 2 -> av = availR R -> j < av -> ic = R + 1 -> im = R + 1 ->
  (forall i, 0 <= i <= av -> VW x0 x1 ph w i = clampd (R * gM g + i)) ->
  (R < gT g - 1 -> exists W, Shape g W x0 x1 /\ (1 <= R -> W = true)) ->
  Core ((R * gM g + (j + 1)) * 2) e (finish (mkC sc true (j + 1) im 2 rt' cb' w 1 av ic x0 x1 ph)).
Proof.
  intros HR Hj HsH Hw Hrt1 Hrt2 Hph Hav_ Hjav Hic Him Hvw HSh.
  pose proof dsh_bounds as Hdb. pose proof dsh_NG as HdN.
  assert (Havle : av <= gM g).
  { pose proof (NG_bounds ltac:(nia)). rewrite Hav_. unfold availR. destruct (R =? gT g - 1); lia. }
  unfold finish. simp_c.
  destruct (j + 1 <? av) eqn:Ej.
  - (* next row group of the same iMCU row *)
    exists R, (j + 1), 0. simp_c. splits; try lia.
    + split; [auto|intros; lia].
    + right; left. unfold ModeP. simp_c. rewrite <- Hav_. splits; auto; try lia.
  - (* all row groups handed out in CTX_PROCESS_IMCU are consumed *)
    assert (Hje : j + 1 = av) by lia.
    destruct (Z.eq_dec R (gT g - 1)) as [HRl | HRl].
    { exfalso. unfold availR in Hav_. assert (E : (R =? gT g - 1) = true) by lia. rewrite E in Hav_. nia. }
    assert (HRlt : R < gT g - 1) by (assert (R <= gT g - 1) by nia; lia).
    unfold availR in Hav_. assert (E : (R =? gT g - 1) = false) by lia. rewrite E in Hav_.
    destruct (HSh HRlt) as (W & HS & HW).
    (* the pointer lists after the optional set_wraparound_pointers *)
    set (st2 := if ic =? 1 then set_wraparound g (mkC sc true (j + 1) im 2 rt' cb' w 1 av ic x0 x1 ph)
                else mkC sc true (j + 1) im 2 rt' cb' w 1 av ic x0 x1 ph).
    assert (Hst2 : exists y0 y1, st2 = mkC sc true (j + 1) im 2 rt' cb' w 1 av ic y0 y1 ph /\ Shape g true y0 y1).
    { unfold st2. destruct (ic =? 1) eqn:Eic.
      - exists (wrap_one g x0), (wrap_one g x1). split; [reflexivity|]. apply (wrap_shape g Hrg HM W); assumption.
      - exists x0, x1. split; [reflexivity|]. rewrite <- (HW ltac:(lia)). assumption. }
    destruct Hst2 as (y0 & y1 & -> & HS2). unfold c_set_main. simp_c.
    exists R, (gM g - 1), 0. simp_c. splits; try lia.
    + destruct Hw as [-> | ->]; cbn; auto.
    + split; [auto|intros; lia].
    + right; right; left. unfold ModeQ. simp_c. splits; auto; try lia; try (intros; lia).
      intros _.
      assert (Hw' : (if w =? 0 then 1 else 0) = 1 - w) by (destruct Hw as [-> | ->]; reflexivity).
      rewrite Hw'. assert (Hw1 : 1 - w = 0 \/ 1 - w = 1) by lia.
      destruct (place_flip g w Hw) as (F1 & F2).
      splits; auto.
      * rewrite (VW_place true y0 y1 ph (1 - w) (gM g + 1) HS2 Hw1) by lia. rewrite F1.
        rewrite <- (VW_place W x0 x1 ph w (gM g - 1) HS Hw) by lia.
        rewrite Hvw by lia. rewrite clampd_id by nia. lia.
      * rewrite (VW_place true y0 y1 ph (1 - w) (gM g) HS2 Hw1) by lia. rewrite F2.
        rewrite <- (VW_place W x0 x1 ph w (gM g - 2) HS Hw) by lia.
        rewrite Hvw by lia. rewrite clampd_id by nia. lia.
Qed.

Lemma rows_c_1 s : rows_c g s 1 = [ideal_c g s].
Proof. reflexivity. Qed.
Lemma rows_c_2 s : rows_c g s 2 = [ideal_c g s; ideal_c g (s + 1)].
Proof. reflexivity. Qed.

(* ---------- CTX_PROCESS_IMCU: one sep_upsample call on row group j of iMCU row R ---------- *)
Lemma process_core sc rt nr cb w av ic im x0 x1 ph R j k s e got avail (ab : bool) :
  s = (R * gM g + j) * 2 + k -> 0 <= R -> 0 <= j < gM g -> 0 <= k <= 1 -> s < gH g ->
  (w = 0 \/ w = 1) -> gH g - s <= rt -> (e = true -> rt = gH g - s) -> upOK s k nr cb -> zlen ph = gM g + 2 ->
  av = availR R -> j < av -> ic = R + 1 -> im = R + 1 ->
  (forall i, 0 <= i <= av -> VW x0 x1 ph w i = clampd (R * gM g + i)) ->
  (ab = true -> j = 0 -> k = 0 -> VW x0 x1 ph w (-1) = clampd (R * gM g - 1)) ->
  (R < gT g - 1 -> exists W, Shape g W x0 x1 /\ (1 <= R -> W = true)) ->
  1 <= avail - zlen got -> (e = true \/ avail - zlen got <= gH g - s) ->
  exists st' rows num,
    ctx_process g (mkC sc true j im nr rt cb w 1 av ic x0 x1 ph) got avail = (st', got ++ rows) /\
    1 <= num <= avail - zlen got /\ num <= 2 - k /\ s + num <= gH g /\ zlen rows = num /\
    ((ab = true \/ k = 1) -> rows = rows_c g s num) /\
    c_scan st' = sc /\
    (s + num < gH g -> Core (s + num) e st').
Proof.
  intros Hs HR Hj Hk HsH Hw Hrt1 Hrt2 Hup Hph Hav_ Hjav Hic Him Hvw Hab HSh Ha Hside.
  destruct (pos_facts s R j k Hs HR Hj Hk HsH) as (HRT & HGd & HjNG & HH0 & HT1).
  pose proof dsh_bounds as Hdb.
  set (G := R * gM g + j) in *.
  assert (HidG : clampd G = G) by (apply clampd_id; lia).
  rewrite ctx_process_finish. unfold sep_upsample_c. simp_c. rewrite Hv.
  destruct Hup as (Hup0 & Hup1).
  assert (Hk' : k = 0 \/ k = 1) by lia. destruct Hk' as [-> | ->].
  - (* the conversion buffer is empty: upsample row group j *)
    rewrite (Hup0 eq_refl). cbn [Z.leb Z.compare Pos.compare Pos.compare_cont].
    unfold c_xb. simp_c. fold (xsel w x0 x1). rewrite group_prov_eq.
    fold (VW x0 x1 ph w j). fold (VW x0 x1 ph w (j - 1)). fold (VW x0 x1 ph w (j + 1)).
    unfold zdrop. change (Z.to_nat 0) with 0%nat. cbn [skipn].
    rewrite (Hvw j) by lia. rewrite (Hvw (j + 1)) by lia. fold G. rewrite HidG.
    replace (R * gM g + (j + 1)) with (G + 1) by (unfold G; lia).
    assert (Hr1 : (G, clampd (G + 1)) = ideal_c g (s + 1)).
    { replace (s + 1) with (G * 2 + 1) by lia. rewrite ideal_c_eq by lia. cbn [Z.eqb]. unfold clampd. f_equal. lia. }
    rewrite Hr1.
    set (num := Z.max 0 (Z.min (Z.min (2 - 0) rt) (avail - zlen got))).
    assert (Hnum : num = 1 \/ num = 2) by (unfold num; lia).
    set (r0 := (G, VW x0 x1 ph w (j - 1))).
    assert (Hr0 : ab = true -> r0 = ideal_c g s).
    { intros Habt. unfold r0. replace s with (G * 2 + 0) by lia. rewrite ideal_c_eq by lia. cbn [Z.eqb]. f_equal.
      destruct (Z.eq_dec j 0) as [Hj0 | Hj0].
      - subst j. replace (0 - 1) with (-1) by lia. rewrite (Hab Habt eq_refl eq_refl).
        unfold clampd. unfold G. lia.
      - rewrite (Hvw (j - 1)) by lia. unfold clampd. unfold G. lia. }
    destruct Hnum as [Hn | Hn]; rewrite Hn.
    + (* one row delivered, the second stays in the conversion buffer *)
      change (0 + 1) with 1. cbn [Z.leb Z.compare Pos.compare Pos.compare_cont].
      eexists. exists [r0], 1. unfold finish. simp_c.
      assert (E : (j <? av) = true) by lia. rewrite E.
      splits; try reflexivity; try lia.
      * intros [Habt | Hk1]; [|lia]. rewrite rows_c_1. f_equal. apply Hr0, Habt.
      * intros Hlt. exists R, j, 1. simp_c. splits; try lia; auto.
        -- split; [intros; lia|]. intros _. split; [reflexivity|]. exists r0. reflexivity.
        -- right; left. unfold ModeP. simp_c. rewrite <- Hav_. splits; auto; try lia.
    + (* both rows delivered *)
      change (0 + 2) with 2. cbn [Z.leb Z.compare Pos.compare Pos.compare_cont].
      assert (Hs2 : s + 2 <= gH g).
      { unfold num in Hn. destruct Hside as [He | Hle]; [rewrite (Hrt2 He) in Hn|]; lia. }
      eexists. exists [r0; ideal_c g (s + 1)], 2.
      splits; try reflexivity; try lia.
      * intros [Habt | Hk1]; [|lia]. rewrite rows_c_2. f_equal. apply Hr0, Habt.
      * unfold finish. simp_c. case_ifs; reflexivity.
      * intros Hlt. replace (s + 2) with ((R * gM g + (j + 1)) * 2) in * by (unfold G in *; lia).
        apply finish_ok; auto; try lia.
  - (* the second row of the row group is pending in the conversion buffer *)
    destruct (Hup1 eq_refl) as (Hnr & r0 & Hcb). subst nr cb.
    cbn [Z.leb Z.compare Pos.compare Pos.compare_cont].
    set (num := Z.max 0 (Z.min (Z.min (2 - 1) rt) (avail - zlen got))).
    assert (Hnum : num = 1) by (unfold num; lia). rewrite Hnum.
    change (1 + 1) with 2. cbn [Z.leb Z.compare Pos.compare Pos.compare_cont].
    eexists. exists [ideal_c g s], 1.
    splits; try reflexivity; try lia.
    + unfold finish. simp_c. case_ifs; reflexivity.
    + intros Hlt. replace (s + 1) with ((R * gM g + (j + 1)) * 2) in * by (unfold G in *; lia).
      apply finish_ok; auto; try lia.
Qed.

(* ---------- the coefficient controller fills xbuffer[whichptr] ---------- *)
Lemma decode_ok sc rc im nr rt cb w cs av ic x0 x1 ph W :
  Shape g W x0 x1 -> (w = 0 \/ w = 1) -> zlen ph = gM g + 2 -> 0 <= im <= gT g - 1 ->
  exists ph',
    decode_c g (mkC sc false rc im nr rt cb w cs av ic x0 x1 ph) =
      mkC sc true rc (im + 1) nr rt cb w cs av (ic + 1) x0 x1 ph' /\
    zlen ph' = gM g + 2 /\
    (forall i, 0 <= i < gM g -> getz ph' (place g w i) = im * gM g + i) /\
    (forall i, gM g <= i <= gM g + 1 -> getz ph' (place g w i) = getz ph (place g w i)).
Proof.
  intros HS Hw Hph Him. unfold decode_c. simp_c. unfold c_xb. simp_c. fold (xsel w x0 x1).
  rewrite Hrg, Z.mul_1_l.
  pose proof (decode_fold (fun j => xb_get g (xsel w x0 x1) j) (im * gM g) (ghrows g) (Z.to_nat (gM g)) 0 ph) as HD.
  cbv zeta in HD.
  assert (Hf_ : forall j, 0 <= j <= gM g + 1 -> xb_get g (xsel w x0 x1) j = place g w j).
  { intros j Hj. rewrite (xb_get_xg g Hrg). apply (Shape_sel g W); assumption. }
  destruct HD as (A & B & C).
  - intros j Hj. rewrite Hf_ by lia. pose proof (place_range g HM w j ltac:(lia)). lia.
  - intros i j Hi Hj. rewrite !Hf_ by lia. apply (place_inj g); lia.
  - intros j Hj. nia.
  - eexists. split; [reflexivity|]. splits.
    + rewrite A. assumption.
    + intros i Hi. rewrite <- (Hf_ i) by lia. apply B. lia.
    + intros i Hi. apply C. intros j Hj Heq. rewrite Hf_ in Heq by lia.
      assert (j = i) by (apply (place_inj g w); lia). lia.
Qed.

Lemma xsel_fix w (f : list Z -> list Z) x0 x1 : (w = 0 \/ w = 1) ->
  xsel w (if w =? 0 then f x0 else x0) (if w =? 0 then x1 else f x1) = f (xsel w x0 x1).
Proof. intros [-> | ->]; reflexivity. Qed.

(* ---------- CTX_PREPARE_FOR_IMCU followed by CTX_PROCESS_IMCU ---------- *)
Lemma prepare_ok sc rc rt cb w cs av ic im x0 x1 ph R e got avail (ab : bool) W :
  0 <= R -> R * gM g * 2 < gH g -> (w = 0 \/ w = 1) ->
  gH g - R * gM g * 2 <= rt -> (e = true -> rt = gH g - R * gM g * 2) -> zlen ph = gM g + 2 ->
  ic = R + 1 -> im = R + 1 -> Shape g W x0 x1 -> (1 <= R -> W = true) ->
  (forall i, 0 <= i < gM g -> VW x0 x1 ph w i = R * gM g + i) ->
  (ab = true -> VW x0 x1 ph w (-1) = clampd (R * gM g - 1)) ->
  1 <= avail - zlen got -> (e = true \/ avail - zlen got <= gH g - R * gM g * 2) ->
  exists st' rows num,
    ctx_prepare g (mkC sc true rc im 2 rt cb w cs av ic x0 x1 ph) got avail = (st', got ++ rows) /\
    1 <= num <= avail - zlen got /\ num <= 2 /\ R * gM g * 2 + num <= gH g /\ zlen rows = num /\
    (ab = true -> rows = rows_c g (R * gM g * 2) num) /\
    c_scan st' = sc /\
    (R * gM g * 2 + num < gH g -> Core (R * gM g * 2 + num) e st').
Proof.
  intros HR HsH Hw Hrt1 Hrt2 Hph Hic Him HS HW Hvw Hab Ha Hside.
  destruct (pos_facts (R * gM g * 2) R 0 0 ltac:(lia) HR ltac:(lia) ltac:(lia) HsH) as (HRT & HGd & HjNG & HH0 & HT1).
  pose proof dsh_bounds as Hdb. pose proof dsh_NG as HdN. pose proof (NG_bounds HH0) as HNG.
  unfold ctx_prepare, c_set_main. simp_c.
  destruct (ic =? gT g) eqn:Eic.
  - (* last iMCU row: set_bottom_pointers *)
    assert (HRl : R = gT g - 1) by lia.
    unfold set_bottom, c_with_ptrs. simp_c. rewrite (rl_NG HH0), Hav.
    fold (fix_bottom g NG x0). fold (fix_bottom g NG x1).
    assert (Hsel : forall y0 y1, y0 = (if w =? 0 then fix_bottom g NG x0 else x0) ->
                                 y1 = (if w =? 0 then x1 else fix_bottom g NG x1) ->
                                 xsel w y0 y1 = fix_bottom g NG (xsel w x0 x1)).
    { intros y0 y1 -> ->. apply (xsel_fix w (fix_bottom g NG)); assumption. }
    set (y0 := if w =? 0 then fix_bottom g NG x0 else x0). set (y1 := if w =? 0 then x1 else fix_bottom g NG x1).
    assert (Hst : (if w =? 0
                   then mkC sc true 0 im 2 rt cb w cs (gM g - 1) ic (fix_bottom g NG x0) x1 ph
                   else mkC sc true 0 im 2 rt cb w cs (gM g - 1) ic x0 (fix_bottom g NG x1) ph)
                  = mkC sc true 0 im 2 rt cb w cs (gM g - 1) ic y0 y1 ph).
    { unfold y0, y1. destruct (w =? 0); reflexivity. }
    rewrite Hst. simp_c. clear Hst.
    destruct (fix_bottom_spec g Hrg NG (xsel w x0 x1) (Shape_len g W x0 x1 w HS) ltac:(lia)) as (FL & F1 & F2 & F3).
    assert (HVW : forall i, VW y0 y1 ph w i =
                  if (i =? NG) || (i =? NG + 1) then VW x0 x1 ph w (NG - 1) else VW x0 x1 ph w i).
    { intros i. unfold VW, tokat. rewrite (Hsel y0 y1 eq_refl eq_refl). rewrite !(xb_get_xg g Hrg).
      destruct (i =? NG) eqn:E1; [assert (i = NG) by lia; subst i; cbn [orb]; now rewrite F1|].
      destruct (i =? NG + 1) eqn:E2; [assert (i = NG + 1) by lia; subst i; cbn [orb]; now rewrite F2|].
      cbn [orb]. rewrite F3 by lia. reflexivity. }
    destruct (process_core sc rt 2 cb w NG ic im y0 y1 ph R 0 0 (R * gM g * 2) e got avail ab)
      as (st' & rows & num & Hrun & Hn1 & Hn2 & Hn3 & Hn4 & Hn5 & Hn6 & Hn7); try lia; auto.
    + split; [auto|intros; lia].
    + unfold availR. assert (E : (R =? gT g - 1) = true) by lia. now rewrite E.
    + intros i Hi. rewrite HVW. destruct (i =? NG) eqn:E1.
      * cbn [orb]. rewrite Hvw by lia. unfold clampd. nia.
      * assert (E2 : (i =? NG + 1) = false) by lia. rewrite E2. cbn [orb]. rewrite Hvw by lia. unfold clampd. nia.
    + intros Habt _ _. rewrite HVW. assert (E1 : (-1 =? NG) = false) by lia. assert (E2 : (-1 =? NG + 1) = false) by lia.
      rewrite E1, E2. cbn [orb]. apply Hab, Habt.
    + exists st', rows, num. replace (R * gM g * 2 + num) with (R * gM g * 2 + num) in * by lia.
      splits; auto; try lia.
  - (* any other iMCU row *)
    assert (HRlt : R < gT g - 1) by lia.
    destruct (process_core sc rt 2 cb w (gM g - 1) ic im x0 x1 ph R 0 0 (R * gM g * 2) e got avail ab)
      as (st' & rows & num & Hrun & Hn1 & Hn2 & Hn3 & Hn4 & Hn5 & Hn6 & Hn7); try lia; auto.
    + split; [auto|intros; lia].
    + unfold availR. assert (E : (R =? gT g - 1) = false) by lia. now rewrite E.
    + intros i Hi. rewrite Hvw by lia. rewrite clampd_id; [reflexivity|nia].
    + intros _. exists W. split; assumption.
    + exists st', rows, num. splits; auto; try lia.
Qed.

Lemma rows_c_app s p q : 0 <= p -> 0 <= q -> rows_c g s (p + q) = rows_c g s p ++ rows_c g (s + p) q.
Proof.
  intros. unfold rows_c. rewrite Z2Nat.inj_add by lia.
  assert (Hz : forall a n m, zseq a (n + m) = zseq a n ++ zseq (a + Z.of_nat n) m).
  { intros a n. revert a. induction n as [|n IH]; intros a m; cbn [Nat.add zseq app].
    - f_equal. lia.
    - f_equal. rewrite IH. f_equal. f_equal. lia. }
  rewrite Hz, map_app. rewrite Z2Nat.id by lia. reflexivity.
Qed.

Lemma zlen_rows_c s n : 0 <= n -> zlen (rows_c g s n) = n.
Proof. intros. unfold rows_c, zlen. rewrite map_length, zseq_length'. lia. Qed.

(* ---------- after the postponed row group: CTX_PREPARE_FOR_IMCU of the next iMCU row, if the caller wants more ---------- *)
Lemma after_Q sc rt cb w x0 x1 ph R e rows avail :
  1 <= R -> R * gM g * 2 < gH g -> (w = 0 \/ w = 1) ->
  gH g - R * gM g * 2 <= rt -> (e = true -> rt = gH g - R * gM g * 2) -> zlen ph = gM g + 2 ->
  Shape g true x0 x1 ->
  (forall i, 0 <= i < gM g -> VW x0 x1 ph w i = R * gM g + i) ->
  VW x0 x1 ph w (gM g + 1) = R * gM g - 1 ->
  1 <= zlen rows <= avail -> (e = true \/ avail - zlen rows <= gH g - R * gM g * 2) ->
  exists st' rows' num',
    (if avail <=? zlen rows
     then (mkC sc true (gM g + 2) (R + 1) 2 rt cb w 0 (gM g + 2) (R + 1) x0 x1 ph, rows)
     else ctx_prepare g (mkC sc true (gM g + 2) (R + 1) 2 rt cb w 0 (gM g + 2) (R + 1) x0 x1 ph) rows avail)
    = (st', rows ++ rows') /\
    0 <= num' <= avail - zlen rows /\ R * gM g * 2 + num' <= gH g /\ rows' = rows_c g (R * gM g * 2) num' /\
    c_scan st' = sc /\
    (R * gM g * 2 + num' < gH g -> Core (R * gM g * 2 + num') e st').
Proof.
  intros HR HsH Hw Hrt1 Hrt2 Hph HS Hvw Hvm Hrows Hside.
  destruct (VW_wrap x0 x1 ph w HS Hw) as (Wm & _).
  assert (Hab : VW x0 x1 ph w (-1) = clampd (R * gM g - 1)).
  { rewrite Wm. rewrite <- (VW_place true x0 x1 ph w (gM g + 1) HS Hw) by lia. rewrite Hvm.
    destruct (pos_facts (R * gM g * 2) R 0 0 ltac:(lia) ltac:(lia) ltac:(lia) ltac:(lia) HsH) as (_ & HGd & _).
    rewrite clampd_id; [reflexivity|nia]. }
  destruct (avail <=? zlen rows) eqn:Ea.
  - eexists. exists [], 0. rewrite app_nil_r. splits; try reflexivity; try lia.
    intros _. replace (R * gM g * 2 + 0) with (R * gM g * 2) by lia.
    exists R, 0, 0. simp_c. splits; try lia; auto.
    + split; [auto|intros; lia].
    + right; right; right. unfold ModeB. simp_c. splits; auto.
  - destruct (prepare_ok sc (gM g + 2) rt cb w 0 (gM g + 2) (R + 1) (R + 1) x0 x1 ph R e rows avail true true)
      as (st' & rows' & num & Hrun & Hn1 & Hn2 & Hn3 & Hn4 & Hn5 & Hn6 & Hn7); try lia; auto.
    exists st', rows', num. splits; auto; try lia.
Qed.

(* ---------- process_data_context_main, one call ---------- *)
Definition MainOk (s : Z) (e : bool) (sc avail : Z) (res : cst * list prov) : Prop :=
  exists num, snd res = rows_c g s num /\ 1 <= num <= avail /\ s + num <= gH g /\ c_scan (fst res) = sc /\
    (s + num < gH g -> Core (s + num) e (fst res)).

Lemma main_S st R j k s e avail :
  s = (R * gM g + j) * 2 + k -> 0 <= R -> 0 <= j < gM g -> 0 <= k <= 1 -> s < gH g ->
  (c_which st = 0 \/ c_which st = 1) -> gH g - s <= c_rtg st -> (e = true -> c_rtg st = gH g - s) ->
  upOK s k (c_nro st) (c_cbuf st) -> zlen (c_phys st) = gM g + 2 -> ModeS st R j k ->
  1 <= avail -> (e = true \/ avail <= gH g - s) ->
  MainOk s e (c_scan st) avail (context_main g st avail).
Proof.
  intros Hs HR Hj Hk HsH Hw Hrt1 Hrt2 Hup Hph HMo Ha Hside.
  destruct st as [sc bf rc im nr rt cb w cs av ic x0 x1 ph]. unfold ModeS in HMo. simp_c_in HMo. simp_c_in Hw.
  simp_c_in Hrt1. simp_c_in Hrt2. simp_c_in Hup. simp_c_in Hph. simp_c.
  destruct HMo as (-> & -> & -> & -> & -> & -> & -> & -> & HS).
  destruct Hup as (Hup0 & _). rewrite (Hup0 eq_refl) in *.
  destruct (pos_facts s 0 0 0 Hs ltac:(lia) ltac:(lia) ltac:(lia) HsH) as (HRT & HGd & HjNG & HH0 & HT1).
  unfold context_main. simp_c.
  destruct (decode_ok sc rc 0 2 rt cb 0 0 av 0 x0 x1 ph false HS ltac:(auto) Hph ltac:(lia))
    as (ph' & Hdec & Hph' & Hd1 & Hd2).
  rewrite Hdec. simp_c. cbn [Z.eqb].
  assert (Hs0 : s = 0 * gM g * 2) by lia.
  destruct (prepare_ok sc rc rt cb 0 0 av 1 1 x0 x1 ph' 0 e [] avail true false)
    as (st' & rows & num & Hrun & Hn1 & Hn2 & Hn3 & Hn4 & Hn5 & Hn6 & Hn7); try lia; auto.
  - intros i Hi. rewrite (VW_place false x0 x1 ph' 0 i HS) by (auto; lia). rewrite Hd1 by lia. reflexivity.
  - intros _. unfold VW, tokat. rewrite (xb_get_xg g Hrg). cbn [xsel Z.eqb].
    destruct HS as (_ & _ & _ & HSf & _). rewrite (HSf eq_refl).
    pose proof (place_range g HM 0 0 ltac:(lia)). assert (E : (place g 0 0 <? 0) = false) by lia. rewrite E.
    rewrite Hd1 by lia. unfold clampd. pose proof dsh_bounds. lia.
  - change (zlen (@nil prov)) with 0. lia.
  - change (zlen (@nil prov)) with 0. lia.
  - change (zlen (@nil prov)) with 0 in *. cbn [app] in Hrun. change (0 + 1) with 1. rewrite Hrun.
    exists num. cbn [fst snd]. rewrite Hs0. splits; auto; try lia.
Qed.

Lemma main_P st R j k s e avail :
  s = (R * gM g + j) * 2 + k -> 0 <= R -> 0 <= j < gM g -> 0 <= k <= 1 -> s < gH g ->
  (c_which st = 0 \/ c_which st = 1) -> gH g - s <= c_rtg st -> (e = true -> c_rtg st = gH g - s) ->
  upOK s k (c_nro st) (c_cbuf st) -> zlen (c_phys st) = gM g + 2 -> ModeP st R j k ->
  1 <= avail -> (e = true \/ avail <= gH g - s) ->
  MainOk s e (c_scan st) avail (context_main g st avail).
Proof.
  intros Hs HR Hj Hk HsH Hw Hrt1 Hrt2 Hup Hph HMo Ha Hside.
  destruct st as [sc bf rc im nr rt cb w cs av ic x0 x1 ph]. unfold ModeP in HMo. simp_c_in HMo. simp_c_in Hw.
  simp_c_in Hrt1. simp_c_in Hrt2. simp_c_in Hup. simp_c_in Hph. simp_c.
  destruct HMo as (-> & -> & Hic & Him & -> & Hav_ & Hjav & Hjk & Hvw & HSh).
  unfold context_main. simp_c. cbn [Z.eqb].
  destruct (process_core sc rt nr cb w av ic im x0 x1 ph R j k s e [] avail true)
    as (st' & rows & num & Hrun & Hn1 & Hn2 & Hn3 & Hn4 & Hn5 & Hn6 & Hn7); try lia; auto.
  - intros i Hi. apply Hvw. lia.
  - change (zlen (@nil prov)) with 0. lia.
  - change (zlen (@nil prov)) with 0. lia.
  - change (zlen (@nil prov)) with 0 in *. cbn [app] in Hrun. rewrite Hrun.
    exists num. cbn [fst snd]. splits; auto; try lia.
Qed.

Lemma main_B st R j k s e avail :
  s = (R * gM g + j) * 2 + k -> 0 <= R -> 0 <= j < gM g -> 0 <= k <= 1 -> s < gH g ->
  (c_which st = 0 \/ c_which st = 1) -> gH g - s <= c_rtg st -> (e = true -> c_rtg st = gH g - s) ->
  upOK s k (c_nro st) (c_cbuf st) -> zlen (c_phys st) = gM g + 2 -> ModeB st R j k ->
  1 <= avail -> (e = true \/ avail <= gH g - s) ->
  MainOk s e (c_scan st) avail (context_main g st avail).
Proof.
  intros Hs HR Hj Hk HsH Hw Hrt1 Hrt2 Hup Hph HMo Ha Hside.
  destruct st as [sc bf rc im nr rt cb w cs av ic x0 x1 ph]. unfold ModeB in HMo. simp_c_in HMo. simp_c_in Hw.
  simp_c_in Hrt1. simp_c_in Hrt2. simp_c_in Hup. simp_c_in Hph. simp_c.
  destruct HMo as (-> & -> & HR1 & -> & -> & Hic & Him & HS & Hvw & Hvm).
  destruct Hup as (Hup0 & _). rewrite (Hup0 eq_refl) in *.
  unfold context_main. simp_c. cbn [Z.eqb].
  assert (Hs0 : s = R * gM g * 2) by lia.
  destruct (VW_wrap x0 x1 ph w HS Hw) as (Wm & _).
  destruct (pos_facts s R 0 0 Hs HR ltac:(lia) ltac:(lia) HsH) as (HRT & HGd & HjNG & HH0 & HT1).
  destruct (prepare_ok sc rc rt cb w 0 av ic im x0 x1 ph R e [] avail true true)
    as (st' & rows & num & Hrun & Hn1 & Hn2 & Hn3 & Hn4 & Hn5 & Hn6 & Hn7); try lia; auto.
  - intros _. rewrite Wm. rewrite <- (VW_place true x0 x1 ph w (gM g + 1) HS Hw) by lia. rewrite Hvm.
    rewrite clampd_id; [reflexivity|nia].
  - change (zlen (@nil prov)) with 0. lia.
  - change (zlen (@nil prov)) with 0. lia.
  - change (zlen (@nil prov)) with 0 in *. cbn [app] in Hrun. rewrite Hrun.
    exists num. cbn [fst snd]. rewrite Hs0. splits; auto; try lia.
Qed.

Lemma main_Q st R j k s e avail :
  s = (R * gM g + j) * 2 + k -> 0 <= R -> 0 <= j < gM g -> 0 <= k <= 1 -> s < gH g ->
  (c_which st = 0 \/ c_which st = 1) -> gH g - s <= c_rtg st -> (e = true -> c_rtg st = gH g - s) ->
  upOK s k (c_nro st) (c_cbuf st) -> zlen (c_phys st) = gM g + 2 -> ModeQ st R j k ->
  1 <= avail -> (e = true \/ avail <= gH g - s) ->
  MainOk s e (c_scan st) avail (context_main g st avail).
Proof.
  intros Hs HR Hj Hk HsH Hw Hrt1 Hrt2 Hup Hph HMo Ha Hside.
  destruct st as [sc bf rc im nr rt cb w cs av ic x0 x1 ph]. unfold ModeQ in HMo. simp_c_in HMo. simp_c_in Hw.
  simp_c_in Hrt1. simp_c_in Hrt2. simp_c_in Hup. simp_c_in Hph. simp_c.
  destruct HMo as (-> & HRlt & -> & -> & -> & HS & HQ0 & HQ1).
  destruct (pos_facts s R (gM g - 1) k Hs HR Hj Hk HsH) as (HRT & HGd & HjNG & HH0 & HT1).
  pose proof dsh_bounds as Hdb. pose proof dsh_NG as HdN.
  set (G := R * gM g + (gM g - 1)) in *.
  assert (HG1 : G + 1 = (R + 1) * gM g) by (unfold G; lia).
  assert (Hnext : (R + 1) * gM g < gdsh g) by nia.
  assert (HsB : (R + 1) * gM g * 2 < gH g) by nia.
  destruct Hup as (Hup0 & Hup1).
  unfold context_main. simp_c.
  assert (Hk' : k = 0 \/ k = 1) by lia. destruct Hk' as [-> | ->].
  - (* start of the postponed row group: the next iMCU row is decoded first *)
    destruct (HQ0 eq_refl) as (-> & Hic & Him & Hvm1 & Hvm). rewrite (Hup0 eq_refl) in *. clear HQ0 HQ1.
    destruct (decode_ok sc (gM g + 1) im 2 rt cb w 2 (gM g + 2) ic x0 x1 ph true HS Hw Hph ltac:(lia))
      as (ph' & Hdec & Hph' & Hd1 & Hd2).
    rewrite Hdec. simp_c. cbn [Z.eqb Pos.eqb].
    assert (V1 : VW x0 x1 ph' w (gM g + 1) = G).
    { rewrite (VW_place true x0 x1 ph' w (gM g + 1) HS Hw) by lia. rewrite Hd2 by lia.
      rewrite <- (VW_place true x0 x1 ph w (gM g + 1) HS Hw) by lia. rewrite Hvm1. unfold G. lia. }
    assert (V0 : VW x0 x1 ph' w (gM g) = G - 1).
    { rewrite (VW_place true x0 x1 ph' w (gM g) HS Hw) by lia. rewrite Hd2 by lia.
      rewrite <- (VW_place true x0 x1 ph w (gM g) HS Hw) by lia. rewrite Hvm. unfold G. lia. }
    assert (V2 : VW x0 x1 ph' w (gM g + 2) = G + 1).
    { destruct (VW_wrap x0 x1 ph' w HS Hw) as (_ & Wp). rewrite Wp. rewrite Hd1 by lia. subst im. lia. }
    assert (Vn : forall i, 0 <= i < gM g -> VW x0 x1 ph' w i = (R + 1) * gM g + i).
    { intros i Hi. rewrite (VW_place true x0 x1 ph' w i HS Hw) by lia. rewrite Hd1 by lia. subst im. reflexivity. }
    unfold sep_upsample_c. simp_c. rewrite Hv. cbn [Z.leb Z.compare Pos.compare Pos.compare_cont].
    unfold c_xb. simp_c. fold (xsel w x0 x1). rewrite group_prov_eq.
    fold (VW x0 x1 ph' w (gM g + 1)). fold (VW x0 x1 ph' w (gM g + 1 - 1)). fold (VW x0 x1 ph' w (gM g + 1 + 1)).
    replace (gM g + 1 - 1) with (gM g) by lia. replace (gM g + 1 + 1) with (gM g + 2) by lia.
    rewrite V1, V0, V2.
    unfold zdrop. change (Z.to_nat 0) with 0%nat. cbn [skipn].
    assert (Hr0 : (G, G - 1) = ideal_c g s).
    { replace s with (G * 2 + 0) by (unfold G; lia). rewrite ideal_c_eq by (unfold G; nia). cbn [Z.eqb]. f_equal.
      unfold G. nia. }
    assert (Hr1 : (G, G + 1) = ideal_c g (s + 1)).
    { replace (s + 1) with (G * 2 + 1) by (unfold G; lia). rewrite ideal_c_eq by (unfold G; nia). cbn [Z.eqb]. f_equal. lia. }
    rewrite Hr0, Hr1.
    set (num := Z.max 0 (Z.min (Z.min (2 - 0) rt) avail)).
    assert (Hnum : num = 1 \/ num = 2) by (unfold num; lia).
    destruct Hnum as [Hn | Hn]; rewrite Hn.
    + (* one row: the second row of the postponed group stays in the conversion buffer *)
      change (0 + 1) with 1. cbn [Z.leb Z.compare Pos.compare Pos.compare_cont]. simp_c.
      assert (E : (gM g + 1 <? gM g + 2) = true) by lia. rewrite E.
      exists 1. cbn [fst snd]. splits; try reflexivity; try lia.
      intros Hlt. exists R, (gM g - 1), 1. simp_c. splits; try lia; auto.
      * split; [intros; lia|]. intros _. split; [reflexivity|]. eexists. reflexivity.
      * right; right; left. unfold ModeQ. simp_c. splits; auto; try lia; try (intros; lia).
        intros _. splits; auto; try lia. all: try (rewrite V1; unfold G; lia).
    + (* both rows: the postponed group is done *)
      change (0 + 2) with 2. cbn [Z.leb Z.compare Pos.compare Pos.compare_cont]. simp_c.
      assert (E : (gM g + 2 <? gM g + 2) = false) by lia. rewrite E. unfold c_set_main. simp_c.
      change (ztake 2 [ideal_c g s; ideal_c g (s + 1)]) with [ideal_c g s; ideal_c g (s + 1)].
      assert (Hs2 : s + 2 <= gH g).
      { unfold num in Hn. destruct Hside as [He | Hle]; [rewrite (Hrt2 He) in Hn|]; lia. }
      assert (Hsb : s + 2 = (R + 1) * gM g * 2) by (unfold G in *; lia).
      subst im ic.
      destruct (after_Q sc (rt - 2) [ideal_c g s; ideal_c g (s + 1)] w x0 x1 ph' (R + 1) e
                        [ideal_c g s; ideal_c g (s + 1)] avail)
        as (st' & rows' & num' & Hrun & Hn1 & Hn3 & Hn5 & Hn6 & Hn7); try lia; auto.
      * change (zlen [ideal_c g s; ideal_c g (s + 1)]) with 2. unfold num in Hn. lia.
      * change (zlen [ideal_c g s; ideal_c g (s + 1)]) with 2. destruct Hside; [left; assumption | right; lia].
      * match goal with |- MainOk _ _ _ _ ?X =>
          replace X with (st', [ideal_c g s; ideal_c g (s + 1)] ++ rows') by (symmetry; exact Hrun) end.
        exists (2 + num'). cbn [fst snd]. change (zlen [ideal_c g s; ideal_c g (s + 1)]) with 2 in *.
        splits; auto; try lia.
        -- rewrite rows_c_app by lia. rewrite rows_c_2. rewrite Hn5. rewrite Hsb. reflexivity.
        -- intros Hlt. replace (s + (2 + num')) with ((R + 1) * gM g * 2 + num') by lia. apply Hn7. lia.
  - (* second row of the postponed row group *)
    destruct (HQ1 eq_refl) as (-> & Hic & Him & Vn & Hvm1). clear HQ0 HQ1.
    destruct (Hup1 eq_refl) as (-> & r0 & ->).
    cbn [Z.eqb Pos.eqb].
    unfold sep_upsample_c. simp_c. rewrite Hv. cbn [Z.leb Z.compare Pos.compare Pos.compare_cont].
    set (num := Z.max 0 (Z.min (Z.min (2 - 1) rt) avail)).
    assert (Hnum : num = 1) by (unfold num; lia). rewrite Hnum.
    change (1 + 1) with 2. cbn [Z.leb Z.compare Pos.compare Pos.compare_cont]. simp_c.
    assert (E : (gM g + 1 + 1 <? gM g + 2) = false) by lia. rewrite E. unfold c_set_main. simp_c.
    replace (gM g + 1 + 1) with (gM g + 2) by lia.
    assert (Hrows : ztake 1 (zdrop 1 [r0; ideal_c g s]) = [ideal_c g s]) by reflexivity. rewrite Hrows.
    assert (Hsb : s + 1 = (R + 1) * gM g * 2) by (unfold G in *; lia).
    subst im ic. replace (R + 2) with (R + 1 + 1) by lia.
    destruct (after_Q sc (rt - 1) [r0; ideal_c g s] w x0 x1 ph (R + 1) e [ideal_c g s] avail)
      as (st' & rows' & num' & Hrun & Hn1 & Hn3 & Hn5 & Hn6 & Hn7); try lia; auto.
    * change (zlen [ideal_c g s]) with 1. lia.
    * change (zlen [ideal_c g s]) with 1. destruct Hside; [left; assumption | right; lia].
    * match goal with |- MainOk _ _ _ _ ?X =>
        replace X with (st', [ideal_c g s] ++ rows') by (symmetry; exact Hrun) end.
      exists (1 + num'). cbn [fst snd]. change (zlen [ideal_c g s]) with 1 in *.
      splits; auto; try lia.
      -- rewrite rows_c_app by lia. rewrite rows_c_1. rewrite Hn5. rewrite Hsb. reflexivity.
      -- intros Hlt. replace (s + (1 + num')) with ((R + 1) * gM g * 2 + num') by lia. apply Hn7. lia.
Qed.

(* ---------- jpeg_read_scanlines, one call ---------- *)
Definition ReadOkC (s : Z) (e : bool) (avail : Z) (res : cst * list prov) : Prop :=
  exists num, snd res = rows_c g s num /\ 1 <= num <= avail /\ s + num <= gH g /\ c_scan (fst res) = s + num /\
    (s + num < gH g -> Core (s + num) e (fst res)).

Lemma read_call_c s e st avail :
  c_scan st = s -> Core s e st -> 1 <= avail -> (e = true \/ avail <= gH g - s) ->
  ReadOkC s e avail (read_scanlines_c g st avail).
Proof.
  intros Hsc (R & j & k & Hs & HR & Hj & Hk & HsH & Hw & Hrt1 & Hrt2 & Hup & Hph & HMo) Ha Hside.
  unfold read_scanlines_c. rewrite Hsc. assert (E : (gH g <=? s) = false) by lia. rewrite E.
  assert (HM_ : MainOk s e (c_scan st) avail (context_main g st avail)).
  { destruct HMo as [HMo | [HMo | [HMo | HMo]]].
    - eapply main_S; eauto.
    - eapply main_P; eauto.
    - eapply main_Q; eauto.
    - eapply main_B; eauto. }
  destruct (context_main g st avail) as [st1 rows]. destruct HM_ as (num & Hrows & Hn1 & Hn2 & Hscan & HC).
  cbn [fst snd] in *. exists num. cbn [fst snd]. subst rows. rewrite zlen_rows_c by lia.
  destruct st1. unfold c_set_scan. simp_c. simp_c_in Hscan. splits; auto; try lia.
Qed.

(* ---------- read_and_discard_scanlines ---------- *)
Lemma rad_c n : forall s e st, c_scan st = s -> Core s e st -> s + Z.of_nat n <= gH g ->
  c_scan (read_and_discard_c g n st) = s + Z.of_nat n /\
  (s + Z.of_nat n < gH g -> Core (s + Z.of_nat n) e (read_and_discard_c g n st)).
Proof.
  induction n as [|n IH]; intros s e st Hsc HC Hle.
  - cbn [read_and_discard_c]. replace (s + Z.of_nat 0) with s by lia. split; [assumption|]. intros _. exact HC.
  - cbn [read_and_discard_c].
    assert (HsH : s < gH g) by (destruct HC as (R & j & k & _ & _ & _ & _ & H & _); exact H).
    destruct (read_call_c s e st 1 Hsc HC ltac:(lia) ltac:(right; lia)) as (k & Hrows & Hk & HkH & Hsc1 & HC1).
    assert (k = 1) by lia. subst k.
    set (st1 := fst (read_scanlines_c g st 1)) in *.
    destruct (Z.eq_dec (s + 1) (gH g)) as [Heq | Hne].
    + assert (n = 0%nat) by lia. subst n. cbn [read_and_discard_c]. split; [lia|]. intros; lia.
    + destruct (IH (s + 1) e st1 Hsc1 (HC1 ltac:(lia)) ltac:(lia)) as (A & B).
      split; [lia|]. intros Hlt. replace (s + Z.of_nat (S n)) with (s + 1 + Z.of_nat n) by lia. apply B. lia.
Qed.

(* ---------- op Read n ---------- *)
Lemma read_loop_c_zero fuel st n : n <= 0 -> read_loop_c g fuel st n = (st, [], []).
Proof. intros. destruct fuel; cbn [read_loop_c]; [reflexivity|]. assert (E : (n <=? 0) = true) by lia. rewrite E. reflexivity. Qed.

Lemma read_loop_c_bottom fuel st n : gH g <= c_scan st -> read_loop_c g fuel st n = (st, [], []).
Proof.
  intros. destruct fuel; cbn [read_loop_c]; [reflexivity|].
  assert (E : (gH g <=? c_scan st) = true) by lia. rewrite E, orb_true_r. reflexivity.
Qed.

Fixpoint zsumc (l : list Z) : Z := match l with [] => 0 | x :: t => x + zsumc t end.

Lemma read_loop_c_ok fuel : forall s st n,
  c_scan st = s -> Core s true st -> 0 < n -> n <= Z.of_nat fuel ->
  exists st' cs, read_loop_c g fuel st n = (st', cs, rows_c g s (Z.min n (gH g - s))) /\
    c_scan st' = Z.min (gH g) (s + n) /\ Forall (fun c => 1 <= c) cs /\ zsumc cs = Z.min n (gH g - s) /\
    (s + n < gH g -> Core (s + n) true st').
Proof.
  induction fuel as [|f IH]; intros s st n Hsc HC Hn Hfu; [lia|].
  assert (HsH : s < gH g) by (destruct HC as (R & j & k & _ & _ & _ & _ & H & _); exact H).
  cbn [read_loop_c]. rewrite Hsc.
  assert (E : ((n <=? 0) || (gH g <=? s)) = false) by lia. rewrite E. clear E.
  destruct (read_call_c s true st n Hsc HC ltac:(lia) ltac:(left; reflexivity)) as (k & Hrows & Hk & HkH & Hsc1 & HC1).
  destruct (read_scanlines_c g st n) as [st1 rows] eqn:Er. cbn [fst snd] in *. subst rows.
  rewrite zlen_rows_c by lia. assert (E : (k =? 0) = false) by lia. rewrite E. clear E.
  destruct (Z.eq_dec k n) as [Hkn | Hkn].
  - subst k. rewrite read_loop_c_zero by lia.
    exists st1, [n]. replace (Z.min n (gH g - s)) with n by lia. rewrite app_nil_r.
    splits; try lia; try reflexivity.
    + constructor; [lia|constructor].
    + cbn. lia.
    + exact HC1.
  - destruct (Z.eq_dec (s + k) (gH g)) as [Hb | Hb].
    + rewrite read_loop_c_bottom by lia.
      exists st1, [k]. replace (Z.min n (gH g - s)) with k by lia. rewrite app_nil_r.
      splits; try lia; try reflexivity.
      * constructor; [lia|constructor].
      * cbn. lia.
    + destruct (IH (s + k) st1 (n - k) Hsc1 (HC1 ltac:(lia)) ltac:(lia) ltac:(lia))
        as (st2 & cs & Hrl & Hsc2 & Hall & Hsum & HC2).
      rewrite Hrl. exists st2, (k :: cs).
      splits; try lia.
      * f_equal. replace (Z.min n (gH g - s)) with (k + Z.min (n - k) (gH g - (s + k))) by lia.
        rewrite rows_c_app by lia. reflexivity.
      * constructor; [lia|assumption].
      * cbn [zsumc]. lia.
      * intros Hx. replace (s + n) with (s + k + (n - k)) by lia. apply HC2. lia.
Qed.

(* rows_to_go := output_height - output_scanline *)
Lemma Core_reset_rtg s e st : c_scan st = s -> Core s e st ->
  Core s true (mkC (c_scan st) (c_bfull st) (c_rgctr st) (c_imcu st) (c_nro st) (gH g - c_scan st) (c_cbuf st)
                   (c_which st) (c_state st) (c_avail st) (c_ictr st) (c_xb0 st) (c_xb1 st) (c_phys st)).
Proof.
  intros Hsc (R & j & k & Hs & HR & Hj & Hk & HsH & Hw & Hrt1 & Hrt2 & Hup & Hph & HMo).
  destruct st as [sc bf rc im nr rt cb w cs av ic x0 x1 ph]. simp_c. simp_c_in Hsc. subst sc.
  exists R, j, k. simp_c. splits; auto; try lia.
Qed.

(* ---------- the state right after the jump of jpeg_skip_scanlines, and the lines it then reads and discards ---------- *)
Lemma jump_rad sc rc rt cb w av x0 x1 ph R2 n :
  0 <= R2 -> sc = R2 * gM g * 2 -> (w = 0 \/ w = 1) -> Shape g true x0 x1 -> zlen ph = gM g + 2 ->
  gH g - sc <= rt -> (1 <= n)%nat -> sc + Z.of_nat n < gH g ->
  let st' := read_and_discard_c g n (mkC sc false rc R2 2 rt cb w 0 av R2 x0 x1 ph) in
  c_scan st' = sc + Z.of_nat n /\ Core (sc + Z.of_nat n) false st'.
Proof.
  intros HR Hsc Hw HS Hph Hrt Hn HnH. destruct n as [|n]; [lia|]. cbn [read_and_discard_c].
  destruct (pos_facts sc R2 0 0 ltac:(lia) HR ltac:(lia) ltac:(lia) ltac:(lia)) as (HRT & HGd & HjNG & HH0 & HT1).
  (* the first discarded line: decode, prepare, process with one output row *)
  assert (H1 : exists st1, fst (read_scanlines_c g (mkC sc false rc R2 2 rt cb w 0 av R2 x0 x1 ph) 1) = st1 /\
                           c_scan st1 = sc + 1 /\ Core (sc + 1) false st1).
  { unfold read_scanlines_c. simp_c. assert (E : (gH g <=? sc) = false) by lia. rewrite E.
    unfold context_main. simp_c.
    destruct (decode_ok sc rc R2 2 rt cb w 0 av R2 x0 x1 ph true HS Hw Hph ltac:(lia))
      as (ph' & Hdec & Hph' & Hd1 & Hd2).
    rewrite Hdec. simp_c. cbn [Z.eqb].
    destruct (prepare_ok sc rc rt cb w 0 av (R2 + 1) (R2 + 1) x0 x1 ph' R2 false [] 1 false true)
      as (st' & rows & num & Hrun & Hn1 & Hn2 & Hn3 & Hn4 & Hn5 & Hn6 & Hn7); try lia; auto.
    - intros i Hi. rewrite (VW_place true x0 x1 ph' w i HS Hw) by lia. apply Hd1. lia.
    - change (zlen (@nil prov)) with 0. lia.
    - change (zlen (@nil prov)) with 0. right. lia.
    - change (zlen (@nil prov)) with 0 in *. cbn [app] in Hrun. rewrite Hrun. cbn [fst snd].
      assert (Hnum1 : num = 1) by lia. rewrite Hnum1 in *.
      eexists. split; [reflexivity|]. destruct st'. unfold c_set_scan. simp_c. simp_c_in Hn6. rewrite Hn4.
      split; [lia|]. rewrite <- Hsc in Hn7. apply Hn7. lia. }
  destruct H1 as (st1 & Hst1 & Hsc1 & HC1). rewrite Hst1.
  destruct (rad_c n (sc + 1) false st1 Hsc1 HC1 ltac:(lia)) as (A & B).
  cbv zeta. split; [lia|]. replace (sc + Z.of_nat (S n)) with (sc + 1 + Z.of_nat n) by lia. apply B. lia.
Qed.

(* ---------- jpeg_skip_scanlines, branch need_context_rows ---------- *)
Lemma mod_L s R j k : s = (R * gM g + j) * 2 + k -> 0 <= R -> 0 <= j < gM g -> 0 <= k <= 1 ->
  s mod gL g = 2 * j + k /\ s / gL g = R.
Proof.
  intros Hs HR Hj Hk. rewrite gL_eq.
  assert (He : s = gM g * 2 * R + (2 * j + k)) by lia.
  split; symmetry.
  - apply (Z.mod_unique_pos s (gM g * 2) R (2 * j + k)); [lia | assumption].
  - apply (Z.div_unique_pos s (gM g * 2) R (2 * j + k)); [lia | assumption].
Qed.

Lemma ll_val off : 0 <= off < gL g ->
  (gL g - off) mod gL g = if off =? 0 then 0 else gL g - off.
Proof.
  intros Ho. destruct (off =? 0) eqn:E.
  - assert (off = 0) by lia. subst. rewrite Z.sub_0_r. apply Z_mod_same_full.
  - apply Z.mod_small. lia.
Qed.

(* with v = 2 the repaired test "lines_left < max_v_samp_factor" coincides with "lines_left <= 1" *)
Lemma near_eq x : (if gfx6 g then x <? gv g else x <=? 1) = (x <=? 1).
Proof. rewrite Hv. destruct (gfx6 g); [|reflexivity]. destruct (x <? 2) eqn:A, (x <=? 1) eqn:B; try reflexivity; lia. Qed.

(* the jump: the rest of the current iMCU row (and the already decoded next one) and whole iMCU rows are
   skipped, the remaining 1..L lines are read and discarded *)
Lemma skip_jump_ok sc bf rc im nr rt cb w cs av ic x0 x1 ph n R1 W :
  sc + n < gH g -> 0 < n -> 0 <= sc ->
  ((n <? (gL g - sc mod gL g) mod gL g + 1) ||
   (((gL g - sc mod gL g) mod gL g <=? 1) && bf && (n - (gL g - sc mod gL g) mod gL g <? gL g + 1))) = false ->
  (if ((gL g - sc mod gL g) mod gL g <=? 1) && bf
   then sc + (gL g - sc mod gL g) mod gL g + gL g else sc + (gL g - sc mod gL g) mod gL g) = R1 * gL g ->
  0 <= R1 -> im = R1 -> ic = R1 -> (w = 0 \/ w = 1) -> zlen ph = gM g + 2 ->
  Shape g W x0 x1 ->
  (((ic =? 0) || ((ic =? 1) && (2 <? (gL g - sc mod gL g) mod gL g))) = false -> W = true) ->
  exists st', skip_c g (mkC sc bf rc im nr rt cb w cs av ic x0 x1 ph) n = (st', n) /\
              c_scan st' = sc + n /\ Core (sc + n) true st'.
Proof.
  intros HnH Hn Hsc0 Hcond Hscan1 HR1 Him Hic Hw Hph HS HW.
  unfold skip_c. simp_c. cbv zeta. rewrite ?near_eq.
  assert (E1 : (gH g <=? sc + n) = false) by lia. assert (E2 : (n =? 0) = false) by lia. rewrite E1, E2.
  set (L := gL g) in *. set (ll := (L - sc mod L) mod L) in *. set (la := n - ll) in *.
  rewrite Hcond.
  assert (HL : L = gM g * 2) by apply gL_eq. assert (HLpos : 0 < L) by lia.
  assert (Hll : 0 <= ll < L) by (unfold ll; apply Z.mod_pos_bound; lia).
  set (ahead := (ll <=? 1) && bf) in *.
  set (scan1 := if ahead then sc + ll + L else sc + ll) in *.
  set (la1 := if ahead then la - L else la).
  assert (Hla1 : 1 <= la1 /\ scan1 + la1 = sc + n).
  { unfold la1, scan1, la, ahead in *. destruct ((ll <=? 1) && bf) eqn:Ea.
    - cbn [andb] in Hcond. lia.
    - lia. }
  destruct Hla1 as (Hla1 & Hsum).
  (* the pointer lists after the optional set_wraparound_pointers *)
  set (st1 := if (ic =? 0) || ((ic =? 1) && (2 <? ll))
              then set_wraparound g (mkC sc bf rc im nr rt cb w cs av ic x0 x1 ph)
              else mkC sc bf rc im nr rt cb w cs av ic x0 x1 ph).
  assert (Hst1 : exists y0 y1, st1 = mkC sc bf rc im nr rt cb w cs av ic y0 y1 ph /\ Shape g true y0 y1).
  { unfold st1. destruct ((ic =? 0) || ((ic =? 1) && (2 <? ll))) eqn:Ew.
    - exists (wrap_one g x0), (wrap_one g x1). split; [reflexivity|]. apply (wrap_shape g Hrg HM W); assumption.
    - exists x0, x1. split; [reflexivity|]. rewrite <- (HW eq_refl). assumption. }
  destruct Hst1 as (y0 & y1 & Hst1e & HS2). rewrite Hst1e. clear Hst1e st1 HW HS.
  clearbody scan1 la1 ahead. clear Hcond la. clearbody ll. clearbody L.
  simp_c. rewrite Hv.
  set (q := (la1 - 1) / L).
  assert (Hq : la1 - 1 = L * q + (la1 - 1) mod L /\ 0 <= (la1 - 1) mod L < L /\ 0 <= q).
  { unfold q. pose proof (Z.div_mod (la1 - 1) L). pose proof (Z.mod_pos_bound (la1 - 1) L).
    assert (0 <= (la1 - 1) / L) by (apply Z.div_pos; lia). lia. }
  destruct Hq as (Hqe & Hqr & Hq0). clearbody q.
  set (ltr := la1 - q * L).
  assert (Hltr : 1 <= ltr <= L) by (unfold ltr; lia).
  assert (Hqd : q * L / L = q) by (rewrite Z.div_mul by lia; reflexivity). rewrite Hqd.
  subst im ic.
  set (R2 := R1 + q).
  assert (Hs2 : scan1 + q * L = R2 * gM g * 2) by (unfold R2; rewrite Hscan1, HL; lia).
  rewrite Hs2.
  assert (Hs2n : R2 * gM g * 2 + ltr = sc + n) by (unfold ltr; rewrite <- Hs2; lia).
  assert (Hs2H : R2 * gM g * 2 + ltr < gH g) by lia.
  assert (HR2 : 0 <= R2) by (unfold R2; lia).
  assert (Hrtj : gH g - R2 * gM g * 2 <= gH g - scan1) by (rewrite <- Hs2; nia).
  clearbody ltr. clearbody R2.
  destruct (jump_rad (R2 * gM g * 2) 0 (gH g - scan1) cb w av y0 y1 ph R2 (Z.to_nat ltr) HR2 eq_refl Hw HS2 Hph Hrtj
                     ltac:(lia) ltac:(lia)) as (Hsc4 & HC4).
  rewrite Z2Nat.id in Hsc4, HC4 by lia. rewrite Hs2n in Hsc4, HC4.
  set (st4 := read_and_discard_c g (Z.to_nat ltr) (mkC (R2 * gM g * 2) false 0 R2 2 (gH g - scan1) cb w 0 av R2 y0 y1 ph)) in *.
  clearbody st4.
  eexists. split; [reflexivity|]. simp_c. split; [assumption|].
  apply (Core_reset_rtg (sc + n) false); assumption.
Qed.

Definition RelC (s : Z) (st : cst) : Prop :=
  c_scan st = s /\ 0 <= s <= gH g /\ (s < gH g -> Core s true st).

Lemma jdim_small_c x : 0 <= x < 4294967296 -> jdim x = x.
Proof. intros. unfold jdim. apply Z.mod_small. lia. Qed.

Lemma skip_c_ok s st n : RelC s st -> 0 <= n ->
  exists st', skip_c g st n = (st', Z.min (gH g) (s + n) - s) /\ RelC (Z.min (gH g) (s + n)) st'.
Proof.
  intros (Hsc & Hs & HC) Hn.
  destruct (Z_le_gt_dec (gH g) (s + n)) as [Hge | Hlt].
  { unfold skip_c. rewrite Hsc. assert (E : (gH g <=? s + n) = true) by lia. rewrite E.
    eexists. split; [rewrite jdim_small_c by lia; f_equal; lia|].
    destruct st. unfold RelC, c_set_scan. simp_c. splits; try lia. }
  destruct (Z.eq_dec n 0) as [-> | Hn0].
  { unfold skip_c. rewrite Hsc. assert (E : (gH g <=? s + 0) = false) by lia. rewrite E. cbn [Z.eqb].
    exists st. split; [f_equal; lia|]. replace (Z.min (gH g) (s + 0)) with s by lia. unfold RelC. auto. }
  replace (Z.min (gH g) (s + n)) with (s + n) by lia. replace (s + n - s) with n by lia.
  specialize (HC ltac:(lia)).
  pose proof HC as HC0.
  destruct HC0 as (R & j & k & Hse & HR & Hj & Hk & HsH & Hw & Hrt1 & Hrt2 & Hup & Hph & HMo).
  destruct (mod_L s R j k Hse HR Hj Hk) as (HmL & HdL).
  pose proof gL_eq as HL.
  assert (Hoff : 0 <= 2 * j + k < gL g) by lia.
  pose proof (ll_val (2 * j + k) Hoff) as Hllv.
  destruct (pos_facts s R j k Hse HR Hj Hk HsH) as (HRT & HGd & HjNG & HH0 & HT1).
  (* either everything is read and discarded, or the jump *)
  set (ll := (gL g - s mod gL g) mod gL g) in *.
  assert (Hllv' : ll = if 2 * j + k =? 0 then 0 else gL g - (2 * j + k)) by (unfold ll; rewrite HmL; exact Hllv).
  assert (Hllraw : (gL g - s mod gL g) mod gL g = ll) by reflexivity.
  clearbody ll. clear Hllv.
  destruct ((n <? ll + 1) || ((ll <=? 1) && c_bfull st && (n - ll <? gL g + 1))) eqn:Econd.
  { unfold skip_c. cbv zeta. rewrite ?near_eq. rewrite Hsc. assert (E1 : (gH g <=? s + n) = false) by lia. assert (E2 : (n =? 0) = false) by lia.
    rewrite E1, E2, Hllraw, Econd.
    destruct (rad_c (Z.to_nat n) s true st Hsc HC ltac:(lia)) as (A & B). rewrite Z2Nat.id in A, B by lia.
    eexists. split; [reflexivity|]. unfold RelC. splits; auto; lia. }
  assert (Hjump : exists R1 W,
            (if (ll <=? 1) && c_bfull st then s + ll + gL g else s + ll) = R1 * gL g /\
            0 <= R1 /\ c_imcu st = R1 /\ c_ictr st = R1 /\ Shape g W (c_xb0 st) (c_xb1 st) /\
            (((c_ictr st =? 0) || ((c_ictr st =? 1) && (2 <? ll))) = false -> W = true)).
  { destruct HMo as [HMo | [HMo | [HMo | HMo]]].
    - (* start of the image *)
      destruct HMo as (-> & -> & -> & Hbf & _ & Hic & Him & _ & HS).
      assert (Hl0 : ll = 0) by (rewrite Hllv'; reflexivity).
      exists 0, false. rewrite Hbf, Hic, Hl0. cbn [Z.eqb Z.leb Z.compare andb orb]. splits; auto; try lia; try discriminate.
    - (* inside an iMCU row, CTX_PROCESS_IMCU *)
      destruct HMo as (_ & Hbf & Hic & Him & _ & Hav_ & Hjav & Hjk & _ & HSh).
      assert (Hl0 : ll = gL g - (2 * j + k)).
      { rewrite Hllv'. assert (E0 : (2 * j + k =? 0) = false) by lia. now rewrite E0. }
      rewrite Hbf in Econd.
      assert (HRlt : R < gT g - 1).
      { destruct (Z.eq_dec R (gT g - 1)) as [HRl | HRl]; [|lia]. exfalso.
        assert (n < gL g - (2 * j + k)) by nia. lia. }
      assert (Hj2 : j <= gM g - 2).
      { unfold availR in Hjav. assert (E : (R =? gT g - 1) = false) by lia. rewrite E in Hjav. lia. }
      destruct (HSh HRlt) as (W & HS & HW).
      exists (R + 1), W. assert (E1 : (ll <=? 1) = false) by lia. rewrite E1. cbn [andb].
      rewrite Hic. splits; auto; try lia.
      all: try (intros Hc; apply HW; destruct (Z.eq_dec R 0) as [HR0 | HR0]; [|lia]; subst R;
                assert (E2 : (2 <? ll) = true) by lia; rewrite E2 in Hc; cbn [Z.add Z.eqb Pos.eqb orb andb] in Hc; discriminate).
    - (* the postponed row group *)
      destruct HMo as (-> & HRlt & _ & _ & _ & HS & HQ0 & HQ1).
      assert (Hk' : k = 0 \/ k = 1) by lia. destruct Hk' as [-> | ->].
      + destruct (HQ0 eq_refl) as (Hbf & Hic & Him & _).
        assert (Hl0 : ll = 2).
        { rewrite Hllv'. assert (E0 : (2 * (gM g - 1) + 0 =? 0) = false) by lia. rewrite E0. lia. }
        exists (R + 1), true. rewrite Hbf, Hl0. cbn [Z.leb Z.compare Pos.compare Pos.compare_cont andb].
        splits; auto; lia.
      + destruct (HQ1 eq_refl) as (Hbf & Hic & Him & _).
        assert (Hl0 : ll = 1).
        { rewrite Hllv'. assert (E0 : (2 * (gM g - 1) + 1 =? 0) = false) by lia. rewrite E0. lia. }
        exists (R + 2), true. rewrite Hbf, Hl0. cbn [Z.leb Z.compare Pos.compare Pos.compare_cont andb].
        splits; auto; lia.
    - (* iMCU row boundary, next row already decoded *)
      destruct HMo as (-> & -> & HR1 & _ & Hbf & Hic & Him & HS & _).
      assert (Hl0 : ll = 0) by (rewrite Hllv'; reflexivity).
      exists (R + 1), true. rewrite Hbf, Hl0. cbn [Z.leb Z.compare andb].
      splits; auto; lia. }
  destruct Hjump as (R1 & W & Hsc1 & HR1 & Him & Hic & HS & HW).
  destruct st as [sc bf rc im nr rt cb w cs av ic x0 x1 ph]. simp_c_in Hsc. subst sc. simp_c_in Econd. simp_c_in Hsc1.
  simp_c_in Him. simp_c_in Hic. simp_c_in HS. simp_c_in HW. simp_c_in Hw. simp_c_in Hph.
  destruct (skip_jump_ok s bf rc im nr rt cb w cs av ic x0 x1 ph n R1 W) as (st' & Hsk & Hsc' & HC');
    try rewrite Hllraw; auto; try lia.
  exists st'. split; [assumption|]. unfold RelC. splits; auto; lia.
Qed.

(* ---------- ops, traces, the run ---------- *)
Definition opnn (o : op) : Prop := match o with Read _ => True | Skip n => 0 <= n end.
Definition opamt (o : op) : Z := match o with Read n => Z.max 0 n | Skip n => n end.

Definition op_result_okc (s : Z) (o : op) (cs : list Z) (rs : list prov) (after : Z) : Prop :=
  after = Z.min (gH g) (s + opamt o) /\
  zsumc cs = after - s /\
  match o with
  | Read _ => rs = rows_c g s (after - s) /\ Forall (fun c => 1 <= c) cs
  | Skip _ => rs = [] /\ cs = [after - s]
  end.

Lemma step_c_ok s st o : RelC s st -> opnn o ->
  exists st' cs rs, step_c g st o = (st', (cs, rs)) /\ RelC (Z.min (gH g) (s + opamt o)) st' /\
    op_result_okc s o cs rs (Z.min (gH g) (s + opamt o)).
Proof.
  intros HR Hnn. destruct o as [n | n]; cbn [step_c opamt].
  - destruct HR as (Hsc & Hs & HC).
    destruct (Z_le_gt_dec n 0) as [Hn0 | Hn0].
    { rewrite read_loop_c_zero by lia. exists st, [], []. replace (Z.min (gH g) (s + Z.max 0 n)) with s by lia.
      splits; try reflexivity; [unfold RelC; auto | unfold op_result_okc; cbn [opamt zsumc]; splits; try lia; auto].
      replace (s - s) with 0 by lia. reflexivity. }
    destruct (Z_le_gt_dec (gH g) s) as [Hb | Hb].
    { rewrite read_loop_c_bottom by lia. exists st, [], []. replace (Z.min (gH g) (s + Z.max 0 n)) with s by lia.
      splits; try reflexivity; [unfold RelC; auto | unfold op_result_okc; cbn [opamt zsumc]; splits; try lia; auto].
      replace (s - s) with 0 by lia. reflexivity. }
    destruct (read_loop_c_ok (Z.to_nat n) s st n Hsc (HC ltac:(lia)) ltac:(lia) ltac:(lia))
      as (st' & cs & Hrl & Hsc' & Hall & Hsum & HC').
    rewrite Hrl. exists st', cs, (rows_c g s (Z.min n (gH g - s))).
    replace (Z.max 0 n) with n by lia.
    splits; try reflexivity.
    + unfold RelC. splits; try lia. intros Hlt. replace (Z.min (gH g) (s + n)) with (s + n) by lia. apply HC'. lia.
    + unfold op_result_okc. cbn [opamt]. replace (Z.max 0 n) with n by lia.
      replace (Z.min (gH g) (s + n) - s) with (Z.min n (gH g - s)) by lia. splits; auto.
  - cbn in Hnn. destruct (skip_c_ok s st n HR Hnn) as (st' & Hsk & HR').
    rewrite Hsk. exists st', [Z.min (gH g) (s + n) - s], [].
    splits; try reflexivity; auto. unfold op_result_okc. cbn [opamt zsumc]. splits; auto; lia.
Qed.

Fixpoint trace_okc (s : Z) (ops : list op) (tr : list (Z * list Z * list prov * Z)) : Prop :=
  match ops, tr with
  | [], [] => True
  | o :: t, (before, cs, rs, after) :: tr' => before = s /\ op_result_okc s o cs rs after /\ trace_okc after t tr'
  | _, _ => False
  end.

Fixpoint final_posc (s : Z) (ops : list op) : Z :=
  match ops with [] => s | o :: t => final_posc (Z.min (gH g) (s + opamt o)) t end.

Lemma run_c_ok ops : forall s st, Forall opnn ops -> RelC s st ->
  c_scan (fst (run_c g st ops)) = final_posc s ops /\ trace_okc s ops (snd (run_c g st ops)).
Proof.
  induction ops as [|o t IH]; intros s st Hnn HR.
  - cbn. split; [apply HR | exact I].
  - assert (Ho : opnn o) by (inversion Hnn; assumption). assert (Ht : Forall opnn t) by (inversion Hnn; assumption).
    destruct (step_c_ok s st o HR Ho) as (st1 & cs & rs & Hst & HR1 & Hres).
    cbn [run_c]. rewrite Hst.
    destruct (IH _ st1 Ht HR1) as (A & B).
    destruct (run_c g st1 t) as [st2 tr] eqn:Er. cbn [fst snd] in *.
    assert (Hsc : c_scan st = s) by apply HR. assert (Hsc1 : c_scan st1 = Z.min (gH g) (s + opamt o)) by apply HR1.
    split.
    + cbn [final_posc]. exact A.
    + cbn [trace_okc]. rewrite Hsc, Hsc1. splits; auto.
Qed.

Lemma RelC_init : RelC 0 (c_init g).
Proof.
  pose proof (make_funny_shape g Hrg HM) as HS.
  unfold c_init. destruct (make_funny g) as [x0 x1]. cbn [fst snd] in HS.
  unfold RelC. simp_c. splits; try lia. intros HH0.
  exists 0, 0, 0. simp_c. rewrite Hv. splits; try lia; auto.
  - split; [auto|intros; lia].
  - unfold zlen. rewrite map_length, zseq_length'. rewrite Hrg. lia.
  - left. unfold ModeS. simp_c. splits; auto.
Qed.

Lemma final_posc_min ops : forall s, 0 <= s <= gH g -> Forall opnn ops ->
  final_posc s ops = Z.min (gH g) (s + fold_right (fun o acc => opamt o + acc) 0 ops).
Proof.
  induction ops as [|o t IH]; intros s Hs Hnn; cbn [final_posc fold_right]; [lia|].
  assert (Ho : opnn o) by (inversion Hnn; assumption). assert (Ht : Forall opnn t) by (inversion Hnn; assumption).
  assert (0 <= opamt o) by (destruct o; cbn in *; lia).
  assert (Hacc : 0 <= fold_right (fun o acc => opamt o + acc) 0 t).
  { clear -Ht. induction t as [|o' t' IH']; cbn; [lia|].
    assert (Ho' : opnn o') by (inversion Ht; assumption). assert (Ht' : Forall opnn t') by (inversion Ht; assumption).
    assert (0 <= opamt o') by (destruct o'; cbn in *; lia). specialize (IH' Ht'). lia. }
  rewrite IH by (try assumption; lia). lia.
Qed.

Theorem ctx_v2_run ops : Forall opnn ops ->
  c_scan (fst (run_c g (c_init g) ops)) = Z.min (gH g) (fold_right (fun o acc => opamt o + acc) 0 ops) /\
  trace_okc 0 ops (snd (run_c g (c_init g) ops)).
Proof.
  intros Hnn. destruct (run_c_ok ops 0 (c_init g) Hnn RelC_init) as (A & B). split; [|exact B].
  rewrite A. rewrite final_posc_min by (try assumption; lia). f_equal.
Qed.

End CtxRead.
