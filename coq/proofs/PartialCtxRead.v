(* C08 -- context main controller, max_v_samp_factor = 2: the invariant and one call of
   jpeg_read_scanlines (process_data_context_main + sep_upsample). *)
From Coq Require Import List ZArith Lia Bool ZifyBool.
From LJT Require Import model.Partial proofs.PartialCtxBase.
Import ListNotations.
Local Open Scope Z_scope.

Ltac splits := repeat match goal with |- _ /\ _ => split end.
Ltac simp_c := cbn [c_scan c_bfull c_rgctr c_imcu c_nro c_rtg c_cbuf c_which c_state c_avail c_ictr c_xb0 c_xb1 c_phys fst snd].
Ltac simp_c_in H := cbn [c_scan c_bfull c_rgctr c_imcu c_nro c_rtg c_cbuf c_which c_state c_avail c_ictr c_xb0 c_xb1 c_phys fst snd] in H.
Ltac case_ifs := repeat match goal with |- context [if ?b then _ else _] => destruct b eqn:? end.

Definition rows_c (g : geom) (s n : Z) : list prov := map (ideal_c g) (zseq s (Z.to_nat n)).

Section CtxRead.
Variable g : geom.
Hypothesis Hrg : grg g = 1.
Hypothesis HM : 2 <= gM g.
Hypothesis Hv : gv g = 2.
Hypothesis Hf : gfancyv g = true.
Hypothesis HH : 0 <= gH g < 4294967296.
Hypothesis HT : (gT g - 1) * (gM g * 2) < gH g <= gT g * (gM g * 2).
Hypothesis Hdsh : gdsh g = (gH g + 1) / 2.
Hypothesis Hhr : gT g * gM g <= ghrows g.
Hypothesis Hrg0 : 1 <= grg0 g.

(* number of row groups of the last iMCU row *)
Definition NG : Z := (gH g - (gT g - 1) * (gM g * 2) + 1) / 2.
Hypothesis Hav : (rows_left_of (gdsh0 g) (grg0 g * gM g) - 1) / grg0 g + 1 = NG.

Lemma gL_eq : gL g = gM g * 2.
Proof. unfold gL. now rewrite Hv. Qed.

Lemma dsh_NG : gdsh g = (gT g - 1) * gM g + NG.
Proof. rewrite Hdsh. unfold NG. Z.div_mod_to_equations. lia. Qed.

Lemma dsh_bounds : 2 * gdsh g - 1 <= gH g <= 2 * gdsh g.
Proof. rewrite Hdsh. Z.div_mod_to_equations. lia. Qed.

Lemma NG_bounds : 0 < gH g -> 1 <= NG <= gM g.
Proof. intros. unfold NG. Z.div_mod_to_equations. lia. Qed.

Lemma rl_NG : 0 < gH g -> rows_left_of (gdsh g) (grg g * gM g) = NG.
Proof.
  intros HH0. pose proof (NG_bounds HH0) as Hb. rewrite Hrg, Z.mul_1_l. unfold rows_left_of. rewrite dsh_NG.
  destruct (Z.eq_dec NG (gM g)) as [E | E].
  - rewrite E. replace ((gT g - 1) * gM g + gM g) with (gT g * gM g) by lia.
    rewrite Z.mod_mul by lia. reflexivity.
  - rewrite Z.add_comm, Z.mod_add by lia. rewrite Z.mod_small by lia.
    assert (E' : (NG =? 0) = false) by lia. now rewrite E'.
Qed.

Definition clampd (x : Z) : Z := Z.max 0 (Z.min x (gdsh g - 1)).

Lemma ideal_c_eq G k : 0 <= G -> 0 <= k <= 1 ->
  ideal_c g (G * 2 + k) = (G, if k =? 0 then Z.max (G - 1) 0 else Z.min (G + 1) (gdsh g - 1)).
Proof.
  intros HG Hk. unfold ideal_c. rewrite Hv, Hf, Hrg.
  assert (E1 : (G * 2 + k) / 2 = G) by (Z.div_mod_to_equations; lia).
  assert (E2 : (G * 2 + k) mod 2 = k) by (Z.div_mod_to_equations; lia).
  rewrite E1, E2. assert (Hk' : k = 0 \/ k = 1) by lia.
  destruct Hk' as [-> | ->].
  - change (0 / 2) with 0. change (Z.even 0) with true. cbn [Z.eqb]. f_equal; lia.
  - change (1 / 2) with 0. change (Z.even 1) with false. cbn [Z.eqb]. f_equal; lia.
Qed.

(* what the upsampling method reads for the two rows of the row group at list index c *)
Lemma group_prov_eq xb ph c :
  group_prov g xb ph c = [(tokat g xb ph c, tokat g xb ph (c - 1)); (tokat g xb ph c, tokat g xb ph (c + 1))].
Proof.
  unfold group_prov. rewrite Hv, Hf, Hrg. change (Z.to_nat 2) with 2%nat. cbn [zseq map].
  change (0 / 2) with 0. change ((0 + 1) / 2) with 0. change (Z.even 0) with true. change (Z.even (0 + 1)) with false.
  cbv iota. replace (c * 1 + 0) with c by lia. reflexivity.
Qed.

Definition VW (x0 x1 ph : list Z) (w i : Z) : Z := tokat g (xsel w x0 x1) ph i.

Lemma VW_place W x0 x1 ph w i : Shape g W x0 x1 -> (w = 0 \/ w = 1) -> 0 <= i <= gM g + 1 ->
  VW x0 x1 ph w i = getz ph (place g w i).
Proof.
  intros HS Hw Hi. unfold VW, tokat. rewrite (xb_get_xg g Hrg). rewrite (Shape_sel g W x0 x1 w i HS Hw Hi).
  pose proof (place_range g HM w i Hi). assert (E : (place g w i <? 0) = false) by lia. now rewrite E.
Qed.

Lemma VW_wrap x0 x1 ph w : Shape g true x0 x1 -> (w = 0 \/ w = 1) ->
  VW x0 x1 ph w (-1) = getz ph (place g w (gM g + 1)) /\ VW x0 x1 ph w (gM g + 2) = getz ph (place g w 0).
Proof.
  intros HS Hw. destruct (Shape_wrap g true x0 x1 w HS eq_refl Hw) as (A & B).
  unfold VW, tokat. rewrite !(xb_get_xg g Hrg), A, B.
  pose proof (place_range g HM w (gM g + 1) ltac:(lia)). pose proof (place_range g HM w 0 ltac:(lia)).
  assert (E : (place g w (gM g + 1) <? 0) = false) by lia. assert (E' : (place g w 0 <? 0) = false) by lia.
  now rewrite E, E'.
Qed.

Definition availR (R : Z) : Z := if R =? gT g - 1 then NG else gM g - 1.

(* the conversion buffer: empty at the start of a row group, else its second row is pending *)
Definition upOK (s k nr : Z) (cb : list prov) : Prop :=
  (k = 0 -> nr = 2) /\ (k = 1 -> nr = 1 /\ exists r0, cb = [r0; ideal_c g s]).

(* the state of the controller (all fields but output_scanline) when s rows have been delivered *)
Definition ModeS (st : cst) (R j k : Z) : Prop :=
  R = 0 /\ j = 0 /\ k = 0 /\ c_bfull st = false /\ c_state st = 0 /\ c_ictr st = 0 /\ c_imcu st = 0 /\
  c_which st = 0 /\ Shape g false (c_xb0 st) (c_xb1 st).

Definition ModeP (st : cst) (R j k : Z) : Prop :=
  c_state st = 1 /\ c_bfull st = true /\ c_ictr st = R + 1 /\ c_imcu st = R + 1 /\ c_rgctr st = j /\
  c_avail st = availR R /\ j < availR R /\
  (forall i, 0 <= i <= availR R -> VW (c_xb0 st) (c_xb1 st) (c_phys st) (c_which st) i = clampd (R * gM g + i)) /\
  (j = 0 -> k = 0 -> VW (c_xb0 st) (c_xb1 st) (c_phys st) (c_which st) (-1) = clampd (R * gM g - 1)) /\
  (R < gT g - 1 -> exists W, Shape g W (c_xb0 st) (c_xb1 st) /\ (1 <= R -> W = true)).

Definition ModeQ (st : cst) (R j k : Z) : Prop :=
  j = gM g - 1 /\ R < gT g - 1 /\ c_state st = 2 /\ c_rgctr st = gM g + 1 /\ c_avail st = gM g + 2 /\
  Shape g true (c_xb0 st) (c_xb1 st) /\
  (k = 0 -> c_bfull st = false /\ c_ictr st = R + 1 /\ c_imcu st = R + 1 /\
            VW (c_xb0 st) (c_xb1 st) (c_phys st) (c_which st) (gM g + 1) = R * gM g + gM g - 1 /\
            VW (c_xb0 st) (c_xb1 st) (c_phys st) (c_which st) (gM g) = R * gM g + gM g - 2) /\
  (k = 1 -> c_bfull st = true /\ c_ictr st = R + 2 /\ c_imcu st = R + 2 /\
            (forall i, 0 <= i < gM g -> VW (c_xb0 st) (c_xb1 st) (c_phys st) (c_which st) i = (R + 1) * gM g + i) /\
            VW (c_xb0 st) (c_xb1 st) (c_phys st) (c_which st) (gM g + 1) = R * gM g + gM g - 1).

Definition ModeB (st : cst) (R j k : Z) : Prop :=
  j = 0 /\ k = 0 /\ 1 <= R /\ c_state st = 0 /\ c_bfull st = true /\ c_ictr st = R + 1 /\ c_imcu st = R + 1 /\
  Shape g true (c_xb0 st) (c_xb1 st) /\
  (forall i, 0 <= i < gM g -> VW (c_xb0 st) (c_xb1 st) (c_phys st) (c_which st) i = R * gM g + i) /\
  VW (c_xb0 st) (c_xb1 st) (c_phys st) (c_which st) (gM g + 1) = R * gM g - 1.

Definition Core (s : Z) (e : bool) (st : cst) : Prop :=
  exists R j k,
    s = (R * gM g + j) * 2 + k /\ 0 <= R /\ 0 <= j < gM g /\ 0 <= k <= 1 /\ s < gH g /\
    (c_which st = 0 \/ c_which st = 1) /\
    gH g - s <= c_rtg st /\ (e = true -> c_rtg st = gH g - s) /\
    upOK s k (c_nro st) (c_cbuf st) /\ zlen (c_phys st) = gM g + 2 /\
    (ModeS st R j k \/ ModeP st R j k \/ ModeQ st R j k \/ ModeB st R j k).

Lemma Core_set_scan s e st x : Core s e st -> Core s e (c_set_scan st x).
Proof. destruct st. unfold c_set_scan. simp_c. exact (fun H => H). Qed.

(* facts about positions *)
Lemma pos_facts s R j k : s = (R * gM g + j) * 2 + k -> 0 <= R -> 0 <= j < gM g -> 0 <= k <= 1 -> s < gH g ->
  R <= gT g - 1 /\ R * gM g + j < gdsh g /\ (R = gT g - 1 -> j < NG) /\ 0 < gH g /\ 1 <= gT g.
Proof.
  intros Hs HR Hj Hk HsH. pose proof dsh_bounds. pose proof dsh_NG.
  assert (R <= gT g - 1) by nia. splits; try lia; try nia.
Qed.

Lemma clampd_id x : 0 <= x < gdsh g -> clampd x = x.
Proof. unfold clampd. lia. Qed.

(* ---------- the end of a row group inside process_data_context_main / CTX_PROCESS_IMCU ---------- *)
Definition finish (st1 : cst) : cst :=
  if c_rgctr st1 <? c_avail st1 then st1
  else
    let st2 := if c_ictr st1 =? 1 then set_wraparound g st1 else st1 in
    c_set_main st2 false (gM g + 1) (if c_which st2 =? 0 then 1 else 0) 2 (gM g + 2).

Lemma ctx_process_finish st got avail :
  ctx_process g st got avail =
  (finish (fst (sep_upsample_c g st (avail - zlen got))), got ++ snd (sep_upsample_c g st (avail - zlen got))).
Proof.
  unfold ctx_process, finish. destruct (sep_upsample_c g st (avail - zlen got)) as [st1 rows]. cbn [fst snd].
  destruct (c_rgctr st1 <? c_avail st1); reflexivity.
Qed.

Lemma finish_ok sc im rt' cb' w av ic x0 x1 ph R j e :
  0 <= R -> 0 <= j < gM g -> (R * gM g + (j + 1)) * 2 < gH g ->
  (w = 0 \/ w = 1) -> gH g - (R * gM g + (j + 1)) * 2 <= rt' -> (e = true -> rt' = gH g - (R * gM g + (j + 1)) * 2) ->
  zlen ph = gM g + 2 -> av = availR R -> j < av -> ic = R + 1 -> im = R + 1 ->
  (forall i, 0 <= i <= av -> VW x0 x1 ph w i = clampd (R * gM g + i)) ->
  (R < gT g - 1 -> exists W, Shape g W x0 x1 /\ (1 <= R -> W = true)) ->
  Core ((R * gM g + (j + 1)) * 2) e (finish (mkC sc true (j + 1) im 2 rt' cb' w 1 av ic x0 x1 ph)).
Proof.
  intros HR Hj HsH Hw Hrt1 Hrt2 Hph Hav_ Hjav Hic Him Hvw HSh.
  pose proof dsh_bounds as Hdb. pose proof dsh_NG as HdN.
  assert (Havle : av <= gM g).
  { pose proof (NG_bounds ltac:(nia)). rewrite Hav_. unfold availR. destruct (R =? gT g - 1); lia. }
  unfold finish. simp_c.
  destruct (j + 1 <? av) eqn:Ej.
  - (* next row group of the same iMCU row *)
    exists R, (j + 1), 0. simp_c. splits; try lia.
    + split; [auto|intros; lia].
    + right; left. unfold ModeP. simp_c. rewrite <- Hav_. splits; auto; try lia.
  - (* all row groups handed out in CTX_PROCESS_IMCU are consumed *)
    assert (Hje : j + 1 = av) by lia.
    destruct (Z.eq_dec R (gT g - 1)) as [HRl | HRl].
    { exfalso. unfold availR in Hav_. assert (E : (R =? gT g - 1) = true) by lia. rewrite E in Hav_. nia. }
    assert (HRlt : R < gT g - 1) by (assert (R <= gT g - 1) by nia; lia).
    unfold availR in Hav_. assert (E : (R =? gT g - 1) = false) by lia. rewrite E in Hav_.
    destruct (HSh HRlt) as (W & HS & HW).
    (* the pointer lists after the optional set_wraparound_pointers *)
    set (st2 := if ic =? 1 then set_wraparound g (mkC sc true (j + 1) im 2 rt' cb' w 1 av ic x0 x1 ph)
                else mkC sc true (j + 1) im 2 rt' cb' w 1 av ic x0 x1 ph).
    assert (Hst2 : exists y0 y1, st2 = mkC sc true (j + 1) im 2 rt' cb' w 1 av ic y0 y1 ph /\ Shape g true y0 y1).
    { unfold st2. destruct (ic =? 1) eqn:Eic.
      - exists (wrap_one g x0), (wrap_one g x1). split; [reflexivity|]. apply (wrap_shape g Hrg HM W); assumption.
      - exists x0, x1. split; [reflexivity|]. rewrite <- (HW ltac:(lia)). assumption. }
    destruct Hst2 as (y0 & y1 & -> & HS2). unfold c_set_main. simp_c.
    exists R, (gM g - 1), 0. simp_c. splits; try lia.
    + destruct Hw as [-> | ->]; cbn; auto.
    + split; [auto|intros; lia].
    + right; right; left. unfold ModeQ. simp_c. splits; auto; try lia; try (intros; lia).
      intros _.
      assert (Hw' : (if w =? 0 then 1 else 0) = 1 - w) by (destruct Hw as [-> | ->]; reflexivity).
      rewrite Hw'. assert (Hw1 : 1 - w = 0 \/ 1 - w = 1) by lia.
      destruct (place_flip g w Hw) as (F1 & F2).
      splits; auto.
      * rewrite (VW_place true y0 y1 ph (1 - w) (gM g + 1) HS2 Hw1) by lia. rewrite F1.
        rewrite <- (VW_place W x0 x1 ph w (gM g - 1) HS Hw) by lia.
        rewrite Hvw by lia. rewrite clampd_id by nia. lia.
      * rewrite (VW_place true y0 y1 ph (1 - w) (gM g) HS2 Hw1) by lia. rewrite F2.
        rewrite <- (VW_place W x0 x1 ph w (gM g - 2) HS Hw) by lia.
        rewrite Hvw by lia. rewrite clampd_id by nia. lia.
Qed.

Lemma rows_c_1 s : rows_c g s 1 = [ideal_c g s].
Proof. reflexivity. Qed.
Lemma rows_c_2 s : rows_c g s 2 = [ideal_c g s; ideal_c g (s + 1)].
Proof. reflexivity. Qed.

(* ---------- CTX_PROCESS_IMCU: one sep_upsample call on row group j of iMCU row R ---------- *)
Lemma process_core sc rt nr cb w av ic im x0 x1 ph R j k s e got avail (ab : bool) :
  s = (R * gM g + j) * 2 + k -> 0 <= R -> 0 <= j < gM g -> 0 <= k <= 1 -> s < gH g ->
  (w = 0 \/ w = 1) -> gH g - s <= rt -> (e = true -> rt = gH g - s) -> upOK s k nr cb -> zlen ph = gM g + 2 ->
  av = availR R -> j < av -> ic = R + 1 -> im = R + 1 ->
  (forall i, 0 <= i <= av -> VW x0 x1 ph w i = clampd (R * gM g + i)) ->
  (ab = true -> j = 0 -> k = 0 -> VW x0 x1 ph w (-1) = clampd (R * gM g - 1)) ->
  (R < gT g - 1 -> exists W, Shape g W x0 x1 /\ (1 <= R -> W = true)) ->
  1 <= avail - zlen got -> (e = true \/ avail - zlen got <= gH g - s) ->
  exists st' rows num,
    ctx_process g (mkC sc true j im nr rt cb w 1 av ic x0 x1 ph) got avail = (st', got ++ rows) /\
    1 <= num <= avail - zlen got /\ num <= 2 - k /\ s + num <= gH g /\ zlen rows = num /\
    ((ab = true \/ k = 1) -> rows = rows_c g s num) /\
    c_scan st' = sc /\
    (s + num < gH g -> Core (s + num) e st').
Proof.
  intros Hs HR Hj Hk HsH Hw Hrt1 Hrt2 Hup Hph Hav_ Hjav Hic Him Hvw Hab HSh Ha Hside.
  destruct (pos_facts s R j k Hs HR Hj Hk HsH) as (HRT & HGd & HjNG & HH0 & HT1).
  pose proof dsh_bounds as Hdb.
  set (G := R * gM g + j) in *.
  assert (HidG : clampd G = G) by (apply clampd_id; lia).
  rewrite ctx_process_finish. unfold sep_upsample_c. simp_c. rewrite Hv.
  destruct Hup as (Hup0 & Hup1).
  assert (Hk' : k = 0 \/ k = 1) by lia. destruct Hk' as [-> | ->].
  - (* the conversion buffer is empty: upsample row group j *)
    rewrite (Hup0 eq_refl). cbn [Z.leb Z.compare Pos.compare Pos.compare_cont].
    unfold c_xb. simp_c. fold (xsel w x0 x1). rewrite group_prov_eq.
    fold (VW x0 x1 ph w j). fold (VW x0 x1 ph w (j - 1)). fold (VW x0 x1 ph w (j + 1)).
    unfold zdrop. change (Z.to_nat 0) with 0%nat. cbn [skipn].
    rewrite (Hvw j) by lia. rewrite (Hvw (j + 1)) by lia. fold G. rewrite HidG.
    replace (R * gM g + (j + 1)) with (G + 1) by (unfold G; lia).
    assert (Hr1 : (G, clampd (G + 1)) = ideal_c g (s + 1)).
    { replace (s + 1) with (G * 2 + 1) by lia. rewrite ideal_c_eq by lia. cbn [Z.eqb]. unfold clampd. f_equal. lia. }
    rewrite Hr1.
    set (num := Z.max 0 (Z.min (Z.min (2 - 0) rt) (avail - zlen got))).
    assert (Hnum : num = 1 \/ num = 2) by (unfold num; lia).
    set (r0 := (G, VW x0 x1 ph w (j - 1))).
    assert (Hr0 : ab = true -> r0 = ideal_c g s).
    { intros Habt. unfold r0. replace s with (G * 2 + 0) by lia. rewrite ideal_c_eq by lia. cbn [Z.eqb]. f_equal.
      destruct (Z.eq_dec j 0) as [Hj0 | Hj0].
      - subst j. replace (0 - 1) with (-1) by lia. rewrite (Hab Habt eq_refl eq_refl).
        unfold clampd. unfold G. lia.
      - rewrite (Hvw (j - 1)) by lia. unfold clampd. unfold G. lia. }
    destruct Hnum as [Hn | Hn]; rewrite Hn.
    + (* one row delivered, the second stays in the conversion buffer *)
      change (0 + 1) with 1. cbn [Z.leb Z.compare Pos.compare Pos.compare_cont].
      eexists. exists [r0], 1. unfold finish. simp_c.
      assert (E : (j <? av) = true) by lia. rewrite E.
      splits; try reflexivity; try lia.
      * intros [Habt | Hk1]; [|lia]. rewrite rows_c_1. f_equal. apply Hr0, Habt.
      * intros Hlt. exists R, j, 1. simp_c. splits; try lia; auto.
        -- split; [intros; lia|]. intros _. split; [reflexivity|]. exists r0. reflexivity.
        -- right; left. unfold ModeP. simp_c. rewrite <- Hav_. splits; auto. intros; lia.
    + (* both rows delivered *)
      change (0 + 2) with 2. cbn [Z.leb Z.compare Pos.compare Pos.compare_cont].
      assert (Hs2 : s + 2 <= gH g).
      { unfold num in Hn. destruct Hside as [He | Hle]; [rewrite (Hrt2 He) in Hn|]; lia. }
      eexists. exists [r0; ideal_c g (s + 1)], 2.
      splits; try reflexivity; try lia.
      * intros [Habt | Hk1]; [|lia]. rewrite rows_c_2. f_equal. apply Hr0, Habt.
      * unfold finish. simp_c. case_ifs; reflexivity.
      * intros Hlt. replace (s + 2) with ((R * gM g + (j + 1)) * 2) in * by (unfold G in *; lia).
        apply finish_ok; auto; try lia.
  - (* the second row of the row group is pending in the conversion buffer *)
    destruct (Hup1 eq_refl) as (Hnr & r0 & Hcb). subst nr cb.
    cbn [Z.leb Z.compare Pos.compare Pos.compare_cont].
    set (num := Z.max 0 (Z.min (Z.min (2 - 1) rt) (avail - zlen got))).
    assert (Hnum : num = 1) by (unfold num; lia). rewrite Hnum.
    change (1 + 1) with 2. cbn [Z.leb Z.compare Pos.compare Pos.compare_cont].
    eexists. exists [ideal_c g s], 1.
    splits; try reflexivity; try lia.
    + unfold finish. simp_c. case_ifs; reflexivity.
    + intros Hlt. replace (s + 1) with ((R * gM g + (j + 1)) * 2) in * by (unfold G in *; lia).
      apply finish_ok; auto; try lia.
Qed.

(* ---------- the coefficient controller fills xbuffer[whichptr] ---------- *)
Lemma decode_ok sc rc im nr rt cb w cs av ic x0 x1 ph W :
  Shape g W x0 x1 -> (w = 0 \/ w = 1) -> zlen ph = gM g + 2 -> 0 <= im <= gT g - 1 ->
  exists ph',
    decode_c g (mkC sc false rc im nr rt cb w cs av ic x0 x1 ph) =
      mkC sc true rc (im + 1) nr rt cb w cs av (ic + 1) x0 x1 ph' /\
    zlen ph' = gM g + 2 /\
    (forall i, 0 <= i < gM g -> getz ph' (place g w i) = im * gM g + i) /\
    (forall i, gM g <= i <= gM g + 1 -> getz ph' (place g w i) = getz ph (place g w i)).
Proof.
  intros HS Hw Hph Him. unfold decode_c. simp_c. unfold c_xb. simp_c. fold (xsel w x0 x1).
  rewrite Hrg, Z.mul_1_l.
  pose proof (decode_fold (fun j => xb_get g (xsel w x0 x1) j) (im * gM g) (ghrows g) (Z.to_nat (gM g)) 0 ph) as HD.
  cbv zeta in HD.
  assert (Hf_ : forall j, 0 <= j <= gM g + 1 -> xb_get g (xsel w x0 x1) j = place g w j).
  { intros j Hj. rewrite (xb_get_xg g Hrg). apply (Shape_sel g W); assumption. }
  destruct HD as (A & B & C).
  - intros j Hj. rewrite Hf_ by lia. pose proof (place_range g HM w j ltac:(lia)). lia.
  - intros i j Hi Hj. rewrite !Hf_ by lia. apply (place_inj g); lia.
  - intros j Hj. nia.
  - eexists. split; [reflexivity|]. splits.
    + rewrite A. assumption.
    + intros i Hi. rewrite <- (Hf_ i) by lia. apply B. lia.
    + intros i Hi. apply C. intros j Hj Heq. rewrite Hf_ in Heq by lia.
      assert (j = i) by (apply (place_inj g w); lia). lia.
Qed.

Lemma xsel_fix w (f : list Z -> list Z) x0 x1 : (w = 0 \/ w = 1) ->
  xsel w (if w =? 0 then f x0 else x0) (if w =? 0 then x1 else f x1) = f (xsel w x0 x1).
Proof. intros [-> | ->]; reflexivity. Qed.

(* ---------- CTX_PREPARE_FOR_IMCU followed by CTX_PROCESS_IMCU ---------- *)
Lemma prepare_ok sc rc rt cb w cs av ic im x0 x1 ph R e got avail (ab : bool) W :
  0 <= R -> R * gM g * 2 < gH g -> (w = 0 \/ w = 1) ->
  gH g - R * gM g * 2 <= rt -> (e = true -> rt = gH g - R * gM g * 2) -> zlen ph = gM g + 2 ->
  ic = R + 1 -> im = R + 1 -> Shape g W x0 x1 -> (1 <= R -> W = true) ->
  (forall i, 0 <= i < gM g -> VW x0 x1 ph w i = R * gM g + i) ->
  (ab = true -> VW x0 x1 ph w (-1) = clampd (R * gM g - 1)) ->
  1 <= avail - zlen got -> (e = true \/ avail - zlen got <= gH g - R * gM g * 2) ->
  exists st' rows num,
    ctx_prepare g (mkC sc true rc im 2 rt cb w cs av ic x0 x1 ph) got avail = (st', got ++ rows) /\
    1 <= num <= avail - zlen got /\ num <= 2 /\ R * gM g * 2 + num <= gH g /\ zlen rows = num /\
    (ab = true -> rows = rows_c g (R * gM g * 2) num) /\
    c_scan st' = sc /\
    (R * gM g * 2 + num < gH g -> Core (R * gM g * 2 + num) e st').
Proof.
  intros HR HsH Hw Hrt1 Hrt2 Hph Hic Him HS HW Hvw Hab Ha Hside.
  destruct (pos_facts (R * gM g * 2) R 0 0 ltac:(lia) HR ltac:(lia) ltac:(lia) HsH) as (HRT & HGd & HjNG & HH0 & HT1).
  pose proof dsh_bounds as Hdb. pose proof dsh_NG as HdN. pose proof (NG_bounds HH0) as HNG.
  unfold ctx_prepare, c_set_main. simp_c.
  destruct (ic =? gT g) eqn:Eic.
  - (* last iMCU row: set_bottom_pointers *)
    assert (HRl : R = gT g - 1) by lia.
    unfold set_bottom, c_with_ptrs. simp_c. rewrite (rl_NG HH0), Hav.
    fold (fix_bottom g NG x0). fold (fix_bottom g NG x1).
    assert (Hsel : forall y0 y1, y0 = (if w =? 0 then fix_bottom g NG x0 else x0) ->
                                 y1 = (if w =? 0 then x1 else fix_bottom g NG x1) ->
                                 xsel w y0 y1 = fix_bottom g NG (xsel w x0 x1)).
    { intros y0 y1 -> ->. apply (xsel_fix w (fix_bottom g NG)); assumption. }
    set (y0 := if w =? 0 then fix_bottom g NG x0 else x0). set (y1 := if w =? 0 then x1 else fix_bottom g NG x1).
    assert (Hst : (if w =? 0
                   then mkC sc true 0 im 2 rt cb w cs (gM g - 1) ic (fix_bottom g NG x0) x1 ph
                   else mkC sc true 0 im 2 rt cb w cs (gM g - 1) ic x0 (fix_bottom g NG x1) ph)
                  = mkC sc true 0 im 2 rt cb w cs (gM g - 1) ic y0 y1 ph).
    { unfold y0, y1. destruct (w =? 0); reflexivity. }
    rewrite Hst. simp_c. clear Hst.
    destruct (fix_bottom_spec g Hrg NG (xsel w x0 x1) (Shape_len g W x0 x1 w HS) ltac:(lia)) as (FL & F1 & F2 & F3).
    assert (HVW : forall i, VW y0 y1 ph w i =
                  if (i =? NG) || (i =? NG + 1) then VW x0 x1 ph w (NG - 1) else VW x0 x1 ph w i).
    { intros i. unfold VW, tokat. rewrite (Hsel y0 y1 eq_refl eq_refl). rewrite !(xb_get_xg g Hrg).
      destruct (i =? NG) eqn:E1; [assert (i = NG) by lia; subst i; cbn [orb]; now rewrite F1|].
      destruct (i =? NG + 1) eqn:E2; [assert (i = NG + 1) by lia; subst i; cbn [orb]; now rewrite F2|].
      cbn [orb]. rewrite F3 by lia. reflexivity. }
    destruct (process_core sc rt 2 cb w NG ic im y0 y1 ph R 0 0 (R * gM g * 2) e got avail ab)
      as (st' & rows & num & Hrun & Hn1 & Hn2 & Hn3 & Hn4 & Hn5 & Hn6 & Hn7); try lia; auto.
    + split; [auto|intros; lia].
    + unfold availR. assert (E : (R =? gT g - 1) = true) by lia. now rewrite E.
    + intros i Hi. rewrite HVW. destruct (i =? NG) eqn:E1.
      * cbn [orb]. rewrite Hvw by lia. unfold clampd. nia.
      * assert (E2 : (i =? NG + 1) = false) by lia. rewrite E2. cbn [orb]. rewrite Hvw by lia. unfold clampd. nia.
    + intros Habt _ _. rewrite HVW. assert (E1 : (-1 =? NG) = false) by lia. assert (E2 : (-1 =? NG + 1) = false) by lia.
      rewrite E1, E2. cbn [orb]. apply Hab, Habt.
    + exists st', rows, num. replace (R * gM g * 2 + num) with (R * gM g * 2 + num) in * by lia.
      splits; auto; try lia.
  - (* any other iMCU row *)
    assert (HRlt : R < gT g - 1) by lia.
    destruct (process_core sc rt 2 cb w (gM g - 1) ic im x0 x1 ph R 0 0 (R * gM g * 2) e got avail ab)
      as (st' & rows & num & Hrun & Hn1 & Hn2 & Hn3 & Hn4 & Hn5 & Hn6 & Hn7); try lia; auto.
    + split; [auto|intros; lia].
    + unfold availR. assert (E : (R =? gT g - 1) = false) by lia. now rewrite E.
    + intros i Hi. rewrite Hvw by lia. rewrite clampd_id; [reflexivity|nia].
    + intros _. exists W. split; assumption.
    + exists st', rows, num. splits; auto; try lia.
Qed.

End CtxRead.
