(* C13, worst-case clause made precise for single-component (grayscale) 8-bit images:
   tj3JPEGBufSize gives every 8x8 block a share of 128 bytes (+ 2048 bytes once).
   - refuted: a block whose modelled encoding (Q100, standard tables, stuffing) needs 145 bytes, and a
     128x128 image whose scan data alone exceed tj3JPEGBufSize;
   - sufficient when: every block costs at most 504 bits (any tables): the scan data fit in the per-sample
     part, the 2048 extra bytes stay free for headers; in particular with the STANDARD luminance tables
     whenever all quantised AC coefficients are in -7..7 (a block then costs <= 409 bits);
   - the share is the same 128 bytes per block for every YCbCr subsampling level. *)
From Coq Require Import List ZArith Bool Lia.
From LJT Require Import gen.GenDest gen.GenStdHuff gen.GenWorstCase model.Huff model.Dest model.WorstCase.
From LJT Require Import proofs.NbitsProofs proofs.WorstCaseProofs proofs.WorstCaseBound proofs.EncoderBounds.
Import ListNotations.
Local Open Scope Z_scope.

(* ---- bytes of a scan <= bits / 4 + 2 (a stuffed zero behind every byte at worst) *)
Lemma feed_bound : forall bs cur n acc, 0 <= n < 8 ->
  match feed bs cur n acc with
  | (_, n', acc') => 0 <= n' < 8 /\ 8 * (acc' - acc) <= 2 * (n + Z.of_nat (length bs) - n')
  end.
Proof.
  induction bs as [|b t IH]; intros cur n acc Hn; cbn [feed].
  - cbn [length Z.of_nat]. lia.
  - destruct (n =? 7) eqn:E.
    + apply Z.eqb_eq in E. subst n. set (c := if 2 * cur + (if b then 1 else 0) =? 255 then 2 else 1).
      assert (Hc : c <= 2) by (unfold c; destruct (_ =? 255); lia).
      specialize (IH 0 0 (acc + c) ltac:(lia)). destruct (feed t 0 0 (acc + c)) as [[cur' n'] acc'].
      cbn [length]. rewrite Nat2Z.inj_succ. lia.
    + apply Z.eqb_neq in E. specialize (IH (2 * cur + (if b then 1 else 0)) (n + 1) acc ltac:(lia)).
      destruct (feed t _ (n + 1) acc) as [[cur' n'] acc']. cbn [length]. rewrite Nat2Z.inj_succ. lia.
Qed.

Lemma flush_bound cur n acc : flush (cur, n, acc) <= acc + 2.
Proof. unfold flush. destruct (n =? 0); [lia|]. destruct (_ =? 255); lia. Qed.

(* DC values of 8-bit data are in -1024..1023 (checked per block); the cost is asked for every such predecessor *)
Definition block_cost_le (dc ac : ctbl) (B : Z) (px : list Z) : Prop :=
  -1024 <= el (block_coefs px) 0 <= 1023 /\
  forall last_dc bs, -1024 <= last_dc <= 1023 -> enc_block dc ac last_dc (block_coefs px) = Some bs -> Z.of_nat (length bs) <= B.

Lemma scan_from_bound dc ac B : 0 <= B -> forall blocks last cur n acc bits0 bytes bits,
  0 <= n < 8 -> -1024 <= last <= 1023 -> Forall (block_cost_le dc ac B) blocks ->
  scan_from dc ac last blocks (cur, n, acc) bits0 = Some (bytes, bits) ->
  bits - bits0 <= B * Z.of_nat (length blocks) /\ bits0 <= bits /\ 8 * (bytes - acc) <= 2 * (n + (bits - bits0)) + 16.
Proof.
  intros HB. induction blocks as [|px t IH]; intros last cur n acc bits0 bytes bits Hn Hlast Hall E; cbn [scan_from] in E.
  - assert (bytes = flush (cur, n, acc) /\ bits = bits0) as (-> & ->) by (split; congruence).
    pose proof (flush_bound cur n acc). change (Z.of_nat (length (@nil (list Z)))) with 0. rewrite Z.mul_0_r. lia.
  - inversion Hall as [|x y (Hdcr & Hpx) Ht]; subst.
    destruct (enc_block dc ac last (block_coefs px)) as [bs|] eqn:Eb; [|discriminate].
    pose proof (Hpx last bs Hlast Eb) as Hlen.
    pose proof (feed_bound bs cur n acc Hn) as F. destruct (feed bs cur n acc) as [[cur' n'] acc'].
    destruct F as (Hn' & F).
    specialize (IH _ cur' n' acc' _ bytes bits Hn' Hdcr Ht E). cbn [length]. rewrite Nat2Z.inj_succ. nia.
Qed.

(* ---- PAD and the per-sample part of tj3JPEGBufSize for grayscale *)
Lemma PAD8 v : PAD v 8 = 8 * ((v + 7) / 8).
Proof.
  unfold PAD. replace (v + 8 - 1) with (v + 7) by lia. change (8 - 1) with (Z.ones 3).
  rewrite <- Z.ldiff_land, Z.ldiff_ones_r by lia. rewrite Z.shiftr_div_pow2, Z.shiftl_mul_pow2 by lia.
  change (2 ^ 3) with 8. lia.
Qed.

Lemma bufsize_gray w h : tj3JPEGBufSize w h tjsamp_gray = PAD w 8 * PAD h 8 * 2 + 2048.
Proof.
  unfold tj3JPEGBufSize. change (tjsamp_gray =? -1) with false. cbv iota.
  change (nth (Z.to_nat tjsamp_gray) tj_mcu_width 0) with 8.
  change (nth (Z.to_nat tjsamp_gray) tj_mcu_height 0) with 8.
  rewrite Z.eqb_refl. reflexivity.
Qed.

(* every block of a 3-component YCbCr image gets the same 128 bytes, whatever the subsampling *)
Lemma share_per_block_all_subsamplings :
  forallb (fun s => let mw := nth (Z.to_nat s) tj_mcu_width 0 in let mh := nth (Z.to_nat s) tj_mcu_height 0 in
                    (s =? tjsamp_gray) ||
                    ((bufsize_bytes_per_luma + 4 * 64 / (mw * mh)) * (mw * mh) =? 128 * (mw * mh / 64 + 2)))
          [0; 1; 2; 3; 4; 5; 6] = true.
Proof. vm_compute. reflexivity. Qed.

(* ---- sufficient when every block costs <= 504 bits *)
Theorem bufsize_sufficient_when_blocks_cheap : forall dc ac w h blocks bytes bits,
  dc_tbl = Some dc -> ac_tbl = Some ac -> 0 < w -> 0 < h ->
  Z.of_nat (length blocks) = (PAD w 8 / 8) * (PAD h 8 / 8) ->
  Forall (block_cost_le dc ac 504) blocks ->
  scan_size blocks = Some (bytes, bits) ->
  bytes <= tj3JPEGBufSize w h tjsamp_gray - bufsize_slack.
Proof.
  intros dc ac w h blocks bytes bits Hd Ha Hw Hh Hlen Hall E.
  unfold scan_size in E. rewrite Hd, Ha in E.
  pose proof (scan_from_bound dc ac 504 ltac:(lia) blocks 0 0 0 0 0 bytes bits ltac:(lia) ltac:(lia) Hall E) as (B1 & B2 & B3).
  rewrite bufsize_gray. change bufsize_slack with 2048. rewrite !PAD8 in *.
  rewrite !(Z.mul_comm 8), !Z.div_mul in Hlen by lia.
  assert (1 <= (w + 7) / 8) by (apply Z.div_le_lower_bound; lia).
  assert (1 <= (h + 7) / 8) by (apply Z.div_le_lower_bound; lia).
  nia.
Qed.

(* ---- the standard luminance AC table costs at most 6 bits per coefficient position when |v| <= 7 *)
Definition ac_cost6 (t : ctbl) : bool :=
  forallb (fun r => forallb (fun s => (0 <? nthZ (ehufsi t) (Z.to_nat (r * 16 + s))) &&
                                      (nthZ (ehufsi t) (Z.to_nat (r * 16 + s)) + s <=? 6 * (r + 1))) [1; 2; 3])
          [0; 1; 2; 3; 4; 5; 6; 7; 8; 9; 10; 11; 12; 13; 14; 15] &&
  (nthZ (ehufsi t) 240 <=? 96) && (nthZ (ehufsi t) 0 <=? 4).

Lemma std_ac_cost6 : exists dc ac, dc_tbl = Some dc /\ ac_tbl = Some ac /\ all_le16 dc = true /\ all_le16 ac = true /\ ac_cost6 ac = true.
Proof. vm_compute. eexists. eexists. repeat split. Qed.

Lemma encode_sym_exact t sym b : encode_sym t sym = Some b -> Z.of_nat (length b) = nthZ (ehufsi t) (Z.to_nat sym) \/ nthZ (ehufsi t) (Z.to_nat sym) < 0.
Proof.
  unfold encode_sym. destruct (_ =? 0); [discriminate|]. intros E. inversion E. rewrite bits_of_len.
  destruct (Z.neg_nonneg_cases (nthZ (ehufsi t) (Z.to_nat sym))); [right; lia|left; lia].
Qed.

Lemma encode_sym_exact16 t sym b : all_le16 t = true -> encode_sym t sym = Some b ->
  Z.of_nat (length b) = nthZ (ehufsi t) (Z.to_nat sym).
Proof.
  intros H E. destruct (encode_sym_exact t sym b E) as [Hx|Hx]; [exact Hx|]. exfalso.
  unfold all_le16 in H.
  pose proof (nth_forallb (fun s => (0 <=? s) && (s <=? 16)) (ehufsi t) (Z.to_nat sym) H eq_refl) as Hs.
  apply andb_true_iff in Hs as (H1 & _). apply Z.leb_le in H1. lia.
Qed.

Lemma nbits_le3 v : v <> 0 -> Z.abs v <= 7 -> 1 <= nbits (Z.abs v) <= 3.
Proof.
  intros Hv H. rewrite nbits_log2 by lia. pose proof (Z.log2_le_mono (Z.abs v) 7 H). change (Z.log2 7) with 2 in *.
  pose proof (Z.log2_nonneg (Z.abs v)). lia.
Qed.

Lemma cost6_lookup t r s : ac_cost6 t = true -> 0 <= r <= 15 -> 1 <= s <= 3 ->
  0 < nthZ (ehufsi t) (Z.to_nat (r * 16 + s)) /\ nthZ (ehufsi t) (Z.to_nat (r * 16 + s)) + s <= 6 * (r + 1).
Proof.
  intros H Hr Hs. unfold ac_cost6 in H. apply andb_true_iff in H as (H & _). apply andb_true_iff in H as (H & _).
  rewrite forallb_forall in H.
  assert (Hin : In r [0; 1; 2; 3; 4; 5; 6; 7; 8; 9; 10; 11; 12; 13; 14; 15]).
  { assert (r = 0 \/ r = 1 \/ r = 2 \/ r = 3 \/ r = 4 \/ r = 5 \/ r = 6 \/ r = 7 \/ r = 8 \/ r = 9 \/ r = 10 \/ r = 11 \/
            r = 12 \/ r = 13 \/ r = 14 \/ r = 15) as C by lia.
    cbn [In]. intuition. }
  specialize (H r Hin). rewrite forallb_forall in H.
  assert (Hin2 : In s [1; 2; 3]) by (assert (s = 1 \/ s = 2 \/ s = 3) as C by lia; cbn [In]; intuition).
  specialize (H s Hin2). apply andb_true_iff in H as (A & B). apply Z.ltb_lt in A. apply Z.leb_le in B. lia.
Qed.

Lemma rep_zrl_len t k z : all_le16 t = true -> nthZ (ehufsi t) 240 <= 96 ->
  rep_opt k (encode_sym t 240) = Some z -> Z.of_nat (length z) <= 96 * Z.of_nat k.
Proof.
  intros H16 Hzrl. revert z. induction k as [|k IHk]; intros z Ez; cbn [rep_opt] in Ez.
  - inversion Ez. cbn. lia.
  - destruct (encode_sym t 240) as [a|] eqn:Ea; [|discriminate].
    destruct (rep_opt k (Some a)) as [q|] eqn:Eq; [|discriminate]. inversion Ez; subst.
    rewrite app_length, Nat2Z.inj_add, Nat2Z.inj_succ. specialize (IHk q eq_refl).
    pose proof (encode_sym_exact16 t 240 a H16 Ea) as Hx. change (Z.to_nat 240) with 240%nat in Hx.
    set (e240 := nthZ (ehufsi t) 240) in *. clearbody e240. lia.
Qed.

Lemma enc_ac_small t : all_le16 t = true -> ac_cost6 t = true -> forall l r b, 0 <= r ->
  Forall (fun v => Z.abs v <= 7) l -> enc_ac t l r = Some b ->
  Z.of_nat (length b) <= 6 * (Z.of_nat (length l) + r) + 4.
Proof.
  intros H16 H6. pose proof H6 as H6'. unfold ac_cost6 in H6'. apply andb_true_iff in H6' as (H6a & Heob).
  apply andb_true_iff in H6a as (_ & Hzrl). apply Z.leb_le in Heob, Hzrl.
  induction l as [|v tl IH]; intros r b Hr Hall E; cbn [enc_ac] in E.
  - destruct (0 <? r) eqn:E0.
    + apply Z.ltb_lt in E0. pose proof (encode_sym_exact16 t 0 b H16 E) as Hx. change (Z.to_nat 0) with 0%nat in Hx.
      change (Z.of_nat (length (@nil Z))) with 0. set (e0 := nthZ (ehufsi t) 0) in *. clearbody e0. lia.
    + inversion E. change (Z.of_nat (length (@nil Z))) with 0. change (Z.of_nat (length (@nil bool))) with 0. lia.
  - inversion Hall as [|x y Hv Htl]; subst. destruct (v =? 0) eqn:Ev.
    + specialize (IH (r + 1) b ltac:(lia) Htl E). cbn [length]. rewrite Nat2Z.inj_succ. lia.
    + apply Z.eqb_neq in Ev.
      apply cat_opt_some in E as (z & rest & Ez & E & ->).
      apply cat_opt_some in E as (c & rest2 & Ec & E & ->).
      apply cat_opt_some in E as (vb & rest3 & Evb & E & ->).
      inversion Evb; subst vb. clear Evb.
      pose proof (nbits_le3 v Ev Hv) as Ln.
      pose proof (val_bits_len v (nbits (Z.abs v)) ltac:(lia)) as Lv.
      pose proof (Z.mod_pos_bound r 16 ltac:(lia)) as Hm. pose proof (Z.div_mod r 16 ltac:(lia)) as Hdm.
      pose proof (Z.div_pos r 16 Hr ltac:(lia)) as Hq.
      destruct (cost6_lookup t (r mod 16) (nbits (Z.abs v)) H6 ltac:(lia) Ln) as (Lp & Lc).
      assert (Lc' : Z.of_nat (length c) + nbits (Z.abs v) <= 6 * (r mod 16 + 1)).
      { pose proof (encode_sym_exact16 t _ c H16 Ec) as Hx. rewrite Hx. lia. }
      assert (Lz : Z.of_nat (length z) <= 96 * (r / 16)).
      { pose proof (rep_zrl_len t (Z.to_nat (r / 16)) z H16 Hzrl Ez) as G. rewrite Z2Nat.id in G by lia. exact G. }
      specialize (IH 0 rest3 ltac:(lia) Htl E).
      rewrite !app_length, !Nat2Z.inj_add. cbn [length]. rewrite Nat2Z.inj_succ. lia.
Qed.

(* a block whose quantised AC coefficients are all in -7..7 (DC in the 8-bit range) costs <= 409 bits *)
Definition small_block (px : list Z) : Prop :=
  let c := block_coefs px in
  -1024 <= el c 0 <= 1023 /\ Forall (fun v => Z.abs v <= 7) (map (el c) (skipn 1 wc_natural_order)).

Lemma small_block_cost dc ac px : dc_tbl = Some dc -> ac_tbl = Some ac -> all_le16 dc = true -> all_le16 ac = true ->
  ac_cost6 ac = true -> small_block px ->
  forall last_dc bs, -1024 <= last_dc <= 1023 -> enc_block dc ac last_dc (block_coefs px) = Some bs -> Z.of_nat (length bs) <= 409.
Proof.
  intros _ _ Hd Ha H6 (Hdc & Hac) last_dc bs Hl E. unfold enc_block in E.
  apply cat_opt_some in E as (c & rest & Ec & E & ->).
  apply cat_opt_some in E as (vb & rest2 & Evb & E & ->). inversion Evb; subst vb; clear Evb.
  pose proof (encode_sym_len dc _ c Hd Ec) as Lc.
  assert (Hdiff : Z.abs (el (block_coefs px) 0 - last_dc) <= 2047) by lia.
  pose proof (nbits_le11 _ Hdiff) as Ln.
  pose proof (val_bits_len (el (block_coefs px) 0 - last_dc) _ (proj1 Ln)) as Lv.
  pose proof (enc_ac_small ac Ha H6 _ 0 rest2 ltac:(lia) Hac E) as La.
  rewrite map_length in La. change (length (skipn 1 wc_natural_order)) with 63%nat in La.
  rewrite !app_length, !Nat2Z.inj_add. change (Z.of_nat 63) with 63 in La. lia.
Qed.

(* ---- F6 as statements *)
(* refuted: one block above its 128-byte share, and a whole image above tj3JPEGBufSize *)
Lemma adv_block_size : scan_size [adv_block] = Some (145, 1002).
Proof. vm_compute. reflexivity. Qed.

Theorem bufsize_worstcase_refuted :
  (valid_block adv_block = true /\ scan_size [adv_block] = Some (145, 1002) /\ bufsize_bytes_per_luma * 64 = 128 /\ 128 < 145) /\
  (Z.of_nat (length adv_image) = (PAD 128 8 / 8) * (PAD 128 8 / 8) /\ forallb valid_block adv_image = true /\
   scan_bytes adv_image = Some 36355 /\ tj3JPEGBufSize 128 128 tjsamp_gray = 34816 /\ 34816 < 36355).
Proof.
  split.
  - split; [vm_compute; reflexivity|]. split; [exact adv_block_size|]. split; reflexivity.
  - split; [exact adv_fact_len|]. split; [exact adv_fact_valid|]. split; [exact adv_fact_bytes|]. split; [exact adv_fact_buf|reflexivity].
Qed.

(* sufficient when: standard tables and small quantised coefficients *)
Theorem bufsize_sufficient_when_small_coefs : forall w h blocks bytes bits, 0 < w -> 0 < h ->
  Z.of_nat (length blocks) = (PAD w 8 / 8) * (PAD h 8 / 8) ->
  Forall small_block blocks ->
  scan_size blocks = Some (bytes, bits) ->
  bytes <= tj3JPEGBufSize w h tjsamp_gray - bufsize_slack /\ bits <= 409 * Z.of_nat (length blocks).
Proof.
  intros w h blocks bytes bits Hw Hh Hlen Hsm E.
  destruct std_ac_cost6 as (dc & ac & Hd & Ha & H16d & H16a & H6).
  assert (Hall409 : Forall (block_cost_le dc ac 409) blocks).
  { apply Forall_forall. intros px Hin. rewrite Forall_forall in Hsm. specialize (Hsm px Hin).
    split; [exact (proj1 Hsm)|]. intros last bs Hl Eb. eapply small_block_cost; eauto. }
  assert (Hall : Forall (block_cost_le dc ac 504) blocks).
  { eapply Forall_impl; [|exact Hall409]. intros px (A & B). split; [exact A|]. intros last bs Hl Eb. specialize (B last bs Hl Eb). lia. }
  split; [eapply bufsize_sufficient_when_blocks_cheap; eauto|].
  unfold scan_size in E. rewrite Hd, Ha in E.
  pose proof (scan_from_bound dc ac 409 ltac:(lia) blocks 0 0 0 0 0 bytes bits ltac:(lia) ltac:(lia) Hall409 E) as (B1 & _). lia.
Qed.

(* non-vacuity: a smooth block is small, and costs far less than its share *)
Example smooth_block_is_small :
  let px := map (fun i => 126 + Z.of_nat ((i mod 8) / 3) + Z.of_nat ((i / 8) / 4)) (seq 0 64) in
  valid_block px = true /\ forallb (fun v => Z.abs v <=? 7) (map (el (block_coefs px)) (skipn 1 wc_natural_order)) = true /\
  (-1024 <=? el (block_coefs px) 0) && (el (block_coefs px) 0 <=? 1023) = true /\ scan_size [px] = Some (9, 71).
Proof. vm_compute. repeat split. Qed.
