(* DMarkersTop.v -- the C01 statements, over EVERY byte string. *)
From Coq Require Import List ZArith Bool Lia ZifyBool.
From LJT Require Import gen.GenLimits model.Huff model.DMarkers
  proofs.DMarkersProofs proofs.DMarkersScanProofs proofs.DMarkersBlockProofs.
Import ListNotations.
Local Open Scope Z_scope.
Ltac Zify.zify_post_hook ::= Z.div_mod_to_equations.

(* every length/index/count/precision/dimension guard of the C text that the model mirrors is
   still in the source (checked textually by tools/gen_Limits.py on every run) *)
Lemma guards_present_ : guards_all_present = true.
Proof. vm_compute. reflexivity. Qed.

Definition trace_ok (s : io) : Prop := Forall (fun p => 0 <= fst p < snd p) (trace s).

Lemma inv_io0 data fk : Forall byte data -> inv (io0 data fk).
Proof. intros H. constructor; cbn; auto. Qed.

(* (1) the marker loop terminates on every input, within length/2 + 3 iterations *)
Lemma read_markers_total_ : forall (data : list Z) (fk : bool), Forall byte data ->
  match read_markers (Nat.div2 (length data) + 3) hdr0 (io0 data fk) with
  | Done r s' => not_continue r /\ step_ok r /\ trace_ok s' /\ (length (real s') <= length data)%nat
  | Susp => fk = false
  | Fail e s' => e <> E_OUT_OF_FUEL /\ trace_ok s'
  end.
Proof.
  intros data fk Hd.
  pose proof (read_markers_spec (Nat.div2 (length data) + 3) hdr0 (io0 data fk) hdr0_ok (inv_io0 data fk Hd) (div2_bound _)) as H.
  destruct (read_markers _ hdr0 (io0 data fk)) as [r s'| |e s']; auto.
  - destruct H as ([A _] & B & C & D & E & _). repeat split; auto.
  - destruct H as ([A _] & B). split; auto.
Qed.

(* every completed marker fetch consumes at least two bytes of the caller's buffer
   (or it is the fake EOI): this is what bounds the number of iterations *)
Lemma marker_fetch_consumes_ : forall s, inv s ->
  match next_marker s with
  | Done c s' => (length (real s') + 2 <= length (real s))%nat \/ c = M_EOI
  | Susp => fake s = false
  | Fail _ _ => False
  end /\
  match first_marker s with
  | Done c s' => (length (real s') + 2 <= length (real s))%nat \/ c = M_EOI
  | Susp => fake s = false
  | Fail e _ => e <> E_OUT_OF_FUEL
  end.
Proof.
  intros s Hs. split.
  - pose proof (next_marker_spec s Hs) as H. destruct (next_marker s); auto. destruct H as (_ & _ & _ & H). exact H.
  - pose proof (first_marker_spec s Hs) as H. destruct (first_marker s); auto.
    + destruct H as (_ & _ & _ & H). exact H.
    + destruct H; auto.
Qed.

(* (2)+(3)+(5) everything jpeg_read_header + the first start_input_pass accept *)
Definition comp_bounds (c : comp) : Prop :=
  1 <= c_h c <= L_MAX_SAMP_FACTOR /\ 1 <= c_v c <= L_MAX_SAMP_FACTOR /\ 0 <= c_tq c <= 255.
Definition used_bounds (lossless : bool) (e : bool * Z * dtbl) : Prop :=
  match e with (isdc, tblno, d) =>
    0 <= tblno < L_NUM_HUFF_TBLS /\ (length (d_vals d) <= 256)%nat /\ Forall (fun v => 0 <= v <= 255) (d_vals d) /\
    (isdc = true -> Forall (fun v => 0 <= v <= (if lossless then 16 else 15)) (d_vals d)) end.

Definition accepted_bounds_stmt (data : list Z) : Prop :=
  match read_and_start data with
  | Done (Started h su si u) s' =>
      let f := h_frame h in let sc := h_scan h in
      1 <= f_nc f <= L_MAX_COMPONENTS /\ Z.of_nat (length (f_comps f)) = f_nc f /\
      Forall comp_bounds (f_comps f) /\
      1 <= f_height f <= L_JPEG_MAX_DIMENSION /\ 1 <= f_width f <= L_JPEG_MAX_DIMENSION /\
      (if f_lossless f then 2 <= f_prec f <= 16 else f_prec f = 8 \/ f_prec f = 12) /\
      1 <= su_maxh su <= L_MAX_SAMP_FACTOR /\ 1 <= su_maxv su <= L_MAX_SAMP_FACTOR /\
      1 <= s_n sc <= L_MAX_COMPS_IN_SCAN /\ Z.of_nat (length (s_cur sc)) = s_n sc /\
      Forall (fun ci => 0 <= ci < f_nc f) (s_cur sc) /\
      0 <= si_blocks si <= L_D_MAX_BLOCKS_IN_MCU /\ Z.of_nat (length (si_member si)) = si_blocks si /\
      Forall (fun m => 0 <= m < s_n sc) (si_member si) /\
      Forall (used_bounds (f_lossless f)) u /\
      trace_ok s'
  | Done (OnlyTables h) s' => trace_ok s'
  | Susp => False
  | Fail e s' => e <> E_OUT_OF_FUEL /\ trace_ok s'
  end.

Lemma accepted_bounds_ : forall data, Forall byte data -> accepted_bounds_stmt data.
Proof.
  intros data Hd. unfold accepted_bounds_stmt, read_and_start, read_header_mem.
  destruct data as [|b t]; [split; [discriminate|constructor]|].
  pose proof (read_header_spec (io0 (b :: t) true) (inv_io0 _ true Hd)) as H.
  destruct (read_header (io0 (b :: t) true)) as [o s| |e s]; [| discriminate |destruct H as ([A _] & B); auto].
  destruct H as (Hs & Hfk & _ & Ho).
  destruct o as [h su|h]; [|destruct Hs; assumption].
  cbn in Ho. pose proof (L_start_input_pass h su Ho s Hs) as P.
  destruct (start_input_pass h su s) as [[si u] s'| |e s'].
  - destruct P as ([T _] & Pf & _ & (Q1 & Q2)). cbn [fst snd] in *.
    destruct Ho as (A1 & A2 & A3 & A4 & A5 & A6 & A7 & (S1 & S2 & S3 & _) & M1 & M2 & _).
    destruct Q1 as (B1 & B2 & B3).
    cbv zeta. split; [ulia|]. split; [exact A2|]. split.
    { apply Forall_forall. intros c Hc. rewrite Forall_forall in A3, A4.
      specialize (A3 c Hc). specialize (A4 c Hc). destruct A3 as [X Y]. destruct A4 as (_ & _ & _ & Z1 & _).
      unfold comp_bounds, byte in *. ulia. }
    split; [ulia|]. split; [ulia|]. split; [exact A7|]. split; [ulia|]. split; [ulia|].
    split; [ulia|]. split; [exact S2|]. split; [exact S3|]. split; [ulia|]. split; [exact B2|]. split; [exact B3|].
    split; [|exact T].
    eapply Forall_impl; [|exact Q2]. intros [[isdc tblno] d] (U1 & (U2 & U3) & U4). unfold used_bounds.
    split; [ulia|]. split; [exact U3|]. split; [exact U2|].
    intros Hi. specialize (U4 Hi). unfold maxdc in U4. exact U4.
  - cbn in Hfk. congruence.
  - destruct P as ([T _] & Pe). auto.
Qed.

(* ------------------------------------------------------------------ (5) whole stream *)
(* any entropy-data consumer that only moves forward in the input *)
Definition ec_mono (ec : hdr -> io -> io) : Prop :=
  forall h s, inv s -> inv (ec h s) /\ fake (ec h s) = fake s /\ (len (ec h s) <= len s)%nat.

Lemma decode_stream_spec ec : ec_mono ec -> forall fuel h n s, hdr_ok h -> inv s -> (len s + 4 <= 2 * fuel)%nat ->
  match decode_stream ec fuel h n s with
  | Done (h', k) s' => inv s' /\ n <= k <= n + Z.of_nat fuel
  | Susp => fake s = false
  | Fail e s' => inv s' /\ e <> E_OUT_OF_FUEL
  end.
Proof.
  intros Hec. induction fuel as [|k IH]; intros h n s Hh Hs Hf; [lia|].
  cbn [decode_stream].
  pose proof (read_markers_spec (marker_fuel s) h s Hh Hs (div2_bound _)) as H.
  destruct (read_markers (marker_fuel s) h s) as [r s1| |e s1]; auto.
  destruct H as (A & B & C & D & E & F).
  destruct r as [h'|h'|h']; cbn in E.
  - contradiction.
  - destruct D as (D1 & _). destruct F as [F|F]; [|contradiction].
    destruct (Hec h' s1 A) as (G1 & G2 & G3).
    assert (Hk : (len (ec h' s1) + 4 <= 2 * k)%nat) by lia.
    specialize (IH h' (n + 1) (ec h' s1) D1 G1 Hk).
    destruct (decode_stream ec k h' (n + 1) (ec h' s1)) as [[h2 k2] s2| |e s2]; auto.
    + destruct IH as [I1 I2]. split; auto. lia.
    + congruence.
  - split; auto. lia.
Qed.

Lemma fake_eoi_terminates_ : forall ec data, ec_mono ec -> Forall byte data ->
  match decode_stream ec (Nat.div2 (length data) + 3) hdr0 0 (io0 data true) with
  | Done (h, nscans) s' => 0 <= nscans <= Z.of_nat (length data) / 2 + 3 /\ trace_ok s'
  | Susp => False
  | Fail e s' => e <> E_OUT_OF_FUEL /\ trace_ok s'
  end.
Proof.
  intros ec data Hec Hd.
  pose proof (decode_stream_spec ec Hec (Nat.div2 (length data) + 3) hdr0 0 (io0 data true) hdr0_ok
                (inv_io0 data true Hd) (div2_bound _)) as H.
  destruct (decode_stream ec _ hdr0 0 (io0 data true)) as [[h k] s'| |e s'].
  - destruct H as ([T _] & K). split; [|exact T].
    pose proof (Nat.div2_odd (length data)) as Ho. destruct (Nat.odd (length data)); unfold Nat.b2n in Ho; lia.
  - discriminate H.
  - destruct H as ([T _] & K). auto.
Qed.

(* the identity consumer (decoder that hits a marker at once) is monotone: ec_mono is satisfiable *)
Lemma ec_id_mono : ec_mono (fun _ s => s).
Proof. intros h s Hs. auto. Qed.

(* --------------------------------------------------------- (3) DHT tables *)
Lemma dht_accepted_valid_ :
  (forall h, hdr_ok h -> post (get_dht h) hdr_ok) /\
  (forall bits vals isDC m d, htbl_ok (bits, vals) -> make_d_derived bits vals isDC m = Some d ->
     sumZ (skipn 1 bits) <= 256 /\ (length (d_vals d) <= 256)%nat /\ Forall (fun v => 0 <= v <= 255) (d_vals d) /\
     (isDC = true -> Forall (fun v => 0 <= v <= m) (d_vals d))).
Proof.
  split; [exact L_get_dht|].
  intros bits vals isDC m d Hok H. pose proof Hok as (_ & _ & _ & _ & E). cbn [fst] in E.
  destruct (make_d_derived_ok _ _ _ _ _ Hok H) as [A B].
  destruct (make_d_derived_spec _ _ _ _ _ H) as (n & _ & _ & _ & _ & K). auto.
Qed.

(* ------------------------------------------------------ non-vacuity examples *)
(* an 8x8 grayscale baseline JPEG and a 3x2 12-bit lossless JPEG written by the real encoder *)
Definition tiny_baseline : list Z :=
  [255; 216; 255; 224; 0; 16; 74; 70; 73; 70; 0; 1; 1; 0; 0; 1; 0; 1; 0; 0; 255; 219; 0; 67; 0; 16; 11; 12; 14; 12; 10; 16; 14; 13; 14; 18; 17; 16; 19; 24; 39; 25; 24; 22; 22; 24; 48; 34; 36; 28; 39; 57; 50; 60; 59; 56; 50; 55; 54; 63; 71; 90; 76; 63; 67; 85; 68; 54; 55; 78; 107; 79; 85; 93; 96; 101; 102; 101; 61; 75; 111; 119; 110; 98; 118; 90; 99; 101; 97; 255; 192; 0; 11; 8; 0; 8; 0; 8; 1; 1; 17; 0; 255; 196; 0; 31; 0; 0; 1; 5; 1; 1; 1; 1; 1; 1; 0; 0; 0; 0; 0; 0; 0; 0; 1; 2; 3; 4; 5; 6; 7; 8; 9; 10; 11; 255; 196; 0; 181; 16; 0; 2; 1; 3; 3; 2; 4; 3; 5; 5; 4; 4; 0; 0; 1; 125; 1; 2; 3; 0; 4; 17; 5; 18; 33; 49; 65; 6; 19; 81; 97; 7; 34; 113; 20; 50; 129; 145; 161; 8; 35; 66; 177; 193; 21; 82; 209; 240; 36; 51; 98; 114; 130; 9; 10; 22; 23; 24; 25; 26; 37; 38; 39; 40; 41; 42; 52; 53; 54; 55; 56; 57; 58; 67; 68; 69; 70; 71; 72; 73; 74; 83; 84; 85; 86; 87; 88; 89; 90; 99; 100; 101; 102; 103; 104; 105; 106; 115; 116; 117; 118; 119; 120; 121; 122; 131; 132; 133; 134; 135; 136; 137; 138; 146; 147; 148; 149; 150; 151; 152; 153; 154; 162; 163; 164; 165; 166; 167; 168; 169; 170; 178; 179; 180; 181; 182; 183; 184; 185; 186; 194; 195; 196; 197; 198; 199; 200; 201; 202; 210; 211; 212; 213; 214; 215; 216; 217; 218; 225; 226; 227; 228; 229; 230; 231; 232; 233; 234; 241; 242; 243; 244; 245; 246; 247; 248; 249; 250; 255; 218; 0; 8; 1; 1; 0; 0; 63; 0; 200; 180; 211; 57; 94; 14; 61; 43; 255; 217].
Definition tiny_lossless : list Z :=
  [255; 216; 255; 224; 0; 16; 74; 70; 73; 70; 0; 1; 1; 0; 0; 1; 0; 1; 0; 0; 255; 195; 0; 11; 12; 0; 2; 0; 3; 1; 1; 17; 0; 255; 196; 0; 22; 0; 1; 1; 1; 0; 0; 0; 0; 0; 0; 0; 0; 0; 0; 0; 0; 0; 5; 6; 10; 255; 218; 0; 8; 1; 1; 0; 2; 0; 1; 192; 122; 235; 187; 91; 87; 255; 217].

Example tiny_baseline_parses :
  Forall byte tiny_baseline /\
  match read_and_start tiny_baseline with
  | Done (Started h su si u) s =>
      f_width (h_frame h) = 8 /\ f_height (h_frame h) = 8 /\ f_nc (h_frame h) = 1 /\ f_prec (h_frame h) = 8 /\
      si_blocks si = 1 /\ length u = 2%nat /\ (length (trace s) > 400)%nat
  | _ => False
  end.
Proof.
  split.
  - apply Forall_forall. intros x Hx.
    assert (H : forallb byteb tiny_baseline = true) by (vm_compute; reflexivity).
    rewrite forallb_forall in H. specialize (H x Hx). unfold byteb, byte in *. lia.
  - vm_compute. repeat split; lia.
Qed.

Example tiny_lossless_parses :
  match read_and_start tiny_lossless with
  | Done (Started h su si u) s =>
      f_lossless (h_frame h) = true /\ f_prec (h_frame h) = 12 /\ f_width (h_frame h) = 3 /\ s_Ss (h_scan h) = 2
  | _ => False
  end.
Proof. vm_compute. repeat split. Qed.

(* the same stream cut inside its DQT / inside its SOF still ends with a verdict: the fake EOI
   turns the first into a tables-only datastream with warnings, the second into an error *)
Example tiny_truncated_has_verdict :
  match read_and_start (firstn 40 tiny_baseline) with Done (OnlyTables _) s => eofw s > 0 | _ => False end /\
  match read_and_start (firstn 95 tiny_baseline) with Fail e _ => e = E_BAD_LENGTH \/ e = E_SOF_NO_SOS \/ e = E_EMPTY_IMAGE | _ => False end.
Proof. vm_compute. split; [reflexivity|]. auto. Qed.

(* a corrupt run really reaches k = 63 + 15: the padding of jpeg_natural_order is needed *)
Definition ex_dc : option dtbl := make_d_derived [0; 0; 1; 5; 1; 1; 1; 1; 1; 1; 0; 0; 0; 0; 0; 0; 0] [0; 1; 2; 3; 4; 5; 6; 7; 8; 9; 10; 11] true 15.
Definition ex_ac : option dtbl := make_d_derived [0; 1; 1; 1; 0; 0; 0; 0; 0; 0; 0; 0; 0; 0; 0; 0; 0] [241; 225; 0] false 15.
Definition ex_bits : list bool :=
  [false; false;  true; false; true;  false; true;  false; true;  true; false; true;  false; true] ++ repeat false 16.
Definition dtbl_okb (d : dtbl) : bool := forallb byteb (d_vals d) && (length (d_vals d) <=? 256)%nat.
Lemma dtbl_okb_sound d : dtbl_okb d = true -> dtbl_ok d.
Proof.
  unfold dtbl_okb, dtbl_ok. rewrite andb_true_iff. intros [A B]. rewrite forallb_forall in A. apply Nat.leb_le in B.
  split; [|exact B]. apply Forall_forall. intros x Hx. specialize (A x Hx). unfold byteb, byte in *. lia.
Qed.
Definition block_reaches_k78_check : bool :=
  match ex_dc, ex_ac with
  | Some d, Some a =>
      dtbl_okb d && dtbl_okb a &&
      match decode_block d a ex_bits with
      | BlkDone (e :: _) _ => (kof e =? 63 + 15) && (snd (fst e) =? 63)
      | _ => false
      end
  | _, _ => false
  end.
Example block_reaches_k78 : block_reaches_k78_check = true.
Proof. vm_compute. reflexivity. Qed.
