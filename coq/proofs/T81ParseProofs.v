(* Marker / segment layer: t81_parse (emit_stream s) = Some s for every valid stream,
   for all list lengths (no bound); restart-marker cadence. *)
From Coq Require Import List ZArith Bool Lia Arith.
From LJT Require Import model.T81Spec proofs.T81StuffProofs.
Import ListNotations.
Local Open Scope Z_scope.

Ltac Zify.zify_post_hook ::= Z.div_mod_to_equations.

Ltac bsplit H :=
  repeat match type of H with
         | (_ && _) = true => let H1 := fresh H in apply andb_prop in H; destruct H as [H H1]; try bsplit H1
         end.

Lemma in_range_iff : forall lo hi x, in_range lo hi x = true <-> lo <= x <= hi.
Proof. intros. unfold in_range. rewrite andb_true_iff, !Z.leb_le. tauto. Qed.

Lemma is_byte_iff : forall x, is_byte x = true <-> 0 <= x <= 255.
Proof. intros. apply in_range_iff. Qed.

(* ------------------------------------------------------------------ markers *)
Lemma skip_ff_repeat : forall n l, skip_ff (repeat 255 n ++ l) = (let '(m, r) := skip_ff l in ((n + m)%nat, r)).
Proof.
  induction n; intros; cbn [repeat app].
  - destruct (skip_ff l). reflexivity.
  - cbn [skip_ff]. rewrite Z.eqb_refl, IHn. destruct (skip_ff l). reflexivity.
Qed.

Lemma read_marker_marker : forall f c r, c <> 0 -> c <> 255 ->
  read_marker (marker f c ++ r) = Some (f, c, r).
Proof.
  intros. unfold read_marker, marker. rewrite <- app_assoc, skip_ff_repeat.
  cbn [app skip_ff]. rewrite Z.eqb_refl.
  destruct (c =? 255) eqn:E; [apply Z.eqb_eq in E; contradiction|].
  replace (f + 1)%nat with (S f) by lia.
  destruct (c =? 0) eqn:E0; [apply Z.eqb_eq in E0; contradiction|]. reflexivity.
Qed.

Lemma marker_ahead_marker : forall f c r, c <> 0 -> marker_ahead (marker f c ++ r).
Proof.
  intros. right. unfold marker. destruct f; cbn [repeat app].
  - exists c, r. split; [reflexivity|assumption].
  - rewrite <- app_assoc. destruct f; cbn [repeat app]; eexists _, _; (split; [reflexivity|lia]).
Qed.

Lemma marker_length : forall f c, length (marker f c) = (f + 2)%nat.
Proof. intros. unfold marker. rewrite app_length, repeat_length. reflexivity. Qed.

(* ----------------------------------------------------------- length fields *)
Lemma take_app : forall a r, take (length a) (a ++ r) = Some (a, r).
Proof.
  intros. unfold take. rewrite app_length.
  destruct (length a <=? length a + length r)%nat eqn:E; [|apply Nat.leb_gt in E; lia].
  rewrite firstn_app, Nat.sub_diag, firstn_all. cbn [firstn]. rewrite app_nil_r.
  rewrite skipn_app, Nat.sub_diag, skipn_all. reflexivity.
Qed.

Lemma take_app' : forall n a r, n = length a -> take n (a ++ r) = Some (a, r).
Proof. intros; subst; apply take_app. Qed.

Lemma be16_join : forall x, 0 <= x <= 65535 -> (x / 256) * 256 + x mod 256 = x.
Proof. intros. lia. Qed.

Lemma read_payload_with_len : forall p r, lenZ p <= 65533 ->
  read_payload (with_len p ++ r) = Some (p, r).
Proof.
  intros. unfold with_len, be16, read_payload. cbn [app].
  assert (0 <= lenZ p) by (unfold lenZ; lia).
  rewrite be16_join by lia.
  destruct (lenZ p + 2 <? 2) eqn:E; [apply Z.ltb_lt in E; lia|].
  apply take_app'. unfold lenZ. lia.
Qed.

(* ------------------------------------------------------ nibbles and words *)
Lemma nib_hi : forall h l, 0 <= l < 16 -> nib h l / 16 = h.
Proof. intros. unfold nib. lia. Qed.
Lemma nib_lo : forall h l, 0 <= l < 16 -> nib h l mod 16 = l.
Proof. intros. unfold nib. lia. Qed.

Lemma be16s_flat : forall q, Forall (fun v => 0 <= v <= 65535) q ->
  be16s (flat_map be16 q) = Some q.
Proof.
  induction q; intros Hq; [reflexivity|].
  inversion Hq; subst. cbn [flat_map be16 app be16s]. rewrite (IHq H2).
  rewrite be16_join by lia. reflexivity.
Qed.

Lemma flat_be16_length : forall q, length (flat_map be16 q) = (2 * length q)%nat.
Proof. induction q; [reflexivity|]. cbn [flat_map be16 app length]. lia. Qed.

(* --------------------------------------------------------------------- DQT *)
Lemma forallb_Forall_range : forall lo hi q, forallb (in_range lo hi) q = true -> Forall (fun v => lo <= v <= hi) q.
Proof.
  intros. apply Forall_forall. intros x Hx. rewrite forallb_forall in H. apply in_range_iff, H, Hx.
Qed.

Lemma parse_qts_ok : forall tabs fuel, forallb qtab_ok tabs = true -> (length tabs <= fuel)%nat ->
  parse_qts fuel (flat_map emit_qt tabs) = Some tabs.
Proof.
  induction tabs as [|[[pq tq] q] tabs IH]; intros fuel Hok Hf.
  - destruct fuel; reflexivity.
  - cbn [forallb] in Hok. apply andb_prop in Hok. destruct Hok as [Ht Hts].
    unfold qtab_ok in Ht. rewrite !andb_true_iff in Ht. destruct Ht as (((Ht & Ht0) & Ht1) & Ht2).
    apply in_range_iff in Ht. apply in_range_iff in Ht0. apply Nat.eqb_eq in Ht1.
    destruct fuel; [cbn [length] in Hf; lia|]. cbn [length] in Hf.
    cbn [flat_map emit_qt]. cbn [app parse_qts].
    rewrite nib_hi, nib_lo by lia.
    destruct (pq =? 0) eqn:Ep.
    + try rewrite <- app_assoc. rewrite (take_app' 64 q) by lia.
      rewrite IH by (assumption || lia). reflexivity.
    + try rewrite <- app_assoc. rewrite (take_app' 128 (flat_map be16 q)) by (rewrite flat_be16_length; lia).
      rewrite (be16s_flat q).
      * rewrite IH by (assumption || lia). reflexivity.
      * apply forallb_Forall_range in Ht2. eapply Forall_impl; [|exact Ht2]. cbn. intros. lia.
Qed.

Lemma flat_map_length_ge : forall {A} (f : A -> list Z) l, (forall x, (1 <= length (f x))%nat) ->
  (length l <= length (flat_map f l))%nat.
Proof.
  induction l; intros; [cbn; lia|]. cbn [flat_map length]. rewrite app_length.
  specialize (H a) as Ha. specialize (IHl H). lia.
Qed.

(* --------------------------------------------------------------------- DHT *)
Lemma parse_hts_ok : forall tabs fuel, forallb htab_ok tabs = true -> (length tabs <= fuel)%nat ->
  parse_hts fuel (flat_map emit_ht tabs) = Some tabs.
Proof.
  induction tabs as [|[[[tc th] counts] vals] tabs IH]; intros fuel Hok Hf.
  - destruct fuel; reflexivity.
  - cbn [forallb] in Hok. apply andb_prop in Hok. destruct Hok as [Ht Hts].
    unfold htab_ok in Ht. rewrite !andb_true_iff in Ht. destruct Ht as (((((Ht & Ht0) & Ht1) & Ht2) & Ht3) & Ht4).
    apply in_range_iff in Ht. apply in_range_iff in Ht0. apply Nat.eqb_eq in Ht1. apply Z.eqb_eq in Ht3.
    destruct fuel; [cbn [length] in Hf; lia|]. cbn [length] in Hf.
    cbn [flat_map emit_ht]. cbn [app parse_hts].
    rewrite <- !app_assoc. rewrite (take_app' 16 counts) by lia.
    rewrite (take_app' _ vals) by (rewrite Ht3; unfold lenZ; lia).
    rewrite IH by (assumption || lia).
    rewrite nib_hi, nib_lo by lia. reflexivity.
Qed.

(* --------------------------------------------------------------------- DAC *)
Lemma parse_acs_ok : forall tabs,
  forallb (fun t : Z * Z * Z => let '(tc, tb, cs) := t in in_range 0 1 tc && in_range 0 3 tb && is_byte cs &&
             (if tc =? 0 then (cs mod 16 <=? cs / 16) else in_range 1 63 cs)) tabs = true ->
  parse_acs (flat_map emit_ac tabs) = Some tabs.
Proof.
  induction tabs as [|[[tc tb] cs] tabs IH]; intros Hok; [reflexivity|].
  cbn [forallb] in Hok. apply andb_prop in Hok. destruct Hok as [Ht Hts].
  rewrite !andb_true_iff in Ht. destruct Ht as (((Ht & Ht0) & Ht1) & Ht2).
  apply in_range_iff in Ht. apply in_range_iff in Ht0.
  cbn [flat_map emit_ac app parse_acs]. rewrite IH by assumption.
  rewrite nib_hi, nib_lo by lia. reflexivity.
Qed.

(* ----------------------------------------------------------- frame / scan *)
Definition fcomp_ok (c : fcomp) : bool :=
  let '(ci, h, v, tq) := c in is_byte ci && in_range 1 4 h && in_range 1 4 v && in_range 0 3 tq.
Definition scomp_ok (c : scomp) : bool :=
  let '(cs, td, ta) := c in is_byte cs && in_range 0 3 td && in_range 0 3 ta.

Lemma parse_fcomps_ok : forall comps, forallb fcomp_ok comps = true ->
  parse_fcomps (flat_map emit_fcomp comps) = Some comps.
Proof.
  induction comps as [|[[[ci h] v] tq] comps IH]; intros Hok; [reflexivity|].
  cbn [forallb] in Hok. apply andb_prop in Hok. destruct Hok as [Ht Hts]. unfold fcomp_ok in Ht.
  rewrite !andb_true_iff in Ht. destruct Ht as (((Ht & Ht0) & Ht1) & Ht2).
  apply in_range_iff in Ht0. apply in_range_iff in Ht1.
  cbn [flat_map emit_fcomp app parse_fcomps]. rewrite IH by assumption.
  rewrite nib_hi, nib_lo by lia. reflexivity.
Qed.

Lemma parse_scomps_ok : forall comps, forallb scomp_ok comps = true ->
  parse_scomps (flat_map emit_scomp comps) = Some comps.
Proof.
  induction comps as [|[[cs td] ta] comps IH]; intros Hok; [reflexivity|].
  cbn [forallb] in Hok. apply andb_prop in Hok. destruct Hok as [Ht Hts]. unfold scomp_ok in Ht.
  rewrite !andb_true_iff in Ht. destruct Ht as ((Ht & Ht0) & Ht1).
  apply in_range_iff in Ht0. apply in_range_iff in Ht1.
  cbn [flat_map emit_scomp app parse_scomps]. rewrite IH by assumption.
  rewrite nib_hi, nib_lo by lia. reflexivity.
Qed.

Lemma fcomps_length : forall comps, length (flat_map emit_fcomp comps) = (3 * length comps)%nat.
Proof. induction comps as [|[[[ci h] v] tq] comps IH]; [reflexivity|]. cbn [flat_map emit_fcomp app length]. lia. Qed.
Lemma scomps_length : forall comps, length (flat_map emit_scomp comps) = (2 * length comps)%nat.
Proof. induction comps as [|[[cs td] ta] comps IH]; [reflexivity|]. cbn [flat_map emit_scomp app length]. lia. Qed.

(* ------------------------------------------------ payload of a table/misc segment *)
Ltac eqb_false := repeat match goal with
  | |- context [?a =? ?b] => let E := fresh in destruct (a =? b) eqn:E; [apply Z.eqb_eq in E; try lia|]
  end.

Lemma is_sof_code_range : forall c, is_sof_code c = true -> 192 <= c <= 207 /\ c <> 196 /\ c <> 200 /\ c <> 204.
Proof.
  intros c H. unfold is_sof_code in H. rewrite !andb_true_iff in H. destruct H as (((H & H0) & H1) & H2). apply in_range_iff in H.
  apply negb_true_iff, Z.eqb_neq in H0. apply negb_true_iff, Z.eqb_neq in H1. apply negb_true_iff, Z.eqb_neq in H2. lia.
Qed.

Lemma parse_payload_ok : forall s, seg_ok s = true -> is_sos s = false ->
  parse_payload (seg_code s) (seg_payload s) = Some s.
Proof.
  intros s Hok Hns. destruct s; cbn [is_sos] in Hns; try discriminate; cbn [seg_ok] in Hok.
  - (* DQT *) rewrite !andb_true_iff in Hok. destruct Hok as ((Hok & Hok0) & Hok1). cbn [seg_code seg_payload]. unfold parse_payload. cbn.
    rewrite parse_qts_ok; [reflexivity|assumption|].
    apply flat_map_length_ge. intros [[pq tq] q]. cbn. lia.
  - (* DHT *) rewrite !andb_true_iff in Hok. destruct Hok as ((Hok & Hok0) & Hok1). cbn [seg_code seg_payload]. unfold parse_payload. cbn.
    rewrite parse_hts_ok; [reflexivity|assumption|].
    apply flat_map_length_ge. intros [[[tc th] c] v]. cbn. lia.
  - (* DAC *) rewrite !andb_true_iff in Hok. destruct Hok as ((Hok & Hok0) & Hok1). cbn [seg_code seg_payload]. unfold parse_payload. cbn.
    rewrite parse_acs_ok by assumption. reflexivity.
  - (* DRI *) apply in_range_iff in Hok. cbn [seg_code seg_payload]. unfold parse_payload, be16. cbn.
    rewrite be16_join by lia. reflexivity.
  - (* APP *) rewrite !andb_true_iff in Hok. destruct Hok as ((Hok & Hok0) & Hok1). apply in_range_iff in Hok. cbn [seg_code seg_payload]. unfold parse_payload.
    unfold M_APP0, M_DQT, M_DHT, M_DAC, M_DRI, M_COM. eqb_false.
    replace (in_range 224 239 (224 + n)) with true by (symmetry; apply in_range_iff; lia).
    replace (224 + n - 224) with n by lia. reflexivity.
  - (* COM *) reflexivity.
  - (* SOF *) rewrite !andb_true_iff in Hok. destruct Hok as (((((Hok & Hok0) & Hok1) & Hok2) & Hok3) & Hok4).
    apply is_sof_code_range in Hok.
    apply in_range_iff in Hok1. apply in_range_iff in Hok2. apply in_range_iff in Hok3.
    cbn [seg_code seg_payload]. unfold parse_payload.
    unfold M_SOF0, M_APP0, M_DQT, M_DHT, M_DAC, M_DRI, M_COM in *. eqb_false.
    replace (in_range 224 239 (192 + n)) with false by (symmetry; apply not_true_iff_false; rewrite in_range_iff; lia).
    replace (is_sof_code (192 + n)) with true
      by (symmetry; unfold is_sof_code; rewrite !andb_true_iff, !negb_true_iff, !Z.eqb_neq, in_range_iff; lia).
    unfold be16. cbn [app]. rewrite parse_fcomps_ok by exact Hok4.
    rewrite Z.eqb_refl. rewrite !be16_join by lia.
    replace (192 + n - 192) with n by lia. reflexivity.
Qed.

Lemma parse_sos_hdr_ok : forall comps ss se ah al first rest,
  seg_ok (SegSOS comps ss se ah al first rest) = true ->
  parse_sos_hdr (seg_payload (SegSOS comps ss se ah al first rest)) = Some (comps, ss, se, ah, al).
Proof.
  intros. cbn [seg_ok] in H. rewrite !andb_true_iff in H.
  destruct H as (((((((H & H0) & H1) & H2) & H3) & H4) & H5) & H6).
  apply in_range_iff in H. apply in_range_iff in H3. apply in_range_iff in H4.
  cbn [seg_payload]. unfold parse_sos_hdr.
  rewrite (take_app' _ (flat_map emit_scomp comps)) by (rewrite scomps_length; unfold lenZ; lia).
  rewrite parse_scomps_ok by exact H0. rewrite Z.eqb_refl.
  rewrite nib_hi, nib_lo by lia. reflexivity.
Qed.

(* -------------------------------------------------------- restart intervals *)
Definition not_rst (c : Z) : Prop := c < 208 \/ 215 < c.

(* the emitted restart markers are RST0, RST1, .., RST7, RST0, .. *)
Fixpoint rst_codes (k : Z) (n : nat) : list Z :=
  match n with O => [] | S m => (M_RST0 + k mod 8) :: rst_codes (k + 1) m end.

Lemma read_rsts_ok : forall rest k fuel f c t, (length rest < fuel)%nat -> c <> 0 -> c <> 255 -> not_rst c ->
  read_rsts fuel k (emit_rsts k rest ++ marker f c ++ t) = Some (rest, marker f c ++ t).
Proof.
  induction rest as [|[n d] rest IH]; intros k fuel f c t Hf Hc0 Hc255 Hr.
  - cbn [emit_rsts app]. destruct fuel; [cbn in Hf; lia|]. cbn [read_rsts].
    rewrite read_marker_marker by assumption.
    replace (in_range 208 215 c) with false; [reflexivity|].
    symmetry. apply not_true_iff_false. rewrite in_range_iff. unfold not_rst in Hr. lia.
  - cbn [length] in Hf. destruct fuel; [lia|]. cbn [emit_rsts read_rsts]. rewrite <- !app_assoc.
    assert (Hm : 0 <= k mod 8 < 8) by (apply Z.mod_pos_bound; lia).
    unfold M_RST0 in *.
    rewrite read_marker_marker by lia.
    replace (in_range 208 215 (208 + k mod 8)) with true by (symmetry; apply in_range_iff; lia).
    rewrite Z.eqb_refl.
    rewrite read_ecs_stuff.
    + rewrite IH by (assumption || lia). reflexivity.
    + destruct rest as [|[n' d'] rest'].
      * cbn [emit_rsts app]. apply marker_ahead_marker. assumption.
      * cbn [emit_rsts]. rewrite <- !app_assoc. apply marker_ahead_marker.
        assert (0 <= (k + 1) mod 8 < 8) by (apply Z.mod_pos_bound; lia). unfold M_RST0. lia.
Qed.

(* any other restart number in place of the expected one is rejected *)
Lemma read_rsts_wrong_number : forall fuel k f m t, 0 <= m < 8 -> m <> k mod 8 ->
  read_rsts (S fuel) k (marker f (M_RST0 + m) ++ t) = None.
Proof.
  intros. cbn [read_rsts]. unfold M_RST0. rewrite read_marker_marker by lia.
  replace (in_range 208 215 (208 + m)) with true by (symmetry; apply in_range_iff; lia).
  destruct (208 + m =? 208 + k mod 8) eqn:E; [apply Z.eqb_eq in E; lia|reflexivity].
Qed.

Lemma emit_rsts_length : forall rest k, (2 * length rest <= length (emit_rsts k rest))%nat.
Proof.
  induction rest as [|[n d] rest IH]; intros; [cbn; lia|].
  cbn [emit_rsts length]. rewrite !app_length, marker_length. specialize (IH (k + 1)). lia.
Qed.

(* ----------------------------------------------------------- whole streams *)
Lemma seg_code_props : forall s, seg_ok s = true ->
  seg_code s <> 0 /\ seg_code s <> 255 /\ seg_code s <> M_EOI /\ not_rst (seg_code s) /\
  ((seg_code s =? M_SOS) = is_sos s).
Proof.
  intros s H. unfold not_rst, M_EOI, M_SOS.
  destruct s; cbn [seg_code is_sos]; cbn [seg_ok] in H;
    try (unfold M_DQT, M_DHT, M_DAC, M_DRI, M_COM, M_SOS; cbn; lia).
  - rewrite !andb_true_iff in H. destruct H as ((H & H0) & H1). apply in_range_iff in H. unfold M_APP0.
    repeat split; try lia; apply Z.eqb_neq; lia.
  - rewrite !andb_true_iff in H. destruct H as (((((H & H0) & H1) & H2) & H3) & H4). apply is_sof_code_range in H. unfold M_SOF0 in *.
    repeat split; try lia; apply Z.eqb_neq; lia.
Qed.

Lemma payload_len_ok : forall s, seg_ok s = true -> lenZ (seg_payload s) <= 65533.
Proof.
  intros s H. destruct s; cbn [seg_ok] in H.
  - rewrite !andb_true_iff in H. destruct H as ((H & H0) & H1). apply Z.leb_le in H1. exact H1.
  - rewrite !andb_true_iff in H. destruct H as ((H & H0) & H1). apply Z.leb_le in H1. exact H1.
  - rewrite !andb_true_iff in H. destruct H as ((H & H0) & H1). apply Z.leb_le in H1. exact H1.
  - cbn. lia.
  - rewrite !andb_true_iff in H. destruct H as ((H & H0) & H1). apply Z.leb_le in H1. exact H1.
  - rewrite !andb_true_iff in H. destruct H as (H & H0). apply Z.leb_le in H0. exact H0.
  - rewrite !andb_true_iff in H. destruct H as (((((H & H0) & H1) & H2) & H3) & H4). apply in_range_iff in H3. cbn [seg_payload]. unfold lenZ in *. unfold be16.
    cbn [length app]. rewrite fcomps_length. lia.
  - rewrite !andb_true_iff in H. destruct H as (((((((H & H0) & H1) & H2) & H3) & H4) & H5) & H6).
    apply in_range_iff in H. cbn [seg_payload]. unfold lenZ in *.
    cbn [length]. rewrite app_length, scomps_length. cbn [length]. lia.
Qed.

Lemma emit_seg_length : forall fs, (4 <= length (emit_seg fs))%nat.
Proof.
  intros [f s]. unfold emit_seg, with_len, be16. cbn [fst snd]. rewrite !app_length, marker_length. cbn [length]. lia.
Qed.

Lemma emit_tail_length : forall segs e, (length segs < length (emit_tail segs e))%nat.
Proof.
  intros. unfold emit_tail. rewrite app_length, marker_length.
  induction segs; [cbn; lia|]. cbn [flat_map length]. rewrite app_length.
  pose proof (emit_seg_length a). lia.
Qed.

(* the rest of a stream after a segment always starts with a marker that is not RSTm *)
Lemma emit_tail_starts : forall segs e, Forall (fun fs => seg_ok (snd fs) = true) segs ->
  exists f c t, emit_tail segs e = marker f c ++ t /\ c <> 0 /\ c <> 255 /\ not_rst c.
Proof.
  intros. destruct segs as [|[f s] segs].
  - exists e, M_EOI, []. unfold emit_tail. cbn [flat_map app]. rewrite app_nil_r.
    unfold not_rst, M_EOI. repeat split; lia.
  - inversion H; subst. cbn [snd] in H2. destruct (seg_code_props s H2) as (A & B & C & D & E).
    exists f, (seg_code s), (with_len (seg_payload s) ++ seg_ecs s ++ emit_tail segs e).
    unfold emit_tail. cbn [flat_map]. unfold emit_seg at 1. cbn [fst snd].
    rewrite <- !app_assoc. repeat split; assumption.
Qed.

Theorem parse_segs_emit : forall segs e fuel,
  Forall (fun fs => seg_ok (snd fs) = true) segs -> (length segs < fuel)%nat ->
  parse_segs fuel (emit_tail segs e) = Some (segs, e).
Proof.
  induction segs as [|[f s] segs IH]; intros e fuel Hok Hf.
  - destruct fuel; [cbn in Hf; lia|]. unfold emit_tail. cbn [flat_map app parse_segs].
    rewrite <- (app_nil_r (marker e M_EOI)). rewrite read_marker_marker by (unfold M_EOI; lia).
    rewrite Z.eqb_refl. reflexivity.
  - inversion Hok as [|x l Hs Hrest]; subst. cbn [snd] in Hs. cbn [length] in Hf.
    destruct fuel; [lia|].
    destruct (seg_code_props s Hs) as (A & B & C & D & E).
    assert (Htail : emit_tail ((f, s) :: segs) e =
                    marker f (seg_code s) ++ with_len (seg_payload s) ++ seg_ecs s ++ emit_tail segs e).
    { unfold emit_tail. cbn [flat_map]. unfold emit_seg at 1. cbn [fst snd]. rewrite <- !app_assoc. reflexivity. }
    rewrite Htail. cbn [parse_segs]. rewrite read_marker_marker by assumption.
    destruct (seg_code s =? M_EOI) eqn:EE; [apply Z.eqb_eq in EE; contradiction|].
    rewrite read_payload_with_len by (apply payload_len_ok; assumption).
    rewrite E. destruct (is_sos s) eqn:Es.
    + destruct s; cbn [is_sos] in Es; try discriminate.
      rewrite parse_sos_hdr_ok by assumption. cbn [seg_ecs]. rewrite <- !app_assoc.
      destruct (emit_tail_starts segs e Hrest) as (f' & c' & t' & Ht & Hc0 & Hc255 & Hnr).
      rewrite Ht.
      rewrite read_ecs_stuff.
      * rewrite read_rsts_ok; try assumption.
        -- rewrite <- Ht. rewrite IH by (assumption || lia). reflexivity.
        -- rewrite !app_length, marker_length. pose proof (emit_rsts_length rest 0). lia.
      * destruct rest as [|[n' d'] rest'].
        -- cbn [emit_rsts app]. apply marker_ahead_marker. assumption.
        -- cbn [emit_rsts]. rewrite <- !app_assoc. apply marker_ahead_marker.
           assert (0 <= 0 mod 8 < 8) by (apply Z.mod_pos_bound; lia). unfold M_RST0. lia.
    + replace (seg_ecs s) with (@nil Z) by (destruct s; cbn in Es; try discriminate; reflexivity).
      cbn [app]. rewrite parse_payload_ok by assumption.
      rewrite IH by (assumption || lia). reflexivity.
Qed.

Definition segs_ok (s : stream) : Prop := Forall (fun fs => seg_ok (snd fs) = true) (st_segs s).

Theorem parse_raw_emit : forall s, segs_ok s -> parse_raw (emit_stream s) = Some s.
Proof.
  intros [segs e] H. unfold emit_stream, parse_raw. cbn [st_segs st_eoi_fill].
  unfold M_SOI. cbn [Z.eqb Pos.eqb andb].
  rewrite parse_segs_emit; [reflexivity|exact H|apply emit_tail_length].
Qed.

Lemma stream_ok_segs_ok : forall s, stream_ok s = true -> segs_ok s.
Proof.
  intros s H. unfold stream_ok in H. apply andb_prop in H. destruct H as [H _].
  apply Forall_forall. intros x Hx. rewrite forallb_forall in H. apply H, Hx.
Qed.

(* writer_sound, marker layer: every valid stream (any number and order of segments,
   any payload sizes, any fill counts, any number of restart intervals) written by the
   spec writer is accepted by the strict parser and gives back the same stream *)
Theorem t81_parse_emit : forall s, stream_ok s = true -> t81_parse (emit_stream s) = Some s.
Proof.
  intros s H. unfold t81_parse. rewrite parse_raw_emit by (apply stream_ok_segs_ok; exact H).
  rewrite H. reflexivity.
Qed.

(* the restart markers of an emitted scan carry the numbers 0,1,..,7,0,.. *)
Fixpoint rst_markers_of (k : Z) (rest : list (nat * list Z)) : list Z :=
  match rest with [] => [] | _ :: t => (M_RST0 + k mod 8) :: rst_markers_of (k + 1) t end.

Lemma rst_markers_cyclic : forall rest k i, (i < length rest)%nat ->
  nth i (rst_markers_of k rest) 0 = M_RST0 + (k + Z.of_nat i) mod 8.
Proof.
  induction rest; intros k i Hi; [cbn in Hi; lia|].
  destruct i; cbn [rst_markers_of nth].
  - replace (k + Z.of_nat 0) with k by lia. reflexivity.
  - cbn [length] in Hi. rewrite IHrest by lia. f_equal. f_equal. lia.
Qed.
