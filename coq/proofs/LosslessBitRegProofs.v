(* The numeric bit register (model/LosslessBitReg.v: get_buffer / bits_left with the
   shifts and masks of PEEK_BITS / GET_BITS / DROP_BITS and of jpeg_fill_bit_buffer)
   refines the bit-list register of model/LosslessLazy.v; bits_left never exceeds the
   64 bits of bit_buf_type because a byte is loaded only while bits_left < MIN_GET_BITS = 57. *)
From Coq Require Import List ZArith Lia Bool.
From LJT Require Import model.Huff model.Lossless model.LosslessBytes model.LosslessLazy model.LosslessBitReg
  proofs.LosslessProofs proofs.LosslessBytesProofs.
Import ListNotations.
Local Open Scope Z_scope.

Definition reg_inv (r : bitreg) : Prop := 0 <= fst r < 2 ^ 64 /\ 0 <= snd r <= BIT_BUF_SIZE.

Lemma reg_bits_length r : length (reg_bits r) = Z.to_nat (snd r).
Proof. apply bits_of_length. Qed.

Lemma bits_of_zero : forall n, bits_of n 0 = repeat false n.
Proof. induction n; cbn [bits_of repeat]; [reflexivity|]. rewrite Z.shiftr_0_l, IHn. reflexivity. Qed.

(* "get_buffer = (get_buffer << 8) | c; bits_left += 8" appends the byte; no bit is lost
   as long as bits_left + 8 <= 64 *)
Lemma reg_load_spec r c : reg_inv r -> snd r + 8 <= 64 -> 0 <= c < 256 ->
  reg_bits (reg_load r c) = reg_bits r ++ bits_of 8 c /\ reg_inv (reg_load r c).
Proof.
  intros [Hg Hb] H8 Hc. destruct r as [gb bl]. cbn [fst snd] in *. unfold reg_load, reg_bits. cbn [fst snd].
  set (X := wrap64 (Z.shiftl gb 8)).
  assert (HX : X = (gb * 256) mod 2 ^ 64) by (unfold X, wrap64; rewrite Z.shiftl_mul_pow2 by lia; reflexivity).
  assert (HXr : 0 <= X < 2 ^ 64) by (rewrite HX; apply Z.mod_pos_bound; lia).
  assert (HXm : X mod 2 ^ 8 = 0).
  { rewrite HX. apply Z.mod_divide; [lia|]. rewrite Z.mod_eq by lia.
    exists (gb - 2 ^ 56 * (gb * 256 / 2 ^ 64)). change (2 ^ 64) with (2 ^ 56 * 256) at 1. change (2 ^ 8) with 256. ring. }
  rewrite (Z.lor_comm X c), (lor_add X c 8) by (try lia; exact HXm).
  assert (HS : X + c = (gb * 256 + c) mod 2 ^ 64).
  { rewrite HX. change (2 ^ 8) with 256 in HXm. rewrite HX in HXm.
    pose proof (Z.mod_pos_bound (gb * 256) (2 ^ 64) ltac:(lia)) as B.
    set (Y := (gb * 256) mod 2 ^ 64) in *.
    pose proof (Z.div_mod (gb * 256) (2 ^ 64) ltac:(lia)) as D. fold Y in D.
    apply Z.mod_unique with (q := gb * 256 / 2 ^ 64); [left|lia].
    assert (Y <= 2 ^ 64 - 256).
    { change (2 ^ 64) with (72057594037927936 * 256) in *. 
      pose proof (Z.div_mod Y 256 ltac:(lia)) as DY. rewrite HXm in DY. nia. }
    lia. }
  split.
  - rewrite HS. replace (Z.to_nat (bl + 8)) with (Z.to_nat bl + 8)%nat by lia.
    change (2 ^ 64) with (2 ^ Z.of_nat 64). rewrite bits_of_low by (unfold BIT_BUF_SIZE in *; lia).
    change 256 with (2 ^ Z.of_nat 8). apply bits_of_join. cbn. lia.
  - split; cbn [fst snd]; unfold BIT_BUF_SIZE in *; [|lia].
    rewrite HS. apply Z.mod_pos_bound. lia.
Qed.

Lemma to_int32_mod x n : 0 <= n <= 32 -> to_int32 x mod 2 ^ n = x mod 2 ^ n.
Proof.
  intros Hn. unfold to_int32.
  pose proof (Z.div_mod (x + 2147483648) 4294967296 ltac:(lia)) as D.
  set (q := (x + 2147483648) / 4294967296) in *.
  replace ((x + 2147483648) mod 4294967296 - 2147483648) with (x + (- q * 2 ^ (32 - n)) * 2 ^ n).
  - apply Z.mod_add. apply Z.pow_nonzero; lia.
  - assert (E : 2 ^ (32 - n) * 2 ^ n = 4294967296) by (rewrite <- Z.pow_add_r by lia; replace (32 - n + n) with 32 by lia; reflexivity).
    replace (- q * 2 ^ (32 - n) * 2 ^ n) with (- q * (2 ^ (32 - n) * 2 ^ n)) by ring. rewrite E. lia.
Qed.

Lemma reg_peek_mod r n : 0 <= n <= 31 -> reg_peek r n = Z.shiftr (fst r) (snd r - n) mod 2 ^ n.
Proof.
  intros Hn. unfold reg_peek. rewrite Z.shiftl_1_l.
  replace (2 ^ n - 1) with (Z.ones n) by (rewrite Z.ones_equiv; lia).
  rewrite Z.land_ones by lia. apply to_int32_mod. lia.
Qed.

(* GET_BITS(n): the value of the first n bits held, which are then dropped *)
Lemma reg_get_spec r n : reg_inv r -> 0 <= n <= snd r -> n <= 31 ->
  get_bits (Z.to_nat n) 0 (reg_bits r) = Some (reg_peek r n, reg_bits (reg_drop r n)) /\ reg_inv (reg_drop r n).
Proof.
  intros [Hg Hb] Hn H31. destruct r as [gb bl]. cbn [fst snd] in *. split.
  - unfold reg_bits, reg_drop. cbn [fst snd].
    replace (Z.to_nat bl) with (Z.to_nat n + Z.to_nat (bl - n))%nat by lia.
    rewrite bits_of_app, get_bits_of by (apply Z.shiftr_nonneg; lia).
    rewrite !Z2Nat.id by lia. rewrite reg_peek_mod by lia. cbn [fst snd]. rewrite Z.mul_0_l, Z.add_0_l. reflexivity.
  - unfold reg_drop. split; cbn [fst snd]; [assumption|unfold BIT_BUF_SIZE in *; lia].
Qed.

Lemma app_tail_eq {A} : forall (p a r b : list A), p ++ r = a ++ b -> length p = length a -> r = b.
Proof.
  induction p as [|x p IH]; intros [|y a] r b E L; cbn in *; try discriminate; [exact E|].
  injection E as _ E. apply (IH a); [exact E|lia].
Qed.

(* DROP_BITS of what a decoder consumed leaves what it did not *)
Lemma reg_drop_spec r pre rest : reg_inv r -> reg_bits r = pre ++ rest ->
  reg_bits (reg_drop r (snd r - Z.of_nat (length rest))) = rest /\
  reg_inv (reg_drop r (snd r - Z.of_nat (length rest))).
Proof.
  intros [Hg Hb] E. destruct r as [gb bl]. cbn [fst snd] in *.
  pose proof (f_equal (@length bool) E) as L. rewrite reg_bits_length, app_length in L. cbn [snd] in L.
  unfold reg_drop, reg_bits in *. cbn [fst snd] in *.
  replace (bl - (bl - Z.of_nat (length rest))) with (Z.of_nat (length rest)) by lia. rewrite Nat2Z.id.
  split; [|split; cbn [fst snd]; [assumption|unfold BIT_BUF_SIZE in *; lia]].
  replace (Z.to_nat bl) with (length pre + length rest)%nat in E by lia.
  rewrite bits_of_app in E. apply (app_tail_eq _ _ _ _ E). rewrite bits_of_length. reflexivity.
Qed.

(* zero bits after a premature marker: "get_buffer <<= MIN_GET_BITS - bits_left" *)
Lemma reg_zero_fill_spec r : reg_inv r -> snd r <= Z.of_nat MIN_GET_BITS ->
  reg_bits (reg_zero_fill r) = reg_bits r ++ repeat false (MIN_GET_BITS - Z.to_nat (snd r)) /\ reg_inv (reg_zero_fill r).
Proof.
  intros [Hg Hb] H57. destruct r as [gb bl]. cbn [fst snd] in *. unfold reg_zero_fill, reg_bits, wrap64. cbn [fst snd].
  unfold MIN_GET_BITS in *. split.
  - rewrite Nat2Z.id. change (2 ^ 64) with (2 ^ Z.of_nat 64). rewrite bits_of_low by lia.
    set (k := (57 - Z.to_nat bl)%nat).
    assert (Ek : Z.of_nat 57 - bl = Z.of_nat k) by (unfold k; lia). rewrite Ek.
    rewrite Z.shiftl_mul_pow2 by lia.
    replace 57%nat with (Z.to_nat bl + k)%nat by (unfold k; lia).
    rewrite <- (Z.add_0_r (gb * 2 ^ Z.of_nat k)).
    rewrite bits_of_join by (split; [lia|apply Z.pow_pos_nonneg; lia]). rewrite bits_of_zero. reflexivity.
  - split; cbn [fst snd]; [apply Z.mod_pos_bound; lia|unfold BIT_BUF_SIZE; lia].
Qed.

Definition bytes_ok (inp : list Z) : Prop := Forall (fun c => 0 <= c < 256) inp.

Lemma next_unit_ok inp u t : bytes_ok inp -> next_unit inp = Some (u, t) ->
  bytes_ok t /\ (forall c, u = inl c -> 0 <= c < 256).
Proof.
  intros Hok. destruct inp as [|c inp]; [discriminate|]. inversion Hok as [|? ? Hc Ht]; subst. cbn [next_unit].
  destruct (c =? 255) eqn:E.
  - clear Hok Hc E. induction inp as [|c2 t2 IH]; [discriminate|]. inversion Ht as [|? ? Hc2 Ht2]; subst.
    destruct (c2 =? 255) eqn:E2; [exact (IH Ht2)|]. destruct (c2 =? 0) eqn:E0; intros H; injection H as <- <-.
    + split; [exact Ht2|]. intros c0 Hc0. injection Hc0 as <-. lia.
    + split; [exact Ht2|]. intros c0 Hc0. discriminate.
  - intros H. injection H as <- <-. split; [exact Ht|]. intros c0 Hc0. injection Hc0 as <-. exact Hc.
Qed.

(* the fill loop on the numeric register is the fill loop on the bit list, and bits_left
   stays within the 64 bits of bit_buf_type: a byte is loaded only while bits_left < 57 *)
Lemma reg_fill_loop_refines : forall fuel r inp, reg_inv r -> bytes_ok inp ->
  match reg_fill_loop fuel r inp with
  | Some (r', i, mk) => fill_loop fuel (reg_bits r) inp = Some (reg_bits r', i, mk) /\ reg_inv r' /\ bytes_ok i
  | None => fill_loop fuel (reg_bits r) inp = None
  end.
Proof.
  induction fuel as [|fuel IH]; intros r inp Hi Hok; cbn [reg_fill_loop fill_loop]; [auto|].
  rewrite reg_bits_length.
  assert (Hcmp : (Z.to_nat (snd r) <? MIN_GET_BITS)%nat = (snd r <? Z.of_nat MIN_GET_BITS)).
  { destruct Hi as [_ Hb]. destruct (snd r <? Z.of_nat MIN_GET_BITS) eqn:E.
    - apply Nat.ltb_lt. apply Z.ltb_lt in E. lia.
    - apply Nat.ltb_ge. apply Z.ltb_ge in E. lia. }
  rewrite Hcmp. destruct (snd r <? Z.of_nat MIN_GET_BITS) eqn:E; [|auto].
  destruct (next_unit inp) as [[[c|m] t]|] eqn:En; [| |reflexivity].
  - destruct (next_unit_ok inp _ _ Hok En) as [Ht Hc]. apply Z.ltb_lt in E. unfold MIN_GET_BITS in E.
    destruct (reg_load_spec r c Hi ltac:(lia) (Hc c eq_refl)) as [El Il].
    specialize (IH (reg_load r c) t Il Ht). rewrite El in IH. exact IH.
  - destruct (next_unit_ok inp _ _ Hok En) as [Ht _]. auto.
Qed.

Definition rstate_inv (s : rstate) : Prop := reg_inv (rs_reg s) /\ bytes_ok (rs_inp s).

Lemma reg_no_more_bytes_refines r inp m insuf n : reg_inv r -> bytes_ok inp -> 0 <= n -> snd r <= Z.of_nat MIN_GET_BITS \/ n <= snd r ->
  abs_state (reg_no_more_bytes r inp m insuf n) = no_more_bytes (reg_bits r) inp m insuf (Z.to_nat n) /\
  rstate_inv (reg_no_more_bytes r inp m insuf n).
Proof.
  intros Hi Hok Hn Hc. unfold reg_no_more_bytes, no_more_bytes. rewrite reg_bits_length.
  assert (Hcmp : (Z.to_nat (snd r) <? Z.to_nat n)%nat = (snd r <? n)).
  { destruct Hi as [_ Hb]. destruct (snd r <? n) eqn:E.
    - apply Nat.ltb_lt. apply Z.ltb_lt in E. lia.
    - apply Nat.ltb_ge. apply Z.ltb_ge in E. lia. }
  rewrite Hcmp. destruct (snd r <? n) eqn:E.
  - assert (H57 : snd r <= Z.of_nat MIN_GET_BITS) by (destruct Hc; [assumption|apply Z.ltb_lt in E; lia]).
    destruct (reg_zero_fill_spec r Hi H57) as [Ez Iz]. unfold abs_state. cbn [rs_reg rs_inp rs_marker rs_insuf]. rewrite Ez. split; [reflexivity|split; assumption].
  - split; [reflexivity|split; assumption].
Qed.

Lemma reg_fill_loop_marker : forall fuel r inp r' i m,
  reg_fill_loop fuel r inp = Some (r', i, Some m) -> snd r' < Z.of_nat MIN_GET_BITS.
Proof.
  induction fuel as [|fuel IH]; intros r inp r' i m H; cbn [reg_fill_loop] in H; [discriminate|].
  destruct (snd r <? Z.of_nat MIN_GET_BITS) eqn:E; [|discriminate].
  destruct (next_unit inp) as [[[c|m0] t]|]; [eapply IH; eauto| |discriminate].
  injection H as <- _ _. apply Z.ltb_lt in E. exact E.
Qed.

Lemma ltb_len_Z r n : reg_inv r -> 0 <= n -> (length (reg_bits r) <? Z.to_nat n)%nat = (snd r <? n).
Proof.
  intros [_ Hb] Hn. rewrite reg_bits_length. destruct (snd r <? n) eqn:E.
  - apply Nat.ltb_lt. apply Z.ltb_lt in E. lia.
  - apply Nat.ltb_ge. apply Z.ltb_ge in E. lia.
Qed.

(* jpeg_fill_bit_buffer on the numeric register = on the bit list *)
Lemma reg_fill_refines s n : rstate_inv s -> 0 <= n <= Z.of_nat MIN_GET_BITS ->
  match reg_fill_bit_buffer s n with
  | Some s' => fill_bit_buffer (abs_state s) (Z.to_nat n) = Some (abs_state s') /\ rstate_inv s'
  | None => fill_bit_buffer (abs_state s) (Z.to_nat n) = None
  end.
Proof.
  intros [Hi Hok] Hn. unfold reg_fill_bit_buffer, fill_bit_buffer. cbn [abs_state br_marker br_buf br_inp br_insuf].
  destruct (rs_marker s) as [m|].
  - destruct (reg_no_more_bytes_refines (rs_reg s) (rs_inp s) m (rs_insuf s) n Hi Hok ltac:(lia)) as [E I].
    { destruct (Z_lt_ge_dec (snd (rs_reg s)) n); [left; lia|right; lia]. }
    rewrite E. auto.
  - pose proof (reg_fill_loop_refines 8 (rs_reg s) (rs_inp s) Hi Hok) as L.
    destruct (reg_fill_loop 8 (rs_reg s) (rs_inp s)) as [[[r' i] mk]|] eqn:El; [|rewrite L; reflexivity].
    destruct L as (E & Ir & Iok). rewrite E. destruct mk as [m|].
    + pose proof (reg_fill_loop_marker _ _ _ _ _ _ El) as Hlt.
      destruct (reg_no_more_bytes_refines r' i m (rs_insuf s) n Ir Iok ltac:(lia) ltac:(left; lia)) as [E2 I2].
      rewrite E2. auto.
    + split; [reflexivity|split; assumption].
Qed.

Lemma get_bits_short : forall n acc bs, (length bs < n)%nat -> get_bits n acc bs = None.
Proof.
  induction n as [|n IH]; intros acc bs H; [lia|]. destruct bs as [|b t]; [reflexivity|].
  cbn [get_bits]. apply IH. cbn in H. lia.
Qed.

Section TokenRefinement.
  Variable dec : Z -> list bool -> option (Z * list bool).
  (* a table decoder returns what it did not consume, and a category *)
  Hypothesis dec_suffix : forall tbl bs s rest, dec tbl bs = Some (s, rest) -> exists pre, bs = pre ++ rest.
  Hypothesis dec_sym : forall tbl bs s rest, dec tbl bs = Some (s, rest) -> 0 <= s <= 16.

  Lemma abs_reg_with s r : abs_state (reg_with s r) = with_buf (abs_state s) (reg_bits r).
  Proof. reflexivity. Qed.

  (* one difference decoded with get_buffer / bits_left arithmetic = decoded on the bit list *)
  Theorem reg_decode_tok_refines tbl st : rstate_inv st ->
    match reg_decode_tok dec tbl st with
    | Some (d, st') => lazy_decode_tok dec tbl (abs_state st) = Some (d, abs_state st') /\ rstate_inv st'
    | None => lazy_decode_tok dec tbl (abs_state st) = None
    end.
  Proof.
    intros I. unfold reg_decode_tok, lazy_decode_tok.
    change (br_buf (abs_state st)) with (reg_bits (rs_reg st)).
    assert (C8 : (length (reg_bits (rs_reg st)) <? 8)%nat = (snd (rs_reg st) <? 8))
      by (apply (ltb_len_Z _ 8); [apply I|lia]). rewrite C8.
    assert (S0 : match (if snd (rs_reg st) <? 8 then reg_fill_bit_buffer st 0 else Some st) with
                 | Some s0 => (if snd (rs_reg st) <? 8 then fill_bit_buffer (abs_state st) 0 else Some (abs_state st)) = Some (abs_state s0) /\ rstate_inv s0
                 | None => (if snd (rs_reg st) <? 8 then fill_bit_buffer (abs_state st) 0 else Some (abs_state st)) = None end).
    { destruct (snd (rs_reg st) <? 8); [|auto]. apply (reg_fill_refines st 0 I). unfold MIN_GET_BITS. lia. }
    destruct (if snd (rs_reg st) <? 8 then reg_fill_bit_buffer st 0 else Some st) as [st0|]; [|rewrite S0; reflexivity].
    destruct S0 as [E0 I0]. rewrite E0. clear E0.
    change (br_buf (abs_state st0)) with (reg_bits (rs_reg st0)).
    assert (C16 : (length (reg_bits (rs_reg st0)) <? 16)%nat = (snd (rs_reg st0) <? 16))
      by (apply (ltb_len_Z _ 16); [apply I0|lia]). rewrite C16.
    assert (S1 : match (if snd (rs_reg st0) <? 16 then reg_fill_bit_buffer st0 0 else Some st0) with
                 | Some s1 => (if snd (rs_reg st0) <? 16 then fill_bit_buffer (abs_state st0) 0 else Some (abs_state st0)) = Some (abs_state s1) /\ rstate_inv s1
                 | None => (if snd (rs_reg st0) <? 16 then fill_bit_buffer (abs_state st0) 0 else Some (abs_state st0)) = None end).
    { destruct (snd (rs_reg st0) <? 16); [|auto]. apply (reg_fill_refines st0 0 I0). unfold MIN_GET_BITS. lia. }
    destruct (if snd (rs_reg st0) <? 16 then reg_fill_bit_buffer st0 0 else Some st0) as [st1|]; [|rewrite S1; reflexivity].
    destruct S1 as [E1 I1]. rewrite E1. clear E1.
    change (br_buf (abs_state st1)) with (reg_bits (rs_reg st1)).
    destruct (dec tbl (reg_bits (rs_reg st1))) as [[s rest]|] eqn:Ed; [|reflexivity].
    destruct (dec_suffix _ _ _ _ Ed) as (pre & Epre). pose proof (dec_sym _ _ _ _ Ed) as Hs.
    destruct (reg_drop_spec (rs_reg st1) pre rest (proj1 I1) Epre) as [Edrop Idrop].
    set (r2 := reg_drop (rs_reg st1) (snd (rs_reg st1) - Z.of_nat (length rest))) in *.
    assert (A2 : abs_state (reg_with st1 r2) = with_buf (abs_state st1) rest) by (rewrite abs_reg_with, Edrop; reflexivity).
    assert (I2 : rstate_inv (reg_with st1 r2)) by (split; [exact Idrop|exact (proj2 I1)]).
    destruct (s =? 0); [rewrite <- A2; auto|]. destruct (s =? 16); [rewrite <- A2; auto|].
    rewrite <- A2. set (st2 := reg_with st1 r2) in *.
    replace (length rest) with (length (reg_bits (rs_reg st2))) by (unfold st2; cbn [rs_reg reg_with]; rewrite Edrop; reflexivity).
    rewrite (ltb_len_Z (rs_reg st2) s (proj1 I2) ltac:(lia)).
    assert (S3 : match (if snd (rs_reg st2) <? s then reg_fill_bit_buffer st2 s else Some st2) with
                 | Some s3 => (if snd (rs_reg st2) <? s then fill_bit_buffer (abs_state st2) (Z.to_nat s) else Some (abs_state st2)) = Some (abs_state s3) /\ rstate_inv s3
                 | None => (if snd (rs_reg st2) <? s then fill_bit_buffer (abs_state st2) (Z.to_nat s) else Some (abs_state st2)) = None end).
    { destruct (snd (rs_reg st2) <? s); [|auto]. apply (reg_fill_refines st2 s I2). unfold MIN_GET_BITS. lia. }
    destruct (if snd (rs_reg st2) <? s then reg_fill_bit_buffer st2 s else Some st2) as [st3|]; [|rewrite S3; reflexivity].
    destruct S3 as [E3 I3]. rewrite E3. clear E3.
    change (br_buf (abs_state st3)) with (reg_bits (rs_reg st3)).
    destruct (snd (rs_reg st3) <? s) eqn:E4.
    - rewrite get_bits_short; [reflexivity|]. rewrite reg_bits_length. apply Z.ltb_lt in E4. destruct I3 as [[_ ?] _]. lia.
    - apply Z.ltb_ge in E4.
      destruct (reg_get_spec (rs_reg st3) s (proj1 I3) ltac:(lia) ltac:(lia)) as [Eg Ig]. rewrite Eg.
      unfold reg_get. split; [reflexivity|]. split; [exact Ig|exact (proj2 I3)].
  Qed.
End TokenRefinement.

(* non-vacuity: AB FF 00 12 then RST0 -- the register after the refill, and GET_BITS(4) *)
Lemma bitreg_example :
  let s0 := {| rs_reg := (0, 0); rs_inp := [171; 255; 0; 18; 255; 208]; rs_marker := None; rs_insuf := false |} in
  rstate_inv s0 /\
  reg_fill_bit_buffer s0 0 = Some {| rs_reg := (11271954, 24); rs_inp := []; rs_marker := Some 208; rs_insuf := false |} /\
  reg_get (11271954, 24) 4 = (10, (11271954, 20)).
Proof.
  cbv zeta. split; [|split; vm_compute; reflexivity].
  unfold rstate_inv, reg_inv, BIT_BUF_SIZE, bytes_ok. cbn [rs_reg rs_inp fst snd].
  split; [split; [split; [lia|reflexivity]|lia]|repeat constructor; lia].
Qed.
