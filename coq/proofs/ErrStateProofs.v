(* C15 -- error-message ownership: a message retrieved for an instance is that instance's own most recent
   failure, whatever failed on other instances or in instance-less functions in between. *)
From Coq Require Import List ZArith Bool Arith Lia String.
From LJT Require Import model.Threads model.ErrState model.Globals gen.GenGlobals proofs.ThreadsProofs.
Import ListNotations.
Local Open Scope Z_scope.

Lemma erun_app tr1 tr2 s :
  erun (tr1 ++ tr2) s = let '(s1, r1) := erun tr1 s in let '(s2, r2) := erun tr2 s1 in (s2, (r1 ++ r2)%list).
Proof.
  revert s. induction tr1 as [|o tr1 IH]; intros s; cbn [app erun].
  - destruct (erun tr2 s). reflexivity.
  - destruct (estep o s) as [s1 r]. rewrite IH. destruct (erun tr1 s1) as [s2 r1]. destruct (erun tr2 s2) as [s3 r2].
    destruct r; reflexivity.
Qed.

(* operations that do not touch instance i leave its (string, flag) pair alone *)
Lemma untouched_inst i : forall mid s,
  forallb (fun o => negb (touches_inst i o)) mid = true ->
  e_inst (fst (erun mid s)) i = e_inst s i.
Proof.
  induction mid as [|o mid IH]; intros s H; [reflexivity|].
  cbn [forallb] in H. apply andb_true_iff in H. destruct H as [Ho Hm].
  cbn [erun]. destruct (estep o s) as [s1 r] eqn:E. specialize (IH s1 Hm).
  destruct (erun mid s1) as [s2 rs] eqn:E2. cbn [fst] in *. rewrite IH.
  apply negb_true_iff in Ho.
  destruct o; cbn in E; inversion E; subst; cbn [e_inst]; try reflexivity;
    cbn [touches_inst] in Ho; unfold upd_inst; rewrite Nat.eqb_sym, Ho; reflexivity.
Qed.

Theorem errstr_ownership_proof :
  forall pre i m mid s,
    forallb (fun o => negb (touches_inst i o)) mid = true ->
    exists rs, snd (erun (pre ++ [EFail i m] ++ mid ++ [EGet i]) s) = (rs ++ [m])%list.
Proof.
  intros pre i m mid s Hmid.
  rewrite erun_app. destruct (erun pre s) as [s1 r1] eqn:E1.
  change ([EFail i m] ++ mid ++ [EGet i])%list with (EFail i m :: (mid ++ [EGet i]))%list.
  cbn [erun estep]. rewrite erun_app.
  set (s2 := mk_est (upd_inst (e_inst s1) i (m, true)) m).
  pose proof (untouched_inst i mid s2 Hmid) as Hu.
  destruct (erun mid s2) as [s3 r2] eqn:E3. cbn [fst] in Hu.
  cbn [erun estep]. cbn [snd].
  exists (r1 ++ r2)%list. rewrite Hu. unfold s2. cbn [e_inst]. unfold upd_inst. rewrite Nat.eqb_refl. cbn [fst snd].
  rewrite app_assoc. reflexivity.
Qed.

(* the pre-fix behaviour violated the clause: the 5-operation witness of finding F-C15-2 (a) and (b) *)
Lemma errstr_old_refuted :
  erun_old true [ENew 1; ENew 2; EFail 1 11; EFail 2 22; EGet 1] est0 = [22] /\
  erun_old false [ENew 0; ENew 1; EFail 0 11; EGet 0; EFail 1 22; EGet 0] est0 = [11; 22] /\
  snd (erun [ENew 1; ENew 2; EFail 1 11; EFail 2 22; EGet 1] est0) = [11] /\
  snd (erun [ENew 0; ENew 1; EFail 0 11; EGet 0; EFail 1 22; EGet 0] est0) = [11; 11].
Proof. vm_compute. repeat split; reflexivity. Qed.

(* ---- the error-state operations are steps inside the inventory: each touches only its own instance's fields 1, 2
   and the calling thread's thread-local string *)
Lemma eop_step_own t o l :
  In l (footprint (eop_step t o)) -> In l (own_locs t (eop_inst o)).
Proof.
  unfold footprint, own_locs. destruct o; cbn; intros H; repeat (destruct H as [<-|H]; [auto 12|]); try contradiction; auto 12.
Qed.

(* in the thread model the query observes exactly the model's answer: decode_get of the values read *)
Lemma eget_observes t i (s : state) :
  decode_get (observe (eop_step t (EGet i)) s) =
  (if Z.eqb (s (Inst i 2)) 0 then s (TlsL t 0) else s (Inst i 1)).
Proof. reflexivity. Qed.

(* ---- tie to the source: generated write sites of the error-state members (gen/GenGlobals.v) *)
Local Open Scope string_scope.
Definition w_fn (w : string * string * string) := fst (fst w).
Definition w_field (w : string * string * string) := snd (fst w).
Definition w_how (w : string * string * string) := snd w.

Definition query_functions : list string := ["tj3GetErrorStr"; "tjGetErrorStr2"; "tjGetErrorStr"; "tj3GetErrorCode"; "tjGetErrorCode"; "tj3Get"].

Definition errstate_source_b : bool :=
  (* the query functions write neither member *)
  forallb (fun w => negb (existsb (String.eqb (w_fn w)) query_functions)) errstate_writes
  (* set_instance_error records the message in the instance and raises the flag; only my_output_message calls it *)
  && existsb (fun w => String.eqb (w_fn w) "set_instance_error" && String.eqb (w_field w) "errStr" && String.prefix "dest:" (w_how w)) errstate_writes
  && existsb (fun w => String.eqb (w_fn w) "set_instance_error" && String.eqb (w_field w) "isInstanceError" && String.eqb (w_how w) "1") errstate_writes
  && existsb (fun c => String.eqb (fst c) "my_output_message" && String.eqb (snd c) "set_instance_error") errstate_calls
  && forallb (fun c => negb (String.eqb (snd c) "set_instance_error") || String.eqb (fst c) "my_output_message") errstate_calls
  (* whoever raises the flag also stores a message in the instance *)
  && forallb (fun w => negb (String.eqb (w_field w) "isInstanceError" && String.eqb (w_how w) "1")
                       || existsb (fun v => String.eqb (w_fn v) (w_fn w) && String.eqb (w_field v) "errStr" && String.prefix "dest:" (w_how v)) errstate_writes)
             errstate_writes
  (* the flag only ever receives the literals 0 and 1 *)
  && forallb (fun w => negb (String.eqb (w_field w) "isInstanceError") || String.eqb (w_how w) "0" || String.eqb (w_how w) "1") errstate_writes
  (* tj3Init initialises the instance string *)
  && existsb (fun w => String.eqb (w_fn w) "tj3Init" && String.eqb (w_field w) "errStr") errstate_writes.

Lemma errstate_source_check : errstate_source_b = true.
Proof. vm_compute. reflexivity. Qed.

(* ---- many threads: error-state operations of different threads on exclusive instances do not interfere, so
   every tj3GetErrorStr observes, in every interleaving, what it observes when its thread runs alone *)
Local Close Scope string_scope.
Fixpoint eprog (t : nat) (ths : list (list eop)) : program :=
  match ths with
  | [] => []
  | th :: r => map (eop_step t) th :: eprog (S t) r
  end.

Lemma nth_eprog : forall ths t k, nth k (eprog t ths) [] = map (eop_step (t + k)) (nth k ths []).
Proof.
  induction ths as [|th r IH]; intros t k.
  - destruct k; reflexivity.
  - destruct k as [|k]; cbn [eprog nth].
    + rewrite Nat.add_0_r. reflexivity.
    + rewrite IH. f_equal. f_equal. lia.
Qed.

Definition einst_exclusive (ths : list (list eop)) : Prop :=
  forall t u a b i, t <> u -> In a (nth t ths []) -> In b (nth u ths []) ->
    eop_inst a = Some i -> eop_inst b = Some i -> False.

Theorem errstate_threads_proof :
  forall ths, einst_exclusive ths ->
  forall tr, is_interleaving (eprog 0 ths) tr ->
  forall s0, solo_equivalent (eprog 0 ths) tr s0 /\ conflict_free (eprog 0 ths).
Proof.
  intros ths Hex tr Htr s0. apply noninterference_all; [| |exact Htr].
  - intros th st l Hth Hst Hl.
    apply In_nth with (d := []) in Hth. destruct Hth as [k [Hk <-]].
    rewrite nth_eprog in Hst. apply in_map_iff in Hst. destruct Hst as [o [<- _]].
    apply (own_locs_private (0 + k) (eop_inst o)). apply eop_step_own. unfold footprint. apply in_or_app. right. exact Hl.
  - intros t u a b l Hne Ha Hb Hla Hlb.
    rewrite nth_eprog in Ha, Hb. cbn [Nat.add] in Ha, Hb.
    apply in_map_iff in Ha. destruct Ha as [oa [<- Hoa]].
    apply in_map_iff in Hb. destruct Hb as [ob [<- Hob]].
    apply eop_step_own in Hla. apply eop_step_own in Hlb.
    exfalso. apply (own_locs_disjoint t u (eop_inst oa) (eop_inst ob) l Hne); auto.
    intros k E1 E2. apply (Hex t u oa ob k Hne Hoa Hob E1 E2).
Qed.

(* ---- the extracted finite-map replay is the thread-model replay *)
Local Open Scope Z_scope.
Lemma loc_eqb_sym a b : loc_eqb a b = loc_eqb b a.
Proof.
  destruct (loc_eqb a b) eqn:E.
  - apply loc_eqb_eq in E. subst. symmetry. apply loc_eqb_eq. reflexivity.
  - destruct (loc_eqb b a) eqn:E2; [|reflexivity]. apply loc_eqb_eq in E2. subst.
    assert (loc_eqb a a = true) by (apply loc_eqb_eq; reflexivity). congruence.
Qed.

Lemma lget_filter l l' ls : loc_eqb l' l = false ->
  lget (filter (fun kv => negb (loc_eqb (fst kv) l)) ls) l' = lget ls l'.
Proof.
  intros H. induction ls as [|[k v] r IH]; [reflexivity|]. cbn [filter fst lget].
  destruct (loc_eqb k l) eqn:E; cbn [negb lget].
  - apply loc_eqb_eq in E. subst. rewrite H. exact IH.
  - rewrite IH. reflexivity.
Qed.

Lemma lget_lset l v ls l' : lget (lset l v ls) l' = if loc_eqb l' l then v else lget ls l'.
Proof. unfold lset. cbn [lget]. destruct (loc_eqb l' l) eqn:E; [reflexivity | apply lget_filter; exact E]. Qed.

Lemma lexec_correct st ls l : lget (lexec st ls) l = exec st (lget ls) l.
Proof.
  unfold lexec, exec, observe. set (vs := map (lget ls) (reads st)).
  induction (writes st) as [|w ws IH]; [reflexivity|].
  cbn [fold_right]. rewrite lget_lset. unfold mem in *. cbn [existsb].
  destruct (loc_eqb l w) eqn:E.
  - apply loc_eqb_eq in E. subst. reflexivity.
  - cbn [orb]. exact IH.
Qed.

Theorem lreplay_correct : forall tr ls s, (forall l, lget ls l = s l) -> lreplay tr ls = replay tr s.
Proof.
  induction tr as [|[t o] r IH]; intros ls s H; [reflexivity|].
  cbn [lreplay replay].
  assert (Hobs : map (lget ls) (reads (eop_step t o)) = observe (eop_step t o) s)
    by (unfold observe; apply map_ext; exact H).
  rewrite Hobs. f_equal. apply IH. intros l. rewrite lexec_correct. unfold exec, observe.
  replace (map (lget ls) (reads (eop_step t o))) with (map s (reads (eop_step t o))) by (symmetry; exact Hobs).
  destruct (mem l (writes (eop_step t o))); [reflexivity | apply H].
Qed.

(* and, for one thread, the thread-model replay is the error-state model of ErrState.erun *)
Definition est_rel (t : nat) (s : state) (e : est) : Prop :=
  (forall i, s (Inst i 1) = fst (e_inst e i) /\ s (Inst i 2) = (if snd (e_inst e i) then 1 else 0)) /\ s (TlsL t 0) = e_tls e.

Lemma replay_is_erun t : forall tr s e, est_rel t s e -> replay (map (pair t) tr) s = snd (erun tr e).
Proof.
  induction tr as [|o tr IH]; intros s e [Hi Ht]; [reflexivity|].
  cbn [map replay erun].
  assert (Hrel : est_rel t (exec (eop_step t o) s) (fst (estep o e))).
  { destruct o; cbn [estep fst eop_step]; split; try intros j; unfold exec, mem; cbn [writes reads existsb loc_eqb sem e_inst e_tls];
      unfold upd_inst; rewrite ?Nat.eqb_refl, ?andb_true_r, ?andb_false_r, ?orb_false_r; cbn [orb andb];
      try (destruct (Nat.eqb j i) eqn:E; cbn [fst snd orb andb]; try (apply Nat.eqb_eq in E; subst);
           try (destruct (Hi j) as [H1 H2]); try (destruct (Hi i) as [H1 H2]); auto);
      try (destruct (Hi j) as [H1 H2]; auto); try exact Ht; try reflexivity. }
  destruct (estep o e) as [e1 r] eqn:E. cbn [fst] in Hrel.
  specialize (IH _ _ Hrel). destruct (erun tr e1) as [e2 rs] eqn:E2. cbn [snd] in *.
  destruct o; cbn in E; inversion E; subst; cbn [is_query app]; try reflexivity.
  - (* EGet *) f_equal. unfold observe. cbn [eop_step reads map decode_get].
    destruct (Hi i) as [H1 H2]. rewrite H1, H2, Ht. match goal with |- context [snd (e_inst ?x i)] => destruct (snd (e_inst x i)) end; reflexivity.
  - (* EGetTls *) f_equal. unfold observe. cbn [eop_step reads map decode_get]. exact Ht.
Qed.

(* ---- nested use (a tj3Transform custom filter calling TurboJPEG on another instance x while the call on y is active):
   the inner call's events lie between the outer call's entry and its failure.  Both instances keep their own message,
   whatever instance-less failures and queries follow. *)
Definition getv (s : est) (i : nat) : Z := if snd (e_inst s i) then fst (e_inst s i) else e_tls s.

Theorem errstr_nested_proof :
  forall pre y x m mx inner2 mid s,
    x <> y ->
    forallb (fun o => negb (touches_inst x o) && negb (touches_inst y o)) inner2 = true ->
    forallb (fun o => negb (touches_inst x o) && negb (touches_inst y o)) mid = true ->
    exists rs,
      snd (erun (pre ++ [ECall y] ++ [EFail x mx] ++ inner2 ++ [EFail y m] ++ mid ++ [EGet y; EGet x]) s) = (rs ++ [m; mx])%list.
Proof.
  intros pre y x m mx inner2 mid s Hxy Hin Hmid.
  assert (Hsplit : forall l, forallb (fun o => negb (touches_inst x o) && negb (touches_inst y o)) l = true ->
             forallb (fun o => negb (touches_inst x o)) l = true /\ forallb (fun o => negb (touches_inst y o)) l = true).
  { induction l as [|o l IH]; cbn; [auto|]. intros H. apply andb_true_iff in H. destruct H as [Ho Hl].
    apply andb_true_iff in Ho. destruct Ho as [H1 H2]. destruct (IH Hl) as [I1 I2]. rewrite H1, H2, I1, I2. auto. }
  destruct (Hsplit _ Hin) as [Hin_x Hin_y]. destruct (Hsplit _ Hmid) as [Hmid_x Hmid_y].
  replace (pre ++ [ECall y] ++ [EFail x mx] ++ inner2 ++ [EFail y m] ++ mid ++ [EGet y; EGet x])%list
    with ((pre ++ [ECall y; EFail x mx]) ++ (inner2 ++ [EFail y m] ++ mid) ++ [EGet y; EGet x])%list
    by (rewrite <- !app_assoc; reflexivity).
  rewrite erun_app. destruct (erun (pre ++ [ECall y; EFail x mx]) s) as [s1 r1] eqn:E1.
  rewrite erun_app. destruct (erun (inner2 ++ [EFail y m] ++ mid) s1) as [s2 r2] eqn:E2.
  (* state of x after the prefix: its own failure *)
  assert (Hx1 : e_inst s1 x = (mx, true)).
  { rewrite erun_app in E1. destruct (erun pre s) as [s0 r0]. cbn in E1. inversion E1; subst. cbn [e_inst]. unfold upd_inst.
    rewrite Nat.eqb_refl. reflexivity. }
  assert (Hx2 : e_inst s2 x = (mx, true)).
  { assert (Hnt : forallb (fun o => negb (touches_inst x o)) (inner2 ++ [EFail y m] ++ mid) = true).
    { rewrite !forallb_app, Hin_x, Hmid_x. cbn. apply Nat.eqb_neq in Hxy. rewrite Nat.eqb_sym in Hxy. rewrite ?andb_true_r. cbn. rewrite Hxy. reflexivity. }
    pose proof (untouched_inst x _ s1 Hnt) as Hu. rewrite E2 in Hu. cbn [fst] in Hu. rewrite Hu. exact Hx1. }
  assert (Hy2 : e_inst s2 y = (m, true)).
  { rewrite erun_app in E2. destruct (erun inner2 s1) as [s3 r3] eqn:E3.
    change ([EFail y m] ++ mid)%list with (EFail y m :: mid) in E2. cbn [erun estep] in E2.
    set (s4 := mk_est (upd_inst (e_inst s3) y (m, true)) m) in E2.
    pose proof (untouched_inst y mid s4 Hmid_y) as Hu.
    destruct (erun mid s4) as [s5 r5] eqn:E5. cbn [fst] in Hu. inversion E2; subst.
    rewrite Hu. unfold s4. cbn [e_inst]. unfold upd_inst. rewrite Nat.eqb_refl. reflexivity. }
  cbn [erun estep snd]. rewrite Hx2, Hy2. cbn [fst snd].
  exists (r1 ++ r2)%list. rewrite <- app_assoc. reflexivity.
Qed.
