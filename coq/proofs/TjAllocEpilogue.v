(* C14 (round 4) -- the calls inside the `bailout:` epilogues of the TurboJPEG functions, which model/TjAlloc.v
   assumes not to fail: the list is GENERATED from turbojpeg.c / turbojpeg-mp.c (gen/GenTjAlloc.v); every call is a release
   (free / tj3Free / fclose), abort-like (jpeg_abort_* / jpeg_destroy_* / tj3Destroy) or term_destination; the facts about
   these callee classes are read from their sources; and underneath them free_pool(valid pool) never raises an error and
   self_destruct is total in the memory-manager model.  Also: the instance-owned ICC buffers (tempICCBuf filled through
   jpeg_read_icc_profile's out-parameter, replaced / freed by tj3DecompressHeader, handed over by tj3GetICCProfile, freed
   by tj3Destroy) are programs of the generated list and pass the same check. *)
From Coq Require Import List ZArith Bool Arith Lia.
From LJT Require Import model.MemMgr model.TjAlloc gen.GenTjAlloc proofs.TjAllocProofs.
Import ListNotations.

Lemma epilogue_calls_classified :
  forallb ecall_ok tj_epilogue_calls = true /\ forallb (fun b => b) tj_epilogue_callee_facts = true /\
  (40 <=? length tj_epilogue_calls)%nat = true.
Proof. vm_compute. repeat split; reflexivity. Qed.

(* what jpeg_abort / jpeg_destroy run underneath: free_pool on a valid pool never errors (for any state) *)
Lemma free_pool_valid_never_errors : forall c m h pid,
  bad_pool pid = false -> snd (free_pool c m h pid) = None.
Proof.
  intros c m h pid Hb. unfold free_pool. rewrite Hb.
  destruct (free_list c _ h _) as [h1 t1]. destruct (free_list c _ h1 t1) as [h2 t2]. reflexivity.
Qed.

Theorem epilogue_calls_cannot_fail :
  (forall e, In e tj_epilogue_calls -> e = ERelease \/ e = EAbortLike \/ e = ETerm) /\
  (forall b, In b tj_epilogue_callee_facts -> b = true) /\
  (forall c m h, snd (free_pool c m h 1) = None /\ snd (free_pool c m h 0) = None).
Proof.
  destruct epilogue_calls_classified as (H1 & H2 & _).
  rewrite forallb_forall in H1, H2. split; [|split].
  - intros e He. specialize (H1 e He). destruct e; auto; discriminate.
  - intros b Hb. apply H2; auto.
  - intros. split; apply free_pool_valid_never_errors; reflexivity.
Qed.

(* the instance-owned ICC buffers: the programs exist in the generated list (so tj_alloc_safe covers them) *)
Lemma icc_owner_programs_generated :
  existsb (fun p => p_destroys p && (2 <=? length (p_owned p))%nat) tj_progs = true /\
  existsb (fun p => existsb (fun i => match i with I (BAcquireOut _) => true | _ => false end) (p_body p) &&
                    existsb (fun i => match i with I (BMove _ _) => true | _ => false end) (p_body p)) tj_progs = true /\
  existsb (fun p => existsb (fun i => match i with I (BEscape _) => true | _ => false end) (p_body p)) tj_progs = true.
Proof. vm_compute. repeat split; reflexivity. Qed.

(* not vacuous: forgetting the free before the replacement, or a destroy that skips a member, is rejected *)
Definition broken_icc1 : prog :=
  {| p_name := 96; p_body := [I (BDecl 0 true); I BSetjmp; I (BAcquireOut 0); I (BMove 1 0)]; p_bail := [];
     p_escape := []; p_owned := [1]; p_destroys := false |}.
Definition broken_icc2 : prog :=
  {| p_name := 95; p_body := [I BSetjmp; I (BRelease 0)]; p_bail := []; p_escape := []; p_owned := [0; 1]; p_destroys := true |}.
Lemma broken_icc_rejected : check broken_icc1 = false /\ check broken_icc2 = false.
Proof. vm_compute. split; reflexivity. Qed.
