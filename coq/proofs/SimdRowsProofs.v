(* C05 -- the row loops of the kernels run exactly as often as the C loops, for every row count. *)
From Coq Require Import List ZArith Lia Bool ZifyBool.
From LJT Require Import lib.Words gen.GenSimdConst model.SimdRows.
Import ListNotations.
Local Open Scope Z_scope.

Section Loop.
Context {A B : Type}.
Variable f : list A -> list B.

(* a counter decremented by the number of output rows per iteration *)
Lemma rowloop_eq_gen ins dec : 0 < dec -> forall fuel cnt outrow n rows,
  cnt = n - outrow -> 0 < cnt -> (Z.to_nat cnt <= fuel)%nat ->
  asm_rowloop f fuel ins dec cnt rows = c_rowloop f (S fuel) ins dec outrow n rows.
Proof.
  intros Hd. induction fuel as [|k IH]; intros cnt outrow n rows Hc Hp Hf; [lia|].
  cbn [asm_rowloop]. change (c_rowloop f (S (S k)) ins dec outrow n rows) with
    (if outrow <? n then f rows ++ c_rowloop f (S k) ins dec (outrow + dec) n (skipn ins rows) else []).
  destruct (outrow <? n) eqn:E1; [|lia]. f_equal.
  destruct (0 <? cnt - dec) eqn:E2.
  - apply IH; lia.
  - (* the C loop stops as well *)
    cbn [c_rowloop]. destruct (outrow + dec <? n) eqn:E3; [lia|reflexivity].
Qed.

Theorem rows_eq ins outs dec n rows : 0 < dec -> dec = outs -> 0 <= ins -> 1 <= n ->
  asm_rows f (ins, outs, dec) n rows = c_rows f (Z.to_nat ins) outs n rows.
Proof.
  intros Hd He Hi Hn. unfold asm_rows, c_rows. destruct (n <=? 0) eqn:E; [lia|]. subst outs.
  apply rowloop_eq_gen; lia.
Qed.
End Loop.

(* the generated row-loop facts are the C loop shapes *)
Definition steps_match (s : Z * Z * Z) (c : nat * Z) : Prop :=
  let '(ins, outs, dec) := s in ins = Z.of_nat (fst c) /\ outs = snd c /\ dec = snd c.
Lemma rowloop_facts :
  steps_match rowloop_h2v1_upsample_sse2 c_steps_h2v1_upsample /\ steps_match rowloop_h2v1_upsample_avx2 c_steps_h2v1_upsample /\
  steps_match rowloop_h2v2_upsample_sse2 c_steps_h2v2_upsample /\ steps_match rowloop_h2v2_upsample_avx2 c_steps_h2v2_upsample /\
  steps_match rowloop_h2v1_fancy_upsample_sse2 c_steps_h2v1_fancy /\ steps_match rowloop_h2v1_fancy_upsample_avx2 c_steps_h2v1_fancy /\
  steps_match rowloop_h2v2_fancy_upsample_sse2 c_steps_h2v2_fancy /\ steps_match rowloop_h2v2_fancy_upsample_avx2 c_steps_h2v2_fancy /\
  steps_match rowloop_h2v1_downsample_sse2 c_steps_h2v1_down /\ steps_match rowloop_h2v1_downsample_avx2 c_steps_h2v1_down /\
  steps_match rowloop_h2v2_downsample_sse2 c_steps_h2v2_down /\ steps_match rowloop_h2v2_downsample_avx2 c_steps_h2v2_down /\
  rowloop_jccolext_sse2 = ([1; 1; 1; 1], 1) /\ rowloop_jccolext_avx2 = ([1; 1; 1; 1], 1) /\
  rowloop_jcgryext_sse2 = ([1; 1], 1) /\ rowloop_jcgryext_avx2 = ([1; 1], 1) /\
  rowloop_jdcolext_sse2 = ([1; 1; 1; 1], 1) /\ rowloop_jdcolext_avx2 = ([1; 1; 1; 1], 1).
Proof. vm_compute. repeat split; reflexivity. Qed.

(* every sample kernel, for every body (per-iteration function), row count n >= 1 and row list:
   the kernel's row loop is the C row loop *)
Definition kernel_rows_eq (s : Z * Z * Z) (c : nat * Z) : Prop :=
  forall (A B : Type) (f : list A -> list B) n rows, 1 <= n -> asm_rows f s n rows = c_rows f (fst c) (snd c) n rows.
Lemma kernel_rows_of_match s c : steps_match s c -> 0 < snd c -> kernel_rows_eq s c.
Proof.
  destruct s as [[ins outs] dec]. intros (H1 & H2 & H3) Hp A B f n rows Hn. cbn [fst snd] in *.
  rewrite rows_eq by lia. subst. rewrite Nat2Z.id. reflexivity.
Qed.
Theorem simd_row_loops_eq :
  kernel_rows_eq rowloop_h2v1_upsample_sse2 c_steps_h2v1_upsample /\ kernel_rows_eq rowloop_h2v1_upsample_avx2 c_steps_h2v1_upsample /\
  kernel_rows_eq rowloop_h2v2_upsample_sse2 c_steps_h2v2_upsample /\ kernel_rows_eq rowloop_h2v2_upsample_avx2 c_steps_h2v2_upsample /\
  kernel_rows_eq rowloop_h2v1_fancy_upsample_sse2 c_steps_h2v1_fancy /\ kernel_rows_eq rowloop_h2v1_fancy_upsample_avx2 c_steps_h2v1_fancy /\
  kernel_rows_eq rowloop_h2v2_fancy_upsample_sse2 c_steps_h2v2_fancy /\ kernel_rows_eq rowloop_h2v2_fancy_upsample_avx2 c_steps_h2v2_fancy /\
  kernel_rows_eq rowloop_h2v1_downsample_sse2 c_steps_h2v1_down /\ kernel_rows_eq rowloop_h2v1_downsample_avx2 c_steps_h2v1_down /\
  kernel_rows_eq rowloop_h2v2_downsample_sse2 c_steps_h2v2_down /\ kernel_rows_eq rowloop_h2v2_downsample_avx2 c_steps_h2v2_down.
Proof.
  destruct rowloop_facts as (F1 & F2 & F3 & F4 & F5 & F6 & F7 & F8 & F9 & F10 & F11 & F12 & _).
  repeat split; apply kernel_rows_of_match; (assumption || (cbn; lia)).
Qed.

(* non-vacuity: 3 rows of a row group all get upsampled; with a decrement of 2 only two would *)
Example rows_nonvacuous :
  asm_h2v1_plain_group rowloop_h2v1_upsample_avx2 3 [[1; 2]; [3; 4]; [5; 6]] = [[1; 1; 2; 2]; [3; 3; 4; 4]; [5; 5; 6; 6]] /\
  c_h2v1_plain_group 3 [[1; 2]; [3; 4]; [5; 6]] = [[1; 1; 2; 2]; [3; 3; 4; 4]; [5; 5; 6; 6]] /\
  asm_h2v1_plain_group (1, 1, 2) 2 [[1; 2]; [3; 4]] = [[1; 1; 2; 2]] /\
  asm_h2v2_plain_group rowloop_h2v2_upsample_sse2 4 [[1]; [2]] = c_h2v2_plain_group 4 [[1]; [2]] /\
  c_h2v2_plain_group 3 [[1]; [2]] = [[1; 1]; [1; 1]; [2; 2]; [2; 2]].
Proof. vm_compute. repeat split; reflexivity. Qed.

(* h2v2 merged upsampling stores the rows in the order of the C code, also when the rows alias *)
Theorem merged2_store_order_eq : forall alias data b,
  asm_merged2_final merged_h2v2_call_rows_sse2 alias data b = c_merged2_final alias data b /\
  asm_merged2_final merged_h2v2_call_rows_avx2 alias data b = c_merged2_final alias data b.
Proof. intros. split; reflexivity. Qed.
Example merged2_alias_nonvacuous :
  c_merged2_final (fun _ => 7) (fun r => [r; r]) 7 = Some [1; 1] /\
  asm_merged2_final [1; 0] (fun _ => 7) (fun r => [r; r]) 7 = Some [0; 0] /\
  c_merged2_final (fun r => r) (fun r => [r; r]) 0 = Some [0; 0].
Proof. vm_compute. repeat split; reflexivity. Qed.
