(* C11 -- the re-packing sequences of the sampling kernels are the identity projections the lane models
   of model/ExtentLanes.v assume: finite facts over the 16 / 32 byte positions, by computation. *)
From Coq Require Import List ZArith Bool.
From LJT Require Import model.ExtentShuffle.
Import ListNotations.
Local Open Scope Z_scope.

Definition tags_eqb (a b : list Z) : bool := (length a =? length b)%nat && forallb (fun p => fst p =? snd p) (combine a b).
Lemma tags_eqb_eq a b : tags_eqb a b = true -> a = b.
Proof.
  unfold tags_eqb. intros H. apply andb_prop in H as [Hl Hf]. apply Nat.eqb_eq in Hl.
  revert b Hl Hf. induction a as [|x a IH]; intros [|y b] Hl Hf; try discriminate; [reflexivity|].
  cbn in Hf. apply andb_prop in Hf as [Hx Hf]. apply Z.eqb_eq in Hx. cbn in Hx. subst. f_equal. apply IH; [injection Hl; auto | exact Hf].
Qed.

Definition cur32 := iota 0 32.     (* the current vector: input bytes 0..31 *)
Definition z32 := zeros 32.
Definition cur16 := iota 0 16.
Definition z16 := zeros 16.

(* all facts in one boolean, checked position by position *)
Definition avx2_facts : bool :=
  (* jcsample-avx2: vpackuswb ymm0,ymm0,ymm1 ; vpermq ymm0,ymm0,0xd8 -> output byte j = word lane j of (ymm0 : ymm1) *)
  tags_eqb (vpermq (vpackuswb (iota 0 16) (iota 16 16)) 216) (iota 0 32) &&
  (* jdsample-avx2 h2v1: bytes -> words in order: vpunpckl/hbw with zero, vperm2i128 0x20 / 0x31 *)
  tags_eqb (word_tags (vperm2i128 (vpunpcklbw cur32 z32) (vpunpckhbw cur32 z32) 32)) (iota 0 16) &&
  tags_eqb (word_tags (vperm2i128 (vpunpcklbw cur32 z32) (vpunpckhbw cur32 z32) 49)) (iota 16 16) &&
  (* previous-sample vector: vperm2i128 ymm2,ymm0(zero),ymm1,0x20 ; vpalignr ymm2,ymm1,ymm2,15 = (--, 0..30) *)
  tags_eqb (vpalignr cur32 (vperm2i128 z32 cur32 32) 15) ((-1) :: iota 0 31) &&
  (* next-sample vector: vperm2i128 ymm4,ymm0,ymm1,0x03 ; vpalignr ymm3,ymm4,ymm1,1 = (1..31, --) *)
  tags_eqb (vpalignr (vperm2i128 z32 cur32 3) cur32 1) (iota 1 31 ++ [-1]) &&
  (* the sample carried to the next vector: vpsrldq ymm7,ymm4,15 with ymm4 = (hi, zero): position 0 = byte 31 *)
  tags_eqb (firstn 1 (vpsrldq (vperm2i128 z32 cur32 3) 15)) [31] &&
  (* first sample of the NEXT vector moved to position 31: vperm2i128 ymm6,ymm0,ymm6,0x20 ; vpslldq ymm6,ymm6,15 *)
  tags_eqb (skipn 31 (vpslldq (vperm2i128 z32 cur32 32) 15)) [0] &&
  (* h2v2 (16 word lanes = 32 bytes): prev / next shifts by one WORD, carried words *)
  tags_eqb (vpalignr cur32 (vperm2i128 z32 cur32 32) 14) ([-1; -1] ++ iota 0 30) &&
  tags_eqb (vpalignr (vperm2i128 z32 cur32 3) cur32 2) (iota 2 30 ++ [-1; -1]) &&
  tags_eqb (skipn 30 (vpslldq (vperm2i128 z32 cur32 32) 14)) [0; 1] &&
  tags_eqb (firstn 2 (vpsrldq (vperm2i128 z32 cur32 3) 14)) [30; 31].

Definition sse2_facts : bool :=
  tags_eqb (l_packuswb (iota 0 8) (iota 8 8)) (iota 0 16) &&
  tags_eqb (word_tags (punpcklbw cur16 z16)) (iota 0 8) && tags_eqb (word_tags (punpckhbw cur16 z16)) (iota 8 8) &&
  tags_eqb (pslldq cur16 1) ((-1) :: iota 0 15) && tags_eqb (psrldq cur16 1) (iota 1 15 ++ [-1]) &&
  tags_eqb (firstn 1 (psrldq cur16 15)) [15] && tags_eqb (skipn 15 (pslldq cur16 15)) [0] &&
  tags_eqb (pslldq cur16 2) ([-1; -1] ++ iota 0 14) && tags_eqb (psrldq cur16 2) (iota 2 14 ++ [-1; -1]).

Theorem shuffles_are_projections : avx2_facts = true /\ sse2_facts = true.
Proof. split; vm_compute; reflexivity. Qed.

(* the same, as equalities *)
Theorem avx2_pack_perm_identity : vpermq (vpackuswb (iota 0 16) (iota 16 16)) 216 = iota 0 32.
Proof. apply tags_eqb_eq. vm_compute. reflexivity. Qed.
Theorem avx2_unpack_in_order :
  word_tags (vperm2i128 (vpunpcklbw cur32 z32) (vpunpckhbw cur32 z32) 32) = iota 0 16 /\
  word_tags (vperm2i128 (vpunpcklbw cur32 z32) (vpunpckhbw cur32 z32) 49) = iota 16 16.
Proof. split; apply tags_eqb_eq; vm_compute; reflexivity. Qed.
Theorem avx2_neighbour_vectors :
  vpalignr cur32 (vperm2i128 z32 cur32 32) 15 = (-1) :: iota 0 31 /\
  vpalignr (vperm2i128 z32 cur32 3) cur32 1 = iota 1 31 ++ [-1].
Proof. split; apply tags_eqb_eq; vm_compute; reflexivity. Qed.
