(* C06 proofs, part 5: the dispatch structure read from the CURRENT source by
   tools/gen_Xform.py (coq/gen/GenXform.v, regenerated on every run) is the
   one the model and the specification assume. *)
From Coq Require Import List ZArith Bool String Lia.
From LJT Require Import model.Transform model.TransformSpec gen.GenXform proofs.TransformImage.
Import ListNotations.
Local Open Scope Z_scope.

Definition all_ops : list xop := [XNone; XFlipH; XFlipV; XTranspose; XTransverse; XRot90; XRot180; XRot270].

Lemma all_ops_complete op : In op all_ops.
Proof. destruct op; cbn; tauto. Qed.

(* which source dimension an edge trim must be given: the uncropped destination extent *)
Definition trim_dim_right (op : xop) : option srcdim :=
  if mirror_x op then Some (if transposes op then DimH else DimW) else None.
Definition trim_dim_bottom (op : xop) : option srcdim :=
  if mirror_y op then Some (if transposes op then DimW else DimH) else None.

Theorem gen_facts_ok :
  (* operation codes: JXFORM_CODE order, and TJXOP i is mapped to the same operation *)
  gen_jxform_order = all_ops /\
  gen_tjxop_map = map (fun op => (op, op)) all_ops /\
  (* jtransform_perfect_transform tests exactly the mirrored source edges *)
  gen_perfect = map (fun op => (op, mirrors_src_x op, mirrors_src_y op)) all_ops /\
  (* trims: the mirrored destination edges, measured against the uncropped destination extent *)
  gen_trim = map (fun op => (op, trim_dim_right op, trim_dim_bottom op)) all_ops /\
  gen_trim_right_shape = ["output_width"; "iMCU_sample_width"; "x_crop_offset"; "iMCU_sample_width";
                          "output_width"; "iMCU_sample_width"]%string /\
  gen_trim_bottom_shape = ["output_height"; "iMCU_sample_height"; "y_crop_offset"; "iMCU_sample_height";
                           "output_height"; "iMCU_sample_height"]%string /\
  (* transposition of workspace, dimensions and critical parameters: exactly the transposing four *)
  gen_transpose_it = map (fun op => (op, transposes op)) all_ops /\
  gen_swap_dims = map (fun op => (op, transposes op)) all_ops /\
  gen_transpose_critical = map (fun op => (op, transposes op)) all_ops /\
  (* routine dispatch *)
  gen_exec = [(XNone, ["do_crop_ext_reflect"; "do_crop_ext_flat"; "do_crop_ext_zero"; "do_crop"]);
              (XFlipH, ["do_flip_h"; "do_flip_h_no_crop"]); (XFlipV, ["do_flip_v"]);
              (XTranspose, ["do_transpose"]); (XTransverse, ["do_transverse"]); (XRot90, ["do_rot_90"]);
              (XRot180, ["do_rot_180"]); (XRot270, ["do_rot_270"])]%string /\
  (* TurboJPEG: iMCU table = 8 x luminance factors, destination subsampling = swapped factors *)
  Forall (fun e => let '((hs, vs), (w, h), (dhs, dvs)) := e in
                   w = 8 * hs /\ h = 8 * vs /\ dhs = vs /\ dvs = hs) gen_tjsamp.
Proof.
  repeat split; try (vm_compute; reflexivity).
  repeat constructor.
Qed.

(* the model's own trim table has the same form, for every image *)
Theorem request_trim_only im op :
  let ncs := Z.of_nat (List.length (i_comps im)) in
  let imw := if ncs =? 1 then 8 else tw op (max_hs (i_comps im)) (max_vs (i_comps im)) * 8 in
  let imh := if ncs =? 1 then 8 else th op (max_hs (i_comps im)) (max_vs (i_comps im)) * 8 in
  let ow0 := tw op (i_w im) (i_h im) in let oh0 := th op (i_w im) (i_h im) in
  request_workspace im (mkxopts op false true false None false) =
  inr (mkplan ncs (if mirror_x op then trim_edge ow0 imw 0 ow0 else ow0)
                  (if mirror_y op then trim_edge oh0 imh 0 oh0 else oh0) imw imh 0 0).
Proof.
  cbv zeta. unfold request_workspace.
  cbn [xo_op xo_perfect xo_trim xo_gray xo_crop xo_slow andb negb]. cbv zeta.
  destruct op; cbn [transposes tw th mirror_x mirror_y]; reflexivity.
Qed.

(* the model's tj wrapper uses the destination iMCU for the alignment test; for the seven
   TJSAMP layouts that is tjMCUWidth/Height of getDstSubsamp *)
Theorem tj_mcu_is_dst_imcu :
  Forall (fun e => let '((hs, vs), (w, h), (dhs, dvs)) := e in
                   forall tr : bool, (if tr then (8 * dhs, 8 * dvs) else (w, h)) =
                                     (if tr then 8 * vs else 8 * hs, if tr then 8 * hs else 8 * vs)) gen_tjsamp.
Proof. repeat constructor; intros [|]; reflexivity. Qed.

(* the model's TurboJPEG tables are those of the current source *)
Theorem tj_tables_from_source :
  tj_samp_mcu = map (fun e => snd (fst e)) gen_tjsamp /\
  forallb (fun i => let d := get_dst_subsamp (Z.of_nat i) false XTranspose in
                    let lum := fun k => fst (fst (nth k gen_tjsamp ((0, 0), (0, 0), (0, 0)))) in
                    let dst := snd (nth i gen_tjsamp ((0, 0), (0, 0), (0, 0))) in
                    (fst (lum (Z.to_nat d)) =? fst dst) && (snd (lum (Z.to_nat d)) =? snd dst) &&
                    (get_dst_subsamp (Z.of_nat i) false XRot180 =? Z.of_nat i) &&
                    (get_dst_subsamp (Z.of_nat i) true XRot90 =? 3))
          (seq 0 7) = true.
Proof. split; vm_compute; reflexivity. Qed.

(* per routine: MCU_cols / MCU_rows are taken from the source dimension that is the uncropped
   destination width / height, for exactly the mirrored axes (what mirror_cols / mirror_rows of the
   specification and g_sw / g_sh of the model use); the column loop steps by h_samp_factor exactly
   in the transposing routines (the two iteration spaces of [nest]) *)
Definition routine_op (r : string) : xop :=
  if String.eqb r "do_crop" then XNone else if String.eqb r "do_flip_h_no_crop" then XFlipH
  else if String.eqb r "do_flip_h" then XFlipH else if String.eqb r "do_flip_v" then XFlipV
  else if String.eqb r "do_transpose" then XTranspose else if String.eqb r "do_rot_90" then XRot90
  else if String.eqb r "do_rot_270" then XRot270 else if String.eqb r "do_rot_180" then XRot180 else XTransverse.

Definition srcdim_eqb (a b : option srcdim) : bool :=
  match a, b with None, None => true | Some DimW, Some DimW => true | Some DimH, Some DimH => true | _, _ => false end.

Theorem routine_shapes_from_source :
  map fst gen_blockwise = ["do_crop"; "do_flip_h_no_crop"; "do_flip_h"; "do_flip_v"; "do_transpose"; "do_rot_90";
                           "do_rot_270"; "do_rot_180"; "do_transverse"]%string /\
  forallb (fun e => Bool.eqb (snd e) (transposes (routine_op (fst e)))) gen_blockwise = true /\
  forallb (fun e => let op := routine_op (fst (fst e)) in
                    srcdim_eqb (snd (fst e)) (trim_dim_right op) && srcdim_eqb (snd e) (trim_dim_bottom op)) gen_mcu_dims = true.
Proof. repeat split; vm_compute; reflexivity. Qed.

(* the in-block loops of the C text, interpreted statement by statement by the translator, ARE the
   model's write lists, in the order the model's nested case analysis uses them *)
Definition wl (ws : list wr) : list (nat * nat * bool) := map (fun w => (w_dst w, w_src w, w_neg w)) ws.

Theorem inblock_writes_from_source :
  gen_inblock =
  [("do_flip_h", [wl W_fliph]); ("do_flip_v", [wl W_flipv]); ("do_transpose", [wl W_transpose]);
   ("do_rot_90", [wl W_rot90; wl W_transpose]); ("do_rot_270", [wl W_rot270; wl W_transpose]);
   ("do_rot_180", [wl W_rot180; wl W_flipv; wl W_fliph]);
   ("do_transverse", [wl W_transverse; wl W_rot270; wl W_rot90; wl W_transpose]);
   ("do_flip_h_no_crop", [wl W_fliph; wl W_fliph])]%string.
Proof. vm_compute. reflexivity. Qed.

(* tj3Transform can never request the parts of transupp.c outside the model: turbojpeg.c does not
   mention JCROP_FORCE / JCROP_REFLECT / JCROP_NEG / JXFORM_WIPE / JXFORM_DROP / drop_*, and the only
   jpeg_transform_info fields it assigns are the ones tj_xopts models *)
Theorem tj_reachable_from_source :
  forallb (fun e => Nat.eqb (snd e) 0) gen_tj_unreachable = true /\
  map fst gen_tj_unreachable = ["JCROP_FORCE"; "JCROP_REFLECT"; "JXFORM_WIPE"; "JXFORM_DROP"; "drop_ptr";
                                "drop_coef_arrays"; "JCROP_NEG"]%string /\
  gen_tj_xinfo_fields = ["crop"; "crop_height"; "crop_height_set"; "crop_width"; "crop_width_set"; "crop_xoffset";
                         "crop_xoffset_set"; "crop_yoffset"; "crop_yoffset_set"; "force_grayscale"; "perfect";
                         "slow_hflip"; "transform"; "trim"]%string.
Proof. repeat split; vm_compute; reflexivity. Qed.

(* every exit of tj3Transform / tjTransform taken after jpeg_read_header passes through `bailout:`,
   which aborts the decompressor (so the next call reads ITS OWN source: tj3Transform re-reads the
   header iff global_state <= DSTATE_INHEADER) *)
Theorem tj_errpaths_from_source :
  gen_tj_errpaths = [("tj3Transform", 0%nat, true, 1%nat); ("tjTransform", 0%nat, true, 1%nat)]%string.
Proof. vm_compute. reflexivity. Qed.
