(* Packed pixels <-> component planes is a bijection on the samples: distinct
   (row, column, slot) triples have distinct addresses for every pitch >= w*ps,
   both row orders and every set of distinct offsets < ps; what the decompressor
   stores is what the compressor reads, and nothing else is touched. *)
From Coq Require Import List ZArith Lia Bool.
From LJT Require Import model.Huff model.LosslessPixels.
Import ListNotations.

Lemma upd_length {A} : forall i (x : A) l, length (upd i x l) = length l.
Proof. induction i; intros x [|a l]; cbn; auto. Qed.
Lemma nth_upd_same {A} : forall i (x d : A) l, (i < length l)%nat -> nth i (upd i x l) d = x.
Proof. induction i; intros x d [|a l] H; cbn in *; try lia; auto. apply IHi. lia. Qed.
Lemma nth_upd_other {A} : forall i j (x d : A) l, i <> j -> nth j (upd i x l) d = nth j l d.
Proof. induction i; intros j x d [|a l] H; destruct j; cbn; auto; try lia. Qed.

Definition apply_writes (l : list (nat * Z)) (b : list Z) : list Z :=
  fold_left (fun b av => upd (fst av) (snd av) b) l b.

Lemma apply_writes_length : forall l b, length (apply_writes l b) = length b.
Proof. induction l as [|[a v] t IH]; intros b; cbn; auto. unfold apply_writes in IH. rewrite IH, upd_length. reflexivity. Qed.

Lemma apply_writes_untouched : forall l b a, (forall v, ~ In (a, v) l) -> nth a (apply_writes l b) 0%Z = nth a b 0%Z.
Proof.
  induction l as [|[a0 v0] t IH]; intros b a H; [reflexivity|]. cbn. unfold apply_writes in IH. rewrite IH.
  - apply nth_upd_other. intros ->. apply (H v0). left. reflexivity.
  - intros v Hin. apply (H v). right. exact Hin.
Qed.

Lemma pair_eq_dec : forall p q : nat * Z, {p = q} + {p <> q}.
Proof. decide equality; [apply Z.eq_dec|apply Nat.eq_dec]. Qed.

(* every store to address a stores v: then v is what is found there afterwards *)
Lemma apply_writes_hit : forall l b a v, (a < length b)%nat -> In (a, v) l ->
  (forall v', In (a, v') l -> v' = v) -> nth a (apply_writes l b) 0%Z = v.
Proof.
  induction l as [|[a0 v0] t IH]; intros b a v Hlen Hin Huniq; [destruct Hin|]. cbn.
  destruct (in_dec pair_eq_dec (a, v) t) as [Ht|Hnt].
  - unfold apply_writes in IH. apply IH; [rewrite upd_length; exact Hlen|exact Ht|].
    intros v' H'. apply Huniq. right. exact H'.
  - destruct Hin as [E|Hin]; [|contradiction]. injection E as -> ->.
    fold (apply_writes t (upd a v b)). rewrite apply_writes_untouched.
    + apply nth_upd_same. exact Hlen.
    + intros v' H'. assert (v' = v) by (apply Huniq; right; exact H'). subst v'. contradiction.
Qed.

Section Layout.
  Variable bottomup : bool.
  Variables w h pitch ps : nat.
  Variable offs : list nat.
  Hypothesis Hoffs : NoDup offs.
  Hypothesis Hps : Forall (fun o => (o < ps)%nat) offs.
  Hypothesis Hpitch : (w * ps <= pitch)%nat.
  Notation A := (addr bottomup h pitch ps offs).

  Lemma off_lt k : (k < length offs)%nat -> (nth k offs 0 < ps)%nat.
  Proof. intros H. rewrite Forall_forall in Hps. apply Hps. apply nth_In. exact H. Qed.

  (* the bijection: distinct samples live at distinct addresses *)
  Theorem addr_injective i x k i' x' k' :
    (i < h)%nat -> (x < w)%nat -> (k < length offs)%nat ->
    (i' < h)%nat -> (x' < w)%nat -> (k' < length offs)%nat ->
    A i x k = A i' x' k' -> i = i' /\ x = x' /\ k = k'.
  Proof.
    intros Hi Hx Hk Hi' Hx' Hk' E. unfold addr, row_start in E.
    pose proof (off_lt k Hk) as Ho. pose proof (off_lt k' Hk') as Ho'.
    set (o := nth k offs 0) in *. set (o' := nth k' offs 0) in *.
    assert (Hin : (x * ps + o < pitch)%nat) by nia.
    assert (Hin' : (x' * ps + o' < pitch)%nat) by nia.
    assert (Ei : i = i').
    { destruct bottomup.
      - destruct (Nat.lt_trichotomy i i') as [L|[->|L]]; [exfalso|reflexivity|exfalso]; nia.
      - destruct (Nat.lt_trichotomy i i') as [L|[->|L]]; [exfalso|reflexivity|exfalso]; nia. }
    subst i'. assert (E2 : (x * ps + o = x' * ps + o')%nat) by (destruct bottomup; lia).
    assert (Ex : x = x') by (destruct (Nat.lt_trichotomy x x') as [L|[->|L]]; [exfalso|reflexivity|exfalso]; nia).
    subst x'. assert (Eo : o = o') by lia.
    split; [reflexivity|]. split; [reflexivity|].
    unfold o, o' in Eo. apply (proj1 (NoDup_nth offs 0%nat) Hoffs); assumption.
  Qed.

  Lemma addr_in_buffer i x k (buf : list Z) : (h * pitch <= length buf)%nat ->
    (i < h)%nat -> (x < w)%nat -> (k < length offs)%nat -> (A i x k < length buf)%nat.
  Proof.
    intros Hb Hi Hx Hk. unfold addr, row_start. pose proof (off_lt k Hk). destruct bottomup; nia.
  Qed.

  Lemma in_writes val a v : In (a, v) (writes bottomup w h pitch ps offs val) <->
    exists i x k, (i < h)%nat /\ (x < w)%nat /\ (k < length offs)%nat /\ a = A i x k /\ v = val k i x.
  Proof.
    unfold writes. rewrite in_flat_map. split.
    - intros (i & Hi & H). rewrite in_flat_map in H. destruct H as (x & Hx & H).
      rewrite in_map_iff in H. destruct H as (k & E & Hk). rewrite in_seq in *. injection E as <- <-.
      exists i, x, k. repeat split; lia.
    - intros (i & x & k & Hi & Hx & Hk & -> & ->). exists i. rewrite in_seq. split; [lia|].
      rewrite in_flat_map. exists x. rewrite in_seq. split; [lia|]. rewrite in_map_iff. exists k.
      rewrite in_seq. split; [reflexivity|lia].
  Qed.

  (* what tj3Decompress* stores through any layout is what tj3Compress* reads back
     through the same layout *)
  Theorem gather_scatter val buf i x k : (h * pitch <= length buf)%nat ->
    (i < h)%nat -> (x < w)%nat -> (k < length offs)%nat ->
    gather bottomup h pitch ps offs (scatter bottomup w h pitch ps offs val buf) k i x = val k i x.
  Proof.
    intros Hb Hi Hx Hk. unfold gather, scatter. apply apply_writes_hit.
    - apply addr_in_buffer; assumption.
    - apply in_writes. exists i, x, k. repeat split; assumption.
    - intros v' H'. apply in_writes in H'. destruct H' as (i' & x' & k' & Hi' & Hx' & Hk' & E & ->).
      destruct (addr_injective i x k i' x' k' Hi Hx Hk Hi' Hx' Hk' E) as (-> & -> & ->). reflexivity.
  Qed.

  (* padding between rows, unused slots and everything outside stay as they were *)
  Theorem scatter_untouched val buf a :
    (forall i x k, (i < h)%nat -> (x < w)%nat -> (k < length offs)%nat -> a <> A i x k) ->
    nth a (scatter bottomup w h pitch ps offs val buf) 0%Z = nth a buf 0%Z.
  Proof.
    intros H. unfold scatter. apply apply_writes_untouched. intros v Hin. apply in_writes in Hin.
    destruct Hin as (i & x & k & Hi & Hx & Hk & E & _). exact (H i x k Hi Hx Hk E).
  Qed.
End Layout.

Theorem pixel_layout_bijection : forall bottomup w h pitch ps offs,
  NoDup offs -> Forall (fun o => (o < ps)%nat) offs -> (w * ps <= pitch)%nat ->
  (forall i x k i' x' k', (i < h)%nat -> (x < w)%nat -> (k < length offs)%nat ->
     (i' < h)%nat -> (x' < w)%nat -> (k' < length offs)%nat ->
     addr bottomup h pitch ps offs i x k = addr bottomup h pitch ps offs i' x' k' -> i = i' /\ x = x' /\ k = k') /\
  (forall val buf i x k, (h * pitch <= length buf)%nat -> (i < h)%nat -> (x < w)%nat -> (k < length offs)%nat ->
     gather bottomup h pitch ps offs (scatter bottomup w h pitch ps offs val buf) k i x = val k i x) /\
  (forall val buf a,
     (forall i x k, (i < h)%nat -> (x < w)%nat -> (k < length offs)%nat -> a <> addr bottomup h pitch ps offs i x k) ->
     nth a (scatter bottomup w h pitch ps offs val buf) 0%Z = nth a buf 0%Z).
Proof.
  intros bu w h pitch ps offs H1 H2 H3. split; [|split].
  - intros. eapply addr_injective; eauto.
  - intros. apply gather_scatter; assumption.
  - intros. apply scatter_untouched; assumption.
Qed.
