(* C11 -- proofs about model/Extent.v (row pointers, SIMD cascades, internal row
   padding, YUV plane loops). *)
From Coq Require Import List ZArith Lia Bool ZifyBool.
From LJT Require Import lib.Sweep model.Extent gen.GenAlign gen.GenTail.
Import ListNotations.
Local Open Scope Z_scope.
Ltac Zify.zify_post_hook ::= Z.div_mod_to_equations.

(* ------------------------------------------------------------ rounding *)
Lemma round_up_pow2_spec a k : 0 <= k -> round_up_pow2 a (2 ^ k) = ((a + 2 ^ k - 1) / 2 ^ k) * 2 ^ k.
Proof.
  intros Hk. unfold round_up_pow2.
  rewrite <- Z.ldiff_land.
  replace (2 ^ k - 1) with (Z.ones k) by (rewrite Z.ones_equiv; lia).
  rewrite Z.ldiff_ones_r by exact Hk.
  rewrite Z.shiftr_div_pow2, Z.shiftl_mul_pow2 by exact Hk. reflexivity.
Qed.

Lemma round_up_1 a : round_up_pow2 a 1 = a.
Proof. change 1 with (2 ^ 0) at 1. rewrite round_up_pow2_spec by lia. change (2 ^ 0) with 1. lia. Qed.
Lemma round_up_2 a : round_up_pow2 a 2 = ((a + 1) / 2) * 2.
Proof. change 2 with (2 ^ 1) at 1. rewrite round_up_pow2_spec by lia. change (2 ^ 1) with 2. f_equal. f_equal. lia. Qed.
Lemma round_up_4 a : round_up_pow2 a 4 = ((a + 3) / 4) * 4.
Proof. change 4 with (2 ^ 2) at 1. rewrite round_up_pow2_spec by lia. change (2 ^ 2) with 4. f_equal. f_equal. lia. Qed.
Lemma round_up_32 a : round_up_pow2 a 32 = ((a + 31) / 32) * 32.
Proof. change 32 with (2 ^ 5) at 1. rewrite round_up_pow2_spec by lia. change (2 ^ 5) with 32. f_equal. f_equal. lia. Qed.
Lemma round_up_64 a : round_up_pow2 a 64 = ((a + 63) / 64) * 64.
Proof. change 64 with (2 ^ 6) at 1. rewrite round_up_pow2_spec by lia. change (2 ^ 6) with 64. f_equal. f_equal. lia. Qed.

(* internal rows: alloc_sarray pads every 8-bit row to a multiple of 2*ALIGN_SIZE = 64
   samples, which is at least what a 16- or 32-column kernel touches *)
Lemma internal_overrun_absorbed_lem n n' :
  0 <= n -> n <= n' ->
  simd_touched sizeof_xmmword n <= sarray_row_len align_size_simd 1 n' /\
  simd_touched sizeof_ymmword n <= sarray_row_len align_size_simd 1 n' /\
  simd_touched (2 * sizeof_ymmword) n <= sarray_row_len align_size_simd 1 n' /\
  n' <= sarray_row_len align_size_simd 1 n' /\
  sarray_row_len align_size_simd 1 n' mod (2 * align_size_simd) = 0.
Proof.
  intros H0 H1. unfold sarray_row_len, simd_touched, sizeof_xmmword, sizeof_ymmword, align_size_simd.
  change (2 * 32 / 1) with 64. rewrite round_up_64. change (2 * 32) with 64. lia.
Qed.

(* TurboJPEG's own aligned temporary rows (tj3EncodeYUVPlanes8 / tj3DecodeYUVPlanes8):
   PAD(m, 32) bytes per row *)
Lemma tj_tmp_rows_absorb n m :
  0 <= n -> n <= m ->
  simd_touched sizeof_xmmword n <= PAD m 32 /\ simd_touched sizeof_ymmword n <= PAD m 32.
Proof.
  intros. unfold PAD, simd_touched, sizeof_xmmword, sizeof_ymmword. rewrite round_up_32. lia.
Qed.

(* the 12/16-bit instantiation of the row rounding (no SIMD there; rows are whole samples) *)
Lemma sarray_row_len_2 n : 0 <= n -> n <= sarray_row_len align_size_simd 2 n.
Proof.
  intros. unfold sarray_row_len, align_size_simd. change (2 * 32 / 2) with 32. rewrite round_up_32. lia.
Qed.

(* ------------------------------------------------------ row pointers *)
Lemma rows_from_In base pitch h bu i n p :
  In p (rows_from base pitch h bu i n) <->
  exists j, i <= j < i + Z.of_nat n /\ p = row_ptr base pitch h bu j.
Proof.
  revert i. induction n as [|n IH]; intros i; cbn [rows_from In].
  - split; [tauto|]. intros (j & Hj & _). lia.
  - rewrite IH. split.
    + intros [H | (j & Hj & Hp)].
      * exists i. split; [lia | congruence].
      * exists j. split; [lia | exact Hp].
    + intros (j & Hj & Hp). destruct (Z.eq_dec i j) as [->|Hne].
      * left. congruence.
      * right. exists j. split; [lia | exact Hp].
Qed.

Lemma rows_from_length base pitch h bu i n : length (rows_from base pitch h bu i n) = n.
Proof. revert i. induction n; intros; cbn [rows_from length]; [reflexivity | f_equal; apply IHn]. Qed.

(* both row orders visit exactly the row starts {base + i*pitch | 0 <= i < h} *)
Lemma rows_In base pitch h bu p : 0 <= h ->
  In p (rows base pitch h bu) <-> exists i, 0 <= i < h /\ p = base + i * pitch.
Proof.
  intros Hh. unfold rows. rewrite rows_from_In. rewrite Z2Nat.id by exact Hh.
  unfold row_ptr. destruct bu.
  - split; intros (j & Hj & Hp).
    + exists (h - j - 1). split; [lia | exact Hp].
    + exists (h - j - 1). split; [lia|]. rewrite Hp. f_equal. f_equal. lia.
  - split; intros (j & Hj & Hp); exists j; (split; [lia | exact Hp]).
Qed.

Lemma rows_same_set base pitch h p : 0 <= h ->
  In p (rows base pitch h true) <-> In p (rows base pitch h false).
Proof. intros Hh. rewrite !rows_In by exact Hh. reflexivity. Qed.

Lemma packed_In k w pitch h ps ssize bu a : 0 <= h ->
  In a (packed_accesses k w pitch h ps ssize bu) <->
  exists i, 0 <= i < h /\ a = mkAcc 0 (i * eff_pitch pitch w ps * ssize) (w * ps * ssize) k.
Proof.
  intros Hh. unfold packed_accesses. rewrite in_map_iff. split.
  - intros (p & Ha & Hp). apply rows_In in Hp; [|exact Hh]. destruct Hp as (i & Hi & ->).
    exists i. split; [exact Hi|]. rewrite <- Ha. reflexivity.
  - intros (i & Hi & ->). exists (0 + i * eff_pitch pitch w ps). split; [reflexivity|].
    apply rows_In; [exact Hh|]. exists i. split; [exact Hi | reflexivity].
Qed.

(* every row visited exactly once *)
Lemma packed_length k w pitch h ps ssize bu : 0 <= h ->
  Z.of_nat (length (packed_accesses k w pitch h ps ssize bu)) = h.
Proof.
  intros Hh. unfold packed_accesses, rows. rewrite map_length, rows_from_length. lia.
Qed.

Definition row_valid (w pitch ps : Z) : Prop := pitch = 0 \/ w * ps <= pitch.

Lemma eff_pitch_ge w pitch ps : row_valid w pitch ps -> w * ps <= eff_pitch pitch w ps.
Proof. unfold row_valid, eff_pitch. intros [->|H]; [reflexivity|]. destruct (pitch =? 0) eqn:E; lia. Qed.

Theorem packed_extent_thm k w pitch h ps ssize bu :
  1 <= w -> 1 <= h -> 1 <= ps -> 1 <= ssize -> row_valid w pitch ps ->
  let P := eff_pitch pitch w ps * ssize in
  let rowbytes := w * ps * ssize in
  (* every access is one whole row interval [i*P, i*P + rowbytes) of the right kind *)
  (forall a, In a (packed_accesses k w pitch h ps ssize bu) ->
     exists i, 0 <= i < h /\ a_buf a = 0 /\ a_rw a = k /\ a_off a = i * P /\ a_len a = rowbytes) /\
  (* hence nothing before row 0, nothing after the end of the last row, nothing in padding *)
  (forall a x, In a (packed_accesses k w pitch h ps ssize bu) -> a_off a <= x < a_off a + a_len a ->
     0 <= x < (h - 1) * P + rowbytes /\ x mod P < rowbytes) /\
  (* every row is visited, exactly once, and bottom-up visits the same set *)
  (forall i, 0 <= i < h -> In (mkAcc 0 (i * P) rowbytes k) (packed_accesses k w pitch h ps ssize bu)) /\
  Z.of_nat (length (packed_accesses k w pitch h ps ssize bu)) = h /\
  (forall a, In a (packed_accesses k w pitch h ps ssize true) <-> In a (packed_accesses k w pitch h ps ssize false)) /\
  (* intervals of distinct rows are disjoint *)
  (forall i j, 0 <= i < j -> i * P + rowbytes <= j * P).
Proof.
  intros Hw Hh Hps Hss Hv P rowbytes.
  pose proof (eff_pitch_ge _ _ _ Hv) as Hp.
  assert (HP : rowbytes <= P) by (unfold P, rowbytes; nia).
  assert (Hrb : 1 <= rowbytes) by (unfold rowbytes; nia).
  assert (HA : forall a, In a (packed_accesses k w pitch h ps ssize bu) ->
     exists i, 0 <= i < h /\ a_buf a = 0 /\ a_rw a = k /\ a_off a = i * P /\ a_len a = rowbytes).
  { intros a Ha. apply packed_In in Ha; [|lia]. destruct Ha as (i & Hi & ->). exists i.
    cbn [a_buf a_rw a_off a_len]. unfold P, rowbytes. repeat split; try lia. }
  split; [exact HA|]. split.
  { intros a x Ha Hx. destruct (HA a Ha) as (i & Hi & _ & _ & Ho & Hl). rewrite Ho, Hl in Hx.
    split; [nia|]. replace x with ((x - i * P) + i * P) by lia. rewrite Z.mod_add by lia.
    rewrite Z.mod_small by lia. lia. }
  split.
  { intros i Hi. apply packed_In; [lia|]. exists i. split; [exact Hi|]. unfold P, rowbytes.
    f_equal; lia. }
  split; [apply packed_length; lia|]. split.
  { intros a. rewrite !packed_In by lia. reflexivity. }
  intros i j Hij. nia.
Qed.

(* decompression: scaled / cropped dimensions are at least 1 and at most the scaled image *)
Lemma tjscaled_pos dim num den : 1 <= dim -> 1 <= num -> 1 <= den -> 1 <= tjscaled dim num den.
Proof. intros. unfold tjscaled. assert (den <= dim * num + den - 1) by nia. nia. Qed.

Lemma set_crop_sound jw jh num den mcuw c c' :
  1 <= jw -> 1 <= jh -> 1 <= num -> 1 <= den ->
  set_crop jw jh num den mcuw c = Some c' ->
  (c' = mkRegion 0 0 0 0 \/
   (1 <= r_w c' /\ 1 <= r_h c' /\ 0 <= r_x c' /\ 0 <= r_y c' /\
    r_x c' + r_w c' <= tjscaled jw num den /\ r_y c' + r_h c' <= tjscaled jh num den)).
Proof.
  intros Hjw Hjh Hn Hd. unfold set_crop.
  destruct ((r_x c =? 0) && (r_y c =? 0) && (r_w c =? 0) && (r_h c =? 0)) eqn:E0.
  { intros [= <-]. left. destruct c; cbn in *. f_equal; lia. }
  destruct ((r_x c <? 0) || (r_y c <? 0) || (r_w c <? 0) || (r_h c <? 0)) eqn:E1; [discriminate|].
  destruct (negb (r_x c mod tjscaled mcuw num den =? 0)) eqn:E2; [discriminate|].
  match goal with |- context [if ?b then None else Some _] => destruct b eqn:E3 end; [discriminate|].
  intros [= <-]. right. cbn [r_x r_y r_w r_h]. lia.
Qed.

Lemma dec_dims_pos jw jh num den c :
  1 <= jw -> 1 <= jh -> 1 <= num -> 1 <= den ->
  (c = mkRegion 0 0 0 0 \/
   (1 <= r_w c /\ 1 <= r_h c /\ 0 <= r_x c /\ 0 <= r_y c /\
    r_x c + r_w c <= tjscaled jw num den /\ r_y c + r_h c <= tjscaled jh num den)) ->
  1 <= dec_out_w jw num den c <= tjscaled jw num den /\
  1 <= dec_out_h jh num den c <= tjscaled jh num den.
Proof.
  intros Hjw Hjh Hn Hd Hc.
  pose proof (tjscaled_pos jw num den Hjw Hn Hd). pose proof (tjscaled_pos jh num den Hjh Hn Hd).
  unfold dec_out_w, dec_out_h. destruct Hc as [-> | Hc]; cbn [r_x r_y r_w r_h].
  - cbn. lia.
  - destruct (negb (r_x c =? 0) || negb (r_w c =? 0) && negb (r_w c =? tjscaled jw num den));
    destruct (negb (r_y c =? 0) || negb (r_h c =? 0)); lia.
Qed.

(* --------------------------------------------- interval bookkeeping *)
Lemma cover_count_app l1 l2 x : cover_count (l1 ++ l2) x = cover_count l1 x + cover_count l2 x.
Proof. induction l1 as [|[o len] t IH]; cbn [cover_count app]; [lia | rewrite IH; lia]. Qed.

Lemma cover_count_shift off l x : cover_count (map (shift off) l) x = cover_count l (x - off).
Proof.
  induction l as [|[o len] t IH]; cbn [cover_count map shift fst snd]; [reflexivity|].
  rewrite IH. f_equal.
  destruct ((off + o <=? x) && (x <? off + o + len)) eqn:E1, ((o <=? x - off) && (x - off <? o + len)) eqn:E2; lia.
Qed.

Lemma cover_count_insert a l x : cover_count (insert_iv a l) x = cover_count (a :: l) x.
Proof.
  induction l as [|b t IH]; cbn [insert_iv]; [reflexivity|].
  destruct (fst a <=? fst b); [reflexivity|].
  destruct a as [oa la], b as [ob lb]. cbn [cover_count] in *. rewrite IH. lia.
Qed.

Lemma cover_count_sort l x : cover_count (sort_iv l) x = cover_count l x.
Proof.
  unfold sort_iv. induction l as [|a t IH]; cbn [fold_right]; [reflexivity|].
  rewrite cover_count_insert. destruct a as [o len]. cbn [cover_count]. rewrite IH. reflexivity.
Qed.

Lemma contig_app a l1 l2 :
  contig a (l1 ++ l2) = match contig a l1 with Some m => contig m l2 | None => None end.
Proof.
  revert a. induction l1 as [|[o len] t IH]; intros a; cbn [contig app]; [reflexivity|].
  destruct ((o =? a) && (0 <? len)); [apply IH | reflexivity].
Qed.

Lemma contig_shift off a l b : contig a l = Some b -> contig (off + a) (map (shift off) l) = Some (off + b).
Proof.
  revert a. induction l as [|[o len] t IH]; intros a; cbn [contig map shift fst snd].
  - intros [= ->]. reflexivity.
  - destruct ((o =? a) && (0 <? len)) eqn:E; [|discriminate]. intros H.
    replace ((off + o =? off + a) && (0 <? len)) with true by lia.
    replace (off + a + len) with (off + (a + len)) by lia. apply IH. exact H.
Qed.

Lemma contig_cover a l b : contig a l = Some b ->
  a <= b /\ forall x, cover_count l x = if (a <=? x) && (x <? b) then 1 else 0.
Proof.
  revert a. induction l as [|[o len] t IH]; intros a; cbn [contig cover_count].
  - intros [= ->]. split; [lia|]. intros x. destruct ((b <=? x) && (x <? b)) eqn:E; lia.
  - destruct ((o =? a) && (0 <? len)) eqn:E; [|discriminate]. intros H.
    destruct (IH _ H) as [Hle Hc]. split; [lia|]. intros x. rewrite Hc.
    destruct ((o <=? x) && (x <? o + len)) eqn:E1, ((a + len <=? x) && (x <? b)) eqn:E2,
             ((a <=? x) && (x <? b)) eqn:E3; lia.
Qed.

(* every byte of [0,n) accessed exactly once, no byte outside accessed at all *)
Definition exact_cover (l : list (Z * Z)) (n : Z) : Prop :=
  forall x, cover_count l x = if (0 <=? x) && (x <? n) then 1 else 0.

(* ---------------------------------------------------- store cascades *)
Lemma run_st_shift steps skip cnt off :
  run_st steps skip cnt off = map (shift off) (run_st steps skip cnt 0).
Proof.
  revert skip cnt off. induction steps as [|s t IH]; intros skip cnt off; cbn [run_st map]; [reflexivity|].
  destruct skip as [|k]; [|apply IH].
  destruct (cnt <? s_thr s); [apply IH|].
  rewrite map_app, map_map. f_equal.
  rewrite (IH _ _ (off + s_adv s)), (IH _ _ (0 + s_adv s)), map_map.
  apply map_ext. intros [o l]. unfold shift. cbn [fst snd]. f_equal. lia.
Qed.

Definition opt_eqb (a : option Z) (b : Z) : bool := match a with Some x => x =? b | None => false end.
Lemma opt_eqb_true a b : opt_eqb a b = true -> a = Some b.
Proof. destruct a; cbn; [intros H; f_equal; lia | discriminate]. Qed.

Definition st_kernel_ok (k : st_kernel) : bool :=
  (0 <? sk_vec k) && (0 <? sk_ps k) &&
  opt_eqb (contig 0 (sk_full k)) (sk_ps k * sk_vec k) &&
  sweep (fun c => opt_eqb (contig 0 (run_st (sk_tail k) O (c * sk_mult k) 0)) (c * sk_ps k)) 0 (sk_vec k).

Lemma st_row_exact k : st_kernel_ok k = true ->
  forall fuel cols off, 0 <= cols -> (Z.to_nat cols < fuel)%nat ->
  exists l, st_row fuel k cols off = Some l /\ contig off l = Some (off + cols * sk_ps k).
Proof.
  unfold st_kernel_ok. intros Hok.
  apply andb_prop in Hok as [Hok Hsw]. apply andb_prop in Hok as [Hok Hfull].
  apply andb_prop in Hok as [HV Hps]. apply opt_eqb_true in Hfull.
  pose proof (sweep_sound _ _ _ Hsw) as Htail. cbv beta in Htail.
  induction fuel as [|f IH]; intros cols off Hc Hf; [lia|]. cbn [st_row].
  destruct (cols <? sk_vec k) eqn:E.
  - eexists. split; [reflexivity|]. rewrite run_st_shift.
    replace off with (off + 0) at 1 by lia. apply contig_shift. apply opt_eqb_true. apply Htail. lia.
  - pose proof (contig_shift off 0 _ _ Hfull) as Hf1. replace (off + 0) with off in Hf1 by lia.
    destruct (cols - sk_vec k =? 0) eqn:E2.
    + eexists. split; [reflexivity|]. rewrite Hf1. f_equal. nia.
    + destruct (IH (cols - sk_vec k) (off + sk_ps k * sk_vec k)) as (l & Hl & Hcl); [lia | lia |].
      rewrite Hl. eexists. split; [reflexivity|]. rewrite contig_app, Hf1, Hcl. f_equal. nia.
Qed.

Theorem st_row_stores_exact k : st_kernel_ok k = true -> forall cols, 0 <= cols ->
  exists l, st_row_stores k cols = Some l /\ contig 0 l = Some (cols * sk_ps k) /\ exact_cover l (cols * sk_ps k).
Proof.
  intros Hok cols Hc. destruct (st_row_exact k Hok (S (Z.to_nat cols)) cols 0 Hc) as (l & Hl & Hcl); [lia|].
  exists l. split; [exact Hl|]. split; [exact Hcl|]. intros x. apply (contig_cover _ _ _ Hcl).
Qed.

(* ----------------------------------------------------- load cascades *)
Definition ld_kernel_ok (k : ld_kernel) : bool :=
  (0 <? lk_vec k) && (0 <? lk_ps k) &&
  opt_eqb (contig 0 (lk_full k)) (lk_ps k * lk_vec k) &&
  sweep (fun c => opt_eqb (contig 0 (sort_iv (run_ld (lk_tail k) (lk_scale k) (c * lk_mult k)))) (c * lk_ps k)) 1 (lk_vec k).

Lemma ld_row_exact k : ld_kernel_ok k = true ->
  forall fuel cols off, 0 <= cols -> (Z.to_nat cols < fuel)%nat ->
  exists l, ld_row fuel k cols off = Some l /\
    forall x, cover_count l x = if (off <=? x) && (x <? off + cols * lk_ps k) then 1 else 0.
Proof.
  unfold ld_kernel_ok. intros Hok.
  apply andb_prop in Hok as [Hok Hsw]. apply andb_prop in Hok as [Hok Hfull].
  apply andb_prop in Hok as [HV Hps]. apply opt_eqb_true in Hfull.
  pose proof (sweep_sound _ _ _ Hsw) as Htail. cbv beta in Htail.
  induction fuel as [|f IH]; intros cols off Hc Hf; [lia|]. cbn [ld_row].
  destruct (cols <? lk_vec k) eqn:E.
  - eexists. split; [reflexivity|]. intros x. destruct (cols =? 0) eqn:E0.
    + cbn [cover_count]. destruct ((off <=? x) && (x <? off + cols * lk_ps k)) eqn:E1; lia.
    + rewrite cover_count_shift, <- cover_count_sort.
      assert (Hr : 1 <= cols < lk_vec k) by lia. apply Htail in Hr. apply opt_eqb_true in Hr.
      destruct (contig_cover _ _ _ Hr) as [_ Hcc]. rewrite Hcc.
      destruct ((0 <=? x - off) && (x - off <? cols * lk_ps k)) eqn:E1,
               ((off <=? x) && (x <? off + cols * lk_ps k)) eqn:E2; lia.
  - destruct (IH (cols - lk_vec k) (off + lk_ps k * lk_vec k)) as (l & Hl & Hcl); [lia | lia |].
    rewrite Hl. eexists. split; [reflexivity|]. intros x.
    rewrite cover_count_app, cover_count_shift, Hcl.
    destruct (contig_cover _ _ _ Hfull) as [_ Hcc]. rewrite Hcc.
    destruct ((0 <=? x - off) && (x - off <? lk_ps k * lk_vec k)) eqn:E1,
             ((off + lk_ps k * lk_vec k <=? x) && (x <? off + lk_ps k * lk_vec k + (cols - lk_vec k) * lk_ps k)) eqn:E2,
             ((off <=? x) && (x <? off + cols * lk_ps k)) eqn:E3; nia.
Qed.

Theorem ld_row_loads_exact k : ld_kernel_ok k = true -> forall cols, 0 <= cols ->
  exists l, ld_row_loads k cols = Some l /\ exact_cover l (cols * lk_ps k).
Proof.
  intros Hok cols Hc. destruct (ld_row_exact k Hok (S (Z.to_nat cols)) cols 0 Hc) as (l & Hl & Hcl); [lia|].
  exists l. split; [exact Hl|]. intros x. rewrite Hcl. replace (0 + cols * lk_ps k) with (cols * lk_ps k) by lia.
  reflexivity.
Qed.

(* the kernels READ FROM THE CURRENT .asm FILES satisfy the side condition *)
Lemma gen_st_kernels_ok : forallb st_kernel_ok gen_st_kernels = true.
Proof. vm_compute. reflexivity. Qed.
Lemma gen_ld_kernels_ok : forallb ld_kernel_ok gen_ld_kernels = true.
Proof. vm_compute. reflexivity. Qed.

(* and they are the hand transcription of model/Extent.v *)
Lemma gen_st_is_hand : gen_st_kernels =
  [sse2_st3; sse2_st4; avx2_st3; avx2_st4; sse2_st3; sse2_st4; avx2_st3; avx2_st4].
Proof. reflexivity. Qed.
Lemma gen_ld_is_hand : gen_ld_kernels =
  [sse2_ld3; sse2_ld4; avx2_ld3; avx2_ld4; sse2_ld3; sse2_ld4; avx2_ld3; avx2_ld4].
Proof. reflexivity. Qed.

Theorem tail_stores_exact_thm k : In k gen_st_kernels -> forall cols, 0 <= cols ->
  exists l, st_row_stores k cols = Some l /\ contig 0 l = Some (cols * sk_ps k) /\ exact_cover l (cols * sk_ps k).
Proof.
  intros Hin. apply st_row_stores_exact.
  pose proof gen_st_kernels_ok as H. rewrite forallb_forall in H. apply H. exact Hin.
Qed.

Theorem tail_loads_exact_thm k : In k gen_ld_kernels -> forall cols, 0 <= cols ->
  exists l, ld_row_loads k cols = Some l /\ exact_cover l (cols * lk_ps k).
Proof.
  intros Hin. apply ld_row_loads_exact.
  pose proof gen_ld_kernels_ok as H. rewrite forallb_forall in H. apply H. exact Hin.
Qed.
