(* Annex D, level 2 of the round-trip argument: the register encoder of D.1 (C, CT, the last
   byte B that may still take a carry, the stack ST of X'FF' bytes) serialises exactly the
   unbounded code register of the idealised encoder:
       ic = value(bytes written so far) * 2^(27 - CT) + C,
   carries resolve into B and turn stacked X'FF' into X'00', and Flush writes a value inside
   the final interval.  Together with level 1: qm_run (qm_encode_all ds) returns ds. *)
From Coq Require Import List ZArith Bool Lia Arith FMapPositive.
From LJT Require Import model.T81Spec model.T81Arith proofs.T81QMProofs proofs.T81ArithProofsIdeal.
Import ListNotations.
Local Open Scope Z_scope.

(* ------------------------------------------------------------ byte strings *)
Definition bval (l : list Z) : Z := fold_left (fun acc b => acc * 256 + b) l 0.
Definition lenZ' (l : list Z) : Z := Z.of_nat (length l).

Lemma bval_gen : forall l acc, fold_left (fun a b => a * 256 + b) l acc = acc * 256 ^ lenZ' l + bval l.
Proof.
  unfold bval, lenZ'. induction l as [|x t IH]; intros acc.
  - cbn. lia.
  - cbn [fold_left length]. rewrite IH. rewrite (IH (0 * 256 + x)).
    rewrite Nat2Z.inj_succ, Z.pow_succ_r by lia. ring.
Qed.

Lemma bval_app : forall a b, bval (a ++ b) = bval a * 256 ^ lenZ' b + bval b.
Proof. intros. unfold bval at 1. rewrite fold_left_app. rewrite bval_gen. reflexivity. Qed.

Lemma bval_snoc : forall a x, bval (a ++ [x]) = bval a * 256 + x.
Proof. intros. rewrite bval_app. unfold lenZ', bval at 2. cbn. lia. Qed.

Lemma bval_zeros : forall k, bval (repeat 0 k) = 0.
Proof. induction k; [reflexivity|]. change (repeat 0 (S k)) with ([0] ++ repeat 0 k). rewrite bval_app, IHk. unfold bval. cbn. lia. Qed.

Lemma bval_ffs : forall k, bval (repeat 255 k) = 256 ^ Z.of_nat k - 1.
Proof.
  induction k; [reflexivity|]. cbn [repeat]. rewrite repeat_cons. rewrite bval_snoc, IHk.
  rewrite Nat2Z.inj_succ, Z.pow_succ_r by lia. lia.
Qed.

Lemma lenZ'_app : forall a b, lenZ' (a ++ b) = lenZ' a + lenZ' b.
Proof. intros. unfold lenZ'. rewrite app_length. lia. Qed.
Lemma lenZ'_repeat : forall x k, lenZ' (repeat x k) = Z.of_nat k.
Proof. intros. unfold lenZ'. rewrite repeat_length. reflexivity. Qed.

Lemma rev_repeat : forall (x : Z) k, rev (repeat x k) = repeat x k.
Proof.
  induction k; [reflexivity|]. cbn [repeat rev]. rewrite IHk. symmetry. apply repeat_cons.
Qed.

(* ------------------------------------------------------------ Byte_out *)
Definition optl (b : option Z) : list Z := match b with Some v => [v] | None => [] end.
Definition emitted (b : option Z) (stk : nat) (out : list Z) : list Z := rev out ++ optl b ++ repeat 255 stk.

Definition b_ok (b : option Z) : Prop := match b with Some v => 0 <= v <= 254 | None => True end.

Lemma byte_out_sem : forall c b stk out, 0 <= c < 511 * 524288 -> isbytes (rev out) -> b_ok b ->
  (134217728 <= c -> b <> None) ->
  let '(c', b', stk', out') := byte_out c b stk out in
  c' = c mod 524288 /\
  bval (emitted b' stk' out') = bval (emitted b stk out) * 256 + c / 524288 /\
  lenZ' (emitted b' stk' out') = lenZ' (emitted b stk out) + 1 /\
  isbytes (rev out') /\ b_ok b' /\ (b' = None -> b = None /\ out' = out).
Proof.
  intros c b stk out Hc Ho Hb Hcar. unfold byte_out.
  assert (Ht : 0 <= c / 524288 <= 510).
  { split; [apply Z.div_pos; lia|]. apply Z.lt_succ_r. apply Z.div_lt_upper_bound; lia. }
  set (t := c / 524288) in *.
  destruct (t >? 255) eqn:E1.
  - apply Z.gtb_lt in E1.
    assert (Hcc : 134217728 <= c).
    { unfold t in E1. destruct (Z_lt_ge_dec c 134217728) as [L|G]; [|lia].
      assert (c / 524288 < 256) by (apply Z.div_lt_upper_bound; lia). lia. }
    destruct b as [v|]; [|exfalso; apply (Hcar Hcc); reflexivity]. cbn [b_ok] in Hb.
    split; [reflexivity|]. unfold emitted, optl.
    rewrite rev_app_distr, rev_repeat. cbn [rev]. rewrite <- !app_assoc. cbn [app].
    assert (Tm : t mod 256 = t - 256) by (symmetry; apply Z.mod_unique with 1; lia).
    split; [|split; [|split; [|split]]].
    + rewrite Tm. cbn [repeat].
      replace (rev out ++ v + 1 :: repeat 0 stk ++ [t - 256]) with ((rev out ++ [v + 1]) ++ repeat 0 stk ++ [t - 256])
        by (rewrite <- app_assoc; reflexivity).
      replace (rev out ++ v :: repeat 255 stk) with ((rev out ++ [v]) ++ repeat 255 stk) by (rewrite <- app_assoc; reflexivity).
      rewrite (bval_app (rev out ++ [v + 1])), (bval_app (rev out ++ [v])), !bval_snoc, bval_zeros, bval_ffs.
      rewrite lenZ'_app, !lenZ'_repeat. unfold lenZ'. cbn [length]. change (Z.of_nat 1) with 1.
      rewrite Z.pow_add_r, Z.pow_1_r by lia. ring.
    + cbn [repeat]. replace (rev out ++ v + 1 :: repeat 0 stk ++ [t mod 256]) with ((rev out ++ [v + 1]) ++ repeat 0 stk ++ [t mod 256])
        by (rewrite <- app_assoc; reflexivity).
      replace (rev out ++ v :: repeat 255 stk) with ((rev out ++ [v]) ++ repeat 255 stk) by (rewrite <- app_assoc; reflexivity).
      rewrite !lenZ'_app, !lenZ'_repeat. unfold lenZ'. cbn [length]. lia.
    + apply Forall_app. split; [exact Ho|]. constructor; [lia|]. apply Forall_forall. intros x Hx. apply repeat_spec in Hx. lia.
    + cbn [b_ok]. lia.
    + discriminate.
  - rewrite Z.gtb_ltb in E1. apply Z.ltb_ge in E1. destruct (t =? 255) eqn:E2.
    + apply Z.eqb_eq in E2. split; [reflexivity|]. unfold emitted.
      cbn [repeat]. rewrite repeat_cons. rewrite !app_assoc. rewrite bval_snoc, lenZ'_app. unfold lenZ' at 2. cbn [length].
      split; [rewrite E2; reflexivity|split; [lia|split; [assumption|split; [assumption|intros Hn; split; [exact Hn|reflexivity]]]]].
    + apply Z.eqb_neq in E2. split; [reflexivity|]. unfold emitted. cbn [optl repeat app].
      assert (Er : rev (repeat 255 stk ++ match b with Some v => v :: out | None => out end) = rev out ++ optl b ++ repeat 255 stk).
      { rewrite rev_app_distr, rev_repeat. destruct b; cbn [optl rev app]; rewrite <- ?app_assoc; reflexivity. }
      rewrite Er. rewrite bval_snoc, lenZ'_app. unfold lenZ' at 2. cbn [length].
      split; [reflexivity|split; [lia|split; [|split]]].
      * apply Forall_app. split; [exact Ho|]. apply Forall_app. split.
        -- destruct b; cbn [optl b_ok] in *; constructor; [lia|constructor].
        -- apply Forall_forall. intros x Hx. apply repeat_spec in Hx. lia.
      * cbn [b_ok]. lia.
      * discriminate.
Qed.

(* --------------------------------------------- register encoder vs ideal encoder *)
(* K0 = isf of the ideal encoder at the start; N = K0 - s shifts so far *)
Definition RefT (K0 a c ct : Z) (b : option Z) (stk : nat) (out : list Z) (cI s : Z) : Prop :=
  let em := emitted b stk out in
  cI = bval em * 2 ^ (27 - ct) + c /\
  8 * lenZ' em = (K0 - s) - 11 + ct /\
  0 <= c /\ 1 <= ct <= 11 /\
  (em = [] -> c + a <= 2 ^ (27 - ct)) /\
  (em <> [] -> ct <= 8 /\ c + a <= 589824 * 2 ^ (8 - ct)) /\
  isbytes (rev out) /\ b_ok b /\ (b = None -> out = []) /\
  cI + a <= 2 ^ (16 + (K0 - s)) /\ s <= K0.

Lemma emitted_nil : forall b stk out, emitted b stk out = [] -> b = None /\ stk = O /\ out = [].
Proof.
  intros b stk out H. unfold emitted in H. apply app_eq_nil in H. destruct H as [H1 H2].
  apply app_eq_nil in H2. destruct H2 as [H2 H3]. split; [destruct b; [discriminate|reflexivity]|].
  split; [destruct stk; [reflexivity|discriminate]|]. destruct out; [reflexivity|]. cbn in H1. apply app_eq_nil in H1. destruct H1; discriminate.
Qed.

Lemma pow_dbl : forall e, 0 <= e -> 2 ^ (e + 1) = 2 * 2 ^ e.
Proof. intros. rewrite Z.pow_add_r, Z.pow_1_r by lia. ring. Qed.

Lemma step_ref : forall K0 a c ct b stk out cI s, 1 <= a < 32768 ->
  RefT K0 a c ct b stk out cI s ->
  let '(c2, b2, stk2, out2, ct2) :=
    if ct - 1 =? 0 then (let '(c', b', s', o') := byte_out (c * 2) b stk out in (c', b', s', o', 8))
    else (c * 2, b, stk, out, ct - 1) in
  RefT K0 (a * 2) c2 ct2 b2 stk2 out2 (cI * 2) (s - 1).
Proof.
  intros K0 a c ct b stk out cI s Ha (I2 & I3 & I4 & I5 & I6 & I7 & I8 & I9 & I10 & I11 & I12).
  set (em := emitted b stk out) in *.
  assert (Hl : 0 <= lenZ' em) by (unfold lenZ'; lia).
  assert (HN : 0 <= K0 - s) by lia.
  assert (Hid : cI * 2 + a * 2 <= 2 ^ (16 + (K0 - (s - 1)))).
  { replace (16 + (K0 - (s - 1))) with (16 + (K0 - s) + 1) by lia. rewrite pow_dbl by lia. lia. }
  destruct (ct - 1 =? 0) eqn:Ec.
  - apply Z.eqb_eq in Ec. assert (ct = 1) by lia. subst ct. change (2 ^ (27 - 1)) with 67108864 in *.
    change (2 ^ (8 - 1)) with 128 in *.
    assert (Hc2 : 0 <= c * 2 < 511 * 524288).
    { destruct em eqn:Eem; [specialize (I6 eq_refl); lia|]. destruct I7 as [_ I7]; [discriminate|]. lia. }
    assert (Hcar : 134217728 <= c * 2 -> b <> None).
    { intros Hcc Hb. subst b. specialize (I10 eq_refl). subst out.
      destruct em eqn:Eem; [specialize (I6 eq_refl); lia|].
      (* emitted = repeat 255 stk : a carry would leave the unit interval *)
      assert (Eem' : em = repeat 255 stk) by (unfold em, emitted; reflexivity).
      assert (Hb1 : bval em = 256 ^ Z.of_nat stk - 1) by (rewrite Eem'; apply bval_ffs).
      assert (Hl1 : lenZ' em = Z.of_nat stk) by (rewrite Eem'; apply lenZ'_repeat).
      rewrite Eem in *. rewrite Hb1 in I2. rewrite Hl1 in I3.
      assert (E16 : 16 + (K0 - (s - 1)) = 27 + 8 * Z.of_nat stk) by lia.
      rewrite E16 in Hid. rewrite Z.pow_add_r in Hid by lia.
      replace (2 ^ (8 * Z.of_nat stk)) with (256 ^ Z.of_nat stk) in Hid
        by (change 256 with (2 ^ 8); rewrite <- Z.pow_mul_r by lia; reflexivity).
      change (2 ^ 27) with 134217728 in Hid. nia. }
    pose proof (byte_out_sem (c * 2) b stk out Hc2 I8 I9 Hcar) as B.
    destruct (byte_out (c * 2) b stk out) as [[[c' b'] s'] o']. destruct B as (B1 & B2 & B3 & B4 & B5 & B6).
    fold em in B2, B3. unfold RefT. set (em' := emitted b' s' o') in *.
    assert (Hdm : c * 2 = 524288 * (c * 2 / 524288) + (c * 2) mod 524288) by (apply Z.div_mod; lia).
    assert (Hmod : 0 <= (c * 2) mod 524288 < 524288) by (apply Z.mod_pos_bound; lia).
    split; [|split; [|split; [|split; [|split; [|split; [|split; [|split; [|split; [|split]]]]]]]]].
    + rewrite B2. change (2 ^ (27 - 8)) with 524288. rewrite I2. subst c'. lia.
    + rewrite B3. lia.
    + subst c'. lia.
    + lia.
    + intros He. exfalso. rewrite He in B3. unfold lenZ' in B3 at 1. cbn in B3. lia.
    + intros _. split; [lia|]. change (2 ^ (8 - 8)) with 1. subst c'. lia.
    + exact B4.
    + exact B5.
    + intros Hb'. destruct (B6 Hb') as [Hbn Ho']. rewrite Ho'. apply I10, Hbn.
    + exact Hid.
    + lia.
  - apply Z.eqb_neq in Ec. unfold RefT. fold em.
    assert (Hp : 2 ^ (27 - (ct - 1)) = 2 * 2 ^ (27 - ct)) by (replace (27 - (ct - 1)) with (27 - ct + 1) by lia; apply pow_dbl; lia).
    split. { rewrite Hp, I2. ring. }
    split. { lia. }
    split. { lia. }
    split. { lia. }
    split. { intros He. specialize (I6 He). rewrite Hp. lia. }
    split. { intros He. destruct (I7 He) as [I7a I7b]. split; [lia|].
             replace (8 - (ct - 1)) with (8 - ct + 1) by lia. rewrite pow_dbl by lia. lia. }
    split. { exact I8. }
    split. { exact I9. }
    split. { exact I10. }
    split. { exact Hid. }
    lia.
Qed.

Lemma renorm_e_ref : forall fuel K0 a c ct b stk out cI s, 1 <= a < 32768 ->
  RefT K0 a c ct b stk out cI s ->
  let '(a', cI', s') := i_renorm fuel a cI s in
  let '(a3, c3, ct3, b3, s3, o3) := renorm_e fuel a c ct b stk out in
  a3 = a' /\ RefT K0 a3 c3 ct3 b3 s3 o3 cI' s'.
Proof.
  induction fuel; intros K0 a c ct b stk out cI s Ha HR; cbn [i_renorm renorm_e].
  - split; [reflexivity|exact HR].
  - pose proof (step_ref K0 a c ct b stk out cI s Ha HR) as St.
    destruct (if ct - 1 =? 0 then let '(c', b', s', o') := byte_out (c * 2) b stk out in (c', b', s', o', 8)
              else (c * 2, b, stk, out, ct - 1)) as [[[[c2 b2] stk2] out2] ct2].
    destruct (a * 2 >=? 32768) eqn:E.
    + split; [reflexivity|exact St].
    + rewrite Z.geb_leb in E. apply Z.leb_gt in E. apply IHfuel; [lia|exact St].
Qed.

Lemma RefT_narrow : forall K0 a c ct b stk out cI s d a2, RefT K0 a c ct b stk out cI s ->
  0 <= d -> d + a2 <= a -> RefT K0 a2 (c + d) ct b stk out (cI + d) s.
Proof.
  intros K0 a c ct b stk out cI s d a2 (I2 & I3 & I4 & I5 & I6 & I7 & I8 & I9 & I10 & I11 & I12) Hd Ha.
  unfold RefT. split; [lia|]. split; [exact I3|]. split; [lia|]. split; [exact I5|].
  split; [intros He; specialize (I6 He); lia|]. split; [intros He; destruct (I7 He); split; lia|].
  split; [exact I8|]. split; [exact I9|]. split; [exact I10|]. split; [lia|exact I12].
Qed.

Definition Ref (K0 : Z) (q : qenc) (E : ienc) : Prop :=
  ea q = ia E /\ est q = ist E /\ RefT K0 (ea q) (ec q) (ect q) (eb q) (estk q) (eout q) (ic E) (isf E).

Local Opaque est_lps est_mps st_set st_get.

Lemma encode_ref : forall K0 q E kd, Ref K0 q E -> iinv E -> Ref K0 (qm_encode q kd) (i_encode E kd).
Proof.
  intros K0 q E [key d] (Ra & Rs & HR) [HA Hst]. unfold qm_encode, i_encode. rewrite Ra, Rs. rewrite Ra in HR.
  pose proof (st_get_ok (ist E) key Hst) as He.
  destruct (st_get (ist E) key) as [idx mps] eqn:Eg.
  destruct (qe_entry idx) as [[[qe nl] nm] sw] eqn:Ee.
  destruct (qe_entry_bounds _ _ _ _ _ Ee) as (Q1 & _).
  set (a1 := ia E - qe) in *.
  assert (Hup : RefT K0 qe (ec q + a1) (ect q) (eb q) (estk q) (eout q) (ic E + a1) (isf E))
    by (apply (RefT_narrow K0 (ia E)); [exact HR|unfold a1; lia|unfold a1; lia]).
  assert (Hlo : RefT K0 a1 (ec q) (ect q) (eb q) (estk q) (eout q) (ic E) (isf E)).
  { replace (ec q) with (ec q + 0) by lia. replace (ic E) with (ic E + 0) by lia.
    apply (RefT_narrow K0 (ia E)); [exact HR|lia|unfold a1; lia]. }
  assert (Fin : forall a2 c2 cI2 e', 1 <= a2 < 32768 -> RefT K0 a2 c2 (ect q) (eb q) (estk q) (eout q) cI2 (isf E) ->
            Ref K0 (let '(a3, c3, ct3, b3, s3, o3) := renorm_e 16 a2 c2 (ect q) (eb q) (estk q) (eout q) in
                    {| ea := a3; ec := c3; ect := ct3; eb := b3; estk := s3; eout := o3; est := st_set (ist E) key e' |})
                   (let '(a3, c3, s3) := i_renorm 16 a2 cI2 (isf E) in
                    {| ia := a3; ic := c3; isf := s3; ist := st_set (ist E) key e' |})).
  { intros a2 c2 cI2 e' Ha2 HR2. pose proof (renorm_e_ref 16 K0 a2 c2 _ _ _ _ cI2 (isf E) Ha2 HR2) as K.
    destruct (i_renorm 16 a2 cI2 (isf E)) as [[a' cI'] s'].
    destruct (renorm_e 16 a2 c2 (ect q) (eb q) (estk q) (eout q)) as [[[[[a3 c3] ct3] b3] s3] o3].
    destruct K as [K1 K2]. unfold Ref. cbn [ea ec ect eb estk eout est ia ic isf ist].
    split; [exact K1|split; [reflexivity|exact K2]]. }
  destruct (b2z d =? mps).
  - destruct (a1 <? 32768) eqn:Ea.
    + apply Z.ltb_lt in Ea. destruct (a1 <? qe) eqn:Ex.
      * apply Fin; [lia|exact Hup].
      * apply Z.ltb_ge in Ex. apply Fin; [unfold a1 in *; lia|exact Hlo].
    + unfold Ref. cbn [ea ec ect eb estk eout est ia ic isf ist]. split; [reflexivity|split; [reflexivity|exact Hlo]].
  - destruct (a1 <? qe) eqn:Ex.
    + apply Z.ltb_lt in Ex. apply Fin; [unfold a1 in *; lia|exact Hlo].
    + apply Fin; [lia|exact Hup].
Qed.

Lemma fold_ref : forall K0 ds q E, Ref K0 q E -> iinv E ->
  Ref K0 (fold_left qm_encode ds q) (fold_left i_encode ds E) /\ iinv (fold_left i_encode ds E).
Proof.
  intros K0. induction ds as [|kd t IH]; intros q E HR Hi; cbn [fold_left]; [split; assumption|].
  apply IH; [apply encode_ref; assumption|apply (i_encode_props E kd Hi)].
Qed.

(* ------------------------------------------------------------------ Flush *)
Lemma clear_final_bits : forall c a, 0 <= c -> 32768 <= a <= 65536 ->
  let t0 := (c + a - 1) / 65536 * 65536 in
  let t := if t0 <? c then t0 + 32768 else t0 in
  c <= t <= c + a - 1 /\ t mod 32768 = 0.
Proof.
  intros c a Hc Ha. cbn zeta.
  pose proof (Z.div_mod (c + a - 1) 65536 ltac:(lia)) as D. pose proof (Z.mod_pos_bound (c + a - 1) 65536 ltac:(lia)) as M.
  set (k := (c + a - 1) / 65536) in *.
  destruct (k * 65536 <? c) eqn:E.
  - apply Z.ltb_lt in E. split; [lia|]. replace (k * 65536 + 32768) with ((2 * k + 1) * 32768) by ring. apply Z.mod_mul. lia.
  - apply Z.ltb_ge in E. split; [lia|]. replace (k * 65536) with ((2 * k) * 32768) by ring. apply Z.mod_mul. lia.
Qed.

(* value and length of the byte string after Flush (before Discard_final_zeros) *)
Definition flush_bytes (q : qenc) : list Z :=
  let t0 := ((ec q + ea q - 1) / 65536) * 65536 in
  let t := if t0 <? ec q then t0 + 32768 else t0 in
  let '(c1, b1, s1, o1) := byte_out (t * 2 ^ ect q) (eb q) (estk q) (eout q) in
  let '(c2, b2, s2, o2) := byte_out (c1 * 256) b1 s1 o1 in
  emitted b2 s2 o2.

Lemma qm_flush_drop : forall q, qm_flush q = rev (drop_zeros_rev (rev (flush_bytes q))).
Proof.
  intros q. unfold qm_flush, flush_bytes.
  destruct (byte_out _ (eb q) (estk q) (eout q)) as [[[c1 b1] s1] o1].
  destruct (byte_out (c1 * 256) b1 s1 o1) as [[[c2 b2] s2] o2].
  f_equal. f_equal. unfold emitted. rewrite !rev_app_distr, rev_involutive, rev_repeat.
  destruct b2; cbn [optl rev app]; rewrite <- ?app_assoc; reflexivity.
Qed.

Lemma flush_sem : forall K0 q E, Ref K0 q E -> iinv E ->
  let em := emitted (eb q) (estk q) (eout q) in
  exists T, ic E <= T < ic E + ia E /\
            bval (flush_bytes q) * 524288 = T * 2 ^ (ect q + 8) /\
            lenZ' (flush_bytes q) = lenZ' em + 2 /\ isbytes (flush_bytes q) /\
            8 * lenZ' em = (K0 - isf E) - 11 + ect q /\ 1 <= ect q <= 11.
Proof.
  intros K0 q E (Ra & Rs & HR) [HA Hst]. cbn zeta. rewrite Ra in HR.
  destruct HR as (I2 & I3 & I4 & I5 & I6 & I7 & I8 & I9 & I10 & I11 & I12).
  set (em := emitted (eb q) (estk q) (eout q)) in *.
  unfold flush_bytes. rewrite Ra.
  pose proof (clear_final_bits (ec q) (ia E) I4 HA) as CF. cbn zeta in CF.
  set (t := if (ec q + ia E - 1) / 65536 * 65536 <? ec q then (ec q + ia E - 1) / 65536 * 65536 + 32768
            else (ec q + ia E - 1) / 65536 * 65536) in *.
  destruct CF as [Ct Cm].
  assert (Hl : 0 <= lenZ' em) by (unfold lenZ'; lia).
  pose proof (pow2_pos (ect q) ltac:(lia)) as Pct.
  assert (Hb1 : 0 <= t * 2 ^ ect q < 511 * 524288).
  { split; [nia|]. destruct em eqn:Eem.
    - specialize (I6 eq_refl). assert (2 ^ (27 - ect q) * 2 ^ ect q = 134217728)
        by (rewrite <- Z.pow_add_r by lia; replace (27 - ect q + ect q) with 27 by lia; reflexivity). nia.
    - destruct I7 as [I7a I7b]; [discriminate|].
      assert (2 ^ (8 - ect q) * 2 ^ ect q = 256) by (rewrite <- Z.pow_add_r by lia; replace (8 - ect q + ect q) with 8 by lia; reflexivity). nia. }
  assert (Hcar : 134217728 <= t * 2 ^ ect q -> eb q <> None).
  { intros Hcc Hb. specialize (I10 Hb).
    destruct em eqn:Eem.
    - specialize (I6 eq_refl). assert (2 ^ (27 - ect q) * 2 ^ ect q = 134217728)
        by (rewrite <- Z.pow_add_r by lia; replace (27 - ect q + ect q) with 27 by lia; reflexivity). nia.
    - assert (Eem' : em = repeat 255 (estk q)) by (unfold em, emitted; rewrite Hb, I10; reflexivity).
      assert (Hv : bval em = 256 ^ Z.of_nat (estk q) - 1) by (rewrite Eem'; apply bval_ffs).
      assert (Hl1 : lenZ' em = Z.of_nat (estk q)) by (rewrite Eem'; apply lenZ'_repeat).
      rewrite Eem in *. rewrite Hv in I2. rewrite Hl1 in I3.
      assert (E16 : 16 + (K0 - isf E) + ect q = 27 + 8 * Z.of_nat (estk q)) by lia.
      assert (Hbound : (ic E + ia E) * 2 ^ ect q <= 2 ^ 27 * 256 ^ Z.of_nat (estk q)).
      { replace (256 ^ Z.of_nat (estk q)) with (2 ^ (8 * Z.of_nat (estk q)))
          by (change 256 with (2 ^ 8); rewrite <- Z.pow_mul_r by lia; reflexivity).
        rewrite <- Z.pow_add_r by lia. rewrite <- E16. rewrite Z.pow_add_r by lia. nia. }
      assert (P27 : 2 ^ (27 - ect q) * 2 ^ ect q = 134217728)
        by (rewrite <- Z.pow_add_r by lia; replace (27 - ect q + ect q) with 27 by lia; reflexivity).
      change (2 ^ 27) with 134217728 in Hbound.
      assert (0 < 256 ^ Z.of_nat (estk q)) by (apply Z.pow_pos_nonneg; lia). nia. }
  pose proof (byte_out_sem (t * 2 ^ ect q) (eb q) (estk q) (eout q) Hb1 I8 I9 Hcar) as B1.
  destruct (byte_out (t * 2 ^ ect q) (eb q) (estk q) (eout q)) as [[[c1 b1] s1] o1].
  destruct B1 as (B11 & B12 & B13 & B14 & B15 & B16). fold em in B12, B13.
  assert (Hm1 : 0 <= c1 < 524288) by (subst c1; apply Z.mod_pos_bound; lia).
  pose proof (byte_out_sem (c1 * 256) b1 s1 o1 ltac:(lia) B14 B15 ltac:(lia)) as B2.
  destruct (byte_out (c1 * 256) b1 s1 o1) as [[[c2 b2] s2] o2].
  destruct B2 as (B21 & B22 & B23 & B24 & B25 & B26).
  exists (bval em * 2 ^ (27 - ect q) + t).
  split; [lia|]. split; [|split; [lia|split; [|split; [exact I3|exact I5]]]].
  - (* value *)
    rewrite B22, B12.
    assert (D1 : t * 2 ^ ect q = 524288 * (t * 2 ^ ect q / 524288) + c1) by (subst c1; apply Z.div_mod; lia).
    assert (D2 : c1 * 256 = 524288 * (c1 * 256 / 524288) + (c1 * 256) mod 524288) by (apply Z.div_mod; lia).
    assert (Z2 : (c1 * 256) mod 524288 = 0).
    { (* t is a multiple of 2^15, ect >= 1: t * 2^ect is a multiple of 2^16, so is c1 *)
      apply Z.mod_divide in Cm; [|lia]. destruct Cm as [k Hk].
      assert (Hd : (65536 | t * 2 ^ ect q)).
      { exists (k * 2 ^ (ect q - 1)). rewrite Hk. replace (2 ^ ect q) with (2 * 2 ^ (ect q - 1))
          by (rewrite <- Z.pow_succ_r by lia; f_equal; lia). ring. }
      destruct Hd as [m Hm]. apply Z.mod_divide; [lia|].
      exists (32 * (m - 8 * (t * 2 ^ ect q / 524288))). lia. }
    rewrite Z.pow_add_r by lia. change (2 ^ 8) with 256.
    assert (P27 : 2 ^ (27 - ect q) * 2 ^ ect q = 134217728)
      by (rewrite <- Z.pow_add_r by lia; replace (27 - ect q + ect q) with 27 by lia; reflexivity).
    nia.
  - unfold emitted. apply Forall_app. split; [exact B24|]. apply Forall_app. split.
    + destruct b2; cbn [optl b_ok] in *; constructor; [lia|constructor].
    + apply Forall_forall. intros x Hx. apply repeat_spec in Hx. lia.
Qed.

(* ------------------------------------------------------- the decoder's start *)
Lemma tail_val_bval : forall l k, tail_val l (length l + k) = bval l * 2 ^ (8 * Z.of_nat k).
Proof.
  induction l as [|b t IH]; intros k.
  - cbn [length Nat.add]. unfold bval. cbn [fold_left]. destruct k; reflexivity.
  - cbn [length Nat.add tail_val]. rewrite IH.
    change (b :: t) with ([b] ++ t). rewrite bval_app. replace (bval [b]) with b by (unfold bval; cbn; lia). unfold lenZ'.
    replace (8 * Z.of_nat (length t + k)) with (8 * Z.of_nat (length t) + 8 * Z.of_nat k) by lia.
    rewrite Z.pow_add_r by lia.
    replace (2 ^ (8 * Z.of_nat (length t))) with (256 ^ Z.of_nat (length t))
      by (change 256 with (2 ^ 8); rewrite <- Z.pow_mul_r by lia; reflexivity).
    ring.
Qed.

Lemma tail_val_zeros : forall j l k, tail_val (l ++ repeat 0 k) j = tail_val l j.
Proof.
  induction j; intros l k; [reflexivity|]. cbn [tail_val]. destruct l as [|b t].
  - cbn [app]. destruct k; [reflexivity|]. cbn [repeat]. pose proof (IHj [] k) as H. cbn [app] in H. rewrite H. destruct j; cbn [tail_val]; lia.
  - cbn [app]. rewrite IHj. reflexivity.
Qed.

Lemma drop_zeros_spec : forall l, exists k, l = rev (drop_zeros_rev (rev l)) ++ repeat 0 k.
Proof.
  intros l. assert (G : forall r, exists k, rev r = rev (drop_zeros_rev r) ++ repeat 0 k).
  { induction r as [|x r IH]; [exists O; reflexivity|]. cbn [drop_zeros_rev].
    destruct (Z.eq_dec x 0) as [->|Hx].
    - destruct IH as [k Hk]. exists (S k). cbn [rev]. rewrite Hk. rewrite <- app_assoc. f_equal.
      cbn [repeat]. rewrite repeat_cons. reflexivity.
    - exists O. cbn [repeat]. rewrite app_nil_r. destruct x; try reflexivity. contradiction. }
  destruct (G (rev l)) as [k Hk]. rewrite rev_involutive in Hk. exists k. exact Hk.
Qed.

Lemma isbytes_drop : forall l, isbytes l -> isbytes (rev (drop_zeros_rev (rev l))).
Proof.
  intros l H. destruct (drop_zeros_spec l) as [k Hk]. rewrite Hk in H. apply Forall_app in H. apply H.
Qed.

Definition init_enc_st (st0 : stats) : qenc :=
  {| ea := 65536; ec := 0; ect := 11; eb := None; estk := O; eout := []; est := st0 |}.
Definition init_dec_st (st0 : stats) (inp : list Z) : qdec :=
  let D := qm_init_dec inp in {| qa := qa D; qc := qc D; qct := qct D; qin := qin D; qst := st0 |}.

Lemma init_rel : forall st0 l (j : nat), isbytes l -> (2 <= j)%nat ->
  Rel (tail_val l j) {| ia := 65536; ic := 0; isf := 8 * Z.of_nat j - 16; ist := st0 |} (init_dec_st st0 l).
Proof.
  intros st0 l j Hb Hj. set (X := tail_val l j). set (K := 8 * Z.of_nat j).
  pose proof (tail_val_bound j l Hb) as Xb. fold X in Xb. fold K in Xb.
  assert (R0 : inp_rel l X K).
  { exists j. split; [reflexivity|split; [|exact Hb]]. apply Z.mod_small. exact Xb. }
  unfold init_dec_st, qm_init_dec.
  pose proof (byte_in_rel 0 l X K R0 ltac:(unfold K; lia)) as B1.
  destruct (byte_in 0 l) as [c1 i1]. destruct B1 as [B11 B12].
  pose proof (byte_in_rel (c1 * 256) i1 X (K - 8) B12 ltac:(unfold K; lia)) as B2.
  destruct (byte_in (c1 * 256) i1) as [c2 i2]. destruct B2 as [B21 B22].
  unfold Rel. cbn [qa qc qct qin qst ia ic isf ist]. split; [reflexivity|split; [reflexivity|]].
  unfold RR. replace (K - 16 - 0) with (K - 8 - 8) by lia. split; [lia|split; [unfold K; lia|split; [|exact B22]]].
  change (2 ^ (16 - 0)) with 65536.
  pose proof (next_byte X K ltac:(unfold K; lia)) as N1.
  pose proof (next_byte X (K - 8) ltac:(unfold K; lia)) as N2.
  assert (X0 : X / 2 ^ K = 0) by (apply Z.div_small; exact Xb).
  rewrite X0 in N1. rewrite B21, B11. rewrite N2, N1. ring.
Qed.

(* ========================================================= the round trip === *)
Theorem qm_roundtrip_st : forall st0 ds, stats_ok st0 ->
  exists Df, qm_run (map fst ds) (init_dec_st st0 (qm_flush (fold_left qm_encode ds (init_enc_st st0)))) = (map snd ds, Df) /\
             qst Df = est (fold_left qm_encode ds (init_enc_st st0)).
Proof.
  intros st0 ds Hst.
  set (qf := fold_left qm_encode ds (init_enc_st st0)).
  set (fb := flush_bytes qf).
  set (j := (length fb + 3)%nat).
  set (K0 := 8 * Z.of_nat j - 16).
  set (E0 := {| ia := 65536; ic := 0; isf := K0; ist := st0 |}).
  assert (Hi0 : iinv E0) by (split; [cbn; lia|exact Hst]).
  assert (HR0 : Ref K0 (init_enc_st st0) E0).
  { unfold Ref, RefT, init_enc_st, E0, emitted. cbn [ea ec ect eb estk eout est ia ic isf ist rev optl repeat app].
    split; [reflexivity|split; [reflexivity|]].
    unfold bval, lenZ'. cbn [fold_left length]. change (2 ^ (27 - 11)) with 65536.
    replace (16 + (K0 - K0)) with 16 by lia. change (2 ^ 16) with 65536.
    repeat split; try lia; try discriminate; try constructor; try reflexivity; try (exfalso; apply H; reflexivity). }
  destruct (fold_ref K0 ds _ _ HR0 Hi0) as [HRf Hif]. fold qf in HRf.
  set (Ef := fold_left i_encode ds E0) in *.
  destruct (flush_sem K0 qf Ef HRf Hif) as (T & HT & Hv & Hlen & Hbytes & HI3 & Hct). fold fb in Hv, Hlen, Hbytes.
  (* the number of low bits of the final ideal state *)
  assert (Hs : isf Ef = ect qf + 13).
  { unfold lenZ' in Hlen, HI3. unfold K0, j in HI3. lia. }
  (* the code value *)
  assert (HX : tail_val (qm_flush qf) j = T * 2 ^ isf Ef).
  { rewrite qm_flush_drop. fold fb. destruct (drop_zeros_spec fb) as [k Hk].
    rewrite <- (tail_val_zeros j _ k). rewrite <- Hk. unfold j. rewrite tail_val_bval.
    change (8 * Z.of_nat 3) with 24. rewrite Hs.
    replace (ect qf + 13) with ((ect qf + 8) + 5) by lia. rewrite (Z.pow_add_r 2 (ect qf + 8) 5) by lia.
    change (2 ^ 24) with (524288 * 2 ^ 5). lia. }
  assert (Hbq : isbytes (qm_flush qf)) by (rewrite qm_flush_drop; apply isbytes_drop; exact Hbytes).
  pose proof (init_rel st0 (qm_flush qf) j Hbq ltac:(unfold j; lia)) as HRel. fold K0 in HRel. fold E0 in HRel.
  assert (Hin : inside (tail_val (qm_flush qf) j) Ef).
  { rewrite HX. unfold inside, ilow, iwid. pose proof (pow2_pos (isf Ef) ltac:(lia)) as P. nia. }
  assert (H8 : 8 <= isf Ef) by lia.
  destruct (ideal_decodes _ ds E0 _ HRel Hi0 Hin H8) as (Df & Hrun & HRelf).
  exists Df. split; [exact Hrun|]. destruct HRelf as (_ & Hst' & _). destruct HRf as (_ & Hst'' & _).
  rewrite Hst', Hst''. reflexivity.
Qed.

Lemma init_enc_empty : init_enc_st (PositiveMap.empty (Z * Z)) = qm_init_enc.
Proof. reflexivity. Qed.
Lemma init_dec_empty : forall inp, init_dec_st (PositiveMap.empty (Z * Z)) inp = qm_init_dec inp.
Proof. intros. unfold init_dec_st, qm_init_dec. destruct (byte_in 0 inp) as [c1 i1]. destruct (byte_in (c1 * 256) i1). reflexivity. Qed.

(* the D.2 decoder inverts the D.1 encoder *)
Theorem qm_roundtrip : forall ds,
  fst (qm_run (map fst ds) (qm_init_dec (qm_encode_all ds))) = map snd ds.
Proof.
  intros ds. destruct (qm_roundtrip_st (PositiveMap.empty (Z * Z)) ds empty_ok) as (Df & H & _).
  rewrite init_enc_empty, init_dec_empty in H. unfold qm_encode_all. rewrite H. reflexivity.
Qed.
