(* Annex D register invariants of the QM decoder (D.2) and encoder (D.1), for every
   statistics state and every input:  X'8000' <= A <= X'10000' after each decision;
   decoder: 0 <= C < A * 2^16 (i.e. Cx < A), C has 16-CT zero low bits, 0 <= CT <= 8;
   encoder: 0 <= C, C + A <= 2^(28-CT), 1 <= CT <= 11 (so Byte_out sees at most one carry bit);
   the 16 steps of fuel given to Renorm_d / Renorm_e always suffice. *)
From Coq Require Import List ZArith Bool Lia Arith FMapPositive.
From LJT Require Import model.T81Spec model.T81Arith.
Import ListNotations.
Local Open Scope Z_scope.
Ltac Zify.zify_post_hook ::= Z.div_mod_to_equations.

(* ------------------------------------------------------------ Table D.3 *)
Definition entry_okb (e : Z * Z * Z * Z) : bool :=
  let '(qe, nl, nm, sw) := e in
  (1 <=? qe) && (qe <=? 23314) && (0 <=? nl) && (nl <=? 112) && (0 <=? nm) && (nm <=? 112) && (0 <=? sw) && (sw <=? 1).

Lemma qe_table_ok : forallb entry_okb qe_table = true /\ length qe_table = 113%nat.
Proof. split; vm_compute; reflexivity. Qed.

Lemma qe_entry_ok : forall i, entry_okb (qe_entry i) = true.
Proof.
  intros. unfold qe_entry. destruct (nth_in_or_default (Z.to_nat i) qe_table (23069, 1, 1, 1)) as [H|H].
  - destruct qe_table_ok as [A _]. rewrite forallb_forall in A. apply A, H.
  - rewrite H. reflexivity.
Qed.

Lemma qe_entry_bounds : forall i qe nl nm sw, qe_entry i = (qe, nl, nm, sw) ->
  1 <= qe <= 23314 /\ 0 <= nl <= 112 /\ 0 <= nm <= 112 /\ 0 <= sw <= 1.
Proof.
  intros i qe nl nm sw H. pose proof (qe_entry_ok i) as K. rewrite H in K. unfold entry_okb in K.
  rewrite !andb_true_iff, !Z.leb_le in K. lia.
Qed.

(* ---------------------------------------------------------- statistics *)
Definition est_ok (e : Z * Z) : Prop := 0 <= fst e <= 112 /\ 0 <= snd e <= 1.
Definition stats_ok (s : stats) : Prop :=
  forall p, match PositiveMap.find p s with Some e => est_ok e | None => True end.

Lemma st_get_ok : forall s k, stats_ok s -> est_ok (st_get s k).
Proof.
  intros s k H. unfold st_get. destruct (k =? -1); [unfold est_ok; cbn; lia|].
  specialize (H (st_key k)). destruct (PositiveMap.find (st_key k) s); [exact H|unfold est_ok; cbn; lia].
Qed.

Lemma st_set_ok : forall s k e, stats_ok s -> est_ok e -> stats_ok (st_set s k e).
Proof.
  intros s k e H He. unfold st_set. destruct (k =? -1); [exact H|]. intros p.
  rewrite PositiveMapAdditionalFacts.gsspec. destruct (PositiveMap.E.eq_dec p (st_key k)); [exact He|apply H].
Qed.

Lemma est_mps_ok : forall e, est_ok e -> est_ok (est_mps e).
Proof.
  intros [i m] [A B]. unfold est_mps. destruct (qe_entry i) as [[[qe nl] nm] sw] eqn:E.
  destruct (qe_entry_bounds _ _ _ _ _ E) as (_ & _ & C & _). cbn [fst snd] in *.
  unfold est_ok. cbn [fst snd]. lia.
Qed.
Lemma est_lps_ok : forall e, est_ok e -> est_ok (est_lps e).
Proof.
  intros [i m] [A B]. unfold est_lps. destruct (qe_entry i) as [[[qe nl] nm] sw] eqn:E.
  destruct (qe_entry_bounds _ _ _ _ _ E) as (_ & C & _ & _). cbn [fst snd] in *.
  unfold est_ok. cbn [fst snd]. split; [lia|destruct (sw =? 1); lia].
Qed.

Lemma empty_ok : stats_ok (PositiveMap.empty (Z * Z)).
Proof. intros p. rewrite PositiveMap.gempty. exact I. Qed.

(* ============================================================== decoder === *)
Definition isbytes (l : list Z) : Prop := Forall (fun b => 0 <= b <= 255) l.

Definition rinv (a c ct : Z) (inp : list Z) : Prop :=
  1 <= a /\ 0 <= c < a * 65536 /\ 0 <= ct <= 8 /\ c mod 2 ^ (16 - ct) = 0 /\ isbytes inp.

Lemma mod_shift : forall c ct, 1 <= ct <= 8 -> c mod 2 ^ (16 - ct) = 0 -> (c * 2) mod 2 ^ (16 - (ct - 1)) = 0.
Proof.
  intros c ct Hct H. replace (16 - (ct - 1)) with (Z.succ (16 - ct)) by lia. rewrite Z.pow_succ_r by lia.
  rewrite (Z.mul_comm c 2). rewrite Z.mul_mod_distr_l; [lia|apply Z.pow_nonzero; lia|lia].
Qed.

Lemma mod_h1 : forall c b, c mod 65536 = 0 -> ((c + b * 256) * 2) mod 512 = 0.
Proof.
  intros c b H. apply Z.mod_divide in H; [|lia]. destruct H as [k ->].
  replace ((k * 65536 + b * 256) * 2) with ((k * 256 + b) * 512) by ring. apply Z.mod_mul. lia.
Qed.

Lemma renorm_d_inv : forall fuel a c ct inp, rinv a c ct inp -> a <= 65536 -> 32768 <= a * 2 ^ Z.of_nat fuel ->
  let '(a', c', ct', inp') := renorm_d fuel a c ct inp in rinv a' c' ct' inp' /\ 32768 <= a' <= 65536.
Proof.
  induction fuel; intros a c ct inp H Ha Hf; cbn [renorm_d].
  - change (2 ^ Z.of_nat 0) with 1 in Hf. destruct (a >=? 32768) eqn:E; [|rewrite Z.geb_leb in E; apply Z.leb_gt in E; lia].
    split; [exact H|lia].
  - destruct (a >=? 32768) eqn:E.
    + apply Z.geb_le in E. split; [exact H|lia].
    + rewrite Z.geb_leb in E. apply Z.leb_gt in E. destruct H as (H1 & H2 & H3 & H4 & H5).
      rewrite Nat2Z.inj_succ, Z.pow_succ_r in Hf by lia.
      destruct (ct =? 0) eqn:Ec.
      * apply Z.eqb_eq in Ec. subst ct. change (2 ^ (16 - 0)) with 65536 in H4.
        destruct inp as [|b t]; cbn [byte_in].
        -- apply IHfuel; [|lia|lia]. repeat split; try lia; try exact H5;
             try (change (2 ^ (16 - (8 - 1))) with 512; replace (c * 2) with ((c + 0 * 256) * 2) by lia; apply mod_h1; exact H4).
        -- inversion H5; subst. apply IHfuel; [|lia|lia]. repeat split; try lia; try assumption;
             try (change (2 ^ (16 - (8 - 1))) with 512; apply mod_h1; exact H4).
      * apply Z.eqb_neq in Ec. apply IHfuel; [|lia|lia]. repeat split; try lia.
        apply mod_shift; [lia|exact H4]. exact H5.
Qed.

Definition dinv (q : qdec) : Prop :=
  32768 <= qa q <= 65536 /\ rinv (qa q) (qc q) (qct q) (qin q) /\ stats_ok (qst q).

Lemma mk_dinv : forall c inp, 0 <= c < 65536 * 65536 -> c mod 65536 = 0 -> isbytes inp ->
  dinv {| qa := 65536; qc := c; qct := 0; qin := inp; qst := PositiveMap.empty (Z * Z) |}.
Proof.
  intros c inp Hc Hm Hb. unfold dinv, rinv. cbn [qa qc qct qin qst]. change (2 ^ (16 - 0)) with 65536.
  repeat split; try lia; try assumption. apply empty_ok.
Qed.

Lemma init_dec_inv : forall inp, isbytes inp -> dinv (qm_init_dec inp).
Proof.
  intros inp H. unfold qm_init_dec.
  destruct inp as [|b1 [|b2 t]]; cbn [byte_in].
  - apply mk_dinv; [lia|reflexivity|constructor].
  - inversion H; subst. apply mk_dinv; [lia| |constructor].
    replace ((0 + b1 * 256) * 256 * 256) with (b1 * 256 * 65536) by ring. apply Z.mod_mul. lia.
  - inversion H as [|x y Hb1 Ht]; subst. inversion Ht as [|x y Hb2 Ht']; subst. apply mk_dinv; [lia| |exact Ht'].
    replace (((0 + b1 * 256) * 256 + b2 * 256) * 256) with ((b1 * 256 + b2) * 65536) by ring. apply Z.mod_mul. lia.
Qed.

Local Opaque est_lps est_mps st_set.

Theorem qm_decode_inv : forall key q d q', dinv q -> qm_decode key q = Some (d, q') -> dinv q'.
Proof.
  intros key q d q' (Ha & (R1 & R2 & R3 & R4 & R5) & Hs) H. unfold qm_decode in H.
  pose proof (st_get_ok (qst q) key Hs) as He.
  destruct (st_get (qst q) key) as [idx mps] eqn:Eg.
  destruct (qe_entry idx) as [[[qe nl] nm] sw] eqn:Ee.
  destruct (qe_entry_bounds _ _ _ _ _ Ee) as (Q1 & _).
  destruct (qc q / 65536 <? qa q - qe) eqn:Ecx.
  - apply Z.ltb_lt in Ecx. destruct (qa q - qe <? 32768) eqn:Ea.
    + apply Z.ltb_lt in Ea.
      assert (Hr : rinv (qa q - qe) (qc q) (qct q) (qin q)) by (repeat split; try lia; assumption).
      pose proof (renorm_d_inv 16 _ _ _ _ Hr ltac:(lia) ltac:(change (2 ^ Z.of_nat 16) with 65536; lia)) as K.
      destruct (renorm_d 16 (qa q - qe) (qc q) (qct q) (qin q)) as [[[a2 c2] ct2] i2].
      destruct K as [K1 K2].
      destruct (qa q - qe <? qe); inversion H; subst; (split; [exact K2|split; [exact K1|]]);
        cbn [qst]; (apply st_set_ok; [assumption|first [apply est_lps_ok|apply est_mps_ok]; exact He]).
    + apply Z.ltb_ge in Ea. inversion H; subst. unfold dinv, rinv. cbn [qa qc qct qin qst]. repeat split; try lia; assumption.
  - apply Z.ltb_ge in Ecx.
    assert (Hr : rinv qe (qc q - (qa q - qe) * 65536) (qct q) (qin q)).
    { repeat split; try lia; try assumption.
      assert (Pp : 0 < 2 ^ (16 - qct q)) by (apply Z.pow_pos_nonneg; lia).
      apply Z.mod_divide; [lia|]. apply Z.divide_sub_r.
      - apply Z.mod_divide; [lia|exact R4].
      - apply Z.divide_mul_r. exists (2 ^ qct q). rewrite <- Z.pow_add_r by lia.
        replace (qct q + (16 - qct q)) with 16 by lia. reflexivity. }
    pose proof (renorm_d_inv 16 _ _ _ _ Hr ltac:(lia) ltac:(change (2 ^ Z.of_nat 16) with 65536; lia)) as K.
    destruct (renorm_d 16 qe (qc q - (qa q - qe) * 65536) (qct q) (qin q)) as [[[a2 c2] ct2] i2].
    destruct K as [K1 K2].
    destruct (qa q - qe <? qe); inversion H; subst; (split; [exact K2|split; [exact K1|]]);
      cbn [qst]; (apply st_set_ok; [assumption|first [apply est_lps_ok|apply est_mps_ok]; exact He]).
Qed.

(* ============================================================== encoder === *)
Definition einv (a c ct : Z) : Prop := 0 <= c /\ c + a <= 2 ^ (28 - ct) /\ 1 <= ct <= 11.

Lemma byte_out_c : forall c b stk out, fst (fst (fst (byte_out c b stk out))) = c mod 524288.
Proof. intros. unfold byte_out. destruct (c / 524288 >? 255); [reflexivity|]. destruct (c / 524288 =? 255); reflexivity. Qed.

Lemma renorm_e_inv : forall fuel a c ct b stk out, 1 <= a < 32768 -> einv a c ct -> 32768 <= a * 2 ^ Z.of_nat fuel ->
  let '(a', c', ct', _, _, _) := renorm_e fuel a c ct b stk out in einv a' c' ct' /\ 32768 <= a' <= 65536.
Proof.
  induction fuel; intros a c ct b stk out Ha (E1 & E2 & E3) Hf.
  - change (2 ^ Z.of_nat 0) with 1 in Hf. lia.
  - rewrite Nat2Z.inj_succ, Z.pow_succ_r in Hf by lia. cbn [renorm_e].
    assert (Hpow : 2 ^ (28 - (ct - 1)) = 2 * 2 ^ (28 - ct))
      by (replace (28 - (ct - 1)) with (Z.succ (28 - ct)) by lia; rewrite Z.pow_succ_r by lia; reflexivity).
    destruct (ct - 1 =? 0) eqn:Ec.
    + apply Z.eqb_eq in Ec. assert (ct = 1) by lia. subst ct. change (2 ^ (28 - 1)) with 134217728 in E2.
      pose proof (byte_out_c (c * 2) b stk out) as Bc.
      destruct (byte_out (c * 2) b stk out) as [[[c' b'] s'] o']. cbn [fst] in Bc. subst c'.
      assert (Ei : einv (a * 2) ((c * 2) mod 524288) 8).
      { unfold einv. change (2 ^ (28 - 8)) with 1048576. lia. }
      destruct (a * 2 >=? 32768) eqn:Eg.
      * apply Z.geb_le in Eg. split; [exact Ei|lia].
      * rewrite Z.geb_leb in Eg. apply Z.leb_gt in Eg. apply IHfuel; [lia|exact Ei|lia].
    + apply Z.eqb_neq in Ec.
      assert (Ei : einv (a * 2) (c * 2) (ct - 1)) by (unfold einv; rewrite Hpow; lia).
      destruct (a * 2 >=? 32768) eqn:Eg.
      * apply Z.geb_le in Eg. split; [exact Ei|lia].
      * rewrite Z.geb_leb in Eg. apply Z.leb_gt in Eg. apply IHfuel; [lia|exact Ei|lia].
Qed.

Definition qeinv (q : qenc) : Prop := 32768 <= ea q <= 65536 /\ einv (ea q) (ec q) (ect q) /\ stats_ok (est q).

Lemma init_enc_inv : qeinv qm_init_enc.
Proof. unfold qeinv, einv. cbn. repeat split; try lia. apply empty_ok. Qed.

Theorem qm_encode_inv : forall q kd, qeinv q -> qeinv (qm_encode q kd).
Proof.
  intros q [key d] (Ha & (E1 & E2 & E3) & Hs). unfold qm_encode.
  pose proof (st_get_ok (est q) key Hs) as He.
  destruct (st_get (est q) key) as [idx mps] eqn:Eg.
  destruct (qe_entry idx) as [[[qe nl] nm] sw] eqn:Ee.
  destruct (qe_entry_bounds _ _ _ _ _ Ee) as (Q1 & _).
  destruct (b2z d =? mps).
  - destruct (ea q - qe <? 32768) eqn:Ea.
    + apply Z.ltb_lt in Ea. destruct (ea q - qe <? qe) eqn:Ex.
      * pose proof (renorm_e_inv 16 qe (ec q + (ea q - qe)) (ect q) (eb q) (estk q) (eout q) ltac:(lia)
                     ltac:(unfold einv; lia) ltac:(change (2 ^ Z.of_nat 16) with 65536; lia)) as K.
        destruct (renorm_e 16 qe (ec q + (ea q - qe)) (ect q) (eb q) (estk q) (eout q)) as [[[[[a3 c3] ct3] b3] s3] o3].
        destruct K as [K1 K2]. split; [exact K2|split; [exact K1|]]. cbn [est]. apply st_set_ok; [assumption|apply est_mps_ok; assumption].
      * pose proof (renorm_e_inv 16 (ea q - qe) (ec q) (ect q) (eb q) (estk q) (eout q) ltac:(lia)
                     ltac:(unfold einv; lia) ltac:(change (2 ^ Z.of_nat 16) with 65536; lia)) as K.
        destruct (renorm_e 16 (ea q - qe) (ec q) (ect q) (eb q) (estk q) (eout q)) as [[[[[a3 c3] ct3] b3] s3] o3].
        destruct K as [K1 K2]. split; [exact K2|split; [exact K1|]]. cbn [est]. apply st_set_ok; [assumption|apply est_mps_ok; assumption].
    + apply Z.ltb_ge in Ea. unfold qeinv, einv. cbn [ea ec ect est]. repeat split; try lia; assumption.
  - destruct (ea q - qe <? qe) eqn:Ex.
    + apply Z.ltb_lt in Ex.
      pose proof (renorm_e_inv 16 (ea q - qe) (ec q) (ect q) (eb q) (estk q) (eout q) ltac:(lia)
                   ltac:(unfold einv; lia) ltac:(change (2 ^ Z.of_nat 16) with 65536; lia)) as K.
      destruct (renorm_e 16 (ea q - qe) (ec q) (ect q) (eb q) (estk q) (eout q)) as [[[[[a3 c3] ct3] b3] s3] o3].
      destruct K as [K1 K2]. split; [exact K2|split; [exact K1|]]. cbn [est]. apply st_set_ok; [assumption|apply est_lps_ok; assumption].
    + pose proof (renorm_e_inv 16 qe (ec q + (ea q - qe)) (ect q) (eb q) (estk q) (eout q) ltac:(lia)
                   ltac:(unfold einv; lia) ltac:(change (2 ^ Z.of_nat 16) with 65536; lia)) as K.
      destruct (renorm_e 16 qe (ec q + (ea q - qe)) (ect q) (eb q) (estk q) (eout q)) as [[[[[a3 c3] ct3] b3] s3] o3].
      destruct K as [K1 K2]. split; [exact K2|split; [exact K1|]]. cbn [est]. apply st_set_ok; [assumption|apply est_lps_ok; assumption].
Qed.

Theorem qm_encode_all_inv : forall ds, qeinv (fold_left qm_encode ds qm_init_enc).
Proof.
  intros ds. assert (G : forall q, qeinv q -> qeinv (fold_left qm_encode ds q)).
  { induction ds; intros q Hq; [exact Hq|]. cbn [fold_left]. apply IHds, qm_encode_inv, Hq. }
  apply G, init_enc_inv.
Qed.
