(* C07 -- constant accuracy of the forward flow graph: fdct_lin is multiplication by an explicit integer
   matrix Mz (sums of FIX_* constants); Mz / 2^13 is within 1/8192 of sqrt(8) * dctA (Interval);
   the 2-D graph fdct_lin2d is the Kronecker square of Mz. *)
From Coq Require Import List ZArith Lia Reals Lra.
From LJT Require Import gen.GenDctConst model.Quant model.Dct proofs.DctRound proofs.RmsBound proofs.DctOrth.
Import ListNotations.

(* column i of the matrix = fdct_lin (unit vector i); Mz k i = row k, column i *)
Definition linMcols : list (list Z) :=
  [[8192; 11363; 10703; 9633; 8192; 6437; 4433; 2260];
   [8192; 9633; 4433; -2259; -8192; -11362; -10704; -6436];
   [8192; 6437; -4433; -11362; -8192; 2261; 10704; 9633];
   [8192; 2260; -10703; -6436; 8192; 9633; -4433; -11363];
   [8192; -2260; -10703; 6436; 8192; -9633; -4433; 11363];
   [8192; -6437; -4433; 11362; -8192; -2261; 10704; -9633];
   [8192; -9633; 4433; 2259; -8192; 11362; -10704; 6436];
   [8192; -11363; 10703; -9633; 8192; -6437; 4433; -2260]]%Z.
Definition Mz (k i : nat) : Z := nth k (nth i linMcols []) 0%Z.

Lemma linMcols_is_fdct_lin :
  linMcols = map (fun i => fdct_lin (map (fun j => if Nat.eqb i j then 1 else 0)%Z (seq 0 8))) (seq 0 8).
Proof. vm_compute. reflexivity. Qed.

Local Open Scope Z_scope.
Definition dot8 (k : nat) (d : nat -> Z) : Z :=
  Mz k 0 * d 0%nat + Mz k 1 * d 1%nat + Mz k 2 * d 2%nat + Mz k 3 * d 3%nat +
  Mz k 4 * d 4%nat + Mz k 5 * d 5%nat + Mz k 6 * d 6%nat + Mz k 7 * d 7%nat.

Lemma fdct_lin_matrix d0 d1 d2 d3 d4 d5 d6 d7 :
  fdct_lin [d0; d1; d2; d3; d4; d5; d6; d7] =
  map (fun k => dot8 k (fun i => nth i [d0; d1; d2; d3; d4; d5; d6; d7] 0)) (seq 0 8).
Proof.
  lin_open. cbv [map seq dot8 Mz nth linMcols]. repeat (f_equal; try ring).
Qed.
Local Close Scope Z_scope.

Local Open Scope R_scope.
(* the real matrices: m = Mz / 2^13, a = sqrt 8 * dctA *)
Definition mR (k i : nat) : R := IZR (Mz k i) / 8192.
Definition aR (k i : nat) : R := sqrt 8 * dctA k i.

Lemma sqrt8_inv : sqrt 8 * sqrt (/ 8) = 1.
Proof. rewrite <- sqrt_mult by lra. replace (8 * / 8) with 1 by field. apply sqrt_1. Qed.

Definition acc_delta : R := 3 / 16384.

(* the numeric fact about the cosines: every entry of the flow-graph matrix / 2^13 is within acc_delta of sqrt 8 * dctA.
   It is PROVED in proofs/DctAccInterval.v with the Interval tactic (coqc only: coqchk needs > 40 min for Interval's
   computations); everything below and in DctE1.v / RmsFinal.v takes it as an explicit hypothesis. *)
Definition matrix_accuracy_fact : Prop :=
  forall k i, (k < 8)%nat -> (i < 8)%nat -> Rabs (mR k i - aR k i) <= acc_delta.

(* |Mz| <= 11363 by inspection of the table *)
Lemma Mz_bound k i : (k < 8)%nat -> (i < 8)%nat -> (- 11363 <= Mz k i <= 11363)%Z.
Proof.
  intros Hk Hi.
  assert (Ck : (k = 0 \/ k = 1 \/ k = 2 \/ k = 3 \/ k = 4 \/ k = 5 \/ k = 6 \/ k = 7)%nat) by lia.
  assert (Ci : (i = 0 \/ i = 1 \/ i = 2 \/ i = 3 \/ i = 4 \/ i = 5 \/ i = 6 \/ i = 7)%nat) by lia.
  destruct Ck as [->|[->|[->|[->|[->|[->|[->| ->]]]]]]]; destruct Ci as [->|[->|[->|[->|[->|[->|[->| ->]]]]]]];
    cbn [Mz nth linMcols]; lia.
Qed.

Lemma matrix_accuracy_cases : matrix_accuracy_fact -> forall k i, (k < 8)%nat -> (i < 8)%nat ->
  Rabs (mR k i - aR k i) <= acc_delta /\ Rabs (mR k i) <= 14 / 10 /\ Rabs (aR k i) <= 1415 / 1000.
Proof.
  intros Hacc k i Hk Hi. pose proof (Hacc k i Hk Hi) as A.
  assert (B : Rabs (mR k i) <= 11363 / 8192).
  { unfold mR. destruct (Mz_bound k i Hk Hi) as [B1 B2]. apply IZR_le in B1, B2.
    apply Rabs_le. split; lra. }
  split; [exact A|]. split; [lra|].
  replace (aR k i) with (mR k i - (mR k i - aR k i)) by ring.
  eapply Rle_trans; [apply Rabs_triang|]. rewrite Rabs_Ropp. unfold acc_delta in A. lra.
Qed.

(* ---------------------------------------------------------------- the 2-D flow graph is the Kronecker square of Mz *)
Local Close Scope R_scope.
Local Open Scope Z_scope.
(* entry j = 8v+u of the 2-D graph: row v of Mz applied to (row u of Mz applied to the sample rows) *)
Definition lin2_entry (data : list Z) (j : nat) : Z :=
  dot8 (j / 8) (fun y => dot8 (j mod 8) (fun x => nth (8 * y + x) data 0)).

Lemma fdct_lin2d_kronecker data : length data = 64%nat -> fdct_lin2d data = map (lin2_entry data) (seq 0 64).
Proof.
  intros Hlen. do 64 (destruct data as [|? data]; [discriminate Hlen|]). destruct data; [|discriminate Hlen].
  unfold fdct_lin2d.
  match goal with |- context [rows8 ?l] =>
    let r := eval cbv [rows8 seq map firstn skipn Nat.mul Nat.add] in (rows8 l) in change (rows8 l) with r end.
  cbn [map]. rewrite !fdct_lin_matrix.
  cbv [map seq nth transpose8].
  rewrite !fdct_lin_matrix.
  cbv [map seq dot8 Mz nth linMcols transpose8 concat app lin2_entry Nat.div Nat.modulo Nat.divmod fst snd Nat.sub Nat.mul Nat.add].
  reflexivity.
Qed.
