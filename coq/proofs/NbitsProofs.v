(* JPEG_NBITS: the table of src/jpeg_nbits.c and the table assembled in
   simd/x86_64/jchuff-sse2.asm (both regenerated into gen/GenNbits.v) agree with
   the model function nbits on all 65536 magnitudes, and nbits is
   floor(log2 x) + 1 for every positive x (no bound). *)
From Coq Require Import List ZArith Lia Bool.
From LJT Require Import lib.Sweep model.Huff gen.GenNbits.
Import ListNotations.
Local Open Scope Z_scope.

Fixpoint run_lookup (runs : list (Z * Z)) (x : Z) : Z :=
  match runs with
  | [] => -1
  | (c, v) :: t => if x <? c then v else run_lookup t (x - c)
  end.

Lemma nbits_pos_log2 p : nbits_pos p = Z.log2 (Zpos p) + 1.
Proof.
  induction p as [q IH|q IH|]; cbn [nbits_pos].
  - rewrite IH. replace (Zpos q~1) with (2 * Zpos q + 1) by lia.
    rewrite Z.log2_succ_double by lia. lia.
  - rewrite IH. replace (Zpos q~0) with (2 * Zpos q) by lia.
    rewrite Z.log2_double by lia. lia.
  - reflexivity.
Qed.

Lemma nbits_log2 x : 0 < x -> nbits x = Z.log2 x + 1.
Proof. destruct x as [|p|p]; try lia. intros _. apply nbits_pos_log2. Qed.

Lemma nbits_zero : nbits 0 = 0.
Proof. reflexivity. Qed.

Lemma nbits_c_table_sweep : sweep (fun x => run_lookup nbits_runs_c x =? nbits x) 0 65536 = true.
Proof. vm_compute. reflexivity. Qed.

Lemma nbits_asm_table_sweep : sweep (fun x => run_lookup nbits_runs_asm x =? nbits x) 0 65536 = true.
Proof. vm_compute. reflexivity. Qed.

Lemma nbits_tables_correct x : 0 <= x < 65536 ->
  run_lookup nbits_runs_c x = nbits x /\ run_lookup nbits_runs_asm x = nbits x.
Proof.
  intros H. split.
  - apply Z.eqb_eq. exact (sweep_sound _ _ _ nbits_c_table_sweep x H).
  - apply Z.eqb_eq. exact (sweep_sound _ _ _ nbits_asm_table_sweep x H).
Qed.

Lemma nbits_c_table_len : nbits_c_len = 65536.
Proof. reflexivity. Qed.

Theorem nbits_correct_all x :
  (0 < x -> nbits x = Z.log2 x + 1) /\ (x = 0 -> nbits x = 0) /\
  (0 <= x < 65536 -> run_lookup nbits_runs_c x = nbits x /\ run_lookup nbits_runs_asm x = nbits x).
Proof.
  split; [apply nbits_log2|]. split; [intros ->; reflexivity|]. apply nbits_tables_correct.
Qed.
