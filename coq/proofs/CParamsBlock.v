(* C17: one encode_one_block never produces more than BUFSIZE bytes (worst-case 0xFF stuffing
   included), and make_c_derived only ever returns tables with code lengths 1..16, codes < 2^len. *)
From Coq Require Import List ZArith Bool Lia ZifyBool.
From LJT Require Import model.Huff gen.GenParams model.CParams.
Import ListNotations.
Local Open Scope Z_scope.

(* ------------------------------------------------------------------ bit buffer *)
Definition olen (st : bitstate) : Z := Z.of_nat (length (b_out st)).
Definition used (st : bitstate) : Z := g_BIT_BUF_SIZE - b_free st.
Definition bs_ok (st : bitstate) : Prop := 0 <= b_free st <= g_BIT_BUF_SIZE.
(* 4 * bytes written + bits pending : grows by at most the number of bits put *)
Definition phi (st : bitstate) : Z := 4 * olen st + used st.

Lemma emit_byte_len out b : (length (emit_byte out b) <= length out + 2)%nat /\ (length out <= length (emit_byte out b))%nat.
Proof. unfold emit_byte. destruct (b mod 256 <? 255); cbn; lia. Qed.

Lemma flush_bytes_len n put out :
  (length (flush_bytes n put out) <= length out + 2 * n)%nat /\ (length out <= length (flush_bytes n put out))%nat.
Proof.
  revert out. induction n as [|n IH]; intro out; cbn [flush_bytes]; [lia|].
  destruct (IH (emit_byte out (Z.shiftr put (8 * Z.of_nat n)))) as [A B].
  destruct (emit_byte_len out (Z.shiftr put (8 * Z.of_nat n))) as [C D]. lia.
Qed.

Lemma put_bits_phi st code size :
  bs_ok st -> 0 <= size <= g_BIT_BUF_SIZE ->
  bs_ok (put_bits st code size) /\ phi (put_bits st code size) <= phi st + size /\ olen st <= olen (put_bits st code size).
Proof.
  unfold bs_ok, phi, used, olen, put_bits. intros Hf Hs.
  destruct (b_free st - size <? 0) eqn:E; cbn [b_free b_out].
  - destruct (flush_bytes_len (Z.to_nat (g_BIT_BUF_SIZE / 8))
               (Z.lor (Z.shiftl (b_put st) (size + (b_free st - size)) mod W64) (Z.shiftr code (- (b_free st - size))) mod W64)
               (b_out st)) as [A B].
    change (Z.to_nat (g_BIT_BUF_SIZE / 8)) with 8%nat in *. change g_BIT_BUF_SIZE with 64 in *. lia.
  - change g_BIT_BUF_SIZE with 64 in *. lia.
Qed.

Lemma nbits_pos_pos p : 1 <= nbits_pos p.
Proof. induction p; cbn [nbits_pos]; lia. Qed.
Lemma nbits_nonneg x : 0 <= nbits x.
Proof. destruct x; cbn; try lia. pose proof (nbits_pos_pos p). lia. Qed.

Definition tbl_ok (t : ctbl) : Prop := forall i, 0 <= nthZ (ehufsi t) i <= 16.

Lemma put_code_phi st temp nb code size st' :
  bs_ok st -> 0 <= nb -> 0 <= size -> nb + size <= g_BIT_BUF_SIZE ->
  put_code st temp nb code size = inr st' ->
  bs_ok st' /\ phi st' <= phi st + nb + size /\ olen st <= olen st'.
Proof.
  intros Hs Hn Hz Hb. unfold put_code.
  destruct ((g_MISSING_CODE_CHECK =? 1) && (size =? 0)); [discriminate|]. cbv zeta.
  intro E. injection E as <-.
  destruct (put_bits_phi st (Z.lor (Z.land temp (2 ^ nb - 1)) (Z.shiftl code nb)) (nb + size) Hs ltac:(lia)) as [A [B C]].
  split; [exact A|split; [lia|exact C]].
Qed.

Lemma zrl_fold_phi actbl : tbl_ok actbl -> forall (l : list nat) st,
  bs_ok st ->
  let st' := fold_left (fun s (_ : nat) => put_bits s (nthZ (ehufco actbl) 240) (nthZ (ehufsi actbl) 240)) l st in
  bs_ok st' /\ phi st' <= phi st + 16 * Z.of_nat (length l) /\ olen st <= olen st'.
Proof.
  intros Ht l. induction l as [|x l IH]; intros st Hs; cbn [fold_left length].
  - unfold bs_ok in *; repeat split; try assumption; lia.
  - pose proof (Ht 240%nat) as H240.
    destruct (put_bits_phi st (nthZ (ehufco actbl) 240) (nthZ (ehufsi actbl) 240) Hs ltac:(change g_BIT_BUF_SIZE with 64; lia)) as [A [B C]].
    destruct (IH _ A) as [A' [B' C']]. cbv zeta in *. unfold bs_ok in *; repeat split; try assumption; lia.
Qed.

(* potential of the AC loop: 16 * phi + r (r counts 16 per pending zero coefficient) *)
Lemma ac_step_psi prec actbl v st r st' r' :
  tbl_ok actbl -> 0 <= prec -> prec + g_MAX_COEF_BITS_ADD + 16 <= g_BIT_BUF_SIZE ->
  bs_ok st -> 0 <= r ->
  ac_step prec actbl v (inr (st, r)) = inr (st', r') ->
  bs_ok st' /\ 0 <= r' /\ 16 * phi st' + r' <= 16 * phi st + r + 16 * (prec + g_MAX_COEF_BITS_ADD + 16) /\ olen st <= olen st'.
Proof.
  intros Ht Hp Hfit Hs Hr. unfold ac_step.
  destruct (v =? 0).
  - intro E. injection E as <- <-. change g_MAX_COEF_BITS_ADD with 2 in *. unfold bs_ok in *; repeat split; try assumption; lia.
  - destruct (abs_trick v) as [temp mag].
    destruct (nbits mag >? prec + g_MAX_COEF_BITS_ADD) eqn:Echk; [discriminate|].
    pose proof (nbits_nonneg mag) as Hnb.
    destruct ((g_MISSING_ZRL_EOB_CHECK =? 1) && (0 <? r / 256) && (nthZ (ehufsi actbl) 240 =? 0)); [discriminate|].
    destruct (zrl_fold_phi actbl Ht (seq 0 (Z.to_nat (r / 256))) st Hs) as [A [B C]]. cbv zeta in A, B, C.
    rewrite seq_length in B.
    set (st1 := fold_left (fun s (_ : nat) => put_bits s (nthZ (ehufco actbl) 240) (nthZ (ehufsi actbl) 240))
                          (seq 0 (Z.to_nat (r / 256))) st) in *.
    set (sym := Z.to_nat (r - r / 256 * 256 + nbits mag)).
    pose proof (Ht sym) as Hsz.
    destruct (put_code st1 temp (nbits mag) (nthZ (ehufco actbl) sym) (nthZ (ehufsi actbl) sym)) as [e|st2] eqn:Epc; [discriminate|].
    intro E. injection E as <- <-.
    destruct (put_code_phi st1 temp (nbits mag) (nthZ (ehufco actbl) sym) (nthZ (ehufsi actbl) sym) st2 A Hnb ltac:(lia) ltac:(lia) Epc)
      as [A2 [B2 C2]].
    assert (r / 256 * 256 <= r) by (rewrite Z.mul_comm; apply Z.mul_div_le; lia).
    assert (0 <= r / 256) by (apply Z.div_pos; lia).
    unfold bs_ok in *; repeat split; try assumption; try lia.
Qed.

Lemma ac_fold_psi prec actbl : tbl_ok actbl -> 0 <= prec -> prec + g_MAX_COEF_BITS_ADD + 16 <= g_BIT_BUF_SIZE ->
  forall acs st r st' r',
  bs_ok st -> 0 <= r ->
  fold_left (fun acc v => ac_step prec actbl v acc) acs (inr (st, r)) = inr (st', r') ->
  bs_ok st' /\ 0 <= r' /\
  16 * phi st' + r' <= 16 * phi st + r + 16 * (prec + g_MAX_COEF_BITS_ADD + 16) * Z.of_nat (length acs) /\
  olen st <= olen st'.
Proof.
  intros Ht Hp Hfit acs. induction acs as [|v acs IH]; intros st r st' r' Hs Hr E; cbn [fold_left length] in *.
  - injection E as <- <-. unfold bs_ok in *; repeat split; try assumption; lia.
  - destruct (ac_step prec actbl v (inr (st, r))) as [e|[st1 r1]] eqn:E1.
    + exfalso. clear - E. induction acs as [|w acs IHa]; cbn in E; [discriminate|]. apply IHa. exact E.
    + destruct (ac_step_psi prec actbl v st r st1 r1 Ht Hp Hfit Hs Hr E1) as [A [B [C D]]].
      destruct (IH st1 r1 st' r' A B E) as [A' [B' [C' D']]].
      unfold bs_ok in *; repeat split; try assumption; nia.
Qed.

(* bytes one block can add, for data precision prec and n AC coefficients *)
Definition block_bytes_bound (prec : Z) (n : Z) : Z :=
  (g_BIT_BUF_SIZE + (prec + g_MAX_COEF_BITS_ADD + g_DC_EXTRA_BITS + 16) + n * (prec + g_MAX_COEF_BITS_ADD + 16) + 16) / 4.

Theorem block_bytes_general : forall prec dctbl actbl st last_dc coefs st',
  0 <= prec -> prec + g_MAX_COEF_BITS_ADD + g_DC_EXTRA_BITS + 16 <= g_BIT_BUF_SIZE ->
  tbl_ok dctbl -> tbl_ok actbl -> bs_ok st ->
  encode_one_block prec dctbl actbl st last_dc coefs = inr st' ->
  bs_ok st' /\ olen st <= olen st' /\
  olen st' - olen st <= block_bytes_bound prec (Z.of_nat (length coefs) - 1).
Proof.
  intros prec dctbl actbl st last_dc coefs st' Hp Hfit Hdt Hat Hs. unfold encode_one_block.
  destruct coefs as [|dc acs]; [discriminate|].
  destruct (abs_trick (dc - last_dc)) as [temp mag].
  destruct (nbits mag >? prec + g_MAX_COEF_BITS_ADD + g_DC_EXTRA_BITS) eqn:Echk; [discriminate|].
  pose proof (nbits_nonneg mag) as Hnb.
  set (sym := Z.to_nat (nbits mag)). pose proof (Hdt sym) as Hsz.
  destruct (put_code st temp (nbits mag) (nthZ (ehufco dctbl) sym) (nthZ (ehufsi dctbl) sym)) as [e|st1] eqn:Epc; [discriminate|].
  destruct (put_code_phi st temp (nbits mag) (nthZ (ehufco dctbl) sym) (nthZ (ehufsi dctbl) sym) st1 Hs Hnb ltac:(lia) ltac:(lia) Epc)
    as [A1 [B1 C1]].
  destruct (fold_left (fun acc v => ac_step prec actbl v acc) acs (inr (st1, 0))) as [e|[st2 r]] eqn:Ef; [discriminate|].
  destruct ((g_MISSING_ZRL_EOB_CHECK =? 1) && (r >? 0) && (nthZ (ehufsi actbl) 0 =? 0)); [discriminate|].
  intro E. injection E as <-.
  assert (Hfit2 : prec + g_MAX_COEF_BITS_ADD + 16 <= g_BIT_BUF_SIZE) by (change g_DC_EXTRA_BITS with 1 in Hfit; lia).
  destruct (ac_fold_psi prec actbl Hat Hp Hfit2 acs st1 0 st2 r A1 ltac:(lia) Ef) as [A2 [B2 [C2 D2]]].
  assert (Hfinal : forall stf, bs_ok stf -> phi stf <= phi st2 + 16 -> olen st2 <= olen stf ->
                    bs_ok stf /\ olen st <= olen stf /\
                    olen stf - olen st <= block_bytes_bound prec (Z.of_nat (length (dc :: acs)) - 1)).
  { intros stf Hbf Hphi Hol. split; [exact Hbf|]. split; [lia|].
    unfold block_bytes_bound. apply Z.div_le_lower_bound; [lia|].
    unfold phi, used, bs_ok in *. cbn [length].
    replace (Z.of_nat (S (length acs)) - 1) with (Z.of_nat (length acs)) by lia.
    change g_BIT_BUF_SIZE with 64 in *. nia. }
  destruct (r >? 0).
  - pose proof (Hat 0%nat) as H0.
    destruct (put_bits_phi st2 (nthZ (ehufco actbl) 0) (nthZ (ehufsi actbl) 0) A2 ltac:(change g_BIT_BUF_SIZE with 64; lia)) as [A3 [B3 C3]].
    apply Hfinal; [exact A3|lia|exact C3].
  - apply Hfinal; [exact A2|lia|lia].
Qed.

(* the staging buffer: a 64-coefficient block at 8- or 12-bit precision fits _buffer[BUFSIZE] *)
Theorem block_fits_staging_lemma : forall prec dctbl actbl st last_dc coefs st',
  0 <= prec <= g_LOSSY_PREC_B -> tbl_ok dctbl -> tbl_ok actbl -> bs_ok st ->
  (length coefs <= Z.to_nat g_DCTSIZE2)%nat ->
  encode_one_block prec dctbl actbl st last_dc coefs = inr st' ->
  olen st' - olen st <= g_BUFSIZE.
Proof.
  intros prec dctbl actbl st last_dc coefs st' Hp Hdt Hat Hs Hlen E.
  destruct (block_bytes_general prec dctbl actbl st last_dc coefs st' ltac:(lia)
              ltac:(change g_LOSSY_PREC_B with 12 in Hp; change g_MAX_COEF_BITS_ADD with 2; change g_DC_EXTRA_BITS with 1;
                    change g_BIT_BUF_SIZE with 64; lia) Hdt Hat Hs E) as [_ [_ H]].
  eapply Z.le_trans; [exact H|].
  unfold block_bytes_bound. apply Z.div_le_upper_bound; [lia|].
  change g_LOSSY_PREC_B with 12 in Hp. change g_MAX_COEF_BITS_ADD with 2. change g_DC_EXTRA_BITS with 1.
  change g_BIT_BUF_SIZE with 64. change (Z.to_nat g_DCTSIZE2) with 64%nat in Hlen.
  assert (Hb : 501 <= g_BUFSIZE) by (vm_compute; discriminate).
  destruct coefs as [|dc acs]; [discriminate E|]. cbn [length] in *.
  replace (Z.of_nat (S (length acs)) - 1) with (Z.of_nat (length acs)) by lia.
  assert (Z.of_nat (length acs) * (prec + 2 + 16) <= 63 * 30) by (apply Z.mul_le_mono_nonneg; lia).
  lia.
Qed.

(* ----------------------------------------------------------- make_c_derived *)
Lemma huffsizes_range : forall bits l p sizes,
  huffsizes bits l p = Some sizes -> Forall (fun s => l <= s < l + Z.of_nat (length bits)) sizes.
Proof.
  induction bits as [|b t IH]; intros l p sizes H; cbn [huffsizes] in H.
  - inversion H; subst. constructor.
  - destruct ((b <? 0) || (p + b >? 256)); [discriminate|].
    destruct (huffsizes t (l + 1) (p + b)) as [r|] eqn:E; [|discriminate].
    inversion H; subst. apply Forall_app. split.
    + apply Forall_forall. intros s Hin. apply repeat_spec in Hin. subst s. cbn [length]. lia.
    + specialize (IH _ _ _ E). eapply Forall_impl; [|exact IH]. cbv beta. intros s Hs. cbn [length]. lia.
Qed.

Lemma codes_from_range : forall sizes code si codes,
  codes_from sizes code si = Some codes -> 0 <= code ->
  code < 2 ^ si /\ Forall2 (fun c s => 0 <= c < 2 ^ s) codes sizes.
Proof.
  induction sizes as [|s t IH]; intros code si codes H Hc; cbn [codes_from] in H.
  - destruct (code >=? 2 ^ si) eqn:E; [discriminate|]. inversion H; subst. split; [lia|constructor].
  - destruct (s =? si) eqn:Es.
    + destruct (codes_from t (code + 1) si) as [r|] eqn:Er; [|discriminate]. inversion H; subst.
      destruct (IH _ _ _ Er ltac:(lia)) as [A B]. assert (s = si) by lia. subst s.
      split; [lia|]. constructor; [lia|exact B].
    + destruct (code >=? 2 ^ si) eqn:E; [discriminate|].
      destruct (codes_from t (code * 2 ^ (s - si) + 1) s) as [r|] eqn:Er; [|discriminate]. inversion H; subst.
      assert (0 <= code * 2 ^ (s - si)) by (apply Z.mul_nonneg_nonneg; [lia|apply Z.pow_nonneg; lia]).
      destruct (IH _ _ _ Er ltac:(lia)) as [A B].
      split; [lia|]. constructor; [lia|exact B].
Qed.

Lemma nth_upd_same' {A} (i : nat) (x d : A) l : (i < length l)%nat -> nth i (upd i x l) d = x.
Proof. revert i; induction l as [|h t IH]; intros [|i] H; cbn in *; try lia; auto. apply IH. lia. Qed.
Lemma nth_upd_other' {A} (i j : nat) (x d : A) l : i <> j -> nth j (upd i x l) d = nth j l d.
Proof. revert i j; induction l as [|h t IH]; intros [|i] [|j] H; cbn; auto; try lia. Qed.
Lemma upd_length' {A} (i : nat) (x : A) l : length (upd i x l) = length l.
Proof. revert i; induction l as [|h t IH]; intros [|i]; cbn; auto. Qed.

Definition entry_ok (co si : list Z) (i : nat) : Prop :=
  nthZ si i = 0 \/ (1 <= nthZ si i <= 16 /\ 0 <= nthZ co i < 2 ^ nthZ si i).

Lemma fill_c_ok : forall vals codes sizes maxsym co si t,
  fill_c vals codes sizes maxsym co si = Some t ->
  maxsym < Z.of_nat (length co) -> length co = length si ->
  Forall2 (fun c s => 0 <= c < 2 ^ s) codes sizes -> Forall (fun s => 1 <= s <= 16) sizes ->
  (forall i, entry_ok co si i) -> (forall i, maxsym < Z.of_nat i -> nthZ si i = 0) ->
  length (ehufco t) = length co /\ length (ehufsi t) = length si /\
  (forall i, entry_ok (ehufco t) (ehufsi t) i) /\ (forall i, maxsym < Z.of_nat i -> nthZ (ehufsi t) i = 0).
Proof.
  induction vals as [|sym vt IH]; intros codes sizes maxsym co si t H Hm Hl Hcs Hsz Hent Hhi.
  - cbn in H. inversion H; subst. cbn. auto.
  - cbn [fill_c] in H. destruct codes as [|c ct]; [inversion H; subst; cbn; auto|].
    destruct sizes as [|s st]; [inversion H; subst; cbn; auto|].
    destruct ((sym <? 0) || (sym >? maxsym) || negb (nthZ si (Z.to_nat sym) =? 0)) eqn:E; [discriminate|].
    inversion Hcs; subst. inversion Hsz; subst.
    apply IH in H; try assumption.
    + rewrite !upd_length' in H. exact H.
    + rewrite upd_length'. exact Hm.
    + rewrite !upd_length'. exact Hl.
    + intro i. unfold entry_ok, nthZ. destruct (Nat.eq_dec (Z.to_nat sym) i) as [<-|Hne].
      * rewrite !nth_upd_same' by lia. right. lia.
      * rewrite !nth_upd_other' by exact Hne. apply Hent.
    + intros i Hi. unfold nthZ. rewrite nth_upd_other' by lia. apply Hhi. exact Hi.
Qed.

(* total correctness shape of make_c_derived: for EVERY bits / huffval content it either rejects or
   returns 257-entry tables whose used entries have length 1..16 and a code below 2^length; symbols
   above maxsymbol are never stored *)
Theorem c_derived_total_lemma : forall bits vals maxsym,
  0 <= maxsym <= 256 ->
  match make_c_derived bits vals maxsym with
  | None => True
  | Some t => length (ehufco t) = 257%nat /\ length (ehufsi t) = 257%nat /\
              (forall i, entry_ok (ehufco t) (ehufsi t) i) /\
              (forall i, maxsym < Z.of_nat i -> nthZ (ehufsi t) i = 0) /\ tbl_ok t
  end.
Proof.
  intros bits vals maxsym Hm. unfold make_c_derived.
  destruct (huffsizes (skipn 1 (firstn 17 bits)) 1 0) as [sizes|] eqn:Eh; [|exact I].
  destruct (gen_codes sizes) as [codes|] eqn:Eg; [|exact I].
  destruct (fill_c (firstn (length sizes) vals) codes sizes maxsym (repeat 0 257) (repeat 0 257)) as [t|] eqn:Ef; [|exact I].
  pose proof (huffsizes_range _ _ _ _ Eh) as Hr.
  assert (Hsz : Forall (fun s => 1 <= s <= 16) sizes).
  { eapply Forall_impl; [|exact Hr]. cbv beta. intros s Hs.
    assert (length (skipn 1 (firstn 17 bits)) <= 16)%nat by (rewrite skipn_length, firstn_length; lia). lia. }
  assert (Hcs : Forall2 (fun c s => 0 <= c < 2 ^ s) codes sizes).
  { unfold gen_codes in Eg. destruct sizes as [|s0 r]; [inversion Eg; constructor|].
    apply (codes_from_range _ _ _ _ Eg). lia. }
  assert (Hz : forall i : nat, nthZ (repeat 0 257) i = 0).
  { intro i. unfold nthZ. destruct (Nat.lt_ge_cases i 257) as [Hlt|Hge].
    - clear -Hlt. revert i Hlt. generalize 257%nat. induction n; intros [|i] H; cbn; try lia; auto. apply IHn. lia.
    - rewrite nth_overflow; [reflexivity|rewrite repeat_length; lia]. }
  destruct (fill_c_ok _ _ _ _ _ _ _ Ef) as [A [B [C D]]]; try assumption.
  - rewrite repeat_length. lia.
  - reflexivity.
  - intro i. left. apply Hz.
  - intros i _. apply Hz.
  - rewrite repeat_length in A, B. split; [exact A|]. split; [exact B|]. split; [exact C|]. split; [exact D|].
    intro k. destruct (C k) as [E|[E _]]; lia.
Qed.

(* hence: a block encoded with any two tables make_c_derived accepts fits the staging buffer *)
Corollary block_fits_staging_derived : forall prec dbits dvals abits avals dct act st last_dc coefs st',
  0 <= prec <= g_LOSSY_PREC_B ->
  make_c_derived dbits dvals 15 = Some dct -> make_c_derived abits avals 255 = Some act ->
  bs_ok st -> (length coefs <= Z.to_nat g_DCTSIZE2)%nat ->
  encode_one_block prec dct act st last_dc coefs = inr st' ->
  olen st' - olen st <= g_BUFSIZE.
Proof.
  intros prec dbits dvals abits avals dct act st last_dc coefs st' Hp Hd Ha Hs Hl E.
  pose proof (c_derived_total_lemma dbits dvals 15 ltac:(lia)) as Td. rewrite Hd in Td.
  pose proof (c_derived_total_lemma abits avals 255 ltac:(lia)) as Ta. rewrite Ha in Ta.
  destruct Td as [_ [_ [_ [_ Td]]]]. destruct Ta as [_ [_ [_ [_ Ta]]]].
  exact (block_fits_staging_lemma prec dct act st last_dc coefs st' Hp Td Ta Hs Hl E).
Qed.
