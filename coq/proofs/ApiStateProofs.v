(* C12 -- soundness of the static analysis of model/ApiState.v:
   two executions of a command from states that agree on the members the analysis
   considers defined take the same control path, make the same observations, never use
   a dangling image-pool pointer, and end in states that agree on the resulting set. *)
From Coq Require Import List ZArith String Bool Lia.
From LJT Require Import model.ApiState.
Import ListNotations.
Local Open Scope Z_scope.

(* ------------------------------------------------------------ field equality *)
Lemma obj_eqb_eq a b : obj_eqb a b = true <-> a = b.
Proof. destruct a, b; cbn; split; intro H; try reflexivity; try discriminate. Qed.
Lemma fld_eqb_eq a b : fld_eqb a b = true <-> a = b.
Proof.
  destruct a as [o n], b as [o' n']. unfold fld_eqb. cbn [fst snd].
  rewrite andb_true_iff, obj_eqb_eq, String.eqb_eq. split.
  - intros [-> ->]. reflexivity.
  - intro H. inversion H. auto.
Qed.
Lemma fld_eqb_refl a : fld_eqb a a = true.
Proof. apply fld_eqb_eq. reflexivity. Qed.
Lemma fld_eqb_neq a b : fld_eqb a b = false <-> a <> b.
Proof.
  split.
  - intros H E. apply fld_eqb_eq in E. congruence.
  - intro H. destruct (fld_eqb a b) eqn:E; [apply fld_eqb_eq in E; contradiction | reflexivity].
Qed.
Lemma fld_eqb_sym a b : fld_eqb a b = fld_eqb b a.
Proof.
  destruct (fld_eqb a b) eqn:E.
  - apply fld_eqb_eq in E. subst. symmetry. apply fld_eqb_refl.
  - symmetry. apply fld_eqb_neq. apply fld_eqb_neq in E. congruence.
Qed.

Lemma memf_In f l : memf f l = true <-> In f l.
Proof.
  induction l as [|g t IH]; cbn; [split; [discriminate | tauto]|].
  rewrite orb_true_iff, IH, fld_eqb_eq. split; intros [H|H]; auto.
Qed.
Lemma memf_addf f g l : memf f (addf g l) = true <-> f = g \/ memf f l = true.
Proof.
  unfold addf. destruct (memf g l) eqn:E.
  - split; [auto | intros [->|H]; auto].
  - cbn. rewrite orb_true_iff, fld_eqb_eq. tauto.
Qed.
Lemma memf_inter f l m : memf f (inter l m) = true <-> memf f l = true /\ memf f m = true.
Proof.
  induction l as [|g t IH]; cbn; [split; [discriminate | intros [H _]; discriminate]|].
  destruct (memf g m) eqn:E; cbn; rewrite ?orb_true_iff, IH.
  - split.
    + intros [H|[H1 H2]]; [apply fld_eqb_eq in H; subst; rewrite fld_eqb_refl; auto | auto].
    + intros [[H|H] H2]; auto.
  - split.
    + intros [H1 H2]. auto.
    + intros [[H|H] H2]; [apply fld_eqb_eq in H; subst; congruence | auto].
Qed.
Lemma memf_removef f g l : memf f (removef g l) = true -> memf f l = true /\ f <> g.
Proof.
  induction l as [|h t IH]; cbn; [discriminate|].
  destruct (fld_eqb h g) eqn:E.
  - intro H. destruct (IH H) as [H1 H2]. rewrite H1, orb_true_r. auto.
  - cbn. rewrite orb_true_iff. intros [H|H].
    + apply fld_eqb_eq in H. subst. rewrite fld_eqb_refl. split; [reflexivity|].
      intro. subst. rewrite fld_eqb_refl in E. discriminate.
    + destruct (IH H) as [H1 H2]. rewrite H1, orb_true_r. auto.
Qed.
Lemma memf_remove_obj f o l : memf f (remove_obj o l) = true -> memf f l = true /\ fst f <> o.
Proof.
  unfold remove_obj. rewrite !memf_In, filter_In. intros [H1 H2]. split; [assumption|].
  intro E. subst. destruct (obj_eqb (fst f) (fst f)) eqn:E2; [discriminate|].
  assert (obj_eqb (fst f) (fst f) = true) by (apply obj_eqb_eq; reflexivity). congruence.
Qed.

(* ------------------------------------------------------------ the relation *)
Definition R (a : astate) (s1 s2 : state) : Prop :=
  sc s1 gsc = a_c a /\ sc s2 gsc = a_c a /\ sc s1 gsd = a_d a /\ sc s2 gsd = a_d a /\
  (forall f, memf f (a_s a) = true -> sc s1 f = sc s2 f) /\
  (forall p, memf p (a_p a) = true -> pstat s1 p = PLive /\ pstat s2 p = PLive) /\
  (forall p, memf p (a_n a) = true -> pt s1 p = None /\ pt s2 p = None).

Definition RX (a : astate) (x1 x2 : xstate) : Prop :=
  R a (xs x1) (xs x2) /\ xobs x1 = xobs x2 /\ xh x1 = xh x2.

Lemma mkRX a x1 x2 : R a (xs x1) (xs x2) -> xobs x1 = xobs x2 -> xh x1 = xh x2 -> RX a x1 x2.
Proof. intros A B C. exact (conj A (conj B C)). Qed.

Definition Rset (l : list astate) (x1 x2 : xstate) : Prop := exists b, In b l /\ RX b x1 x2.
Definition sub (l m : list astate) : Prop := forall x1 x2, Rset l x1 x2 -> Rset m x1 x2.
Definition rsub (r r' : ares) : Prop :=
  sub (r_next r) (r_next r') /\ sub (r_hand r) (r_hand r') /\ sub (r_bail r) (r_bail r') /\ sub (r_ret r) (r_ret r').

Lemma sub_refl l : sub l l. Proof. intros x1 x2 H. exact H. Qed.
Lemma sub_trans l m n : sub l m -> sub m n -> sub l n.
Proof. intros H1 H2 x1 x2 H. auto. Qed.
Lemma rsub_refl r : rsub r r. Proof. repeat split; apply sub_refl. Qed.
Lemma rsub_trans r s t : rsub r s -> rsub s t -> rsub r t.
Proof. intros (A&B&C&D) (A'&B'&C'&D'). repeat split; eapply sub_trans; eauto. Qed.

Lemma R_weaken a b s1 s2 :
  a_c b = a_c a -> a_d b = a_d a ->
  (forall f, memf f (a_s b) = true -> memf f (a_s a) = true) ->
  (forall f, memf f (a_p b) = true -> memf f (a_p a) = true) ->
  (forall f, memf f (a_n b) = true -> memf f (a_n a) = true) ->
  R a s1 s2 -> R b s1 s2.
Proof.
  intros Hc Hd Hs Hp Hn (A&B&C&D&E&F&G). unfold R. rewrite Hc, Hd.
  split; [assumption|]. split; [assumption|]. split; [assumption|]. split; [assumption|].
  split; [auto|]. split; [intros p H; apply F; auto | intros p H; apply G; auto].
Qed.

Lemma ains_new a l x1 x2 : RX a x1 x2 -> Rset (ains a l) x1 x2.
Proof.
  intros (HR & Ho & Hh). induction l as [|b t IH]; cbn.
  - exists a. split; [left; reflexivity | apply mkRX; assumption].
  - destruct (Z.eqb (a_c a) (a_c b) && Z.eqb (a_d a) (a_d b)) eqn:E.
    + apply andb_true_iff in E. destruct E as [E1 E2]. apply Z.eqb_eq in E1, E2.
      eexists. split; [left; reflexivity|]. apply mkRX; [|assumption|assumption].
      eapply R_weaken; [| | | | | exact HR]; cbn; auto.
      * intros f H. apply memf_inter in H. tauto.
      * intros f H. apply memf_inter in H. tauto.
      * intros f H. apply memf_inter in H. tauto.
    + destruct IH as (c & Hin & Hc). exists c. split; [right; assumption | assumption].
Qed.
Lemma ains_old a l x1 x2 : Rset l x1 x2 -> Rset (ains a l) x1 x2.
Proof.
  induction l as [|b t IH]; intros (c & Hin & (HR & Ho & Hh)); [destruct Hin|].
  cbn. destruct (Z.eqb (a_c a) (a_c b) && Z.eqb (a_d a) (a_d b)) eqn:E.
  - destruct Hin as [->|Hin].
    + eexists. split; [left; reflexivity|]. apply mkRX; [|assumption|assumption].
      eapply R_weaken; [| | | | | exact HR]; cbn; auto.
      * intros f H. apply memf_inter in H. tauto.
      * intros f H. apply memf_inter in H. tauto.
      * intros f H. apply memf_inter in H. tauto.
    + exists c. split; [right; assumption | apply mkRX; assumption].
  - destruct Hin as [->|Hin].
    + exists c. split; [left; reflexivity | apply mkRX; assumption].
    + destruct IH as (d & Hd & Hrd); [exists c; split; [assumption | apply mkRX; assumption]|].
      exists d. split; [right; assumption | assumption].
Qed.
Lemma aunion_l l m : sub l (aunion l m).
Proof.
  unfold aunion. induction l as [|a t IH]; intros x1 x2 (c & Hin & Hc); [destruct Hin|].
  cbn. destruct Hin as [->|Hin].
  - apply ains_new. assumption.
  - apply ains_old. apply IH. exists c. auto.
Qed.
Lemma aunion_r l m : sub m (aunion l m).
Proof.
  unfold aunion. induction l as [|a t IH]; intros x1 x2 H; cbn; [assumption|].
  apply ains_old. apply IH. assumption.
Qed.
Lemma runion_l r1 r2 : rsub r1 (runion r1 r2).
Proof. repeat split; apply aunion_l. Qed.
Lemma runion_r r1 r2 : rsub r2 (runion r1 r2).
Proof. repeat split; apply aunion_r. Qed.

Lemma afold_spec f l : forall acc r,
  afold f l acc = Some r ->
  rsub acc r /\ forall a, In a l -> exists ra, f a = Some ra /\ rsub ra r.
Proof.
  induction l as [|a t IH]; intros acc r H; cbn in H.
  - inversion H. subst. split; [apply rsub_refl | intros a []].
  - destruct (f a) as [ra|] eqn:E; [|discriminate].
    destruct (IH _ _ H) as [H1 H2]. split.
    + eapply rsub_trans; [apply runion_r | exact H1].
    + intros b [->|Hb].
      * exists ra. split; [assumption|]. eapply rsub_trans; [apply runion_l | exact H1].
      * apply H2. assumption.
Qed.

(* ------------------------------------------------------------ expressions *)
Lemma R_sdef a s1 s2 f : R a s1 s2 -> sdef a f = true -> sc s1 f = sc s2 f.
Proof.
  intros (A&B&C&D&E&F&G) H. unfold sdef, is_gs in H.
  apply orb_true_iff in H. destruct H as [H|H]; [|auto].
  apply orb_true_iff in H. destruct H as [H|H]; apply fld_eqb_eq in H; subst; congruence.
Qed.
Lemma eval_eq en a s1 s2 e : R a s1 s2 -> alldef a (reads e) = true -> eval en s1 e = eval en s2 e.
Proof.
  intros HR. unfold alldef.
  assert (Bin : forall e1 e2, forallb (sdef a) (reads e1 ++ reads e2) = true ->
                              forallb (sdef a) (reads e1) = true /\ forallb (sdef a) (reads e2) = true).
  { intros e1 e2 H. rewrite forallb_app in H. apply andb_true_iff in H. exact H. }
  induction e; cbn [reads eval]; intro H; try reflexivity.
  - cbn in H. rewrite andb_true_r in H. eapply R_sdef; eauto.
  - destruct (Bin _ _ H). rewrite IHe1, IHe2; auto.
  - destruct (Bin _ _ H). rewrite IHe1, IHe2; auto.
  - destruct (Bin _ _ H). rewrite IHe1, IHe2; auto.
  - destruct (Bin _ _ H). rewrite IHe1, IHe2; auto.
  - destruct (Bin _ _ H). rewrite IHe1, IHe2; auto.
  - rewrite IHe; auto.
  - rewrite forallb_app in H. apply andb_true_iff in H. destruct H as [H1 H]. destruct (Bin _ _ H).
    rewrite IHe1, IHe2, IHe3; auto.
Qed.

Lemma aeval_sound en a s1 s2 e v : R a s1 s2 -> aeval a e = Some v -> eval en s1 e = v /\ eval en s2 e = v.
Proof.
  intros HR. revert v. induction e; cbn; intros v H.
  - inversion H. auto.
  - discriminate.
  - destruct HR as (A&B&C&D&_). destruct (fld_eqb f gsc) eqn:E1.
    + apply fld_eqb_eq in E1. subst. inversion H. subst. auto.
    + destruct (fld_eqb f gsd) eqn:E2; [|discriminate].
      apply fld_eqb_eq in E2. subst. inversion H. subst. auto.
  - destruct (aeval a e1) as [u|]; [|discriminate]. destruct (aeval a e2) as [w|]; [|discriminate].
    destruct (IHe1 _ eq_refl) as [-> ->]. destruct (IHe2 _ eq_refl) as [-> ->]. inversion H. auto.
  - destruct (aeval a e1) as [u|]; [|discriminate]. destruct (aeval a e2) as [w|]; [|discriminate].
    destruct (IHe1 _ eq_refl) as [-> ->]. destruct (IHe2 _ eq_refl) as [-> ->]. inversion H. auto.
  - destruct (aeval a e1) as [u|]; [|discriminate]. destruct (aeval a e2) as [w|]; [|discriminate].
    destruct (IHe1 _ eq_refl) as [-> ->]. destruct (IHe2 _ eq_refl) as [-> ->]. inversion H. auto.
  - destruct (aeval a e1) as [u|], (aeval a e2) as [w|].
    + destruct (IHe1 _ eq_refl) as [-> ->]. destruct (IHe2 _ eq_refl) as [-> ->]. inversion H. auto.
    + destruct (IHe1 _ eq_refl) as [-> ->]. destruct (Z.eqb u 0) eqn:E; [|discriminate]. inversion H. auto.
    + destruct (IHe2 _ eq_refl) as [-> ->]. destruct (Z.eqb w 0) eqn:E; [|discriminate]. inversion H.
      rewrite !andb_false_r. auto.
    + discriminate.
  - destruct (aeval a e1) as [u|], (aeval a e2) as [w|].
    + destruct (IHe1 _ eq_refl) as [-> ->]. destruct (IHe2 _ eq_refl) as [-> ->]. inversion H. auto.
    + destruct (IHe1 _ eq_refl) as [-> ->]. destruct (Z.eqb u 0) eqn:E; [discriminate|]. inversion H. auto.
    + destruct (IHe2 _ eq_refl) as [-> ->]. destruct (Z.eqb w 0) eqn:E; [discriminate|]. inversion H.
      rewrite !orb_true_r. auto.
    + discriminate.
  - destruct (aeval a e) as [u|]; [|discriminate]. destruct (IHe _ eq_refl) as [-> ->]. inversion H. auto.
  - destruct (aeval a e1) as [u|]; [|discriminate]. destruct (IHe1 _ eq_refl) as [-> ->].
    destruct (Z.eqb u 0); auto.
Qed.

(* ------------------------------------------------------------ state updates *)
Lemma is_gs_false f : is_gs f = false -> fld_eqb gsc f = false /\ fld_eqb gsd f = false.
Proof.
  unfold is_gs. intro H. apply orb_false_iff in H. destruct H as [H1 H2].
  rewrite fld_eqb_sym, H1, fld_eqb_sym, H2. auto.
Qed.

Ltac splitR := unfold R; split; [|split; [|split; [|split; [|split; [|split]]]]].

Lemma R_set a s1 s2 f v1 v2 :
  is_gs f = false -> v1 = v2 -> R a s1 s2 ->
  R (mka (a_c a) (a_d a) (addf f (a_s a)) (a_p a) (a_n a)) (upd_sc s1 f v1) (upd_sc s2 f v2).
Proof.
  intros Hg -> (A&B&C&D&E&F&G). destruct (is_gs_false _ Hg) as [G1 G2].
  splitR; unfold upd_sc; cbn [sc pt ep a_c a_d a_s a_p a_n]; rewrite ?G1, ?G2; auto.
  intros g Hg'. apply memf_addf in Hg'. destruct (fld_eqb g f) eqn:Eg; [reflexivity|].
  destruct Hg' as [->|Hg']; [rewrite fld_eqb_refl in Eg; discriminate | auto].
Qed.

Lemma R_set_gs a s1 s2 f v :
  is_gs f = true -> R a s1 s2 -> R (set_gs a f v) (upd_sc s1 f v) (upd_sc s2 f v).
Proof.
  intros Hg (A&B&C&D&E&F&G). unfold set_gs, is_gs in *.
  assert (Hne : fld_eqb gsc gsd = false) by reflexivity.
  assert (Hne' : fld_eqb gsd gsc = false) by reflexivity.
  destruct (fld_eqb f gsc) eqn:E1.
  - apply fld_eqb_eq in E1. subst f.
    splitR; unfold upd_sc; cbn [sc pt ep a_c a_d a_s a_p a_n]; rewrite ?fld_eqb_refl, ?Hne'; auto.
    intros g Hg'. destruct (fld_eqb g gsc); auto.
  - destruct (fld_eqb f gsd) eqn:E2; [|discriminate].
    apply fld_eqb_eq in E2. subst f.
    splitR; unfold upd_sc; cbn [sc pt ep a_c a_d a_s a_p a_n]; rewrite ?fld_eqb_refl, ?Hne; auto.
    intros g Hg'. destruct (fld_eqb g gsd); auto.
Qed.

Lemma pstat_upd_sc s f v p : pstat (upd_sc s f v) p = pstat s p.
Proof. reflexivity. Qed.

Lemma R_alloc a s1 s2 p :
  R a s1 s2 ->
  R (mka (a_c a) (a_d a) (a_s a) (addf p (a_p a)) (removef p (a_n a)))
    (upd_pt s1 p (Some (ep s1 (fst p)))) (upd_pt s2 p (Some (ep s2 (fst p)))).
Proof.
  intros (A&B&C&D&E&F&G). splitR; cbn [sc pt ep a_c a_d a_s a_p a_n upd_pt]; auto.
  - intros q H. apply memf_addf in H. unfold pstat; cbn [pt ep upd_pt].
    destruct (fld_eqb q p) eqn:Ep.
    + apply fld_eqb_eq in Ep. subst. rewrite !Z.eqb_refl. auto.
    + destruct H as [->|H]; [rewrite fld_eqb_refl in Ep; discriminate|]. apply F in H. exact H.
  - intros q H. apply memf_removef in H. destruct H as [H Hn].
    destruct (fld_eqb q p) eqn:Ep; [apply fld_eqb_eq in Ep; contradiction|]. apply G. exact H.
Qed.

Lemma R_null a s1 s2 p :
  R a s1 s2 ->
  R (mka (a_c a) (a_d a) (a_s a) (removef p (a_p a)) (addf p (a_n a))) (upd_pt s1 p None) (upd_pt s2 p None).
Proof.
  intros (A&B&C&D&E&F&G). splitR; cbn [sc pt ep a_c a_d a_s a_p a_n upd_pt]; auto.
  - intros q H. apply memf_removef in H. destruct H as [H Hn]. unfold pstat; cbn [pt ep upd_pt].
    destruct (fld_eqb q p) eqn:Ep; [apply fld_eqb_eq in Ep; contradiction|]. apply F in H. exact H.
  - intros q H. apply memf_addf in H.
    destruct (fld_eqb q p) eqn:Ep; [auto|]. destruct H as [->|H]; [rewrite fld_eqb_refl in Ep; discriminate|]. apply G. exact H.
Qed.

Lemma pstat_abort_other s o p : fst p <> o -> pstat (abort s o) p = pstat s p.
Proof.
  intro Hn. assert (Ho : obj_eqb (fst p) o = false).
  { destruct (obj_eqb (fst p) o) eqn:E; [apply obj_eqb_eq in E; contradiction | reflexivity]. }
  unfold pstat, abort. destruct o; cbn [pt ep upd_sc upd_pt]; rewrite ?Ho; try reflexivity.
  destruct (fld_eqb p (OD, "marker_list"%string)) eqn:E; [|reflexivity].
  apply fld_eqb_eq in E. subst. cbn in Hn. contradiction.
Qed.

Lemma pt_abort s o p : p <> (OD, "marker_list"%string) -> pt (abort s o) p = pt s p.
Proof.
  intro Hn. unfold abort. destruct o; cbn [pt upd_sc upd_pt]; try reflexivity.
  destruct (fld_eqb p (OD, "marker_list"%string)) eqn:E; [apply fld_eqb_eq in E; contradiction | reflexivity].
Qed.
Lemma pt_abort_marker_list s : pt (abort s OD) (OD, "marker_list"%string) = None.
Proof. reflexivity. Qed.

Lemma R_abort a s1 s2 o :
  R a s1 s2 ->
  match ana (CAbort o) a with
  | Some r => exists b, r_next r = [b] /\ R b (abort s1 o) (abort s2 o)
  | None => False
  end.
Proof.
  intros (A&B&C&D&E&F&G).
  assert (Hne : fld_eqb gsd gsc = false) by reflexivity.
  assert (Hne' : fld_eqb gsc gsd = false) by reflexivity.
  assert (Nul : forall q, memf q (a_n a) = true -> pt (abort s1 o) q = None /\ pt (abort s2 o) q = None).
  { intros q H. destruct (G q H) as [G1 G2].
    destruct (fld_eqb q (OD, "marker_list"%string)) eqn:Eq.
    - apply fld_eqb_eq in Eq. subst q. destruct o; unfold abort; cbn [pt upd_sc upd_pt]; rewrite ?fld_eqb_refl; auto.
    - apply fld_eqb_neq in Eq. rewrite !pt_abort by assumption. auto. }
  destruct o; cbn [ana].
  - eexists. split; [reflexivity|].
    splitR; cbn [a_c a_d a_s a_p a_n]; try exact Nul; unfold abort; cbn [sc upd_sc]; rewrite ?fld_eqb_refl, ?Hne; auto.
    + intros g Hg. destruct (fld_eqb g gsc); auto.
    + intros q H. apply memf_remove_obj in H. destruct H as [H Hn].
      pose proof (pstat_abort_other s1 OC q Hn) as P1. pose proof (pstat_abort_other s2 OC q Hn) as P2.
      unfold abort in P1, P2. rewrite P1, P2. apply F. assumption.
  - eexists. split; [reflexivity|].
    splitR; cbn [a_c a_d a_s a_p a_n].
    + unfold abort; cbn [sc upd_sc upd_pt]. rewrite Hne'. exact A.
    + unfold abort; cbn [sc upd_sc upd_pt]. rewrite Hne'. exact B.
    + unfold abort; cbn [sc upd_sc upd_pt]. rewrite fld_eqb_refl. reflexivity.
    + unfold abort; cbn [sc upd_sc upd_pt]. rewrite fld_eqb_refl. reflexivity.
    + intros g Hg. unfold abort; cbn [sc upd_sc upd_pt]. destruct (fld_eqb g gsd); auto.
    + intros q H. apply memf_remove_obj in H. destruct H as [H Hn].
      rewrite (pstat_abort_other s1 OD q Hn), (pstat_abort_other s2 OD q Hn). apply F. assumption.
    + intros q H. apply memf_addf in H. destruct H as [->|H]; [split; apply pt_abort_marker_list | apply Nul; exact H].
  - eexists. split; [reflexivity|].
    splitR; cbn [a_c a_d a_s a_p a_n]; try exact Nul; unfold abort; cbn [sc]; auto.
    intros q H. apply memf_remove_obj in H. destruct H as [H Hn].
    pose proof (pstat_abort_other s1 OT q Hn) as P1. pose proof (pstat_abort_other s2 OT q Hn) as P2.
    unfold abort in P1, P2. rewrite P1, P2. apply F. assumption.
Qed.

(* ------------------------------------------------------------ commands *)
Definition sel (k : ctl) (r : ares) : list astate :=
  match k with KNext => r_next r | KHandler => r_hand r | KBailout => r_bail r | KReturn => r_ret r end.

Lemma sel_sub k r r' : rsub r r' -> sub (sel k r) (sel k r').
Proof. intros (A&B&C&D). destruct k; assumption. Qed.

Lemma Rset_one a x1 x2 : RX a x1 x2 -> Rset [a] x1 x2.
Proof. intro H. exists a. split; [left; reflexivity | assumption]. Qed.

Lemma exec_sound en c : forall a r x1 x2,
  ana c a = Some r -> RX a x1 x2 ->
  snd (exec en c x1) = snd (exec en c x2) /\
  xerr (fst (exec en c x1)) = xerr x1 /\ xerr (fst (exec en c x2)) = xerr x2 /\
  Rset (sel (snd (exec en c x1)) r) (fst (exec en c x1)) (fst (exec en c x2)).
Proof.
  induction c as [ | c1 IHc1 c2 IHc2 | f e | p | p | p | p c1 IHc1 c2 IHc2 | e c1 IHc1 c2 IHc2 | o | tag e | | i | t | da alloc ];
    intros a r x1 x2 Ha HX; pose proof HX as (HR & Ho & Hh).
  - (* CSkip *) inversion Ha. subst. cbn. repeat split; auto. apply Rset_one. assumption.
  - (* CSeq *)
    cbn [ana] in Ha. destruct (ana c1 a) as [r1|] eqn:E1; [|discriminate].
    destruct (afold_spec _ _ _ _ Ha) as [Hacc Hall].
    destruct (IHc1 _ _ _ _ E1 HX) as (Hk & He1 & He2 & Hset).
    cbn [exec]. destruct (exec en c1 x1) as [y1 k1] eqn:X1. destruct (exec en c1 x2) as [y2 k2] eqn:X2.
    cbn [fst snd] in *. subst k2.
    destruct k1.
    + destruct Hset as (b & Hb & HXb). destruct (Hall _ Hb) as (rb & Hrb & Hsub).
      destruct (IHc2 _ _ _ _ Hrb HXb) as (Hk' & He1' & He2' & Hset').
      repeat split; [assumption | congruence | congruence |].
      eapply sel_sub; eassumption.
    + cbn [fst snd]. repeat split; auto. destruct Hacc as (_ & B & _ & _). apply B. exact Hset.
    + cbn [fst snd]. repeat split; auto. destruct Hacc as (_ & _ & C & _). apply C. exact Hset.
    + cbn [fst snd]. repeat split; auto. destruct Hacc as (_ & _ & _ & D). apply D. exact Hset.
  - (* CSet *)
    cbn [ana] in Ha. cbn [exec fst snd]. destruct (is_gs f) eqn:Eg.
    + destruct (aeval a e) as [v|] eqn:Ev; [|discriminate]. inversion Ha. subst r.
      destruct (aeval_sound en _ _ _ _ _ HR Ev) as [V1 V2].
      repeat split; auto. apply Rset_one. split; [|split; assumption].
      cbn [xs set_xs]. rewrite V1, V2. apply R_set_gs; assumption.
    + destruct (alldef a (reads e)) eqn:Ed; [|discriminate]. inversion Ha. subst r.
      repeat split; auto. apply Rset_one. split; [|split; assumption].
      cbn [xs set_xs]. apply R_set; [assumption | eapply eval_eq; eassumption | assumption].
  - (* CAlloc *)
    inversion Ha. subst r. cbn [exec fst snd]. repeat split; auto. apply Rset_one.
    split; [|split; assumption]. cbn [xs set_xs]. apply R_alloc. assumption.
  - (* CNull *)
    inversion Ha. subst r. cbn [exec fst snd]. repeat split; auto. apply Rset_one.
    split; [|split; assumption]. cbn [xs set_xs]. apply R_null. assumption.
  - (* CDeref *)
    cbn [ana] in Ha. destruct (memf p (a_p a)) eqn:Em; [|discriminate]. inversion Ha. subst r.
    destruct HR as (A&B&C&D&E&F&G). destruct (F _ Em) as [F1 F2].
    cbn [exec]. rewrite F1, F2. cbn [fst snd]. repeat split; auto. apply Rset_one. assumption.
  - (* CIfNull *)
    cbn [ana] in Ha. destruct HR as (A&B&C&D&E&F&G). cbn [exec].
    destruct (memf p (a_p a)) eqn:Em.
    + destruct (F _ Em) as [F1 F2]. unfold pstat in F1, F2.
      destruct (pt (xs x1) p); [|discriminate]. destruct (pt (xs x2) p); [|discriminate].
      eapply IHc2; [exact Ha | exact HX].
    + destruct (memf p (a_n a)) eqn:En; [|discriminate].
      destruct (G _ En) as [G1 G2]. rewrite G1, G2.
      eapply IHc1; [exact Ha | exact HX].
  - (* CIf *)
    cbn [ana] in Ha. cbn [exec]. destruct (aeval a e) as [v|] eqn:Ev.
    + destruct (aeval_sound en _ _ _ _ _ HR Ev) as [V1 V2]. rewrite V1, V2.
      destruct (Z.eqb v 0); [eapply IHc2 | eapply IHc1]; eassumption.
    + destruct (alldef a (reads e)) eqn:Ed; [|discriminate].
      destruct (ana c1 a) as [r1|] eqn:E1; [|discriminate].
      destruct (ana c2 a) as [r2|] eqn:E2; [|discriminate]. inversion Ha. subst r.
      rewrite (eval_eq en _ _ _ _ HR Ed).
      destruct (Z.eqb (eval en (xs x2) e) 0).
      * destruct (IHc2 _ _ _ _ E2 HX) as (K & A1 & A2 & S). repeat split; auto.
        eapply sel_sub; [apply runion_r | exact S].
      * destruct (IHc1 _ _ _ _ E1 HX) as (K & A1 & A2 & S). repeat split; auto.
        eapply sel_sub; [apply runion_l | exact S].
  - (* CAbort *)
    pose proof (R_abort _ _ _ o HR) as H. rewrite Ha in H. destruct H as (b & Hb & HRb).
    cbn [exec fst snd sel]. rewrite Hb. repeat split; auto. apply Rset_one.
    split; [exact HRb | split; assumption].
  - (* CObs *)
    cbn [ana] in Ha. destruct (alldef a (reads e)) eqn:Ed; [|discriminate]. inversion Ha. subst r.
    cbn [exec fst snd]. repeat split; auto. apply Rset_one. split; [exact HR|]. split; [|assumption].
    cbn [xobs]. rewrite (eval_eq en _ _ _ _ HR Ed), Ho. reflexivity.
  - (* CRaise *)
    inversion Ha. subst r. cbn. repeat split; auto. apply Rset_one. assumption.
  - (* CSetjmp *)
    inversion Ha. subst r. cbn [exec fst snd]. repeat split; auto. apply Rset_one.
    split; [exact HR | split; [exact Ho | reflexivity]].
  - (* CGoto *)
    destruct t; inversion Ha; subst r; cbn; repeat split; auto; apply Rset_one; assumption.
  - (* CDest *)
    cbn [ana] in Ha. destruct (alldef a (reads alloc)) eqn:Ed; [|discriminate]. inversion Ha. subst r.
    cbn [exec fst snd]. repeat split; auto. apply Rset_one. split; [exact HR | split; assumption].
Qed.

(* ------------------------------------------------------------ programs *)
Lemma handlers_spec hs : forall a r,
  fold_right (fun h acc => match acc, ana h a with Some r0, Some r => Some (runion r r0) | _, _ => None end)
             (Some (mkr [] [] [] [])) hs = Some r ->
  forall h, In h hs -> exists rh, ana h a = Some rh /\ rsub rh r.
Proof.
  induction hs as [|h0 t IH]; intros a r H h Hin; [destruct Hin|].
  cbn in H.
  destruct (fold_right _ _ t) as [r0|] eqn:E; [|discriminate].
  destruct (ana h0 a) as [r1|] eqn:E1; [|discriminate]. inversion H. subst r.
  destruct Hin as [->|Hin].
  - exists r1. split; [assumption | apply runion_l].
  - destruct (IH _ _ E _ Hin) as (rh & Hrh & Hs). exists rh. split; [assumption|].
    eapply rsub_trans; [exact Hs | apply runion_r].
Qed.

Lemma Rset_nil x1 x2 : ~ Rset [] x1 x2.
Proof. intros (b & [] & _). Qed.

Definition XR (exits : list astate) (x1 x2 : xstate) : Prop := Rset exits x1 x2.

Lemma nth_In_or_default {A} (n : nat) (l : list A) (d : A) : In (nth n l d) (d :: l).
Proof.
  revert n. induction l as [|a t IH]; intros [|n]; cbn; auto.
  destruct (IH n) as [H|H]; auto.
Qed.

Lemma run_prog_sound en p a exits x1 x2 :
  ana_prog p a = Some exits -> RX a x1 x2 ->
  xerr (run_prog en p x1) = xerr x1 /\ xerr (run_prog en p x2) = xerr x2 /\
  Rset exits (run_prog en p x1) (run_prog en p x2).
Proof.
  unfold ana_prog, run_prog. intros Ha HX.
  destruct (ana (p_body p) a) as [rb|] eqn:Eb; [|discriminate].
  destruct (ana_handlers _ (r_hand rb)) as [rh|] eqn:Eh; [|discriminate].
  destruct (r_hand rh) eqn:Ehh; [|discriminate].
  destruct (afold _ _ _) as [rr|] eqn:Er; [|discriminate].
  destruct (r_hand rr) eqn:Err; [|discriminate]. inversion Ha. subst exits. clear Ha.
  destruct (exec_sound en _ _ _ _ _ Eb HX) as (Hk & He1 & He2 & Hset).
  destruct (exec en (p_body p) x1) as [y1 k1]. destruct (exec en (p_body p) x2) as [y2 k2].
  cbn [fst snd] in *. subst k2.
  destruct (afold_spec _ _ _ _ Er) as [_ Hbail].
  (* running the bailout block from related states that are in to_bail *)
  assert (Bail : forall z1 z2 l,
             sub l (aunion (r_next rb) (aunion (r_bail rb) (aunion (r_next rh) (r_bail rh)))) ->
             Rset l z1 z2 ->
             xerr (fst (exec en (p_bailout p) z1)) = xerr z1 /\ xerr (fst (exec en (p_bailout p) z2)) = xerr z2 /\
             Rset (aunion (r_ret rb) (aunion (r_ret rh) (aunion (r_next rr) (aunion (r_bail rr) (r_ret rr)))))
                  (fst (exec en (p_bailout p) z1)) (fst (exec en (p_bailout p) z2))).
  { intros z1 z2 l Hl Hz. apply Hl in Hz. destruct Hz as (b & Hb & HXb).
    destruct (Hbail _ Hb) as (r0 & Hr0 & Hs0).
    destruct (exec_sound en _ _ _ _ _ Hr0 HXb) as (K & A1 & A2 & S).
    repeat split; auto.
    apply (sel_sub _ _ _ Hs0) in S.
    destruct (snd (exec en (p_bailout p) z1)); cbn [sel] in S.
    - apply aunion_r, aunion_r, aunion_l. exact S.
    - rewrite Err in S. destruct (Rset_nil _ _ S).
    - apply aunion_r, aunion_r, aunion_r, aunion_l. exact S.
    - apply aunion_r, aunion_r, aunion_r, aunion_r. exact S. }
  destruct k1; cbn [sel] in Hset.
  - (* fell through *)
    destruct (Bail y1 y2 (r_next rb) (aunion_l _ _) Hset) as (A1 & A2 & S).
    repeat split; [congruence | congruence | exact S].
  - (* handler *)
    destruct Hset as (b & Hb & HXb).
    unfold ana_handlers in Eh. destruct (afold_spec _ _ _ _ Eh) as [_ Hh].
    destruct (Hh _ Hb) as (r0 & Hr0 & Hs0).
    destruct HXb as (HRb & Hob & Hhb).
    pose proof (nth_In_or_default (xh y1) (p_handlers p) (CGoto TBailout)) as Hin.
    destruct (handlers_spec _ _ _ Hr0 _ Hin) as (r1 & Hr1 & Hs1).
    assert (HXb : RX b y1 y2) by (apply mkRX; assumption).
    destruct (exec_sound en _ _ _ _ _ Hr1 HXb) as (K & A1 & A2 & S).
    rewrite <- Hhb.
    destruct (exec en (nth (xh y1) (p_handlers p) (CGoto TBailout)) y1) as [w1 j1].
    destruct (exec en (nth (xh y1) (p_handlers p) (CGoto TBailout)) y2) as [w2 j2].
    cbn [fst snd] in *. subst j2.
    apply (sel_sub _ _ _ Hs1) in S. apply (sel_sub _ _ _ Hs0) in S.
    destruct j1; cbn [sel] in S.
    + destruct (Bail w1 w2 (r_next rh)) as (B1 & B2 & S'); [| exact S |].
      { eapply sub_trans; [|apply aunion_r]. eapply sub_trans; [|apply aunion_r]. apply aunion_l. }
      repeat split; [congruence | congruence | exact S'].
    + rewrite Ehh in S. destruct (Rset_nil _ _ S).
    + destruct (Bail w1 w2 (r_bail rh)) as (B1 & B2 & S'); [| exact S |].
      { eapply sub_trans; [|apply aunion_r]. eapply sub_trans; [|apply aunion_r]. apply aunion_r. }
      repeat split; [congruence | congruence | exact S'].
    + repeat split; [congruence | congruence |]. apply aunion_r, aunion_l. exact S.
  - (* goto bailout *)
    destruct (Bail y1 y2 (r_bail rb)) as (A1 & A2 & S); [| exact Hset |].
    { eapply sub_trans; [|apply aunion_r]. apply aunion_l. }
    repeat split; [congruence | congruence | exact S].
  - (* return *)
    repeat split; auto. apply aunion_l. exact Hset.
Qed.
