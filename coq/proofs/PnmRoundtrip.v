(* C18 -- tj3SaveImage* (wrppm.c) followed by tj3LoadImage* (rdppm.c) is the
   identity on the samples the file format stores, for every precision 2..16. *)
From Coq Require Import List ZArith Lia Bool ZifyBool.
From LJT Require Import lib.Sweep gen.GenPnm model.Pnm proofs.PnmProofs.
Import ListNotations.
Local Open Scope Z_scope.
Ltac Zify.zify_post_hook ::= Z.div_mod_to_equations.

Lemma g_hi_first : word_hi_first = true. Proof. reflexivity. Qed.

(* ------------------------------------------------- decimal header fields *)
Definition eval_digits (val : Z) (ds : list Z) : Z := fold_left (fun a d => a * 10 + (d - 48)) ds val.

Definition dec_good (n : Z) : bool :=
  match dec n with
  | [] => false
  | d0 :: ds => forallb is_digit (d0 :: ds) && (eval_digits (d0 - 48) ds =? n)
  end.

(* T1-finite: the reader accepts header fields up to 65535 only *)
Lemma dec_good_all : sweep dec_good 0 65536 = true.
Proof. vm_compute. reflexivity. Qed.

Lemma dec_shape n : 0 <= n <= 65535 ->
  exists d0 ds, dec n = d0 :: ds /\ Forall (fun d => is_digit d = true) (d0 :: ds) /\ eval_digits (d0 - 48) ds = n.
Proof.
  intro H. pose proof (sweep_sound _ _ _ dec_good_all n ltac:(lia)) as G.
  unfold dec_good in G. destruct (dec n) as [|d0 ds]; [discriminate|].
  apply andb_true_iff in G. destruct G as [G1 G2].
  exists d0, ds. split; [reflexivity|]. split; [|lia].
  apply Forall_forall. intros x Hx. rewrite forallb_forall in G1. auto.
Qed.

Lemma eval_digits_ge val ds : 0 <= val -> Forall (fun d => is_digit d = true) ds -> val <= eval_digits val ds.
Proof.
  revert val. induction ds as [|d ds IH]; intros val Hv Hd; cbn [eval_digits fold_left]; [lia|].
  inversion Hd; subst. unfold is_digit in H1.
  etransitivity; [|apply IH; auto; lia]. lia.
Qed.

Lemma pbm_getc_plain c t : c <> 35 -> pbm_getc (c :: t) = (Some c, t).
Proof. intro H. cbn [pbm_getc]. replace (c =? 35) with false by lia. reflexivity. Qed.

Lemma read_digits_run ds : forall val fuel sep rest maxval,
  Forall (fun d => is_digit d = true) ds -> is_digit sep = false -> sep <> 35 ->
  (length (ds ++ sep :: rest) < fuel)%nat ->
  0 <= val -> eval_digits val ds <= maxval -> maxval <= 65535 ->
  read_digits fuel val maxval (ds ++ sep :: rest) = Ok (eval_digits val ds, rest).
Proof.
  induction ds as [|d ds IH]; intros val fuel sep rest maxval Hd Hs H35 Hf Hv He Hm;
    (destruct fuel as [|f]; [cbn in Hf; lia|]); cbn [read_digits app].
  - rewrite pbm_getc_plain by auto. rewrite Hs, g_after_loop. cbn [andb eval_digits fold_left] in *.
    replace (val >? maxval) with false by lia. reflexivity.
  - inversion Hd; subst. pose proof H1 as Dd. unfold is_digit in Dd.
    rewrite pbm_getc_plain by lia. rewrite H1.
    cbn [eval_digits fold_left] in He. fold (eval_digits (val * 10 + (d - 48)) ds) in He.
    pose proof (eval_digits_ge (val * 10 + (d - 48)) ds ltac:(lia) H2) as Ge.
    rewrite (u32_id (val * 10)) by lia. rewrite u32_id by lia.
    rewrite g_in_loop. cbn [andb]. replace (val * 10 + (d - 48) >? maxval) with false by lia.
    cbn [eval_digits fold_left]. apply IH; auto; try lia. cbn [length app] in Hf. lia.
Qed.

Lemma skip_ws_nl fuel s : skip_ws (S fuel) (10 :: s) = skip_ws fuel s.
Proof. cbn [skip_ws]. rewrite pbm_getc_plain by lia. reflexivity. Qed.

Lemma skip_ws_digit fuel d s : is_digit d = true -> skip_ws (S fuel) (d :: s) = Ok (d, s).
Proof.
  intro D. unfold is_digit in D. cbn [skip_ws]. rewrite pbm_getc_plain by lia.
  unfold is_ws. replace ((d =? 32) || (d =? 9) || (d =? 10) || (d =? 13)) with false by lia. reflexivity.
Qed.

(* a decimal field followed by a blank or newline parses back; one leading newline allowed *)
Lemma read_int_dec0 n sep rest : 0 <= n <= 65535 -> sep = 32 \/ sep = 10 ->
  read_pbm_integer 65535 (dec n ++ sep :: rest) = Ok (n, rest).
Proof.
  intros Hn Hs. destruct (dec_shape n Hn) as (d0 & ds & -> & Fd & Ev).
  inversion Fd; subst. unfold read_pbm_integer.
  assert (Hsep : is_digit sep = false) by (unfold is_digit; lia).
  assert (H35 : sep <> 35) by lia.
  cbn [app length]. rewrite skip_ws_digit by auto. cbn [bind]. rewrite H1. cbn [negb].
  apply read_digits_run; auto; try lia. unfold is_digit in H1. lia.
Qed.

Lemma read_int_dec_nl n sep rest : 0 <= n <= 65535 -> sep = 32 \/ sep = 10 ->
  read_pbm_integer 65535 (10 :: dec n ++ sep :: rest) = Ok (n, rest).
Proof.
  intros Hn Hs. destruct (dec_shape n Hn) as (d0 & ds & -> & Fd & Ev).
  inversion Fd; subst. unfold read_pbm_integer.
  assert (Hsep : is_digit sep = false) by (unfold is_digit; lia).
  assert (H35 : sep <> 35) by lia.
  cbn [app length]. rewrite skip_ws_nl. rewrite skip_ws_digit by auto. cbn [bind]. rewrite H1. cbn [negb].
  apply read_digits_run; auto; try lia. unfold is_digit in H1. lia.
Qed.

(* ------------------------------------------------------------- samples *)
Section RT.
  Variable cmyk : Z -> Z -> Z -> Z -> list Z.
  Variable uncmyk : Z -> Z -> Z -> Z -> Z -> (Z * Z * Z).
  Variable look : Z -> Z -> Z -> res Z.
  Hypothesis Hlook : look_ok look.
  Variable prec : Z.
  Hypothesis Hprec : 2 <= prec <= 16.

  Let M := maxsample prec.

  Lemma M_bounds : 3 <= M <= 65535 /\ (prec <= 8 -> M <= 255) /\ (8 < prec -> 511 <= M) /\ (M = 255 <-> prec = 8).
  Proof.
    unfold M, maxsample, two_p.
    assert (prec = 2 \/ prec = 3 \/ prec = 4 \/ prec = 5 \/ prec = 6 \/ prec = 7 \/ prec = 8 \/ prec = 9 \/
            prec = 10 \/ prec = 11 \/ prec = 12 \/ prec = 13 \/ prec = 14 \/ prec = 15 \/ prec = 16) as C by lia.
    repeat (destruct C as [-> | C]); try subst prec; cbn; lia.
  Qed.

  Definition wkind : skind := if prec <=? 8 then KByte else KWord.

  Lemma look_identity v : 0 <= v <= M -> look prec M v = Ok v.
  Proof.
    intro Hv. rewrite Hlook. pose proof M_bounds as (Mb & _).
    destruct (look_fn_in prec M v ltac:(lia) ltac:(lia) ltac:(lia)) as (x & -> & _ & ->).
    unfold table_entry. rewrite g_incl. replace (v <=? M) with true by lia.
    f_equal. apply rescale_val_identity; fold M; lia.
  Qed.

  (* one sample written by PUTPPMSAMPLE is read back unchanged *)
  Lemma sample_rt t v rest : 0 <= v <= M ->
    get_sample look prec wkind (is_fast prec wkind t M) M (put_sample prec v ++ rest) = Ok (v, rest).
  Proof.
    intro Hv. pose proof M_bounds as (Mb & Mlo & Mhi & M8).
    unfold get_sample, put_sample, wkind.
    destruct (prec <=? 8) eqn:P8.
    - specialize (Mlo ltac:(lia)). cbn [app get_raw bind].
      rewrite Z.mod_small by lia.
      destruct (is_fast prec KByte t M); [reflexivity|]. rewrite look_identity by lia. reflexivity.
    - specialize (Mhi ltac:(lia)). rewrite g_hi_first. cbn [app get_raw bind].
      rewrite g_word. cbn [andb].
      replace (v / 256 mod 256 * 256 + v mod 256) with v by lia.
      replace (v >? M) with false by lia. cbn [is_fast bind].
      rewrite look_identity by lia. reflexivity.
  Qed.

  Definition whdr (t : target) (w h : Z) : pnm_hdr :=
    {| h_rgb := match t with TGray => false | _ => true end; h_kind := wkind; h_w := w; h_h := h; h_max := M |}.

  Definition canon_px (t : target) (px : list Z) : list Z :=
    match t with
    | TGray => [nthz px 0]
    | TRgb l => mk_pixel l (nthz px (l_r l)) (nthz px (l_g l)) (nthz px (l_b l)) M
    | TCmyk => px
    end.

  Fixpoint canon_row (t : target) (n : nat) (row : list Z) : list Z :=
    match n with
    | O => []
    | S m => let ps := Z.to_nat (target_ps t) in
             canon_px t (firstn ps row) ++ canon_row t m (skipn ps row)
    end.

  Definition sample_ok (x : Z) : Prop := 0 <= x <= M.

  Lemma nthz_ok px i : Forall sample_ok px -> sample_ok (nthz px i).
  Proof.
    intro F. unfold nthz. destruct (nth_in_or_default (Z.to_nat i) px 0) as [I| ->].
    - rewrite Forall_forall in F. auto.
    - unfold sample_ok. pose proof M_bounds. lia.
  Qed.

  Lemma pixel_rt t px rest : t <> TCmyk -> Forall sample_ok px ->
    read_pixel cmyk look prec (whdr t 0 0) t (is_fast prec wkind t M) (write_pixel uncmyk prec t px ++ rest)
    = Ok (canon_px t px, rest).
  Proof.
    intros Ht F. unfold read_pixel, write_pixel, whdr. cbn [h_rgb h_kind h_max].
    destruct t as [|l|]; [| |congruence].
    - rewrite sample_rt by (apply nthz_ok; auto). reflexivity.
    - rewrite <- !app_assoc.
      rewrite sample_rt by (apply nthz_ok; auto). cbn [bind].
      rewrite sample_rt by (apply nthz_ok; auto). cbn [bind].
      rewrite sample_rt by (apply nthz_ok; auto). cbn [bind]. reflexivity.
  Qed.

  Lemma read_pixel_hdr_irrel hd1 hd2 t f s :
    h_rgb hd1 = h_rgb hd2 -> h_kind hd1 = h_kind hd2 -> h_max hd1 = h_max hd2 ->
    read_pixel cmyk look prec hd1 t f s = read_pixel cmyk look prec hd2 t f s.
  Proof. intros A B C. unfold read_pixel. rewrite A, B, C. reflexivity. Qed.

  Lemma Forall_firstn {A} (P : A -> Prop) n l : Forall P l -> Forall P (firstn n l).
  Proof. revert l. induction n; intros [|a l] H; cbn [firstn]; auto. inversion H; subst. constructor; auto. Qed.
  Lemma Forall_skipn {A} (P : A -> Prop) n l : Forall P l -> Forall P (skipn n l).
  Proof. revert l. induction n; intros [|a l] H; cbn [skipn]; auto. inversion H; subst. auto. Qed.

  Lemma pixels_rt t w h n : forall row rest, t <> TCmyk -> Forall sample_ok row ->
    read_pixels cmyk look prec (whdr t w h) t (is_fast prec wkind t M) n (write_row uncmyk prec t n row ++ rest)
    = Ok (canon_row t n row, rest).
  Proof.
    induction n as [|n IH]; intros row rest Ht F; cbn [read_pixels write_row canon_row]; [reflexivity|].
    rewrite <- app_assoc.
    rewrite (read_pixel_hdr_irrel (whdr t w h) (whdr t 0 0)) by reflexivity.
    rewrite pixel_rt by (auto using Forall_firstn). cbn [bind].
    rewrite IH by (auto using Forall_skipn). reflexivity.
  Qed.

  (* length of one written row = buffer_width of the header the reader builds *)
  Lemma put_sample_length v : length (put_sample prec v) = bytes_per wkind.
  Proof. unfold put_sample, wkind, bytes_per. rewrite g_hi_first. destruct (prec <=? 8); reflexivity. Qed.

  Lemma write_pixel_length t px : t <> TCmyk ->
    length (write_pixel uncmyk prec t px) = (src_comps (whdr t 0 0) * bytes_per wkind)%nat.
  Proof.
    intro Ht. unfold write_pixel, src_comps, whdr. cbn [h_rgb].
    destruct t; [| |congruence]; rewrite ?app_length, !put_sample_length; lia.
  Qed.

  Lemma write_row_length t n row : t <> TCmyk ->
    length (write_row uncmyk prec t n row) = (n * (src_comps (whdr t 0 0) * bytes_per wkind))%nat.
  Proof.
    intro Ht. revert row. induction n as [|n IH]; intro row; cbn [write_row]; [reflexivity|].
    rewrite app_length, write_pixel_length, IH by auto. lia.
  Qed.

  Lemma take_exact_app a r : take_exact (length a) (a ++ r) = Some (a, r).
  Proof. induction a as [|c a IH]; cbn [take_exact length app]; [reflexivity|]. rewrite IH. reflexivity. Qed.

  Lemma row_rt t w h row rest : t <> TCmyk -> 1 <= w <= 65535 -> Forall sample_ok row ->
    read_row cmyk look prec (whdr t w h) t (write_row uncmyk prec t (Z.to_nat w) row ++ rest)
    = Ok (canon_row t (Z.to_nat w) row, rest).
  Proof.
    intros Ht Hw F. unfold read_row. cbn [h_kind h_max whdr].
    assert (HK : wkind <> KText) by (unfold wkind; destruct (prec <=? 8); discriminate).
    assert (BW : Z.to_nat (buffer_width (whdr t w h)) = length (write_row uncmyk prec t (Z.to_nat w) row)).
    { rewrite write_row_length by auto. unfold buffer_width, src_comps, bytes_per, whdr. cbn [h_w h_rgb h_kind].
      destruct t; [| |congruence]; destruct wkind; lia. }
    destruct wkind eqn:K; [congruence| |].
    - fold (whdr t w h). rewrite BW, take_exact_app. rewrite <- K.
      rewrite <- (app_nil_r (write_row _ _ _ _ _)). rewrite pixels_rt by auto. reflexivity.
    - fold (whdr t w h). rewrite BW, take_exact_app. rewrite <- K.
      rewrite <- (app_nil_r (write_row _ _ _ _ _)). rewrite pixels_rt by auto. reflexivity.
  Qed.

  Lemma rows_rt t w h rows : t <> TCmyk -> 1 <= w <= 65535 -> Forall (Forall sample_ok) rows ->
    read_rows cmyk look prec (whdr t w h) t (length rows) (flat_map (write_row uncmyk prec t (Z.to_nat w)) rows)
    = Ok (map (canon_row t (Z.to_nat w)) rows).
  Proof.
    intros Ht Hw. induction rows as [|row rows IH]; intro F; cbn [read_rows flat_map length map]; [reflexivity|].
    inversion F; subst. rewrite row_rt by auto. cbn [bind]. rewrite IH by auto. reflexivity.
  Qed.

  Lemma header_rt t w h data : t <> TCmyk -> 1 <= w <= 65535 -> 1 <= h <= 65535 ->
    read_header 0 (ppm_header prec t w h ++ data) = Ok (whdr t w h, data).
  Proof.
    intros Ht Hw Hh. pose proof M_bounds as (Mb & Mlo & Mhi & _).
    unfold ppm_header.
    set (c := match t with TGray => 53 | _ => 54 end).
    assert (E : ([80; c; 10] ++ dec w ++ [32] ++ dec h ++ [10] ++ dec (maxsample prec) ++ [10]) ++ data
                = 80 :: c :: 10 :: dec w ++ 32 :: (dec h ++ 10 :: (dec (maxsample prec) ++ 10 :: data))).
    { repeat (rewrite <- app_assoc; cbn [app]). reflexivity. }
    rewrite E. clear E. unfold read_header.
    assert (Hc : (c =? 50) || (c =? 51) || (c =? 53) || (c =? 54) = true) by (subst c; destruct t; reflexivity).
    rewrite Hc. rewrite g_limit.
    rewrite (read_int_dec_nl w 32) by (auto; lia). cbn [bind].
    rewrite (read_int_dec0 h 10) by (auto; lia). cbn [bind].
    rewrite (read_int_dec0 (maxsample prec) 10) by (fold M; auto; lia). cbn [bind].
    fold M. replace ((w <=? 0) || (h <=? 0) || (M <=? 0)) with false by lia.
    cbn [negb Z.eqb andb]. unfold whdr, wkind. f_equal. f_equal.
    assert (Hrgb : (c =? 51) || (c =? 54) = match t with TGray => false | _ => true end)
      by (subst c; destruct t; reflexivity).
    assert (Htxt : (c =? 50) || (c =? 51) = false) by (subst c; destruct t; reflexivity).
    rewrite Hrgb, Htxt.
    destruct (prec <=? 8) eqn:P8.
    - specialize (Mlo ltac:(lia)). replace (M >? 255) with false by lia. reflexivity.
    - specialize (Mhi ltac:(lia)). replace (M >? 255) with true by lia. reflexivity.
  Qed.

  (* load (save img) = img up to the samples the format does not store *)
  Theorem save_load_roundtrip t bottomup w h rows :
    t <> TCmyk -> 1 <= w <= 65535 -> 1 <= h <= 65535 ->
    length rows = Z.to_nat h -> Forall (Forall sample_ok) rows ->
    load_pnm cmyk look prec 0 (Some t) bottomup (save_pnm uncmyk prec t bottomup w h rows)
    = Ok (w, h, t, map (canon_row t (Z.to_nat w)) rows).
  Proof.
    intros Ht Hw Hh Hl F. unfold load_pnm, save_pnm.
    rewrite header_rt by auto. cbn [bind].
    assert (RT : resolve_target (whdr t w h) (Some t) = Ok t) by (destruct t; [reflexivity|reflexivity|congruence]).
    rewrite RT. cbn [bind h_h h_w whdr].
    fold (whdr t w h).
    destruct bottomup.
    - rewrite <- Hl, <- rev_length. rewrite rows_rt by (auto; apply Forall_rev; auto). cbn [bind].
      rewrite <- map_rev, rev_involutive. reflexivity.
    - rewrite <- Hl. rewrite rows_rt by auto. reflexivity.
  Qed.
End RT.

(* ------------------------------------------- what canon_row leaves untouched *)
Lemma canon_row_gray prec n row : length row = n -> canon_row prec TGray n row = row.
Proof.
  revert row. induction n as [|n IH]; intros row H; cbn [canon_row].
  - destruct row; [reflexivity|discriminate].
  - destruct row as [|x row]; [discriminate|].
    change (Z.to_nat (target_ps TGray)) with 1%nat. cbn [firstn skipn canon_px app].
    unfold nthz. cbn [Z.to_nat nth]. rewrite IH by (cbn in H; lia). reflexivity.
Qed.

Definition lay_rgb : layout := {| l_r := 0; l_g := 1; l_b := 2; l_a := -1; l_ps := 3 |}.
Definition lay_bgr : layout := {| l_r := 2; l_g := 1; l_b := 0; l_a := -1; l_ps := 3 |}.

Lemma layouts_from_source :
  layout_of_pf 0 = Some (TRgb lay_rgb) /\ layout_of_pf 1 = Some (TRgb lay_bgr) /\ layout_of_pf 6 = Some TGray.
Proof. repeat split. Qed.

Lemma canon_row_3 prec l n row : l = lay_rgb \/ l = lay_bgr -> length row = (n * 3)%nat ->
  canon_row prec (TRgb l) n row = row.
Proof.
  intros Hl. revert row. induction n as [|n IH]; intros row H; cbn [canon_row].
  - destruct row; [reflexivity|discriminate].
  - destruct row as [|x [|y [|z row]]]; try (cbn in H; lia).
    assert (Hps : Z.to_nat (target_ps (TRgb l)) = 3%nat) by (destruct Hl as [-> | ->]; reflexivity).
    rewrite Hps. cbn [firstn skipn]. rewrite IH by (cbn in H; lia).
    destruct Hl as [-> | ->]; reflexivity.
Qed.

(* 4-sample layouts: the red, green and blue samples come back, alpha comes back opaque *)
Definition layout_wf (l : layout) : Prop :=
  0 <= l_r l < l_ps l /\ 0 <= l_g l < l_ps l /\ 0 <= l_b l < l_ps l /\
  l_r l <> l_g l /\ l_r l <> l_b l /\ l_g l <> l_b l /\
  (l_a l = -1 \/ (0 <= l_a l < l_ps l /\ l_a l <> l_r l /\ l_a l <> l_g l /\ l_a l <> l_b l)).

Lemma zseq_nth lo n k d : (k < n)%nat -> nth k (zseq lo n) d = lo + Z.of_nat k.
Proof.
  intro H. pose proof (zseq_nth_error lo n k H) as E.
  apply nth_error_nth with (d := d) in E. exact E.
Qed.

Lemma mk_pixel_nth l r g b a i : 0 <= i < l_ps l ->
  nthz (mk_pixel l r g b a) i =
  if i =? l_r l then r else if i =? l_g l then g else if i =? l_b l then b else if i =? l_a l then a else 0.
Proof.
  intro Hi. unfold nthz, mk_pixel.
  apply nth_error_nth. rewrite nth_error_map, zseq_nth_error by lia. cbn [option_map].
  replace (0 + Z.of_nat (Z.to_nat i)) with i by lia. reflexivity.
Qed.

Lemma canon_px_rgb prec l px : layout_wf l ->
  nthz (canon_px prec (TRgb l) px) (l_r l) = nthz px (l_r l) /\
  nthz (canon_px prec (TRgb l) px) (l_g l) = nthz px (l_g l) /\
  nthz (canon_px prec (TRgb l) px) (l_b l) = nthz px (l_b l) /\
  (l_a l <> -1 -> nthz (canon_px prec (TRgb l) px) (l_a l) = maxsample prec).
Proof.
  intros (Hr & Hg & Hb & Nrg & Nrb & Ngb & Ha). cbn [canon_px].
  repeat split.
  - rewrite mk_pixel_nth by lia. rewrite Z.eqb_refl. reflexivity.
  - rewrite mk_pixel_nth by lia. replace (l_g l =? l_r l) with false by lia. rewrite Z.eqb_refl. reflexivity.
  - rewrite mk_pixel_nth by lia. replace (l_b l =? l_r l) with false by lia.
    replace (l_b l =? l_g l) with false by lia. rewrite Z.eqb_refl. reflexivity.
  - intro Hna. destruct Ha as [Ha|Ha]; [congruence|].
    rewrite mk_pixel_nth by lia. replace (l_a l =? l_r l) with false by lia.
    replace (l_a l =? l_g l) with false by lia. replace (l_a l =? l_b l) with false by lia.
    rewrite Z.eqb_refl. reflexivity.
Qed.

(* every RGB-family layout of the current source is well formed *)
Definition layout_wf_b (l : layout) : bool :=
  (0 <=? l_r l) && (l_r l <? l_ps l) && (0 <=? l_g l) && (l_g l <? l_ps l) && (0 <=? l_b l) && (l_b l <? l_ps l) &&
  negb (l_r l =? l_g l) && negb (l_r l =? l_b l) && negb (l_g l =? l_b l) &&
  ((l_a l =? -1) || ((0 <=? l_a l) && (l_a l <? l_ps l) && negb (l_a l =? l_r l) && negb (l_a l =? l_g l) && negb (l_a l =? l_b l))).

Lemma layout_wf_b_sound l : layout_wf_b l = true -> layout_wf l.
Proof. unfold layout_wf_b, layout_wf. intro H. lia. Qed.

Definition pf_wf (pf : Z) : bool :=
  match layout_of_pf pf with Some (TRgb l) => layout_wf_b l | _ => true end.

Lemma pf_wf_all : sweep pf_wf 0 12 = true.
Proof. vm_compute. reflexivity. Qed.

Lemma source_layouts_wf pf l : layout_of_pf pf = Some (TRgb l) -> layout_wf l.
Proof.
  intro H. apply layout_wf_b_sound.
  destruct (Z_lt_le_dec pf 0) as [Neg|Pos].
  - unfold layout_of_pf in H. replace (Z.to_nat pf) with 0%nat in H by lia.
    cbn [nth_error pf_layouts] in H. replace (pf =? 6) with false in H by lia.
    replace (pf =? 11) with false in H by lia. inversion H; subst. reflexivity.
  - destruct (Z_lt_le_dec pf 12) as [Lt|Ge].
    + pose proof (sweep_sound _ _ _ pf_wf_all pf ltac:(lia)) as W. unfold pf_wf in W. rewrite H in W. exact W.
    + unfold layout_of_pf in H.
      assert (nth_error pf_layouts (Z.to_nat pf) = None) as E by (apply nth_error_None; cbn [length pf_layouts]; lia).
      rewrite E in H. discriminate.
Qed.
