(* DCoefPosProofs.v -- the positions model/DCoefPos.v forms (compared at run time with the real consume_data) are inside
   the virtual arrays of model/DCoef.v. *)
From Coq Require Import List ZArith Bool Lia ZifyBool.
From LJT Require Import gen.GenLimits model.Huff model.DMarkers model.DCoef model.DCoefPos proofs.DMarkersProofs proofs.DCoefProofs.
Import ListNotations.
Local Open Scope Z_scope.

Definition pos_in_array (W H mh mv h v : Z) (p : Z * Z * Z) : Prop :=
  0 <= snd (fst p) < varr_rows H v mv /\ 0 <= snd p < varr_cols W h mh.

Lemma comp_positions_in_array W H mh mv r m ci h v : 1 <= W -> 1 <= H -> 1 <= h <= mh -> 1 <= v <= mv ->
  0 <= r < total_iMCU_rows H mv -> 0 <= m < interleaved_mcus_per_row W mh ->
  Forall (pos_in_array W H mh mv h v) (comp_positions r 0 m (ci, h, v)).
Proof.
  intros HW HH Hh Hv Hr Hm. unfold comp_positions.
  destruct (coef_index_safe_ W H mh mv HW HH ltac:(lia) ltac:(lia) h v Hh Hv) as (R & C & _).
  apply Forall_forall. intros p Hp. apply in_flat_map in Hp. destruct Hp as (y & Hy & Hp).
  apply in_map_iff in Hp. destruct Hp as (x & <- & Hx). apply in_seq in Hy. apply in_seq in Hx.
  unfold pos_in_array, block_row; cbn [fst snd].
  destruct (R r Hr) as [R1 R2]. unfold window_last_row in R2.
  destruct (C m (Z.of_nat x) (Z.of_nat y) Hm ltac:(lia) ltac:(lia)) as [_ C2]. split; [nia|exact C2].
Qed.

Lemma single_position_in_array W H mh mv r yoff m ci h v : 1 <= W -> 1 <= H -> 1 <= h <= mh -> 1 <= v <= mv ->
  0 <= r < total_iMCU_rows H mv -> 0 <= yoff < v -> 0 <= m < wib W h mh ->
  Forall (pos_in_array W H mh mv h v) (mcu_positions false r yoff m [(ci, h, v)]).
Proof.
  intros HW HH Hh Hv Hr Hy Hm. cbn [mcu_positions].
  destruct (coef_index_safe_ W H mh mv HW HH ltac:(lia) ltac:(lia) h v Hh Hv) as (R & _ & S).
  destruct (R r Hr) as [R1 R2]. unfold window_last_row in R2.
  destruct (S m yoff Hm Hy) as [_ S2].
  constructor; [|constructor]. unfold pos_in_array, block_row; cbn [fst snd]. split; [nia|exact S2].
Qed.
