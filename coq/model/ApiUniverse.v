(* C12 -- the universe of exported TurboJPEG functions (turbojpeg.h, via the translator) against the
   operation kinds of the model: every exported function is
     - the subject of a kind (modelled),
     - a life-cycle function (creates / destroys the instance),
     - stateless w.r.t. the instance (no libjpeg call, assigns no member, calls only such functions), or
     - a delegating wrapper (no libjpeg call of its own, assigns only parameter members / processFlags, and
       every exported function it calls is classified).
   No proofs in this file. *)
From Coq Require Import List ZArith String Bool.
From LJT Require Import gen.GenErrPaths model.ApiState model.ApiOps.
Import ListNotations.
Local Open Scope string_scope.

Definition all_kinds : list opk :=
  [KSet; KSetScaling; KSetCrop; KSetICC; KCompress B8; KCompress B12; KCompress B16; KCompressYUV; KEncodeYUV;
   KGetICC; KTransformBufSize; KHeader true true; KHeader true false; KHeader false true; KHeader false false;
   KDecompressYUV true true; KDecompressYUV true false; KDecompressYUV false true; KDecompressYUV false false;
   KDecodeYUV true; KDecodeYUV false; KTransform true true; KTransform true false; KTransform false true; KTransform false false;
   KLegacyCompress; KLegacyDecompress true true; KLegacyDecompress true false; KLegacyDecompress false true;
   KLegacyDecompress false false; KLegacyTransform true; KLegacyTransform false;
   KLegacyDecompressYUV true; KLegacyDecompressYUV false;
   KLoadImage B8; KLoadImage B12; KLoadImage B16; KSaveImage B8; KSaveImage B12; KSaveImage B16] ++
  flat_map (fun b => flat_map (fun s => flat_map (fun c => map (fun m => KDecompress b s c m) [true; false]) [true; false]) [true; false])
           [B8; B12; B16].

(* the exported function(s) a kind is the model of *)
Definition kind_functions (k : opk) : list string :=
  match k with
  | KSet => ["tj3Set"]
  | KSetScaling => ["tj3SetScalingFactor"]
  | KSetCrop => ["tj3SetCroppingRegion"]
  | KSetICC => ["tj3SetICCProfile"]
  | KCompress b => [cname b]
  | KCompressYUV => ["tj3CompressFromYUV8"; "tj3CompressFromYUVPlanes8"]
  | KEncodeYUV => ["tj3EncodeYUV8"; "tj3EncodeYUVPlanes8"]
  | KHeader _ _ => ["tj3DecompressHeader"; "tjDecompressHeader3"]
  | KDecompress b _ _ _ => [dname b]
  | KDecompressYUV _ false => ["tj3DecompressToYUV8"]
  | KDecompressYUV _ true => ["tj3DecompressToYUVPlanes8"]
  | KDecodeYUV _ => ["tj3DecodeYUV8"; "tj3DecodeYUVPlanes8"]
  | KGetICC => ["tj3GetICCProfile"]
  | KTransformBufSize => ["tj3TransformBufSize"]
  | KTransform _ _ => ["tj3Transform"]
  | KLegacyCompress => ["tjCompress2"]
  | KLegacyDecompress _ _ => ["tjDecompress2"]
  | KLegacyTransform _ => ["tjTransform"]
  | KLegacyDecompressYUV _ => ["tjDecompressToYUV2"; "tjDecompressToYUVPlanes"]
  | KLoadImage b => [lname b]
  | KSaveImage b => [sname b]
  end.

Fixpoint smem (x : string) (l : list string) : bool :=
  match l with [] => false | y :: t => String.eqb x y || smem x t end.

Definition modelled_functions : list string := flat_map kind_functions all_kinds.
Definition lifecycle_functions : list string := ["tj3Init"; "tj3Destroy"].
Definition param_members : list string := "processFlags" :: map p_field tj3set_table.

Inductive fclass := Modelled | Lifecycle | Stateless | Delegating | Unclassified.

(* classification with fuel (the call graph of the wrappers is a few levels deep) *)
Fixpoint classify (fuel : nat) (n : string) : fclass :=
  if smem n modelled_functions then Modelled
  else if smem n lifecycle_functions then Lifecycle
  else match fuel with
       | O => Unclassified
       | S fuel' =>
           match find_fn n api_functions with
           | None => Unclassified
           | Some f =>
               if fn_libjpeg f then Unclassified
               else
                 let cs := map (classify fuel') (fn_calls f) in
                 let known := forallb (fun c => match c with Unclassified => false | _ => true end) cs in
                 let all_stateless := forallb (fun c => match c with Stateless => true | _ => false end) cs in
                 match fn_writes f with
                 | [] => if all_stateless then Stateless else if known then Delegating else Unclassified
                 | ws => if forallb (fun w => smem w param_members) ws && known then Delegating else Unclassified
                 end
           end
       end.

Definition universe_ok : bool :=
  forallb (fun n => match classify 8 n with Unclassified => false | _ => true end) exported_functions &&
  forallb (fun n => smem n exported_functions) (modelled_functions ++ lifecycle_functions).
Definition classes : list (string * fclass) := map (fun n => (n, classify 8 n)) exported_functions.
