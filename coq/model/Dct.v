(* C07 -- executable model of the accurate integer DCT pair, statement by statement:
   jpeg_fdct_islow (src/jfdctint.c), jpeg_idct_islow (src/jidctint.c, 8x8, with the
   zero-AC shortcuts of both passes), the dequantisation multiplier table of
   src/jddctmgr.c, the post-IDCT range-limit table of src/jdmaster.c
   (prepare_range_limit_table) and convsamp of src/jcdctmgr.c.
   RIGHT_SHIFT is the arithmetic shift (floor); JLONG (long) arithmetic is not wrapped,
   stores into DCTELEM / int / ISLOW_MULT_TYPE are.  No proofs here. *)
From Coq Require Import List ZArith Bool.
From LJT Require Import gen.GenDctConst model.Quant.
Import ListNotations.
Local Open Scope Z_scope.

Definition DESCALE (x n : Z) : Z := Z.shiftr (x + Z.shiftl 1 (n - 1)) n.

Definition maxsample (cf : cfg) : Z := if c_bits cf =? 8 then maxjsample_8 else maxjsample_12.
Definition centersample (cf : cfg) : Z := if c_bits cf =? 8 then centerjsample_8 else centerjsample_12.
Definition fpass1 (cf : cfg) : Z := if c_bits cf =? 8 then fdct_pass1_bits_8 else fdct_pass1_bits_12.
Definition ipass1 (cf : cfg) : Z := if c_bits cf =? 8 then idct_pass1_bits_8 else idct_pass1_bits_12.

(* ---- 8x8 blocks as lists of 64 in natural (row-major) order ---- *)
Definition rows8 (l : list Z) : list (list Z) :=
  map (fun r => firstn 8 (skipn (8 * r) l)) (seq 0 8).
Definition transpose8 (m : list (list Z)) : list (list Z) :=
  map (fun c => map (fun row => nth c row 0) m) (seq 0 8).

(* convsamp: workspace = sample - _CENTERJSAMPLE *)
Definition convsamp (cf : cfg) (samples : list Z) : list Z :=
  map (fun s => wrapS (c_dw cf) (s - centersample cf)) samples.

(* ---- jpeg_fdct_islow: one iteration of either loop on the eight values it reads.
   pass2 = false: "Pass 1: process rows", pass2 = true: "Pass 2: process columns" ---- *)
Definition fdct_1d (cf : cfg) (pass2 : bool) (d : list Z) : list Z :=
  match d with
  | [d0; d1; d2; d3; d4; d5; d6; d7] =>
    let P := fpass1 cf in
    let CB := fdct_const_bits in
    let cast := wrapS (c_dw cf) in
    let tmp0 := d0 + d7 in
    let tmp7 := d0 - d7 in
    let tmp1 := d1 + d6 in
    let tmp6 := d1 - d6 in
    let tmp2 := d2 + d5 in
    let tmp5 := d2 - d5 in
    let tmp3 := d3 + d4 in
    let tmp4 := d3 - d4 in
    let tmp10 := tmp0 + tmp3 in
    let tmp13 := tmp0 - tmp3 in
    let tmp11 := tmp1 + tmp2 in
    let tmp12 := tmp1 - tmp2 in
    let o0 := if pass2 then DESCALE (tmp10 + tmp11) P else Z.shiftl (tmp10 + tmp11) P in
    let o4 := if pass2 then DESCALE (tmp10 - tmp11) P else Z.shiftl (tmp10 - tmp11) P in
    let sh := if pass2 then CB + P else CB - P in
    let z1 := (tmp12 + tmp13) * FFIX_0_541196100 in
    let o2 := DESCALE (z1 + tmp13 * FFIX_0_765366865) sh in
    let o6 := DESCALE (z1 + tmp12 * (- FFIX_1_847759065)) sh in
    let z1 := tmp4 + tmp7 in
    let z2 := tmp5 + tmp6 in
    let z3 := tmp4 + tmp6 in
    let z4 := tmp5 + tmp7 in
    let z5 := (z3 + z4) * FFIX_1_175875602 in
    let tmp4 := tmp4 * FFIX_0_298631336 in
    let tmp5 := tmp5 * FFIX_2_053119869 in
    let tmp6 := tmp6 * FFIX_3_072711026 in
    let tmp7 := tmp7 * FFIX_1_501321110 in
    let z1 := z1 * (- FFIX_0_899976223) in
    let z2 := z2 * (- FFIX_2_562915447) in
    let z3 := z3 * (- FFIX_1_961570560) in
    let z4 := z4 * (- FFIX_0_390180644) in
    let z3 := z3 + z5 in
    let z4 := z4 + z5 in
    let o7 := DESCALE (tmp4 + z1 + z3) sh in
    let o5 := DESCALE (tmp5 + z2 + z4) sh in
    let o3 := DESCALE (tmp6 + z2 + z3) sh in
    let o1 := DESCALE (tmp7 + z1 + z4) sh in
    [cast o0; cast o1; cast o2; cast o3; cast o4; cast o5; cast o6; cast o7]
  | _ => d
  end.

(* GLOBAL(void) _jpeg_fdct_islow(DCTELEM *data) *)
Definition fdct_islow (cf : cfg) (data : list Z) : list Z :=
  let pass1 := map (fdct_1d cf false) (rows8 data) in
  let pass2 := map (fdct_1d cf true) (transpose8 pass1) in
  concat (transpose8 pass2).

(* ---- src/jddctmgr.c start_pass, JDCT_ISLOW: ismtbl[i] = (ISLOW_MULT_TYPE)qtbl->quantval[i] ---- *)
Definition dct_table (cf : cfg) (qtbl : list Z) : list Z := map (wrapS (c_mw cf)) qtbl.

(* DEQUANTIZE(coef, quantval) = ((ISLOW_MULT_TYPE)(coef)) * (quantval) *)
Definition DEQUANTIZE (cf : cfg) (coef quantval : Z) : Z := wrapS (c_mw cf) coef * quantval.

(* ---- src/jdmaster.c prepare_range_limit_table, seen through IDCT_range_limit(cinfo):
   entry i (0 <= i <= RANGE_MASK) of the table that starts _CENTERJSAMPLE into the
   "simple" table ---- *)
Definition range_limit_entry (cf : cfg) (i : Z) : Z :=
  let M := maxsample cf + 1 in
  let C := centersample cf in
  if i <? C then i + C                        (* rest of the simple table: limit[x] = x *)
  else if i <? 2 * M then maxsample cf        (* table[i] = MAXJSAMPLE *)
  else if i <? 4 * M - C then 0               (* memset 0 *)
  else i - (4 * M - C).                       (* memcpy of the first CENTERJSAMPLE simple entries *)

(* range_limit[(int)x & RANGE_MASK] *)
Definition range_limit (cf : cfg) (x : Z) : Z :=
  range_limit_entry cf (Z.land (wrapS 32 x) (maxsample cf * 4 + 3)).

(* the multiplications of the odd part + output butterflies shared by both IDCT passes *)
Definition idct_core (tmp10 tmp11 tmp12 tmp13 i7 i5 i3 i1 : Z) : list Z :=
  let tmp0 := i7 in
  let tmp1 := i5 in
  let tmp2 := i3 in
  let tmp3 := i1 in
  let z1 := tmp0 + tmp3 in
  let z2 := tmp1 + tmp2 in
  let z3 := tmp0 + tmp2 in
  let z4 := tmp1 + tmp3 in
  let z5 := (z3 + z4) * IFIX_1_175875602 in
  let tmp0 := tmp0 * IFIX_0_298631336 in
  let tmp1 := tmp1 * IFIX_2_053119869 in
  let tmp2 := tmp2 * IFIX_3_072711026 in
  let tmp3 := tmp3 * IFIX_1_501321110 in
  let z1 := z1 * (- IFIX_0_899976223) in
  let z2 := z2 * (- IFIX_2_562915447) in
  let z3 := z3 * (- IFIX_1_961570560) in
  let z4 := z4 * (- IFIX_0_390180644) in
  let z3 := z3 + z5 in
  let z4 := z4 + z5 in
  let tmp0 := tmp0 + (z1 + z3) in
  let tmp1 := tmp1 + (z2 + z4) in
  let tmp2 := tmp2 + (z2 + z3) in
  let tmp3 := tmp3 + (z1 + z4) in
  [tmp10 + tmp3; tmp11 + tmp2; tmp12 + tmp1; tmp13 + tmp0;
   tmp13 - tmp0; tmp12 - tmp1; tmp11 - tmp2; tmp10 - tmp3].

(* Pass 1: one column of coefficients (c) with its multipliers (q) -> one workspace column *)
Definition idct_col (cf : cfg) (c q : list Z) : list Z :=
  match c, q with
  | [c0; c1; c2; c3; c4; c5; c6; c7], [q0; q1; q2; q3; q4; q5; q6; q7] =>
    let P := ipass1 cf in
    let CB := idct_const_bits in
    if (c1 =? 0) && (c2 =? 0) && (c3 =? 0) && (c4 =? 0) && (c5 =? 0) && (c6 =? 0) && (c7 =? 0) then
      let dcval := wrapS 32 (Z.shiftl (DEQUANTIZE cf c0 q0) P) in
      [dcval; dcval; dcval; dcval; dcval; dcval; dcval; dcval]
    else
      let z2 := DEQUANTIZE cf c2 q2 in
      let z3 := DEQUANTIZE cf c6 q6 in
      let z1 := (z2 + z3) * IFIX_0_541196100 in
      let tmp2 := z1 + z3 * (- IFIX_1_847759065) in
      let tmp3 := z1 + z2 * IFIX_0_765366865 in
      let z2 := DEQUANTIZE cf c0 q0 in
      let z3 := DEQUANTIZE cf c4 q4 in
      let tmp0 := Z.shiftl (z2 + z3) CB in
      let tmp1 := Z.shiftl (z2 - z3) CB in
      let tmp10 := tmp0 + tmp3 in
      let tmp13 := tmp0 - tmp3 in
      let tmp11 := tmp1 + tmp2 in
      let tmp12 := tmp1 - tmp2 in
      map (fun x => wrapS 32 (DESCALE x (CB - P)))
          (idct_core tmp10 tmp11 tmp12 tmp13
                     (DEQUANTIZE cf c7 q7) (DEQUANTIZE cf c5 q5) (DEQUANTIZE cf c3 q3) (DEQUANTIZE cf c1 q1))
  | _, _ => c
  end.

(* Pass 2: one workspace row -> one row of output samples *)
Definition idct_row (cf : cfg) (w : list Z) : list Z :=
  match w with
  | [w0; w1; w2; w3; w4; w5; w6; w7] =>
    let P := ipass1 cf in
    let CB := idct_const_bits in
    if (w1 =? 0) && (w2 =? 0) && (w3 =? 0) && (w4 =? 0) && (w5 =? 0) && (w6 =? 0) && (w7 =? 0) then
      let dcval := range_limit cf (DESCALE w0 (P + 3)) in
      [dcval; dcval; dcval; dcval; dcval; dcval; dcval; dcval]
    else
      let z2 := w2 in
      let z3 := w6 in
      let z1 := (z2 + z3) * IFIX_0_541196100 in
      let tmp2 := z1 + z3 * (- IFIX_1_847759065) in
      let tmp3 := z1 + z2 * IFIX_0_765366865 in
      let tmp0 := Z.shiftl (w0 + w4) CB in
      let tmp1 := Z.shiftl (w0 - w4) CB in
      let tmp10 := tmp0 + tmp3 in
      let tmp13 := tmp0 - tmp3 in
      let tmp11 := tmp1 + tmp2 in
      let tmp12 := tmp1 - tmp2 in
      map (fun x => range_limit cf (DESCALE x (CB + P + 3)))
          (idct_core tmp10 tmp11 tmp12 tmp13 w7 w5 w3 w1)
  | _ => w
  end.

(* GLOBAL(void) _jpeg_idct_islow(cinfo, compptr, coef_block, output_buf, output_col):
   coef = coefficient block, mult = compptr->dct_table, both in natural order *)
Definition idct_islow (cf : cfg) (coef mult : list Z) : list Z :=
  let ws_cols := map2 (idct_col cf) (transpose8 (rows8 coef)) (transpose8 (rows8 mult)) in
  concat (map (idct_row cf) (transpose8 ws_cols)).

(* ---- one block through compressor and decompressor ---- *)
Definition forward_block (cf : cfg) (qtbl samples : list Z) : option (list Z) :=
  match start_pass_divisors cf qtbl with
  | Some divs => Some (quantize_block cf divs (fdct_islow cf (convsamp cf samples)))
  | None => None
  end.
Definition inverse_block (cf : cfg) (qtbl coefs : list Z) : list Z :=
  idct_islow cf coefs (dct_table cf qtbl).
Definition roundtrip_block (cf : cfg) (qtbl samples : list Z) : option (list Z) :=
  match forward_block cf qtbl samples with
  | Some coefs => Some (inverse_block cf qtbl coefs)
  | None => None
  end.
