(* C06 -- executable model of the lossless-transform code of src/transupp.c
   (libjpeg-turbo 3.1.1), block-plane level.  No proofs here.

   A component plane is a function  col -> row -> block  (Z coordinates, the C
   text's buffer[row][col]) plus its dimensions in blocks; a block is a list of
   64 coefficients in natural (row-major) order, index k = 8*row + col.

   Loop nests.  Every do_* of transupp.c writes each destination block exactly
   once; the iteration that writes block (x,y) is
       dst_blk_y = y - y mod v_samp, offset_y = y mod v_samp,
       dst_blk_x = x - x mod h_samp, offset_x = x mod h_samp   (transposing routines)
       dst_blk_x = x                                            (the others).
   The model gives, per destination block, the block computed by THAT iteration
   with the C text's own index arithmetic (group start, offset inside the
   group, "mirrorable" tests evaluated at the group start).  The in-block
   loops are kept as the C text's sequence of element writes ([wr] lists run
   by [exec_writes]); do_flip_h_no_crop, which works in place, is modelled on
   a whole block row with its swap loop and its left-justify loop.           *)
From Coq Require Import List ZArith Bool.
Import ListNotations.
Local Open Scope Z_scope.

(* ------------------------------------------------------------------ JCOEF *)
(* JCOEF is a 16-bit signed short; "-x" is computed in int and stored back. *)
Definition wrap16s (x : Z) : Z := (x + 32768) mod 65536 - 32768.
Definition neg16 (x : Z) : Z := wrap16s (- x).

Definition blk := list Z.

(* ------------------------------------------------ in-block element writes *)
Record wr := mkwr { w_dst : nat; w_src : nat; w_neg : bool }.

Fixpoint upd {A} (l : list A) (i : nat) (v : A) : list A :=
  match l, i with
  | [], _ => []
  | _ :: t, O => v :: t
  | x :: t, S j => x :: upd t j v
  end.

Definition wval (src : blk) (w : wr) : Z :=
  let v := nth (w_src w) src 0 in if w_neg w then neg16 v else v.

Definition exec_writes (ws : list wr) (src : blk) : blk :=
  fold_left (fun d w => upd d (w_dst w) (wval src w)) ws (repeat 0 64%nat).

Section WriteLists.
Local Open Scope nat_scope.
Definition ev4 : list nat := [0; 2; 4; 6].
Definition all8 : list nat := seq 0 8.

(* for (k = 0; k < DCTSIZE2; k += 2) { dst[k] = src[k]; dst[k+1] = -src[k+1]; }   (pointer walk)
   do_flip_h, bottom rows of do_rot_180, (swap form) do_flip_h_no_crop *)
Definition W_fliph : list wr :=
  flat_map (fun i => [mkwr (2 * i) (2 * i) false; mkwr (2 * i + 1) (2 * i + 1) true]) (seq 0 32).

(* for (i = 0; i < 8; i += 2) { for j: copy row i;  for j: negated copy of row i+1; }   (pointer walk)
   do_flip_v, right-edge blocks of do_rot_180 *)
Definition W_flipv : list wr :=
  flat_map (fun i => map (fun j => mkwr (i * 8 + j) (i * 8 + j) false) all8 ++
                     map (fun j => mkwr ((i + 1) * 8 + j) ((i + 1) * 8 + j) true) all8) ev4.

(* for i for j: dst[j*8+i] = src[i*8+j]     do_transpose and all "only transposed" edges *)
Definition W_transpose : list wr :=
  flat_map (fun i => map (fun j => mkwr (j * 8 + i) (i * 8 + j) false) all8) all8.

(* do_rot_90 mirrorable; do_transverse bottom edge *)
Definition W_rot90 : list wr :=
  flat_map (fun i => map (fun j => mkwr (j * 8 + i) (i * 8 + j) false) all8 ++
                     map (fun j => mkwr (j * 8 + (i + 1)) ((i + 1) * 8 + j) true) all8) ev4.

(* do_rot_270 mirrorable; do_transverse right edge *)
Definition W_rot270 : list wr :=
  flat_map (fun i => flat_map (fun j => [mkwr (j * 8 + i) (i * 8 + j) false;
                                         mkwr ((j + 1) * 8 + i) (i * 8 + (j + 1)) true]) ev4) all8.

(* do_rot_180, block mirrorable both ways (pointer walk) *)
Definition W_rot180 : list wr :=
  flat_map (fun i =>
      flat_map (fun j => [mkwr (i * 8 + j) (i * 8 + j) false; mkwr (i * 8 + j + 1) (i * 8 + j + 1) true]) ev4 ++
      flat_map (fun j => [mkwr ((i + 1) * 8 + j) ((i + 1) * 8 + j) true;
                          mkwr ((i + 1) * 8 + j + 1) ((i + 1) * 8 + j + 1) false]) ev4) ev4.

(* do_transverse, block mirrorable both ways *)
Definition W_transverse : list wr :=
  flat_map (fun i =>
      flat_map (fun j => [mkwr (j * 8 + i) (i * 8 + j) false;
                          mkwr ((j + 1) * 8 + i) (i * 8 + (j + 1)) true]) ev4 ++
      flat_map (fun j => [mkwr (j * 8 + (i + 1)) ((i + 1) * 8 + j) true;
                          mkwr ((j + 1) * 8 + (i + 1)) ((i + 1) * 8 + (j + 1)) false]) ev4) ev4.
End WriteLists.

Definition blk_fliph := exec_writes W_fliph.
Definition blk_flipv := exec_writes W_flipv.
Definition blk_transpose := exec_writes W_transpose.
Definition blk_rot90 := exec_writes W_rot90.
Definition blk_rot270 := exec_writes W_rot270.
Definition blk_rot180 := exec_writes W_rot180.
Definition blk_transverse := exec_writes W_transverse.

(* ------------------------------------------------------------- plane level *)
Definition srcfn := Z -> Z -> blk.           (* column, row *)

(* what a do_* routine reads from srcinfo / dstinfo / its arguments for ONE
   component (compptr = dstinfo->comp_info + ci) *)
Record geom := mkgeom {
  g_hs : Z; g_vs : Z;          (* compptr->h_samp_factor, v_samp_factor (destination) *)
  g_wb : Z; g_hb : Z;          (* compptr->width_in_blocks, height_in_blocks (destination) *)
  g_swb : Z;                   (* blocks per source row (in-place routine only) *)
  g_sw : Z; g_sh : Z;          (* srcinfo->output_width, output_height *)
  g_maxh : Z; g_maxv : Z;      (* dstinfo->max_h_samp_factor, max_v_samp_factor *)
  g_xco : Z; g_yco : Z         (* x_crop_offset, y_crop_offset in iMCUs *)
}.

Definition xcb g := g_xco g * g_hs g.        (* x_crop_blocks *)
Definition ycb g := g_yco g * g_vs g.        (* y_crop_blocks *)
Definition gbase (v s : Z) := v - v mod s.   (* loop variable stepping by s *)
Definition goff (v s : Z) := v mod s.        (* offset_x / offset_y *)

Definition do_crop (g : geom) (src : srcfn) : srcfn := fun x y =>
  let by_ := gbase y (g_vs g) in let oy := goff y (g_vs g) in
  src (xcb g + x) ((by_ + ycb g) + oy).

Definition do_flip_h (g : geom) (src : srcfn) : srcfn := fun x y =>
  let mcu_cols := g_sw g / (g_maxh g * 8) in
  let comp_width := mcu_cols * g_hs g in
  let by_ := gbase y (g_vs g) in let oy := goff y (g_vs g) in
  let srow := (by_ + ycb g) + oy in
  if xcb g + x <? comp_width
  then blk_fliph (src (comp_width - xcb g - x - 1) srow)
  else src (x + xcb g) srow.

(* in place, one block row: swap loop (blk_x * 2 < comp_width), then the
   left-justify loop for x_crop_blocks > 0 *)
Definition flip_h_row_inplace (cw xc wb : nat) (row : list blk) : list blk :=
  let r1 := fold_left (fun r bx =>
                let i := bx in let j := (cw - bx - 1)%nat in
                let b1 := nth i r [] in let b2 := nth j r [] in
                upd (upd r i (blk_fliph b2)) j (blk_fliph b1))
              (seq 0 ((cw + 1) / 2)) row in
  if (0 <? xc)%nat
  then fold_left (fun r bx => upd r bx (nth (bx + xc) r [])) (seq 0 wb) r1
  else r1.

Definition do_flip_h_no_crop (g : geom) (src : srcfn) : srcfn := fun x y =>
  let mcu_cols := g_sw g / (g_maxh g * 8) in
  let comp_width := mcu_cols * g_hs g in
  let row := map (fun c => src (Z.of_nat c) y) (seq 0 (Z.to_nat (g_swb g))) in
  nth (Z.to_nat x)
      (flip_h_row_inplace (Z.to_nat comp_width) (Z.to_nat (xcb g)) (Z.to_nat (g_wb g)) row) [].

Definition do_flip_v (g : geom) (src : srcfn) : srcfn := fun x y =>
  let mcu_rows := g_sh g / (g_maxv g * 8) in
  let comp_height := mcu_rows * g_vs g in
  let by_ := gbase y (g_vs g) in let oy := goff y (g_vs g) in
  if ycb g + by_ <? comp_height
  then blk_flipv (src (xcb g + x) ((comp_height - ycb g - by_ - g_vs g) + (g_vs g - oy - 1)))
  else src (xcb g + x) ((by_ + ycb g) + oy).

Definition do_transpose (g : geom) (src : srcfn) : srcfn := fun x y =>
  let by_ := gbase y (g_vs g) in let oy := goff y (g_vs g) in
  let bx := gbase x (g_hs g) in let ox := goff x (g_hs g) in
  blk_transpose (src (by_ + oy + ycb g) ((bx + xcb g) + ox)).

Definition do_rot_90 (g : geom) (src : srcfn) : srcfn := fun x y =>
  let mcu_cols := g_sh g / (g_maxh g * 8) in
  let comp_width := mcu_cols * g_hs g in
  let by_ := gbase y (g_vs g) in let oy := goff y (g_vs g) in
  let bx := gbase x (g_hs g) in let ox := goff x (g_hs g) in
  if xcb g + bx <? comp_width
  then blk_rot90 (src (by_ + oy + ycb g) ((comp_width - xcb g - bx - g_hs g) + (g_hs g - ox - 1)))
  else blk_transpose (src (by_ + oy + ycb g) ((bx + xcb g) + ox)).

Definition do_rot_270 (g : geom) (src : srcfn) : srcfn := fun x y =>
  let mcu_rows := g_sw g / (g_maxv g * 8) in
  let comp_height := mcu_rows * g_vs g in
  let by_ := gbase y (g_vs g) in let oy := goff y (g_vs g) in
  let bx := gbase x (g_hs g) in let ox := goff x (g_hs g) in
  if ycb g + by_ <? comp_height
  then blk_rot270 (src (comp_height - ycb g - by_ - oy - 1) ((bx + xcb g) + ox))
  else blk_transpose (src (by_ + oy + ycb g) ((bx + xcb g) + ox)).

Definition do_rot_180 (g : geom) (src : srcfn) : srcfn := fun x y =>
  let mcu_cols := g_sw g / (g_maxh g * 8) in
  let mcu_rows := g_sh g / (g_maxv g * 8) in
  let comp_width := mcu_cols * g_hs g in
  let comp_height := mcu_rows * g_vs g in
  let by_ := gbase y (g_vs g) in let oy := goff y (g_vs g) in
  if ycb g + by_ <? comp_height then
    let srow := (comp_height - ycb g - by_ - g_vs g) + (g_vs g - oy - 1) in
    if xcb g + x <? comp_width
    then blk_rot180 (src (comp_width - xcb g - x - 1) srow)
    else blk_flipv (src (xcb g + x) srow)
  else
    let srow := (by_ + ycb g) + oy in
    if xcb g + x <? comp_width
    then blk_fliph (src (comp_width - xcb g - x - 1) srow)
    else src (x + xcb g) srow.

Definition do_transverse (g : geom) (src : srcfn) : srcfn := fun x y =>
  let mcu_cols := g_sh g / (g_maxh g * 8) in
  let mcu_rows := g_sw g / (g_maxv g * 8) in
  let comp_width := mcu_cols * g_hs g in
  let comp_height := mcu_rows * g_vs g in
  let by_ := gbase y (g_vs g) in let oy := goff y (g_vs g) in
  let bx := gbase x (g_hs g) in let ox := goff x (g_hs g) in
  let mirror_x := xcb g + bx <? comp_width in
  let srow := if mirror_x then (comp_width - xcb g - bx - g_hs g) + (g_hs g - ox - 1)
              else (bx + xcb g) + ox in
  if ycb g + by_ <? comp_height then
    let scol := comp_height - ycb g - by_ - oy - 1 in
    if mirror_x then blk_transverse (src scol srow) else blk_rot270 (src scol srow)
  else
    let scol := by_ + oy + ycb g in
    if mirror_x then blk_rot90 (src scol srow) else blk_transpose (src scol srow).

(* ------------------------------------------------ quantisation-table swap *)
(* transpose_critical_parameters: for i for j<i swap q[i*8+j], q[j*8+i], in place *)
Definition swap_at (q : list Z) (a b : nat) : list Z :=
  let va := nth a q 0 in let vb := nth b q 0 in upd (upd q a vb) b va.

Definition transpose_q (q : list Z) : list Z :=
  fold_left (fun q ij => swap_at q (fst ij * 8 + snd ij)%nat (snd ij * 8 + fst ij)%nat)
            (flat_map (fun i => map (fun j => (i, j)) (seq 0 i)) (seq 0 8)) q.

(* ----------------------------------------------------------- image level *)
Record comp := mkcomp {
  c_hs : Z; c_vs : Z; c_wb : Z; c_hb : Z;
  c_tq : Z;                     (* quant_tbl_no: the slot the component refers to *)
  c_q : list Z;                 (* quantval[64] of comp_info[ci].quant_table: the table LATCHED from the
                                   slot when the component's first scan started (jdinput.c) *)
  c_blk : srcfn }.

Record image := mkimage {
  i_w : Z; i_h : Z;
  i_cs : Z;                     (* J_COLOR_SPACE: 1 grayscale, 2 RGB, 3 YCbCr, 4 CMYK, 5 YCCK *)
  i_slots : list (list Z);      (* quant_tbl_ptrs[0..3] after the whole file was read ([] = NULL):
                                   a DQT between scans may have redefined a slot *)
  i_comps : list comp }.

Definition slot_of (slots : list (list Z)) (tq : Z) : list Z := nth (Z.to_nat tq) slots [].

Fixpoint zlist_eqb (a b : list Z) : bool :=
  match a, b with
  | [], [] => true
  | x :: a', y :: b' => (x =? y) && zlist_eqb a' b'
  | _, _ => false
  end.

(* jpeg_copy_critical_parameters: the destination can hold one table per slot (the source's final
   slot contents are copied); every component's latched table must still be the one in its slot,
   otherwise JERR_MISMATCHED_QUANT_TABLE *)
Definition quant_ok (im : image) : bool :=
  forallb (fun c => zlist_eqb (c_q c) (slot_of (i_slots im) (c_tq c))) (i_comps im).

Inductive xop := XNone | XFlipH | XFlipV | XTranspose | XTransverse | XRot90 | XRot180 | XRot270.

Definition transposes (op : xop) : bool :=
  match op with XTranspose | XTransverse | XRot90 | XRot270 => true | _ => false end.

Inductive oset := OUnset | OPos | ONeg.            (* JCROP_UNSET / JCROP_POS / JCROP_NEG *)
Record cropspec := mkcrop {
  cr_w : Z; cr_wset : bool; cr_h : Z; cr_hset : bool;     (* set = JCROP_POS *)
  cr_x : Z; cr_xset : oset; cr_y : Z; cr_yset : oset }.

Record xopts := mkxopts {
  xo_op : xop; xo_perfect : bool; xo_trim : bool; xo_gray : bool;
  xo_crop : option cropspec; xo_slow : bool }.

Inductive xerr := ENotPerfect | EBadCrop | ECropExt | ENoGray | EAlign | EQuantReuse | EUnknownSubsamp.

Definition max_hs (cs : list comp) : Z := fold_right (fun c m => Z.max (c_hs c) m) 1 cs.
Definition max_vs (cs : list comp) : Z := fold_right (fun c m => Z.max (c_vs c) m) 1 cs.

(* jtransform_perfect_transform *)
Definition perfect_transform (w h mw mh : Z) (op : xop) : bool :=
  match op with
  | XFlipH | XRot270 => w mod mw =? 0
  | XFlipV | XRot90 => h mod mh =? 0
  | XTransverse | XRot180 => (w mod mw =? 0) && (h mod mh =? 0)
  | _ => true
  end.

(* trim_right_edge / trim_bottom_edge *)
Definition trim_edge (out imcu off full : Z) : Z :=
  let mcus := out / imcu in
  if (0 <? mcus) && (off + mcus =? full / imcu) then mcus * imcu else out.

Record plan := mkplan {
  p_nc : Z; p_ow : Z; p_oh : Z; p_imw : Z; p_imh : Z; p_xco : Z; p_yco : Z }.

(* one axis of the crop computation of jtransform_request_workspace:
   result = (crop extent, offset in samples) *)
Definition crop_axis (is_none : bool) (full cw : Z) (wset : bool) (cx0 : Z) (xset : oset)
  : xerr + (Z * Z) :=
  let cx := match xset with OUnset => 0 | _ => cx0 end in
  let ext : xerr + Z :=
    if negb wset then (if full <=? cx then inl EBadCrop else inr (full - cx))
    else if full <? cw then
      (if negb is_none || (cw <=? cx) || (cw - full <? cx) then inl EBadCrop else inl ECropExt)
    else if (full <=? cx) || (cw <=? 0) || (full - cw <? cx) then inl EBadCrop else inr cw in
  match ext with
  | inl e => inl e
  | inr cw' =>
      let off := match xset with ONeg => full - cw' - cx | _ => cx end in
      inr (cw', off)
  end.

Definition is_none (op : xop) : bool := match op with XNone => true | _ => false end.

Definition request_workspace (im : image) (o : xopts) : xerr + plan :=
  let op := xo_op o in
  let ncs := Z.of_nat (length (i_comps im)) in
  let nc := if xo_gray o && (i_cs im =? 3) && (ncs =? 3) then 1 else ncs in
  let mh := max_hs (i_comps im) in let mv := max_vs (i_comps im) in
  let W := i_w im in let H := i_h im in
  if xo_perfect o &&
     negb (if nc =? 1 then perfect_transform W H 8 8 op
           else perfect_transform W H (mh * 8) (mv * 8) op)
  then inl ENotPerfect else
  let ow0 := if transposes op then H else W in
  let oh0 := if transposes op then W else H in
  let imw := if nc =? 1 then 8 else if transposes op then mv * 8 else mh * 8 in
  let imh := if nc =? 1 then 8 else if transposes op then mh * 8 else mv * 8 in
  let cropped : xerr + (Z * Z * Z * Z) :=
    match xo_crop o with
    | None => inr (ow0, oh0, 0, 0)
    | Some c =>
        match crop_axis (is_none op) ow0 (cr_w c) (cr_wset c) (cr_x c) (cr_xset c),
              crop_axis (is_none op) oh0 (cr_h c) (cr_hset c) (cr_y c) (cr_yset c) with
        | inl EBadCrop, _ => inl EBadCrop
        | _, inl EBadCrop => inl EBadCrop
        | inl e, _ => inl e
        | _, inl e => inl e
        | inr (cw, xoff), inr (ch, yoff) =>
            inr (cw + xoff mod imw, ch + yoff mod imh, xoff / imw, yoff / imh)
        end
    end in
  match cropped with
  | inl e => inl e
  | inr (ow1, oh1, xco, yco) =>
      let tr_right full ow := if xo_trim o then trim_edge ow imw xco full else ow in
      let tr_bottom full oh := if xo_trim o then trim_edge oh imh yco full else oh in
      let '(ow, oh) :=
        match op with
        | XNone | XTranspose => (ow1, oh1)
        | XFlipH => (tr_right W ow1, oh1)
        | XFlipV => (ow1, tr_bottom H oh1)
        | XTransverse => (tr_right H ow1, tr_bottom W oh1)
        | XRot90 => (tr_right H ow1, oh1)
        | XRot180 => (tr_right W ow1, tr_bottom H oh1)
        | XRot270 => (ow1, tr_bottom W oh1)
        end in
      inr (mkplan nc ow oh imw imh xco yco)
  end.

(* jtransform_execute_transform, one component *)
Definition exec_comp (op : xop) (slow : bool) (g : geom) (src : srcfn) : srcfn :=
  match op with
  | XNone => if (g_xco g =? 0) && (g_yco g =? 0) then src else do_crop g src
  | XFlipH => if negb (g_yco g =? 0) || slow then do_flip_h g src else do_flip_h_no_crop g src
  | XFlipV => do_flip_v g src
  | XTranspose => do_transpose g src
  | XTransverse => do_transverse g src
  | XRot90 => do_rot_90 g src
  | XRot180 => do_rot_180 g src
  | XRot270 => do_rot_270 g src
  end.

(* ------------------------------------------------------- the loop nests *)
(* The iteration space of the block-moving routines, padding included.  Workspace arrays are
   padded to whole iMCUs; the routines run
     for (dst_blk_y = 0; dst_blk_y < height_in_blocks; dst_blk_y += v_samp)
       for (offset_y = 0; offset_y < v_samp; offset_y++)
         row-wise routines (do_crop, do_flip_h, do_flip_v, do_rot_180):
           for (dst_blk_x = 0; dst_blk_x < width_in_blocks; dst_blk_x++)
         block-wise routines (do_transpose, do_rot_90, do_rot_270, do_transverse):
           for (dst_blk_x = 0; dst_blk_x < width_in_blocks; dst_blk_x += h_samp)
             for (offset_x = 0; offset_x < h_samp; offset_x++)
   and write dst[dst_blk_y + offset_y][dst_blk_x (+ offset_x)]: rows up to the next multiple of
   v_samp and (block-wise) columns up to the next multiple of h_samp are written too (edge strips
   of padding blocks).  [nest] is the sequence of writes in execution order. *)
Definition zseq (n : Z) : list Z := map Z.of_nat (seq 0 (Z.to_nat n)).

Definition nest (rowwise : bool) (g : geom) (f : srcfn) : list ((Z * Z) * blk) :=
  flat_map (fun gy =>
    flat_map (fun oy =>
      let y := gy * g_vs g + oy in
      if rowwise then map (fun x => ((x, y), f x y)) (zseq (g_wb g))
      else flat_map (fun gx => map (fun ox => let x := gx * g_hs g + ox in ((x, y), f x y)) (zseq (g_hs g)))
                    (zseq ((g_wb g + g_hs g - 1) / g_hs g)))
      (zseq (g_vs g)))
    (zseq ((g_hb g + g_vs g - 1) / g_vs g)).

(* content of the destination array after the writes (a later write wins) *)
Fixpoint find_last (k : Z * Z) (ws : list ((Z * Z) * blk)) : option blk :=
  match ws with
  | [] => None
  | (k', v) :: r =>
      match find_last k r with
      | Some v' => Some v'
      | None => if (fst k =? fst k') && (snd k =? snd k') then Some v else None
      end
  end.

Definition exec_nest (op : xop) (slow : bool) (g : geom) (src : srcfn) : Z -> Z -> option blk :=
  fun x y => find_last (x, y) (nest (negb (transposes op)) g (exec_comp op slow g src)).

Definition cdiv (a b : Z) : Z := (a + b - 1) / b.      (* jdiv_round_up *)

(* destination sampling factors: jtransform_adjust_parameters (1x1 for a single
   output component) + transpose_critical_parameters *)
Definition dst_samp (nc : Z) (tr : bool) (c : comp) : Z * Z :=
  if nc =? 1 then (1, 1) else if tr then (c_vs c, c_hs c) else (c_hs c, c_vs c).

(* the force_grayscale test of jtransform_adjust_parameters *)
Definition gray_ok (im : image) : bool :=
  let ncs := Z.of_nat (length (i_comps im)) in
  (((i_cs im =? 3) && (ncs =? 3)) || ((i_cs im =? 1) && (ncs =? 1))) &&
  match i_comps im with
  | c :: _ => (c_hs c =? max_hs (i_comps im)) && (c_vs c =? max_vs (i_comps im))
  | [] => false
  end.

Definition transform (im : image) (o : xopts) : xerr + image :=
  match request_workspace im o with
  | inl e => inl e
  | inr p =>
      if negb (quant_ok im) then inl EQuantReuse else
      if xo_gray o && negb (gray_ok im) then inl ENoGray else
      let op := xo_op o in
      let tr := transposes op in
      let slots := map (fun q => if tr then transpose_q q else q) (i_slots im) in
      let srcs := firstn (Z.to_nat (p_nc p)) (i_comps im) in
      let samps := map (dst_samp (p_nc p) tr) srcs in
      let mh := fold_right (fun s m => Z.max (fst s) m) 1 samps in
      let mv := fold_right (fun s m => Z.max (snd s) m) 1 samps in
      let mk c :=
        let hs := fst (dst_samp (p_nc p) tr c) in
        let vs := snd (dst_samp (p_nc p) tr c) in
        let wb := cdiv (p_ow p * hs) (mh * 8) in
        let hb := cdiv (p_oh p * vs) (mv * 8) in
        let g := mkgeom hs vs wb hb (c_wb c) (i_w im) (i_h im) mh mv (p_xco p) (p_yco p) in
        mkcomp hs vs wb hb (c_tq c) (slot_of slots (c_tq c))
               (exec_comp op (xo_slow o) g (c_blk c)) in
      inr (mkimage (p_ow p) (p_oh p)
                   (if xo_gray o then 1 else i_cs im)
                   slots (map mk srcs))
  end.

(* the destination (workspace) virtual arrays after jtransform_execute_transform, padding strips
   included: per output component the extent of the iteration space and the array content
   ([] when no workspace array is used: plain copy, or the in-place horizontal flip) *)
Definition needs_workspace (op : xop) (slow : bool) (p : plan) : bool :=
  match op with
  | XNone => negb ((p_xco p =? 0) && (p_yco p =? 0))
  | XFlipH => negb (p_yco p =? 0) || slow
  | _ => true
  end.

Definition transform_pad (im : image) (o : xopts) : xerr + list (Z * Z * (Z -> Z -> option blk)) :=
  match request_workspace im o with
  | inl e => inl e
  | inr p =>
      if negb (quant_ok im) then inl EQuantReuse else
      if xo_gray o && negb (gray_ok im) then inl ENoGray else
      let op := xo_op o in
      if negb (needs_workspace op (xo_slow o) p) then inr [] else
      let tr := transposes op in
      let srcs := firstn (Z.to_nat (p_nc p)) (i_comps im) in
      let samps := map (dst_samp (p_nc p) tr) srcs in
      let mh := fold_right (fun s m => Z.max (fst s) m) 1 samps in
      let mv := fold_right (fun s m => Z.max (snd s) m) 1 samps in
      let mk c :=
        let hs := fst (dst_samp (p_nc p) tr c) in
        let vs := snd (dst_samp (p_nc p) tr c) in
        let wb := cdiv (p_ow p * hs) (mh * 8) in
        let hb := cdiv (p_oh p * vs) (mv * 8) in
        let g := mkgeom hs vs wb hb (c_wb c) (i_w im) (i_h im) mh mv (p_xco p) (p_yco p) in
        (if tr then cdiv wb hs * hs else wb, cdiv hb vs * vs, exec_nest op (xo_slow o) g (c_blk c)) in
      inr (map mk srcs)
  end.

(* ------------------------------------------------- tj3Transform wrapper *)
Record tjx := mktjx {
  t_op : xop; t_perfect : bool; t_trim : bool; t_gray : bool; t_crop : bool;
  t_x : Z; t_y : Z; t_w : Z; t_h : Z }.

Definition is_hflip (op : xop) : bool := match op with XFlipH => true | _ => false end.

Definition tj_xopts (n : nat) (t : tjx) : xopts :=
  mkxopts (t_op t) (t_perfect t) (t_trim t) (t_gray t)
          (if t_crop t
           then Some (mkcrop (t_w t) (negb (t_w t =? 0)) (t_h t) (negb (t_h t =? 0))
                             (t_x t) OPos (t_y t) OPos)
           else None)
          (negb (Nat.eqb n 1) && is_hflip (t_op t)).

(* TJSAMP_444, 422, 420, GRAY, 440, 411, 441 = 0..6, TJSAMP_UNKNOWN = -1; tjMCUWidth / tjMCUHeight *)
Definition tj_samp_mcu : list (Z * Z) := [(8, 8); (16, 8); (16, 16); (8, 8); (8, 16); (32, 8); (8, 32)].
Definition tj_mcu_w (s : Z) : Z := fst (nth (Z.to_nat s) tj_samp_mcu (0, 0)).
Definition tj_mcu_h (s : Z) : Z := snd (nth (Z.to_nat s) tj_samp_mcu (0, 0)).

Definition fac_is (c : Z * Z) (h v : Z) : bool := (fst c =? h) && (snd c =? v).

(* turbojpeg.c getSubsamp(): the TJSAMP level of the source, statement by statement, as a function
   of jpeg_color_space and the (h_samp_factor, v_samp_factor) list.
   [four] = CMYK/YCCK with four components (the fourth must have the luminance factors). *)
Definition get_subsamp_l (jcs : Z) (cs : list (Z * Z)) : Z :=
  let nc := length cs in
  if Nat.eqb nc 1 && (jcs =? 1) then 3 else
  let four := ((jcs =? 5) || (jcs =? 4)) && Nat.eqb nc 4 in
  if negb (Nat.eqb nc 3 || four) then -1 else
  match cs with
  | [] => -1
  | c0 :: rest =>
      (* for (i = 0; i < TJ_NUMSAMP; i++) { if (i == TJSAMP_GRAY) continue; ... } *)
      let step (st : Z * bool) (i : Z) : Z * bool :=
        let '(ret, stop) := st in
        if stop then st else
        let mw := tj_mcu_w i / 8 in let mh := tj_mcu_h i / 8 in
        (* others(k) match (href, vref), the K component of CMYK/YCCK matches (kh, kv) *)
        let others (href vref kh kv : Z) : bool :=
          forallb (fun kc => let '(k, c) := kc in
                             if four && Nat.eqb k 3 then fac_is c kh kv else fac_is c href vref)
                  (combine (seq 1 (length rest)) rest) in
        if fac_is c0 mw mh && others 1 1 mw mh then (i, true) else
        if fac_is c0 2 2 && ((i =? 1) || (i =? 4)) && others mh mw 2 2 then (i, true) else
        if (fst c0 * snd c0 <=? 10 / 3) && (i =? 0) &&
           forallb (fun c => fac_is c (fst c0) (snd c0)) rest
        then (i, false) else st in
      fst (fold_left step [0; 1; 2; 4; 5; 6] (-1, false))
  end.

Definition get_subsamp (im : image) : Z :=
  get_subsamp_l (i_cs im) (map (fun c => (c_hs c, c_vs c)) (i_comps im)).

(* getDstSubsamp() *)
Definition get_dst_subsamp (src : Z) (gray : bool) (op : xop) : Z :=
  let d := if gray then 3 else src in
  if transposes op then
    if d =? 1 then 4 else if d =? 4 then 1 else if d =? 5 then 6 else if d =? 6 then 5 else d
  else d.

(* first loop of tj3Transform: jtransform_request_workspace, then, for a crop, the destination
   subsampling level must be known and r.x / r.y must be multiples of the iMCU size that
   jtransform_request_workspace computed (xinfo[i].iMCU_sample_width / height; since fix 7d69fcb --
   before, tjMCUWidth/Height of the level were used, wrong for non-standard layouts) *)
Definition tj_precheck (im : image) (n : nat) (t : tjx) : option xerr :=
  match request_workspace im (tj_xopts n t) with
  | inl e => Some e
  | inr p =>
      if t_crop t then
        let d := get_dst_subsamp (get_subsamp im) (t_gray t) (t_op t) in
        if d =? -1 then Some EUnknownSubsamp else
        if negb (t_x t mod p_imw p =? 0) || negb (t_y t mod p_imh p =? 0)
        then Some EAlign else None
      else None
  end.

(* getTransformedSpecs(): destination size and level as tj3TransformBufSize assumes them
   (None = it throws and tj3TransformBufSize returns 0).  Still on the TJSAMP grid. *)
Definition tj_specs (im : image) (t : tjx) : option (Z * Z * Z) :=
  let dw := if transposes (t_op t) then i_h im else i_w im in
  let dh := if transposes (t_op t) then i_w im else i_h im in
  let d := get_dst_subsamp (get_subsamp im) (t_gray t) (t_op t) in
  if t_crop t then
    if (t_x t <? 0) || (t_y t <? 0) || (t_w t <? 0) || (t_h t <? 0) then None else
    if d =? -1 then None else
    if negb (t_x t mod tj_mcu_w d =? 0) || negb (t_y t mod tj_mcu_h d =? 0) then None else
    if (dw <=? t_x t) || (dh <=? t_y t) then None else
    let cw := if t_w t =? 0 then dw - t_x t else t_w t in
    let ch := if t_h t =? 0 then dh - t_y t else t_h t in
    if (dw <? t_x t + cw) || (dh <? t_y t + ch) then None else Some (cw, ch, d)
  else Some (dw, dh, d).

(* PAD(v, p) for a power of two p; tj3JPEGBufSize(); tj3TransformBufSize() without ICC profile *)
Definition pad_to (v p : Z) : Z := (v + p - 1) / p * p.
Definition tj_jpeg_buf_size (w h s0 : Z) : Z :=
  let s := if s0 =? -1 then 0 else s0 in
  let mcuw := tj_mcu_w s in let mcuh := tj_mcu_h s in
  let chromasf := if s =? 3 then 0 else 4 * 64 / (mcuw * mcuh) in
  pad_to w mcuw * pad_to h mcuh * (2 + chromasf) + 2048.
Definition tj_transform_buf_size (im : image) (t : tjx) : Z :=
  match tj_specs im t with
  | None => 0
  | Some (w, h, s) => tj_jpeg_buf_size w h s
  end.

Fixpoint first_err {A} (f : A -> option xerr) (l : list A) : option xerr :=
  match l with
  | [] => None
  | a :: r => match f a with Some e => Some e | None => first_err f r end
  end.

Fixpoint all_ok {A B} (f : A -> xerr + B) (l : list A) : xerr + list B :=
  match l with
  | [] => inr []
  | a :: r => match f a with
              | inl e => inl e
              | inr b => match all_ok f r with inl e => inl e | inr bs => inr (b :: bs) end
              end
  end.

Definition tj_transform (im : image) (ts : list tjx) : xerr + list image :=
  let n := length ts in
  match first_err (tj_precheck im n) ts with
  | Some e => inl e
  | None => all_ok (fun t => transform im (tj_xopts n t)) ts
  end.
