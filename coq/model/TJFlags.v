(* C10 -- processFlags() of turbojpeg.c: how every legacy TurboJPEG 1.x/2.x entry point turns its `flags`
   argument into instance parameters.  The statements come from gen/GenLayouts.v (process_flags_entries),
   the interpreter below gives them their C meaning.  An instance state is a map field -> value. *)
From Coq Require Import List ZArith Bool.
From LJT Require Import gen.GenLayouts.
Import ListNotations.
Local Open Scope Z_scope.

Definition F_bottomUp : Z := 0.
Definition F_fastUpsample : Z := 1.
Definition F_noRealloc : Z := 2.
Definition F_fastDCT : Z := 3.
Definition F_stopOnWarning : Z := 4.
Definition F_progressive : Z := 5.
Definition F_scanLimit : Z := 6.

Definition has (flags mask : Z) : bool := negb (Z.land flags mask =? 0).
Definition b2z (b : bool) : Z := if b then 1 else 0.

Definition pf_step (flags quality op : Z) (e : Z * Z * Z * Z * Z) (st : Z -> Z) : Z -> Z :=
  let '(fld, kind, m1, m2, v) := e in
  fun k =>
    if k =? fld then
      if kind =? 0 then b2z (has flags m1)
      else if kind =? 1 then (if has flags m1 then v else st k)
      else if kind =? 2 then
        (if op =? OP_COMPRESS then b2z (negb ((v <=? quality) || has flags m1)) else b2z (has flags m2))
      else st k
    else st k.

Fixpoint pf_run (flags quality op : Z) (tab : list (Z * Z * Z * Z * Z)) (st : Z -> Z) : Z -> Z :=
  match tab with [] => st | e :: t => pf_run flags quality op t (pf_step flags quality op e st) end.

Definition process_flags (flags quality op : Z) (st : Z -> Z) : Z -> Z :=
  pf_run flags quality op process_flags_entries st.

(* a field is (re)assigned from the flags alone by some statement of the table *)
Definition pf_assigned (tab : list (Z * Z * Z * Z * Z)) (fld : Z) : bool :=
  existsb (fun e => let '(f, kind, _, _, _) := e in (f =? fld) && ((kind =? 0) || (kind =? 2))) tab.

(* the parameters that select row order, upsampling, DCT, buffer handling, entropy coding *)
Definition per_call_fields : list Z := [F_bottomUp; F_fastUpsample; F_noRealloc; F_fastDCT; F_stopOnWarning; F_progressive].
